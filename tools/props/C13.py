"""C13 — a dropped-out sensor sample never corrupts a recursive filter."""
import math, json
import numpy as np
from pysym.gen import Target
from . import common as cm

PID = 'C13'
Q = ['w', 'x', 'y', 'z']
G = ['g0', 'g1', 'g2']
AC = ['a0', 'a1', 'a2']
M = ['m0', 'm1', 'm2']
BB = ['b0', 'b1', 'b2']
H = ['h0', 'h1', 'h2']          # gyroscope row 0 of a two-row record
N0 = ['n0', 'n1', 'n2']         # magnetometer row 0 of a two-row record
W0 = ['r0', 'p0', 'y0']         # initial angles of Complementary
DT = ['dt']
MR = [22.0, 1.5, 41.0]          # concrete magnetic reference for ROLEQ / EKF (avoids tracing the WMM in the constructor)

LEVEL_TEXT = ("Coq theorems over the regenerated per-sample updates of Madgwick, Mahony, AQUA, Fourati, ROLEQ, EKF, UKF and the "
              "two-row drivers of FKF and Complementary with an exact-zero accelerometer and/or magnetometer sample: the step "
              "refuses with ValueError or returns the dead-reckoned / unchanged unit quaternion with the carried state untouched; "
              "a generic induction lifts the step statement to histories with any set of dropout positions. Recovery after the "
              "dropout is explored by the search oracle, not proved.")
LEVEL_NOTE = "needs fixes C13-fkf-dropout, C13-complementary-dropout, C13-ukf-acc-guard (and C03's ukf-sum) to pass without known findings"
TECHNIQUE = "pysym regeneration + Coq (field/nra over generated terms, induction over histories) + vm_compute correspondence + numeric search"
RULE = ("histories: smooth synthetic rotations (3 seeds x amplitudes 0.3/0.8/1.5 rad) of 160-240 samples (and 2..7 samples) with consistent acc/mag/gyr; dropouts: every "
        "combination of zeroed acc / mag / gyr rows, at positions 1, 2, mid, N-2, N-1 and random, lengths 1..25, single, repeated and "
        "overlapping; every recursive filter and architecture; a case is non-trivial when at least one row is zeroed; distinct = "
        "distinct (filter, sensors, position, length, history)")
TRUSTED = [
    "Coq 8.16.1 kernel and vm_compute (used only to run the float copies)",
    "pysym tracing translator (/verif/tools/pysym): NumPy proxy semantics, Gallina printer",
    "real arithmetic stands for binary64 (gap measured by the correspondence, not proved)",
    "stdlib real-number axioms (sig_forall_dec, sig_not_dec, functional_extensionality_dep) and Classical_Prop.classic",
    "C03's step invariant (unit in -> unit out or ValueError on valid samples) enters dropout_history_safe as an explicit premise",
]
PARTIAL = ("recovery after the dropout (estimates return to the no-dropout run) is a convergence claim: explored by the search oracle "
           "only; the history theorem takes the valid-sample step invariant (C03) as a premise; EKF/UKF/FKF valid-sample steps reach "
           "LAPACK and are not modelled (only their dropout guard paths are); float finiteness is explored, not proved")


# ------------------------------------------------------------------------------------------
# targets: the real per-sample updates with exact-zero sensor vectors
# ------------------------------------------------------------------------------------------
def _z():
    return np.zeros(3)


def _sv(*names):
    from pysym.sym import S
    return [S.var(n) for n in names]


def _two_rows(row0, row1):
    """a 2x3 record whose rows are lists of symbols or exact zeros"""
    from pysym import symnp
    from pysym.sym import S
    f = lambda r: [S.const(0)] * 3 if r is None else _sv(*r)
    return symnp.array([f(row0), f(row1)])


def targets():
    F = lambda A: A.filters
    mk = lambda n, i, f, doc='': Target(f'C13_{n}', i, f, doc=doc)
    q = lambda v: v.vec(*Q)
    g = lambda v: v.vec(*G)
    a = lambda v: v.vec(*AC)
    m = lambda v: v.vec(*M)
    mah = lambda A, v: F(A).Mahony(b0=v.vec(*BB))
    mo = lambda f, r: [r, f.b]                       # Mahony: output quaternion and carried bias
    rol = lambda A: F(A).ROLEQ(magnetic_ref=np.array(MR), weights=np.array([1.0, 1.0]))
    ekf = lambda A: F(A).EKF(magnetic_ref=np.array(MR))
    eo = lambda f, r: [r, f.P]                       # EKF / UKF: output quaternion and carried covariance

    def comp(A, v, mag):
        c = F(A).Complementary(gyr=_two_rows(H, G), acc=_two_rows(AC, None), mag=_two_rows(N0, M) if mag else None,
                               w0=v.vec(*W0))
        return [c.W[1], c.Q[1]]

    def fkf(A, v, acc1, mag1):
        f = F(A).FKF(gyr=_two_rows(H, G), acc=_two_rows(AC, acc1), mag=_two_rows(N0, mag1))
        return [f.Q[1], f.Pk]

    return [
        # Madgwick
        mk('mad_imu_a0', Q + G + DT, lambda A, v: F(A).Madgwick().updateIMU(q(v), g(v), _z(), dt=v.dt)),
        mk('mad_marg_a0', Q + G + M + DT, lambda A, v: F(A).Madgwick().updateMARG(q(v), g(v), _z(), m(v), dt=v.dt)),
        mk('mad_marg_am0', Q + G + DT, lambda A, v: F(A).Madgwick().updateMARG(q(v), g(v), _z(), _z(), dt=v.dt)),
        mk('mad_marg_m0', Q + G + AC + DT, lambda A, v: (lambda f: [f.updateMARG(q(v), g(v), a(v), _z(), dt=v.dt),
                                                                    f.updateIMU(A.Quaternion(q(v)), g(v), a(v))])(F(A).Madgwick()),
           'mag dropout, acc valid: [updateMARG(q,gyr,acc,0,dt), updateIMU(Quaternion(q),gyr,acc)] (8 numbers)'),
        # Mahony (with the carried gyro bias)
        mk('mah_imu_a0', Q + G + BB + DT, lambda A, v: (lambda f: mo(f, f.updateIMU(q(v), g(v), _z(), dt=v.dt)))(mah(A, v))),
        mk('mah_marg_a0', Q + G + M + BB + DT, lambda A, v: (lambda f: mo(f, f.updateMARG(q(v), g(v), _z(), m(v), dt=v.dt)))(mah(A, v))),
        mk('mah_marg_am0', Q + G + BB + DT, lambda A, v: (lambda f: mo(f, f.updateMARG(q(v), g(v), _z(), _z(), dt=v.dt)))(mah(A, v))),
        mk('mah_marg_m0', Q + G + AC + BB + DT, lambda A, v: [(lambda f: mo(f, f.updateMARG(q(v), g(v), a(v), _z(), dt=v.dt)))(mah(A, v)),
                                                              (lambda f: mo(f, f.updateIMU(A.Quaternion(q(v)), g(v), a(v))))(mah(A, v))],
           'mag dropout, acc valid: [updateMARG(..,0,dt) + bias, updateIMU(Quaternion(q),..) + bias] on two fresh filters (14 numbers)'),
        # AQUA
        mk('aqua_imu_a0', Q + G + DT, lambda A, v: F(A).AQUA().updateIMU(q(v), g(v), _z(), dt=v.dt)),
        mk('aqua_marg_a0', Q + G + M + DT, lambda A, v: F(A).AQUA().updateMARG(q(v), g(v), _z(), m(v), dt=v.dt)),
        mk('aqua_marg_am0', Q + G + DT, lambda A, v: F(A).AQUA().updateMARG(q(v), g(v), _z(), _z(), dt=v.dt)),
        mk('aqua_marg_m0', Q + G + AC + DT, lambda A, v: (lambda f: [f.updateMARG(q(v), g(v), a(v), _z(), dt=v.dt),
                                                                     f.updateIMU(q(v), g(v), a(v), dt=v.dt)])(F(A).AQUA()),
           'mag dropout, acc valid: [updateMARG(q,gyr,acc,0,dt), updateIMU(q,gyr,acc,dt)] (8 numbers)'),
        # Fourati
        mk('fou_a0', Q + G + M + DT, lambda A, v: F(A).Fourati().update(q(v), g(v), _z(), m(v), dt=v.dt)),
        mk('fou_m0', Q + G + AC + DT, lambda A, v: F(A).Fourati().update(q(v), g(v), a(v), _z(), dt=v.dt)),
        # ROLEQ
        mk('rol_a0', Q + G + M + DT, lambda A, v: rol(A).update(q(v), g(v), _z(), m(v), dt=v.dt)),
        mk('rol_m0', Q + G + AC + DT, lambda A, v: rol(A).update(q(v), g(v), a(v), _z(), dt=v.dt)),
        mk('rol_am0', Q + G + DT, lambda A, v: rol(A).update(q(v), g(v), _z(), _z(), dt=v.dt)),
        # EKF (the guard paths are decided before LAPACK is reached)
        mk('ekf_a0', Q + G + DT, lambda A, v: (lambda f: eo(f, f.update(q(v), g(v), _z(), dt=v.dt)))(ekf(A))),
        mk('ekf_a0_mag', Q + G + M + DT, lambda A, v: (lambda f: eo(f, f.update(q(v), g(v), _z(), m(v), dt=v.dt)))(ekf(A))),
        mk('ekf_m0', Q + G + AC + DT, lambda A, v: ekf(A).update(q(v), g(v), a(v), _z(), dt=v.dt),
           'acc symbolic, mag = 0: every path ends before the Kalman correction'),
        # UKF
        mk('ukf_a0', Q + G + DT, lambda A, v: (lambda f: eo(f, f.update(q(v), g(v), _z(), dt=v.dt)))(F(A).UKF())),
        # FKF: the measurement step and the two-row driver (row 1 is the dropout)
        mk('fkf_meas_a0', Q + M, lambda A, v: F(A).FKF().measurement_quaternion_acc_mag(q(v), _z(), m(v))),
        mk('fkf_meas_m0', Q + AC, lambda A, v: F(A).FKF().measurement_quaternion_acc_mag(q(v), a(v), _z())),
        mk('fkf_a0', H + G + AC + N0 + M, lambda A, v: fkf(A, v, None, M), 'FKF(gyr, acc, mag) on two rows, acc[1] = 0'),
        mk('fkf_m0', H + G + AC + N0 + BB, lambda A, v: fkf(A, v, BB, None), 'FKF(gyr, acc, mag) on two rows, mag[1] = 0 (acc[1] = b)'),
        # Complementary: two-row driver with w0 given, acc[1] = 0
        mk('comp_imu_a0', W0 + H + G + AC, lambda A, v: comp(A, v, False)),
        mk('comp_marg_a0', W0 + H + G + AC + N0 + M, lambda A, v: comp(A, v, True)),
    ]



STAGES = [['C13_lib.v'], ['C13_mm.v', 'C13_rest.v', 'C13_drv.v'], ['C13.v']]
COQ_TIMEOUT = 240


# ------------------------------------------------------------------------------------------
# implementation side
# ------------------------------------------------------------------------------------------
def _F():
    import ahrs
    return ahrs.filters


def _v(c, names):
    return np.array([c[k] for k in names], dtype=float)


def _impl_table():
    F = _F()
    z = lambda: np.zeros(3)
    q = lambda c: _v(c, Q)
    g = lambda c: _v(c, G)
    a = lambda c: _v(c, AC)
    m = lambda c: _v(c, M)
    mah = lambda c: F.Mahony(b0=_v(c, BB))
    mo = lambda f, r: [r, f.b]
    rol = lambda: F.ROLEQ(magnetic_ref=np.array(MR), weights=np.array([1.0, 1.0]))
    ekf = lambda: F.EKF(magnetic_ref=np.array(MR))
    eo = lambda f, r: [r, f.P]
    import ahrs

    def comp(c, mag):
        o = F.Complementary(gyr=np.array([_v(c, H), _v(c, G)]), acc=np.array([_v(c, AC), z()]),
                            mag=np.array([_v(c, N0), _v(c, M)]) if mag else None, w0=_v(c, W0))
        return [o.W[1], o.Q[1]]

    def fkf(c, acc1, mag1):
        o = F.FKF(gyr=np.array([_v(c, H), _v(c, G)]), acc=np.array([_v(c, AC), acc1]), mag=np.array([_v(c, N0), mag1]))
        return [o.Q[1], o.Pk]
    return {
        'mad_imu_a0': lambda c: F.Madgwick().updateIMU(q(c), g(c), z(), dt=c['dt']),
        'mad_marg_a0': lambda c: F.Madgwick().updateMARG(q(c), g(c), z(), m(c), dt=c['dt']),
        'mad_marg_am0': lambda c: F.Madgwick().updateMARG(q(c), g(c), z(), z(), dt=c['dt']),
        'mad_marg_m0': lambda c: (lambda f: [f.updateMARG(q(c), g(c), a(c), z(), dt=c['dt']),
                                             f.updateIMU(ahrs.Quaternion(q(c)), g(c), a(c))])(F.Madgwick()),
        'mah_imu_a0': lambda c: (lambda f: mo(f, f.updateIMU(q(c), g(c), z(), dt=c['dt'])))(mah(c)),
        'mah_marg_a0': lambda c: (lambda f: mo(f, f.updateMARG(q(c), g(c), z(), m(c), dt=c['dt'])))(mah(c)),
        'mah_marg_am0': lambda c: (lambda f: mo(f, f.updateMARG(q(c), g(c), z(), z(), dt=c['dt'])))(mah(c)),
        'mah_marg_m0': lambda c: [(lambda f: mo(f, f.updateMARG(q(c), g(c), a(c), z(), dt=c['dt'])))(mah(c)),
                                  (lambda f: mo(f, f.updateIMU(ahrs.Quaternion(q(c)), g(c), a(c))))(mah(c))],
        'aqua_imu_a0': lambda c: F.AQUA().updateIMU(q(c), g(c), z(), dt=c['dt']),
        'aqua_marg_a0': lambda c: F.AQUA().updateMARG(q(c), g(c), z(), m(c), dt=c['dt']),
        'aqua_marg_am0': lambda c: F.AQUA().updateMARG(q(c), g(c), z(), z(), dt=c['dt']),
        'aqua_marg_m0': lambda c: (lambda f: [f.updateMARG(q(c), g(c), a(c), z(), dt=c['dt']),
                                              f.updateIMU(q(c), g(c), a(c), dt=c['dt'])])(F.AQUA()),
        'fou_a0': lambda c: F.Fourati().update(q(c), g(c), z(), m(c), dt=c['dt']),
        'fou_m0': lambda c: F.Fourati().update(q(c), g(c), a(c), z(), dt=c['dt']),
        'rol_a0': lambda c: rol().update(q(c), g(c), z(), m(c), dt=c['dt']),
        'rol_m0': lambda c: rol().update(q(c), g(c), a(c), z(), dt=c['dt']),
        'rol_am0': lambda c: rol().update(q(c), g(c), z(), z(), dt=c['dt']),
        'ekf_a0': lambda c: (lambda f: eo(f, f.update(q(c), g(c), z(), dt=c['dt'])))(ekf()),
        'ekf_a0_mag': lambda c: (lambda f: eo(f, f.update(q(c), g(c), z(), m(c), dt=c['dt'])))(ekf()),
        'ekf_m0': lambda c: ekf().update(q(c), g(c), a(c), z(), dt=c['dt']),
        'ukf_a0': lambda c: (lambda f: eo(f, f.update(q(c), g(c), z(), dt=c['dt'])))(F.UKF()),
        'fkf_meas_a0': lambda c: F.FKF().measurement_quaternion_acc_mag(q(c), z(), m(c)),
        'fkf_meas_m0': lambda c: F.FKF().measurement_quaternion_acc_mag(q(c), a(c), z()),
        'fkf_a0': lambda c: fkf(c, z(), _v(c, M)),
        'fkf_m0': lambda c: fkf(c, _v(c, BB), z()),
        'comp_imu_a0': lambda c: comp(c, False),
        'comp_marg_a0': lambda c: comp(c, True),
    }


def _case(rng, names, i):
    c = {}
    qq = cm.quats(rng, i + 1)[i][1] if i < 40 else cm.rand_unit_quat(rng)
    c.update(cm.d(Q, qq))
    for grp, sc in ((G, 1.0), (H, 1.0), (AC, 9.8), (M, 40.0), (N0, 40.0), (BB, 0.05), (W0, 1.0)):
        vec = rng.standard_normal(3) * sc
        if grp is G and i % 7 == 3:
            vec = np.zeros(3)                 # exact-zero gyroscope: the early-return path
        if grp is M and i % 11 == 5:
            vec = np.zeros(3)                 # both sensors null
        if grp is BB and i % 5 == 0:
            vec = rng.standard_normal(3) * 9.8  # BB doubles as acc[1] of fkf_m0
        c.update(cm.d(grp, vec))
    c['dt'] = [0.01, 0.005, 0.02, 0.1][i % 4]
    return {k: c[k] for k in names}


def correspondence(ctx):
    I = _impl_table()
    n = ctx.n(24, 240)
    for t in targets():
        name = t.name[len('C13_'):]
        tt = ctx.targets.get(t.name)
        if tt is None or tt.error:
            ctx.say(f"[corr] {t.name}: not translated")
            continue
        cases = [_case(ctx.rng, tt.inputs, i) for i in range(n)]
        heavy = name.startswith(('fkf_a0', 'fkf_m0', 'comp_'))
        ctx.correspond(t.name, cases[: max(8, n // 3)] if heavy else cases, I[name], tol_ulp=512 if heavy else 64)
    # twin targets: on every Val leaf of the regenerated tree the two halves are the SAME DAG nodes
    # (updateMARG with a null magnetometer returns what updateIMU returns); structural, checked on every run
    from pysym.sym import Leaf, Node
    for nm, half, gyr_guard in (('mad_marg_m0', 4, True), ('aqua_marg_m0', 4, False)):   # Mahony's twin: numeric only (o_step)
        tt = ctx.targets.get('C13_' + nm)
        if tt is None or tt.error:
            continue
        bad, leaves = [], 0

        def rec(t, gz):
            nonlocal leaves
            if isinstance(t, Node):
                isg = gyr_guard and 'g0' in repr(t.cond) and 'a0' not in repr(t.cond) and t.cond.op == 'eq'
                rec(t.t, gz or isg); rec(t.f, gz)
                return
            leaves += 1
            if t.kind == 'raise':
                if t.payload != 'ValueError':
                    bad.append(('raise', t.payload))
            elif not gz:
                f = t.flat
                if len(f) != 2 * half or any(f[i] is not f[i + half] for i in range(half)):
                    bad.append(('halves differ', len(f)))
        rec(tt.tree, False)
        if bad:
            ctx.disagree('twin_' + nm, {'target': nm}, 'MARG(mag=0) == IMU on every leaf', bad[:3],
                         note='the magnetometer-dropout step is no longer the IMU step')
        else:
            ctx.agree('twin_' + nm, leaves)
    ctx.say(f"[corr] twin targets: structural identity of the halves checked")


# ------------------------------------------------------------------------------------------
# search oracle: dropouts inside otherwise valid histories
# ------------------------------------------------------------------------------------------
def _history(seed, N, amp):
    """a smooth rotation history with consistent gyr / acc / mag (NED, gravity +z as the filters expect for acc)"""
    rng = np.random.default_rng(seed)
    dt = 0.01
    t = np.arange(N) * dt
    ax = cm.unit(rng.standard_normal(3))
    ang = amp * np.sin(2 * np.pi * 0.4 * t) + 0.3 * amp * np.sin(2 * np.pi * 1.1 * t + 1.0)      # rates up to ~5 rad/s at amp 1.5
    q0 = cm.axang_q(rng.standard_normal(3), 0.4)
    qs = np.array([cm.qmul(q0, cm.axang_q(ax, a)) for a in ang])
    gref, mref = np.array([0.0, 0.0, 9.81]), np.array([22.0, 1.5, 41.0])
    acc = np.array([cm.Rspec(q).T @ gref for q in qs])
    mag = np.array([cm.Rspec(q).T @ mref for q in qs])
    gyr = np.zeros((N, 3))
    for i in range(1, N):
        d = cm.qmul(cm.qconj(qs[i - 1]), qs[i])
        gyr[i] = 2 * d[1:] / dt / max(d[0], 1e-9)
    return gyr, acc, mag, qs


FILTERS = {
    # name: (constructor(gyr, acc, mag) -> Q array (N x 4), uses mag?, recovery samples, recovery tolerance [rad])
    'Madgwick/IMU': (lambda g, a, m: _F().Madgwick(gyr=g, acc=a).Q, False, 100, 0.15),
    'Madgwick/MARG': (lambda g, a, m: _F().Madgwick(gyr=g, acc=a, mag=m).Q, True, 100, 0.15),
    'Mahony/IMU': (lambda g, a, m: _F().Mahony(gyr=g, acc=a).Q, False, 100, 0.15),
    'Mahony/MARG': (lambda g, a, m: _F().Mahony(gyr=g, acc=a, mag=m).Q, True, 100, 0.15),
    'AQUA/IMU': (lambda g, a, m: _F().AQUA(gyr=g, acc=a).Q, False, 100, 0.15),
    'AQUA/MARG': (lambda g, a, m: _F().AQUA(gyr=g, acc=a, mag=m).Q, True, 100, 0.15),
    'Fourati/MARG': (lambda g, a, m: _F().Fourati(gyr=g, acc=a, mag=m).Q, True, 100, 0.15),
    # q0 given: ROLEQ's own initialisation (OLEQ.estimate) draws from the global RNG, so two runs would differ at row 0
    'ROLEQ/MARG': (lambda g, a, m: _F().ROLEQ(gyr=g, acc=a, mag=m, magnetic_ref=np.array(MR), q0=_q0(a, m)).Q, True, 100, 0.15),
    'EKF/IMU': (lambda g, a, m: _F().EKF(gyr=g, acc=a).Q, False, 100, 0.15),
    'EKF/MARG': (lambda g, a, m: _F().EKF(gyr=g, acc=a, mag=m, magnetic_ref=np.array(MR)).Q, True, 100, 0.15),
    'UKF/IMU': (lambda g, a, m: _F().UKF(gyr=g, acc=a).Q, False, 100, 0.15),
    'FKF/MARG': (lambda g, a, m: _F().FKF(gyr=g, acc=a, mag=m).Q, True, 100, 0.15),
    'Complementary/IMU': (lambda g, a, m: _F().Complementary(gyr=g, acc=a).Q, False, 100, 0.15),
    'Complementary/MARG': (lambda g, a, m: _F().Complementary(gyr=g, acc=a, mag=m).Q, True, 100, 0.15),
}


def _q0(a, m):
    from ahrs.common.orientation import ecompass
    q = np.asarray(ecompass(np.asarray(a, float)[0], np.asarray(m, float)[0], frame='NED', representation='quaternion'), float)
    return q / np.linalg.norm(q)


def _qangle(p, q):
    return 2 * math.acos(min(1.0, abs(float(np.dot(p, q)))))


def _as(x, form):
    """the same record handed over as float64 array, Python list, or float32 array"""
    if form == 'list':
        return x.tolist()
    if form == 'f32':
        return x.astype(np.float32)
    return x.copy()


def o_dropout(inp):
    """one filter, one history, one dropout pattern: no NaN/inf, unit norm at and after the dropout, or ValueError;
    after the dropout ends the estimates return to the no-dropout run"""
    from vlib.core import call_outcome
    name = inp['filter']
    run, uses_mag, rec_n, rec_tol = FILTERS[name]
    gyr, acc, mag, _ = _history(inp['seed'], inp['N'], inp['amp'])
    form = inp.get('form', 'f64')
    ref = call_outcome(run, _as(gyr, form), _as(acc, form), _as(mag, form))
    if ref[0] == 'raise':
        return {'tag': f'{name}/clean-history-raises-{ref[1]}', 'observed': list(ref[1:])}
    Qref = np.asarray(ref[1], float)
    g2, a2, m2 = gyr.copy(), acc.copy(), mag.copy()
    last = 0
    for sensor, start, length in inp['drops']:
        {'acc': a2, 'mag': m2, 'gyr': g2}[sensor][start:start + length] = 0.0
        last = max(last, start + length)
    sensors = '+'.join(sorted({d[0] for d in inp['drops']}))
    out = call_outcome(run, _as(g2, form), _as(a2, form), _as(m2, form))
    if out[0] == 'raise':
        if out[1] == 'ValueError':
            return None                               # refusing the record is allowed by the property
        if out[1] == 'LinAlgError':               # covariance lost positive definiteness: one tag per filter
            return {'tag': f'{name}/raises-LinAlgError', 'observed': list(out[1:]), 'expected': 'unit quaternions or ValueError'}
        return {'tag': f'{name}/{sensors}/raises-{out[1]}', 'observed': list(out[1:])}
    Qd = np.asarray(out[1])
    if Qd.shape != Qref.shape:
        return {'tag': f'{name}/{sensors}/shape', 'observed': list(Qd.shape), 'expected': list(Qref.shape)}
    if cm.bad(Qd):
        bad_rows = np.where(~np.isfinite(np.asarray(Qd, float)).all(axis=1))[0]
        return {'tag': f'{name}/{sensors}/non-finite', 'observed': f'{len(bad_rows)} NaN/inf rows, first at {int(bad_rows[0])}',
                'expected': 'finite unit quaternions or ValueError'}
    Qd = np.asarray(Qd, float)
    nrm = np.linalg.norm(Qd, axis=1)
    tol = 1e-9
    if np.max(np.abs(nrm - 1)) > tol:
        k = int(np.argmax(np.abs(nrm - 1)))
        return {'tag': f'{name}/{sensors}/non-unit', 'observed': float(nrm[k]), 'expected': 1.0, 'note': f'row {k}'}
    first = min(d[1] for d in inp['drops'])
    if first > 0 and cm.maxabs(Qd[:first], Qref[:first]) > 1e-12:
        return {'tag': f'{name}/{sensors}/changes-the-past', 'observed': 'rows before the dropout differ'}
    # recovery: explored, with a generous envelope (0.15 rad: far below a lost attitude ~ 1 rad, far above the
    # 0.05-0.07 rad residual the slow filters (FKF, UKF) still show 60 samples after a 10-sample dropout)
    if last + rec_n < len(Qd) and 'gyr' not in sensors:
        err = max(_qangle(Qd[i], Qref[i]) for i in range(last + rec_n, len(Qd)))
        longest = max(d[2] for d in inp['drops'])
        if longest > 10:     # long outage: the slow filters (UKF, FKF) need more than rec_n samples; demand clear recovery instead
            rec_tol = max(rec_tol, 0.8 * _qangle(Qd[min(last, len(Qd) - 1)], Qref[min(last, len(Qd) - 1)]))
        if err > rec_tol:
            return {'tag': f'{name}/{sensors}/no-recovery', 'observed': err, 'expected': f'<= {rec_tol} rad {rec_n} samples after the dropout'}
    return None


def o_step(inp):
    """one public per-sample update with an exact-zero sensor vector: ValueError, or finite unit quaternion and finite
    carried state; equal to the IMU step when only the magnetometer is null"""
    from vlib.core import call_outcome
    I = _impl_table()
    name = inp['target']
    r = call_outcome(I[name], inp['case'])
    if r[0] == 'raise':
        return None if r[1] == 'ValueError' else {'tag': f'{name}/raises-{r[1]}', 'observed': list(r[1:])}
    from vlib.core import flat_floats
    v = np.array(flat_floats(r[1]))
    if cm.bad(v):
        return {'tag': f'{name}/non-finite', 'observed': v}
    k = 3 if name.startswith('comp_') else 0
    qn = float(np.linalg.norm(v[k:k + 4]))
    unit_in = abs(np.linalg.norm([inp['case'].get(x, 0.5) for x in Q]) - 1) < 1e-12 if 'w' in inp['case'] else True
    if unit_in and abs(qn - 1) > 1e-9:
        return {'tag': f'{name}/non-unit', 'observed': qn, 'expected': 1.0}
    if name.endswith('_marg_m0'):
        h = len(v) // 2
        if cm.maxabs(v[:h], v[h:]) > 1e-14:      # (a zero gyroscope returns q normalised once vs twice: 1 ulp)
            return {'tag': f'{name}/not-the-IMU-step', 'observed': v[:h], 'expected': v[h:]}
    return None


ORACLES = {'dropout': o_dropout, 'step': o_step}


def _call(f, inp, what):
    from vlib.core import call_outcome
    r = call_outcome(f, inp)
    if r[0] == 'raise':
        return {'tag': f"{what}/oracle-raises-{r[1]}", 'observed': list(r[1:])}
    return r[1]


def search(ctx, scale):
    rng = ctx.rng
    # (a) per-sample updates on exact zeros, incl. integer / list inputs through the implementation table
    tnames = [t.name[len('C13_'):] for t in targets()]
    for i in range(6 * scale):
        for nm in tnames:
            tt = ctx.targets.get('C13_' + nm)
            names = tt.inputs if tt is not None else Q + G + AC + M + BB + DT + H + N0 + W0
            inp = {'target': nm, 'case': _case(rng, names, i + 50)}
            ctx.check('step', inp, _call(o_step, inp, nm), nontrivial_key=(nm, i))
    # (b) histories
    fnames = list(FILTERS)
    pats = []
    for N in (160, 240):
        for start in (1, 2, N // 2, N - 2, N - 1):
            pats.append((N, start, 1))
        pats += [(N, N // 3, 5), (N, N // 4, 25), (N, 1, 10), (N, N - 6, 6)]
    combos = [('acc',), ('mag',), ('acc', 'mag'), ('gyr',), ('acc', 'gyr'), ('acc', 'mag', 'gyr')]
    k = 0
    for fi, fn in enumerate(fnames):
        uses_mag = FILTERS[fn][1]
        for ci, combo in enumerate(combos):
            if 'mag' in combo and not uses_mag:
                continue
            chosen = [pats[(fi * 7 + ci * 3 + j * 5) % len(pats)] for j in range(2 * scale if scale > 1 else 2)]
            for (N, start, length) in chosen:
                drops = [[s_, int(start), int(length)] for s_ in combo]
                if k % 5 == 4:        # a second, overlapping / repeated dropout
                    drops.append([combo[0], int(max(1, start - 3)), 2])
                form = ('f64', 'f64', 'list')[k % 3]     # float32 records are rejected by the library's input validation (TypeError)
                inp = {'filter': fn, 'seed': int(1 + (k % 3)), 'N': int(N), 'amp': [0.3, 0.8, 1.5][k % 3], 'drops': drops, 'form': form}
                k += 1
                ctx.check('dropout', inp, _call(o_dropout, inp, fn), nontrivial_key=(fn, combo, N, start, length, inp['seed']))
    # short records (N in 2..7) with a dropout at the last / second row
    for fn in fnames:
        for N in (2, 3, 4, 5, 7):
            sens = 'acc'
            inp = {'filter': fn, 'seed': 2, 'N': N, 'amp': 0.5, 'drops': [[sens, N - 1, 1]], 'form': 'f64'}
            ctx.check('dropout', inp, _call(o_dropout, inp, fn), nontrivial_key=(fn, 'short', N))
    ctx.samples.append({'kind': 'search', 'oracle': 'dropout',
                        'input': {'filter': 'Mahony/MARG', 'seed': 1, 'N': 160, 'amp': 0.3, 'drops': [['acc', 40, 5]], 'form': 'f64'}})
