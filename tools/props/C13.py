"""C13 — a dropped-out sensor sample never corrupts a recursive filter."""
import math, json
import numpy as np
from pysym.gen import Target
from . import common as cm

PID = 'C13'
Q = ['w', 'x', 'y', 'z']
G = ['g0', 'g1', 'g2']
AC = ['a0', 'a1', 'a2']
M = ['m0', 'm1', 'm2']
BB = ['b0', 'b1', 'b2']
H = ['h0', 'h1', 'h2']          # gyroscope row 0 of a two-row record
N0 = ['n0', 'n1', 'n2']         # magnetometer row 0 of a two-row record
W0 = ['r0', 'p0', 'y0']         # initial angles of Complementary
DT = ['dt']
MR = [22.0, 1.5, 41.0]          # concrete magnetic reference for ROLEQ / EKF (avoids tracing the WMM in the constructor)

LEVEL_TEXT = ("Coq theorems over the regenerated per-sample updates of Madgwick, Mahony, AQUA, Fourati, ROLEQ, EKF, UKF and the "
              "two-row drivers of FKF and Complementary with an exact-zero accelerometer and/or magnetometer sample: the step "
              "refuses with ValueError or returns the dead-reckoned / unchanged unit quaternion with the carried state untouched; "
              "a generic induction lifts the step statement to histories with any set of dropout positions. Recovery after the "
              "dropout is explored by the search oracle, not proved.")
LEVEL_NOTE = "needs fixes C13-fkf-dropout, C13-complementary-dropout, C13-ukf-acc-guard (and C03's ukf-sum) to pass without known findings"
TECHNIQUE = "pysym regeneration + Coq (field/nra over generated terms, induction over histories) + vm_compute correspondence + numeric search"
RULE = ("histories: smooth synthetic rotations (3 seeds x amplitudes) of 80-160 samples with consistent acc/mag/gyr; dropouts: every "
        "combination of zeroed acc / mag / gyr rows, at positions 1, 2, mid, N-2, N-1 and random, lengths 1..25, single, repeated and "
        "overlapping; every recursive filter and architecture; a case is non-trivial when at least one row is zeroed; distinct = "
        "distinct (filter, sensors, position, length, history)")
TRUSTED = [
    "Coq 8.16.1 kernel and vm_compute (used only to run the float copies)",
    "pysym tracing translator (/verif/tools/pysym): NumPy proxy semantics, Gallina printer",
    "real arithmetic stands for binary64 (gap measured by the correspondence, not proved)",
    "stdlib real-number axioms (sig_forall_dec, sig_not_dec, functional_extensionality_dep) and Classical_Prop.classic",
    "C03's step invariant (unit in -> unit out or ValueError on valid samples) enters dropout_history_safe as an explicit premise",
]
PARTIAL = ("recovery after the dropout (estimates return to the no-dropout run) is a convergence claim: explored by the search oracle "
           "only; the history theorem takes the valid-sample step invariant (C03) as a premise; EKF/UKF/FKF valid-sample steps reach "
           "LAPACK and are not modelled (only their dropout guard paths are); float finiteness is explored, not proved")


# ------------------------------------------------------------------------------------------
# targets: the real per-sample updates with exact-zero sensor vectors
# ------------------------------------------------------------------------------------------
def _z():
    return np.zeros(3)


def _sv(*names):
    from pysym.sym import S
    return [S.var(n) for n in names]


def _two_rows(row0, row1):
    """a 2x3 record whose rows are lists of symbols or exact zeros"""
    from pysym import symnp
    from pysym.sym import S
    f = lambda r: [S.const(0)] * 3 if r is None else _sv(*r)
    return symnp.array([f(row0), f(row1)])


def targets():
    F = lambda A: A.filters
    mk = lambda n, i, f, doc='': Target(f'C13_{n}', i, f, doc=doc)
    q = lambda v: v.vec(*Q)
    g = lambda v: v.vec(*G)
    a = lambda v: v.vec(*AC)
    m = lambda v: v.vec(*M)
    mah = lambda A, v: F(A).Mahony(b0=v.vec(*BB))
    mo = lambda f, r: [r, f.b]                       # Mahony: output quaternion and carried bias
    rol = lambda A: F(A).ROLEQ(magnetic_ref=np.array(MR), weights=np.array([1.0, 1.0]))
    ekf = lambda A: F(A).EKF(magnetic_ref=np.array(MR))
    eo = lambda f, r: [r, f.P]                       # EKF / UKF: output quaternion and carried covariance

    def comp(A, v, mag):
        c = F(A).Complementary(gyr=_two_rows(H, G), acc=_two_rows(AC, None), mag=_two_rows(N0, M) if mag else None,
                               w0=v.vec(*W0))
        return [c.W[1], c.Q[1]]

    def fkf(A, v, acc1, mag1):
        f = F(A).FKF(gyr=_two_rows(H, G), acc=_two_rows(AC, acc1), mag=_two_rows(N0, mag1))
        return [f.Q[1], f.Pk]

    return [
        # Madgwick
        mk('mad_imu_a0', Q + G + DT, lambda A, v: F(A).Madgwick().updateIMU(q(v), g(v), _z(), dt=v.dt)),
        mk('mad_marg_a0', Q + G + M + DT, lambda A, v: F(A).Madgwick().updateMARG(q(v), g(v), _z(), m(v), dt=v.dt)),
        mk('mad_marg_am0', Q + G + DT, lambda A, v: F(A).Madgwick().updateMARG(q(v), g(v), _z(), _z(), dt=v.dt)),
        mk('mad_marg_m0', Q + G + AC + DT, lambda A, v: (lambda f: [f.updateMARG(q(v), g(v), a(v), _z(), dt=v.dt),
                                                                    f.updateIMU(A.Quaternion(q(v)), g(v), a(v))])(F(A).Madgwick()),
           'mag dropout, acc valid: [updateMARG(q,gyr,acc,0,dt), updateIMU(Quaternion(q),gyr,acc)] (8 numbers)'),
        # Mahony (with the carried gyro bias)
        mk('mah_imu_a0', Q + G + BB + DT, lambda A, v: (lambda f: mo(f, f.updateIMU(q(v), g(v), _z(), dt=v.dt)))(mah(A, v))),
        mk('mah_marg_a0', Q + G + M + BB + DT, lambda A, v: (lambda f: mo(f, f.updateMARG(q(v), g(v), _z(), m(v), dt=v.dt)))(mah(A, v))),
        mk('mah_marg_am0', Q + G + BB + DT, lambda A, v: (lambda f: mo(f, f.updateMARG(q(v), g(v), _z(), _z(), dt=v.dt)))(mah(A, v))),
        mk('mah_marg_m0', Q + G + AC + BB + DT, lambda A, v: [(lambda f: mo(f, f.updateMARG(q(v), g(v), a(v), _z(), dt=v.dt)))(mah(A, v)),
                                                              (lambda f: mo(f, f.updateIMU(A.Quaternion(q(v)), g(v), a(v))))(mah(A, v))],
           'mag dropout, acc valid: [updateMARG(..,0,dt) + bias, updateIMU(Quaternion(q),..) + bias] on two fresh filters (14 numbers)'),
        # AQUA
        mk('aqua_imu_a0', Q + G + DT, lambda A, v: F(A).AQUA().updateIMU(q(v), g(v), _z(), dt=v.dt)),
        mk('aqua_marg_a0', Q + G + M + DT, lambda A, v: F(A).AQUA().updateMARG(q(v), g(v), _z(), m(v), dt=v.dt)),
        mk('aqua_marg_am0', Q + G + DT, lambda A, v: F(A).AQUA().updateMARG(q(v), g(v), _z(), _z(), dt=v.dt)),
        mk('aqua_marg_m0', Q + G + AC + DT, lambda A, v: (lambda f: [f.updateMARG(q(v), g(v), a(v), _z(), dt=v.dt),
                                                                     f.updateIMU(q(v), g(v), a(v), dt=v.dt)])(F(A).AQUA()),
           'mag dropout, acc valid: [updateMARG(q,gyr,acc,0,dt), updateIMU(q,gyr,acc,dt)] (8 numbers)'),
        # Fourati
        mk('fou_a0', Q + G + M + DT, lambda A, v: F(A).Fourati().update(q(v), g(v), _z(), m(v), dt=v.dt)),
        mk('fou_m0', Q + G + AC + DT, lambda A, v: F(A).Fourati().update(q(v), g(v), a(v), _z(), dt=v.dt)),
        # ROLEQ
        mk('rol_a0', Q + G + M + DT, lambda A, v: rol(A).update(q(v), g(v), _z(), m(v), dt=v.dt)),
        mk('rol_m0', Q + G + AC + DT, lambda A, v: rol(A).update(q(v), g(v), a(v), _z(), dt=v.dt)),
        mk('rol_am0', Q + G + DT, lambda A, v: rol(A).update(q(v), g(v), _z(), _z(), dt=v.dt)),
        # EKF (the guard paths are decided before LAPACK is reached)
        mk('ekf_a0', Q + G + DT, lambda A, v: (lambda f: eo(f, f.update(q(v), g(v), _z(), dt=v.dt)))(ekf(A))),
        mk('ekf_a0_mag', Q + G + M + DT, lambda A, v: (lambda f: eo(f, f.update(q(v), g(v), _z(), m(v), dt=v.dt)))(ekf(A))),
        mk('ekf_m0', Q + G + AC + DT, lambda A, v: ekf(A).update(q(v), g(v), a(v), _z(), dt=v.dt),
           'acc symbolic, mag = 0: every path ends before the Kalman correction'),
        # UKF
        mk('ukf_a0', Q + G + DT, lambda A, v: (lambda f: eo(f, f.update(q(v), g(v), _z(), dt=v.dt)))(F(A).UKF())),
        # FKF: the measurement step and the two-row driver (row 1 is the dropout)
        mk('fkf_meas_a0', Q + M, lambda A, v: F(A).FKF().measurement_quaternion_acc_mag(q(v), _z(), m(v))),
        mk('fkf_meas_m0', Q + AC, lambda A, v: F(A).FKF().measurement_quaternion_acc_mag(q(v), a(v), _z())),
        mk('fkf_a0', H + G + AC + N0 + M, lambda A, v: fkf(A, v, None, M), 'FKF(gyr, acc, mag) on two rows, acc[1] = 0'),
        mk('fkf_m0', H + G + AC + N0 + BB, lambda A, v: fkf(A, v, BB, None), 'FKF(gyr, acc, mag) on two rows, mag[1] = 0 (acc[1] = b)'),
        # Complementary: two-row driver with w0 given, acc[1] = 0
        mk('comp_imu_a0', W0 + H + G + AC, lambda A, v: comp(A, v, False)),
        mk('comp_marg_a0', W0 + H + G + AC + N0 + M, lambda A, v: comp(A, v, True)),
    ]


STAGES = []
ORACLES = {}
