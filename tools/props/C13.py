"""C13 — a dropped-out sensor sample never corrupts a recursive filter."""
import math, json
import numpy as np
from pysym.gen import Target
from . import common as cm

PID = 'C13'
Q = ['w', 'x', 'y', 'z']
G = ['g0', 'g1', 'g2']
AC = ['a0', 'a1', 'a2']
M = ['m0', 'm1', 'm2']
BB = ['b0', 'b1', 'b2']
H = ['h0', 'h1', 'h2']          # gyroscope row 0 of a two-row record
N0 = ['n0', 'n1', 'n2']         # magnetometer row 0 of a two-row record
W0 = ['r0', 'p0', 'y0']         # initial angles of Complementary
C1 = ['c0', 'c1', 'c2']         # a VALID accelerometer row 1 (recovery step of Complementary)
DT = ['dt']
MR = [22.0, 1.5, 41.0]          # concrete magnetic reference for ROLEQ / EKF (avoids tracing the WMM in the constructor)

LEVEL_TEXT = ("Coq theorems over the regenerated per-sample updates of Madgwick, Mahony, AQUA, Fourati, ROLEQ, EKF, UKF and the "
              "two-row drivers of FKF and Complementary with an exact-zero accelerometer and/or magnetometer sample: the step "
              "refuses with ValueError or returns the dead-reckoned / unchanged unit quaternion with the carried state untouched; "
              "a generic induction lifts the step statement to histories with any set of dropout positions. Recovery after the "
              "dropout is explored by the search oracle, not proved.")
LEVEL_NOTE = "needs fixes C13-fkf-dropout, C13-complementary-dropout, C13-ukf-acc-guard (and C03's ukf-sum) to pass without known findings"
TECHNIQUE = "pysym regeneration + Coq (field/nra over generated terms, induction over histories) + vm_compute correspondence + numeric search"
RULE = ("histories: smooth synthetic rotations (3 seeds x amplitudes 0.3/0.8/1.5 rad) of 160-240 samples (and 2..7 samples) with consistent acc/mag/gyr; dropouts: every "
        "combination of zeroed acc / mag / gyr rows, at positions 1, 2, mid, N-2, N-1 and random, lengths 1..25, single, repeated and "
        "overlapping; every recursive filter and architecture; a case is non-trivial when at least one row is zeroed; distinct = "
        "distinct (filter, sensors, position, length, history)")
TRUSTED = [
    "Coq 8.16.1 kernel and vm_compute (used only to run the float copies)",
    "pysym tracing translator (/verif/tools/pysym): NumPy proxy semantics, Gallina printer",
    "real arithmetic stands for binary64 (gap measured by the correspondence, not proved)",
    "stdlib real-number axioms (sig_forall_dec, sig_not_dec, functional_extensionality_dep) and Classical_Prop.classic",
    "C03's step invariant (unit in -> unit out or ValueError on valid samples) enters dropout_history_safe as an explicit premise",
]
PARTIAL = ("recovery after the dropout (estimates return to the no-dropout run) is a convergence claim: explored by the search oracle "
           "only; the history theorem takes the valid-sample step invariant (C03) as a premise; EKF/UKF/FKF valid-sample steps reach "
           "LAPACK and are not modelled (only their dropout guard paths are); float finiteness is explored, not proved")


# ------------------------------------------------------------------------------------------
# targets: the real per-sample updates with exact-zero sensor vectors
# ------------------------------------------------------------------------------------------
def _z():
    return np.zeros(3)


def _sv(*names):
    from pysym.sym import S
    return [S.var(n) for n in names]


def _two_rows(row0, row1):
    """a 2x3 record whose rows are lists of symbols or exact zeros"""
    from pysym import symnp
    from pysym.sym import S
    f = lambda r: [S.const(0)] * 3 if r is None else _sv(*r)
    return symnp.array([f(row0), f(row1)])


def targets():
    F = lambda A: A.filters
    mk = lambda n, i, f, doc='': Target(f'C13_{n}', i, f, doc=doc)
    q = lambda v: v.vec(*Q)
    g = lambda v: v.vec(*G)
    a = lambda v: v.vec(*AC)
    m = lambda v: v.vec(*M)
    mad = lambda A: F(A).Madgwick(gain=0.4)          # a configured (non-default) gain
    go = lambda f, r: [r, f.gain, f.gain_imu, f.gain_marg]   # Madgwick: output quaternion and the gains after the call
    mah = lambda A, v: F(A).Mahony(b0=v.vec(*BB), k_P=3.0, k_I=0.05)
    mo = lambda f, r: [r, f.b, f.k_P, f.k_I]         # Mahony: output quaternion, carried bias, and the gains after the call
    rol = lambda A, w=(1.0, 1.0): F(A).ROLEQ(magnetic_ref=np.array(MR), weights=np.array(w))
    ro = lambda f, r: [r, f.a]                       # ROLEQ: output quaternion and the weights after the call
    ekf = lambda A: F(A).EKF(magnetic_ref=np.array(MR))
    eo = lambda f, r: [r, f.P]                       # EKF / UKF: output quaternion and carried covariance

    def comp(A, v, mag):
        c = F(A).Complementary(gyr=_two_rows(H, G), acc=_two_rows(AC, None), mag=_two_rows(N0, M) if mag else None,
                               w0=v.vec(*W0), Dt=0.02)       # Dt given, frequency left at its default
        return [c.W[1], c.Q[1]]

    def comp_valid(A, v, mag):
        c = F(A).Complementary(gyr=_two_rows(H, G), acc=_two_rows(AC, C1), mag=_two_rows(N0, M) if mag else None,
                               w0=v.vec(*W0), Dt=0.02, gain=0.95)
        return c.W[1]

    def fkf(A, v, acc1, mag1):
        f = F(A).FKF(gyr=_two_rows(H, G), acc=_two_rows(AC, acc1), mag=_two_rows(N0, mag1))
        return [f.Q[1], f.Pk]

    def nrm0(x):                                     # the test `np.linalg.norm(x) == 0` the filters make, on symbols
        from pysym import symnp
        return symnp.linalg.norm(x) == 0

    def npos(x):
        from pysym import symnp
        return symnp.linalg.norm(x) > 0

    # "null magnetometer => the IMU step": the MARG call, and the specification it is compared with (same symbols):
    #   q^ = Quaternion(q);  gyr null -> q^ ;  otherwise updateIMU(q^, gyr, acc, dt)
    def mad_spec(A, v):
        f = mad(A); qq = A.Quaternion(q(v))
        r = qq.to_array() if nrm0(g(v)) else f.updateIMU(qq, g(v), a(v), dt=v.dt)
        return go(f, r)

    #   Mahony: the same, except that with a null accelerometer too updateMARG never reaches the magnetometer test and
    #   propagates q^ itself (updateIMU(q, ...) does exactly that on q)
    def mah_spec(A, v):
        f = mah(A, v); qq = A.Quaternion(q(v))
        if nrm0(g(v)):
            r = qq.to_array()
        elif npos(a(v)):
            r = f.updateIMU(qq, g(v), a(v), dt=v.dt)
        else:
            r = f.updateIMU(q(v), g(v), a(v), dt=v.dt)
        return mo(f, r)

    return [
        mk('mad_m0', Q + G + AC + DT, lambda A, v: (lambda f: go(f, f.updateMARG(q(v), g(v), a(v), _z(), dt=v.dt)))(mad(A)),
           'updateMARG with a null magnetometer, acc symbolic'),
        mk('mad_m0_spec', Q + G + AC + DT, mad_spec, 'q^ if gyr is null else updateIMU(q^, gyr, acc, dt), q^ = Quaternion(q)'),
        mk('mah_m0', Q + G + AC + BB + DT, lambda A, v: (lambda f: mo(f, f.updateMARG(q(v), g(v), a(v), _z(), dt=v.dt)))(mah(A, v))),
        mk('mah_m0_spec', Q + G + AC + BB + DT, mah_spec),
        # Madgwick
        mk('mad_imu_a0', Q + G + DT, lambda A, v: (lambda f: go(f, f.updateIMU(q(v), g(v), _z(), dt=v.dt)))(mad(A))),
        mk('mad_marg_a0', Q + G + M + DT, lambda A, v: (lambda f: go(f, f.updateMARG(q(v), g(v), _z(), m(v), dt=v.dt)))(mad(A))),
        mk('mad_marg_am0', Q + G + DT, lambda A, v: (lambda f: go(f, f.updateMARG(q(v), g(v), _z(), _z(), dt=v.dt)))(mad(A))),
        mk('mad_marg_m0', Q + G + AC + DT, lambda A, v: (lambda f: [f.updateMARG(q(v), g(v), a(v), _z(), dt=v.dt),
                                                                    f.updateIMU(A.Quaternion(q(v)), g(v), a(v), dt=v.dt), f.gain])(mad(A)),
           'mag dropout, acc valid: [updateMARG(q,gyr,acc,0,dt), updateIMU(Quaternion(q),gyr,acc,dt), gain afterwards] (9 numbers)'),
        # Mahony (with the carried gyro bias)
        mk('mah_imu_a0', Q + G + BB + DT, lambda A, v: (lambda f: mo(f, f.updateIMU(q(v), g(v), _z(), dt=v.dt)))(mah(A, v))),
        mk('mah_marg_a0', Q + G + M + BB + DT, lambda A, v: (lambda f: mo(f, f.updateMARG(q(v), g(v), _z(), m(v), dt=v.dt)))(mah(A, v))),
        mk('mah_marg_am0', Q + G + BB + DT, lambda A, v: (lambda f: mo(f, f.updateMARG(q(v), g(v), _z(), _z(), dt=v.dt)))(mah(A, v))),
        mk('mah_marg_m0', Q + G + AC + BB + DT, lambda A, v: [(lambda f: mo(f, f.updateMARG(q(v), g(v), a(v), _z(), dt=v.dt)))(mah(A, v)),
                                                              (lambda f: mo(f, f.updateIMU(A.Quaternion(q(v)), g(v), a(v), dt=v.dt)))(mah(A, v))],
           'mag dropout, acc valid: [updateMARG(..,0,dt) + bias, updateIMU(Quaternion(q),..) + bias] on two fresh filters (14 numbers)'),
        # AQUA
        mk('aqua_imu_a0', Q + G + DT, lambda A, v: F(A).AQUA().updateIMU(q(v), g(v), _z(), dt=v.dt)),
        mk('aqua_marg_a0', Q + G + M + DT, lambda A, v: F(A).AQUA().updateMARG(q(v), g(v), _z(), m(v), dt=v.dt)),
        mk('aqua_marg_am0', Q + G + DT, lambda A, v: F(A).AQUA().updateMARG(q(v), g(v), _z(), _z(), dt=v.dt)),
        mk('aqua_marg_m0', Q + G + AC + DT, lambda A, v: (lambda f: [f.updateMARG(q(v), g(v), a(v), _z(), dt=v.dt),
                                                                     f.updateIMU(q(v), g(v), a(v), dt=v.dt)])(F(A).AQUA()),
           'mag dropout, acc valid: [updateMARG(q,gyr,acc,0,dt), updateIMU(q,gyr,acc,dt)] (8 numbers)'),
        # Fourati
        mk('fou_a0', Q + G + M + DT, lambda A, v: F(A).Fourati().update(q(v), g(v), _z(), m(v), dt=v.dt)),
        mk('fou_m0', Q + G + AC + DT, lambda A, v: F(A).Fourati().update(q(v), g(v), a(v), _z(), dt=v.dt)),
        # ROLEQ
        mk('rol_a0', Q + G + M + DT, lambda A, v: (lambda f: ro(f, f.update(q(v), g(v), _z(), m(v), dt=v.dt)))(rol(A))),
        mk('rol_m0', Q + G + AC + DT, lambda A, v: (lambda f: ro(f, f.update(q(v), g(v), a(v), _z(), dt=v.dt)))(rol(A))),
        mk('rol_am0', Q + G + DT, lambda A, v: (lambda f: ro(f, f.update(q(v), g(v), _z(), _z(), dt=v.dt)))(rol(A))),
        mk('rol_m0_w10', Q + G + AC + DT, lambda A, v: (lambda f: ro(f, f.update(q(v), g(v), a(v), _z(), dt=v.dt)))(rol(A, (1.0, 0.0))),
           'weights [1, 0]: a null sample of the zero-weighted magnetometer'),
        mk('rol_a0_w01', Q + G + M + DT, lambda A, v: (lambda f: ro(f, f.update(q(v), g(v), _z(), m(v), dt=v.dt)))(rol(A, (0.0, 1.0))),
           'weights [0, 1]: a null sample of the zero-weighted accelerometer'),
        # EKF (the guard paths are decided before LAPACK is reached)
        mk('ekf_a0', Q + G + DT, lambda A, v: (lambda f: eo(f, f.update(q(v), g(v), _z(), dt=v.dt)))(ekf(A))),
        mk('ekf_a0_mag', Q + G + M + DT, lambda A, v: (lambda f: eo(f, f.update(q(v), g(v), _z(), m(v), dt=v.dt)))(ekf(A))),
        mk('ekf_m0', Q + G + AC + DT, lambda A, v: ekf(A).update(q(v), g(v), a(v), _z(), dt=v.dt),
           'acc symbolic, mag = 0: every path ends before the Kalman correction'),
        # UKF
        mk('ukf_a0', Q + G + DT, lambda A, v: (lambda f: eo(f, f.update(q(v), g(v), _z(), dt=v.dt)))(F(A).UKF())),
        # FKF: the measurement step and the two-row driver (row 1 is the dropout)
        mk('fkf_meas_a0', Q + M, lambda A, v: F(A).FKF().measurement_quaternion_acc_mag(q(v), _z(), m(v))),
        mk('fkf_meas_m0', Q + AC, lambda A, v: F(A).FKF().measurement_quaternion_acc_mag(q(v), a(v), _z())),
        mk('fkf_a0', H + G + AC + N0 + M, lambda A, v: fkf(A, v, None, M), 'FKF(gyr, acc, mag) on two rows, acc[1] = 0'),
        mk('fkf_m0', H + G + AC + N0 + BB, lambda A, v: fkf(A, v, BB, None), 'FKF(gyr, acc, mag) on two rows, mag[1] = 0 (acc[1] = b)'),
        # Complementary: two-row driver with w0 given, acc[1] = 0
        mk('comp_imu_a0', W0 + H + G + AC, lambda A, v: comp(A, v, False)),
        mk('comp_marg_a0', W0 + H + G + AC + N0 + M, lambda A, v: comp(A, v, True)),
        # Complementary: the valid (blending) step after an outage, angles only
        mk('comp_imu_v', W0 + H + G + AC + C1, lambda A, v: comp_valid(A, v, False), 'W[1] with a valid acc[1], gain 0.95, Dt 0.02'),
        mk('comp_marg_v', W0 + H + G + AC + C1 + N0 + M, lambda A, v: comp_valid(A, v, True)),
    ]



STAGES = [['C13_lib.v'], ['C13_mm.v', 'C13_mah.v', 'C13_rest.v', 'C13_drv.v', 'C13_comp.v', 'C13_eq.v'], ['C13_rec.v'], ['C13.v']]
# thorough tier only: the kernel needs 1-3 minutes for these two walks
STAGES_THOROUGH = [['C13_t_fkf.v', 'C13_t_aqua.v']]
COQ_TIMEOUT = 240


# ------------------------------------------------------------------------------------------
# implementation side
# ------------------------------------------------------------------------------------------
def _F():
    import ahrs
    return ahrs.filters


def _v(c, names):
    return np.array([c[k] for k in names], dtype=float)


def _impl_table():
    F = _F()
    z = lambda: np.zeros(3)
    q = lambda c: _v(c, Q)
    g = lambda c: _v(c, G)
    a = lambda c: _v(c, AC)
    m = lambda c: _v(c, M)
    mad = lambda: F.Madgwick(gain=0.4)
    go = lambda f, r: [r, f.gain, f.gain_imu, f.gain_marg]
    mah = lambda c: F.Mahony(b0=_v(c, BB), k_P=3.0, k_I=0.05)
    mo = lambda f, r: [r, f.b, f.k_P, f.k_I]
    rol = lambda w=(1.0, 1.0): F.ROLEQ(magnetic_ref=np.array(MR), weights=np.array(w))
    ro = lambda f, r: [r, f.a]
    ekf = lambda: F.EKF(magnetic_ref=np.array(MR))
    eo = lambda f, r: [r, f.P]
    import ahrs

    def comp(c, mag):
        o = F.Complementary(gyr=np.array([_v(c, H), _v(c, G)]), acc=np.array([_v(c, AC), z()]),
                            mag=np.array([_v(c, N0), _v(c, M)]) if mag else None, w0=_v(c, W0), Dt=0.02)
        return [o.W[1], o.Q[1]]

    def comp_valid(c, mag):
        o = F.Complementary(gyr=np.array([_v(c, H), _v(c, G)]), acc=np.array([_v(c, AC), _v(c, C1)]),
                            mag=np.array([_v(c, N0), _v(c, M)]) if mag else None, w0=_v(c, W0), Dt=0.02, gain=0.95)
        return o.W[1]

    def fkf(c, acc1, mag1):
        o = F.FKF(gyr=np.array([_v(c, H), _v(c, G)]), acc=np.array([_v(c, AC), acc1]), mag=np.array([_v(c, N0), mag1]))
        return [o.Q[1], o.Pk]
    def mad_spec(c):
        f = mad(); qq = ahrs.Quaternion(q(c))
        return go(f, qq.to_array() if np.linalg.norm(g(c)) == 0 else f.updateIMU(qq, g(c), a(c), dt=c['dt']))

    def mah_spec(c):
        f = mah(c); qq = ahrs.Quaternion(q(c))
        if np.linalg.norm(g(c)) == 0:
            r = qq.to_array()
        elif np.linalg.norm(a(c)) > 0:
            r = f.updateIMU(qq, g(c), a(c), dt=c['dt'])
        else:
            r = f.updateIMU(q(c), g(c), a(c), dt=c['dt'])
        return mo(f, r)
    return {
        'mad_m0': lambda c: (lambda f: go(f, f.updateMARG(q(c), g(c), a(c), z(), dt=c['dt'])))(mad()),
        'mad_m0_spec': mad_spec,
        'mah_m0': lambda c: (lambda f: mo(f, f.updateMARG(q(c), g(c), a(c), z(), dt=c['dt'])))(mah(c)),
        'mah_m0_spec': mah_spec,
        'mad_imu_a0': lambda c: (lambda f: go(f, f.updateIMU(q(c), g(c), z(), dt=c['dt'])))(mad()),
        'mad_marg_a0': lambda c: (lambda f: go(f, f.updateMARG(q(c), g(c), z(), m(c), dt=c['dt'])))(mad()),
        'mad_marg_am0': lambda c: (lambda f: go(f, f.updateMARG(q(c), g(c), z(), z(), dt=c['dt'])))(mad()),
        'mad_marg_m0': lambda c: (lambda f: [f.updateMARG(q(c), g(c), a(c), z(), dt=c['dt']),
                                             f.updateIMU(ahrs.Quaternion(q(c)), g(c), a(c), dt=c['dt']), f.gain])(mad()),
        'mah_imu_a0': lambda c: (lambda f: mo(f, f.updateIMU(q(c), g(c), z(), dt=c['dt'])))(mah(c)),
        'mah_marg_a0': lambda c: (lambda f: mo(f, f.updateMARG(q(c), g(c), z(), m(c), dt=c['dt'])))(mah(c)),
        'mah_marg_am0': lambda c: (lambda f: mo(f, f.updateMARG(q(c), g(c), z(), z(), dt=c['dt'])))(mah(c)),
        'mah_marg_m0': lambda c: [(lambda f: mo(f, f.updateMARG(q(c), g(c), a(c), z(), dt=c['dt'])))(mah(c)),
                                  (lambda f: mo(f, f.updateIMU(ahrs.Quaternion(q(c)), g(c), a(c), dt=c['dt'])))(mah(c))],
        'aqua_imu_a0': lambda c: F.AQUA().updateIMU(q(c), g(c), z(), dt=c['dt']),
        'aqua_marg_a0': lambda c: F.AQUA().updateMARG(q(c), g(c), z(), m(c), dt=c['dt']),
        'aqua_marg_am0': lambda c: F.AQUA().updateMARG(q(c), g(c), z(), z(), dt=c['dt']),
        'aqua_marg_m0': lambda c: (lambda f: [f.updateMARG(q(c), g(c), a(c), z(), dt=c['dt']),
                                              f.updateIMU(q(c), g(c), a(c), dt=c['dt'])])(F.AQUA()),
        'fou_a0': lambda c: F.Fourati().update(q(c), g(c), z(), m(c), dt=c['dt']),
        'fou_m0': lambda c: F.Fourati().update(q(c), g(c), a(c), z(), dt=c['dt']),
        'rol_a0': lambda c: (lambda f: ro(f, f.update(q(c), g(c), z(), m(c), dt=c['dt'])))(rol()),
        'rol_m0': lambda c: (lambda f: ro(f, f.update(q(c), g(c), a(c), z(), dt=c['dt'])))(rol()),
        'rol_am0': lambda c: (lambda f: ro(f, f.update(q(c), g(c), z(), z(), dt=c['dt'])))(rol()),
        'rol_m0_w10': lambda c: (lambda f: ro(f, f.update(q(c), g(c), a(c), z(), dt=c['dt'])))(rol((1.0, 0.0))),
        'rol_a0_w01': lambda c: (lambda f: ro(f, f.update(q(c), g(c), z(), m(c), dt=c['dt'])))(rol((0.0, 1.0))),
        'ekf_a0': lambda c: (lambda f: eo(f, f.update(q(c), g(c), z(), dt=c['dt'])))(ekf()),
        'ekf_a0_mag': lambda c: (lambda f: eo(f, f.update(q(c), g(c), z(), m(c), dt=c['dt'])))(ekf()),
        'ekf_m0': lambda c: ekf().update(q(c), g(c), a(c), z(), dt=c['dt']),
        'ukf_a0': lambda c: (lambda f: eo(f, f.update(q(c), g(c), z(), dt=c['dt'])))(F.UKF()),
        'fkf_meas_a0': lambda c: F.FKF().measurement_quaternion_acc_mag(q(c), z(), m(c)),
        'fkf_meas_m0': lambda c: F.FKF().measurement_quaternion_acc_mag(q(c), a(c), z()),
        'fkf_a0': lambda c: fkf(c, z(), _v(c, M)),
        'fkf_m0': lambda c: fkf(c, _v(c, BB), z()),
        'comp_imu_a0': lambda c: comp(c, False),
        'comp_marg_a0': lambda c: comp(c, True),
        'comp_imu_v': lambda c: comp_valid(c, False),
        'comp_marg_v': lambda c: comp_valid(c, True),
    }


def _case(rng, names, i):
    c = {}
    qq = cm.quats(rng, i + 1)[i][1] if i < 40 else cm.rand_unit_quat(rng)
    c.update(cm.d(Q, qq))
    for grp, sc in ((G, 1.0), (H, 1.0), (AC, 9.8), (C1, 9.8), (M, 40.0), (N0, 40.0), (BB, 0.05), (W0, 1.0)):
        vec = rng.standard_normal(3) * sc
        if grp is G and i % 7 == 3:
            vec = np.zeros(3)                 # exact-zero gyroscope: the early-return path
        if grp is M and i % 11 == 5:
            vec = np.zeros(3)                 # both sensors null
        if grp is BB and i % 5 == 0:
            vec = rng.standard_normal(3) * 9.8  # BB doubles as acc[1] of fkf_m0
        c.update(cm.d(grp, vec))
    c['dt'] = [0.01, 0.005, 0.02, 0.1][i % 4]
    return {k: c[k] for k in names}


def correspondence(ctx):
    I = _impl_table()
    n = ctx.n(24, 240)
    jobs = []
    for t in targets():
        name = t.name[len('C13_'):]
        tt = ctx.targets.get(t.name)
        if tt is None or tt.error:
            ctx.say(f"[corr] {t.name}: not translated")
            continue
        cases = [_case(ctx.rng, tt.inputs, i) for i in range(n)]
        heavy = name.startswith(('fkf_a0', 'fkf_m0', 'comp_', 'mad_m0', 'mah_m0'))
        jobs.append((t.name, cases[: max(8, n // 3)] if heavy else cases, I[name], 512 if heavy else 64))
    # one coqc process per target; the cases were drawn above in a fixed order, so running them concurrently is deterministic
    from concurrent.futures import ThreadPoolExecutor
    with ThreadPoolExecutor(max_workers=6) as ex:
        list(ex.map(lambda j: ctx.correspond(j[0], j[1], j[2], tol_ulp=j[3]), jobs))
    # twin targets: on every Val leaf of the regenerated tree the two halves are the SAME DAG nodes
    # (updateMARG with a null magnetometer returns what updateIMU returns); structural, checked on every run
    from pysym.sym import Leaf, Node
    from fractions import Fraction
    for nm, half, gyr_guard in (('mad_marg_m0', 4, True), ('aqua_marg_m0', 4, False)):   # Mahony's twin: numeric only (o_step)
        tt = ctx.targets.get('C13_' + nm)
        if tt is None or tt.error:
            continue
        bad, leaves = [], 0

        def rec(t, gz):
            nonlocal leaves
            if isinstance(t, Node):
                isg = gyr_guard and 'g0' in repr(t.cond) and 'a0' not in repr(t.cond) and t.cond.op == 'eq'
                rec(t.t, gz or isg); rec(t.f, gz)
                return
            leaves += 1
            if t.kind == 'raise':
                if t.payload != 'ValueError':
                    bad.append(('raise', t.payload))
            else:
                f = t.flat
                if not gz and (len(f) < 2 * half or any(f[i] is not f[i + half] for i in range(half))):
                    bad.append(('halves differ', len(f)))      # (in the zero-gyro branch q is normalised once vs twice)
                if nm == 'mad_marg_m0' and not (len(f) == 9 and f[8].is_const and f[8].value == Fraction(2, 5)):
                    bad.append(('gain changed by the null-magnetometer step', repr(f[8]) if len(f) == 9 else len(f)))
        rec(tt.tree, False)
        if bad:
            ctx.disagree('twin_' + nm, {'target': nm}, 'MARG(mag=0) == IMU on every leaf', bad[:3],
                         note='the magnetometer-dropout step is no longer the IMU step')
        else:
            ctx.agree('twin_' + nm, leaves)
    ctx.say(f"[corr] twin targets: structural identity of the halves checked")


# ------------------------------------------------------------------------------------------
# search oracle: dropouts inside otherwise valid histories, for default AND non-default configurations
# ------------------------------------------------------------------------------------------
DT0 = 0.01
MREF = {'NED': np.array([22.0, 1.5, 41.0]), 'ENU': np.array([1.5, 22.0, -41.0])}
GREF = {'NED': np.array([0.0, 0.0, 9.81]), 'ENU': np.array([0.0, 0.0, -9.81])}


def _history(seed, N, amp, bias=(0.0, 0.0, 0.0), frame='NED', dt=0.01):
    """a smooth rotation history with a true heading far from zero (about 1.2-2 rad), consistent gyr / acc / mag in the
    given frame, and a constant gyroscope bias"""
    rng = np.random.default_rng(seed)
    t = np.arange(N) * dt
    ax = cm.unit(rng.standard_normal(3))
    ang = amp * np.sin(2 * np.pi * 0.4 * t) + 0.3 * amp * np.sin(2 * np.pi * 1.1 * t + 1.0)      # rates up to ~5 rad/s at amp 1.5
    q0 = cm.qmul(cm.axang_q([0, 0, 1], 1.2 + 0.4 * seed), cm.axang_q(rng.standard_normal(3), 0.4))
    qs = np.array([cm.qmul(q0, cm.axang_q(ax, a)) for a in ang])
    acc = np.array([cm.Rspec(q).T @ GREF[frame] for q in qs])
    mag = np.array([cm.Rspec(q).T @ MREF[frame] for q in qs])
    gyr = np.zeros((N, 3))
    for i in range(1, N):
        d = cm.qmul(cm.qconj(qs[i - 1]), qs[i])
        gyr[i] = 2 * d[1:] / dt / max(d[0], 1e-9)
    gyr[1:] += np.asarray(bias, float)
    return gyr, acc, mag, qs


def _q0(a, m, frame='NED'):
    from ahrs.common.orientation import ecompass
    q = np.asarray(ecompass(np.asarray(a, float)[0], np.asarray(m, float)[0], frame=frame, representation='quaternion'), float)
    return q / np.linalg.norm(q)


# variant -> (class name, uses mag?, constructor kwargs, kind of the skipped correction on a null-acc row, frame)
#   kind: 'dr'  = q (x) (0,w) dead reckoning;  'drL' = AQUA's (0,-w) (x) q;  'hold' = prior returned;  'refuse' = ValueError;
#         'ang' = Complementary angles integrate the gyroscopes
VARIANTS = {
    'Madgwick/IMU': ('Madgwick', False, {}, 'dr', 'NED'),
    'Madgwick/IMU/gain=0.4': ('Madgwick', False, {'gain': 0.4}, 'dr', 'NED'),
    'Madgwick/MARG': ('Madgwick', True, {}, 'dr', 'NED'),
    'Madgwick/MARG/gain=0.4': ('Madgwick', True, {'gain': 0.4}, 'dr', 'NED'),
    'Madgwick/MARG/gain_marg=0.2': ('Madgwick', True, {'gain_marg': 0.2, 'gain_imu': 0.01}, 'dr', 'NED'),
    'Mahony/IMU': ('Mahony', False, {}, 'dr', 'NED'),
    'Mahony/IMU/kP=3,kI=0.05': ('Mahony', False, {'k_P': 3.0, 'k_I': 0.05}, 'dr', 'NED'),
    'Mahony/MARG': ('Mahony', True, {}, 'dr', 'NED'),
    'Mahony/MARG/kP=0.5,kI=1': ('Mahony', True, {'k_P': 0.5, 'k_I': 1.0, 'b0': [0.01, 0.0, -0.01]}, 'dr', 'NED'),
    'AQUA/IMU': ('AQUA', False, {}, 'drL', 'NED'),
    'AQUA/IMU/adaptive': ('AQUA', False, {'adaptive': True, 'alpha': 0.05}, 'drL', 'NED'),
    'AQUA/MARG': ('AQUA', True, {}, 'drL', 'NED'),
    'AQUA/MARG/adaptive': ('AQUA', True, {'adaptive': True, 'beta': 0.05, 'threshold': 0.95}, 'drL', 'NED'),
    'Fourati/MARG': ('Fourati', True, {}, 'refuse', 'NED'),
    'Fourati/MARG/gain=0.5': ('Fourati', True, {'gain': 0.5}, 'refuse', 'NED'),
    'ROLEQ/MARG': ('ROLEQ', True, {'magnetic_ref': MREF['NED']}, 'dr', 'NED'),
    'ROLEQ/MARG/w=[1,0]': ('ROLEQ', True, {'magnetic_ref': MREF['NED'], 'weights': [1.0, 0.0]}, 'dr', 'NED'),
    'ROLEQ/MARG/w=[0,1]': ('ROLEQ', True, {'magnetic_ref': MREF['NED'], 'weights': [0.0, 1.0]}, 'dr', 'NED'),
    'ROLEQ/MARG/w=[.7,.3]': ('ROLEQ', True, {'magnetic_ref': MREF['NED'], 'weights': [0.7, 0.3]}, 'dr', 'NED'),
    'EKF/IMU': ('EKF', False, {}, 'hold', 'NED'),
    'EKF/IMU/noises': ('EKF', False, {'noises': [0.1**2, 0.3**2, 0.5**2]}, 'hold', 'NED'),
    'EKF/MARG': ('EKF', True, {'magnetic_ref': MREF['NED']}, 'hold', 'NED'),
    'EKF/MARG/ENU': ('EKF', True, {'magnetic_ref': MREF['ENU'], 'frame': 'ENU', 'noises': [0.2**2, 0.4**2, 0.6**2]}, 'hold', 'ENU'),
    'UKF/IMU': ('UKF', False, {}, 'hold', 'NED'),
    'UKF/IMU/alpha=0.1': ('UKF', False, {'alpha': 0.1, 'beta': 1.0}, 'hold', 'NED'),
    'FKF/MARG': ('FKF', True, {}, 'dr', 'NED'),
    'FKF/MARG/sigmas': ('FKF', True, {'sigma_g': 0.05, 'sigma_a': 0.02, 'sigma_m': 0.03, 'Pk': 0.1}, 'dr', 'NED'),
    'Complementary/IMU': ('Complementary', False, {}, 'ang', 'NED'),
    'Complementary/IMU/gain=0.5': ('Complementary', False, {'gain': 0.5}, 'ang', 'NED'),
    'Complementary/MARG': ('Complementary', True, {}, 'ang', 'NED'),
    'Complementary/MARG/gain=0.98': ('Complementary', True, {'gain': 0.98}, 'ang', 'NED'),
    'Complementary/MARG/gain=0.5': ('Complementary', True, {'gain': 0.5}, 'ang', 'NED'),
}

# the sampling step configured as `Dt=` only and as `frequency=` only (non-default), for every filter
def _step_variants():
    base = {'Madgwick': ('dr', {}), 'Mahony': ('dr', {}), 'AQUA': ('drL', {}), 'Fourati': ('refuse', {}),
            'ROLEQ': ('dr', {'magnetic_ref': MREF['NED']}), 'EKF': ('hold', {'magnetic_ref': MREF['NED']}),
            'UKF': ('hold', {}), 'FKF': ('dr', {}), 'Complementary': ('ang', {'gain': 0.95})}
    plan = {'Madgwick': [(True, {'Dt': 0.02}), (False, {'frequency': 200.0})],
            'Mahony': [(True, {'frequency': 25.0}), (False, {'Dt': 0.004})],
            'AQUA': [(True, {'Dt': 0.02}), (False, {'frequency': 200.0})],
            'Fourati': [(True, {'Dt': 0.02})],
            'ROLEQ': [(True, {'Dt': 0.004}), (True, {'frequency': 25.0})],
            'EKF': [(False, {'Dt': 0.02}), (True, {'frequency': 200.0})],
            'UKF': [(False, {'Dt': 0.02}), (False, {'frequency': 200.0})],
            'FKF': [(True, {'Dt': 0.02}), (True, {'frequency': 200.0})],
            'Complementary': [(False, {'Dt': 0.02}), (True, {'Dt': 0.004}), (True, {'frequency': 25.0}), (False, {'frequency': 200.0})]}
    out = {}
    for cls, lst in plan.items():
        kind, kw0 = base[cls]
        for uses_mag, stepkw in lst:
            if cls == 'EKF' and not uses_mag:
                kw0 = {}
            k, v = next(iter(stepkw.items()))
            out[f"{cls}/{'MARG' if uses_mag else 'IMU'}/{k}={v:g}"] = (cls, uses_mag, {**kw0, **stepkw}, kind, 'NED')
    return out


STEP_VARIANTS = _step_variants()
VARIANTS.update(STEP_VARIANTS)


def _step(kw):
    """the sampling step a configuration asks for"""
    return float(kw['Dt']) if 'Dt' in kw else 1.0 / float(kw.get('frequency', 100.0))

# the declared carried state and the sensor data themselves; every other attribute is configuration
CARRIED = {'Q', 'q', 'b', 'P', 'Pk', 'alpha', 'W', 'gyr', 'acc', 'mag', 'q0', 'w0',
           'R'}     # EKF rebuilds R from `noises` at every corrected update (derived, not configuration)


def _gsign(cls):
    return -1.0 if cls == 'ROLEQ' else 1.0      # ROLEQ's NED gravity reference is (0,0,-1)


def _build(variant, g, a, m, q_true0):
    cls, uses_mag, kw, kind, frame = VARIANTS[variant]
    kw = {k: (np.array(v, float) if isinstance(v, (list, np.ndarray)) else v) for k, v in kw.items()}
    C = getattr(_F(), cls)
    if cls == 'ROLEQ' or frame == 'ENU':
        # ROLEQ's own initialisation draws from the global RNG (two runs would differ at row 0); EKF's ENU initialisation
        # starts half a turn away: both get the true initial attitude
        kw['q0'] = np.array(q_true0, float)
    if uses_mag:
        return C(gyr=g, acc=a, mag=m, **kw)
    return C(gyr=g, acc=a, **kw)


def _config(obj):
    out = {}
    for k, v in vars(obj).items():
        if k in CARRIED or k.startswith('_'):
            continue
        if isinstance(v, (bool, int, float, str, np.floating, np.integer)) or v is None:
            out[k] = v
        elif isinstance(v, (list, tuple, np.ndarray)):
            try:
                out[k] = np.array(v, dtype=float).tolist()
            except Exception:
                out[k] = repr(v)
    return out


def _cfg_diff(c0, c1):
    bad = []
    for k in sorted(set(c0) | set(c1)):
        a, b = c0.get(k, '<absent>'), c1.get(k, '<absent>')
        same = (a == b) or (isinstance(a, float) and isinstance(b, float) and a != a and b != b)
        if not same:
            bad.append((k, a, b))
    return bad


def _qangle(p, q):
    return 2 * math.acos(min(1.0, abs(float(np.dot(p, q)))))


def _qdist(p, q):
    """distance of two unit quaternions as rotations (sign-insensitive), accurate near 0"""
    p, q = np.asarray(p, float), np.asarray(q, float)
    return 2 * min(np.linalg.norm(p - q), np.linalg.norm(p + q))


def _dr(q, g, h, left=False):
    w, x, y, z = q
    g0, g1, g2 = g
    if left:
        v = np.array([w + h / 2 * (g0 * x + g1 * y + g2 * z), x + h / 2 * (-g0 * w + g2 * y - g1 * z),
                      y + h / 2 * (-g1 * w - g2 * x + g0 * z), z + h / 2 * (-g2 * w + g1 * x - g0 * y)])
    else:
        v = np.array([w + h / 2 * (-x * g0 - y * g1 - z * g2), x + h / 2 * (w * g0 + y * g2 - z * g1),
                      y + h / 2 * (w * g1 - x * g2 + z * g0), z + h / 2 * (w * g2 + x * g1 - y * g0)])
    return v / np.linalg.norm(v)


def _as(x, form):
    return x.tolist() if form == 'list' else x.copy()


def o_dropout(inp):
    """one filter configuration, one history, one dropout pattern, compared with the same filter on the clean history:
    ValueError or — no NaN/inf, unit norm, the past untouched, the configuration untouched, DURING the outage exactly the
    filter's own dead reckoning (the closed forms of the Coq theorems), right AFTER the outage a deviation that gyro drift
    over the outage explains, later no worse"""
    from vlib.core import call_outcome
    name = inp['filter']
    cls, uses_mag, kw, kind, frame = VARIANTS[name]
    DT = _step(kw)                                    # the step this configuration asks for: data and closed forms use it
    gyr, acc, mag, qs = _history(inp['seed'], inp['N'], inp['amp'], inp.get('bias', (0, 0, 0)), frame, DT)
    acc = acc * _gsign(cls)
    form = inp.get('form', 'f64')
    ref = call_outcome(_build, name, _as(gyr, form), _as(acc, form), _as(mag, form), qs[0])
    if ref[0] == 'raise':
        return {'tag': f'{name}/clean-history-raises-{ref[1]}', 'observed': list(ref[1:])}
    oref = ref[1]
    Qref = np.asarray(oref.Q, float)
    g2, a2, m2 = gyr.copy(), acc.copy(), mag.copy()
    for sensor, start, length in inp['drops']:
        {'acc': a2, 'mag': m2, 'gyr': g2}[sensor][start:start + length] = 0.0
    sensors = '+'.join(sorted({d[0] for d in inp['drops']}))
    out = call_outcome(lambda: (lambda o: (o, np.asarray(o.Q)))(_build(name, _as(g2, form), _as(a2, form), _as(m2, form), qs[0])))
    if out[0] == 'raise':
        if out[1] == 'ValueError':
            return None                               # refusing the record is allowed by the property
        if out[1] == 'LinAlgError':               # covariance lost positive definiteness: one tag per filter class
            return {'tag': f'{cls}/raises-LinAlgError', 'observed': list(out[1:]), 'expected': 'unit quaternions or ValueError'}
        return {'tag': f'{name}/{sensors}/raises-{out[1]}', 'observed': list(out[1:])}
    od, Qd = out[1]
    if Qd.shape != Qref.shape:
        return {'tag': f'{name}/{sensors}/shape', 'observed': list(Qd.shape), 'expected': list(Qref.shape)}
    if cm.bad(Qd):
        bad_rows = np.where(~np.isfinite(np.asarray(Qd, float)).all(axis=1))[0]
        return {'tag': f'{name}/{sensors}/non-finite', 'observed': f'{len(bad_rows)} NaN/inf rows, first at {int(bad_rows[0])}',
                'expected': 'finite unit quaternions or ValueError'}
    Qd = np.asarray(Qd, float)
    nrm = np.linalg.norm(Qd, axis=1)
    if np.max(np.abs(nrm - 1)) > 1e-9:
        kk = int(np.argmax(np.abs(nrm - 1)))
        return {'tag': f'{name}/{sensors}/non-unit', 'observed': float(nrm[kk]), 'expected': 1.0, 'note': f'row {kk}'}
    first = min(d[1] for d in inp['drops'])
    if first > 0 and cm.maxabs(Qd[:first], Qref[:first]) > 1e-12:
        return {'tag': f'{name}/{sensors}/changes-the-past', 'observed': 'rows before the dropout differ'}
    # (b) configuration: everything but the declared carried state must equal the clean run's
    diff = _cfg_diff(_config(oref), _config(od))
    if diff:
        return {'tag': f'{name}/dropout-changes-configuration', 'observed': {k: b for k, a, b in diff}, 'expected': {k: a for k, a, b in diff}}
    # (a1) during the outage: exactly the filter's own dead reckoning of its previous output
    N = len(Qd)
    za = np.linalg.norm(a2, axis=1) == 0
    zm = (np.linalg.norm(m2, axis=1) == 0) if uses_mag else np.zeros(N, bool)
    zg = np.linalg.norm(g2, axis=1) == 0
    Wd = np.asarray(od.W, float) if kind == 'ang' else None
    for t in range(1, N):
        skip = za[t] or (zm[t] and cls in ('ROLEQ', 'FKF'))
        if not skip:
            continue
        if kind == 'ang':
            ncomp = 3 if uses_mag else 2
            exp = Wd[t - 1, :ncomp] + g2[t, :ncomp] * DT
            if cm.maxabs(Wd[t, :ncomp], exp) > 1e-12:
                return {'tag': f'{name}/{sensors}/not-dead-reckoned', 'observed': Wd[t], 'expected': exp, 'note': f'angles at row {t}'}
            continue
        if kind == 'hold' or (zg[t] and cls in ('Madgwick', 'Mahony', 'AQUA')):
            exp = Qd[t - 1]
        else:
            exp = _dr(Qd[t - 1], g2[t], DT, left=(kind == 'drL'))
        if _qdist(Qd[t], exp) > 1e-12:
            return {'tag': f'{name}/{sensors}/not-dead-reckoned', 'observed': Qd[t], 'expected': exp, 'note': f'row {t}'}
    # (a2) right after the outage (and from then on): the deviation from the clean run is what gyro drift over the outage
    # explains — dead-reckoning filters drift by (bias + the correction rate they missed), holding filters by the motion
    if 'gyr' not in sensors:
        starts = sorted((d[1], d[1] + d[2]) for d in inp['drops'])
        s0, last = starts[0][0], max(e for _, e in starts)
        L = last - s0
        bias = float(np.linalg.norm(inp.get('bias', (0, 0, 0))))
        gmax = float(np.max(np.linalg.norm(gyr[s0:last], axis=1))) if last > s0 else 0.0
        # what the clean run's own corrections over the outage amount to (large only while the filter is still converging)
        missed = 0.0
        for t in range(max(s0, 1), min(last, N)):
            pr = Qref[t - 1] if kind == 'hold' else _dr(Qref[t - 1], gyr[t], DT, left=(kind == 'drL'))
            missed += _qangle(Qref[t], pr)
        rate = (gmax if kind == 'hold' else bias) + 0.2
        bound = 0.02 + L * DT * rate + 1.5 * missed
        for i in range(last, N):
            e = _qangle(Qd[i], Qref[i])
            if e > bound:
                where = 'after' if i < last + 10 else 'late'
                return {'tag': f'{name}/{sensors}/deviation-{where}-dropout', 'observed': e,
                        'expected': f'<= {bound:.3f} rad (outage {L} samples, drift rate {rate:.2f} rad/s, missed corrections {missed:.3f} rad)', 'note': f'row {i}, outage ends at {last}'}
    return None


def only_mag_dropout(inp):
    return all(d[0] == 'mag' for d in inp['drops'])


def o_config(inp):
    """a per-sample update with a null sample on a configured filter object: every public attribute other than the declared
    carried state is the same before and after (and after a second call)"""
    from vlib.core import call_outcome
    name = inp['filter']
    cls, uses_mag, kw, kind, frame = VARIANTS[name]
    kw = {k: (np.array(v, float) if isinstance(v, (list, np.ndarray)) else v) for k, v in kw.items()}
    f = getattr(_F(), cls)(**kw)
    q = np.array(inp['q'], float); g = np.array(inp['gyr'], float)
    a = np.zeros(3) if 'acc' in inp['null'] else np.array(inp['acc'], float)
    m = np.zeros(3) if 'mag' in inp['null'] else np.array(inp['mag'], float)
    meth = {'Madgwick': ('updateMARG', 'updateIMU'), 'Mahony': ('updateMARG', 'updateIMU'), 'AQUA': ('updateMARG', 'updateIMU'),
            'Fourati': ('update', None), 'ROLEQ': ('update', None), 'EKF': ('update', 'update'), 'UKF': (None, 'update')}[cls]
    c0 = _config(f)
    for rep in range(2):
        if uses_mag:
            r = call_outcome(getattr(f, meth[0]), q.copy(), g.copy(), a.copy(), m.copy())
        else:
            r = call_outcome(getattr(f, meth[1]), q.copy(), g.copy(), a.copy())
        if r[0] == 'raise' and r[1] != 'ValueError':
            return {'tag': f'{name}/update-raises-{r[1]}', 'observed': list(r[1:])}
        diff = _cfg_diff(c0, _config(f))
        if diff:
            return {'tag': f'{name}/dropout-changes-configuration', 'observed': {k: b for k, a_, b in diff},
                    'expected': {k: a_ for k, a_, b in diff}, 'note': f"null {inp['null']}, call {rep + 1}"}
    return None


def o_step(inp):
    """one public per-sample update with an exact-zero sensor vector: ValueError, or finite unit quaternion and finite
    carried state; equal to the IMU step when only the magnetometer is null"""
    from vlib.core import call_outcome
    I = _impl_table()
    name = inp['target']
    r = call_outcome(I[name], inp['case'])
    if r[0] == 'raise':
        return None if r[1] == 'ValueError' else {'tag': f'{name}/raises-{r[1]}', 'observed': list(r[1:])}
    from vlib.core import flat_floats
    v = np.array(flat_floats(r[1]))
    if cm.bad(v):
        return {'tag': f'{name}/non-finite', 'observed': v}
    k = 3 if name.startswith('comp_') else 0
    qn = float(np.linalg.norm(v[k:k + 4]))
    unit_in = abs(np.linalg.norm([inp['case'].get(x, 0.5) for x in Q]) - 1) < 1e-12 if 'w' in inp['case'] else True
    if unit_in and abs(qn - 1) > 1e-9 and not name.endswith('_v'):       # (*_v targets return angles only)
        return {'tag': f'{name}/non-unit', 'observed': qn, 'expected': 1.0}
    if name.endswith('_marg_m0'):
        h = len(v) // 2
        if cm.maxabs(v[:h], v[h:2 * h]) > 1e-14:      # (a zero gyroscope returns q normalised once vs twice: 1 ulp)
            return {'tag': f'{name}/not-the-IMU-step', 'observed': v[:h], 'expected': v[h:]}
    return None


def o_ukf_theta(inp):
    """a VALID sample whose innovation is exactly zero (level, motionless, identity attitude, or a motionless record): UKF must
    return a finite unit quaternion — the division of the correction vector by its norm must be guarded"""
    from vlib.core import call_outcome
    F = _F()
    acc = np.array(inp['acc'], float)
    if inp.get('N'):
        r = call_outcome(lambda: np.asarray(F.UKF(gyr=np.zeros((inp['N'], 3)), acc=np.tile(acc, (inp['N'], 1))).Q, float))
    else:
        r = call_outcome(lambda: np.asarray(F.UKF().update(np.array(inp['q'], float), np.zeros(3), acc), float))
    if r[0] == 'raise':
        return {'tag': 'UKF/update/zero-innovation', 'observed': list(r[1:]), 'expected': 'the predicted state (identity correction)'}
    v = np.atleast_2d(r[1])
    if cm.bad(v) or np.max(np.abs(np.linalg.norm(v, axis=1) - 1)) > 1e-9:
        return {'tag': 'UKF/update/zero-innovation', 'observed': v[-1], 'expected': 'finite unit quaternion'}
    return None


ORACLES = {'dropout': o_dropout, 'step': o_step, 'config': o_config, 'ukf_theta': o_ukf_theta}


def _call(f, inp, what):
    from vlib.core import call_outcome
    r = call_outcome(f, inp)
    if r[0] == 'raise':
        return {'tag': f"{what}/oracle-raises-{r[1]}", 'observed': list(r[1:])}
    return r[1]


BIASES = [(0.0, 0.0, 0.0), (0.05, -0.03, 0.08), (-0.1, 0.06, 0.02)]


def search(ctx, scale):
    rng = ctx.rng
    # (a) per-sample updates on exact zeros through the implementation table
    tnames = [t.name[len('C13_'):] for t in targets()]
    for i in range(4 * scale):
        for nm in tnames:
            tt = ctx.targets.get('C13_' + nm)
            names = tt.inputs if tt is not None else Q + G + AC + M + BB + DT + H + N0 + W0
            inp = {'target': nm, 'case': _case(rng, names, i + 50)}
            ctx.check('step', inp, _call(o_step, inp, nm), nontrivial_key=(nm, i))
    for inp in ({'q': [1.0, 0.0, 0.0, 0.0], 'acc': [0.0, 0.0, 9.81]}, {'q': [1.0, 0.0, 0.0, 0.0], 'acc': [0.0, 0.0, 1.0]},
                {'N': 12, 'acc': [0.0, 0.0, 9.81]}):
        ctx.check('ukf_theta', inp, _call(o_ukf_theta, inp, 'UKF/update'), nontrivial_key=('ukf_theta', json.dumps(inp)))
    # (b) configuration snapshots around a null-sample update, every configured variant with a per-sample entry point
    for vi, vn in enumerate(VARIANTS):
        cls, uses_mag = VARIANTS[vn][0], VARIANTS[vn][1]
        if cls in ('FKF', 'Complementary'):
            continue
        for null in (['acc'], ['mag'], ['acc', 'mag']) if uses_mag else (['acc'],):
            for r in range(scale):
                inp = {'filter': vn, 'null': null, 'q': cm.rand_unit_quat(rng).tolist(), 'gyr': (rng.standard_normal(3)).tolist(),
                       'acc': (rng.standard_normal(3) * 9.8).tolist(), 'mag': (rng.standard_normal(3) * 40).tolist()}
                ctx.check('config', inp, _call(o_config, inp, vn), nontrivial_key=(vn, tuple(null), r))
    # (c) histories: every variant x sensor combination x a rotating choice of position / length / bias / history
    pats = []
    for N in (160, 240):
        for start in (1, 2, N // 2, N - 2, N - 1):
            pats.append((N, start, 1))
        pats += [(N, N // 3, 5), (N, N // 4, 25), (N, 1, 10), (N, N - 6, 6), (N, N // 2, 12)]
    combos = [('acc',), ('mag',), ('acc', 'mag'), ('gyr',), ('acc', 'gyr'), ('acc', 'mag', 'gyr')]
    k = 0
    for fi, fn in enumerate(VARIANTS):
        uses_mag = VARIANTS[fn][1]
        for ci, combo in enumerate(combos):
            if 'mag' in combo and not uses_mag:
                continue
            if fn in STEP_VARIANTS and scale == 1:
                continue                  # quick tier: the step variants run the fixed outages below
            reps = 1 if scale == 1 else 4
            for j in range(reps):
                N, start, length = pats[(fi * 7 + ci * 3 + j * 5 + k) % len(pats)]
                drops = [[s_, int(start), int(length)] for s_ in combo]
                if k % 5 == 4:        # a second, overlapping / repeated dropout
                    drops.append([combo[0], int(max(1, start - 3)), 2])
                inp = {'filter': fn, 'seed': int(1 + (k % 3)), 'N': int(N), 'amp': [0.3, 0.8, 1.5][(k // 2) % 3], 'drops': drops,
                       'bias': list(BIASES[k % 3]), 'form': ('f64', 'f64', 'list')[k % 3]}
                k += 1
                ctx.check('dropout', inp, _call(o_dropout, inp, fn), nontrivial_key=(fn, combo, N, start, length, inp['seed']))
        # every variant also sees one mid-record single-sample and one 12-sample accelerometer outage with a biased gyro
        for (start, length) in ((80, 1), (60, 12)):
            inp = {'filter': fn, 'seed': 2, 'N': 160, 'amp': 0.8, 'drops': [['acc', start, length]], 'bias': list(BIASES[1]), 'form': 'f64'}
            ctx.check('dropout', inp, _call(o_dropout, inp, fn), nontrivial_key=(fn, 'fixed', start, length))
        if uses_mag:
            inp = {'filter': fn, 'seed': 3, 'N': 160, 'amp': 0.8, 'drops': [['mag', 70, 3]], 'bias': list(BIASES[1]), 'form': 'f64'}
            ctx.check('dropout', inp, _call(o_dropout, inp, fn), nontrivial_key=(fn, 'fixed-mag'))
    # short records (N in 2..7) with a dropout at the last row
    for fn in VARIANTS:
        if fn in STEP_VARIANTS and scale == 1:
            continue
        for N in ((2, 3, 4, 5, 7) if scale > 1 else (2, 4)):
            inp = {'filter': fn, 'seed': 2, 'N': N, 'amp': 0.5, 'drops': [['acc', N - 1, 1]], 'form': 'f64'}
            ctx.check('dropout', inp, _call(o_dropout, inp, fn), nontrivial_key=(fn, 'short', N))
    ctx.samples.append({'kind': 'search', 'oracle': 'dropout',
                        'input': {'filter': 'Mahony/MARG', 'seed': 1, 'N': 160, 'amp': 0.3, 'drops': [['acc', 40, 5]], 'bias': [0.05, -0.03, 0.08], 'form': 'f64'}})
