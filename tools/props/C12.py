"""C12 — SLERP follows the shortest geodesic at constant speed; NaN gaps are filled along it."""
import math, json, re
import numpy as np
from pysym.gen import Target
from pysym import symnp, emit
from . import common as cm
from vlib.core import call_outcome

PID = 'C12'
P = ['a', 'b', 'c', 'd']
Q = ['w', 'x', 'y', 'z']
THR = 0.9995

LEVEL_TEXT = ("Coq theorems over the regenerated slerp (both copies, one and two weights, symbolic threshold) and AQUA slerp_I: "
              "unit norm, endpoints, constant angular speed, minor arc, antipode invariance on every path, for all reals; "
              "theorems by induction over hand models of get_nan_intervals / remove_jumps / slerp_nan for every length and "
              "every position of interior NaN runs, the models tied to the code by a correspondence run")
LEVEL_NOTE = ("trusted: Coq kernel, pysym translator, the hand models of the list functions (tied by correspondence only), stdlib "
              "real-number axioms; theorems are over exact reals; the LERP branch's speed deviation is explored numerically, not proved")
TECHNIQUE = ("machine-checked proof in Coq 8.16 over a model regenerated from source by symbolic tracing, plus executable list "
             "models run by vm_compute against the implementation")
RULE = ("endpoint pairs: generic, nearly equal (1e-9..1e-2), nearly antipodal, orthogonal, dot products straddling the 0.9995 "
        "threshold on both signs; weight vectors with 0, 1, 1e-9, 1-1e-9 and uniform draws; sequences with every position and length "
        "of one interior NaN run (exhaustive for N <= 7) and random multi-run sequences; random sign-flip patterns; a case is "
        "non-trivial when the endpoints differ / the sequence has a NaN row or a jump")
TRUSTED = ["Coq 8.16.1 kernel; vm_compute for the float copies and the list models",
           "pysym tracing translator",
           "hand models coq/model/C12_lists.v of get_nan_intervals, remove_jumps/q_correct, slerp_nan (tied by correspondence only)",
           "stdlib real-number axioms and Classical_Prop.classic (stdlib trigonometry)",
           "real arithmetic stands for binary64 (measured by correspondence)"]
PARTIAL = ("the angular-speed deviation of the LERP branch (dot > 0.9995) is bounded numerically only (explored); leading/trailing NaN "
           "runs are outside the property; the tie |p.q| = 0 is excluded from antipode invariance (neither antipode is nearer)")


# ------------------------------------------------------------------------------------------
# regenerated targets
# ------------------------------------------------------------------------------------------
def targets():
    mk = lambda n, i, f, doc='': Target(f'C12_{n}', i, f, doc=doc)
    qs = lambda A: A.common.quaternion.slerp
    os_ = lambda A: A.common.orientation.slerp
    return [
        mk('slerp', P + Q + ['t'], lambda A, v: qs(A)(v.vec(*P), v.vec(*Q), symnp.array([v['t']])),
           'ahrs.common.quaternion.slerp(p, q, [t])'),
        mk('oslerp', P + Q + ['t'], lambda A, v: os_(A)(v.vec(*P), v.vec(*Q), symnp.array([v['t']])),
           'ahrs.common.orientation.slerp(p, q, [t]) (second copy)'),
        mk('slerp2', P + Q + ['s', 't'], lambda A, v: qs(A)(v.vec(*P), v.vec(*Q), symnp.array([v['s'], v['t']])),
           'quaternion.slerp(p, q, [s, t]): two interpolants of one call'),
        mk('slerp_thr', P + Q + ['t', 'thr'], lambda A, v: qs(A)(v.vec(*P), v.vec(*Q), symnp.array([v['t']]), threshold=v['thr']),
           'quaternion.slerp(p, q, [t], threshold=thr)'),
        mk('slerp_I', Q + ['t', 'thr'], lambda A, v: A.filters.aqua.slerp_I(v.vec(*Q), v['t'], v['thr']),
           'ahrs.filters.aqua.slerp_I(q, ratio=t, t=thr)'),
    ] + [mk(nm, *_inst(kind, mask), doc=f'{kind} on QuaternionArray(rows, versors=False), N={len(mask)}, NaN mask {mask}')
         for nm, kind, mask in INSTANCES]


def _row_names(i):
    return [f'r{i}{c}' for c in 'wxyz']


def _inst(kind, mask):
    """(input names, traced function) of a small fixed-N instance of the in-place list code with symbolic valid rows and a
    CONCRETE NaN mask: the rows are written as real NaN floats into the traced QuaternionArray after construction"""
    N = len(mask)
    names = sum((_row_names(i) for i in range(N) if not mask[i]), [])

    def f(A, v):
        first = [i for i in range(N) if not mask[i]][0]
        rows = [[v[n] for n in _row_names(i if not mask[i] else first)] for i in range(N)]
        Qa = A.QuaternionArray(symnp.array(rows), versors=False)
        for i in range(N):
            if mask[i]:
                Qa[i] = np.nan
        if kind == 'remove_jumps':
            Qa.remove_jumps()
            return Qa.array
        if kind == 'q_correct':
            return A.common.orientation.q_correct(Qa.array)
        if kind == 'default':          # the default in-place mode, read back through .array AND through the object's own buffer
            Qa.slerp_nan()
            return [Qa.array, symnp.asarray(Qa)]
        return Qa.slerp_nan(inplace=False)
    return names, f


INSTANCES = [('rj3', 'remove_jumps', [0, 0, 0]), ('qc3', 'q_correct', [0, 0, 0]), ('rj4', 'remove_jumps', [0, 0, 0, 0]),
             ('sn_010', 'copy', [0, 1, 0]), ('sn_0110', 'copy', [0, 1, 1, 0]), ('sn_0010', 'copy', [0, 0, 1, 0]),
             ('sn_01010', 'copy', [0, 1, 0, 1, 0]), ('sni_0110', 'default', [0, 1, 1, 0])]


STAGES = [['C12_math.v', 'C12_lists_thm.v'], ['C12_gen.v', 'C12_lerp.v'], ['C12_lists_R.v', 'C12_lerp_gen.v'],
          ['C12_inst_a.v', 'C12_inst_b.v', 'C12_inst_c.v', 'C12_lerp_num.v'], ['C12_instances.v', 'C12.v']]
STAGES_THOROUGH = [['C12_inst_d.v']]


# ------------------------------------------------------------------------------------------
# implementation entry points
# ------------------------------------------------------------------------------------------
def _impl():
    import ahrs
    from ahrs.common import quaternion as QM, orientation as OM
    from ahrs.filters import aqua
    from ahrs.utils import core
    return {
        'quaternion': lambda p, q, t, **k: QM.slerp(np.array(p, float), np.array(q, float), np.array(t, float), **k),
        'orientation': lambda p, q, t, **k: OM.slerp(np.array(p, float), np.array(q, float), np.array(t, float), **k),
        'slerp_I': lambda q, r, t: aqua.slerp_I(np.array(q, float), float(r), float(t)),
        'get_nan_intervals': core.get_nan_intervals,
        'q_correct': OM.q_correct,
        'QA': ahrs.QuaternionArray,
    }


def _nanrow(r):
    """a row counts as a NaN row when ANY of its components is NaN (np.any(np.isnan(data), axis=1) in get_nan_intervals):
    None = all components NaN, a list with None entries = a partly-NaN row"""
    return r is None or any(x is None for x in r)


def _qarray(rows):
    """QuaternionArray whose NaN rows / NaN components are written afterwards (the constructor rejects NaN), as the suite's
    test_slerp_nan does; a partly-NaN row keeps its other components (legal: `Q[i, 2] = np.nan`)"""
    I = _impl()
    filled = np.array([[1.0, 0.0, 0.0, 0.0] if r is None else [1.0 if x is None else x for x in r] for r in rows], float)
    nrm = np.linalg.norm(filled, axis=1)
    filled = filled / nrm[:, None]
    Qa = I['QA'](filled)
    for i, r in enumerate(rows):
        if r is None:
            Qa[i] = np.nan
        else:
            for j, x in enumerate(r):
                if x is None:
                    Qa[i, j] = np.nan
    return Qa


# ------------------------------------------------------------------------------------------
# generators
# ------------------------------------------------------------------------------------------
def _orth(rng, p):
    v = rng.standard_normal(4)
    v -= (v @ p) * p
    return v / np.linalg.norm(v)


def _at_angle(rng, p, ang):
    """unit quaternion at great-circle angle ang from p"""
    u = _orth(rng, p)
    q = math.cos(ang) * p + math.sin(ang) * u
    return q / np.linalg.norm(q)


def endpoint_pairs(rng, n):
    """(region, p, q): the named thin regions first, then uniform draws"""
    out = []
    th = math.acos(THR)
    base = [cm.rand_unit_quat(rng) for _ in range(6)] + [np.array([1.0, 0, 0, 0]), np.array([0.0, 0, 1.0, 0])]
    for i, p in enumerate(base):
        out.append(('equal', p, p.copy()))
        out.append(('antipodal', p, -p))
        out.append(('orthogonal', p, _orth(rng, p)))
        for e in (1e-9, 1e-6, 1e-3, 1e-2):
            out.append(('nearly-equal', p, _at_angle(rng, p, e)))
            out.append(('nearly-antipodal', p, -_at_angle(rng, p, e)))
        for d in (-1e-3, -1e-6, -1e-12, 1e-12, 1e-6, 1e-3):
            out.append(('straddle-thr', p, _at_angle(rng, p, th + d)))
            out.append(('straddle-thr-neg', p, -_at_angle(rng, p, th + d)))
        for d in (-1e-6, -1e-15, 1e-15, 1e-6):
            out.append(('near-orthogonal', p, _at_angle(rng, p, math.pi / 2 + d)))
        out.append(('obtuse', p, _at_angle(rng, p, 2.5)))
        out.append(('acute', p, _at_angle(rng, p, 0.7)))
    out.append(('axis-orthogonal', np.array([1.0, 0, 0, 0]), np.array([0.0, 1.0, 0, 0])))
    out.append(('axis-orthogonal', np.array([1.0, 0, 0, 0]), np.array([0.0, 0, 0, 1.0])))
    while len(out) < n:
        out.append(('generic', cm.rand_unit_quat(rng), cm.rand_unit_quat(rng)))
    return out


def exact_pairs():
    """exactly representable endpoint pairs: equal, exactly antipodal, exactly orthogonal, dot exactly at +-0.9995
    (np.dot of these is exact), integer-valued ones also usable as int arrays / Python lists"""
    s = math.sqrt(1 - THR * THR)
    return [('exact-equal', [0, 0, 1, 0], [0, 0, 1, 0]), ('exact-antipodal', [1, 0, 0, 0], [-1, 0, 0, 0]),
            ('exact-antipodal', [0, 0, 0, -1], [0, 0, 0, 1]), ('exact-orthogonal', [1, 0, 0, 0], [0, 1, 0, 0]),
            ('exact-orthogonal', [0, -1, 0, 0], [0, 0, 0, 1]), ('exact-thr', [1, 0, 0, 0], [THR, s, 0, 0]),
            ('exact-thr-neg', [1, 0, 0, 0], [-THR, 0, s, 0]), ('exact-thr', [0, 0, 1, 0], [0, s, THR, 0]),
            ('exact-3-4-5', [0.6, 0.8, 0, 0], [-0.6, 0, 0.8, 0]), ('exact-3-4-5', [0.6, 0, 0, 0.8], [0.8, 0, 0, 0.6]),
            ('exact-half', [0.5, 0.5, 0.5, 0.5], [0.5, -0.5, 0.5, -0.5]), ('exact-half', [0.5, 0.5, 0.5, 0.5], [-0.5, -0.5, -0.5, 0.5])]


def weight_vectors(rng, n):
    out = [[0.0, 1.0], [0.0, 0.25, 0.5, 0.75, 1.0], [1e-9, 1 - 1e-9], [0.5], [1.0], [0.0], [0.0, 0.5, 1.0],
           [0.1, 0.2, 0.3, 0.4], [0.0, 0.125, 0.25, 0.5, 0.75, 0.875, 1.0]]      # N = 1, 2, 3, 4, 5, 7
    while len(out) < n:
        k = int(rng.integers(1, 7))
        out.append(sorted(float(x) for x in rng.uniform(0, 1, k)))
    return out


def smooth_rows(rng, n, step=0.2):
    """a continuous unit-quaternion sequence (consecutive rows `step` rad apart at most)"""
    q = cm.rand_unit_quat(rng)
    rows = [q]
    for _ in range(n - 1):
        q = _at_angle(rng, q, float(rng.uniform(0.0, step)))
        rows.append(q)
    return rows


def nan_sequences(rng, n_random, exhaustive_upto=7):
    """(kind, rows, mask): every position and length of ONE interior run for N <= exhaustive_upto, then random multi-run
    sequences (interior runs only), some with sign flips on the valid rows"""
    out = []
    for N in range(3, exhaustive_upto + 1):
        for i0 in range(1, N - 1):
            for i1 in range(i0, N - 1):
                mask = [i0 <= i <= i1 for i in range(N)]
                out.append(('one-run', smooth_rows(rng, N), mask))
    for j in range(n_random):
        N = int(rng.integers(3, 40))
        mask = [False] * N
        for _ in range(int(rng.integers(0, 5))):
            a = int(rng.integers(1, N - 1)); L = int(rng.integers(1, 6))
            for i in range(a, min(a + L, N - 1)):
                mask[i] = True
        rows = smooth_rows(rng, N)
        kind = 'multi-run' if any(mask) else 'no-nan'
        if j % 3 == 0:      # sign flips on top
            s = 1.0
            for i in range(N):
                if rng.uniform() < 0.25:
                    s = -s
                rows[i] = s * rows[i]
            kind += '+flips'
        out.append((kind, rows, mask))
    out.append(('no-nan', smooth_rows(rng, 5), [False] * 5))
    out.append(('no-nan', smooth_rows(rng, 1), [False]))
    return out


def special_quats():
    """quaternions where a component-wise test and the norm test of a sign flip differ or sit on a boundary: all 16
    (+-1/2, +-1/2, +-1/2, +-1/2) (a flip moves EVERY component by exactly 1), the 8 axis units, the 24 (+-1/sqrt2, +-1/sqrt2, 0, 0)-type rows"""
    out = []
    for b in range(16):
        out.append(('half', np.array([0.5 if b >> k & 1 else -0.5 for k in range(4)])))
    for k in range(4):
        for sg in (1.0, -1.0):
            v = np.zeros(4); v[k] = sg
            out.append(('axis', v))
    r = math.sqrt(0.5)
    for i in range(4):
        for j in range(i + 1, 4):
            for si in (r, -r):
                for sj in (r, -r):
                    v = np.zeros(4); v[i] = si; v[j] = sj
                    out.append(('sqrt2', v))
    return out


def special_sequences(rng, reps=1):
    """(kind, rows): constant special attitudes with arbitrary sign-flip patterns (all patterns for N = 3, 4 on one member of each
    family), smooth arcs passing exactly through a special quaternion with flips, and pairs exactly 60 degrees apart (|diff| = 1)"""
    out = []
    S = special_quats()
    for fam in ('half', 'axis', 'sqrt2'):
        q = [v for k, v in S if k == fam][3]
        for N in (3, 4):
            for bits in range(2 ** N):
                out.append((f'const-{fam}-all-patterns', [(-1.0 if bits >> k & 1 else 1.0) * q for k in range(N)]))
    for idx, (fam, q) in enumerate(S):
        for rp in range(reps):
            N = (2, 3, 4, 5, 7, 9)[(idx + rp) % 6]
            sg = rng.choice([-1.0, 1.0], size=N)
            out.append((f'const-{fam}', [s_ * q for s_ in sg]))
            # an arc through q: q is row m of a smooth sequence, steps 1e-3..0.05 rad, with sign flips
            u = _orth(rng, q)
            step = float(10 ** rng.uniform(-3, -1.3))
            m = int(rng.integers(0, N))
            sgn, rows = 1.0, []
            for k in range(N):
                if rng.uniform() < 0.4:
                    sgn = -sgn
                a = (k - m) * step
                rows.append(sgn * (q if k == m else (math.cos(a) * q + math.sin(a) * u)))
            out.append((f'arc-through-{fam}', rows))
    h = np.array([0.5, 0.5, 0.5, 0.5])
    for e_ in (np.array([1.0, 0, 0, 0]), np.array([0, 0, 1.0, 0])):     # |h - e| = 1 exactly: not a jump; |h + e| = sqrt 3: a jump
        out.append(('exact-60deg', [e_, h, e_, -h, -e_, h]))
    return out


def _views(Qa):
    """every way a QuaternionArray shows its rows: the .array attribute, the ndarray buffer of the object itself (np.asarray,
    .view()), the component properties, indexing"""
    N = Qa.shape[0]
    return {'array': np.array(Qa.array, float), 'asarray': np.array(np.asarray(Qa), float),
            'view': np.array(np.asarray(Qa.view()), float),
            'wxyz': np.stack([np.asarray(Qa.w, float), np.asarray(Qa.x, float), np.asarray(Qa.y, float), np.asarray(Qa.z, float)], axis=1),
            'index': np.array([np.asarray(Qa[i], float) for i in range(N)], float).reshape(N, 4)}


def _views_agree(Qa):
    """None when all views show the same bits, else (name of the deviating view, its value, .array)"""
    V = _views(Qa)
    ref = V['array']
    for k, v in V.items():
        if v.shape != ref.shape or not _bits_equal(v, ref):
            return (k, v, ref)
    return None


def gap_rows(seed, L, angle, pre=0, post=0):
    """[pre valid rows] a [L NaN rows] b [post valid rows]: a and b `angle` apart; everything derived from the seed"""
    rng = np.random.default_rng(seed)
    a = cm.rand_unit_quat(rng)
    b = _at_angle(rng, a, angle)
    before = [a]
    for _ in range(pre):        # a smooth lead-in that ends at a
        before.insert(0, _at_angle(rng, before[0], 0.05))
    after = [b]
    for _ in range(post):
        after.append(_at_angle(rng, after[-1], 0.05))
    return before + [None] * L + after


def long_record(seed, N, nruns, maxlen, flip_p=0.02):
    """a long smooth record with many interior NaN runs (one starting at row 1, one ending at row N-2, the others anywhere,
    lengths 1..maxlen), sign flips with probability flip_p per row: (rows as arrays, mask)"""
    rng = np.random.default_rng(seed)
    rows = smooth_rows(rng, N, step=0.05)
    sgn = 1.0
    for i in range(N):
        if rng.uniform() < flip_p:
            sgn = -sgn
        rows[i] = sgn * rows[i]
    mask = [False] * N
    def put(a, L):
        for i in range(a, min(a + L, N - 1)):
            mask[i] = True
    put(1, int(rng.integers(1, maxlen + 1)))
    L = int(rng.integers(1, maxlen + 1)); put(N - 1 - L, L)
    for _ in range(nruns):
        put(int(rng.integers(1, N - 1)), int(rng.integers(1, maxlen + 1)))
    mask[0] = mask[N - 1] = False
    return rows, mask


def _rows_json(rows, mask, partial=None):
    """rows as JSON; masked rows become None (all NaN) or, when a generator `partial` is given, for about half of them a row
    with only one, two or three NaN components"""
    out = []
    for r, m in zip(rows, mask):
        if not m:
            out.append([float(x) for x in r])
        elif partial is not None and partial.uniform() < 0.5:
            k = int(partial.integers(1, 4))
            holes = set(int(h) for h in partial.choice(4, size=k, replace=False))
            out.append([None if j in holes else float(x) for j, x in enumerate(r)])
        else:
            out.append(None)
    return out


# ------------------------------------------------------------------------------------------
# reference mathematics (independent of the package)
# ------------------------------------------------------------------------------------------
def _angle(a, b):
    """great-circle angle between unit vectors, accurate for tiny and near-pi angles"""
    a, b = np.asarray(a, float), np.asarray(b, float)
    return 2.0 * math.atan2(np.linalg.norm(a - b), np.linalg.norm(a + b))


def _max_runs(mask):
    runs, i, N = [], 0, len(mask)
    while i < N:
        if mask[i]:
            j = i
            while j + 1 < N and mask[j + 1]:
                j += 1
            runs.append((i, j)); i = j + 1
        else:
            i += 1
    return runs


def _jump_signs(rows):
    """sign (+1/-1) the jump removal must give each row: parity of the number of jumps (|diff| > 1 between two valid rows) up to it"""
    s, out = 1.0, []
    for i, r in enumerate(rows):
        if i > 0 and not _nanrow(rows[i - 1]) and not _nanrow(r) and \
                np.linalg.norm(np.asarray(r, float) - np.asarray(rows[i - 1], float)) > 1:
            s = -s
        out.append(s)
    return out


# ------------------------------------------------------------------------------------------
# correspondence
# ------------------------------------------------------------------------------------------
PRE = ['From Coq Require Import List Arith Bool. From Coq Require Import Uint63. From Coq Require Import PrimFloat.',
       'From AhrsModel Require Import C12_lists.', 'Import ListNotations.',
       'Inductive val := Qv (i : nat) (s : bool) (w x y z : float) | Iv (a b : val) (k n : nat).',
       'Definition negv v := match v with Qv i s w x y z => Qv i (negb s) (PrimFloat.opp w) (PrimFloat.opp x) (PrimFloat.opp y) (PrimFloat.opp z) | _ => v end.',
       'Definition sq (a b : float) : float := PrimFloat.mul (PrimFloat.sub b a) (PrimFloat.sub b a).',
       'Definition jumpv a b := match a, b with Qv _ _ a0 a1 a2 a3, Qv _ _ b0 b1 b2 b3 => '
       'PrimFloat.ltb 1%float (PrimFloat.sqrt (PrimFloat.add (PrimFloat.add (PrimFloat.add (sq a0 b0) (sq a1 b1)) (sq a2 b2)) (sq a3 b3))) | _, _ => false end.',
       'Definition b2n (b : bool) : nat := if b then 1 else 0.',
       'Definition obs (r : option val) : list nat := match r with None => [2] | Some (Qv i s _ _ _ _) => [0; i; b2n s] '
       '| Some (Iv (Qv i s _ _ _ _) (Qv j s2 _ _ _ _) k n) => [1; i; b2n s; j; b2n s2; k; n] | _ => [3] end.',
       'Definition obsl (o : option (list (option val))) := match o with None => [[9]] | Some l => map obs l end.',
       'Definition RJ := remove_jumps negv jumpv.', 'Definition SN := slerp_nan negv jumpv Iv.']


def _coq_rows(rows):
    items = []
    for i, r in enumerate(rows):
        if _nanrow(r):          # the model's None = a row with at least one NaN component
            items.append('None')
        else:
            items.append('Some (Qv %d false %s)' % (i, ' '.join(emit._hexf(float(x)) for x in r)))
    return '[' + '; '.join(items) + ']'


def _parse_nats(s):
    return json.loads(s.replace(';', ',').replace('(', '[').replace(')', ']'))


def _bits_equal(a, b):
    a, b = np.asarray(a, float), np.asarray(b, float)
    return a.shape == b.shape and bool(np.all((a == b) | (np.isnan(a) & np.isnan(b))))


def _ulps(a, b):
    a, b = np.asarray(a, float), np.asarray(b, float)
    return float(np.max(np.abs(a - b))) / 2.0 ** -52


def correspondence(ctx):
    I = _impl()
    # ---- regenerated formula targets ------------------------------------------------------
    n = ctx.n(120, 1200)
    pairs = endpoint_pairs(ctx.rng, n)
    ws = [0.0, 1.0, 0.5, 1e-9, 1 - 1e-9]
    cases, cases2, casesT = [], [], []
    for i, (_, p, q) in enumerate(pairs):
        # p.q within rounding of 0 but not an exactly representable 0 is the mathematical tie of
        # C12_slerp_antipode_tie: the sign of a 1e-17 dot product depends on the summation order (BLAS vs the
        # model's left fold), so the two sides may legitimately take different arcs.  Not a correspondence case.
        d_ = float(np.dot(np.asarray(p, float), np.asarray(q, float)))
        if abs(d_) < 1e-13 and not all(float(v) in (0.0, 1.0, -1.0, 0.5, -0.5) for v in list(p) + list(q)):
            continue
        t = ws[i % len(ws)] if i % 2 == 0 else float(ctx.rng.uniform(0, 1))
        s = float(ctx.rng.uniform(0, 1))
        cases.append({**cm.d(P, p), **cm.d(Q, q), 't': t})
        cases2.append({**cm.d(P, p), **cm.d(Q, q), 's': s, 't': t})
        casesT.append({**cm.d(P, p), **cm.d(Q, q), 't': t, 'thr': float(ctx.rng.choice([0.9995, 0.9, 0.5, 0.99999, 0.0]))})
    pq = lambda c: ([c[k] for k in P], [c[k] for k in Q])
    ctx.correspond('C12_slerp', cases, lambda c: I['quaternion'](*pq(c), [c['t']]))
    ctx.correspond('C12_oslerp', cases, lambda c: I['orientation'](*pq(c), [c['t']]))
    ctx.correspond('C12_slerp2', cases2, lambda c: I['quaternion'](*pq(c), [c['s'], c['t']]))
    ctx.correspond('C12_slerp_thr', casesT, lambda c: I['quaternion'](*pq(c), [c['t']], threshold=c['thr']))
    casesI = []
    for i, (_, q) in enumerate(cm.quats(ctx.rng, ctx.n(60, 600))):
        if q[0] <= -1 + 1e-9:
            continue        # q = -identity: 0/0 in the SLERP branch of slerp_I, outside its domain
        casesI.append({**cm.d(Q, q), 't': float(ctx.rng.uniform(0, 1)), 'thr': float(ctx.rng.choice([0.9, 0.5, 0.9995]))})
    ctx.correspond('C12_slerp_I', casesI, lambda c: I['slerp_I']([c[k] for k in Q], c['t'], c['thr']), tol_ulp=256)

    # ---- regenerated fixed-N instances of the in-place list code (validates the tracer's NaN-row semantics too) -----------
    def run_inst(kind, mask, c):
        N = len(mask)
        first = [i for i in range(N) if not mask[i]][0]
        rows = np.array([[c[n] for n in _row_names(i if not mask[i] else first)] for i in range(N)], float)
        Qa = I['QA'](rows, versors=False)
        for i in range(N):
            if mask[i]:
                Qa[i] = np.nan
        if kind == 'remove_jumps':
            Qa.remove_jumps()
            return np.array(Qa.array)
        if kind == 'q_correct':
            return I['q_correct'](np.array(Qa.array))
        if kind == 'default':
            Qa.slerp_nan()
            return [np.array(Qa.array), np.array(np.asarray(Qa))]
        return Qa.slerp_nan(inplace=False)
    for nm, kind, mask in INSTANCES:
        N = len(mask)
        icases = []
        for j in range(ctx.n(24, 200)):
            rows = smooth_rows(ctx.rng, N, step=(0.2, 0.02, 1.5)[j % 3])
            sgn = ctx.rng.choice([-1.0, 1.0], size=N)
            sc = 1.0 if j % 2 else float(10 ** ctx.rng.uniform(-1, 1))         # versors=False: rows need not be unit
            icases.append({n: float(sgn[i] * sc * rows[i][k]) for i in range(N) if not mask[i] for k, n in enumerate(_row_names(i))})
        ctx.correspond(f'C12_{nm}', icases, (lambda c, kind=kind, mask=mask: run_inst(kind, mask, c)))

    # ---- list models -----------------------------------------------------------------------
    seqs = nan_sequences(ctx.rng, ctx.n(40, 400))
    # boundary runs: the model must answer None (outside the property); what the code does there is recorded, not compared
    for N, mask in ((4, [True, False, False, False]), (4, [False, False, True, True]), (5, [True, True, False, True, False]),
                    (3, [True, True, True])):
        seqs.append(('boundary', smooth_rows(ctx.rng, N), mask))
    spec = special_sequences(ctx.rng)
    for j in range(0, len(spec), 1 if not ctx.quick() else 3):
        kind, rows = spec[j]
        mask = [False] * len(rows)
        if len(rows) >= 4 and j % 2:
            mask[1 + j % (len(rows) - 2)] = True
        seqs.append(('special-' + kind.split('-')[0], rows, mask))
    # every gap length: the model's i-th interpolant has weight i/(L+1) and there are exactly L of them (all L, theorem
    # C12_fill_weights); the code must agree with it length by length
    # (the model is unary-nat Gallina, about L^2 steps per length: the quick tier runs L = 1..32 and every 19th length up to 260,
    # the thorough tier every length up to 260; the search oracle `gap_sweep` runs EVERY length on the code in both tiers)
    for L in (list(range(1, 33)) + list(range(38, 261, 19)) if ctx.quick() else range(1, 261)):
        rows = gap_rows(1000 + L, L, (0.7, 2.4, 0.02)[L % 3], pre=L % 2, post=(L // 2) % 2)
        mask = [r is None for r in rows]
        a0 = next(r for r in rows if r is not None)
        seqs.append(('gap-sweep', [a0 if r is None else r for r in rows], mask))
    for j in range(ctx.n(1, 6)):
        rows, mask = long_record(77 + j, (400, 800)[j % 2], (30, 80)[j % 2], (8, 40)[j % 2], flip_p=(0.02, 0.1)[j % 2])
        seqs.append(('long-record', rows, mask))
    # (1) get_nan_intervals on masks (2-D data and 1-D data)
    masks = [m for _, _, m in seqs] + [[bool(b) for b in ctx.rng.integers(0, 2, int(ctx.rng.integers(1, 30)))] for _ in range(ctx.n(40, 400))]
    exprs = ['get_nan_intervals [%s]' % '; '.join('true' if b else 'false' for b in m) for m in masks]
    outs = ctx.coq_eval('get_nan_intervals', PRE, exprs)
    if outs is not None:
        for m, o in zip(masks, outs):
            model = [tuple(x) for x in _parse_nats(o)]
            # the model's mask entry is "row has ANY NaN component": fully-NaN rows, rows with 1..3 NaN components of 4,
            # and 1-D data with single NaN entries; +-inf entries elsewhere are not NaN (np.isnan) and must not be reported
            for dim in ('2-full', '2-partial', '2-partial+inf', '1'):
                if dim == '1':
                    data = np.ones(len(m)); data[np.array(m, bool)] = np.nan
                else:
                    data = np.ones((len(m), 4))
                    for i, b in enumerate(m):
                        if b:
                            k = 4 if dim == '2-full' else int(ctx.rng.integers(1, 4))
                            data[i, ctx.rng.choice(4, size=k, replace=False)] = np.nan
                        elif dim.endswith('+inf') and ctx.rng.uniform() < 0.3:
                            data[i, int(ctx.rng.integers(0, 4))] = np.inf if ctx.rng.uniform() < 0.5 else -np.inf
                r = call_outcome(I['get_nan_intervals'], data)
                impl = [tuple(int(v) for v in iv) for iv in r[1]] if r[0] == 'val' else r
                if impl != model:
                    ctx.disagree('get_nan_intervals', {'mask': m, 'data': dim, 'nan_pattern': np.isnan(data).astype(int).tolist()}, model, impl)
                ctx.agree('get_nan_intervals')
    # (2) remove_jumps / q_correct / slerp_nan on sequences
    exprs = []
    rjs = []
    for k, (kind, rows, mask) in enumerate(seqs):
        rj = _rows_json(rows, mask, partial=ctx.rng if k % 2 else None)    # every other sequence: partly-NaN rows
        rjs.append(rj)
        exprs.append('map obs (RJ %s)' % _coq_rows(rj))
        exprs.append('obsl (SN %s)' % _coq_rows(rj))
    outs = ctx.coq_eval('list_models', PRE, exprs)
    if outs is None:
        return
    dist = {}
    for k, (kind, rows, mask) in enumerate(seqs):
        rj = rjs[k]
        kind = kind + ('+partial' if any(r is not None and _nanrow(r) for r in rj) else '')
        dist[kind] = dist.get(kind, 0) + 1
        m_rj, m_sn = _parse_nats(outs[2 * k]), _parse_nats(outs[2 * k + 1])
        Qa = _qarray(rj)
        orig = np.array(Qa.array)
        inp = {'rows': rj}
        # remove_jumps (in place) and q_correct (copy): same sign pattern as the model
        model_signs = [(-1.0 if d[2] else 1.0) if d[0] == 0 else None for d in m_rj]
        exp = np.array([orig[i] * (s if s is not None else 1.0) for i, s in enumerate(model_signs)])

        def same(out):      # bitwise on the rows the model carries; a NaN row (model None) keeps its NaN pattern and magnitudes
            out = np.asarray(out, float)
            if out.shape != exp.shape:
                return False
            return all(_bits_equal(out[i], exp[i]) if sg is not None else _bits_equal(np.abs(out[i]), np.abs(exp[i]))
                       for i, sg in enumerate(model_signs))
        r = call_outcome(lambda: (Qa.remove_jumps(), np.array(Qa.array))[1])
        if r[0] != 'val' or not same(r[1]):
            ctx.disagree('remove_jumps', inp, model_signs, r[1] if r[0] == 'val' else r)
        ctx.agree('remove_jumps')
        r = call_outcome(I['q_correct'], orig.copy())
        if r[0] != 'val' or not same(r[1]):
            ctx.disagree('q_correct', inp, model_signs, r[1] if r[0] == 'val' else r)
        ctx.agree('q_correct')
        # slerp_nan
        Qb = _qarray(rj)
        if k % 2:       # default (in-place) mode, observed through the object itself; every view must show the same rows
            r = call_outcome(lambda: (Qb.slerp_nan(), np.array(np.asarray(Qb), float))[1])
            va = _views_agree(Qb) if r[0] == 'val' else None
            if va is not None:
                ctx.disagree('slerp_nan', inp, 'one array', {va[0]: va[1], 'array': va[2]}, note='views of the object disagree after the in-place fill')
        else:
            r = call_outcome(lambda: Qb.slerp_nan(inplace=False))
        if m_sn == [[9]]:
            # the model is undefined exactly when a NaN run touches the boundary
            if not (mask[0] or mask[-1]):
                ctx.disagree('slerp_nan', inp, 'undefined', 'interior runs only', note='model undefined on interior-only runs')
            ctx.corr_stats.setdefault('slerp_nan', {'cases': 0, 'disagree': 0}).setdefault('boundary_outcomes', []).append(
                r[1] if r[0] == 'raise' else 'value')
            ctx.agree('slerp_nan')
            continue
        if mask[0] or mask[-1]:
            ctx.disagree('slerp_nan', inp, 'defined', 'boundary run', note='model defined although a run touches the boundary')
        if r[0] != 'val':
            ctx.disagree('slerp_nan', inp, m_sn, r, note='implementation raises')
            ctx.agree('slerp_nan')
            continue
        res = np.asarray(r[1], float)
        bad = None
        if res.shape == orig.shape and np.isnan(res).any():
            bad = f'rows {[int(i) for i in np.where(np.isnan(res).any(axis=1))[0]]} still contain NaN'
        elif res.shape != orig.shape:
            bad = f'shape {res.shape}'
        else:
            for i, d in enumerate(m_sn):
                if d[0] == 0:
                    e = orig[d[1]] * (-1.0 if d[2] else 1.0)
                    if d[1] != i or not _bits_equal(res[i], e):
                        bad = f'row {i}: valid row differs from the model (expected row {d[1]} sign {d[2]})'
                elif d[0] == 1:
                    _, i0, s0, j0, s1, kk, nn = d
                    e = I['quaternion'](orig[i0] * (-1.0 if s0 else 1.0), orig[j0] * (-1.0 if s1 else 1.0),
                                        [np.linspace(0, 1, nn + 1)[kk]])[0]
                    if cm.bad(res[i]) or _ulps(res[i], e) > 64:
                        bad = f'row {i}: not slerp(row {i0}, row {j0}, {kk}/{nn}) within 64 ulp'
                else:
                    bad = f'row {i}: model row {d}'
                if bad:
                    break
        if bad:
            ctx.disagree('slerp_nan', inp, m_sn, res, note=bad)
        ctx.agree('slerp_nan')
    ctx.corr_stats.setdefault('slerp_nan', {})['distribution'] = dist
    ctx.say(f"[corr] list models: {len(masks)} masks, {len(seqs)} sequences {dist}; "
            f"disagreements: " + ', '.join(f"{k}={ctx.corr_stats.get(k, {}).get('disagree', 0)}"
                                           for k in ('get_nan_intervals', 'remove_jumps', 'q_correct', 'slerp_nan')))


# ------------------------------------------------------------------------------------------
# search oracles
# ------------------------------------------------------------------------------------------
TOL = 1e-12
ANG_TOL = 1e-9


def _lerp_dev_bound(th0):
    """bound on |angle(p, r(t)) - t*th0| for the normalised chord (LERP) between points th0 apart: < th0^3/15 (explored)"""
    return th0 ** 3 / 15.0 + ANG_TOL


def o_slerp(inp):
    """the SLERP clause of the property on one endpoint pair and one weight vector, through one of the two copies"""
    I = _impl()
    entry = inp.get('entry', 'quaternion')
    f = I[entry]
    p, q, t = np.array(inp['p'], float), np.array(inp['q'], float), np.array(inp['t'], float)
    form = inp.get('form', 'float64')
    if form != 'float64':
        # the same numbers handed over as Python lists / integer arrays / float32 arrays (exactly representable inputs only)
        conv = {'list': lambda v: [float(x) for x in v], 'intlist': lambda v: [int(x) for x in v],
                'int': lambda v: np.array(v).astype(int), 'float32': lambda v: np.array(v, dtype=np.float32)}[form]
        g = I[entry]
        raw = {'quaternion': __import__('ahrs').common.quaternion.slerp, 'orientation': __import__('ahrs').common.orientation.slerp}[entry]
        f = lambda pp, qq, tt: raw(conv(pp), conv(qq), tt.tolist() if form in ('list', 'intlist') else tt)
        entry = f'{entry}[{form}]'
    d = float(np.dot(p, q))
    flip = d < 0.0
    qn = -q if flip else q                       # the nearer antipode of q (q itself when d = 0)
    region = ('flip-' if flip else '') + ('lerp' if abs(d) > THR else 'slerp')
    tag = lambda k: {'tag': f'{entry}/{region}/{k}'}
    r = call_outcome(f, p.copy(), q.copy(), t.copy())
    if r[0] == 'raise':
        return {**tag(f'raises-{r[1]}'), 'observed': list(r[1:])}
    R = np.asarray(r[1], float)
    if R.shape != (len(t), 4) or cm.bad(R):
        return {**tag('shape-or-nonfinite'), 'observed': R}
    nr = np.linalg.norm(R, axis=1)
    if np.max(np.abs(nr - 1)) > TOL:
        return {**tag('not-unit'), 'observed': nr, 'expected': 1.0}
    # endpoints
    E = np.asarray(f(p.copy(), q.copy(), np.array([0.0, 1.0])), float)
    if cm.maxabs(E[0], p) > TOL:
        return {**tag('start'), 'observed': E[0], 'expected': p}
    if cm.maxabs(E[1], qn) > TOL:
        return {**tag('end'), 'observed': E[1], 'expected': qn}
    # minor arc + constant speed
    th0 = _angle(p, qn)
    atol = ANG_TOL if abs(d) <= THR else _lerp_dev_bound(th0)
    for ti, ri in zip(t, R):
        a1, a2 = _angle(p, ri), _angle(ri, qn)
        if abs(a1 + a2 - th0) > ANG_TOL:
            return {**tag('off-minor-arc'), 'observed': [a1, a2], 'expected': th0, 'note': f't={ti}'}
        if abs(a1 - ti * th0) > atol:
            return {**tag('speed'), 'observed': a1, 'expected': ti * th0, 'note': f't={ti}'}
    # antipode invariance (when one antipode IS nearer)
    if d != 0.0:
        R2 = np.asarray(f(p.copy(), -q, t.copy()), float)
        if cm.maxabs(R2, R) > TOL:
            return {**tag('antipode-q'), 'observed': R2, 'expected': R}
        R3 = np.asarray(f(-p, q.copy(), t.copy()), float)
        if cm.maxabs(R3, -R) > TOL:
            return {**tag('antipode-p'), 'observed': R3, 'expected': -R}
    # the two copies agree
    other = I['quaternion' if entry.startswith('orientation') else 'orientation']
    R4 = np.asarray(other(p.copy(), q.copy(), t.copy()), float)
    if cm.maxabs(R4, R) > 1e-15:
        return {**tag('copies-differ'), 'observed': R4, 'expected': R}
    # a second call with the very same argument arrays gives the same rows
    pa, qa, ta = p.copy(), q.copy(), t.copy()
    A1 = np.array(f(pa, qa, ta), float)
    A2 = np.array(f(pa, qa, ta), float)
    if cm.maxabs(A1, R) > 0 or cm.maxabs(A2, R) > TOL:
        return {**tag('second-call-differs'), 'observed': A2, 'expected': R}
    return None


def o_nan_intervals(inp):
    """get_nan_intervals returns exactly the maximal runs of NaN rows (none when there is no NaN row)"""
    I = _impl()
    dim = inp.get('ndim', 2)
    if 'pattern' in inp:        # per-row, per-component NaN flags: the row is a NaN row when ANY flag is set
        pat = np.array(inp['pattern'], bool)
        m = [bool(r.any()) for r in pat]
        data = np.random.default_rng(1).random(pat.shape)
        data[pat] = np.nan
        region = 'no-nan' if not any(m) else ('partial-rows' if any(r.any() and not r.all() for r in pat) else 'runs')
    else:
        m = [bool(b) for b in inp['mask']]
        data = np.random.default_rng(1).random((len(m), 3)) if dim == 2 else np.random.default_rng(1).random(len(m))
        data[np.array(m, bool)] = np.nan
        region = 'no-nan' if not any(m) else 'runs'
    for k in inp.get('inf', []):     # +-inf is not NaN: per the code's definition (np.isnan) such rows are NOT reported
        idx = np.unravel_index(int(k) % data.size, data.shape)
        if not np.isnan(data[idx]):
            data[idx] = np.inf if k % 2 else -np.inf
            region = region if region.endswith('+inf') else region + '+inf'
    r = call_outcome(I['get_nan_intervals'], data)
    if r[0] == 'raise':
        return {'tag': f'get_nan_intervals/{region}/raises-{r[1]}', 'observed': list(r[1:]), 'expected': _max_runs(m)}
    got = [tuple(int(v) for v in iv) for iv in r[1]]
    if got != _max_runs(m):
        return {'tag': f'get_nan_intervals/{region}/not-maximal-runs', 'observed': got, 'expected': _max_runs(m)}
    return None


def o_remove_jumps(inp):
    """jump removal multiplies row i by (-1)^(#jumps <= i): same rotations; no jump remains when every consecutive pair of the
    input is close or antipodal-close"""
    I = _impl()
    rows = inp['rows']
    entry = inp.get('entry', 'remove_jumps')
    Qa = _qarray(rows)
    orig = np.array(Qa.array)
    if entry == 'remove_jumps':
        r = call_outcome(lambda: (Qa.remove_jumps(), np.array(Qa.array))[1])
    else:
        r = call_outcome(I['q_correct'], orig.copy())
    if r[0] == 'raise':
        return {'tag': f'{entry}/raises-{r[1]}', 'observed': list(r[1:])}
    out = np.asarray(r[1], float)
    signs = _jump_signs(rows)
    exp = orig * np.array(signs)[:, None]
    if out.shape != orig.shape or not _bits_equal(out, exp):
        return {'tag': f'{entry}/sign-pattern', 'observed': out, 'expected': exp}
    if entry == 'remove_jumps':
        va = _views_agree(Qa)
        if va is not None:
            return {'tag': f'{entry}/views-disagree', 'observed': {va[0]: va[1]}, 'expected': va[2]}
    okhyp = True
    for i in range(1, len(rows)):
        if _nanrow(rows[i]) or _nanrow(rows[i - 1]):
            continue
        a, b = orig[i - 1], orig[i]
        if np.linalg.norm(b - a) > 1 and np.linalg.norm(b + a) > 1:
            okhyp = False
    if okhyp:
        for i in range(1, len(rows)):
            if _nanrow(rows[i]) or _nanrow(rows[i - 1]):
                continue
            if np.linalg.norm(out[i] - out[i - 1]) > 1:
                return {'tag': f'{entry}/jump-remains', 'observed': [i, out[i - 1], out[i]]}
        if entry == 'remove_jumps' and not any(_nanrow(r) for r in rows):
            Qa.remove_jumps()           # second call on the same object: nothing left to flip
            if not _bits_equal(np.array(Qa.array), out):
                return {'tag': f'{entry}/second-call-changes-rows', 'observed': np.array(Qa.array), 'expected': out}
    return None


def _rows_of(arr):
    return [None if np.isnan(r).all() else [None if np.isnan(x) else float(x) for x in r] for r in np.asarray(arr, float)]


def _fill_step(Qa, mode, step):
    """one slerp_nan call on the object Qa (mode: 'default' = slerp_nan(), True, False), observed through every view of the
    object, and checked against the property; returns a violation dict or None"""
    I = _impl()
    va = _views_agree(Qa)
    if va is not None:
        return {'tag': f'slerp_nan/{step}/views-disagree-before-call', 'observed': {va[0]: va[1]}, 'expected': va[2]}
    orig = np.array(Qa.array, float)
    rows = _rows_of(orig)
    mask = [_nanrow(r) for r in rows]
    runs = _max_runs(mask)
    region = step + ('no-nan' if not runs else ('one-run' if len(runs) == 1 else 'multi-run'))
    if runs and (mask[0] or mask[-1]):
        return None                     # boundary runs are outside the property
    inplace = mode in ('default', True)
    r = call_outcome((lambda: Qa.slerp_nan()) if mode == 'default' else (lambda: Qa.slerp_nan(inplace=mode)))
    if r[0] == 'raise':
        return {'tag': f'slerp_nan/{region}/raises-{r[1]}', 'observed': list(r[1:])}
    if inplace and r[1] is not None:
        return {'tag': f'slerp_nan/{region}/inplace-returns-value', 'observed': type(r[1]).__name__}
    va = _views_agree(Qa)
    if va is not None:
        return {'tag': f'slerp_nan/{region}/views-disagree', 'observed': {va[0]: va[1]}, 'expected': va[2],
                'note': 'the object shows different rows through ' + va[0] + ' and through .array after the call'}
    signs = _jump_signs(rows)
    obj = np.array(np.asarray(Qa), float)
    if not inplace:
        # copy mode: the object itself only went through the jump removal
        # after fixes/C12-slerp-nan-copy-mode.patch the object is untouched; before it, it shows the jump-removed input
        # (C19 records that mutation); anything else is a violation here
        if not _bits_equal(obj, orig) and not _bits_equal(obj, orig * np.array(signs)[:, None]):
            return {'tag': f'slerp_nan/{region}/copy-mode-object-rows', 'observed': obj, 'expected': orig}
    res = obj if inplace else np.asarray(r[1], float)
    if res.shape != orig.shape:
        return {'tag': f'slerp_nan/{region}/shape', 'observed': res.shape, 'expected': orig.shape}
    if np.isnan(res).any():
        bad_rows = [int(i) for i in np.where(np.isnan(res).any(axis=1))[0]]
        kind = 'partly-nan-row-not-filled' if any(rows[i] is not None for i in bad_rows) else 'nan-left'
        return {'tag': f'slerp_nan/{region}/{kind}', 'observed': bad_rows, 'expected': 'no NaN in the output (all NaN runs are interior)'}
    for i, m in enumerate(mask):
        if not m and not _bits_equal(res[i], signs[i] * orig[i]):
            return {'tag': f'slerp_nan/{region}/valid-row-changed', 'observed': [i, res[i]], 'expected': signs[i] * orig[i]}
    for (i0, i1) in runs:
        a, b = signs[i0 - 1] * orig[i0 - 1], signs[i1 + 1] * orig[i1 + 1]
        L = i1 - i0 + 1
        bn = -b if float(a @ b) < 0 else b
        th0 = _angle(a, bn)
        lerp = abs(float(a @ b)) > THR
        for k in range(1, L + 1):
            ri, t = res[i0 + k - 1], k / (L + 1)
            if cm.bad(ri) or abs(np.linalg.norm(ri) - 1) > TOL:
                return {'tag': f'slerp_nan/{region}/fill-not-unit', 'observed': [i0 + k - 1, ri]}
            a1, a2 = _angle(a, ri), _angle(ri, bn)
            if abs(a1 + a2 - th0) > ANG_TOL or abs(a1 - t * th0) > (_lerp_dev_bound(th0) if lerp else ANG_TOL):
                return {'tag': f'slerp_nan/{region}/fill-not-on-geodesic', 'observed': [i0 + k - 1, a1, a2],
                        'expected': [t * th0, (1 - t) * th0]}
            e = I['quaternion'](a, b, [np.linspace(0, 1, L + 2)[k]])[0]
            if _ulps(ri, e) > 64:
                return {'tag': f'slerp_nan/{region}/fill-differs-from-slerp', 'observed': ri, 'expected': e}
    return None


def _angles(u, V):
    """great-circle angles between the unit vector u and the rows of V (accurate for tiny and near-pi angles)"""
    return 2.0 * np.arctan2(np.linalg.norm(V - u, axis=1), np.linalg.norm(V + u, axis=1))


def _check_fill_fast(rows, orig, res, region):
    """the slerp_nan clause on a (possibly long) array, vectorised per run: count, no NaN, valid rows, weights k/(L+1), geodesic"""
    I = _impl()
    mask = [_nanrow(r) for r in rows]
    runs = _max_runs(mask)
    if res.shape != orig.shape:
        return {'tag': f'slerp_nan/{region}/shape', 'observed': res.shape, 'expected': orig.shape}
    if np.isnan(res).any():
        bad_rows = [int(i) for i in np.where(np.isnan(res).any(axis=1))[0]]
        return {'tag': f'slerp_nan/{region}/nan-left', 'observed': bad_rows[:20], 'expected': 'no NaN in the output'}
    signs = np.array(_jump_signs(rows))
    valid = ~np.array(mask)
    exp = orig * signs[:, None]
    if not _bits_equal(res[valid], exp[valid]):
        i = int(np.where(valid)[0][np.where(np.any(res[valid] != exp[valid], axis=1))[0][0]])
        return {'tag': f'slerp_nan/{region}/valid-row-changed', 'observed': [i, res[i]], 'expected': exp[i]}
    for (i0, i1) in runs:
        a, b = exp[i0 - 1], exp[i1 + 1]
        L = i1 - i0 + 1
        t = np.arange(1, L + 1) / (L + 1.0)          # the i-th weight is i/(L+1), i = 1..L
        bn = -b if float(a @ b) < 0 else b
        th0 = _angle(a, bn)
        R = res[i0:i1 + 1]
        if np.max(np.abs(np.linalg.norm(R, axis=1) - 1)) > TOL:
            return {'tag': f'slerp_nan/{region}/fill-not-unit', 'observed': [i0, i1], 'note': f'gap length {L}'}
        a1, a2 = _angles(a, R), _angles(bn, R)
        tol = _lerp_dev_bound(th0) if abs(float(a @ b)) > THR else ANG_TOL
        k = int(np.argmax(np.abs(a1 - t * th0)))
        if np.max(np.abs(a1 + a2 - th0)) > ANG_TOL or abs(a1[k] - t[k] * th0) > tol:
            return {'tag': f'slerp_nan/{region}/fill-not-on-geodesic', 'observed': [i0 + k, float(a1[k])], 'expected': float(t[k] * th0),
                    'note': f'gap length {L}, weight {k + 1}/{L + 1}'}
        E = np.asarray(I['quaternion'](a, b, np.linspace(0, 1, L + 2)[1:-1]), float)
        if _ulps(R, E) > 64:
            return {'tag': f'slerp_nan/{region}/fill-differs-from-slerp', 'observed': [i0, i1], 'note': f'gap length {L}'}
    return None


def o_gap_sweep(inp):
    """one interior NaN run of a GIVEN length L between two valid rows (optionally with rows before / after): L interpolants,
    the i-th at weight i/(L+1), for every L"""
    L, mode = int(inp['L']), inp.get('inplace', False)
    mode = 'default' if mode == 'default' else bool(mode)
    rows = gap_rows(int(inp['seed']), L, float(inp['angle']), int(inp.get('pre', 0)), int(inp.get('post', 0)))
    rows = [None if r is None else [float(x) for x in r] for r in rows]
    Qa = _qarray(rows)
    orig = np.array(Qa.array, float)
    r = call_outcome((lambda: Qa.slerp_nan()) if mode == 'default' else (lambda: Qa.slerp_nan(inplace=mode)))
    region = 'gap-sweep'
    if r[0] == 'raise':
        return {'tag': f'slerp_nan/{region}/raises-{r[1]}', 'observed': list(r[1:]), 'note': f'gap length {L}'}
    res = np.array(np.asarray(Qa), float) if mode in ('default', True) else np.asarray(r[1], float)
    return _check_fill_fast(rows, orig, res, region)


def o_long(inp):
    """long records (hundreds to thousands of rows) with many NaN runs / many jumps, generated from a seed: slerp_nan,
    remove_jumps / q_correct, get_nan_intervals"""
    kind = inp['kind']
    rows, mask = long_record(int(inp['seed']), int(inp['N']), int(inp['nruns']), int(inp['maxlen']), float(inp.get('flip_p', 0.02)))
    if kind == 'nan_intervals':
        m = list(mask)
        if inp.get('ends'):          # for get_nan_intervals itself runs at the two ends are ordinary maximal runs
            m[0] = m[-1] = m[-2] = True
        return o_nan_intervals({'mask': m, 'ndim': int(inp.get('ndim', 2))})
    if kind in ('remove_jumps', 'q_correct'):
        rj = _rows_json(rows, [False] * len(rows)) if not inp.get('with_nan') else _rows_json(rows, mask)
        return o_remove_jumps({'rows': rj, 'entry': kind})
    rj = _rows_json(rows, mask)
    mode = inp.get('inplace', False)
    mode = 'default' if mode == 'default' else bool(mode)
    Qa = _qarray(rj)
    orig = np.array(Qa.array, float)
    r = call_outcome((lambda: Qa.slerp_nan()) if mode == 'default' else (lambda: Qa.slerp_nan(inplace=mode)))
    if r[0] == 'raise':
        return {'tag': f'slerp_nan/long-record/raises-{r[1]}', 'observed': list(r[1:])}
    va = _views_agree(Qa)
    if va is not None:
        return {'tag': 'slerp_nan/long-record/views-disagree', 'observed': va[0]}
    res = np.array(np.asarray(Qa), float) if mode in ('default', True) else np.asarray(r[1], float)
    return _check_fill_fast(rj, orig, res, 'long-record')


def o_slerp_nan(inp):
    """slerp_nan: valid rows unchanged (up to the sign its own jump removal gives them), each interior NaN run replaced by the
    geodesic interpolants at k/(L+1) between its neighbours, nothing else; in the default in-place mode, inplace=True and
    inplace=False; the object observed through all its views; optionally a second round: punch a new gap THROUGH THE OBJECT
    (Q[i0:i1+1] = nan) and fill again; finally one more call (nothing left to fill)"""
    rows = inp['rows']
    mode = inp.get('inplace', False)
    mode = 'default' if mode == 'default' else bool(mode)
    mask = [_nanrow(r) for r in rows]
    if any(mask) and (mask[0] or mask[-1]):
        return None
    Qa = _qarray(rows)
    v = _fill_step(Qa, mode, '')
    if v is not None or mode is False:
        return v
    punch = inp.get('punch')
    if punch:
        i0, i1 = int(punch[0]), int(punch[1])
        if 1 <= i0 <= i1 < len(rows) - 1:
            Qa[i0:i1 + 1] = np.nan              # a new gap written through the object itself
            v = _fill_step(Qa, inp.get('inplace2', mode), 'second-round/')
            if v is not None:
                return v
    before = np.array(np.asarray(Qa), float)
    r2 = call_outcome(lambda: Qa.slerp_nan(inplace=False))
    if r2[0] == 'raise':
        return {'tag': f'slerp_nan/last-call/raises-{r2[1]}', 'observed': list(r2[1:])}
    if cm.maxabs(np.abs(np.asarray(r2[1], float)), np.abs(before)) > 0:       # up to the row signs of a renewed jump removal
        return {'tag': 'slerp_nan/last-call/differs', 'observed': r2[1], 'expected': before}
    return None


def o_slerp_I(inp):
    """AQUA's slerp_I: unit, starts at the identity, ends at q, constant speed on its SLERP branch"""
    I = _impl()
    q, thr = np.array(inp['q'], float), float(inp['thr'])
    one = np.array([1.0, 0, 0, 0])
    region = 'lerp' if q[0] > thr else 'slerp'
    th0 = _angle(one, q)
    for t in inp['t']:
        r = call_outcome(I['slerp_I'], q.copy(), t, thr)
        if r[0] == 'raise':
            return {'tag': f'slerp_I/{region}/raises-{r[1]}', 'observed': list(r[1:])}
        v = np.asarray(r[1], float)
        if v.shape != (4,) or cm.bad(v) or abs(np.linalg.norm(v) - 1) > TOL:
            return {'tag': f'slerp_I/{region}/not-unit', 'observed': v}
        a1, a2 = _angle(one, v), _angle(v, q)
        if abs(a1 + a2 - th0) > ANG_TOL:
            return {'tag': f'slerp_I/{region}/off-arc', 'observed': [a1, a2], 'expected': th0}
        if region == 'slerp' and abs(a1 - t * th0) > ANG_TOL:
            return {'tag': f'slerp_I/{region}/speed', 'observed': a1, 'expected': t * th0}
    return None


ORACLES = {'slerp': o_slerp, 'nan_intervals': o_nan_intervals, 'remove_jumps': o_remove_jumps, 'slerp_nan': o_slerp_nan,
           'gap_sweep': o_gap_sweep, 'long': o_long,
           'slerp_I': o_slerp_I}


def _call(f, inp, name):
    r = call_outcome(f, inp)
    if r[0] == 'raise':
        return {'tag': f'{name}/oracle-raises-{r[1]}', 'observed': list(r[1:])}
    return r[1]


def search(ctx, scale):
    rng = ctx.rng
    pairs = endpoint_pairs(rng, 150 * scale)
    wvs = weight_vectors(rng, 12)
    for i, (region, p, q) in enumerate(pairs):
        for entry in ('quaternion', 'orientation'):
            inp = {'entry': entry, 'p': p.tolist(), 'q': q.tolist(), 't': wvs[(i + (entry == 'orientation')) % len(wvs)], 'region': region}
            ctx.check('slerp', inp, _call(o_slerp, inp, entry),
                      nontrivial_key=(entry, region, tuple(np.round(p, 6)), tuple(np.round(q, 6))) if region != 'equal' else None)
    for i, (region, p, q) in enumerate(exact_pairs()):
        ints = all(float(v).is_integer() for v in p + q)
        forms = ['float64', 'list'] + (['int', 'intlist', 'float32'] if ints else [])
        for form in forms:
            for entry in ('quaternion', 'orientation'):
                if entry == 'orientation' and form != 'float64':
                    continue        # the second copy only accepts float arrays (it flips its argument in place: C19)
                for tv in (wvs[i % len(wvs)], wvs[(i + 3) % len(wvs)]):
                    inp = {'entry': entry, 'p': [float(v) for v in p], 'q': [float(v) for v in q], 't': tv, 'region': region, 'form': form}
                    ctx.check('slerp', inp, _call(o_slerp, inp, entry), nontrivial_key=(entry, form, region, i, len(tv)))
    for i, (_, q) in enumerate(cm.quats(rng, 40 * scale)):
        if q[0] <= -1 + 1e-6:
            continue
        inp = {'q': q.tolist(), 'thr': [0.9, 0.5, 0.9995][i % 3], 't': [0.0, 1.0, 0.01, float(rng.uniform(0, 1))]}
        ctx.check('slerp_I', inp, _call(o_slerp_I, inp, 'slerp_I'), nontrivial_key=('I', tuple(np.round(q, 6))))
    # masks
    for N in range(0, 7):
        for bits in range(2 ** N if scale > 1 or N <= 5 else 0):
            m = [bool(bits >> k & 1) for k in range(N)]
            if N == 0:
                continue
            inp = {'mask': m, 'ndim': 2 if bits % 2 == 0 else 1}
            ctx.check('nan_intervals', inp, _call(o_nan_intervals, inp, 'get_nan_intervals'), nontrivial_key=('m', tuple(m)) if any(m) else None)
    for _ in range(30 * scale):
        m = [bool(b) for b in rng.integers(0, 2, int(rng.integers(1, 60)))]
        inp = {'mask': m, 'ndim': 2}
        ctx.check('nan_intervals', inp, _call(o_nan_intervals, inp, 'get_nan_intervals'), nontrivial_key=('m', tuple(m)))
    # rows with only SOME NaN components (one, two or three of four), every row count 1..4 exhaustively over per-row kinds
    kinds = [[0, 0, 0, 0], [0, 0, 1, 0], [1, 0, 0, 1], [0, 1, 1, 1], [1, 1, 1, 1]]
    for N in (1, 2, 3, 4):
        for code in range(len(kinds) ** N):
            pat = [kinds[(code // len(kinds) ** k) % len(kinds)] for k in range(N)]
            inp = {'pattern': pat, 'ndim': 2, 'inf': [code] if code % 7 == 3 else []}
            ctx.check('nan_intervals', inp, _call(o_nan_intervals, inp, 'get_nan_intervals'),
                      nontrivial_key=('pat', code, N) if any(any(r) for r in pat) else None)
    for _ in range(30 * scale):
        N = int(rng.integers(1, 40))
        pat = [[int(rng.uniform() < 0.25) for _ in range(4)] if rng.uniform() < 0.5 else [0, 0, 0, 0] for _ in range(N)]
        inp = {'pattern': pat, 'ndim': 2, 'inf': [int(x) for x in rng.integers(0, 4 * N, 2)] if rng.uniform() < 0.3 else []}
        ctx.check('nan_intervals', inp, _call(o_nan_intervals, inp, 'get_nan_intervals'), nontrivial_key=('patr', str(pat)))
    # sequences
    for j, (kind, rows, mask) in enumerate(nan_sequences(rng, 40 * scale)):
        rj = _rows_json(rows, mask, partial=rng if j % 3 else None)     # two of three sequences: partly-NaN rows among the gaps
        N = len(rj)
        inp = {'rows': rj, 'inplace': ('default', True, False)[j % 3]}      # default in-place mode, explicit in-place, copy
        if N >= 3 and j % 3 != 2:       # second round: a new interior gap written through the object, then filled again
            a = int(rng.integers(1, N - 1)); b = int(min(N - 2, a + rng.integers(0, 3)))
            inp['punch'] = [a, b]
            inp['inplace2'] = ('default', True, False)[(j // 3) % 3]
        ctx.check('slerp_nan', inp, _call(o_slerp_nan, inp, 'slerp_nan'), nontrivial_key=('sn', kind, j) if any(mask) else None)
    # a gap between nearly antipodal / threshold-straddling / orthogonal neighbours, every run length 1..4
    for (region, p, q) in endpoint_pairs(rng, 0)[:60 * scale]:
        L = 1 + len(region) % 4
        rj = [p.tolist()] + [None] * L + [q.tolist()]
        if L >= 2:          # a partly-NaN row next to fully-NaN rows inside one gap
            rj[1 + len(region) % L] = [0.5, None, 0.5, 0.5]
        inp = {'rows': rj, 'inplace': (False, 'default', True)[L % 3]}
        ctx.check('slerp_nan', inp, _call(o_slerp_nan, inp, 'slerp_nan'), nontrivial_key=('sn-pair', region, L, tuple(np.round(q, 6))))
    # EVERY gap length 1..260 (thorough: ..1000) at least once per run: count, weights i/(L+1), geodesic placement
    angles = (0.7, 2.4, 0.02, 1.5707963267948966, 3.0, 1e-4)
    for L in range(1, (260 if scale == 1 else 1000) + 1):
        inp = {'seed': int(ctx.seed % 100000) + L, 'L': L, 'angle': angles[L % len(angles)], 'inplace': ('default', False, True)[L % 3],
               'pre': (0, 2, 5)[L % 3], 'post': (0, 3, 1)[(L // 3) % 3]}
        ctx.check('gap_sweep', inp, _call(o_gap_sweep, inp, 'slerp_nan/gap-sweep'), nontrivial_key=('gap', L))
    # long records: many intervals (incl. one starting at row 1 and one ending at the last interior row), many jumps, long masks
    for j in range(6 * scale):
        N = (300, 1000, 2500, 64, 129, 512)[j % 6]
        base = {'seed': int(ctx.seed % 100000) + 7 * j, 'N': N, 'nruns': (5, 40, 120)[j % 3], 'maxlen': (3, 12, 60)[(j // 2) % 3]}
        inp = {**base, 'kind': 'slerp_nan', 'inplace': ('default', False, True)[j % 3], 'flip_p': (0.0, 0.02, 0.2)[j % 3]}
        ctx.check('long', inp, _call(o_long, inp, 'slerp_nan/long-record'), nontrivial_key=('long-sn', j))
        for kind in ('remove_jumps', 'q_correct'):
            inp = {**base, 'kind': kind, 'flip_p': (0.3, 0.02, 0.5)[j % 3], 'with_nan': bool(j % 2)}
            ctx.check('long', inp, _call(o_long, inp, kind + '/long-record'), nontrivial_key=('long-' + kind, j))
        inp = {**base, 'kind': 'nan_intervals', 'ends': bool(j % 2), 'ndim': 1 + j % 2}
        ctx.check('long', inp, _call(o_long, inp, 'get_nan_intervals/long-record'), nontrivial_key=('long-gni', j))
    for N in (1, 2, 3, 4, 5, 7):       # particular lengths, no NaN: the zero-run case of "valid rows unchanged"
        inp = {'rows': _rows_json(smooth_rows(rng, N), [False] * N), 'inplace': ('default', True, False)[N % 3]}
        if N >= 3:
            inp['punch'] = [1, N - 2]
        ctx.check('slerp_nan', inp, _call(o_slerp_nan, inp, 'slerp_nan'), nontrivial_key=None)
    # sign-flip sequences on special quaternions: (+-1/2)^4, axis units, (+-1/sqrt2, +-1/sqrt2, 0, 0); constant and arcs through them
    for j, (kind, rows) in enumerate(special_sequences(rng, reps=scale)):
        rj = [[float(x) for x in r] for r in rows]
        for entry in ('remove_jumps', 'q_correct'):
            inp = {'rows': rj, 'entry': entry}
            ctx.check('remove_jumps', inp, _call(o_remove_jumps, inp, entry), nontrivial_key=('rj-special', kind, j, entry))
        N = len(rj)
        inp = {'rows': rj, 'inplace': ('default', True, False)[j % 3]}
        if N >= 3:
            a = 1 + j % (N - 2)
            inp['punch'] = [a, min(N - 2, a + j % 2)]
        ctx.check('slerp_nan', inp, _call(o_slerp_nan, inp, 'slerp_nan'), nontrivial_key=('sn-special', kind, j))
        if N >= 4 and j % 2:        # the same sequence with a gap from the start
            rj2 = [None if i == 1 + j % (N - 2) else r for i, r in enumerate(rj)]
            inp = {'rows': rj2, 'inplace': ('default', False, True)[j % 3]}
            ctx.check('slerp_nan', inp, _call(o_slerp_nan, inp, 'slerp_nan'), nontrivial_key=('sn-special-gap', kind, j))
    for j in range(40 * scale):
        N = (1, 2, 3, 4, 5, 7)[j] if j < 6 else int(rng.integers(2, 30))
        rows = smooth_rows(rng, N, step=0.4)
        s, nj = 1.0, 0
        for i in range(N):
            if rng.uniform() < 0.3:
                s = -s; nj += 1
            rows[i] = s * rows[i]
        mask = [bool(rng.uniform() < 0.15) and j % 4 == 0 for _ in range(N)]
        if all(mask):
            mask[0] = False
        inp = {'rows': _rows_json(rows, mask, partial=rng), 'entry': ('remove_jumps', 'q_correct')[j % 2]}
        ctx.check('remove_jumps', inp, _call(o_remove_jumps, inp, inp['entry']), nontrivial_key=('rj', j) if nj else None)
    ctx.samples.append({'kind': 'search', 'oracle': 'slerp', 'input': {'entry': 'quaternion', 'p': pairs[7][1].tolist(),
                                                                        'q': pairs[7][2].tolist(), 't': wvs[1]}})
