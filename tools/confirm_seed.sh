#!/bin/bash
# confirm_seed.sh <seed dir>: in a scratch worktree confirm: patch applies, suite passes with it, demo fails with it and passes without
set -u
D=$(realpath "$1"); W=/tmp/cs-$$
git -C /repo worktree add --detach -q $W HEAD || exit 2
cd $W
PYTHONPATH=$W /venv/bin/python $D/demo.py >/dev/null 2>&1; clean=$?
git apply $D/patch.diff || { echo "PATCH DOES NOT APPLY"; git -C /repo worktree remove --force $W; exit 2; }
PYTHONPATH=$W /venv/bin/python $D/demo.py >/dev/null 2>&1; mut=$?
suite=$(PYTHONPATH=$W /venv/bin/python -m pytest -q -p no:cacheprovider tests 2>&1 | tail -1)
cd /; git -C /repo worktree remove --force $W
echo "$(basename $D): demo clean=$clean mutated=$mut suite: $suite"
[ $clean -eq 0 ] && [ $mut -ne 0 ] && echo "$suite" | grep -q "250 passed" && echo CONFIRMED || echo NOT-CONFIRMED
