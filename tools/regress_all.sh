#!/bin/bash
# regress_all.sh [parallel]: run every kept seeded mutation and every harmless rewrite against its property's quick check
# (scratch worktrees, never /repo); writes seeded/REGRESSION.txt and harmless/REGRESSION.txt
P=${1:-4}; T=/tmp/regress-$$; mkdir -p $T
for i in $(seq -w 1 20); do p=C$i; mkdir -p $T/seeds/$p; for d in /verif/seeded/$p-*; do [ -f $d/patch.diff ] && ln -s $d $T/seeds/$p/$(basename $d); done; done
for i in $(seq -w 1 20); do echo C$i; done | xargs -P $P -I{} bash -c "/verif/tools/test_seeds.sh {} $T/seeds/{} 2>&1 | grep -v '^Preparing\|^HEAD' > $T/{}.seeds.txt; /verif/tools/test_harmless.sh /verif/harmless {} 2>&1 | grep -v '^Preparing\|^HEAD' > $T/{}.harm.txt"
{ echo "# regression of all kept seeds against the quick checks ($(git -C /repo rev-parse --short HEAD), $(date -u +%F))"; cat $T/C*.seeds.txt; } > /verif/seeded/REGRESSION.txt
{ echo "# regression of all harmless rewrites against the quick checks ($(git -C /repo rev-parse --short HEAD), $(date -u +%F))"; cat $T/C*.harm.txt; } > /verif/harmless/REGRESSION.txt
rm -rf $T
