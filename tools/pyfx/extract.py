"""pyfx — Python-`ast` effect extractor.

For every callable of the package under <repo>/ahrs (found by parsing every module: a new function or method is picked
up without touching this file) emit a program of the effect language of coq/model/Effects.v over its parameters:

    x := fresh | x := alias(y..) | x := copy(y) | inplace(x) | store(x,y) | readglobal(g) | r := call f(x..) | p;p | if p p | loop p

Fail-closed: a construct that cannot be classified raises Unclassified and the callable is reported as such (checked
dynamically only).  The translation is TRUSTED (ordinary Python); it is validated on every run by the byte-level
observation of real calls in tools/props/C19.py.

Abstraction choices (all over-approximations of "may share memory with"):
  * containers are flat: a list/tuple/dict/object "aliases" everything stored in it;
  * `self.attr` is a pseudo-variable; every attribute a method (or a method it calls on self) touches is an implicit
    parameter of that method; attributes a method (re)binds flow back to the caller through the return value;
  * attribute rebinding (`obj.attr = v`) is NOT a mutation of an array (only of the Python object): x := alias(x, v);
  * `return` inside a branch ends that branch (the rest of the block goes to the other branch); any other early exit
    is over-approximated by continuing (effects only accumulate).
"""
from __future__ import annotations
import ast, os
from dataclasses import dataclass, field
from typing import Optional
from . import tables as TB


class Unclassified(Exception):
    pass


class PathRaises(Exception):
    """the statement always raises (e.g. a call of a method that does not exist): the path ends here"""


ARITH_DUNDERS = {'__add__', '__sub__', '__mul__', '__matmul__', '__truediv__', '__pow__', '__neg__', '__radd__', '__rsub__',
                 '__rmul__', '__rmatmul__', '__rtruediv__', '__iadd__', '__isub__', '__imul__', '__itruediv__', '__abs__',
                 '__invert__', '__pos__', '__floordiv__', '__mod__'}


_SCALAR_FUNCS = {'float', 'int', 'str', 'bool', 'len', 'round', 'tuple', 'frozenset', 'abs', 'min', 'max', 'sum', 'cosd', 'sind', 'range',
                 'TypeVar', 'getLogger', 'compile'}


def _mutable_expr(e):
    """does a module-level / default-argument expression denote a mutable object (array, list, dict, instance)?"""
    if isinstance(e, (ast.List, ast.Dict, ast.Set, ast.ListComp, ast.DictComp, ast.SetComp)):
        return True
    if isinstance(e, ast.Call):
        f = e.func
        name = f.id if isinstance(f, ast.Name) else (f.attr if isinstance(f, ast.Attribute) else '')
        src = ast.unparse(f)
        if name in _SCALAR_FUNCS or src.startswith(('math.', 'datetime.', 'os.', 're.', 'typing.')) or src in ('np.sqrt', 'np.deg2rad', 'np.rad2deg', 'np.float64'):
            return any(_mutable_expr(a) for a in e.args) and name == 'abs'
        return True
    if isinstance(e, ast.BinOp):
        return _mutable_expr(e.left) or _mutable_expr(e.right)
    if isinstance(e, ast.UnaryOp):
        return _mutable_expr(e.operand)
    if isinstance(e, (ast.Subscript, ast.Attribute)):
        return _mutable_expr(e.value)
    return False


def is_public(name):
    return (not name.startswith('_')) or name in ('__init__', '__new__') or name in ARITH_DUNDERS


# ====================================================================== package model
@dataclass
class FuncInfo:
    qual: str
    node: ast.FunctionDef
    module: str
    cls: Optional[str]            # class qualname
    kind: str                     # function | method | property | staticmethod | classmethod
    public: bool
    params: list = field(default_factory=list)        # explicit parameter names in order (incl. self), then *args, **kw
    defaults: dict = field(default_factory=dict)      # name -> ast default
    vararg: Optional[str] = None
    kwarg: Optional[str] = None
    attrs_direct: set = field(default_factory=set)    # self.<attr> names touched directly
    attrs_written_direct: set = field(default_factory=set)
    self_calls: set = field(default_factory=set)      # methods / properties of the own class family used through self
    all_attrs: bool = False                           # uses getattr/__getattribute__/__setattr__/__dict__ on self
    all_attrs_w: bool = False                         # ... in a way that may (re)bind attributes
    attrs: list = field(default_factory=list)         # implicit attribute parameters (transitive), sorted
    attrs_written: set = field(default_factory=set)   # transitive
    variants: list = field(default_factory=list)      # e.g. [('inplace', True), ('inplace', False)] or [None]
    globals: list = field(default_factory=list)       # module-level mutable objects / mutable defaults reachable (transitive), sorted


@dataclass
class ClassInfo:
    qual: str
    node: ast.ClassDef
    module: str
    bases: list                    # resolved base qualnames (package) or 'ext:<dotted>'
    methods: dict = field(default_factory=dict)   # name -> FuncInfo
    is_array: bool = False         # ndarray subclass
    attr_universe: set = field(default_factory=set)


class Package:
    def __init__(self, repo):
        self.root = os.path.join(repo, 'ahrs')
        self.modules = {}       # modpath -> (tree, is_pkg, path)
        self.symbols = {}       # modpath -> name -> ('func', qual) | ('class', qual) | ('ext', dotted) | ('mod', modpath) | ('const', node) | ('global', name)
        self.funcs = {}         # qual -> FuncInfo
        self.classes = {}       # qual -> ClassInfo
        self._load()

    # -------------------------------------------------------------- parsing
    def _load(self):
        for dp, dn, fns in os.walk(self.root):
            dn.sort()
            for fn in sorted(fns):
                if not fn.endswith('.py'):
                    continue
                path = os.path.join(dp, fn)
                rel = os.path.relpath(path, self.root)[:-3].replace(os.sep, '.')
                is_pkg = rel.endswith('__init__')
                mod = rel[:-len('.__init__')] if rel.endswith('.__init__') else ('' if rel == '__init__' else rel)
                self.modules[mod] = (ast.parse(open(path).read()), is_pkg, path)
        for mod in self.modules:
            self._own_defs(mod)
        self._resolved = {}
        for mod in self.modules:
            self.symbols[mod] = self._resolve_module(mod, ())
        for c in self.classes.values():
            c.bases = [self._base(c, b) for b in c.node.bases]
        for c in self.classes.values():
            c.is_array = any(b == 'ext:numpy.ndarray' or (b in self.classes and self._is_array(b)) for b in c.bases)
        self._attr_closure()

    def _is_array(self, q):
        c = self.classes[q]
        return any(b == 'ext:numpy.ndarray' or (b in self.classes and self._is_array(b)) for b in c.bases)

    def _own_defs(self, mod):
        tree = self.modules[mod][0]
        for n in tree.body:
            if isinstance(n, ast.FunctionDef):
                q = f'{mod}.{n.name}' if mod else n.name
                self.funcs[q] = self._finfo(q, n, mod, None)
            elif isinstance(n, ast.ClassDef):
                q = f'{mod}.{n.name}' if mod else n.name
                ci = ClassInfo(q, n, mod, [])
                self.classes[q] = ci
                for m in n.body:
                    if isinstance(m, ast.FunctionDef):
                        fq = f'{q}.{m.name}'
                        fi = self._finfo(fq, m, mod, q)
                        # a property with a setter: keep the getter under the plain name
                        decs = [ast.unparse(d) for d in m.decorator_list]
                        if any(d.endswith('.setter') for d in decs):
                            fq = fq + '.setter'
                            fi.qual = fq
                            fi.kind = 'method'
                            fi.public = False
                            self.funcs[fq] = fi
                            continue
                        self.funcs[fq] = fi
                        ci.methods[m.name] = fi

    def _finfo(self, q, n, mod, cls):
        decs = [ast.unparse(d) for d in n.decorator_list]
        kind = 'function' if cls is None else 'method'
        if 'property' in decs:
            kind = 'property'
        elif 'staticmethod' in decs:
            kind = 'staticmethod'
        elif 'classmethod' in decs:
            kind = 'classmethod'
        name = n.name
        public = is_public(name) and (cls is None or is_public(cls.split('.')[-1]))
        fi = FuncInfo(q, n, mod, cls, kind, public)
        a = n.args
        pos = list(a.posonlyargs) + list(a.args)
        fi.params = [x.arg for x in pos] + [x.arg for x in a.kwonlyargs]
        nd = len(a.defaults)
        for x, d in zip(pos[len(pos) - nd:], a.defaults):
            fi.defaults[x.arg] = d
        for x, d in zip(a.kwonlyargs, a.kw_defaults):
            if d is not None:
                fi.defaults[x.arg] = d
        fi.vararg = a.vararg.arg if a.vararg else None
        fi.kwarg = a.kwarg.arg if a.kwarg else None
        fi.ann = {x.arg: (ast.unparse(x.annotation) if x.annotation is not None else None) for x in pos + list(a.kwonlyargs)}
        # variants on a boolean `inplace` parameter
        if 'inplace' in fi.params:
            fi.variants = [('inplace', True), ('inplace', False)]
        elif name == '__new__' and len(fi.params) > 1 and isinstance(fi.defaults.get(fi.params[1]), ast.Constant) \
                and fi.defaults[fi.params[1]].value is None:
            # constructors of the ndarray subclasses: `if q is None:` selects the keyword-driven (possibly random) paths
            fi.variants = [(fi.params[1], 'None'), (fi.params[1], 'given')]
        else:
            fi.variants = [None]
        if cls is not None and kind in ('method', 'property') and fi.params:
            me = fi.params[0]
            for x in ast.walk(n):
                if isinstance(x, ast.Attribute) and isinstance(x.value, ast.Name) and x.value.id == me:
                    if x.attr in ('__getattribute__', '__setattr__', '__dict__', '__getattr__'):
                        fi.all_attrs = True
                        if x.attr in ('__setattr__', '__dict__'):
                            fi.all_attrs_w = True
                    else:
                        fi.attrs_direct.add(x.attr)
                        if isinstance(x.ctx, (ast.Store, ast.Del)):
                            fi.attrs_written_direct.add(x.attr)
                if isinstance(x, ast.Call) and isinstance(x.func, ast.Name) and x.func.id in ('getattr', 'setattr', 'vars') \
                        and x.args and isinstance(x.args[0], ast.Name) and x.args[0].id == me:
                    fi.all_attrs = True
                    if x.func.id != 'getattr':
                        fi.all_attrs_w = True
                if isinstance(x, ast.AugAssign) and isinstance(x.target, ast.Attribute) and isinstance(x.target.value, ast.Name) \
                        and x.target.value.id == me:
                    fi.attrs_written_direct.add(x.target.attr)
        return fi

    def _modpath_of_import(self, mod, node):
        is_pkg = self.modules[mod][1]
        parts = mod.split('.') if mod else []
        pkg = parts if is_pkg else parts[:-1]
        if node.level == 0:
            m = node.module or ''
            if m == 'ahrs' or m.startswith('ahrs.'):
                return m[5:] if m.startswith('ahrs.') else ''
            return None
        base = pkg[:len(pkg) - (node.level - 1)] if node.level > 1 else pkg
        tgt = base + (node.module.split('.') if node.module else [])
        return '.'.join(tgt)

    def _resolve_module(self, mod, stack):
        if mod in self._resolved:
            return self._resolved[mod]
        if mod in stack:
            return {}
        tab = {}
        tree = self.modules[mod][0]
        for n in tree.body:
            if isinstance(n, ast.Import):
                for al in n.names:
                    tab[(al.asname or al.name).split('.')[0]] = ('ext', al.name if al.asname else al.name.split('.')[0])
            elif isinstance(n, ast.ImportFrom):
                tgt = self._modpath_of_import(mod, n)
                if tgt is None:
                    for al in n.names:
                        tab[al.asname or al.name] = ('ext', f'{n.module}.{al.name}')
                    continue
                for al in n.names:
                    if al.name == '*':
                        if tgt in self.modules:
                            sub = self._resolve_module(tgt, stack + (mod,))
                            for k, v in sub.items():
                                if not k.startswith('_'):
                                    tab[k] = v
                        continue
                    sm = f'{tgt}.{al.name}' if tgt else al.name
                    if sm in self.modules:
                        tab[al.asname or al.name] = ('mod', sm)
                    elif tgt in self.modules:
                        sub = self._resolve_module(tgt, stack + (mod,))
                        if al.name in sub:
                            tab[al.asname or al.name] = sub[al.name]
                        else:
                            tab[al.asname or al.name] = ('const', None)
            elif isinstance(n, ast.FunctionDef):
                tab[n.name] = ('func', f'{mod}.{n.name}' if mod else n.name)
            elif isinstance(n, ast.ClassDef):
                tab[n.name] = ('class', f'{mod}.{n.name}' if mod else n.name)
            elif isinstance(n, (ast.Assign, ast.AnnAssign)):
                tgts = n.targets if isinstance(n, ast.Assign) else [n.target]
                for t in tgts:
                    for x in ast.walk(t):
                        if isinstance(x, ast.Name):
                            src = ast.unparse(n.value) if n.value is not None else ''
                            if 'default_rng' in src or 'RandomState' in src:
                                tab[x.id] = ('global', x.id)
                            elif n.value is not None and _mutable_expr(n.value):
                                tab[x.id] = ('gobj', f'{mod}.{x.id}')      # module-level mutable object shared by every call
                            else:
                                tab[x.id] = ('const', n.value)
        if not stack:
            self._resolved[mod] = tab
        return tab

    def _base(self, c, b):
        s = ast.unparse(b)
        tab = self.symbols[c.module]
        head = s.split('.')[0]
        if head in tab:
            k = tab[head]
            if k[0] == 'class':
                return k[1]
            if k[0] == 'ext':
                return 'ext:' + '.'.join([k[1]] + s.split('.')[1:])
        return 'ext:' + s

    def mro(self, cq):
        out, todo = [], [cq]
        while todo:
            q = todo.pop(0)
            if q in out or q not in self.classes:
                continue
            out.append(q)
            todo += self.classes[q].bases
        return out

    def lookup_method(self, cq, name):
        for q in self.mro(cq):
            m = self.classes[q].methods.get(name)
            if m is not None:
                return m
        return None

    def _attr_closure(self):
        # attribute universe per class family; transitive implicit attribute parameters per method
        for c in self.classes.values():
            uni = set()
            for q in self.mro(c.qual):
                for m in self.classes[q].methods.values():
                    uni |= m.attrs_direct
            # remove names that are methods/properties of the family
            names = set()
            for q in self.mro(c.qual):
                names |= set(self.classes[q].methods)
            c.method_names = names
            c.attr_universe = {a for a in uni if a not in names and not (a.startswith('__') and a.endswith('__'))}
        changed = True
        state = {}
        for f in self.funcs.values():
            if f.cls is None:
                continue
            c = self.classes[f.cls]
            direct = {a for a in f.attrs_direct if a in c.attr_universe}
            if f.all_attrs:
                direct |= c.attr_universe
            f.self_calls = {a for a in f.attrs_direct if a in c.method_names}
            wr = {a for a in f.attrs_written_direct if a in c.attr_universe}
            if f.all_attrs_w:
                wr |= c.attr_universe
            state[f.qual] = [set(direct), set(wr)]
        while changed:
            changed = False
            for f in self.funcs.values():
                if f.cls is None:
                    continue
                a, w = state[f.qual]
                for mname in f.self_calls:
                    m = self.lookup_method(f.cls, mname)
                    if m is None or m.qual not in state:
                        continue
                    a2, w2 = state[m.qual]
                    if not a2 <= a or not w2 <= w:
                        a |= a2
                        w |= w2
                        changed = True
        for f in self.funcs.values():
            if f.cls is None:
                continue
            f.attrs = sorted(state[f.qual][0] | state[f.qual][1])
            f.attrs_written = state[f.qual][1]

    def variant_name(self, f, v):
        return f.qual if v is None else f'{f.qual}[{v[0]}={v[1]}]'


# ====================================================================== abstract values
@dataclass(frozen=True)
class Val:
    al: frozenset = frozenset()       # variables this value may share memory with
    kind: str = 'unk'                 # scalar | arr | list | dict | obj | cls | unk
    rank: Optional[int] = None
    cls: Optional[str] = None         # package class of the instance, when known


SCALAR = Val(frozenset(), 'scalar', 0)
FRESH = Val(frozenset(), 'arr')


def join_val(a: Val, b: Val) -> Val:
    return Val(a.al | b.al, a.kind if a.kind == b.kind else 'unk', a.rank if a.rank == b.rank else None,
               a.cls if a.cls == b.cls else None)


# ====================================================================== extractor for one callable variant
class FX:
    def __init__(self, pkg: Package, f: FuncInfo, variant=None):
        self.pkg, self.f, self.variant = pkg, f, variant
        self.name = pkg.variant_name(f, variant)
        self.vars = {}
        self.info = {}          # var -> Val (kind/rank/cls of its current binding, merged)
        self.ntmp = 0
        self.calls = set()      # callee variant names
        self.block = []
        self.local_syms = {}
        self.notes = []
        self.nf_direct = set()
        self.uninit = {}
        self.depth = 0
        self.me = f.params[0] if (f.cls is not None and f.kind in ('method', 'property') and f.params) else None
        self.cinfo = pkg.classes.get(f.cls) if f.cls else None
        # parameter variables first, in callee order
        self.param_names = list(f.params) + ([f.vararg] if f.vararg else []) + ([f.kwarg] if f.kwarg else []) \
            + [f'{self.me}.{a}' for a in f.attrs] + [f'@{g}' for g in f.globals]
        for p in self.param_names:
            self.var(p)
        self.explicit = [p for p in self.param_names if '.' not in p and not p.startswith('@')]
        self.globals_direct = set()
        for g in f.globals:
            self.info[f'@{g}'] = Val(frozenset([f'@{g}']), 'unk')
        for p in f.params:
            ann = (f.ann.get(p) or '')
            base = ann.replace('Optional[', '').rstrip(']')
            if p == self.me:
                v = Val(frozenset([p]), 'arr' if self.cinfo.is_array else 'obj', None, f.cls)
            elif base in TB.SCALAR_ANN or (variant and p == variant[0] and variant[1] in (True, False, 'None')):
                v = Val(frozenset(), 'scalar', 0)
            elif any((q, p) in TB.RANK1 for q in (f.qual,)):
                v = Val(frozenset([p]), 'arr', 1)
            elif base in ('np.ndarray', 'numpy.ndarray'):
                v = Val(frozenset([p]), 'arr', None)
            elif p in ('cls', 'subtype') and f.node.name in ('__new__',) or f.kind == 'classmethod' and p == f.params[0]:
                v = Val(frozenset(), 'cls', None, f.cls)
            else:
                v = Val(frozenset([p]), 'unk', None)
            self.info[p] = v
        if f.vararg:
            self.info[f.vararg] = Val(frozenset([f.vararg]), 'list')
        if f.kwarg:
            self.info[f.kwarg] = Val(frozenset([f.kwarg]), 'dict')
        for a in f.attrs:
            n = f'{self.me}.{a}'
            self.info[n] = Val(frozenset([n]), 'unk')
        self.var('$ret')
        self.var('$none')

    # ---------------------------------------------------------- variables and statements
    def var(self, name):
        if name not in self.vars:
            self.vars[name] = len(self.vars)
        return name

    def tmp(self):
        self.ntmp += 1
        return self.var(f'$t{self.ntmp}')

    def emit(self, *st):
        self.block.append(st)

    def sub(self, fn):
        """run fn() collecting the statements it emits into a new block; returns ('seq', [...])"""
        saved = self.block
        self.block = []
        self.depth += 1
        try:
            r = fn()
        finally:
            self.depth -= 1
            blk, self.block = self.block, saved
        return ('seq', blk), r

    def bind(self, name, v: Val):
        self.var(name)
        if v.cls == 'uninit':
            self.uninit[name] = {'depth': self.depth, 'shape': getattr(self, '_last_uninit_shape', None), 'rows': set(), 'cols': set()}
            v = Val(v.al, v.kind, v.rank, None)
        else:
            self.uninit.pop(name, None)
        if self.me and name.startswith(self.me + '.') and v.al:
            self.nf_direct.add(name.split('.', 1)[1])
        if v.al:
            self.emit('alias', name, sorted(v.al))
        else:
            self.emit('fresh', name)
        old = self.info.get(name)
        nv = Val(frozenset([name]), v.kind, v.rank, v.cls)
        if old is not None and name in self._assigned:
            nv = Val(frozenset([name]), v.kind if old.kind == v.kind else 'unk', v.rank if old.rank == v.rank else None,
                     v.cls if old.cls == v.cls else None)
        self._assigned.add(name)
        self.info[name] = nv

    def as_var(self, v: Val):
        """a variable holding value v (for call arguments / inplace targets)"""
        if not v.al:
            return '$none'
        if len(v.al) == 1:
            return next(iter(v.al))
        t = self.tmp()
        self.emit('alias', t, sorted(v.al))
        return t

    def fail(self, node, why):
        raise Unclassified(f'{why} at line {getattr(node, "lineno", "?")}: {ast.unparse(node)[:60] if isinstance(node, ast.AST) else node}')

    # ---------------------------------------------------------- entry
    def gvar(self, gid):
        n = f'@{gid}'
        self.globals_direct.add(gid)
        self.var(n)
        self.info.setdefault(n, Val(frozenset([n]), 'unk'))
        return n

    def run(self):
        self._assigned = set()

        def whole():
            for p, d in self.f.defaults.items():
                if _mutable_expr(d):            # a mutable default is ONE object shared by every call that omits the argument
                    g = self.gvar(f'default:{self.f.qual}.{p}')
                    self.emit('alias', p, [p, g])
            return self.stmts(self.f.node.body)
        body, _ = self.sub(whole)
        prog = [body]
        wr = [f'{self.me}.{a}' for a in sorted(self._nf(self.f))] if self.me else []
        # $ret: what the callable really returns; $out: that plus the attributes it may have rebound (the channel through
        # which attribute flows reach the caller)
        prog.append(('alias', self.var('$out'), ['$ret'] + wr))
        return ('seq', prog)

    def _nf(self, m):
        """attributes m (or a method it calls on self) may bind to something that is not freshly allocated"""
        nf = getattr(m, 'attrs_nf', None)
        return set(m.attrs_written) if nf is None else set(nf)

    # ---------------------------------------------------------- statements
    def stmts(self, body):
        """translate a statement list; returns True when every path through it ends in return/raise"""
        for i, s in enumerate(body):
            if isinstance(s, ast.If):
                folded = self.fold(s.test)
                if folded is not None:
                    t = self.stmts(s.body if folded else s.orelse)
                    if t:
                        return True
                    continue
                self.ev(s.test)
                (pt, tt) = self.sub(lambda: self.stmts(s.body))
                (pe, te) = self.sub(lambda: self.stmts(s.orelse))
                rest = body[i + 1:]
                if tt and te:
                    self.emit('if', pt, pe)
                    return True
                if tt and not te and rest:
                    (pr, tr) = self.sub(lambda: self.stmts(rest))
                    self.emit('if', pt, ('seq', [pe, pr]))
                    return tr
                if te and not tt and rest:
                    (pr, tr) = self.sub(lambda: self.stmts(rest))
                    self.emit('if', ('seq', [pt, pr]), pe)
                    return tr
                self.emit('if', pt, pe)
                if (tt or te) and not rest:
                    return False
                continue
            try:
                t = self.stmt(s)
            except PathRaises as ex:
                self.notes.append(str(ex))
                t = True
            if t:
                return True
        return False

    def fold(self, test):
        """constant-fold tests on the variant parameter (`if inplace:` / `if not inplace:`)"""
        if self.variant is None:
            return None
        n, val = self.variant
        if val in ('None', 'given'):
            if isinstance(test, ast.Compare) and isinstance(test.left, ast.Name) and test.left.id == n and len(test.ops) == 1 \
                    and isinstance(test.comparators[0], ast.Constant) and test.comparators[0].value is None \
                    and n not in self._assigned:
                if isinstance(test.ops[0], ast.Is):
                    return val == 'None'
                if isinstance(test.ops[0], ast.IsNot):
                    return val != 'None'
            return None
        if isinstance(test, ast.Name) and test.id == n:
            return bool(val)
        if isinstance(test, ast.UnaryOp) and isinstance(test.op, ast.Not) and isinstance(test.operand, ast.Name) and test.operand.id == n:
            return not val
        return None

    def stmt(self, s):
        if isinstance(s, ast.Expr):
            if isinstance(s.value, ast.Constant):
                return False
            self.ev(s.value)
            return False
        if isinstance(s, ast.Assign):
            v = self.ev(s.value)
            for t in s.targets:
                self.assign(t, v, s.value)
            return False
        if isinstance(s, ast.AnnAssign):
            if s.value is not None:
                self.assign(s.target, self.ev(s.value), s.value)
            return False
        if isinstance(s, ast.AugAssign):
            self.aug(s)
            return False
        if isinstance(s, ast.Return):
            if s.value is not None:
                v = self.ev(s.value)
                if v.al:
                    self.emit('alias', '$ret', ['$ret'] + sorted(v.al))
            return True
        if isinstance(s, ast.Raise):
            return True
        if isinstance(s, (ast.Pass, ast.Assert, ast.Delete)):
            return False
        if isinstance(s, ast.For):
            it = self.ev(s.iter)

            def body():
                self.bind_iter(s.target, it, s.iter)
                self.stmts(s.body)
            (pb, _) = self.sub(body)
            self.emit('loop', pb)
            if s.orelse:
                self.stmts(s.orelse)
            return False
        if isinstance(s, ast.While):
            def body():
                self.ev(s.test)
                self.stmts(s.body)
            (pb, _) = self.sub(body)
            self.emit('loop', pb)
            self.ev(s.test)
            return False
        if isinstance(s, ast.Try):
            # every statement of the body may or may not have run when a handler starts
            for b in s.body:
                (pb, _) = self.sub(lambda b=b: self.stmts([b]))
                self.emit('if', pb, ('seq', []))
            for h in s.handlers:
                (ph, _) = self.sub(lambda h=h: self.stmts(h.body))
                self.emit('if', ph, ('seq', []))
            if s.orelse:
                (po, _) = self.sub(lambda: self.stmts(s.orelse))
                self.emit('if', po, ('seq', []))
            if s.finalbody:
                self.stmts(s.finalbody)
            return False
        if isinstance(s, (ast.Import, ast.ImportFrom)):
            self.local_import(s)
            return False
        if isinstance(s, ast.Continue) or isinstance(s, ast.Break):
            return False       # the rest of the loop body is over-approximated as executed
        self.fail(s, f'statement {type(s).__name__}')

    def local_import(self, s):
        if isinstance(s, ast.Import):
            for al in s.names:
                self.local_syms[(al.asname or al.name).split('.')[0]] = ('ext', al.name)
            return
        tgt = self.pkg._modpath_of_import(self.f.module, s)
        for al in s.names:
            if tgt is None:
                self.local_syms[al.asname or al.name] = ('ext', f'{s.module}.{al.name}')
            else:
                sub = self.pkg.symbols.get(tgt, {})
                if al.name in sub:
                    self.local_syms[al.asname or al.name] = sub[al.name]
                elif f'{tgt}.{al.name}' in self.pkg.modules:
                    self.local_syms[al.asname or al.name] = ('mod', f'{tgt}.{al.name}')
                else:
                    self.fail(s, 'unresolved local import')

    def bind_iter(self, target, it: Val, iter_node):
        src = ast.unparse(iter_node)
        if isinstance(iter_node, ast.Call) and isinstance(iter_node.func, ast.Name) and iter_node.func.id == 'range' \
                or src.startswith('np.arange') or it.kind == 'scalar' or it.rank == 1:
            elem = SCALAR
        elif isinstance(iter_node, ast.Call) and isinstance(iter_node.func, ast.Name) and iter_node.func.id == 'enumerate' \
                and isinstance(target, ast.Tuple) and len(target.elts) == 2:
            self.assign(target.elts[0], SCALAR, None)
            inner = self.ev(iter_node.args[0])
            e = SCALAR if inner.rank == 1 or inner.kind == 'scalar' else Val(inner.al, 'unk', None if inner.rank is None else inner.rank - 1)
            self.assign(target.elts[1], e, None)
            return
        elif isinstance(iter_node, (ast.List, ast.Tuple)) and all(isinstance(e, ast.Constant) for e in iter_node.elts):
            elem = SCALAR
        else:
            elem = Val(it.al, 'unk', None if it.rank is None else it.rank - 1)
        self.assign(target, elem, None)

    def assign(self, t, v: Val, vnode):
        if isinstance(t, ast.Name):
            self.bind(t.id, v)
        elif isinstance(t, (ast.Tuple, ast.List)):
            if vnode is not None and isinstance(vnode, (ast.Tuple, ast.List)) and len(vnode.elts) == len(t.elts) \
                    and not any(isinstance(e, ast.Starred) for e in list(vnode.elts) + list(t.elts)):
                # re-evaluating the element expressions would duplicate calls: use the joint value unless they are simple
                if all(isinstance(e, (ast.Name, ast.Constant, ast.Attribute, ast.Subscript, ast.BinOp, ast.UnaryOp)) for e in vnode.elts):
                    vals = [self.ev(e) for e in vnode.elts]
                    for tt, vv in zip(t.elts, vals):
                        self.assign(tt, vv, None)
                    return
            if v.kind == 'scalar' or v.rank == 1:
                e = SCALAR
            else:
                e = Val(v.al, 'unk', None if v.rank is None else v.rank - 1)
            for tt in t.elts:
                self.assign(tt.value if isinstance(tt, ast.Starred) else tt, e, None)
        elif isinstance(t, ast.Subscript):
            if isinstance(t.value, ast.Name) and t.value.id in self.uninit and self._initialises(t.value.id, t.slice):
                self.uninit.pop(t.value.id)
                self.emit('fresh', t.value.id)      # every element has now been assigned on this (unconditional) path
                return
            b = self.ev(t.value)
            if not b.al:
                return                      # writing into a fresh object
            if b.kind == 'arr':
                self.emit('inplace', self.as_var(b))      # values are copied into the array
            else:
                tv = self.as_var(v)
                if len(b.al) == 1:
                    x = next(iter(b.al))
                    if tv == '$none':
                        self.emit('inplace', x)
                    else:
                        self.emit('store', x, tv)
                else:
                    x = self.as_var(b)
                    self.emit('inplace', x)
                    if tv != '$none':
                        for y in sorted(b.al):
                            self.emit('alias', y, [y, tv])
        elif isinstance(t, ast.Attribute):
            if isinstance(t.value, ast.Name) and t.value.id == self.me and self.me is not None:
                if t.attr in TB.ARRAY_HEADER_ATTRS and self.cinfo.is_array:
                    self.emit('inplace', self.me)
                    return
                if t.attr in self.cinfo.method_names:
                    # property setter
                    m = self.pkg.funcs.get(f'{self.pkg.lookup_method(self.f.cls, t.attr).qual}.setter')
                    if m is None:
                        self.fail(t, 'assignment to a method name')
                    self.call_pkg([m], [Val(frozenset([self.me]), 'obj', None, self.f.cls), v], {}, receiver=self.me)
                    return
                self.bind(f'{self.me}.{t.attr}', v)
            elif t.attr in TB.ARRAY_HEADER_ATTRS:
                # x.shape = ... / x.dtype = ... / x.strides = ... / x.flags.writeable = ...: the caller's array object changes
                base = t.value.value if (isinstance(t.value, ast.Attribute) and t.value.attr == 'flags') else t.value
                b = self.ev(base)
                if b.al:
                    self.emit('inplace', self.as_var(b))
            else:
                b = self.ev(t.value)
                if b.al and v.al:
                    for y in sorted(b.al):
                        self.emit('alias', y, sorted({y} | set(v.al)))
        elif isinstance(t, ast.Starred):
            self.assign(t.value, v, None)
        else:
            self.fail(t, 'assignment target')

    def _initialises(self, name, idx):
        """does `name[idx] = ...`, at the nesting level of the allocation, complete the initialisation of `name`?"""
        u = self.uninit[name]
        if self.depth != u['depth']:
            return False                    # conditional / repeated: fail closed
        items = list(idx.elts) if isinstance(idx, ast.Tuple) else [idx]
        full = lambda x: isinstance(x, ast.Slice) and x.lower is None and x.upper is None and x.step is None
        if all(full(x) or (isinstance(x, ast.Constant) and x.value is Ellipsis) for x in items):
            return True
        lit = lambda x: x.value if isinstance(x, ast.Constant) and isinstance(x.value, int) and not isinstance(x.value, bool) else None
        shp = u['shape']
        if shp is None:
            return False
        first, last, nd = shp
        if lit(items[0]) is not None and all(full(x) for x in items[1:]) and first is not None and lit(items[0]) >= 0:
            u['rows'].add(lit(items[0]))
            return u['rows'] >= set(range(first))
        if len(items) == nd and lit(items[-1]) is not None and all(full(x) for x in items[:-1]) and last is not None and lit(items[-1]) >= 0:
            u['cols'].add(lit(items[-1]))
            return u['cols'] >= set(range(last))
        return False

    def aug(self, s):
        t = s.target
        self.ev(s.value)
        if isinstance(t, ast.Name):
            i = self.info.get(t.id)
            if t.id not in self.vars:
                self.fail(s, 'augmented assignment to a non-local')
            if i is not None and i.kind == 'scalar':
                self.emit('fresh', t.id)
            else:
                self.emit('inplace', t.id)
        elif isinstance(t, ast.Subscript):
            b = self.ev(t.value)
            if b.al:
                self.emit('inplace', self.as_var(b))
        elif isinstance(t, ast.Attribute):
            if isinstance(t.value, ast.Name) and t.value.id == self.me and self.me is not None and t.attr not in self.cinfo.method_names:
                n = self.var(f'{self.me}.{t.attr}')
                i = self.info.get(n)
                if i is not None and i.kind == 'scalar':
                    self.emit('fresh', n)
                else:
                    self.emit('inplace', n)
            else:
                b = self.ev(t.value)
                if b.al:
                    self.emit('inplace', self.as_var(b))
        else:
            self.fail(s, 'augmented assignment target')

    # ---------------------------------------------------------- expressions
    def sym(self, name):
        if name in self.local_syms:
            return self.local_syms[name]
        return self.pkg.symbols[self.f.module].get(name)

    def ev(self, e) -> Val:
        if isinstance(e, ast.Constant) or isinstance(e, (ast.JoinedStr, ast.FormattedValue)):
            return SCALAR
        if isinstance(e, ast.Name):
            if e.id in self.vars and (e.id in self.info):
                i = self.info[e.id]
                if i.kind == 'scalar' or i.kind == 'cls':
                    return Val(frozenset(), i.kind, i.rank, i.cls)
                return Val(frozenset([e.id]), i.kind, i.rank, i.cls)
            k = self.sym(e.id)
            if k is not None:
                if k[0] == 'class':
                    return Val(frozenset(), 'cls', None, k[1])
                if k[0] == 'global':
                    self.emit('readglobal', 1)
                    return Val(frozenset(), 'obj')
                if k[0] == 'gobj':
                    return Val(frozenset([self.gvar(k[1])]), 'unk')
                if k[0] == 'const':
                    return Val(frozenset(), 'unk')       # module-level constant (numbers / strings / tuples in this package)
                if k[0] in ('func', 'ext', 'mod'):
                    return Val(frozenset(), 'unk')
            if e.id in ('True', 'False', 'None') or e.id in TB.BUILTIN_SCALAR or e.id in TB.BUILTIN_ALIAS or e.id in TB.EXC_NAMES \
                    or e.id in ('float', 'int', 'str', 'bool', 'object', 'Ellipsis', '__name__', 'NotImplemented'):
                return SCALAR
            self.fail(e, 'unknown name')
        if isinstance(e, (ast.BinOp,)):
            self.ev(e.left); self.ev(e.right)
            return FRESH
        if isinstance(e, ast.UnaryOp):
            v = self.ev(e.operand)
            return SCALAR if v.kind == 'scalar' else FRESH
        if isinstance(e, ast.Compare):
            self.ev(e.left)
            for c in e.comparators:
                self.ev(c)
            return FRESH
        if isinstance(e, ast.BoolOp):
            vs = [self.ev(x) for x in e.values]
            out = vs[0]
            for v in vs[1:]:
                out = join_val(out, v)
            return out
        if isinstance(e, ast.IfExp):
            self.ev(e.test)
            return join_val(self.ev(e.body), self.ev(e.orelse))
        if isinstance(e, (ast.Tuple, ast.List, ast.Set)):
            al = frozenset()
            for x in e.elts:
                al |= self.ev(x.value if isinstance(x, ast.Starred) else x).al
            return Val(al, 'list')
        if isinstance(e, ast.Dict):
            al = frozenset()
            for x in list(e.keys) + list(e.values):
                if x is not None:
                    al |= self.ev(x).al
            return Val(al, 'dict')
        if isinstance(e, ast.Subscript):
            return self.ev_sub(e)
        if isinstance(e, ast.Attribute):
            return self.ev_attr(e)
        if isinstance(e, ast.Call):
            return self.ev_call(e)
        if isinstance(e, (ast.ListComp, ast.GeneratorExp, ast.SetComp, ast.DictComp)):
            return self.ev_comp(e)
        if isinstance(e, ast.Starred):
            return self.ev(e.value)
        if isinstance(e, ast.Slice):
            for x in (e.lower, e.upper, e.step):
                if x is not None:
                    self.ev(x)
            return SCALAR
        self.fail(e, f'expression {type(e).__name__}')

    def intlike(self, e):
        if isinstance(e, ast.Constant):
            return isinstance(e.value, int) and not isinstance(e.value, bool)
        if isinstance(e, ast.UnaryOp) and isinstance(e.op, ast.USub):
            return self.intlike(e.operand)
        if isinstance(e, ast.Name):
            i = self.info.get(e.id)
            return i is not None and i.kind == 'scalar'
        if isinstance(e, ast.BinOp):
            return self.intlike(e.left) and self.intlike(e.right)
        return False

    def ev_sub(self, e):
        b = self.ev(e.value)
        idx = e.slice
        items = list(idx.elts) if isinstance(idx, ast.Tuple) else [idx]
        for it in items:
            if not isinstance(it, (ast.Constant, ast.Name, ast.Slice)):
                self.ev(it)
        if b.kind == 'scalar':
            return SCALAR
        nint = sum(1 for it in items if self.intlike(it))
        plain = all(self.intlike(it) for it in items)
        if b.kind == 'arr' and b.rank is not None and plain and nint >= b.rank:
            return SCALAR
        rank = None
        if b.rank is not None and all(self.intlike(it) or isinstance(it, ast.Slice) for it in items):
            rank = b.rank - nint
        return Val(b.al, 'arr' if b.kind == 'arr' else 'unk', rank)

    def dotted(self, e):
        """e as an external dotted name ('numpy.linalg.norm') or None"""
        parts = []
        while isinstance(e, ast.Attribute):
            parts.append(e.attr)
            e = e.value
        if isinstance(e, ast.Name) and e.id not in self.vars:
            k = self.sym(e.id)
            if k is not None and k[0] == 'ext':
                return '.'.join([k[1]] + parts[::-1])
        return None

    def ev_attr(self, e):
        d = self.dotted(e)
        if d is not None:
            for pre, g in TB.EXT_GLOBAL.items():
                if d.startswith(pre):
                    self.emit('readglobal', g)
            return SCALAR      # np.pi, np.newaxis, np.float64 ...
        if isinstance(e.value, ast.Name) and e.value.id == self.me and self.me is not None:
            if e.attr in self.cinfo.method_names:
                m = self.pkg.lookup_method(self.f.cls, e.attr)
                if m.kind == 'property':
                    return self.call_pkg([m], [Val(frozenset([self.me]), 'obj', None, self.f.cls)], {}, receiver=self.me)
                self.fail(e, 'bound method used as a value')
            if e.attr in ('__class__', '__dict__', '__doc__'):
                return Val(frozenset(), 'unk')
            if e.attr in TB.ATTR_SCALAR and self.cinfo.is_array:
                return SCALAR
            if e.attr in ('T', 'real', 'imag', 'flat') and self.cinfo.is_array:
                return Val(frozenset([self.me]), 'arr')
            n = f'{self.me}.{e.attr}'
            if n not in self.vars:
                self.fail(e, 'attribute outside the class universe')
            i = self.info.get(n)
            if i is not None and i.kind == 'scalar':
                return SCALAR
            return Val(frozenset([n]), i.kind if i else 'unk', i.rank if i else None, i.cls if i else None)
        if isinstance(e.value, ast.Name) and e.value.id not in self.vars:
            k = self.sym(e.value.id)
            if k is not None and k[0] == 'class':
                return Val(frozenset(), 'unk')         # class attribute / unbound method
            if k is not None and k[0] == 'mod':
                return Val(frozenset(), 'unk')
            if k is not None and k[0] == 'global':
                self.emit('readglobal', 1)
                return Val(frozenset(), 'unk')
        b = self.ev(e.value)
        if e.attr in TB.ATTR_SCALAR or b.kind == 'scalar':
            return SCALAR
        if b.kind == 'cls':
            return Val(frozenset(), 'unk')
        if e.attr in ('T', 'real', 'imag', 'flat', 'base'):
            return Val(b.al, b.kind, b.rank)
        cands = self.method_candidates(b, e.attr)
        props = [m for m in cands if m.kind == 'property']
        if props:
            r = self.call_pkg(props, [b], {}, receiver=None)
            return Val(r.al | b.al, 'unk')
        return Val(b.al, 'unk')

    def method_candidates(self, b: Val, name):
        if b.cls is not None and b.cls in self.pkg.classes:
            m = self.pkg.lookup_method(b.cls, name)
            return [m] if m is not None else []
        out = []
        for c in self.pkg.classes.values():
            m = c.methods.get(name)
            if m is not None:
                out.append(m)
        return out

    def ev_comp(self, e):
        acc = self.tmp()
        self.emit('fresh', acc)
        gens = e.generators

        def level(i):
            if i == len(gens):
                if isinstance(e, ast.DictComp):
                    v = join_val(self.ev(e.key), self.ev(e.value))
                else:
                    v = self.ev(e.elt)
                if v.al:
                    self.emit('alias', acc, [acc] + sorted(v.al))
                return
            g = gens[i]
            it = self.ev(g.iter)

            def body():
                self.bind_iter(g.target, it, g.iter)
                for c in g.ifs:
                    self.ev(c)
                level(i + 1)
            (pb, _) = self.sub(body)
            self.emit('loop', pb)
        level(0)
        return Val(frozenset([acc]), 'list')

    # ---------------------------------------------------------- calls
    def ev_call(self, e):
        fn = e.func
        args = [a for a in e.args]
        kws = {k.arg: k.value for k in e.keywords if k.arg is not None}
        star_kw = [k.value for k in e.keywords if k.arg is None]
        # ---- plain names
        if isinstance(fn, ast.Name):
            name = fn.id
            if name in self.vars and name in self.info:
                self.fail(e, 'call of a local value')
            k = self.sym(name)
            if k is not None and k[0] == 'func':
                return self.call_pkg([self.pkg.funcs[k[1]]], args, kws, star_kw=star_kw)
            if k is not None and k[0] == 'class':
                return self.construct(k[1], args, kws, star_kw)
            if k is not None and k[0] == 'ext':
                return self.call_ext(k[1], e, args, kws)
            if name == 'super':
                return Val(frozenset(), 'unk')
            if name in TB.EXC_NAMES:
                for a in args:
                    self.ev(a)
                return SCALAR
            if name in TB.BUILTIN_SCALAR:
                for a in args:
                    self.ev(a)
                for v in kws.values():
                    self.ev(v)
                return SCALAR
            if name in TB.BUILTIN_ALIAS:
                al = frozenset()
                vals = [self.ev(a) for a in args]
                for v in vals:
                    al |= v.al
                if name == 'getattr' and args and isinstance(args[0], ast.Name) and args[0].id == self.me and self.me:
                    al |= frozenset(f'{self.me}.{a}' for a in self.f.attrs)
                if name in ('list', 'tuple') and vals and (vals[0].rank == 1 or vals[0].kind == 'scalar'):
                    return Val(frozenset(), 'list', 1)
                return Val(al, 'list' if name != 'getattr' else 'unk')
            self.fail(e, 'call of an unknown name')
        # ---- attribute calls
        if isinstance(fn, ast.Attribute):
            d = self.dotted(fn)
            if d is not None:
                return self.call_ext(d, e, args, kws)
            # super().m(...) / super(C, x).m(...)
            if isinstance(fn.value, ast.Call) and isinstance(fn.value.func, ast.Name) and fn.value.func.id == 'super':
                return self.call_super(fn.attr, e, args, kws, star_kw)
            # module.function
            if isinstance(fn.value, ast.Name) and fn.value.id not in self.vars and fn.value.id in ('dict', 'str', 'list', 'tuple', 'float', 'int'):
                al = frozenset()
                for a in args:
                    al |= self.ev(a).al
                return Val(al, 'unk')
            if isinstance(fn.value, ast.Name) and fn.value.id not in self.vars:
                k = self.sym(fn.value.id)
                if k is not None and k[0] == 'mod':
                    sub = self.pkg.symbols.get(k[1], {})
                    kk = sub.get(fn.attr)
                    if kk and kk[0] == 'func':
                        return self.call_pkg([self.pkg.funcs[kk[1]]], args, kws, star_kw=star_kw)
                    if kk and kk[0] == 'class':
                        return self.construct(kk[1], args, kws, star_kw)
                    self.fail(e, 'unresolved module attribute')
                if k is not None and k[0] == 'class':
                    m = self.pkg.lookup_method(k[1], fn.attr)
                    if m is None:
                        raise PathRaises(f'AttributeError: {k[1]} has no method {fn.attr} (line {e.lineno})')
                    return self.call_pkg([m], args, kws, star_kw=star_kw)      # explicit first argument
                if k is not None and k[0] == 'global':
                    self.emit('readglobal', 1)
                    for a in args:
                        self.ev(a)
                    return FRESH
                if k is not None and k[0] == 'gobj':
                    b = Val(frozenset([self.gvar(k[1])]), 'unk')
                    if fn.attr in TB.M_FRESH or fn.attr in TB.M_ALIAS or fn.attr in TB.M_INPLACE or fn.attr in TB.M_STORE:
                        return self.call_np_method(b, fn.attr, e, args, kws)
                    self.fail(e, 'method of a module-level object')
                if k is not None and k[0] == 'const':
                    for a in args:
                        self.ev(a)
                    if fn.attr in TB.M_FRESH or fn.attr in TB.M_ALIAS:
                        return Val(frozenset(), 'unk')
                    self.fail(e, 'method of a module constant')
            # self.method(...)
            if isinstance(fn.value, ast.Name) and fn.value.id == self.me and self.me is not None:
                if fn.attr in ('__getattribute__', '__getattr__'):
                    for a in args:
                        self.ev(a)
                    return Val(frozenset(f'{self.me}.{a}' for a in self.f.attrs), 'unk')
                if fn.attr == '__setattr__':
                    v = self.ev(args[1]) if len(args) > 1 else SCALAR
                    if v.al:
                        for a in self.f.attrs:
                            n = f'{self.me}.{a}'
                            self.emit('alias', n, [n] + sorted(v.al))
                            self.nf_direct.add(a)
                    return SCALAR
                m = self.pkg.lookup_method(self.f.cls, fn.attr)
                if m is not None:
                    return self.call_pkg([m], [Val(frozenset([self.me]), 'obj', None, self.f.cls)] + args, kws, receiver=self.me, star_kw=star_kw)
                if self.cinfo.is_array:
                    return self.call_np_method(Val(frozenset([self.me]), 'arr'), fn.attr, e, args, kws)
                if f'{self.me}.{fn.attr}' in self.vars:
                    self.fail(e, 'call of an attribute value')
                self.fail(e, 'unknown method on self')
            if isinstance(fn.value, ast.Attribute) and isinstance(fn.value.value, ast.Name) and fn.value.value.id == self.me \
                    and self.me and fn.value.attr == '__dict__':
                vals = [self.ev(a) for a in args]
                al = frozenset()
                for v in vals:
                    al |= v.al
                if al:
                    for a in self.f.attrs:
                        n = f'{self.me}.{a}'
                        self.emit('alias', n, [n] + sorted(al))
                        self.nf_direct.add(a)
                return SCALAR
            b = self.ev(fn.value)
            if b.kind == 'cls' and b.cls in self.pkg.classes:
                m = self.pkg.lookup_method(b.cls, fn.attr)
                if m is None:
                    self.fail(e, 'unknown method of a class')
                return self.call_pkg([m], args, kws, star_kw=star_kw)
            if b.cls is not None and b.cls in self.pkg.classes:
                m = self.pkg.lookup_method(b.cls, fn.attr)
                if m is not None:
                    return self.call_pkg([m], [b] + args, kws, receiver=None, star_kw=star_kw)
                if self.pkg.classes[b.cls].is_array:
                    return self.call_np_method(b, fn.attr, e, args, kws)
                self.fail(e, 'unknown method of a known class')
            if fn.attr in TB.M_FRESH or fn.attr in TB.M_ALIAS or fn.attr in TB.M_INPLACE or fn.attr in TB.M_STORE:
                return self.call_np_method(b, fn.attr, e, args, kws)
            cands = [m for m in self.method_candidates(b, fn.attr) if m.kind != 'property']
            if cands:
                return self.call_pkg(cands, [b] + args, kws, receiver=None, star_kw=star_kw)
            self.fail(e, f'unknown method .{fn.attr}')
        self.fail(e, 'call target')

    def call_np_method(self, b: Val, name, e, args, kws):
        vals = [self.ev(a) for a in args]
        for v in kws.values():
            self.ev(v)
        if b.kind == 'dict' and name == 'pop' and self.f.kwarg and b.al == frozenset([self.f.kwarg]):
            al = b.al          # **kwargs is a fresh dict per call: popping is not visible to the caller
            for v in vals[1:]:
                al |= v.al
            return Val(al, 'unk')
        if name == 'fill' and isinstance(e.func.value, ast.Name) and e.func.value.id in self.uninit \
                and self.depth == self.uninit[e.func.value.id]['depth']:
            self.uninit.pop(e.func.value.id)
            self.emit('fresh', e.func.value.id)
            return SCALAR
        if name in TB.M_INPLACE:
            if b.al:
                self.emit('inplace', self.as_var(b))
            return SCALAR
        if name in TB.M_STORE:
            if b.al:
                x = self.as_var(b)
                al = frozenset()
                for v in vals:
                    al |= v.al
                if al and len(b.al) == 1:
                    self.emit('store', x, self.as_var(Val(al)))
                else:
                    self.emit('inplace', x)
                    if al:
                        for y in sorted(b.al):
                            self.emit('alias', y, sorted({y} | al))
            return SCALAR
        if name in TB.M_ALIAS:
            al = b.al
            if name in ('get', 'pop', 'setdefault'):
                for v in vals[1:]:
                    al |= v.al
                if name in ('pop', 'setdefault') and b.al:
                    self.emit('inplace', self.as_var(b))
                return Val(al, 'unk')
            return Val(al, b.kind, None)
        if name in TB.M_FRESH:
            if b.kind == 'scalar':
                return SCALAR
            return Val(frozenset(), 'arr' if b.kind == 'arr' else 'unk')
        self.fail(e, f'unknown ndarray method .{name}')

    def call_ext(self, d, e, args, kws):
        vals = [self.ev(a) for a in args]
        kv = {k: self.ev(v) for k, v in kws.items()}
        if 'out' in kv and kv['out'].al:
            self.emit('inplace', self.as_var(kv['out']))
        for pre, g in TB.EXT_GLOBAL.items():
            if d.startswith(pre):
                self.emit('readglobal', g)
                return FRESH
        for mod in ('numpy.', 'math.', 'scipy.'):
            if d.startswith(mod):
                suffix = d[len(mod):]
                if mod == 'math.':
                    return SCALAR
                if suffix in TB.NP_UNINIT:
                    self._last_uninit_shape = self._literal_last_dim(args[0]) if (suffix != 'empty_like' and args) else None
                    return Val(frozenset([self.gvar(TB.UNINIT_ID)]), 'arr', None, 'uninit')
                if suffix in TB.NP_FRESH:
                    return FRESH
                if suffix in TB.NP_ALIAS:
                    al = frozenset()
                    for v in vals:
                        al |= v.al
                    rk = None
                    if suffix == 'atleast_2d':
                        rk = 2
                    return Val(al, 'arr', rk)
                if suffix in TB.NP_INPLACE_FIRST:
                    if vals and vals[0].al:
                        self.emit('inplace', self.as_var(vals[0]))
                    return SCALAR
                if suffix in ('r_', 'c_', 's_', 'newaxis', 'pi'):
                    return FRESH
                self.fail(e, f'unknown numpy function {d}')
        for pre, what in TB.EXT_OTHER.items():
            if d == pre or (pre.endswith('.') and d.startswith(pre)):
                if what == 'alias':
                    al = frozenset()
                    for v in vals:
                        al |= v.al
                    return Val(al, 'unk')
                return SCALAR if what == 'scalar' else Val(frozenset(), 'unk')
        if d.split('.')[-1] in ('Tuple', 'Union', 'Optional'):
            return SCALAR
        self.fail(e, f'unknown external function {d}')

    @staticmethod
    def _literal_last_dim(node):
        """(first, last) extents of a literal shape, None where not a literal int"""
        def lit(x):
            return x.value if isinstance(x, ast.Constant) and isinstance(x.value, int) else None
        if isinstance(node, (ast.Tuple, ast.List)) and node.elts:
            return (lit(node.elts[0]), lit(node.elts[-1]), len(node.elts))
        v = lit(node)
        return (v, v, 1) if v is not None else None

    def call_super(self, name, e, args, kws, star_kw):
        # the only bases outside the package are object and numpy.ndarray
        bases = []
        for q in self.pkg.mro(self.f.cls)[1:]:
            m = self.pkg.classes[q].methods.get(name)
            if m is not None:
                bases.append(m)
                break
        if bases:
            me = [Val(frozenset([self.me]), 'obj', None, self.f.cls)] if self.me else []
            return self.call_pkg(bases, me + args, kws, receiver=self.me, star_kw=star_kw)
        vals = [self.ev(a) for a in args]
        if name == '__new__':
            al = frozenset()
            for v in vals:
                al |= v.al              # ndarray.__new__(subtype, shape, dtype, buffer): a view of buffer
            return Val(al, 'arr', None, self.f.cls)
        if name in ('__init__', '__array_finalize__', '__init_subclass__'):
            return SCALAR
        self.fail(e, f'super().{name}')

    def construct(self, cq, args, kws, star_kw):
        c = self.pkg.classes[cq]
        new = self.pkg.lookup_method(cq, '__new__')
        init = self.pkg.lookup_method(cq, '__init__')
        argv = [self.ev(a) if isinstance(a, ast.AST) else a for a in args]
        kwv = {k: (self.ev(v) if isinstance(v, ast.AST) else v) for k, v in kws.items()}
        skv = [self.ev(v) if isinstance(v, ast.AST) else v for v in star_kw]
        kind = 'arr' if c.is_array else 'obj'
        if new is not None:
            r0 = self.call_pkg([new], [Val(frozenset(), 'cls', None, cq)] + argv, kwv, star_kw=skv, nodes=(args, kws))
        else:
            r0 = Val(frozenset(), kind)
        if init is not None:
            t = self.tmp()
            if r0.al:
                self.emit('alias', t, sorted(r0.al))
            else:
                self.emit('fresh', t)
            r1 = self.call_pkg([init], [Val(frozenset([t]), kind, None, cq)] + argv, kwv, star_kw=skv, receiver_var=t)
            return Val(frozenset([t]) | r1.al, kind, None, cq)
        return Val(r0.al, kind, None, cq)

    def call_pkg(self, cands, args, kws, receiver=None, star_kw=(), receiver_var=None, nodes=None):
        """emit r := call f(...) for each candidate callee (non-deterministic choice between them)"""
        argv = [self.ev(a) if isinstance(a, ast.AST) else a for a in args]
        star = [v for a, v in zip(args, argv) if isinstance(a, ast.Starred)]
        posv = [v for a, v in zip(args, argv) if not isinstance(a, ast.Starred)]
        kwv = {k: (self.ev(v) if isinstance(v, ast.AST) else v) for k, v in kws.items()}
        kconst = {k: v.value for k, v in kws.items() if isinstance(v, ast.Constant)}
        skv = [self.ev(v) if isinstance(v, ast.AST) else v for v in star_kw]
        rest = Val(frozenset().union(*[v.al for v in star + skv]) if (star or skv) else frozenset(), 'unk')
        r = self.tmp()
        progs = []
        written_any = False
        for m in cands:
            variants = m.variants
            if variants != [None]:
                vn = variants[0][0]
                isnone = variants[0][1] in ('None', 'given')
                given = vn in kwv or m.params.index(vn) < len(posv)
                if isnone:
                    if given:
                        src_args, src_kws = nodes if nodes is not None else (args, kws)
                        off = len(args) - len(src_args)          # constructors prepend the class / instance
                        anode = src_kws.get(vn) if vn in kwv else [a for a in src_args if not isinstance(a, ast.Starred)][m.params.index(vn) - off]
                        if isinstance(anode, ast.Constant) and anode.value is None:
                            variants = [(vn, 'None')]
                        elif isinstance(anode, ast.AST) and not isinstance(anode, ast.Name):
                            variants = [(vn, 'given')]
                        elif isinstance(anode, ast.Name):
                            i = self.info.get(anode.id)
                            dflt = self.f.defaults.get(anode.id)
                            maybe_none = (anode.id in self.f.params and isinstance(dflt, ast.Constant) and dflt.value is None
                                          and anode.id not in self._assigned) or (i is not None and i.kind == 'scalar')
                            if not maybe_none:
                                variants = [(vn, 'given')]
                    elif not star:
                        variants = [(vn, 'None')]
                elif vn in kconst:
                    variants = [(vn, bool(kconst[vn]))]
                elif not given and vn in m.defaults and isinstance(m.defaults[vn], ast.Constant) and not (star or skv):
                    variants = [(vn, bool(m.defaults[vn].value))]
            for var in variants:
                callee = self.pkg.variant_name(m, var)

                def one(m=m, callee=callee):
                    names = list(m.params) + ([m.vararg] if m.vararg else []) + ([m.kwarg] if m.kwarg else [])
                    bound = {}
                    for i, v in enumerate(posv):
                        if i < len(m.params):
                            bound[m.params[i]] = v
                        elif m.vararg:
                            bound[m.vararg] = join_val(bound.get(m.vararg, Val(frozenset(), 'list')), v)
                    for k, v in kwv.items():
                        if k in m.params:
                            bound[k] = v
                        elif m.kwarg:
                            bound[m.kwarg] = join_val(bound.get(m.kwarg, Val(frozenset(), 'dict')), v)
                    if rest.al:
                        for n in names:
                            if n not in bound:
                                bound[n] = rest
                            elif n in (m.vararg, m.kwarg):
                                bound[n] = join_val(bound[n], rest)
                    def scalar_param(n):      # a parameter annotated int/float/bool/str holds no array (same contract as for the callee itself)
                        a = (getattr(m, 'ann', {}).get(n) or '').replace('Optional[', '').rstrip(']')
                        return a in TB.SCALAR_ANN
                    argl = [self.as_var(bound[n]) if (n in bound and not scalar_param(n)) else '$none' for n in names]
                    # implicit attribute parameters
                    me0 = m.params[0] if (m.cls and m.kind in ('method', 'property') and m.params) else None
                    recv = bound.get(me0) if me0 else None
                    for a in m.attrs:
                        if receiver is not None and self.me is not None and receiver == self.me:
                            n = f'{self.me}.{a}'
                            if n in self.vars:
                                argl.append(n)
                            else:
                                argl.append(self.me)
                        elif recv is not None:
                            argl.append(self.as_var(recv))
                        else:
                            argl.append('$none')
                    for g in m.globals:
                        argl.append(self.gvar(g))
                    self.emit('call', r, callee, argl)
                    self.calls.add(callee)
                (p, _) = self.sub(one)
                progs.append(p)
            if m.attrs_written:
                written_any = True
                wr = m.attrs_written
                if receiver is not None and self.me is not None and receiver == self.me:
                    self._post_written = [f'{self.me}.{a}' for a in sorted(wr) if f'{self.me}.{a}' in self.vars]
                else:
                    self._post_written = None
        # non-deterministic choice between the candidates
        prog = progs[0]
        for p in progs[1:]:
            prog = ('seq', [('if', prog, p)])
        if len(progs) == 1:
            for st in prog[1]:
                self.block.append(st)
        else:
            self.block.append(prog[1][0])
        if written_any:
            if receiver is not None and self.me is not None and receiver == self.me:
                names, fresh = set(), set()
                for m in cands:
                    nf = self._nf(m)
                    names |= {f'{self.me}.{a}' for a in nf if f'{self.me}.{a}' in self.vars}
                    fresh |= {f'{self.me}.{a}' for a in set(m.attrs_written) - nf if f'{self.me}.{a}' in self.vars}
                for n in sorted(names):
                    self.emit('alias', n, [n, r])
                for n in sorted(fresh - names):
                    self.emit('if', ('seq', [('fresh', n)]), ('seq', []))      # the callee may have rebound it to a new array
            else:
                # the receiver object may now hold what the callee bound to its attributes
                tgt = receiver_var
                if tgt is None and posv and cands[0].cls and cands[0].kind in ('method', 'property'):
                    for y in sorted(posv[0].al):
                        self.emit('alias', y, [y, r])
                elif tgt is not None:
                    self.emit('alias', tgt, [tgt, r])
        cls = None
        return Val(frozenset([r]), 'unk', None, cls)
