"""Hand tables of the effect extractor: what NumPy / builtin operations do to their operands, which
parameters are 1-D (so that `ax, ay, az = a` yields scalars), what is documented as in-place or random."""

# ---------------------------------------------------------------- external functions (dotted suffix after the module alias)
# result is a NEW object that shares no memory with the arguments
NP_FRESH = set('''array copy zeros ones full identity eye zeros_like ones_like full_like arange linspace
sqrt sin cos tan arcsin arccos arctan arctan2 sinh cosh tanh exp log log10 log2 cbrt square abs absolute fabs sign floor ceil
round around rint trunc power mod fmod hypot deg2rad rad2deg radians degrees maximum minimum fmax fmin clip
sum prod mean std var median nansum nanmean nanstd nanmax nanmin max min amax amin ptp cumsum cumprod diff gradient
dot vdot inner outer cross matmul tensordot einsum kron trace
linalg.norm linalg.det linalg.inv linalg.pinv linalg.eig linalg.eigh linalg.eigvals linalg.eigvalsh linalg.svd linalg.solve
linalg.cholesky linalg.qr linalg.lstsq linalg.matrix_rank linalg.matrix_power linalg.multi_dot
vstack hstack dstack stack concatenate column_stack row_stack append insert delete tile repeat roll flip fliplr flipud rot90
where nonzero argmax argmin argsort sort unique searchsorted count_nonzero
isclose allclose isnan isinf isfinite isreal iscomplex isscalar all any array_equal logical_and logical_or logical_not
equal not_equal less greater less_equal greater_equal
float64 float32 int64 int32 dtype shape ndim size
correlate convolve interp polyval polyfit roots
tril triu meshgrid genfromtxt loadtxt fromstring frombuffer unwrap angle conj conjugate nan_to_num emath.sqrt
math.sqrt math.sin math.cos math.atan2 math.factorial factorial'''.split())

# result MAY be a view of (share memory with) the array arguments
NP_ALIAS = set('''asarray asanyarray asfarray ascontiguousarray atleast_1d atleast_2d atleast_3d transpose reshape squeeze ravel
real imag swapaxes moveaxis expand_dims broadcast_to diag diagonal split array_split hsplit vsplit flatnonzero
require'''.split())

# first argument is changed in place
NP_INPLACE_FIRST = set('''put fill_diagonal copyto place putmask random.shuffle'''.split())

# draws from the global NumPy generator / OS entropy / wall clock
EXT_GLOBAL = {
    'numpy.random': 0,          # np.random.<anything> (legacy global RandomState; default_rng() seeds from OS entropy)
    'datetime.date.today': 2, 'datetime.datetime.now': 2, 'datetime.datetime.today': 2, 'time.time': 2,
    'random.': 0,
}
GLOBAL_NAMES = {0: 'numpy global RNG / OS entropy', 1: 'module-level generator', 2: 'wall clock'}

# other external callables: name -> 'fresh' | 'alias' | 'scalar'
EXT_OTHER = {
    'pkgutil.get_data': 'fresh', 'io.StringIO': 'fresh', 'StringIO': 'fresh', 'datetime.date': 'fresh',
    'datetime.date.fromordinal': 'fresh', 'math.': 'scalar', 'warnings.warn': 'scalar', 'copy.deepcopy': 'fresh',
    'copy.copy': 'fresh', 'np.dtype': 'scalar',
}

# ---------------------------------------------------------------- methods on values of unknown class (ndarray / list / str / dict)
M_FRESH = set('''copy flatten tolist astype sum mean std var max min prod trace dot cumsum cumprod argmax argmin argsort any all
conj conjugate round clip nonzero item tobytes tostring repeat take compress ptp searchsorted
lower upper strip split join format startswith endswith replace title capitalize lstrip rstrip isdigit isalpha count index
keys values items timetuple toordinal isoformat issubset issuperset union intersection difference
decode encode splitlines read readline
uniform random standard_normal integers normal choice'''.split())
M_ALIAS = set('''reshape view squeeze ravel transpose swapaxes diagonal get pop setdefault'''.split())       # may return (part of) the receiver
M_INPLACE = set('''sort fill resize put itemset partition setfield byteswap setflags'''.split())                       # change the receiver's bytes
M_STORE = set('''append extend insert update add remove clear reverse'''.split())                             # change a container receiver
ATTR_ALIAS = set('''T real imag flat base A array'''.split())     # attribute that is a view of the receiver (A/array: this package's ndarray subclasses)
ATTR_SCALAR = set('''shape ndim size dtype itemsize nbytes year month day tm_yday'''.split())

BUILTIN_SCALAR = set('''len isinstance issubclass type abs float int bool str repr hash id any all sum min max round print
hasattr callable ord chr format range divmod pow'''.split())
BUILTIN_ALIAS = set('''list tuple set frozenset sorted reversed enumerate zip iter next dict getattr map filter'''.split())
EXC_NAMES = set('''ValueError TypeError AttributeError RuntimeError NotImplementedError IndexError KeyError Exception
ZeroDivisionError AssertionError Warning UserWarning DeprecationWarning'''.split())

# ---------------------------------------------------------------- ranks
# parameters documented as ONE sample / ONE quaternion (1-D): integer indexing and tuple unpacking give scalars.
# key: (callable qualname suffix, parameter) ; '*' as callable = any callable of that module
RANK1 = {
    ('common.orientation.acc2q', 'a'), ('common.orientation.ecompass', 'a'), ('common.orientation.ecompass', 'm'),
    ('common.orientation.am2q', 'a'), ('common.orientation.am2q', 'm'),
    ('common.orientation.q_prod', 'p'), ('common.orientation.q_prod', 'q'),
    ('common.orientation.q_mult_L', 'q'), ('common.orientation.q_mult_R', 'q'), ('common.orientation.q_rot', 'q'),
    ('common.orientation.q_rot', 'v'), ('common.orientation.quat2axang', 'q'), ('common.orientation.axang2quat', 'axis'),
    ('common.orientation.q2rpy', 'q'), ('common.orientation.q2euler', 'q'), ('common.orientation.q_conj', 'q'),
    ('common.mathfuncs.skew', 'x'),
}
# annotations that denote immutable scalars
SCALAR_ANN = {'float', 'int', 'bool', 'str', 'complex'}

# ---------------------------------------------------------------- documented exemptions (checked against the docstrings by C19.py)
# (callable[variant], parameter) pairs that are DOCUMENTED in-place operations
DOCUMENTED_INPLACE = {
    ('common.quaternion.Quaternion.normalize', '*'): 'Normalize the quaternion',
    ('common.quaternion.QuaternionArray.remove_jumps', '*'): 'in-place',
    ('common.quaternion.QuaternionArray.slerp_nan[inplace=True]', '*'): 'inplace',
    ('common.quaternion.QuaternionArray.rotate_by[inplace=True]', '*'): 'inplace',
    ('common.quaternion.QuaternionArray.from_DCM[inplace=True]', '*'): 'inplace',
}
# callables DOCUMENTED to return random values (repeatability is not claimed for them)
DOCUMENTED_RANDOM = {
    'common.quaternion.random_attitudes': 'random', 'common.orientation.q_random': 'random',
    'common.dcm.DCM.random': 'random', 'common.dcm.random_rotations': 'random',
    'utils.sensors.random_angpos': 'random', 'utils.sensors.Sensors.__init__': 'random',
    'utils.sensors.Sensors.generate': 'random', 'utils.sensors.Sensors.set_random_attitudes': 'random',
    'common.quaternion.Quaternion.random': 'random', 'common.quaternion.QuaternionArray.random': 'random',
}

# callables (by qualname prefix) that may read global state for a documented reason: the default date of the World
# Magnetic Model is today's date (so are the magnetic references the estimators derive from it), Sensors draws noise
GLOBAL_ALLOWED_PREFIX = (
    'utils.wmm.', 'utils.sensors.', 'filters.ekf.EKF.__init__', 'filters.oleq.OLEQ.__init__', 'filters.roleq.ROLEQ.__init__',
    'filters.triad.TRIAD.__init__', 'filters.saam.SAAM.__init__', 'filters.tilt.Tilt.__init__',
    'common.quaternion.QuaternionArray.__new__', 'common.quaternion.Quaternion.__new__', 'common.dcm.DCM.__new__',
    'common.dcm.rot_seq',                      # draws a random sequence when called without one (documented)
    # static imprecision (call-graph cycle through QuaternionArray(int) -> random_attitudes): checked dynamically
    'filters.angular.AngularRate.', 'filters.complementary.Complementary.Q',
    # known finding (owned by C04/C06): OLEQ.estimate starts its iteration from np.random.random
    'filters.oleq.OLEQ.', 'filters.roleq.ROLEQ.',
)
RANDOM_PREFIX = ('utils.sensors.',)

# methods that update, in place, arrays the OBJECT allocated itself (never the caller's): the static analysis cannot
# separate them from constructor data through the single return channel of attribute flows; the dynamic check confirms on
# every run that no caller array changes.  Listed so that the exemption is explicit (C15 owns the WMM object state).
OWN_STATE_INPLACE = {
    'utils.wmm.WMM.denormalize_coefficients': 'self.c / self.cd are loaded by load_coefficients (np.zeros), then scaled in place',
    'utils.wmm.WMM.magnetic_field': 'calls reset_coefficients/denormalize_coefficients on its own arrays',
    'utils.wmm.WMM.__init__': 'calls magnetic_field',
    'utils.sensors.Sensors.angular_velocities': 'arrays generated by the object itself',
    'utils.sensors.Sensors.__init__': 'calls generate on arrays generated by the object itself',
    'utils.sensors.Sensors.generate': 'adds noise in place to arrays it has just computed',
}

# callables allowed to return an object that is shared between calls (none in the current tree)
SHARED_RETURN_OK = set()

# scalar attributes that are declared carried state of a state-advancing method (may differ after two identical calls)
CARRIED_SCALARS = set()
# attributes whose assignment changes the array object itself (the caller sees another shape / dtype / layout / flags)
ARRAY_HEADER_ATTRS = {'shape', 'dtype', 'strides', 'writeable', 'flags'}

# allocations whose elements are whatever the heap held: the result depends on earlier, unrelated calls until every element
# has been assigned.  pyfx binds them to the shared pseudo-object `@uninit`; a complete unconditional initialisation
# (x[:] = / x[...] = / x.fill(v) / all k rows or columns of a literal shape written at the allocation's own nesting level)
# re-binds the name to a fresh array.
NP_UNINIT = set('empty empty_like ndarray'.split())
UNINIT_ID = 'uninit:heap'

# callables documented to draw the arguments that are left out at random
RANDOM_WHEN_OMITTED = {'common.dcm.rot_seq': ('axes', 'angles')}
