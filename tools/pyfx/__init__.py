"""pyfx: effect extraction for every callable of the package; see extract.py.

    res = pyfx.analyze(repo)      # repo = directory containing ahrs/
    res.entries      list of Entry in call-graph order (callees first); index = function id of the Coq table
    res.unclassified {callable name: reason}
    pyfx.emit_coq(res, path, extra)   writes the Gallina data file
"""
from __future__ import annotations
import sys
from dataclasses import dataclass, field
from . import tables
from .extract import Package, FX, Unclassified, is_public


@dataclass
class Entry:
    name: str                 # qualname[variant]
    qual: str
    public: bool
    kind: str
    params: list              # all parameter names (explicit, *args, **kw, then implicit self.attr)
    n_explicit: int
    prog: tuple
    vars: dict
    calls: set
    variant: object = None
    fid: int = -1
    doc: str = ''


class Result:
    def __init__(self):
        self.entries = []
        self.unclassified = {}
        self.by_name = {}
        self.pkg = None


def analyze(repo) -> Result:
    sys.setrecursionlimit(10000)
    pkg = Package(repo)
    res = Result()
    res.pkg = pkg
    # pass 1: which attributes does each method bind to something that is not freshly allocated (transitively over self calls)
    direct = {}
    gdirect, gcalls = {}, {}
    for q in sorted(pkg.funcs):
        f = pkg.funcs[q]
        nf = set()
        gdirect[q], gcalls[q] = set(), set()
        for var in f.variants:
            try:
                fx = FX(pkg, f, var)
                fx.run()
                nf |= fx.nf_direct
                gdirect[q] |= fx.globals_direct
                gcalls[q] |= {c.split('[')[0] for c in fx.calls}
            except (Unclassified, RecursionError):
                nf |= set(f.attrs_written)
        if f.cls is not None:
            direct[q] = nf
    # module-level mutable objects / mutable defaults reachable from each callable (transitive over the call graph)
    changed = True
    while changed:
        changed = False
        for q in gdirect:
            for c in gcalls[q]:
                if c in gdirect and not gdirect[c] <= gdirect[q]:
                    gdirect[q] |= gdirect[c]
                    changed = True
    for q, g in gdirect.items():
        pkg.funcs[q].globals = sorted(g)
    changed = True
    while changed:
        changed = False
        for q, nf in direct.items():
            f = pkg.funcs[q]
            for mname in f.self_calls:
                m = pkg.lookup_method(f.cls, mname)
                if m is not None and m.qual in direct and not direct[m.qual] <= nf:
                    nf |= direct[m.qual]
                    changed = True
    for q, nf in direct.items():
        pkg.funcs[q].attrs_nf = set(nf) & set(pkg.funcs[q].attrs_written)
    raw = {}
    for q in sorted(pkg.funcs):
        f = pkg.funcs[q]
        for var in f.variants:
            name = pkg.variant_name(f, var)
            try:
                fx = FX(pkg, f, var)
                prog = fx.run()
                import ast
                raw[name] = Entry(name, f.qual, f.public, f.kind, list(fx.param_names), len(fx.explicit), prog, dict(fx.vars),
                                  set(fx.calls), var, doc=(ast.get_docstring(f.node) or ''))
                raw[name].notes = list(fx.notes)
            except Unclassified as e:
                res.unclassified[name] = str(e)
            except RecursionError:
                res.unclassified[name] = 'recursion limit'
    # a callable that calls an unclassified callee stays classified: the call is to an unknown callee (havoc)
    order = _topo(raw)
    for i, n in enumerate(order):
        raw[n].fid = i
        res.entries.append(raw[n])
        res.by_name[n] = raw[n]
    return res


def _topo(raw):
    """callees before callers (Tarjan); members of a cycle keep an arbitrary order: a call to a later index is an
    unknown callee for the Coq analysis (sound)"""
    index, low, onst, st, out = {}, {}, set(), [], []
    cnt = [0]

    def strong(v):
        work = [(v, iter(sorted(c for c in raw[v].calls if c in raw)))]
        index[v] = low[v] = cnt[0]; cnt[0] += 1
        st.append(v); onst.add(v)
        while work:
            node, it = work[-1]
            adv = False
            for w in it:
                if w not in index:
                    index[w] = low[w] = cnt[0]; cnt[0] += 1
                    st.append(w); onst.add(w)
                    work.append((w, iter(sorted(c for c in raw[w].calls if c in raw))))
                    adv = True
                    break
                elif w in onst:
                    low[node] = min(low[node], index[w])
            if adv:
                continue
            work.pop()
            if work:
                low[work[-1][0]] = min(low[work[-1][0]], low[node])
            if low[node] == index[node]:
                comp = []
                while True:
                    w = st.pop(); onst.discard(w); comp.append(w)
                    if w == node:
                        break
                out.extend(sorted(comp))
    for v in sorted(raw):
        if v not in index:
            strong(v)
    return out


# ---------------------------------------------------------------------- Gallina
def _p(res, e, st):
    V = e.vars
    k = st[0]
    if k == 'seq':
        items = [_p(res, e, s) for s in st[1]]
        items = [x for x in items if x != 'Skip']
        if not items:
            return 'Skip'
        if len(items) == 1:
            return items[0]
        return '(seqs [' + '; '.join(items) + '])'
    if k == 'fresh':
        return f'(Fresh {V[st[1]]})'
    if k == 'alias':
        return f'(Alias {V[st[1]]} [' + ';'.join(str(V[y]) for y in st[2]) + '])'
    if k == 'copy':
        return f'(Copy {V[st[1]]} {V[st[2]]})'
    if k == 'inplace':
        return f'(InPlace {V[st[1]]})'
    if k == 'store':
        return f'(Store {V[st[1]]} {V[st[2]]})'
    if k == 'readglobal':
        return f'(ReadGlobal {st[1]})'
    if k == 'call':
        callee = res.by_name.get(st[2])
        fid = callee.fid if callee is not None else len(res.entries)
        return f'(Call {V[st[1]]} {fid} [' + ';'.join(str(V[y]) for y in st[3]) + '])'
    if k == 'if':
        return f'(If {_p(res, e, st[1])} {_p(res, e, st[2])})'
    if k == 'loop':
        return f'(Loop {_p(res, e, st[1])})'
    raise ValueError(k)


def emit_coq(res: Result, path, extra_lines=()):
    L = ['(* generated by tools/pyfx from the package source on every run: do not edit *)',
         'From Coq Require Import List String.', 'From AhrsModel Require Import Effects.',
         'Import ListNotations.', 'Open Scope string_scope.', '',
         'Definition seqs (l : list prog) : prog := fold_right Seq Skip l.', '']
    for e in res.entries:
        L.append(f'(* {e.fid}: {e.name}   params: {" ".join(e.params)} *)')
        L.append(f'Definition body_{e.fid} : prog := {_p(res, e, e.prog)}.')
    L.append('')
    L.append('Definition generated_programs : table := [')
    L.append(';\n'.join(f'  {{| f_nparams := {len(e.params)}; f_body := body_{e.fid}; f_ret := {e.vars["$out"]} |}}' for e in res.entries))
    L.append('].')
    L.append('Definition names : list string := [')
    L.append(';\n'.join(f'  "{e.name}"' for e in res.entries))
    L.append('].')
    L.append('Definition is_public : list bool := [' + '; '.join('true' if e.public else 'false' for e in res.entries) + '].')
    L.append('Definition n_explicit : list nat := [' + '; '.join(str(e.n_explicit) for e in res.entries) + '].')
    L.append('Definition uninit_params : list (list nat) := [' + '; '.join('[' + ';'.join(str(k) for k, p in enumerate(e.params) if p == '@' + tables.UNINIT_ID) + ']' for e in res.entries) + '].')
    L.append('Definition ret_real : list nat := [' + '; '.join(str(e.vars['$ret']) for e in res.entries) + '].')
    L.append('Definition shared_params : list (list nat) := [' + '; '.join('[' + ';'.join(str(i) for i, p in enumerate(e.params) if p.startswith('@') and p != '@' + tables.UNINIT_ID) + ']' for e in res.entries) + '].')
    L += list(extra_lines)
    with open(path, 'w') as fh:
        fh.write('\n'.join(L) + '\n')
