#!/usr/bin/env python3
"""Aggregate, over all evidence files, which executable source lines of /repo/ahrs run inside a regenerated model."""
import ast, json, glob, os, sys
REPO = os.environ.get('AHRS_REPO', '/repo')
cov = {}
for f in glob.glob('/verif/evidence/C*.json'):
    d = json.load(open(f))['coverage'].get('source_lines_inside_model') or {}
    for k, v in d.items():
        s = cov.setdefault(k, set())
        for part in v.split(','):
            if not part:
                continue
            a, _, b = part.partition('-')
            s.update(range(int(a), int(b or a) + 1))
tot_exec = tot_cov = 0
rows = []
for path in sorted(glob.glob(f'{REPO}/ahrs/**/*.py', recursive=True)):
    rel = os.path.relpath(path, f'{REPO}/ahrs')
    tree = ast.parse(open(path).read())
    lines = set()
    for node in ast.walk(tree):
        if isinstance(node, ast.stmt) and not (isinstance(node, ast.Expr) and isinstance(getattr(node, 'value', None), ast.Constant) and isinstance(node.value.value, str)):
            if not isinstance(node, (ast.FunctionDef, ast.ClassDef, ast.Import, ast.ImportFrom)):
                lines.add(node.lineno)
    c = len(lines & cov.get(rel, set()))
    tot_exec += len(lines); tot_cov += c
    rows.append((rel, len(lines), c))
for rel, n, c in rows:
    print(f"{rel:28s} {c:5d}/{n:5d}  {100*c/max(n,1):5.1f}%")
print(f"{'TOTAL':28s} {tot_cov:5d}/{tot_exec:5d}  {100*tot_cov/max(tot_exec,1):5.1f}%")
