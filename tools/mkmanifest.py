#!/usr/bin/env python3
"""Regenerate /verif/MANIFEST.json from the property modules that exist (tools/props/Cxx.py)."""
import json, os, re, sys, importlib
sys.path.insert(0, '/verif/tools')
ROOT = '/verif'
props = [json.loads(l) for l in open(f'{ROOT}/properties.jsonl')]
checks, na = [], []
for p in props:
    pid = p['id']
    path = f'{ROOT}/tools/props/{pid}.py'
    if not os.path.exists(path):
        na.append({'property_id': pid, 'reason': 'check not built yet in this session (planned: see DESIGN.md section 5)'})
        continue
    src = open(path).read()
    def grab(name, default=''):
        m = re.search(rf'^{name}\s*=\s*\(?\s*((?:"[^"]*"\s*)+)\)?', src, flags=re.M)
        if not m:
            return default
        return ''.join(re.findall(r'"([^"]*)"', m.group(1)))
    checks.append({
        'property_id': pid,
        'quick_cmd': f'bin/check {pid} --tier quick',
        'thorough_cmd': f'bin/check {pid} --tier thorough',
        'evidence_file': f'/verif/evidence/{pid}.json',
        'replay_cmd_template': f'bin/check {pid} --replay {{path}}',
        'engine': 'coq-pysym',
        'level_claimed': {
            'category': 'proof',
            'text': grab('LEVEL_TEXT', 'Coq theorems over the model regenerated from /repo on every run, plus float correspondence and a numeric search oracle'),
            'design_ref': f'DESIGN.md section 11.{int(pid[1:])} ({pid}, as built; the plan is section 5)',
        },
        'level_note': grab('LEVEL_NOTE', 'trusted: Coq kernel, pysym translator, stdlib real-number axioms; theorems are over exact reals, the float gap is measured not proved'),
        'technique': grab('TECHNIQUE', 'machine-checked proof in Coq 8.16 over a model regenerated from source by symbolic tracing; correspondence via vm_compute'),
    })
man = {
    'version': 1,
    'setup_cmd': 'cd /verif/coq && coq_makefile -f _CoqProject -o Makefile > /dev/null && make -j16',
    'hooks': {'guard': 'AHRS_VERIF', 'enable': 'no source hooks are needed: every observation point is a public return value or the bytes of an argument; bin/check exports AHRS_VERIF=1 for uniformity',
              'baseline_off_cmd': 'cd /repo && /venv/bin/python -m pytest -ra -q -p no:cacheprovider --timeout=900 --continue-on-collection-errors',
              'source_commits': [], 'add_only': True},
    'engines': [{'name': 'coq-pysym', 'path': '/verif/bin/check', 'serves_properties': [c['property_id'] for c in checks],
                 'kind_free_text': 'Coq 8.16 proofs over Gallina regenerated from /repo by a tracing symbolic executor (tools/pysym), hand models in coq/model tied by correspondence, numeric search oracle for replays'}],
    'checks': checks,
    'not_applicable': na,
    'notes': 'See DESIGN.md. known_findings.jsonl lists genuine defects of the pinned tree that are recorded rather than repaired.',
}
json.dump(man, open(f'{ROOT}/MANIFEST.json', 'w'), indent=1)
print(len(checks), 'checks;', len(na), 'not yet claimed')
