#!/bin/bash
# test_harmless.sh <dir> [name-prefix] : <dir> containing Cxx-h<i>/patch.diff> : run each property's quick check against a behaviour-preserving rewrite
# (scratch worktree, never /repo); any VIOLATION here is a false alarm (or a broken proof with no failing input)
D=$1; PAT=${2:-C}; W=/tmp/harmtest-$$
git -C /repo worktree add --detach -q $W HEAD || exit 2
for m in $(ls $D | grep "^$PAT"); do
  [ -f $D/$m/patch.diff ] || continue
  P=${m%%-*}
  if git -C $W apply $D/$m/patch.diff 2>/dev/null; then
    out=$(AHRS_REPO=$W /verif/bin/check $P 2>&1)
    v=$(echo "$out" | grep -c "^VIOLATION"); nf=$(echo "$out" | grep -c "no-failing-input-found"); f=$(echo "$out" | grep -c "FAILED")
    echo "$m: violations=$v (no-input=$nf) proof-files-failed=$f $(echo "$out" | grep "FAILED" | head -3 | tr '\n' ' ')"
    [ $v -gt 0 ] && mkdir -p /tmp/harmlogs && echo "$out" > /tmp/harmlogs/$m.log
    git -C $W checkout -q -- .
  else
    echo "$m: PATCH DOES NOT APPLY"
  fi
done
git -C /repo worktree remove --force $W
