#!/usr/bin/env python3
"""keep_seed.py <PID> <src_dir(m_i)> <name> <caught:yes|no|after-strengthening> <note>: copy a confirmed seeded mutation into /verif/seeded"""
import sys, json, os, shutil
pid, src, name, caught, note = sys.argv[1:6]
dst = f'/verif/seeded/{pid}-{name}'
os.makedirs(dst, exist_ok=True)
for f in ('patch.diff', 'demo.py'):
    shutil.copy(os.path.join(src, f), dst)
m = json.load(open(os.path.join(src, 'meta.json')))
m.update({'breaks_property': pid, 'caught_by_check': caught, 'what_we_ran': f'git -C /repo apply patch.diff; bin/check {pid} --tier quick; git -C /repo checkout -- .', 'note': note})
json.dump(m, open(os.path.join(dst, 'meta.json'), 'w'), indent=1)
print('kept', dst)
