"""pyfx_c06 — effect extractor for property C06, run on every check against the CURRENT source of the package.

For one filter class it reads the class source with `ast` and produces the facts the Coq development
(coq/model/C06_scan.v, Part 3) computes on:

  methods   every method body as a command of the effect language
            Skip | Rd a | Wr a | Glob g | Call m | Seq | If | Loop          (structure-preserving)
  init      `attr <- sources` pairs of __init__ and the helper methods it calls (not _compute_all)
  loops     the loops of _compute_all of the shape  Q[t] = self.update*(Q[t-1], self.data[t], ...)
            (or the memoryless forms), and the number of loops that are not of that shape

The abstraction Python -> facts is TRUSTED (this file); tools/props/C06.py validates it dynamically on every run
(observed attribute reads/writes/changes of the real calls must lie inside the static footprint, the RNG state must
not move when the footprint has no global, configuration attributes must be bit-equal with and without data).

What the abstraction does, precisely:
  * `self.x` loaded -> Rd x;  `self.x = ..`, `self.x op= ..`, `self.x[..] = ..`, `del self.x` -> (Rd x;) Wr x
  * `self.m(..)` with m a method of the class -> Call m (arguments first); any other `self.m` -> Rd m
  * getattr(self, c) / self.__getattribute__(c) / setattr / self.__setattr__ with a constant name c -> Rd/Wr c;
    with a non-constant name -> Rd/Wr "*" (never admitted by the checker: fail closed);
    `for item in [constants]` loops are unrolled first so that the usual validation idiom resolves
  * np.random.* / numpy.random.* / random.* -> Glob "np.random"; a `global` statement or a load of a module-level
    name bound to a generator -> Glob "module:<name>"; a mutable default argument -> Glob "default:<f>.<p>";
    calls to functions and constructors of the package (resolved through the module's imports, and
    `v = Class(..); v.meth(..)` through a one-level local type table) contribute THEIR Glob atoms, transitively
  * if/while/for/try/comprehensions keep their structure; conditional expressions and boolean operators are flattened
"""
from __future__ import annotations
import ast, os

DATA_PARAMS = ('gyr', 'acc', 'mag')
COMPUTE_ALL = '_compute_all'


# ------------------------------------------------------------------------------------------ package index
class Package:
    def __init__(self, root):
        self.root = root                      # .../ahrs
        self.mods = {}

    def module(self, relpath):
        relpath = os.path.normpath(relpath)
        if relpath not in self.mods:
            p = os.path.join(self.root, relpath)
            if not os.path.exists(p):
                self.mods[relpath] = None
            else:
                self.mods[relpath] = Module(self, relpath, ast.parse(open(p).read()))
        return self.mods[relpath]


class Module:
    def __init__(self, pkg, relpath, tree):
        self.pkg, self.relpath, self.tree = pkg, relpath, tree
        self.funcs, self.classes, self.imports, self.generators, self.mutables = {}, {}, {}, set(), set()
        for n in tree.body:
            if isinstance(n, ast.FunctionDef):
                self.funcs[n.name] = n
            elif isinstance(n, ast.ClassDef):
                self.classes[n.name] = n
            elif isinstance(n, ast.ImportFrom) and n.level >= 1:
                base = os.path.dirname(relpath)
                for _ in range(n.level - 1):
                    base = os.path.dirname(base)
                if n.module:
                    target = os.path.join(base, *n.module.split('.')) + '.py'
                    if not os.path.exists(os.path.join(pkg.root, target)):
                        target = os.path.join(base, *n.module.split('.'), '__init__.py')
                else:                                        # from . import X : through the package's __init__
                    target = os.path.join(base, '__init__.py')
                for a in n.names:
                    self.imports[a.asname or a.name] = (target, a.name)
            elif isinstance(n, (ast.Assign, ast.AnnAssign)) and n.value is not None:
                for t in (n.targets if isinstance(n, ast.Assign) else [n.target]):
                    if isinstance(t, ast.Name):
                        if any(_is_random_chain(x) for x in ast.walk(n.value)):
                            self.generators.add(t.id)
                        elif not _immutable_expr(n.value):
                            self.mutables.add(t.id)
        # a module-level mutable object is SHARED STATE when some function of the module mutates it in place, rebinds it
        # through `global`, or lets it escape un-copied (x = NAME, self.a = NAME, return NAME, NAME[a:b]); read-only tables
        # (REFERENCE_MAGNETIC_VECTOR, MAG ...) are constants.  Every access to a shared object is a Glob atom.
        self.generators |= _shared_mutables(tree, self.mutables)

    def resolve(self, name):
        """name used in this module -> (Module, FunctionDef|ClassDef) or None"""
        if name in self.funcs:
            return self, self.funcs[name]
        if name in self.classes:
            return self, self.classes[name]
        if name in self.imports:
            target, orig = self.imports[name]
            m = self.pkg.module(target)
            if m is not None:
                return m.resolve(orig) if orig != name or m is not self else None
        return None


def _is_random_chain(n):
    """np.random.<x>, numpy.random.<x>, random.<x>"""
    if isinstance(n, ast.Attribute):
        v = n.value
        if isinstance(v, ast.Attribute) and v.attr == 'random' and isinstance(v.value, ast.Name) and v.value.id in ('np', 'numpy'):
            return True
        if isinstance(v, ast.Name) and v.id == 'random':
            return True
    return False


def _mutable_default(d):
    return isinstance(d, (ast.List, ast.Dict, ast.Set, ast.Call, ast.ListComp, ast.DictComp))


def _immutable_expr(e):
    if isinstance(e, (ast.Constant, ast.Name, ast.JoinedStr)):
        return True
    if isinstance(e, ast.Attribute):
        return _immutable_expr(e.value)
    if isinstance(e, ast.UnaryOp):
        return _immutable_expr(e.operand)
    if isinstance(e, ast.BinOp):
        return _immutable_expr(e.left) and _immutable_expr(e.right)
    if isinstance(e, ast.Tuple):
        return all(_immutable_expr(x) for x in e.elts)
    if isinstance(e, ast.Call) and isinstance(e.func, ast.Name) and e.func.id in ('float', 'int', 'str', 'bool', 'tuple', 'frozenset', 'complex'):
        return True
    return False


MUTATORS = {'append', 'extend', 'insert', 'pop', 'remove', 'clear', 'reverse', 'sort', 'update', 'setdefault', 'popitem', 'add', 'discard',
            'fill', 'put', 'resize', 'itemset', 'partition', 'setfield', 'setflags', 'byteswap'}
NP_INPLACE_FIRST = {'copyto', 'put', 'place', 'putmask', 'fill_diagonal', 'put_along_axis'}
VIEW_FUNCS = {'asarray', 'asanyarray', 'atleast_1d', 'atleast_2d', 'atleast_3d', 'squeeze', 'ravel', 'reshape', 'transpose', 'ascontiguousarray',
              'asfarray', 'swapaxes', 'moveaxis', 'broadcast_to', 'expand_dims', 'flip', 'real', 'diagonal'}
VIEW_METHODS = {'reshape', 'view', 'ravel', 'squeeze', 'transpose', 'swapaxes', 'diagonal', '__array__'}


def _base_name(t):
    while isinstance(t, (ast.Subscript, ast.Attribute)):
        t = t.value
    return t.id if isinstance(t, ast.Name) else None


def _shared_mutables(tree, mutables):
    shared = set()
    if not mutables:
        return shared
    for fn in ast.walk(tree):
        if not isinstance(fn, (ast.FunctionDef, ast.Lambda)):
            continue
        for n in ast.walk(fn):
            if isinstance(n, ast.Global):
                shared |= set(n.names) & mutables
            elif isinstance(n, ast.AugAssign):
                b = _base_name(n.target)
                if b in mutables:
                    shared.add(b)
            elif isinstance(n, (ast.Assign, ast.AnnAssign, ast.Delete)):
                for t in (n.targets if not isinstance(n, ast.AnnAssign) else [n.target]):
                    if isinstance(t, (ast.Subscript, ast.Attribute)) and _base_name(t) in mutables:
                        shared.add(_base_name(t))
                v = getattr(n, 'value', None)
                for x in _bare(v):
                    if x in mutables:
                        shared.add(x)
            elif isinstance(n, ast.Return):
                for x in _bare(n.value):
                    if x in mutables:
                        shared.add(x)
            elif isinstance(n, ast.Call):
                f = n.func
                if isinstance(f, ast.Attribute) and f.attr in MUTATORS and _base_name(f.value) in mutables:
                    shared.add(_base_name(f.value))
                if isinstance(f, ast.Attribute) and f.attr in NP_INPLACE_FIRST and n.args and _base_name(n.args[0]) in mutables:
                    shared.add(_base_name(n.args[0]))
                for k in n.keywords:
                    if k.arg == 'out' and _base_name(k.value) in mutables:
                        shared.add(_base_name(k.value))
    return shared


def _bare(v):
    """names a value expression may be an un-copied alias of"""
    if v is None:
        return []
    if isinstance(v, ast.Name):
        return [v.id]
    if isinstance(v, ast.IfExp):
        return _bare(v.body) + _bare(v.orelse)
    if isinstance(v, ast.BoolOp):
        return [x for e in v.values for x in _bare(e)]
    if isinstance(v, ast.Subscript) and isinstance(v.slice, ast.Slice):
        return _bare(v.value)
    if isinstance(v, ast.Attribute) and v.attr == 'T':
        return _bare(v.value)
    if isinstance(v, ast.Call):
        f = v.func
        if isinstance(f, ast.Attribute) and f.attr in VIEW_FUNCS and v.args and not any(k.arg == 'copy' for k in v.keywords):
            return _bare(v.args[0])
        if isinstance(f, ast.Attribute) and f.attr in VIEW_METHODS:
            return _bare(f.value)
        if isinstance(f, ast.Attribute) and f.attr == 'array' and v.args and any(
                k.arg == 'copy' and isinstance(k.value, ast.Constant) and k.value.value is False for k in v.keywords):
            return _bare(v.args[0])
    return []


# ------------------------------------------------------------------------------------------ command trees
def seq(cs):
    cs = [c for c in cs if c != ('Skip',)]
    if not cs:
        return ('Skip',)
    if len(cs) == 1:
        return cs[0]
    h = len(cs) // 2                           # balanced, so that the nesting depth stays logarithmic
    return ('Seq', seq(cs[:h]), seq(cs[h:]))


class _Subst(ast.NodeTransformer):
    def __init__(self, name, const):
        self.name, self.const = name, const

    def visit_Name(self, n):
        if n.id == self.name and isinstance(n.ctx, ast.Load):
            return ast.copy_location(ast.Constant(self.const), n)
        return n


def _const_iter(node):
    """`for x in [c1, c2, ...]` with constant elements -> the constants"""
    if isinstance(node, (ast.List, ast.Tuple)) and node.elts and all(isinstance(e, ast.Constant) for e in node.elts):
        return [e.value for e in node.elts]
    return None


def _self_attr(n):
    return isinstance(n, ast.Attribute) and isinstance(n.value, ast.Name) and n.value.id == 'self'


def _dyn_attr(call):
    """getattr(self, c) / self.__getattribute__(c) / setattr(self, c, v) / self.__setattr__(c, v)
    -> ('get'|'set', name or '*', value-node or None) | None"""
    f = call.func
    if isinstance(f, ast.Name) and f.id in ('getattr', 'setattr', 'hasattr') and call.args and isinstance(call.args[0], ast.Name) \
            and call.args[0].id == 'self':
        nm = call.args[1] if len(call.args) > 1 else None
        name = nm.value if isinstance(nm, ast.Constant) and isinstance(nm.value, str) else '*'
        if f.id == 'setattr':
            return 'set', name, call.args[2:]
        return 'get', name, call.args[2:]
    if _self_attr(f) and f.attr in ('__getattribute__', '__getattr__', '__setattr__'):
        nm = call.args[0] if call.args else None
        name = nm.value if isinstance(nm, ast.Constant) and isinstance(nm.value, str) else '*'
        if f.attr == '__setattr__':
            return 'set', name, call.args[1:]
        return 'get', name, call.args[1:]
    return None


class Extractor:
    def __init__(self, pkg: Package, relpath: str, clsname: str):
        self.pkg = pkg
        self.mod = pkg.module(relpath)
        if self.mod is None or clsname not in self.mod.classes:
            raise ValueError(f'class {clsname} not found in {relpath}')
        self.cls = self.mod.classes[clsname]
        self.clsname = clsname
        self.methods = {f.name: f for f in self.cls.body if isinstance(f, ast.FunctionDef)}
        self._glob_memo = {}
        self._escaped = {}
        self._fresh = set()
        self._aliased = None
        self._guards = []                 # attribute names read by the enclosing if / conditional-expression tests
        self.rng_guard = None             # attribute whose test licenses a draw from the global generator (q0 for ROLEQ)

    # ---- global state reachable from a function / class of the package (Glob atoms only) -------------------
    @staticmethod
    def _dataless(call):
        """a constructor call that hands over no sensor data (no positional argument, no gyr/acc/mag keyword) does not run _compute_all"""
        return not call.args and not any(k.arg is None or k.arg in DATA_PARAMS for k in call.keywords)

    def globs_of(self, mod: Module, node, depth=0, dataless=False):
        key = (mod.relpath, getattr(node, 'name', id(node)), isinstance(node, ast.ClassDef), dataless)
        self._skip_compute_all = getattr(self, '_skip_compute_all', 0)
        if key in self._glob_memo:
            return self._glob_memo[key]
        self._glob_memo[key] = set()          # cut recursion
        out = set()
        if depth > 6:
            return out
        if isinstance(node, ast.ClassDef):
            init = next((f for f in node.body if isinstance(f, ast.FunctionDef) and f.name == '__init__'), None)
            if init is not None:
                self._skip_compute_all += 1 if dataless else 0
                out |= self._globs_body(mod, init, node, depth)
                self._skip_compute_all -= 1 if dataless else 0
        else:
            out |= self._globs_body(mod, node, None, depth)
        self._glob_memo[key] = out
        return out

    def _globs_body(self, mod, fn, cls, depth):
        out = {f'default:{fn.name}.{p}' for p in self.shared_defaults(mod, fn, cls)}
        local_types = {}
        for n in ast.walk(fn):
            if isinstance(n, ast.Assign) and isinstance(n.value, ast.Call) and isinstance(n.value.func, ast.Name):
                r = mod.resolve(n.value.func.id)
                if r and isinstance(r[1], ast.ClassDef):
                    for t in n.targets:
                        if isinstance(t, ast.Name):
                            local_types[t.id] = r
        methods = {f.name: f for f in cls.body if isinstance(f, ast.FunctionDef)} if cls is not None else {}
        for n in ast.walk(fn):
            if _is_random_chain(n):
                out.add('np.random')
            elif isinstance(n, ast.Global):
                out |= {f'module:{x}' for x in n.names}
            elif isinstance(n, ast.Name) and n.id in mod.generators:
                out.add(f'module:{n.id}')
            elif isinstance(n, ast.Call):
                f = n.func
                if isinstance(f, ast.Name):
                    r = mod.resolve(f.id)
                    if r:
                        out |= self.globs_of(r[0], r[1], depth + 1, dataless=isinstance(r[1], ast.ClassDef) and self._dataless(n))
                elif isinstance(f, ast.Attribute) and isinstance(f.value, ast.Call) and isinstance(f.value.func, ast.Name):
                    r = mod.resolve(f.value.func.id)
                    if r and isinstance(r[1], ast.ClassDef):
                        meth = next((g for g in r[1].body if isinstance(g, ast.FunctionDef) and g.name == f.attr), None)
                        if meth is not None:
                            out |= self._globs_of_method(r[0], r[1], meth, depth + 1)
                elif isinstance(f, ast.Attribute) and isinstance(f.value, ast.Name):
                    if f.value.id in local_types:
                        m2, c2 = local_types[f.value.id]
                        meth = next((g for g in c2.body if isinstance(g, ast.FunctionDef) and g.name == f.attr), None)
                        if meth is not None:
                            out |= self._globs_of_method(m2, c2, meth, depth + 1)
                    elif f.value.id == 'self' and f.attr in methods and cls is not self.cls:
                        if f.attr == COMPUTE_ALL and getattr(self, '_skip_compute_all', 0):
                            continue
                        out |= self._globs_of_method(mod, cls, methods[f.attr], depth + 1)
        return out

    def _globs_of_method(self, mod, cls, meth, depth):
        key = (mod.relpath, cls.name + '.' + meth.name, False)
        if key in self._glob_memo:
            return self._glob_memo[key]
        self._glob_memo[key] = set()
        out = self._globs_body(mod, meth, cls, depth) if depth <= 6 else set()
        self._glob_memo[key] = out
        return out

    # ---- attributes that may hold the CALLER's object: bound un-copied from a constructor parameter / keyword value in __init__
    #      (or a helper it calls) and never re-bound there through a copying expression of themselves -----------------------------
    def _init_reachable(self):
        seen, todo = [], ['__init__']
        while todo:
            m = todo.pop()
            if m in seen or m not in self.methods:
                continue
            seen.append(m)
            for n in ast.walk(self.methods[m]):
                if isinstance(n, ast.Call) and _self_attr(n.func) and n.func.attr in self.methods:
                    todo.append(n.func.attr)
        return seen

    def _simple_stmts(self, body):
        """all simple statements below `body`, with `for item in [constants]` unrolled"""
        for st in body:
            if isinstance(st, ast.For) and _const_iter(st.iter) is not None and isinstance(st.target, ast.Name):
                for c in _const_iter(st.iter):
                    yield from self._simple_stmts([_Subst(st.target.id, c).visit(_copy(b)) for b in st.body])
                continue
            if isinstance(st, (ast.FunctionDef, ast.ClassDef)):
                continue
            sub = [getattr(st, f, None) for f in ('body', 'orelse', 'finalbody')]
            if any(isinstance(x, list) for x in sub):
                for x in sub:
                    if isinstance(x, list):
                        yield from self._simple_stmts(x)
                for h in getattr(st, 'handlers', []):
                    yield from self._simple_stmts(h.body)
            else:
                yield st

    def aliased_attrs(self):
        if self._aliased is not None:
            return self._aliased
        uncopied, copied = set(), set()
        for m in self._init_reachable():
            fn = self.methods[m]
            a = fn.args
            owned = {x.arg for x in a.posonlyargs + a.args + a.kwonlyargs if x.arg not in ('self', 'cls')}
            kwp = a.kwarg.arg if a.kwarg else None

            def caller_owned(v):
                if v is None:
                    return False
                if any(nm in owned for nm in _bare(v)):
                    return True
                if isinstance(v, ast.IfExp):
                    return caller_owned(v.body) or caller_owned(v.orelse)
                if kwp and isinstance(v, ast.Call) and isinstance(v.func, ast.Attribute) and v.func.attr in ('get', 'pop', 'setdefault') \
                        and isinstance(v.func.value, ast.Name) and v.func.value.id == kwp:
                    return True
                if kwp and isinstance(v, ast.Subscript) and isinstance(v.value, ast.Name) and v.value.id == kwp:
                    return True
                return False

            def mentions(v, x):
                for n in ast.walk(v):
                    if _self_attr(n) and n.attr == x:
                        return True
                    if isinstance(n, ast.Call):
                        d = _dyn_attr(n)
                        if d and d[0] == 'get' and d[1] == x:
                            return True
                return False

            def is_bare_self(v, x):
                if _self_attr(v) and v.attr == x:
                    return True
                if isinstance(v, ast.Call):
                    d = _dyn_attr(v)
                    return bool(d and d[0] == 'get' and d[1] == x)
                return False
            for _ in range(2):                              # locals bound to caller-owned values
                for st in self._simple_stmts(fn.body):
                    if isinstance(st, (ast.Assign, ast.AnnAssign)) and st.value is not None:
                        for t in (st.targets if isinstance(st, ast.Assign) else [st.target]):
                            if isinstance(t, ast.Name) and caller_owned(st.value):
                                owned.add(t.id)
            for st in self._simple_stmts(fn.body):
                pairs = []
                if isinstance(st, (ast.Assign, ast.AnnAssign)) and st.value is not None:
                    for t in (st.targets if isinstance(st, ast.Assign) else [st.target]):
                        if _self_attr(t):
                            pairs.append((t.attr, st.value))
                elif isinstance(st, ast.Expr) and isinstance(st.value, ast.Call):
                    d = _dyn_attr(st.value)
                    if d and d[0] == 'set' and d[2]:
                        pairs.append((d[1], d[2][0]))
                for x, v in pairs:
                    if caller_owned(v):
                        uncopied.add(x)
                    elif mentions(v, x) and not is_bare_self(v, x) and not _bare(v):
                        copied.add(x)
        self._aliased = uncopied - copied
        return self._aliased

    def kwarg_names(self):
        """constructor parameters and the keyword names __init__ (and its helpers) look up"""
        out = []
        for m in self._init_reachable():
            fn = self.methods[m]
            if m == '__init__':
                out += [x.arg for x in fn.args.posonlyargs + fn.args.args + fn.args.kwonlyargs if x.arg != 'self']
            kwp = fn.args.kwarg.arg if fn.args.kwarg else None
            if kwp:
                for n in ast.walk(fn):
                    if isinstance(n, ast.Call) and isinstance(n.func, ast.Attribute) and n.func.attr in ('get', 'pop') and isinstance(n.func.value, ast.Name) \
                            and n.func.value.id == kwp and n.args and isinstance(n.args[0], ast.Constant):
                        out.append(n.args[0].value)
        return [x for i, x in enumerate(out) if x not in out[:i]]

    def _inplace_attr(self, node):
        """node is updated in place: Glob atom when its base is an attribute that may hold the caller's object and has not been
        re-bound to a fresh value earlier in this method (on every path)"""
        b = node
        while isinstance(b, (ast.Subscript, ast.Attribute)) and not _self_attr(b):
            b = b.value
        if _self_attr(b) and b.attr in self.aliased_attrs() and b.attr not in self._fresh:
            return [('Glob', f'alias:{b.attr}')]
        return []

    @staticmethod
    def _fresh_value(v):
        if v is None or _bare(v) or _self_attr(v):
            return False
        if isinstance(v, ast.Call):
            f = v.func
            if isinstance(f, ast.Attribute) and f.attr in ('get', 'pop', 'setdefault', '__getattribute__'):
                return False
            if isinstance(f, ast.Name) and f.id == 'getattr':
                return False
            return True
        return isinstance(v, (ast.BinOp, ast.UnaryOp, ast.Constant, ast.List, ast.Tuple, ast.ListComp, ast.Dict, ast.Compare))

    def _g(self, g):
        """name of a global-state atom at the current program point: a draw from the NumPy global generator that is not under a test of
        the licensing attribute (`self.q0 is None`) is a different, never-allowed atom"""
        if g == 'np.random' and self.rng_guard and not any(self.rng_guard in t for t in self._guards):
            return 'np.random:unguarded'
        return g

    @staticmethod
    def _attrs_in(test):
        out = set()
        for n in ast.walk(test):
            if _self_attr(n):
                out.add(n.attr)
            elif isinstance(n, ast.Call):
                d = _dyn_attr(n)
                if d:
                    out.add(d[1])
        return out

    # ---- expression -> list of commands, in evaluation order (approximately) -------------------------------
    def expr(self, e, ltypes):
        if e is None:
            return []
        out = []
        if isinstance(e, ast.IfExp):
            out += self.expr(e.test, ltypes)
            self._guards.append(self._attrs_in(e.test))
            out += self.expr(e.body, ltypes) + self.expr(e.orelse, ltypes)
            self._guards.pop()
            return out
        if isinstance(e, ast.Call):
            d = _dyn_attr(e)
            if d is not None:
                kind, name, rest = d
                for a in rest:
                    out += self.expr(a, ltypes)
                out.append(('Wr', name) if kind == 'set' else ('Rd', name))
                return out
            f = e.func
            for a in e.args:
                out += self.expr(a.value if isinstance(a, ast.Starred) else a, ltypes)
            for k in e.keywords:
                out += self.expr(k.value, ltypes)
                if k.arg == 'out':
                    out += self._inplace_attr(k.value)
            if _self_attr(f) and f.attr in self.methods:
                out.append(('Call', f.attr))
                return out
            if isinstance(f, ast.Attribute) and f.attr in MUTATORS:
                out += self._inplace_attr(f.value)
            if isinstance(f, ast.Attribute) and f.attr in NP_INPLACE_FIRST and e.args:
                out += self._inplace_attr(e.args[0])
            out += self.expr(f, ltypes)
            if isinstance(f, ast.Name):
                r = self.mod.resolve(f.id)
                if r:
                    out += [('Glob', self._g(g)) for g in sorted(self.globs_of(r[0], r[1], dataless=isinstance(r[1], ast.ClassDef) and self._dataless(e)))]
            elif isinstance(f, ast.Attribute):
                owner = None
                if isinstance(f.value, ast.Name) and f.value.id in ltypes:
                    owner = ltypes[f.value.id]                                   # v = Class(..); v.meth(..)
                elif isinstance(f.value, ast.Call) and isinstance(f.value.func, ast.Name):
                    r = self.mod.resolve(f.value.func.id)                        # Class(..).meth(..)
                    if r and isinstance(r[1], ast.ClassDef):
                        owner = r
                if owner is not None:
                    m2, c2 = owner
                    meth = next((g for g in c2.body if isinstance(g, ast.FunctionDef) and g.name == f.attr), None)
                    if meth is not None:
                        out += [('Glob', self._g(g)) for g in sorted(self._globs_of_method(m2, c2, meth, 1))]
            return out
        if _is_random_chain(e):
            return [('Glob', self._g('np.random'))]
        if _self_attr(e):
            if e.attr in self.methods and isinstance(e.ctx, ast.Load):
                return [('Call', e.attr)]          # f = self.method ; ... f(..): whoever holds the reference may call it
            return [('Rd', e.attr)]
        if isinstance(e, ast.Name):
            if e.id in self.mod.generators:
                return [('Glob', f'module:{e.id}')]
            return []
        if isinstance(e, (ast.ListComp, ast.SetComp, ast.GeneratorExp, ast.DictComp)):
            for g in e.generators:
                out += self.expr(g.iter, ltypes)
            inner = []
            for g in e.generators:
                for c in g.ifs:
                    inner += self.expr(c, ltypes)
            if isinstance(e, ast.DictComp):
                inner += self.expr(e.key, ltypes) + self.expr(e.value, ltypes)
            else:
                inner += self.expr(e.elt, ltypes)
            out.append(('Loop', seq(inner)))
            return out
        if isinstance(e, ast.Lambda):
            return self.expr(e.body, ltypes)
        for ch in ast.iter_child_nodes(e):
            if isinstance(ch, ast.expr):
                out += self.expr(ch, ltypes)
            elif isinstance(ch, ast.keyword):
                out += self.expr(ch.value, ltypes)
            elif isinstance(ch, ast.comprehension):
                out += self.expr(ch.iter, ltypes)
        return out

    def target(self, t, ltypes, aug=False):
        """commands for storing into target t"""
        if _self_attr(t):
            return ([('Rd', t.attr)] + self._inplace_attr(t) if aug else []) + [('Wr', t.attr)]
        if isinstance(t, (ast.Tuple, ast.List)):
            out = []
            for x in t.elts:
                out += self.target(x, ltypes, aug)
            return out
        if isinstance(t, ast.Starred):
            return self.target(t.value, ltypes, aug)
        if isinstance(t, ast.Name):
            return [('Glob', f'module:{t.id}')] if t.id in self.mod.generators else []
        if isinstance(t, (ast.Subscript, ast.Attribute)):
            # self.x[...] = v / self.x.y = v : in-place update of self.x
            base = t.value
            out = self.expr(t.slice, ltypes) if isinstance(t, ast.Subscript) else []
            while isinstance(base, (ast.Subscript, ast.Attribute)) and not _self_attr(base):
                base = base.value
            if _self_attr(base):
                return out + [('Rd', base.attr)] + self._inplace_attr(base) + [('Wr', base.attr)]
            return out + self.expr(t.value, ltypes)
        return []

    def stmts(self, body, ltypes):
        out = []
        for s in body:
            out.append(self.stmt(s, ltypes))
        return seq(out)

    def stmt(self, s, ltypes):
        E = lambda e: self.expr(e, ltypes)
        if isinstance(s, ast.Assign):
            if isinstance(s.value, ast.Call) and isinstance(s.value.func, ast.Name):
                r = self.mod.resolve(s.value.func.id)
                if r and isinstance(r[1], ast.ClassDef):
                    for t in s.targets:
                        if isinstance(t, ast.Name):
                            ltypes[t.id] = r
            c = E(s.value)
            for t in s.targets:
                c += self.target(t, ltypes)
                self._rebind(t, s.value)
            return seq(c)
        if isinstance(s, ast.AnnAssign):
            if s.value is None:
                return ('Skip',)
            c = seq(E(s.value) + self.target(s.target, ltypes))
            self._rebind(s.target, s.value)
            return c
        if isinstance(s, ast.AugAssign):
            return seq(E(s.value) + self.target(s.target, ltypes, aug=True))
        if isinstance(s, (ast.Expr, ast.Return)):
            return seq(E(s.value))
        if isinstance(s, ast.Raise):
            return seq(E(s.exc) + E(s.cause))
        if isinstance(s, ast.Assert):
            return seq(E(s.test) + E(s.msg))
        if isinstance(s, ast.Delete):
            c = []
            for t in s.targets:
                c += self.target(t, ltypes)
            return seq(c)
        if isinstance(s, ast.If):
            tst = E(s.test)
            f0 = set(self._fresh)
            self._guards.append(self._attrs_in(s.test))
            b1 = self.stmts(s.body, ltypes)
            f1, self._fresh = self._fresh, set(f0)
            b2 = self.stmts(s.orelse, ltypes)
            self._guards.pop()
            self._fresh = f1 & self._fresh
            return seq(tst + [('If', b1, b2)])
        if isinstance(s, (ast.While, ast.For, ast.Try, ast.With)):
            f0 = set(self._fresh)
            c = self._compound(s, ltypes)
            self._fresh = f0 & self._fresh
            return c
        return self._compound(s, ltypes)

    def _rebind(self, t, v):
        if _self_attr(t):
            if self._fresh_value(v):
                self._fresh.add(t.attr)
            else:
                self._fresh.discard(t.attr)
        elif isinstance(t, (ast.Tuple, ast.List)):
            for x in t.elts:
                if _self_attr(x):
                    self._fresh.discard(x.attr)

    def _compound(self, s, ltypes):
        E = lambda e: self.expr(e, ltypes)
        if isinstance(s, ast.While):
            return seq([('Loop', seq(E(s.test) + [self.stmts(s.body, ltypes)])), self.stmts(s.orelse, ltypes)])
        if isinstance(s, ast.For):
            consts = _const_iter(s.iter)
            if consts is not None and isinstance(s.target, ast.Name) and not s.orelse:
                parts = []
                for c in consts:
                    body = [_Subst(s.target.id, c).visit(_copy(b)) for b in s.body]
                    parts.append(self.stmts(body, ltypes))
                return seq(parts)
            return seq(E(s.iter) + [('Loop', seq([seq(self.target(s.target, ltypes)), self.stmts(s.body, ltypes)])),
                                    self.stmts(s.orelse, ltypes)])
        if isinstance(s, ast.Try):
            hs = ('Skip',)
            for h in reversed(s.handlers):
                hs = ('If', seq(E(h.type) + [self.stmts(h.body, ltypes)]), hs)
            return seq([self.stmts(s.body, ltypes), hs, self.stmts(s.orelse, ltypes), self.stmts(s.finalbody, ltypes)])
        if isinstance(s, ast.With):
            c = []
            for it in s.items:
                c += E(it.context_expr)
            return seq(c + [self.stmts(s.body, ltypes)])
        if isinstance(s, ast.Global):
            return seq([('Glob', f'module:{x}') for x in s.names])
        if isinstance(s, (ast.Pass, ast.Break, ast.Continue, ast.Import, ast.ImportFrom, ast.Nonlocal)):
            return ('Skip',)
        if isinstance(s, (ast.FunctionDef, ast.ClassDef)):
            return ('Rd', '*')                 # nested definitions: not analysed, fail closed
        return ('Rd', '*')                     # unknown statement kind: fail closed

    # ---- which of its own parameters may a function update IN PLACE (directly, through a view/alias, or by handing the alias to a
    #      package function / method / constructor that does)?  Flow-sensitive over statements, union at joins. ---------------------
    def inplace_params(self, mod, fn, cls=None, depth=0):
        key = ('ip', mod.relpath, (cls.name + '.' if cls is not None else '') + fn.name)
        if key in self._glob_memo:
            return self._glob_memo[key]
        self._glob_memo[key] = set()
        a = fn.args
        params = [x for x in a.posonlyargs + a.args + a.kwonlyargs]
        roots = {}
        for x in params:
            if x.arg in ('self', 'cls'):
                continue
            ann = x.annotation
            if isinstance(ann, ast.Name) and ann.id in ('float', 'int', 'str', 'bool', 'complex'):
                continue                                   # scalars: op= rebinds
            roots[x.arg] = {x.arg}
        mutated = set()
        escaped = set()                                  # parameters stored un-copied in an attribute, or returned un-copied
        self._escaped[key] = escaped
        methods = {f.name: f for f in cls.body if isinstance(f, ast.FunctionDef)} if cls is not None else {}

        def al(e, env):
            out = set()
            for nme in _bare(e):
                out |= env.get(nme, set())
            if isinstance(e, ast.Subscript) and not isinstance(e.slice, ast.Slice):
                idx = e.slice
                scalar = isinstance(idx, ast.Constant) or (isinstance(idx, ast.UnaryOp) and isinstance(idx.operand, ast.Constant))
                if not scalar:
                    out |= al(e.value, env)              # fancy / tuple / variable index: may be a view of a row
            return out

        def callee_params(call):
            """(FunctionDef, offset of first real parameter, owning module, owning class) of a resolvable callee"""
            f = call.func
            if isinstance(f, ast.Name):
                r = mod.resolve(f.id)
                if r and isinstance(r[1], ast.FunctionDef):
                    return r[1], r[0], None
                if r and isinstance(r[1], ast.ClassDef):
                    for nm in ('__init__', '__new__'):
                        m = next((g for g in r[1].body if isinstance(g, ast.FunctionDef) and g.name == nm), None)
                        if m is not None:
                            return m, r[0], r[1]
            if _self_attr(f) and f.attr in methods:
                return methods[f.attr], mod, cls
            return None

        def scan_calls(node, env):
            for c in ast.walk(node):
                if not isinstance(c, ast.Call):
                    continue
                f = c.func
                if isinstance(f, ast.Attribute) and f.attr in MUTATORS:
                    mutated.update(al(f.value, env) if not _self_attr(f.value) else set())
                if isinstance(f, ast.Attribute) and f.attr in NP_INPLACE_FIRST and c.args:
                    mutated.update(al(c.args[0], env))
                for k in c.keywords:
                    if k.arg == 'out':
                        mutated.update(al(k.value, env))
                if depth < 5:
                    cp = callee_params(c)
                    if cp is not None:
                        g, m2, c2 = cp
                        bad = self.inplace_params(m2, g, c2, depth + 1)
                        if bad:
                            names = [x.arg for x in g.args.posonlyargs + g.args.args if x.arg not in ('self', 'cls')]
                            for i, arg in enumerate(c.args):
                                if i < len(names) and names[i] in bad:
                                    mutated.update(al(arg, env))
                            for k in c.keywords:
                                if k.arg in bad:
                                    mutated.update(al(k.value, env))

        def merge(e1, e2):
            return {k: set(e1.get(k, set())) | set(e2.get(k, set())) for k in set(e1) | set(e2)}

        def assign(t, v, env):
            if isinstance(t, ast.Name):
                env[t.id] = al(v, env) if v is not None else set()
            elif isinstance(t, (ast.Tuple, ast.List)):
                if isinstance(v, (ast.Tuple, ast.List)) and len(v.elts) == len(t.elts):
                    for x, y in zip(t.elts, v.elts):
                        assign(x, y, env)
                else:
                    for x in t.elts:
                        assign(x, None, env)           # unpacked elements of an array are scalars / fresh rows
            elif isinstance(t, (ast.Subscript, ast.Attribute)):
                if _self_attr(t) and v is not None:
                    escaped.update(al(v, env))
                b = t
                while isinstance(b, (ast.Subscript, ast.Attribute)) and not _self_attr(b):
                    b = b.value
                if isinstance(b, ast.Name):
                    mutated.update(env.get(b.id, set()))

        def block(body, env):
            for st in body:
                if isinstance(st, (ast.FunctionDef, ast.ClassDef)):
                    continue
                if isinstance(st, ast.Assign):
                    scan_calls(st.value, env)
                    for t in st.targets:
                        assign(t, st.value, env)
                elif isinstance(st, ast.AnnAssign):
                    if st.value is not None:
                        scan_calls(st.value, env)
                        assign(st.target, st.value, env)
                elif isinstance(st, ast.AugAssign):
                    scan_calls(st.value, env)
                    b = st.target
                    while isinstance(b, (ast.Subscript, ast.Attribute)) and not _self_attr(b):
                        b = b.value
                    if isinstance(b, ast.Name):
                        mutated.update(env.get(b.id, set()))
                elif isinstance(st, ast.If):
                    scan_calls(st.test, env)
                    e1, e2 = dict(env), dict(env)
                    block(st.body, e1); block(st.orelse, e2)
                    env.clear(); env.update(merge(e1, e2))
                elif isinstance(st, (ast.For, ast.While)):
                    scan_calls(st.iter if isinstance(st, ast.For) else st.test, env)
                    for _ in range(2):
                        e1 = dict(env)
                        if isinstance(st, ast.For):
                            assign(st.target, None, e1)
                            for n in ast.walk(st.target):
                                if isinstance(n, ast.Name):
                                    e1[n.id] = al(st.iter, env)       # iterating an array yields views of its rows
                        block(st.body, e1)
                        env.update(merge(env, e1))
                    block(st.orelse, env)
                elif isinstance(st, ast.Try):
                    block(st.body, env)
                    for h in st.handlers:
                        block(h.body, env)
                    block(st.orelse, env); block(st.finalbody, env)
                elif isinstance(st, ast.With):
                    block(st.body, env)
                elif isinstance(st, ast.Delete):
                    for t in st.targets:
                        if isinstance(t, ast.Subscript):
                            assign(t, None, env)
                elif isinstance(st, ast.Return):
                    scan_calls(st, env)
                    escaped.update(al(st.value, env))
                else:
                    scan_calls(st, env)

        block(fn.body, roots)
        out = {p for p in mutated}
        self._glob_memo[key] = out
        return out

    def shared_defaults(self, mod, fn, cls):
        """parameters whose default is a mutable object created once at definition time AND that the function may update in place,
        store un-copied in an attribute or return un-copied (a default that is only read or copied is a constant)"""
        ip = self.inplace_params(mod, fn, cls)
        esc = self._escaped.get(('ip', mod.relpath, (cls.name + '.' if cls is not None else '') + fn.name), set())
        a = fn.args
        pos = a.posonlyargs + a.args
        out = []
        for p, d in list(zip(pos[len(pos) - len(a.defaults):], a.defaults)) + [(p, d) for p, d in zip(a.kwonlyargs, a.kw_defaults) if d is not None]:
            if _mutable_default(d) and (p.arg in ip or p.arg in esc):
                out.append(p.arg)
        return out

    def method_cmd(self, fn):
        pre = [('Glob', f'arg:{fn.name}.{p}') for p in sorted(self.inplace_params(self.mod, fn, self.cls))]
        pre += [('Glob', f'default:{fn.name}.{p}') for p in self.shared_defaults(self.mod, fn, self.cls)]
        # the override idiom  p = self.X if p is None else p : from then on the method must use p; a second read of self.X ignores
        # the caller's per-call value (fail closed: an atom no configuration list contains)
        for st in fn.body:
            if isinstance(st, ast.Assign) and len(st.targets) == 1 and isinstance(st.targets[0], ast.Name) and isinstance(st.value, ast.IfExp):
                v, pn = st.value, st.targets[0].id
                tst = v.test
                isnone = isinstance(tst, ast.Compare) and isinstance(tst.left, ast.Name) and tst.left.id == pn and len(tst.ops) == 1 \
                    and isinstance(tst.ops[0], ast.Is) and isinstance(tst.comparators[0], ast.Constant) and tst.comparators[0].value is None
                if isnone and _self_attr(v.body) and isinstance(v.orelse, ast.Name) and v.orelse.id == pn:
                    X = v.body.attr
                    others = [n for other in fn.body if other is not st for n in ast.walk(other) if _self_attr(n) and n.attr == X]
                    if others:
                        pre.append(('Rd', f'shadowed:{X}'))
        self._fresh = set()
        return seq(pre + [self.stmts(fn.body, {})])

    def table(self):
        return [(name, self.method_cmd(fn)) for name, fn in self.methods.items()]

    # ---- __init__ : attr <- sources ------------------------------------------------------------------------
    def init_deps(self):
        deps = []                              # (attr, frozenset(sources))
        self._ret_memo = {}
        init = self.methods.get('__init__')
        if init is None:
            return []
        params = [a.arg for a in init.args.posonlyargs + init.args.args + init.args.kwonlyargs if a.arg != 'self']
        if init.args.vararg:
            params.append(init.args.vararg.arg)
        if init.args.kwarg:
            params.append(init.args.kwarg.arg)
        env = {p: {('P', p)} for p in params}
        self._init_fn(init, env, deps, set(), 0)
        merged = {}
        for a, ss in deps:
            merged.setdefault(a, set()).update(ss)
        return [(a, sorted(ss)) for a, ss in merged.items()]

    def _srcs(self, e, env, deps, ctl, depth):
        """sources an expression's value depends on"""
        out = set()
        if e is None:
            return out
        if isinstance(e, ast.Call):
            d = _dyn_attr(e)
            if d is not None:
                kind, name, rest = d
                for a in rest:
                    out |= self._srcs(a, env, deps, ctl, depth)
                if kind == 'set':
                    deps.append((name, set(out) | set(ctl)))
                else:
                    out.add(('A', name))
                return out
            f = e.func
            argsrc = [self._srcs(a.value if isinstance(a, ast.Starred) else a, env, deps, ctl, depth) for a in e.args]
            kwsrc = {k.arg: self._srcs(k.value, env, deps, ctl, depth) for k in e.keywords}
            for s in argsrc:
                out |= s
            for s in kwsrc.values():
                out |= s
            if _self_attr(f) and f.attr in self.methods:
                if f.attr == COMPUTE_ALL:
                    out.add(('P', '__compute_all__'))
                    return out
                out |= self._call_method(self.methods[f.attr], e, argsrc, kwsrc, env, deps, ctl, depth)
                return out
            out |= self._srcs(f, env, deps, ctl, depth)
            if isinstance(f, ast.Name):
                r = self.mod.resolve(f.id)
                if r:
                    out |= {('G', g) for g in self.globs_of(r[0], r[1], dataless=isinstance(r[1], ast.ClassDef) and self._dataless(e))}
            return out
        if _is_random_chain(e):
            return {('G', 'np.random')}
        if _self_attr(e):
            return {('A', e.attr)}
        if isinstance(e, ast.Name):
            if e.id in self.mod.generators:
                return {('G', f'module:{e.id}')}
            return set(env.get(e.id, set()))
        if isinstance(e, (ast.ListComp, ast.SetComp, ast.GeneratorExp, ast.DictComp)):
            env2 = dict(env)
            for g in e.generators:
                s = self._srcs(g.iter, env2, deps, ctl, depth)
                for n in ast.walk(g.target):
                    if isinstance(n, ast.Name):
                        env2[n.id] = set(s)
                out |= s
                for c in g.ifs:
                    out |= self._srcs(c, env2, deps, ctl, depth)
            if isinstance(e, ast.DictComp):
                out |= self._srcs(e.key, env2, deps, ctl, depth) | self._srcs(e.value, env2, deps, ctl, depth)
            else:
                out |= self._srcs(e.elt, env2, deps, ctl, depth)
            return out
        for ch in ast.iter_child_nodes(e):
            if isinstance(ch, ast.expr):
                out |= self._srcs(ch, env, deps, ctl, depth)
            elif isinstance(ch, ast.keyword):
                out |= self._srcs(ch.value, env, deps, ctl, depth)
        return out

    def _call_method(self, fn, call, argsrc, kwsrc, env, deps, ctl, depth):
        if depth > 5:
            return {('A', '*')}
        a = fn.args
        names = [x.arg for x in a.posonlyargs + a.args if x.arg != 'self']
        env2 = {}
        star = set()
        for i, arg in enumerate(call.args):
            if isinstance(arg, ast.Starred):
                star |= argsrc[i]
            elif i < len(names):
                env2[names[i]] = set(argsrc[i])
        dstar = set()
        for k, s in kwsrc.items():
            if k is None:
                dstar |= s
            else:
                env2[k] = set(s)
        for nme in names + [x.arg for x in a.kwonlyargs]:
            env2.setdefault(nme, set())
            env2[nme] |= star | dstar
        if a.vararg:
            env2[a.vararg.arg] = set(star)
        if a.kwarg:
            env2[a.kwarg.arg] = set(dstar) | {s for k, v in kwsrc.items() if k is not None and k not in names for s in v}
        return self._init_fn(fn, env2, deps, set(ctl), depth + 1)

    def _init_fn(self, fn, env, deps, ctl, depth):
        """walk a function flow-insensitively (two passes for local variables); returns the sources of its return value"""
        rets = set()
        for _ in range(2):
            rets |= self._init_body(fn.body, env, deps, ctl, depth)
        return rets

    def _assign(self, t, src, env, deps, ctl):
        if _self_attr(t):
            deps.append((t.attr, set(src) | set(ctl)))
        elif isinstance(t, ast.Name):
            env.setdefault(t.id, set()).update(src | ctl)
        elif isinstance(t, (ast.Tuple, ast.List)):
            for x in t.elts:
                self._assign(x, src, env, deps, ctl)
        elif isinstance(t, ast.Starred):
            self._assign(t.value, src, env, deps, ctl)
        elif isinstance(t, (ast.Subscript, ast.Attribute)):
            base = t.value
            while isinstance(base, (ast.Subscript, ast.Attribute)) and not _self_attr(base):
                base = base.value
            if _self_attr(base):
                deps.append((base.attr, set(src) | set(ctl) | {('A', base.attr)}))
            elif isinstance(base, ast.Name):
                env.setdefault(base.id, set()).update(src | ctl)

    def _init_body(self, body, env, deps, ctl, depth):
        rets = set()
        S = lambda e, c=None: self._srcs(e, env, deps, ctl if c is None else c, depth)
        for s in body:
            if isinstance(s, ast.Assign):
                v = S(s.value)
                for t in s.targets:
                    self._assign(t, v, env, deps, ctl)
            elif isinstance(s, ast.AnnAssign):
                if s.value is not None:
                    self._assign(s.target, S(s.value), env, deps, ctl)
            elif isinstance(s, ast.AugAssign):
                v = S(s.value) | S(s.target)
                self._assign(s.target, v, env, deps, ctl)
            elif isinstance(s, ast.Return):
                rets |= S(s.value) | ctl
            elif isinstance(s, (ast.Expr, ast.Raise, ast.Assert)):
                for ch in ast.iter_child_nodes(s):
                    if isinstance(ch, ast.expr):
                        S(ch)
            elif isinstance(s, ast.If):
                c2 = set(ctl) | S(s.test)
                rets |= self._init_body(s.body, env, deps, c2, depth) | self._init_body(s.orelse, env, deps, c2, depth)
            elif isinstance(s, ast.While):
                c2 = set(ctl) | S(s.test)
                rets |= self._init_body(s.body, env, deps, c2, depth) | self._init_body(s.orelse, env, deps, c2, depth)
            elif isinstance(s, ast.For):
                consts = _const_iter(s.iter)
                if consts is not None and isinstance(s.target, ast.Name):
                    for c in consts:
                        body2 = [_Subst(s.target.id, c).visit(_copy(b)) for b in s.body]
                        rets |= self._init_body(body2, env, deps, ctl, depth)
                else:
                    it = S(s.iter)
                    self._assign(s.target, it, env, deps, ctl)
                    # the loop variable carries the data; the number of iterations is a control dependence
                    rets |= self._init_body(s.body, env, deps, set(ctl), depth)
            elif isinstance(s, ast.Try):
                rets |= self._init_body(s.body, env, deps, ctl, depth)
                for h in s.handlers:
                    rets |= self._init_body(h.body, env, deps, ctl, depth)
                rets |= self._init_body(s.orelse, env, deps, ctl, depth) | self._init_body(s.finalbody, env, deps, ctl, depth)
            elif isinstance(s, ast.With):
                rets |= self._init_body(s.body, env, deps, ctl, depth)
        return rets

    # ---- the loops of _compute_all -------------------------------------------------------------------------
    # ---- local names of _compute_all that stand for constructor attributes ------------------------------------------------
    #   x = self.a | np.copy/np.array/np.asarray/np.ascontiguousarray(self.a) | another such local      -> ('attr', a)
    #   x = (self.a, self.b, ..) | [..]  (elements as above)                                            -> ('tuple', (a, b, ..))
    #   x = <one of these> if <any test> else <one of these>                                             -> both alternatives
    #   a, b, c = <tuple of these>                                                                       -> element-wise
    # A name with ANY other assignment in the function (or that is a loop / comprehension / with / except target) is unknown:
    # arguments mentioning it are not understood and the loop counts as bad (fail closed).
    COPY_FUNCS = ('copy', 'array', 'asarray', 'ascontiguousarray', 'asanyarray')

    def _local_env(self, fn):
        env, unknown = {}, set()

        def alts(v, depth=0):
            """alternatives a value expression may denote, or None when it is not understood"""
            if depth > 6:
                return None
            if _self_attr(v):
                return {('attr', v.attr)}
            if isinstance(v, ast.Name):
                return set(env[v.id]) if v.id in env and v.id not in unknown else None
            if isinstance(v, ast.Call) and isinstance(v.func, ast.Attribute) and isinstance(v.func.value, ast.Name) \
                    and v.func.value.id in ('np', 'numpy') and v.func.attr in self.COPY_FUNCS and len(v.args) == 1 and not v.keywords:
                inner = alts(v.args[0], depth + 1)
                return inner if inner is not None and all(k == 'attr' for k, _ in inner) else None
            if isinstance(v, (ast.Tuple, ast.List)):
                elems = []
                for e in v.elts:
                    a = alts(e, depth + 1)
                    if a is None or len(a) != 1 or next(iter(a))[0] != 'attr':
                        return None
                    elems.append(next(iter(a))[1])
                return {('tuple', tuple(elems))}
            if isinstance(v, ast.IfExp):
                a, b = alts(v.body, depth + 1), alts(v.orelse, depth + 1)
                return (a | b) if a is not None and b is not None else None
            return None

        assigns = []
        for n in ast.walk(fn):
            if isinstance(n, ast.Assign):
                for t in n.targets:
                    assigns.append((t, n.value))
            elif isinstance(n, ast.AnnAssign) and n.value is not None:
                assigns.append((n.target, n.value))
            elif isinstance(n, (ast.AugAssign,)):
                for x in ast.walk(n.target):
                    if isinstance(x, ast.Name):
                        unknown.add(x.id) if not isinstance(n.target, ast.Subscript) else None
            elif isinstance(n, (ast.For, ast.comprehension)):
                for x in ast.walk(n.target):
                    if isinstance(x, ast.Name):
                        unknown.add(x.id)
            elif isinstance(n, ast.withitem) and n.optional_vars is not None:
                for x in ast.walk(n.optional_vars):
                    if isinstance(x, ast.Name):
                        unknown.add(x.id)
            elif isinstance(n, ast.ExceptHandler) and n.name:
                unknown.add(n.name)
            elif isinstance(n, (ast.Global, ast.Nonlocal)):
                unknown |= set(n.names)
        for _ in range(3):                                 # a few rounds: locals defined from earlier locals
            for t, v in assigns:
                if isinstance(t, ast.Name):
                    a = alts(v)
                    if a is None:
                        if t.id not in env:
                            pass
                        continue
                    env.setdefault(t.id, set()).update(a)
                elif isinstance(t, (ast.Tuple, ast.List)) and isinstance(v, (ast.Tuple, ast.List)) and len(t.elts) == len(v.elts):
                    for x, y in zip(t.elts, v.elts):
                        if isinstance(x, ast.Name):
                            a = alts(y)
                            if a is not None:
                                env.setdefault(x.id, set()).update(a)
        # a name is understood only if EVERY assignment to it is understood
        for t, v in assigns:
            pairs = []
            if isinstance(t, ast.Name):
                pairs = [(t, v)]
            elif isinstance(t, (ast.Tuple, ast.List)):
                if isinstance(v, (ast.Tuple, ast.List)) and len(t.elts) == len(v.elts):
                    pairs = [(x, y) for x, y in zip(t.elts, v.elts) if isinstance(x, ast.Name)]
                    for x in t.elts:
                        if not isinstance(x, ast.Name):
                            for y in ast.walk(x):
                                if isinstance(y, ast.Name) and isinstance(y.ctx, ast.Store):
                                    unknown.add(y.id)
                else:
                    for x in ast.walk(t):
                        if isinstance(x, ast.Name):
                            unknown.add(x.id)
            for x, y in pairs:
                if alts(y) is None:
                    unknown.add(x.id)
        for p in fn.args.posonlyargs + fn.args.args + fn.args.kwonlyargs:
            unknown.add(p.arg)
        return {k: v for k, v in env.items() if k not in unknown}

    def _attr_of(self, node, env):
        """node denotes exactly one constructor attribute -> its name, else None"""
        if _self_attr(node):
            return node.attr
        if isinstance(node, ast.Name) and node.id in env and len(env[node.id]) == 1:
            k, a = next(iter(env[node.id]))
            return a if k == 'attr' else None
        return None

    def loops(self, data_attrs):
        fn = self.methods.get(COMPUTE_ALL)
        good, bad, notes = [], 0, []
        if fn is None:
            return good, 1, ['no _compute_all']
        env = self._local_env(fn)
        consumed = set()                                   # comprehensions that are the *[x[t] for x in sensors] argument of a loop
        loops_found = [n for n in ast.walk(fn) if isinstance(n, (ast.For, ast.While))]
        for n in loops_found:
            lfs = self._loop_fact(n, env, consumed) if isinstance(n, ast.For) else None
            if not lfs:
                bad += 1
                notes.append(f'line {n.lineno}: loop not of the shape Q[t] = self.update(Q[t-1], self.data[t], ...)')
            else:
                good += lfs
        for n in ast.walk(fn):
            if isinstance(n, (ast.ListComp, ast.GeneratorExp)) and id(n) not in consumed:
                lfs = self._comp_fact(n, env)
                if not lfs:
                    bad += 1
                    notes.append(f'line {n.lineno}: comprehension not of the shape [self.estimate(self.data[t], ...) for t in range(N)]')
                else:
                    good += lfs
            elif isinstance(n, ast.Assign) and any(_is_row0(t) for t in n.targets):
                # the initial row: may use q0, estimators and sample 0 of the data only
                for x in ast.walk(n.value):
                    if isinstance(x, ast.Subscript):
                        a = self._attr_of(x.value, env)
                        if a in data_attrs and not (isinstance(x.slice, ast.Constant) and x.slice.value == 0):
                            bad += 1
                            notes.append(f'line {n.lineno}: initial row reads data beyond sample 0')
        return good, bad, notes

    def _args_fact(self, call, var, env, consumed, rowvars=None):
        """arguments of self.m(...) in a loop over `var` -> list of alternatives (prev, data, extra), [] when not understood.
        rowvars: names the loop header binds to row `var` of a constructor attribute (enumerate/zip form)"""
        prev, extra = False, []
        data_alts = [[]]
        rowvars = rowvars or {}
        for i, a in enumerate(call.args):
            if isinstance(a, ast.Name) and a.id in rowvars:
                data_alts = [d + [rowvars[a.id]] for d in data_alts]
                continue
            if isinstance(a, ast.Subscript) and isinstance(a.value, ast.Name) and i == 0 and isinstance(a.slice, ast.BinOp) \
                    and isinstance(a.slice.op, ast.Sub) and isinstance(a.slice.left, ast.Name) and a.slice.left.id == var \
                    and isinstance(a.slice.right, ast.Constant) and a.slice.right.value == 1 and a.value.id not in env:
                prev = a.value.id
            elif isinstance(a, ast.Subscript) and isinstance(a.slice, ast.Name) and a.slice.id == var and self._attr_of(a.value, env):
                data_alts = [d + [self._attr_of(a.value, env)] for d in data_alts]
            elif self._attr_of(a, env):
                extra.append(self._attr_of(a, env))
            elif isinstance(a, ast.Starred) and isinstance(a.value, (ast.ListComp, ast.GeneratorExp)):
                # *[s[t] for s in sensors]  with sensors a (conditional) tuple of constructor attributes
                c = a.value
                if len(c.generators) != 1 or c.generators[0].ifs or not isinstance(c.generators[0].target, ast.Name):
                    return []
                ev = c.generators[0].target.id
                elt = c.elt
                if not (isinstance(elt, ast.Subscript) and isinstance(elt.value, ast.Name) and elt.value.id == ev
                        and isinstance(elt.slice, ast.Name) and elt.slice.id == var):
                    return []
                it = c.generators[0].iter
                if isinstance(it, ast.Name) and it.id in env:
                    tuples = [t for k, t in env[it.id] if k == 'tuple']
                    if len(tuples) != len(env[it.id]):
                        return []
                elif isinstance(it, (ast.Tuple, ast.List)):
                    elems = [self._attr_of(e, env) for e in it.elts]
                    if not elems or any(e is None for e in elems):
                        return []
                    tuples = [tuple(elems)]
                else:
                    return []
                data_alts = [d + list(t) for d in data_alts for t in sorted(tuples)]
                consumed.add(id(c))
            else:
                return []
        for k in call.keywords:
            if k.arg is not None and self._attr_of(k.value, env):
                extra.append(self._attr_of(k.value, env))
            else:
                return []
        return [(prev, d, list(extra)) for d in data_alts]

    def _enumerate_header(self, n, env):
        """for t, (x, y, ..) in enumerate(zip(A[k:], B[k:], ..), start=k)   (or  for t, x in enumerate(A[k:], start=k)):
        -> (t, k, {x: attr of A, y: attr of B, ..}) when every zipped operand is the slice [k:] of a constructor attribute (or an
        understood alias of one) with k equal to the enumerate start, so that x is row t of A; None otherwise"""
        it = n.iter
        if not (isinstance(it, ast.Call) and isinstance(it.func, ast.Name) and it.func.id == 'enumerate' and 1 <= len(it.args) <= 2):
            return None
        start = 0
        if len(it.args) == 2:
            if not (isinstance(it.args[1], ast.Constant) and isinstance(it.args[1].value, int)):
                return None
            start = it.args[1].value
        for k in it.keywords:
            if k.arg != 'start' or len(it.args) == 2 or not (isinstance(k.value, ast.Constant) and isinstance(k.value.value, int)):
                return None
            start = k.value.value
        if not (isinstance(n.target, ast.Tuple) and len(n.target.elts) == 2 and isinstance(n.target.elts[0], ast.Name)):
            return None
        var, rows = n.target.elts[0].id, n.target.elts[1]
        src = it.args[0]
        if isinstance(src, ast.Call) and isinstance(src.func, ast.Name) and src.func.id == 'zip' and not src.keywords and src.args:
            operands = list(src.args)
            if not (isinstance(rows, (ast.Tuple, ast.List)) and len(rows.elts) == len(operands) and all(isinstance(x, ast.Name) for x in rows.elts)):
                return None
            names = [x.id for x in rows.elts]
        else:
            operands = [src]
            if not isinstance(rows, ast.Name):
                return None
            names = [rows.id]
        if len(set(names + [var])) != len(names) + 1:
            return None
        rowvars = {}
        for nm, op in zip(names, operands):
            if start == 0 and self._attr_of(op, env):
                rowvars[nm] = self._attr_of(op, env)
                continue
            if not (isinstance(op, ast.Subscript) and isinstance(op.slice, ast.Slice) and op.slice.upper is None and op.slice.step is None):
                return None
            low = op.slice.lower
            k = 0 if low is None else (low.value if isinstance(low, ast.Constant) and isinstance(low.value, int) else None)
            a = self._attr_of(op.value, env)
            if a is None or k is None or k != start or k < 0:
                return None                                  # offset of the slice must equal the enumerate start: x is row t
            rowvars[nm] = a
        return var, start, rowvars

    def _loop_fact(self, n, env, consumed):
        if n.orelse or len(n.body) != 1 or not isinstance(n.body[0], ast.Assign):
            return None
        rowvars = {}
        if isinstance(n.target, ast.Name) and isinstance(n.iter, ast.Call) and isinstance(n.iter.func, ast.Name) and n.iter.func.id == 'range':
            var = n.target.id
            r = n.iter.args
            lo = 0 if len(r) == 1 else (r[0].value if len(r) == 2 and isinstance(r[0], ast.Constant) and isinstance(r[0].value, int) else None)
            if lo is None or n.iter.keywords:
                return None
        else:
            hdr = self._enumerate_header(n, env)
            if hdr is None:
                return None
            var, lo, rowvars = hdr
        st = n.body[0]
        if not (len(st.targets) == 1 and isinstance(st.targets[0], ast.Subscript) and isinstance(st.targets[0].value, ast.Name)
                and isinstance(st.targets[0].slice, ast.Name) and st.targets[0].slice.id == var):
            return None
        arr = st.targets[0].value.id
        c = st.value
        if not (isinstance(c, ast.Call) and _self_attr(c.func) and c.func.attr in self.methods):
            return None
        out = []
        for prev, data, extra in self._args_fact(c, var, env, consumed, rowvars):
            if prev not in (False, arr):
                return None
            out.append({'callee': c.func.attr, 'lo': lo, 'prev': bool(prev), 'data': data, 'extra': extra})
        return out

    def _comp_fact(self, n, env):
        if len(n.generators) != 1:
            return None
        g = n.generators[0]
        if not (isinstance(g.target, ast.Name) and isinstance(g.iter, ast.Call) and isinstance(g.iter.func, ast.Name)
                and g.iter.func.id == 'range' and len(g.iter.args) == 1 and not g.ifs):
            return None
        c = n.elt
        if not (isinstance(c, ast.Call) and _self_attr(c.func) and c.func.attr in self.methods):
            return None
        out = []
        for prev, data, extra in self._args_fact(c, g.target.id, env, set()):
            if prev:
                return None
            out.append({'callee': c.func.attr, 'lo': 0, 'prev': False, 'data': data, 'extra': extra})
        return out


def _is_row0(t):
    return isinstance(t, ast.Subscript) and isinstance(t.value, ast.Name) and isinstance(t.slice, ast.Constant) and t.slice.value == 0


def _copy(node):
    import copy
    return copy.deepcopy(node)


# ------------------------------------------------------------------------------------------ facts and Gallina
def extract(repo, relpath, clsname, updates, carried, rng_guard='q0'):
    """rng_guard: the attribute whose test (`self.q0 is None`) licenses a draw from the NumPy global generator inside this class's
    methods; None for a class whose entry point is a recorded RNG user by nature (OLEQ)"""
    pkg = Package(os.path.join(repo, 'ahrs'))
    ex = Extractor(pkg, relpath, clsname)
    ex.rng_guard = rng_guard
    init = ex.methods.get('__init__')
    params = [a.arg for a in (init.args.posonlyargs + init.args.args + init.args.kwonlyargs)] if init else []
    dparams = [p for p in params if p in DATA_PARAMS] + ['__compute_all__']
    deps = ex.init_deps()
    # data attributes (same closure as Coq's data_attrs; used here only to classify the loop arguments)
    T = set()
    changed = True
    while changed:
        changed = False
        for a, ss in deps:
            if a not in T and any((k == 'P' and v in dparams) or (k == 'A' and v in T) or k == 'G' for k, v in ss):
                T.add(a)
                changed = True
    loops, bad, notes = ex.loops(T)
    missing = [u for u in updates if u not in ex.methods]
    table = ex.table()
    # write-only scratch attributes (bound somewhere outside __init__'s dependences, read by no method of the class, not set by
    # __init__) cannot couple two calls: they are added to the declared carried state so that e.g. a cached temporary does not alarm
    def atoms(c, acc):
        if c[0] in ('Rd', 'Wr'):
            acc.add((c[0], c[1]))
        for x in c[1:]:
            if isinstance(x, tuple):
                atoms(x, acc)
        return acc
    allat = set()
    for _, c in table:
        atoms(c, allat)
    assigned = {a for a, _ in deps}
    scratch = sorted({x for k, x in allat if k == 'Wr'} - {x for k, x in allat if k == 'Rd'} - assigned - {'*'})
    if scratch:
        notes.append('write-only scratch attributes treated as carried: ' + ', '.join(scratch))
    carried = list(carried) + [x for x in scratch if x not in carried]
    notes.append('may hold caller objects: ' + ', '.join(sorted(ex.aliased_attrs())))
    return {'name': clsname, 'file': relpath, 'kwargs': ex.kwarg_names(), 'aliased': sorted(ex.aliased_attrs()), 'methods': table, 'updates': [u for u in updates if u in ex.methods],
            'missing_updates': missing, 'dparams': dparams, 'init': deps, 'carried': list(carried), 'loops': loops,
            'badloops': bad + len(missing), 'notes': notes, 'py_data_attrs': sorted(T)}


def _s(x):
    return '"' + str(x).replace('"', '""') + '"'


def _cmd(c):
    k = c[0]
    if k == 'Skip':
        return 'Skip'
    if k in ('Rd', 'Wr', 'Glob', 'Call'):
        return f'({k} {_s(c[1])})'
    if k in ('Seq', 'If'):
        return f'({k} {_cmd(c[1])} {_cmd(c[2])})'
    if k == 'Loop':
        return f'(Loop {_cmd(c[1])})'
    raise ValueError(c)


def _lst(xs):
    return '[' + '; '.join(xs) + ']'


def _src(s):
    return {'P': 'SParam', 'A': 'SAttr', 'G': 'SGlobal'}[s[0]] + ' ' + _s(s[1])


def gallina(facts_list):
    L = ['(* C06facts.v — REGENERATED on every run by tools/pyfx_c06 from the current source of the package. *)',
         'From Coq Require Import String.', 'From Coq Require Import List.', 'From AhrsModel Require Import C06_scan.',
         'Import ListNotations.', 'Open Scope string_scope.', '']
    for f in facts_list:
        n = f['name']
        L.append(f'(* {n}  ({f["file"]}) ' + ('; '.join(f['notes']) if f['notes'] else '') + ' *)')
        L.append(f'Definition F_{n} : filt := {{|')
        L.append(f'  fname := {_s(n)};')
        L.append('  fmethods := [')
        L.append(';\n'.join(f'    ({_s(m)}, {_cmd(c)})' for m, c in f['methods']))
        L.append('  ];')
        L.append(f'  fupdates := {_lst(_s(u) for u in f["updates"])};')
        L.append(f'  fdparams := {_lst(_s(p) for p in f["dparams"])};')
        L.append('  finit := [')
        L.append(';\n'.join(f'    ({_s(a)}, {_lst(_src(s) for s in ss)})' for a, ss in f['init']))
        L.append('  ];')
        L.append(f'  fcarried := {_lst(_s(c) for c in f["carried"])};')
        L.append('  floops := ' + _lst(
            f'{{| lcallee := {_s(l["callee"])}; llo := {l["lo"]}; lprev := {"true" if l["prev"] else "false"}; '
            f'ldata := {_lst(_s(d) for d in l["data"])}; lextra := {_lst(_s(e) for e in l["extra"])} |}}' for l in f['loops']) + ';')
        L.append(f'  fbadloops := {f["badloops"]}')
        L.append('|}.')
        L.append('')
    L.append('Definition all_filters : list filt := ' + _lst(f'F_{f["name"]}' for f in facts_list) + '.')
    return '\n'.join(L) + '\n'
