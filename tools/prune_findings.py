#!/usr/bin/env python3
"""Remove 'known' lines of known_findings.jsonl whose witness no longer reproduces on the current /repo (run with bin/check's environment)."""
import sys, json, importlib
sys.path.insert(0, '/verif/tools')
from vlib import core
lines = open('/verif/known_findings.jsonl').read().splitlines()
out, dropped = [], []
mods = {}
for l in lines:
    if not l.startswith('{'):
        out.append(l); continue
    d = json.loads(l)
    if d.get('status', 'known') != 'known':
        out.append(l); continue
    pid = d['property']
    try:
        mod = mods.setdefault(pid, importlib.import_module(f'props.{pid}'))
        orc = mod.ORACLES.get(d['oracle'])
        res = core.call_outcome(orc, d['witness']) if orc else ('raise', 'NoOracle', '')
    except Exception as e:
        out.append(l); print('keep (error)', pid, d['tag'], e); continue
    if res[0] == 'raise':
        r = {'tag': d['tag']} if d.get('expect_raise') else None
    else:
        r = res[1]
    if r is not None and r.get('tag') == d['tag']:
        out.append(l)
    else:
        dropped.append((pid, d['oracle'], d['tag']))
if '--apply' in sys.argv:
    open('/verif/known_findings.jsonl', 'w').write('\n'.join(out) + '\n')
print('dropped' if '--apply' in sys.argv else 'would drop', len(dropped))
for x in dropped: print('  ', x)
