#!/bin/bash
# test_seeds.sh <PID> <dir containing m1..mN> : run the quick check against each mutation in a scratch worktree (never /repo)
P=$1; D=$2; W=/tmp/seedtest-$$
git -C /repo worktree add --detach -q $W HEAD || exit 2
for m in $(ls $D); do
  [ -f $D/$m/patch.diff ] || continue
  if git -C $W apply $D/$m/patch.diff 2>/dev/null; then
    out=$(AHRS_REPO=$W /verif/bin/check $P 2>&1)
    v=$(echo "$out" | grep -c "^VIOLATION"); nf=$(echo "$out" | grep -c "no-failing-input-found"); f=$(echo "$out" | grep -c "FAILED")
    echo "$P $m: violations=$v (of which no-input=$nf) proof-files-failed=$f"
    git -C $W checkout -q -- .
  else
    echo "$P $m: PATCH DOES NOT APPLY"
  fi
done
git -C /repo worktree remove --force $W
