"""Load a private copy of /repo/ahrs as package `ahrs_sym`, identical source except that
`import numpy as np` binds the proxy module.  The real `ahrs` package is untouched."""
import importlib.abc, importlib.machinery, importlib.util, os, re, sys

REPO = os.environ.get('AHRS_REPO', '/repo')
PKG = 'ahrs_sym'
_IMPORT_NP = re.compile(r'^(\s*)import numpy as np\s*$', re.M)


class _Loader(importlib.machinery.SourceFileLoader):
    def get_data(self, path):
        data = super().get_data(path)
        if path.endswith('.py'):
            src = data.decode('utf-8')
            src = _IMPORT_NP.sub(r'\1from pysym import symnp as np', src)
            return src.encode('utf-8')
        return data

    def get_code(self, fullname):
        path = self.get_filename(fullname)
        return compile(self.get_data(path), path, 'exec', dont_inherit=True)


class _Finder(importlib.abc.MetaPathFinder):
    def find_spec(self, fullname, path=None, target=None):
        if fullname != PKG and not fullname.startswith(PKG + '.'):
            return None
        rel = fullname.split('.')[1:]
        base = os.path.join(REPO, 'ahrs', *rel)
        if os.path.isdir(base):
            f = os.path.join(base, '__init__.py')
            return importlib.util.spec_from_file_location(
                fullname, f, loader=_Loader(fullname, f), submodule_search_locations=[base])
        f = base + '.py'
        if os.path.isfile(f):
            return importlib.util.spec_from_file_location(fullname, f, loader=_Loader(fullname, f))
        return None


_installed = False


def load():
    global _installed
    if not _installed:
        sys.meta_path.insert(0, _Finder())
        sys.dont_write_bytecode = True
        _installed = True
    import importlib
    return importlib.import_module(PKG)
