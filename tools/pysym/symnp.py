"""NumPy proxy used by the traced copy of the package (`import numpy as np` is rewritten to
`import symnp as np`).  Everything not overridden here is real NumPy, which already knows how
to do element-wise arithmetic, `@`, `.T`, slicing, `cross`, `trace`, `roll`, ... on
object-dtype arrays of symbolic scalars.  Overridden: what NumPy cannot do on objects or what
has a mathematical meaning we want to keep symbolic (norm, isclose, clip, sign, det, ...)."""
import sys, types, builtins
import numpy as _np
from . import sym as _s
from .sym import S, B, Unsupported

_this = sys.modules[__name__]


def __getattr__(name):          # module-level fallback: real numpy
    if name == 'pi':
        return _s.PI if _s.CTX.active else _np.pi
    if name == 'e':
        return _s.fn('exp', 1) if _s.CTX.active else _np.e
    return getattr(_np, name)


nan = _np.nan
newaxis = None
float64 = _np.float64


def _is_sym(x):
    if isinstance(x, (S, B)):
        return True
    if isinstance(x, _np.ndarray):
        return _np.ndarray.dtype.__get__(x) == object
    if isinstance(x, (list, tuple)):
        return builtins.any(_is_sym(y) for y in x)
    return False


# ---- ndarray subclass that pretends to be float64 -----------------------------------------
class _Meta(type(_np.ndarray)):
    def __instancecheck__(cls, inst):
        if cls is ndarray:
            return isinstance(inst, _np.ndarray)
        return type.__instancecheck__(cls, inst)


class ndarray(_np.ndarray, metaclass=_Meta):
    """Base class the traced package sees as np.ndarray.  Instances created through it hold
    symbolic objects but report a float dtype to Python-level inspection."""

    def __new__(subtype, shape, dtype=float, buffer=None, offset=0, strides=None, order=None):
        if buffer is not None and isinstance(buffer, _np.ndarray) and _np.ndarray.dtype.__get__(buffer) == object:
            # ndarray.__new__(subtype, shape, float, buffer) makes an array that SHARES the buffer's memory
            # (in-place updates of either are seen by both): a view of the object array has the same aliasing
            try:
                return _np.asarray(buffer).reshape(shape).view(subtype)
            except Exception:
                obj = _np.ndarray.__new__(subtype, shape, object)
                obj[...] = buffer.reshape(shape)
                return obj
        return _np.ndarray.__new__(subtype, shape, dtype, buffer, offset, strides, order)

    @property
    def dtype(self):
        d = _np.ndarray.dtype.__get__(self)
        return _np.dtype(float) if d == object else d

    def astype(self, dtype, *a, **k):
        if _np.ndarray.dtype.__get__(self) == object and _np.dtype(dtype).kind in 'fiu':
            return self.copy()
        return _np.ndarray.astype(self, dtype, *a, **k)

    def __array_finalize__(self, obj):
        pass

    def max(self, *a, **k): return amax(self, *a, **k)
    def min(self, *a, **k): return amin(self, *a, **k)
    def argmax(self, *a, **k): return argmax(self, *a, **k)
    def argmin(self, *a, **k): return argmin(self, *a, **k)
    def conj(self): return self.copy()
    conjugate = conj
    def all(self, *a, **k): return all(self, *a, **k)
    def any(self, *a, **k): return any(self, *a, **k)
    def clip(self, lo=None, hi=None): return clip(self, lo, hi)

    # full reductions return a *scalar* in NumPy (np.float64, immutable).  An ndarray subclass would get a 0-d array
    # back, which `x -= ...` then mutates in place through every alias (`l_max = l_old = self.w.sum()` in QUEST).
    def sum(self, *a, **k):
        r = _np.ndarray.sum(self, *a, **k)
        return r[()] if isinstance(r, _np.ndarray) and r.ndim == 0 else r

    def trace(self, *a, **k):
        r = _np.ndarray.trace(self, *a, **k)
        return r[()] if isinstance(r, _np.ndarray) and r.ndim == 0 else r


def _wrap(a):
    """object arrays become `ndarray` (the lying subclass); numeric arrays stay as they are."""
    if isinstance(a, _np.ndarray) and _np.ndarray.dtype.__get__(a) == object and type(a) is _np.ndarray:
        return a.view(ndarray)
    return a


def _lift_obj(a):
    """object array -> all entries are S (numbers lifted)."""
    flat = a.reshape(-1)
    for i in range(flat.shape[0]):
        v = flat[i]
        if isinstance(v, B):
            continue
        if not isinstance(v, S):
            l = _s.lift(v)
            if l is None:
                raise Unsupported(f"array element of type {type(v).__name__}")
            flat[i] = l
    return a


def array(obj, dtype=None, copy=True, **kw):
    if _is_sym(obj):
        if dtype is not None and _np.dtype(dtype).kind not in 'fO':
            raise Unsupported(f"symbolic array with dtype {dtype}")
        if isinstance(obj, (S, B)):
            a = _np.empty((), dtype=object); a[()] = obj
            return _wrap(a)
        if isinstance(obj, _np.ndarray):
            a = _np.array(obj, dtype=object, copy=True)
            return _wrap(a) if type(a) is _np.ndarray else a
        a = _np.array(_tolists(obj), dtype=object)
        return _wrap(a)
    return _np.array(obj, dtype=dtype, copy=copy, **kw)


def _tolists(o):
    if isinstance(o, _np.ndarray):
        return _tolists(o.tolist()) if _np.ndarray.dtype.__get__(o) != object else [_tolists(x) for x in o] if o.ndim > 0 else o.item()
    if isinstance(o, (list, tuple)):
        return [_tolists(x) for x in o]
    return o


def asarray(obj, dtype=None, **kw):
    if isinstance(obj, _np.ndarray) and _np.ndarray.dtype.__get__(obj) == object:
        return obj
    if _is_sym(obj):
        return array(obj, dtype)
    return _np.asarray(obj, dtype=dtype, **kw)


def copy(a, **kw):
    if _is_sym(a):
        return array(a)
    return _np.copy(a, **kw)


def _objfull(shape, v):
    a = _np.empty(shape, dtype=object)
    a[...] = v
    return _wrap(a)


# arrays that the traced code will later fill with symbolic entries must be object arrays;
# we cannot know in advance, so *every* zeros/ones/identity made inside the package is an
# object array of exact rationals (0, 1).  They behave as numbers everywhere else.
def zeros(shape, dtype=float, **kw):
    if _np.dtype(dtype).kind not in 'f' or not _s.CTX.active:
        return _np.zeros(shape, dtype=dtype, **kw)
    return _objfull(shape, S.const(0))


def ones(shape, dtype=float, **kw):
    if _np.dtype(dtype).kind not in 'f' or not _s.CTX.active:
        return _np.ones(shape, dtype=dtype, **kw)
    return _objfull(shape, S.const(1))


def zeros_like(a, dtype=None, **kw):
    return zeros(_np.shape(a)) if _s.CTX.active else _np.zeros_like(a, dtype=dtype, **kw)


def ones_like(a, dtype=None, **kw):
    return ones(_np.shape(a)) if _s.CTX.active else _np.ones_like(a, dtype=dtype, **kw)


def empty(shape, dtype=float, **kw):
    return zeros(shape, dtype)


def identity(n, dtype=float):
    if not _s.CTX.active:
        return _np.identity(n, dtype=dtype)
    a = zeros((n, n))
    for i in range(n):
        a[i, i] = S.const(1)
    return a


def eye(n, m=None, k=0, dtype=float, **kw):
    if not _s.CTX.active:
        return _np.eye(n, m, k, dtype=dtype, **kw)
    m = n if m is None else m
    a = zeros((n, m))
    for i in range(n):
        if 0 <= i + k < m:
            a[i, i + k] = S.const(1)
    return a


def diag(v, k=0):
    v = asarray(v)
    if _np.ndarray.dtype.__get__(v) != object:
        return _np.diag(v, k)
    if v.ndim == 1:
        n = v.shape[0]
        a = zeros((n, n))
        for i in range(n):
            a[i, i] = v[i]
        return a
    return _wrap(_np.diag(_np.asarray(v), k))


def _map1(name, x, realf):
    if _is_sym(x):
        if isinstance(x, S):
            return _s.fn(name, x)
        a = array(x)
        out = _np.empty(a.shape, dtype=object)
        fo, fi = out.reshape(-1), _np.asarray(a).reshape(-1)
        for i in range(fi.shape[0]):
            fo[i] = _s.fn(name, fi[i])
        return _wrap(out) if out.ndim else out[()]
    if _s.CTX.active and isinstance(x, (int, float)) and not isinstance(x, bool):
        # a Python number inside a trace: keep the exact mathematical meaning (sqrt(2), ...)
        return _s.fn(name, x)
    return realf(x)


def sqrt(x): return _map1('sqrt', x, _np.sqrt)
def sin(x): return _map1('sin', x, _np.sin)
def cos(x): return _map1('cos', x, _np.cos)
def tan(x): return _map1('tan', x, _np.tan)
def arctan(x): return _map1('atan', x, _np.arctan)
def arcsin(x): return _map1('asin', x, _np.arcsin)
def arccos(x): return _map1('acos', x, _np.arccos)
def exp(x): return _map1('exp', x, _np.exp)
def log(x): return _map1('ln', x, _np.log)
def cbrt(x): return _map1('cbrt', x, _np.cbrt)
def abs(x): return _map1('abs', x, _np.abs)
absolute = abs
fabs = abs
def sign(x): return _map1('sgn', x, _np.sign)
def square(x): return x * x
def deg2rad(x): return x * (_this.__getattr__('pi') / 180)
def rad2deg(x): return x * (180 / _this.__getattr__('pi'))
radians = deg2rad
degrees = rad2deg


def _map2(name, x, y, realf):
    if _is_sym(x) or _is_sym(y) or (_s.CTX.active and isinstance(x, (int, float)) and isinstance(y, (int, float))):
        if _np.ndim(x) == 0 and _np.ndim(y) == 0:
            return _s.fn(name, _item(x), _item(y))
        a, b = _np.broadcast_arrays(_np.asarray(array(x) if _is_sym(x) else x, dtype=object),
                                    _np.asarray(array(y) if _is_sym(y) else y, dtype=object))
        out = _np.empty(a.shape, dtype=object)
        for idx in _np.ndindex(a.shape):
            out[idx] = _s.fn(name, a[idx], b[idx])
        return _wrap(out)
    return realf(x, y)


def _item(x):
    if isinstance(x, _np.ndarray):
        return x.item() if _np.ndarray.dtype.__get__(x) != object else x[()]
    return x


def arctan2(y, x): return _map2('atan2', y, x, _np.arctan2)
def maximum(x, y): return _map2('max', x, y, _np.maximum)
def minimum(x, y): return _map2('min', x, y, _np.minimum)


def clip(a, lo, hi, **kw):
    if _is_sym(a) or _is_sym(lo) or _is_sym(hi):
        r = a
        if lo is not None:
            r = maximum(r, lo)
        if hi is not None:
            r = minimum(r, hi)
        return r
    return _np.clip(a, lo, hi, **kw)


def isclose(a, b, rtol=1e-05, atol=1e-08, equal_nan=False):
    if _is_sym(a) or _is_sym(b):
        def one(x, y):
            x, y = _s.lift(x), _s.lift(y)
            return _s.cmp('le', _s.fn('abs', x - y), atol + rtol * _s.fn('abs', y))
        if _np.ndim(a) == 0 and _np.ndim(b) == 0:
            return one(_item(a), _item(b))
        x, y = _np.broadcast_arrays(_np.asarray(a, dtype=object), _np.asarray(b, dtype=object))
        out = _np.empty(x.shape, dtype=object)
        for idx in _np.ndindex(x.shape):
            out[idx] = one(x[idx], y[idx])
        return out
    return _np.isclose(a, b, rtol=rtol, atol=atol, equal_nan=equal_nan)


def allclose(a, b, rtol=1e-05, atol=1e-08, equal_nan=False):
    if _is_sym(a) or _is_sym(b):
        r = isclose(a, b, rtol, atol)
        return all(r)
    return _np.allclose(a, b, rtol=rtol, atol=atol, equal_nan=equal_nan)


def all(a, axis=None, **kw):
    if isinstance(a, B):
        return a
    if isinstance(a, _np.ndarray) and _np.ndarray.dtype.__get__(a) == object and axis is None:
        r = True
        for v in a.reshape(-1):
            r = _s.band(r, v if isinstance(v, (B, bool, _np.bool_)) else (_s.lift(v) != 0))
        return r
    if isinstance(a, _np.ndarray) and type(a) is not _np.ndarray:
        a = a.view(_np.ndarray)        # np.all(subclass) dispatches to subclass.all(), which is this function
    return _np.all(a, axis=axis, **kw)


def any(a, axis=None, **kw):
    if isinstance(a, B):
        return a
    if isinstance(a, _np.ndarray) and _np.ndarray.dtype.__get__(a) == object and axis is None:
        r = False
        for v in a.reshape(-1):
            r = _s.bor(r, v if isinstance(v, (B, bool, _np.bool_)) else (_s.lift(v) != 0))
        return r
    if isinstance(a, _np.ndarray) and type(a) is not _np.ndarray:
        a = a.view(_np.ndarray)
    return _np.any(a, axis=axis, **kw)


def isnan(x):
    # symbolic inputs stand for finite reals
    if _is_sym(x):
        if _np.ndim(x) == 0:
            return False
        # entries that are concrete float NaN (a NaN row written into a symbolic array) are NaN; symbols are not
        a = _np.asarray(x, dtype=object)
        out = _np.zeros(a.shape, dtype=bool)
        for idx in _np.ndindex(a.shape):
            out[idx] = _s._isnan(a[idx])
        return out
    return _np.isnan(x)


def isfinite(x):
    if _is_sym(x):
        return True if _np.ndim(x) == 0 else _np.ones(_np.shape(x), dtype=bool)
    return _np.isfinite(x)


def nan_to_num(x, *a, **k):
    return x if _is_sym(x) else _np.nan_to_num(x, *a, **k)


def _reduce_cmp(a, pick_gt, axis=None):
    a = _np.asarray(a)
    if _np.ndarray.dtype.__get__(a) != object:
        return None
    if axis is not None:
        raise Unsupported("axis reduction with comparison on symbolic array")
    flat = a.reshape(-1)
    best = 0
    for i in range(1, flat.shape[0]):
        c = (flat[i] > flat[best]) if pick_gt else (flat[i] < flat[best])
        if c:                      # forks the explorer
            best = i
    return best


def argmax(a, axis=None, **kw):
    r = _reduce_cmp(a, True, axis)
    return _np.argmax(a, axis=axis, **kw) if r is None else r


def argmin(a, axis=None, **kw):
    r = _reduce_cmp(a, False, axis)
    return _np.argmin(a, axis=axis, **kw) if r is None else r


def _reduce_axis(a, pick_gt, axis):
    """(C18) max/min of a symbolic array along one integer axis: one comparison chain per output element
    (each comparison forks the explorer), e.g. np.r_[[u], [v]].min(axis=0)"""
    a = _np.asarray(a)
    if not isinstance(axis, (int, _np.integer)) or isinstance(axis, bool):
        raise Unsupported("axis reduction with comparison on symbolic array over several axes")
    moved = _np.moveaxis(a, int(axis), 0)
    out = _np.empty(moved.shape[1:], dtype=object)
    for idx in _np.ndindex(out.shape):
        col = moved[(slice(None),) + idx]
        best = col[0]
        for i in range(1, col.shape[0]):
            c = (col[i] > best) if pick_gt else (col[i] < best)
            if c:                  # forks the explorer
                best = col[i]
        out[idx] = best
    return _wrap(out) if out.ndim else out[()]


def _sym_axis(a, axis, kw):
    return (axis is not None and not kw and isinstance(a, _np.ndarray) and _np.ndarray.dtype.__get__(a) == object)


def amax(a, axis=None, **kw):
    if _sym_axis(a, axis, kw):
        return _reduce_axis(a, True, axis)
    r = _reduce_cmp(a, True, axis)
    return _np.max(a, axis=axis, **kw) if r is None else _np.asarray(a).reshape(-1)[r]


def amin(a, axis=None, **kw):
    if _sym_axis(a, axis, kw):
        return _reduce_axis(a, False, axis)
    r = _reduce_cmp(a, False, axis)
    return _np.min(a, axis=axis, **kw) if r is None else _np.asarray(a).reshape(-1)[r]


max = amax
min = amin


def ptp(a, axis=None, **kw):
    """(C20) peak-to-peak of a symbolic array as a left fold of max/min nodes (Rmax/Rmin, fmax/fmin): no path
    forking, same reduction order as numpy's maximum.reduce - minimum.reduce"""
    if _is_sym(a) and axis is None and not kw:
        flat = _np.asarray(array(a), dtype=object).reshape(-1)
        hi = lo = _s.lift(flat[0])
        for v in flat[1:]:
            hi = _s.fn('max', hi, v)
            lo = _s.fn('min', lo, v)
        return hi - lo
    return _np.ptp(a, axis=axis, **kw)


def where(c, *args):
    if isinstance(c, B) or (isinstance(c, _np.ndarray) and _np.ndarray.dtype.__get__(c) == object):
        if len(args) == 2:
            x, y = args
            if isinstance(c, B):
                return x if c else y
            cc, xx, yy = _np.broadcast_arrays(c, _np.asarray(x, dtype=object), _np.asarray(y, dtype=object))
            out = _np.empty(cc.shape, dtype=object)
            for idx in _np.ndindex(cc.shape):
                out[idx] = xx[idx] if cc[idx] else yy[idx]
            return _wrap(out)
        # np.where(cond)[0]: indices where true -> decide each
        c = _np.atleast_1d(c)
        if c.ndim != 1:
            raise Unsupported("np.where(cond) on a symbolic array of rank > 1")
        return (_np.array([i for i in range(c.shape[0]) if c[i]], dtype=int),)
    return _np.where(c, *args)


def sum(a, axis=None, **kw):
    if isinstance(a, types.GeneratorType):
        return _np.sum(a, axis=axis, **kw)      # numpy's own behaviour (TypeError in numpy 2)
    return _wrap(_np.sum(a, axis=axis, **kw)) if _is_sym(a) else _np.sum(a, axis=axis, **kw)


def nansum(a, axis=None, **kw):
    return sum(a, axis=axis, **kw) if _is_sym(a) else _np.nansum(a, axis=axis, **kw)


def mean(a, axis=None, **kw):
    if _is_sym(a):
        a = array(a)
        n = a.size if axis is None else a.shape[axis]
        return sum(a, axis=axis) / n
    return _np.mean(a, axis=axis, **kw)


nanmean = mean


def cross(a, b, **kw):
    if _is_sym(a) or _is_sym(b):
        a = _np.asarray(a if not isinstance(a, (list, tuple)) else array(a), dtype=object)
        b = _np.asarray(b if not isinstance(b, (list, tuple)) else array(b), dtype=object)
        if a.shape[-1] != 3 or b.shape[-1] != 3 or kw:
            raise Unsupported("cross product other than 3-vectors on last axis")
        a, b = _np.broadcast_arrays(a, b)
        out = _np.empty(a.shape, dtype=object)
        out[..., 0] = a[..., 1] * b[..., 2] - a[..., 2] * b[..., 1]
        out[..., 1] = a[..., 2] * b[..., 0] - a[..., 0] * b[..., 2]
        out[..., 2] = a[..., 0] * b[..., 1] - a[..., 1] * b[..., 0]
        return _wrap(out)
    return _np.cross(a, b, **kw)


def dot(a, b):
    r = _np.dot(_np.asarray(array(a) if isinstance(a, (list, tuple)) and _is_sym(a) else a),
                _np.asarray(array(b) if isinstance(b, (list, tuple)) and _is_sym(b) else b))
    return _wrap(r) if isinstance(r, _np.ndarray) else r


def trace(a, *args, **kw):
    return _np.trace(_np.asarray(a), *args, **kw)


def outer(a, b):
    if _is_sym(a) or _is_sym(b):
        a = _np.asarray(array(a) if _is_sym(a) else a, dtype=object).reshape(-1)
        b = _np.asarray(array(b) if _is_sym(b) else b, dtype=object).reshape(-1)
        out = _np.empty((a.shape[0], b.shape[0]), dtype=object)
        for i in range(a.shape[0]):
            for j in range(b.shape[0]):
                out[i, j] = a[i] * b[j]
        return _wrap(out)
    return _np.outer(a, b)


def _finish(r):
    return _wrap(r) if isinstance(r, _np.ndarray) else r


def atleast_1d(a): return _finish(_np.atleast_1d(array(a) if _is_sym(a) and not isinstance(a, _np.ndarray) else a))
def atleast_2d(a): return _finish(_np.atleast_2d(array(a) if _is_sym(a) and not isinstance(a, _np.ndarray) else a))
def transpose(a, *x): return _finish(_np.transpose(a, *x))
def roll(a, *x, **k): return _finish(_np.roll(a, *x, **k))
def tile(a, *x): return _finish(_np.tile(array(a) if _is_sym(a) and not isinstance(a, _np.ndarray) else a, *x))
def vstack(t): return _finish(_np.vstack([array(x) if _is_sym(x) and not isinstance(x, _np.ndarray) else x for x in t]))
def hstack(t): return _finish(_np.hstack([array(x) if _is_sym(x) and not isinstance(x, _np.ndarray) else x for x in t]))
def append(a, b, *x, **k): return _finish(_np.append(a, b, *x, **k))
def cumsum(a, *x, **k): return _finish(_np.cumsum(a, *x, **k))
def diff(a, *x, **k): return _finish(_np.diff(a, *x, **k))
def repeat(a, *x, **k): return _finish(_np.repeat(a, *x, **k))


class _CClass:
    def __init__(self, real): self.real = real
    def __getitem__(self, key):
        if not isinstance(key, tuple):
            key = (key,)
        key = tuple(array(k) if (_is_sym(k) and not isinstance(k, _np.ndarray)) else k for k in key)
        try:
            return _finish(self.real[key])
        except Unsupported:
            # (C08) numpy's c_/r_ trust the reported float dtype of the proxy arrays and try float(); redo the
            # concatenation on plain object views so the symbolic entries are kept
            key = tuple(k.view(_np.ndarray) if isinstance(k, _np.ndarray) and _np.ndarray.dtype.__get__(k) == object else k
                        for k in key)
            return _finish(self.real[key])


c_ = _CClass(_np.c_)
r_ = _CClass(_np.r_)


# ---- linalg ------------------------------------------------------------------------------
class _Linalg(types.ModuleType):
    LinAlgError = _np.linalg.LinAlgError

    def __getattr__(self, name):
        f = getattr(_np.linalg, name)
        if name in ('eig', 'eigh') and EIG_STUB is not None:
            # a target may stand in for the eigen-solver with symbolic (eigenvalues, eigenvectors) of its own inputs, so
            # that the code AFTER the LAPACK call is traced (additive: without a stub the call still fails closed)
            stub = EIG_STUB
            return lambda *a, **k: stub

        def guarded(*a, **k):
            if builtins.any(_is_sym(x) for x in a):
                raise Unsupported(f"np.linalg.{name} on symbolic values")
            return f(*a, **k)
        return guarded if callable(f) else f

    @staticmethod
    def norm(x, ord=None, axis=None, keepdims=False):
        if not _is_sym(x):
            return _np.linalg.norm(x, ord=ord, axis=axis, keepdims=keepdims)
        if ord not in (None, 2, 'fro'):
            raise Unsupported(f"norm ord={ord}")
        a = _np.asarray(array(x), dtype=object)
        if ord == 2 and a.ndim > 1 and axis is None:
            raise Unsupported("spectral norm")
        if a.ndim == 0:
            return _s.fn('abs', a[()])
        sq = a * a
        if axis is None:
            tot = S.const(0)
            for v in sq.reshape(-1):
                tot = tot + v
            r = _s.fn('sqrt', tot)
            if keepdims:
                raise Unsupported("norm keepdims without axis")
            return r
        ssum = _np.sum(sq, axis=axis, keepdims=keepdims)
        return sqrt(ssum)

    @staticmethod
    def det(a):
        if not _is_sym(a):
            return _np.linalg.det(a)
        a = _np.asarray(a, dtype=object)
        if a.ndim > 2:
            out = _np.empty(a.shape[:-2], dtype=object)
            for idx in _np.ndindex(a.shape[:-2]):
                out[idx] = _Linalg._det2(a[idx])
            return _wrap(out)
        return _Linalg._det2(a)

    @staticmethod
    def _det2(a):
        n = a.shape[0]
        if a.shape != (n, n):
            raise _np.linalg.LinAlgError("Last 2 dimensions of the array must be square")
        if n == 1:
            return a[0, 0]
        if n == 2:
            return a[0, 0] * a[1, 1] - a[0, 1] * a[1, 0]
        tot = S.const(0)
        for j in range(n):
            minor = _np.delete(_np.delete(a, 0, axis=0), j, axis=1)
            t = a[0, j] * _Linalg._det2(minor)
            tot = tot + t if j % 2 == 0 else tot - t
        return tot

    @staticmethod
    def matrix_power(a, n):
        """(C08) true matrix power by repeated `@`, in the multiplication order of numpy.linalg.matrix_power"""
        if not _is_sym(a):
            return _np.linalg.matrix_power(a, n)
        a = _np.asarray(array(a), dtype=object)
        if a.ndim != 2 or a.shape[0] != a.shape[1]:
            raise _np.linalg.LinAlgError("Last 2 dimensions of the array must be square")
        if isinstance(n, (S, B)) or int(n) != n:
            raise TypeError("exponent must be an integer")
        n = int(n)
        if n < 0:
            raise Unsupported("symbolic matrix_power with a negative exponent")
        if n == 0:
            return identity(a.shape[0])
        if n == 1:
            return _wrap(a.copy())
        if n == 2:
            return _wrap(a @ a)
        if n == 3:
            return _wrap((a @ a) @ a)
        z = result = None
        while n > 0:
            z = a if z is None else z @ z
            n, bit = divmod(n, 2)
            if bit:
                result = z if result is None else result @ z
        return _wrap(result)

    @staticmethod
    def inv(a):
        if not _is_sym(a):
            return _np.linalg.inv(a)
        a = _np.asarray(a, dtype=object)
        n = a.shape[0]
        if a.ndim != 2 or n > 4:
            raise Unsupported("symbolic inverse beyond 4x4")
        d = _Linalg._det2(a)
        out = _np.empty((n, n), dtype=object)
        for i in range(n):
            for j in range(n):
                minor = _np.delete(_np.delete(a, j, axis=0), i, axis=1)
                c = _Linalg._det2(minor) if n > 1 else S.const(1)
                out[i, j] = (c if (i + j) % 2 == 0 else -c) / d
        return _wrap(out)


EIG_STUB = None
linalg = _Linalg('symnp.linalg')


class _Random(types.ModuleType):
    def __getattr__(self, name):
        if _s.CTX.active:
            raise Unsupported(f"np.random.{name} inside a symbolic trace")
        return getattr(_np.random, name)


random = _Random('symnp.random')
