"""Print decision trees of symbolic scalars as Gallina, twice: over R (theorems) and over
PrimFloat (executable, for the correspondence check), and evaluate them in Python floats."""
from __future__ import annotations
import hashlib, math, re
from fractions import Fraction
import numpy as _np
from .sym import S, B, Leaf, Node, Unsupported

EXN = ('ValueError', 'TypeError', 'ZeroDivisionError', 'IndexError', 'AttributeError', 'KeyError',
       'LinAlgError')

# functions with an exact PrimFloat counterpart; everything else becomes an oracle parameter
_F_NATIVE = {'sqrt', 'abs', 'max', 'min', 'sgn'}
_R_FN = {'sqrt': 'sqrt', 'abs': 'Rabs', 'sin': 'sin', 'cos': 'cos', 'tan': 'tan', 'atan': 'atan',
         'asin': 'asin', 'acos': 'acos', 'exp': 'exp', 'ln': 'ln', 'atan2': 'atan2',
         'max': 'Rmax', 'min': 'Rmin', 'sgn': 'Rsgn', 'cbrt': 'Rcbrt', 'rpow': 'Rpower',
         'fmod': 'Rfmod'}


def flatten(out):
    """value returned by a traced call -> (flat list of S, shape descriptor)"""
    flat, shape = [], []

    def rec(o):
        if isinstance(o, S):
            flat.append(o); return 's'
        if isinstance(o, B):
            raise Unsupported("boolean output")
        if isinstance(o, (bool, _np.bool_)):
            flat.append(S.const(int(o))); return 'b'
        if isinstance(o, (int, float, _np.integer, _np.floating)):
            flat.append(S.const(o)); return 's'
        if isinstance(o, _np.ndarray):
            a = _np.asarray(o)
            for v in a.reshape(-1):
                rec(v)
            return list(a.shape)
        if isinstance(o, (tuple, list)):
            return [rec(x) for x in o]
        if o is None:
            return None
        raise Unsupported(f"output of type {type(o).__name__}")
    shape = rec(out)
    return flat, shape


def _ident(name):
    n = re.sub(r'[^A-Za-z0-9_]', '_', name)
    if not re.match(r'[A-Za-z_]', n):
        n = 'v_' + n
    return n


class Printer:
    def __init__(self, mode):
        self.mode = mode            # 'R' | 'F'
        self.names = {}             # uid -> let-bound name
        self.oracles = []           # list of S nodes that are oracle parameters (F mode)
        self.oracle_names = {}

    def const(self, q: Fraction):
        if self.mode == 'R':
            if q.denominator == 1:
                return str(q.numerator) if q >= 0 else f"(- {-q.numerator})"
            n, d = q.numerator, q.denominator
            return f"({n} / {d})" if n >= 0 else f"(- {-n} / {d})"
        x = float(q)
        return _hexf(x)

    def expr(self, e: S):
        n = self.names.get(e.uid)
        if n is not None:
            return n
        return self.expr_raw(e)

    def expr_raw(self, e: S):
        op, a = e.op, e.args
        R = self.mode == 'R'
        if op == 'const':
            return self.const(a[0])
        if op == 'var':
            return _ident(a[0])
        if op == 'pi':
            return 'PI' if R else _hexf(math.pi)
        if op in ('add', 'sub', 'mul', 'div'):
            s = {'add': '+', 'sub': '-', 'mul': '*', 'div': '/'}[op]
            return f"({self.expr(a[0])} {s} {self.expr(a[1])})"
        if op == 'neg':
            return f"(- {self.expr(a[0])})"
        if op == 'pow':
            if R:
                return f"({self.expr(a[0])} ^ {a[1]})"
            x = self.expr(a[0])
            return '(' + ' * '.join([x] * a[1]) + ')'
        if op == 'fn':
            name, args = a[0], a[1:]
            if R:
                return f"({_R_FN[name]} {' '.join(self.expr(x) for x in args)})"
            if name in _F_NATIVE:
                f = {'sqrt': 'PrimFloat.sqrt', 'abs': 'PrimFloat.abs', 'max': 'fmax', 'min': 'fmin',
                     'sgn': 'fsgn'}[name]
                return f"({f} {' '.join(self.expr(x) for x in args)})"
            k = self.oracle_names.get(e.uid)
            if k is None:
                k = f"o{len(self.oracles)}_"
                self.oracle_names[e.uid] = k
                self.oracles.append(e)
            return k
        raise Unsupported(f"cannot print {op}")

    def cond(self, b: B):
        x, y = self.expr(b.args[0]), self.expr(b.args[1])
        if self.mode == 'R':
            f = {'lt': 'Rlt_dec', 'le': 'Rle_dec', 'eq': 'Req_EM_T'}[b.op]
        else:
            f = {'lt': 'PrimFloat.ltb', 'le': 'PrimFloat.leb', 'eq': 'PrimFloat.eqb'}[b.op]
        return f"{f} {x} {y}"


def _hexf(x: float):
    if x != x or x in (math.inf, -math.inf):
        raise Unsupported("non-finite float constant")
    if x == 0:
        return '0%float' if math.copysign(1, x) > 0 else '(-0)%float'
    h = float.hex(abs(x))          # 0x1.8p-1
    return f"({h})%float" if x > 0 else f"(- {h})%float"


def _deps(e: S, acc, order):
    if e.uid in acc:
        acc[e.uid][1] += 1
        return
    acc[e.uid] = [e, 1]
    for a in e.args:
        if isinstance(a, S):
            _deps(a, acc, order)
    order.append(e)


def _collect(tree, acc, order):
    if isinstance(tree, Leaf):
        if tree.kind == 'val':
            for e in tree.flat:
                _deps(e, acc, order)
        return
    for x in tree.cond.args:
        _deps(x, acc, order)
    _collect(tree.t, acc, order)
    _collect(tree.f, acc, order)


def prepare(tree):
    """attach .flat / .shape to the leaves"""
    shapes = []

    def rec(t):
        if isinstance(t, Leaf):
            if t.kind == 'val':
                t.flat, t.shape = flatten(t.payload)
                shapes.append(t.shape)
            return
        rec(t.t); rec(t.f)
    rec(tree)
    return shapes


def variables(tree):
    acc, order = {}, []
    _collect(tree, acc, order)
    return sorted({e.args[0] for e in order if e.op == 'var'})


def _needed(exprs, bound, shared):
    """shared nodes (in dependency order) that `exprs` need and that are not bound yet"""
    out, seen = [], set()

    def rec(e):
        if e.uid in seen or e.uid in bound:
            return
        seen.add(e.uid)
        for a in e.args:
            if isinstance(a, S):
                rec(a)
        if e.uid in shared:
            out.append(e)
    for e in exprs:
        rec(e)
    return out


def emit_def(name, tree, inputs, mode, small=6):
    """Gallina definition text for one target.  Returns (text, printer)."""
    acc, order = {}, []
    _collect(tree, acc, order)
    # a node is let-bound when used more than once and not a leaf
    shared = {u for u, (e, c) in acc.items() if c > 1 and e.op not in ('const', 'var', 'pi')}
    P = Printer(mode)
    ty = 'R' if mode == 'R' else 'float'
    counter = [0]

    def lets(exprs, bound, ind):
        txt = ''
        for e in _needed(exprs, bound, shared):
            counter[0] += 1
            nm = f"t{counter[0]}_"
            rhs = P.expr_raw(e)
            P.names[e.uid] = nm
            bound.add(e.uid)
            txt += f"{ind}let {nm} := {rhs} in\n"
        return txt

    def rec(t, bound, ind):
        if isinstance(t, Leaf):
            if t.kind == 'raise':
                k = t.payload if t.payload in EXN else 'OtherError'
                msg = getattr(t, 'message', '').replace('*)', '* )').replace('(*', '( *')[:100]
                return f"{ind}Raise {k} (* {msg} *)\n"
            b2 = set(bound)
            saved = dict(P.names)
            txt = lets(t.flat, b2, ind)
            txt += f"{ind}Val [" + '; '.join(P.expr(e) for e in t.flat) + "]\n"
            P.names = saved
            return txt
        b2 = set(bound)
        saved = dict(P.names)
        txt = lets(list(t.cond.args), b2, ind)
        txt += f"{ind}if {P.cond(t.cond)} then\n" + rec(t.t, b2, ind + '  ')
        txt += f"{ind}else\n" + rec(t.f, b2, ind + '  ')
        P.names = saved
        return txt

    body = rec(tree, set(), '  ')
    args = ' '.join(_ident(v) for v in inputs)
    if mode == 'F' and P.oracles:
        args += ' ' + ' '.join(P.oracle_names[e.uid] for e in P.oracles)
    sig = f"({args} : {ty})" if args.strip() else ''
    text = f"Definition {name}_{mode} {sig} : outcome {ty} :=\n{body}."
    return text, P


# ------------------------------------------------------------------------------------------
# float evaluation of the DAG in Python (supplies oracle values; also used by search)
# ------------------------------------------------------------------------------------------
def evalf(e: S, env: dict, memo: dict):
    r = memo.get(e.uid)
    if r is not None:
        return r
    op, a = e.op, e.args
    if op == 'const':
        r = _np.float64(float(a[0]))
    elif op == 'var':
        r = _np.float64(env[a[0]])
    elif op == 'pi':
        r = _np.float64(math.pi)
    elif op == 'neg':
        r = -evalf(a[0], env, memo)
    elif op in ('add', 'sub', 'mul', 'div'):
        x, y = evalf(a[0], env, memo), evalf(a[1], env, memo)
        with _np.errstate(all='ignore'):
            r = x + y if op == 'add' else x - y if op == 'sub' else x * y if op == 'mul' else x / y
    elif op == 'pow':
        x = evalf(a[0], env, memo)
        r = x
        for _ in range(a[1] - 1):
            r = r * x
    elif op == 'fn':
        name = a[0]
        xs = [evalf(x, env, memo) for x in a[1:]]
        with _np.errstate(all='ignore'):
            r = _PYFN[name](*xs)
        r = _np.float64(r)
    else:
        raise Unsupported(op)
    memo[e.uid] = r
    return r


_PYFN = {'sqrt': _np.sqrt, 'abs': _np.abs, 'sin': _np.sin, 'cos': _np.cos, 'tan': _np.tan,
         'atan': _np.arctan, 'asin': _np.arcsin, 'acos': _np.arccos, 'exp': _np.exp, 'ln': _np.log,
         'atan2': _np.arctan2, 'max': _np.maximum, 'min': _np.minimum, 'sgn': _np.sign,
         'cbrt': _np.cbrt, 'rpow': _np.power, 'fmod': lambda x, y: _np.mod(x, y)}


def evalb(b: B, env, memo):
    x, y = evalf(b.args[0], env, memo), evalf(b.args[1], env, memo)
    return bool(x < y) if b.op == 'lt' else bool(x <= y) if b.op == 'le' else bool(x == y)


LAST_MARGIN = [float('inf')]


def run_tree(tree, env):
    """follow the decision tree on concrete floats -> ('val', [floats]) | ('raise', kind).
    LAST_MARGIN[0] receives the smallest non-zero |lhs - rhs| over the decisions taken (how close the
    case is to a branch boundary, where binary64 evaluation order can legitimately flip the branch)."""
    memo = {}
    t = tree
    path = ''
    LAST_MARGIN[0] = float('inf')
    while isinstance(t, Node):
        c = evalb(t.cond, env, memo)
        try:
            d = abs(float(evalf(t.cond.args[0], env, memo)) - float(evalf(t.cond.args[1], env, memo)))
            if 0.0 < d < LAST_MARGIN[0]:
                LAST_MARGIN[0] = d
        except Exception:
            pass
        path += 'T' if c else 'F'
        t = t.t if c else t.f
    if t.kind == 'raise':
        return ('raise', t.payload, path, memo)
    return ('val', [float(evalf(e, env, memo)) for e in t.flat], path, memo)


def tree_hash(text: str):
    return hashlib.sha256(text.encode()).hexdigest()[:16]
