"""pysym core: symbolic real scalars (hash-consed DAG), symbolic booleans that fork the
path explorer when Python asks for their truth value, and the path explorer itself.

The translator works by *running the real code of /repo* (loaded as a private copy of the
package whose `numpy` is the proxy in symnp.py) on symbolic scalars.  Every arithmetic
operation the code performs is recorded as a DAG node; every data-dependent decision
(`if`, `max`, `argmax`, `and`/`or`, `np.isclose`, ...) calls `B.__bool__`, which consults the
explorer: the function is re-run once per feasible decision sequence and the runs are
merged into a decision tree.  Anything the code does that cannot be expressed (float(),
int(), hashing a symbol, LAPACK on symbols, ...) raises and the target fails closed.
"""
from __future__ import annotations
import fractions, math, numbers
import numpy as _np

Fraction = fractions.Fraction


class Unsupported(Exception):
    """The traced code did something the translator does not model (fail closed)."""


class Pruned(Exception):
    """A target's `prune(atom, value)` predicate declined to explore the decision just taken; the path ends in a
    `Raise OtherError` leaf of the model (explicitly unmodelled, never silently merged with another path)."""


# ------------------------------------------------------------------------------------------
# scalars
# ------------------------------------------------------------------------------------------
_TABLE = {}
_COUNTER = [0]


def reset_table():
    """Forget all nodes (uids keep growing so stale objects can never collide)."""
    _TABLE.clear()
    B._tab.clear()
    _TABLE[('pi',)] = PI


def _snap(x: float) -> Fraction:
    """The real number a float literal stands for: the small rational / short decimal
    that rounds to it (0.1 -> 1/10, 0.3333333333333333 -> 1/3), else its exact value."""
    if x != x or x in (math.inf, -math.inf):
        raise Unsupported(f"non-finite constant {x!r}")
    if x == int(x) and abs(x) < 2**53:
        return Fraction(int(x))
    f = Fraction(x)
    c = f.limit_denominator(100000)
    if float(c) == x:
        return c
    d = Fraction(repr(x))
    if float(d) == x:
        return d
    return f


def _pi_multiple(x):
    """floats that are k/n*pi or k/n/pi (DEG2RAD, RAD2DEG, pi/2, 2*pi ...) denote those reals."""
    if x == 0 or abs(x) < 1e-6 or abs(x) > 1e6:
        return None
    for num in (True, False):
        r = Fraction(x / math.pi if num else x * math.pi).limit_denominator(3600)
        if r == 0 or r.denominator == 1 and not num and abs(r) < 2:
            continue
        back = float(r) * math.pi if num else float(r) / math.pi
        if abs(back - x) <= 2 * math.ulp(x):
            if num:
                return PI if r == 1 else S('mul', S('const', r), PI)
            return S('div', S('const', r), PI)
    return None


class S:
    """Symbolic real scalar."""
    __slots__ = ('op', 'args', 'uid', '__weakref__')

    def __new__(cls, op, *args):
        key = (op,) + tuple(a.uid if isinstance(a, S) else a for a in args)
        o = _TABLE.get(key)
        if o is None:
            o = object.__new__(cls)
            o.op = op
            o.args = args
            _COUNTER[0] += 1
            o.uid = _COUNTER[0]
            _TABLE[key] = o
        return o

    # -- construction helpers
    @staticmethod
    def const(v):
        if isinstance(v, S):
            return v
        if isinstance(v, bool):
            v = int(v)
        if isinstance(v, (int, _np.integer)):
            return S('const', Fraction(int(v)))
        if isinstance(v, Fraction):
            return S('const', v)
        if isinstance(v, (float, _np.floating)):
            v = float(v)
            m = _pi_multiple(v)
            if m is not None:
                return m
            return S('const', _snap(v))
        if isinstance(v, _np.ndarray) and v.ndim == 0:
            return S.const(v.item())
        raise Unsupported(f"cannot lift {type(v).__name__} to a symbolic scalar")

    @staticmethod
    def var(name):
        return S('var', name)

    @property
    def is_const(self):
        return self.op == 'const'

    @property
    def value(self):
        return self.args[0]

    def __hash__(self):
        return self.uid

    def __repr__(self):
        if self.op == 'const':
            return str(self.args[0])
        if self.op == 'var':
            return self.args[0]
        return f"{self.op}({', '.join(map(repr, self.args))})"

    # -- python protocol that must fail closed
    def __float__(self):
        if self.is_const:
            return float(self.value)
        raise Unsupported("float() of a symbolic value")

    def __int__(self):
        if self.is_const and self.value.denominator == 1:
            return int(self.value)
        raise Unsupported("int() of a symbolic value")

    __index__ = __int__

    def __bool__(self):
        # truthiness of a number: x != 0
        return bool(self != 0)

    # -- arithmetic
    def __add__(self, o): return _bin('add', self, o)
    def __radd__(self, o): return _bin('add', o, self)
    def __sub__(self, o): return _bin('sub', self, o)
    def __rsub__(self, o): return _bin('sub', o, self)
    def __mul__(self, o): return _bin('mul', self, o)
    def __rmul__(self, o): return _bin('mul', o, self)
    def __truediv__(self, o): return _bin('div', self, o)
    def __rtruediv__(self, o): return _bin('div', o, self)
    def __neg__(self): return neg(self)
    def __pos__(self): return self
    def __abs__(self): return fn('abs', self)
    def __pow__(self, o): return power(self, o)
    def __rpow__(self, o): return power(o, self)

    def __mod__(self, o):
        return fn('fmod', self, S.const(o) if not isinstance(o, S) else o)

    # -- numpy ufunc protocol on object arrays looks methods up by name
    def sqrt(self): return fn('sqrt', self)
    def sin(self): return fn('sin', self)
    def cos(self): return fn('cos', self)
    def tan(self): return fn('tan', self)
    def arctan(self): return fn('atan', self)
    def arcsin(self): return fn('asin', self)
    def arccos(self): return fn('acos', self)
    def exp(self): return fn('exp', self)
    def log(self): return fn('ln', self)
    def cbrt(self): return fn('cbrt', self)
    def arctan2(self, o): return fn('atan2', self, o)
    def conjugate(self): return self
    conj = conjugate
    def sign(self): return fn('sgn', self)
    def copy(self): return self
    def item(self): return self
    @property
    def real(self): return self
    @property
    def imag(self): return S.const(0)
    @property
    def T(self): return self
    ndim = 0
    shape = ()
    size = 1

    # -- comparisons
    def __lt__(self, o): return cmp('lt', self, o)
    def __le__(self, o): return cmp('le', self, o)
    def __gt__(self, o): return cmp('lt', o, self)
    def __ge__(self, o): return cmp('le', o, self)
    def __eq__(self, o): return cmp('eq', self, o)
    def __ne__(self, o): return bnot(cmp('eq', self, o))


def _isnan(x):
    """a concrete float NaN (a NaN row written into an otherwise symbolic array): IEEE semantics below —
    arithmetic and functions propagate it, every ordered comparison and == with it is False"""
    return isinstance(x, (float, _np.floating)) and x != x


def lift(x):
    if isinstance(x, S):
        return x
    if isinstance(x, B):
        raise Unsupported("boolean used as a number")
    if isinstance(x, _np.ndarray) and x.ndim == 0:
        return lift(x.item())
    if isinstance(x, (numbers.Real, _np.integer, _np.floating)):
        return S.const(x)
    if isinstance(x, complex) or isinstance(x, _np.complexfloating):
        raise Unsupported("complex number")
    return None


def _bin(op, a, b):
    if _isnan(a) or _isnan(b):
        return float('nan')
    la, lb = lift(a), lift(b)
    if la is None or lb is None:
        if isinstance(a, (list, tuple)) or isinstance(b, (list, tuple)):
            # a NumPy scalar combined with a Python sequence converts the sequence to an array and broadcasts
            # (`[g, *Chi] / np.linalg.norm(...)`); a symbolic scalar stands for a NumPy scalar
            import operator
            from . import symnp
            f = {'add': operator.add, 'sub': operator.sub, 'mul': operator.mul, 'div': operator.truediv}[op]
            conv = lambda t: symnp.array(t) if isinstance(t, (list, tuple)) else t
            return f(conv(a), conv(b))
        return NotImplemented
    a, b = la, lb
    if a.is_const and b.is_const:
        x, y = a.value, b.value
        if op == 'add': return S.const(x + y)
        if op == 'sub': return S.const(x - y)
        if op == 'mul': return S.const(x * y)
        if op == 'div':
            if y == 0:
                raise ZeroDivisionError("symbolic constant division by zero")
            return S.const(x / y)
    if op == 'add':
        if a.is_const and a.value == 0: return b
        if b.is_const and b.value == 0: return a
    elif op == 'sub':
        if b.is_const and b.value == 0: return a
        if a.is_const and a.value == 0: return neg(b)
        if a is b: return S.const(0)
    elif op == 'mul':
        if a.is_const:
            if a.value == 0: return a
            if a.value == 1: return b
            if a.value == -1: return neg(b)
        if b.is_const:
            if b.value == 0: return b
            if b.value == 1: return a
            if b.value == -1: return neg(a)
    elif op == 'div':
        if b.is_const and b.value == 1: return a
        if a.is_const and a.value == 0: return a
    return S(op, a, b)


def neg(a):
    a = lift(a)
    if a.is_const:
        return S.const(-a.value)
    if a.op == 'neg':
        return a.args[0]
    return S('neg', a)


def power(a, b):
    if _isnan(a) or _isnan(b):
        return float('nan')
    a0, b0 = a, b
    a, b = lift(a), lift(b)
    if a is None or b is None:
        return NotImplemented
    if b.is_const:
        e = b.value
        if e.denominator == 1:
            n = int(e)
            if a.is_const:
                if n >= 0 or a.value != 0:
                    return S.const(a.value ** n)
            if n == 0:
                return S.const(1)
            if n == 1:
                return a
            if n > 0:
                return S('pow', a, n)
            return _bin('div', 1, S('pow', a, -n) if n != -1 else a)
        if e == Fraction(1, 2):
            return fn('sqrt', a)
        if e == Fraction(-1, 2):
            return _bin('div', 1, fn('sqrt', a))
        if e == Fraction(1, 3):
            # numpy's ** (1/3) is defined for non-negative bases only
            return fn('rpow', a, b)
    # general real power a**b = exp(b ln a) (a > 0)
    return fn('rpow', a, b)


_FOLD1 = {
    'sqrt': lambda q: _sqrt_q(q),
    'abs': lambda q: abs(q),
    'sgn': lambda q: Fraction((q > 0) - (q < 0)),
    'sin': lambda q: Fraction(0) if q == 0 else None,
    'cos': lambda q: Fraction(1) if q == 0 else None,
    'tan': lambda q: Fraction(0) if q == 0 else None,
    'atan': lambda q: Fraction(0) if q == 0 else None,
    'asin': lambda q: Fraction(0) if q == 0 else None,
    'acos': lambda q: Fraction(0) if q == 1 else None,
    'exp': lambda q: Fraction(1) if q == 0 else None,
    'ln': lambda q: Fraction(0) if q == 1 else None,
    'cbrt': lambda q: Fraction(0) if q == 0 else (Fraction(1) if q == 1 else None),
}


def _sqrt_q(q):
    if q < 0:
        return None
    n, d = q.numerator, q.denominator
    rn, rd = math.isqrt(n), math.isqrt(d)
    if rn * rn == n and rd * rd == d:
        return Fraction(rn, rd)
    return None


def fn(name, *args):
    if any(_isnan(a) for a in args):
        return float('nan')
    args = tuple(lift(a) for a in args)
    if any(a is None for a in args):
        raise Unsupported(f"{name} of a non-number")
    if len(args) == 1 and args[0].is_const and name in _FOLD1:
        r = _FOLD1[name](args[0].value)
        if r is not None:
            return S.const(r)
    if name in ('max', 'min') and all(a.is_const for a in args):
        return S.const((max if name == 'max' else min)(a.value for a in args))
    if name == 'abs' and args[0].op == 'abs':
        return args[0]
    if name == 'abs' and args[0].op == 'neg':
        return fn('abs', args[0].args[0])
    return S('fn', name, *args)


PI = S('pi')


# ------------------------------------------------------------------------------------------
# booleans
# ------------------------------------------------------------------------------------------
class B:
    """Symbolic truth value.  atoms: ('lt',a,b) ('le',a,b) ('eq',a,b); composites: not/and/or."""
    __slots__ = ('op', 'args', 'uid')
    _tab = {}

    def __new__(cls, op, *args):
        key = (op,) + tuple(a.uid for a in args)
        o = B._tab.get(key)
        if o is None:
            o = object.__new__(cls)
            o.op = op
            o.args = args
            _COUNTER[0] += 1
            o.uid = _COUNTER[0]
            B._tab[key] = o
        return o

    def __hash__(self):
        return self.uid

    def __repr__(self):
        return f"{self.op}({', '.join(map(repr, self.args))})"

    def __bool__(self):
        return decide(self)

    def __invert__(self): return bnot(self)
    def __and__(self, o): return band(self, o)
    __rand__ = __and__
    def __or__(self, o): return bor(self, o)
    __ror__ = __or__
    def __eq__(self, o):
        if isinstance(o, (bool, _np.bool_)):
            return self if o else bnot(self)
        return NotImplemented
    def all(self, *a, **k): return self
    def any(self, *a, **k): return self


def cmp(op, a, b):
    if _isnan(a) or _isnan(b):
        return False
    a, b = lift(a), lift(b)
    if a is None or b is None:
        return NotImplemented
    if a.is_const and b.is_const:
        x, y = a.value, b.value
        return {'lt': x < y, 'le': x <= y, 'eq': x == y}[op]
    if a is b:
        return op != 'lt'
    if op == 'eq' and a.uid > b.uid:
        a, b = b, a
    return B(op, a, b)


def bnot(x):
    if isinstance(x, (bool, _np.bool_)):
        return not x
    if x.op == 'not':
        return x.args[0]
    return B('not', x)


def band(x, y):
    if isinstance(x, (bool, _np.bool_)):
        return y if x else False
    if isinstance(y, (bool, _np.bool_)):
        return x if y else False
    return B('and', x, y)


def bor(x, y):
    if isinstance(x, (bool, _np.bool_)):
        return True if x else y
    if isinstance(y, (bool, _np.bool_)):
        return True if y else x
    return B('or', x, y)


# ------------------------------------------------------------------------------------------
# path exploration
# ------------------------------------------------------------------------------------------
class _Ctx:
    def __init__(self):
        self.active = False
        self.prefix = []     # forced decisions
        self.trace = []      # (atom, value) taken on this run
        self.known = {}      # atom uid -> bool on this run
        self.assume = []     # caller-provided assumptions: list of (atom, bool)
        self.prune = None    # optional predicate (atom, value) -> bool: cut the path after this decision


CTX = _Ctx()


def _implied(atom):
    """Cheap implications from decisions already taken on this path."""
    k = CTX.known
    if atom.uid in k:
        return k[atom.uid]
    a, b = atom.args
    if atom.op == 'lt':
        # a<b is false if b<a or a==b known true or a<=b known false ; true if ...
        for other, val, res in ((B._tab.get(('lt', b.uid, a.uid)), True, False),
                                (B._tab.get(('le', a.uid, b.uid)), False, False),
                                (B._tab.get(('le', b.uid, a.uid)), True, False),
                                (B._tab.get(('le', b.uid, a.uid)), False, True),
                                (_eqatom(a, b), True, False)):
            if other is not None and k.get(other.uid) is val:
                return res
    elif atom.op == 'le':
        for other, val, res in ((B._tab.get(('lt', a.uid, b.uid)), True, True),
                                (B._tab.get(('lt', b.uid, a.uid)), True, False),
                                (B._tab.get(('lt', b.uid, a.uid)), False, True),
                                (_eqatom(a, b), True, True)):
            if other is not None and k.get(other.uid) is val:
                return res
    elif atom.op == 'eq':
        for other, val, res in ((B._tab.get(('lt', a.uid, b.uid)), True, False),
                                (B._tab.get(('lt', b.uid, a.uid)), True, False),
                                (B._tab.get(('le', a.uid, b.uid)), False, False),
                                (B._tab.get(('le', b.uid, a.uid)), False, False)):
            if other is not None and k.get(other.uid) is val:
                return res
    return None


def _eqatom(a, b):
    if a.uid > b.uid:
        a, b = b, a
    return B._tab.get(('eq', a.uid, b.uid))


def decide(b):
    if isinstance(b, (bool, _np.bool_)):
        return bool(b)
    if not CTX.active:
        raise Unsupported("truth value of a symbolic condition outside the explorer")
    if b.op == 'not':
        return not decide(b.args[0])
    if b.op == 'and':
        return decide(b.args[0]) and decide(b.args[1])
    if b.op == 'or':
        return decide(b.args[0]) or decide(b.args[1])
    r = _implied(b)
    if r is not None:
        return r
    i = len(CTX.trace)
    v = CTX.prefix[i] if i < len(CTX.prefix) else True
    CTX.trace.append((b, v))
    CTX.known[b.uid] = v
    if CTX.prune is not None and CTX.prune(b, v):
        raise Pruned(f"path not explored after decision #{len(CTX.trace)} ({b.op}) = {v}")
    return v


class Leaf:
    def __init__(self, kind, payload):
        self.kind = kind          # 'val' | 'raise'
        self.payload = payload    # flat list of S + shape info  |  exception class name


class Node:
    def __init__(self, cond, t, f):
        self.cond, self.t, self.f = cond, t, f


RAISES = (ValueError, TypeError, ZeroDivisionError, IndexError, AttributeError, KeyError,
          _np.linalg.LinAlgError)


def explore(thunk, max_paths=512, assume=(), prune=None):
    """Run `thunk()` under every feasible decision sequence.  Returns a decision tree whose
    leaves are Leaf objects.  `assume` is a list of (B atom, bool) fixed before the run.
    `prune(atom, value)` (optional): when it returns True for a decision just taken, that path is cut and becomes
    a `Raise OtherError` leaf (used for tolerance-terminated loops: the not-yet-converged side is left unmodelled)."""
    paths = []
    work = [[]]
    while work:
        prefix = work.pop()
        CTX.active = True
        CTX.prefix = prefix
        CTX.trace = []
        CTX.known = {a.uid: v for a, v in assume}
        CTX.prune = prune
        try:
            try:
                out = thunk()
                leaf = Leaf('val', out)
            except Unsupported:
                raise
            except Pruned as e:
                leaf = Leaf('raise', 'Unexplored')
                leaf.message = 'pruned: ' + str(e)
            except RAISES as e:
                leaf = Leaf('raise', type(e).__name__)
                leaf.message = str(e)
        finally:
            CTX.active = False
            CTX.prune = None
        trace = list(CTX.trace)
        paths.append((trace, leaf))
        if len(paths) > max_paths:
            raise Unsupported(f"more than {max_paths} paths")
        for k in range(len(prefix), len(trace)):
            work.append([v for _, v in trace[:k]] + [not trace[k][1]])

    def build(ps, depth):
        if len(ps) == 1 and len(ps[0][0]) == depth:
            return ps[0][1]
        cond = ps[0][0][depth][0]
        ts = [p for p in ps if p[0][depth][1]]
        fs = [p for p in ps if not p[0][depth][1]]
        for p in ps:
            assert p[0][depth][0] is cond, "non-deterministic trace"
        return Node(cond, build(ts, depth + 1), build(fs, depth + 1))
    return build(paths, 0), len(paths)
