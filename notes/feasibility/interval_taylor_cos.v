From Coq Require Import Reals.
From Interval Require Import Tactic.
Open Scope R_scope.
Goal forall x, 0 <= x <= 1/2 -> Rabs (cos x - (1 - x*x/2)) - x*x*x*x/24 <= 1e-12.
Proof. intros x Hx. Time interval with (i_taylor x, i_bisect x, i_prec 60). Qed.
Goal forall x, 1/1000 <= x <= 3/4 -> 2.9 <= x * (3*((1 + 1/(x*x))*(1 - atan x / x)) - 1) / (1/2*((1+3/(x*x))*atan x - 3/x)) <= 3.5.
Proof. intros x Hx. Time interval with (i_taylor x, i_bisect x, i_prec 80, i_depth 30). Qed.
