From Coq Require Import Reals.
From Interval Require Import Tactic.
Open Scope R_scope.
Goal forall x, 1/1000 <= x <= 3/4 -> 2.9 <= x * (3*((1 + 1/(x*x))*(1 - atan x / x)) - 1) / (1/2*((1+3/(x*x))*atan x - 3/x)) <= 3.8.
Proof. intros x Hx. Time interval with (i_taylor x, i_bisect x, i_prec 120, i_depth 40). Qed.
