import numpy as np, math, warnings
warnings.simplefilter('ignore')
from ahrs.utils.wmm import WMM
from numpy.polynomial import polynomial as Pn
w=WMM(date=2022.5)
phi=0.7
# run code's recursion
import copy
c0=w.c.copy()
w.load_coefficients(w.wmm_filename); w.c[:]=1.0; w.cd[:]=0  # set coefficients to 1 to read off S
w.denormalize_coefficients(phi)
S_P=np.zeros((13,13)); S_dP=np.zeros((13,13))
# after denormalize: c[m,n] = S[m,n] (since c was 1) ; P[m,n], dP[m,n]
def schmidt(n,m,mu):
    # P_n^m(mu) = (1-mu^2)^{m/2} d^m/dmu^m P_n(mu), no Condon-Shortley
    Pn_coef=np.zeros(n+1); Pn_coef[n]=1
    leg=np.polynomial.legendre.leg2poly(Pn_coef)
    d=Pn.polyder(leg,m) if m>0 else leg
    val=(1-mu**2)**(m/2)*Pn.polyval(mu,d)
    f=math.sqrt((2 if m>0 else 1)*math.factorial(n-m)/math.factorial(n+m))
    return f*val
mu=np.sin(phi); err=0
for n in range(1,13):
    for m in range(n+1):
        code=w.c[m,n]*w.P[m,n]
        spec=schmidt(n,m,mu)
        err=max(err,abs(code-spec)/max(1,abs(spec)))
print('max rel err S*P vs Schmidt', err)
# derivative: d/dphi of spec vs code dP sign
h=1e-6; errd=0; sgn=[]
for n in range(1,13):
    for m in range(n+1):
        d=(schmidt(n,m,np.sin(phi+h))-schmidt(n,m,np.sin(phi-h)))/(2*h)
        code=w.c[m,n]*w.dP[m,n]
        sgn.append(np.sign(d*code)); errd=max(errd,abs(abs(code)-abs(d))/max(1,abs(d)))
print('deriv magnitude err',errd,'signs',set(sgn))
