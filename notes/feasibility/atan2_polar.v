From Coq Require Import Reals Lra Psatz.
Open Scope R_scope.

Definition atan2 (y x : R) : R :=
  if Rlt_dec 0 x then atan (y / x)
  else if Rlt_dec x 0 then (if Rle_dec 0 y then atan (y / x) + PI else atan (y / x) - PI)
  else if Rlt_dec 0 y then PI / 2 else if Rlt_dec y 0 then - (PI / 2) else 0.

Lemma cos_pos_range r : - PI < r <= PI -> 0 < cos r -> - (PI/2) < r < PI/2.
Proof.
  intros [Hl Hu] Hc. split.
  - destruct (Rlt_dec (-(PI/2)) r) as [H|H]; [exact H|]. exfalso. apply Rnot_lt_le in H.
    assert (cos r <= 0).
    { rewrite <- cos_neg. apply cos_le_0; lra. }
    lra.
  - destruct (Rlt_dec r (PI/2)) as [H|H]; [exact H|]. exfalso. apply Rnot_lt_le in H.
    assert (cos r <= 0) by (apply cos_le_0; lra). lra.
Qed.

Lemma atan2_polar k r : 0 < k -> - (PI/2) < r < PI/2 -> atan2 (k * sin r) (k * cos r) = r.
Proof.
  intros Hk Hr. assert (Hc : 0 < cos r) by (apply cos_gt_0; lra).
  unfold atan2. destruct (Rlt_dec 0 (k * cos r)) as [H|H].
  - replace (k * sin r / (k * cos r)) with (tan r) by (unfold tan; field; lra).
    apply atan_tan. lra.
  - exfalso. apply H. apply Rmult_lt_0_compat; assumption.
Qed.
Print Assumptions atan2_polar.
