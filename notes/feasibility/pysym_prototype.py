"""Prototype: symbolic execution of a numpy-flavoured Python function into scalar expression trees."""
import ast, inspect, textwrap, fractions, sys, math

class E:  # scalar expression
    def __init__(s, op, *a): s.op=op; s.a=a
    def __repr__(s): return f"{s.op}({','.join(map(repr,s.a))})"
def C(v): return E('const', fractions.Fraction(v) if not isinstance(v,fractions.Fraction) else v)
def V(n): return E('var', n)
def lift(x):
    if isinstance(x,E): return x
    if isinstance(x,(int,float)): return C(x)
    raise TypeError(x)
class Arr:
    def __init__(s, data): s.data=data  # nested lists of E
    @property
    def shape(s):
        sh=[]; d=s.data
        while isinstance(d,list): sh.append(len(d)); d=d[0]
        return tuple(sh)
class Obj:
    def __init__(s, **kw): s.__dict__.update(kw)
class Fork(Exception): pass

def bin(op,a,b):
    if isinstance(a,Arr) or isinstance(b,Arr):
        da=a.data if isinstance(a,Arr) else None; db=b.data if isinstance(b,Arr) else None
        def rec(x,y):
            if isinstance(x,list) and isinstance(y,list):
                assert len(x)==len(y); return [rec(p,q) for p,q in zip(x,y)]
            if isinstance(x,list): return [rec(p,y) for p in x]
            if isinstance(y,list): return [rec(x,q) for q in y]
            return bin(op,x,y)
        return Arr(rec(da if da is not None else a, db if db is not None else b))
    return E(op, lift(a), lift(b))

class Sym:
    def __init__(s, src_func, env): s.env=dict(env)
    def ev(s, n):
        m=getattr(s,'ev_'+type(n).__name__,None)
        if m is None: raise NotImplementedError(ast.dump(n))
        return m(n)
    def ev_Constant(s,n): return n.value
    def ev_Name(s,n): return s.env[n.id]
    def ev_Attribute(s,n):
        v=s.ev(n.value)
        if isinstance(v,Obj): return getattr(v,n.attr)
        if isinstance(v,Arr) and n.attr=='T':
            d=v.data; return Arr([list(r) for r in zip(*d)])
        if n.attr in ('sqrt','array','zeros','linalg','norm'): return ('np',n.attr)
        raise NotImplementedError(ast.dump(n))
    def ev_UnaryOp(s,n):
        v=s.ev(n.operand)
        if isinstance(n.op,ast.USub):
            if isinstance(v,(int,float)): return -v
            return bin('mul',C(-1),v) if isinstance(v,Arr) else E('neg',lift(v))
        raise NotImplementedError
    def ev_BinOp(s,n):
        a=s.ev(n.left); b=s.ev(n.right)
        if isinstance(a,(int,float)) and isinstance(b,(int,float)):
            return eval(compile(ast.Expression(ast.BinOp(ast.Constant(a),n.op,ast.Constant(b))),'','eval'))
        if isinstance(n.op,ast.Pow):
            assert isinstance(b,int) and b>=0
            r=C(1)
            for _ in range(b): r=bin('mul',r,a) if r.op!='const' or r.a[0]!=1 else a
            return r
        op={ast.Add:'add',ast.Sub:'sub',ast.Mult:'mul',ast.Div:'div'}[type(n.op)]
        return bin(op,a,b)
    def ev_List(s,n): return [s.ev(e) for e in n.elts]
    def ev_Tuple(s,n): return tuple(s.ev(e) for e in n.elts)
    def ev_Subscript(s,n):
        v=s.ev(n.value); i=s.ev(n.slice)
        if isinstance(v,Arr):
            if isinstance(i,tuple):
                d=v.data
                for k in i: d=d[k]
                return d if isinstance(d,E) else Arr(d)
            d=v.data[i]; return d if isinstance(d,E) else Arr(d)
        return v[i]
    def ev_Call(s,n):
        f=n.func
        name=ast.unparse(f)
        args=[s.ev(a) for a in n.args]
        if name=='np.array':
            def conv(x):
                if isinstance(x,Arr): return x.data
                if isinstance(x,(list,tuple)): return [conv(y) for y in x]
                return lift(x)
            return Arr(conv(args[0]))
        if name=='np.sqrt': return E('sqrt',lift(args[0]))
        if name=='np.linalg.norm':
            flat=[]
            def fl(d):
                for x in d:
                    fl(x) if isinstance(x,list) else flat.append(x)
            fl(args[0].data)
            acc=None
            for x in flat:
                t=E('mul',x,x); acc=t if acc is None else E('add',acc,t)
            return E('sqrt',acc)
        if name.endswith('.argmax'):
            u=s.ev(f.value); return ('argmax',u)
        raise NotImplementedError(name)
    def ev_Compare(s,n):
        a=s.ev(n.left); b=s.ev(n.comparators[0])
        if isinstance(a,tuple) and a[0]=='argmax':
            return ('argmax_is',a[1],b)
        return ('cmp',type(n.ops[0]).__name__,a,b)

    def run(s, body):
        for i,st in enumerate(body):
            if isinstance(st,ast.Expr): continue
            if isinstance(st,ast.Assign):
                v=s.ev(st.value); t=st.targets[0]
                if isinstance(t,ast.Name): s.env[t.id]=v
                elif isinstance(t,ast.Tuple):
                    vs=v.data if isinstance(v,Arr) else v
                    for tt,vv in zip(t.elts,vs): s.env[tt.id]=vv if isinstance(vv,E) or not isinstance(vv,list) else Arr(vv)
                else: raise NotImplementedError(ast.dump(t))
            elif isinstance(st,ast.AugAssign):
                op={ast.Add:'add',ast.Sub:'sub',ast.Mult:'mul',ast.Div:'div'}[type(st.op)]
                s.env[st.target.id]=bin(op,s.env[st.target.id],s.ev(st.value))
            elif isinstance(st,ast.Return):
                return ('ret',s.ev(st.value))
            elif isinstance(st,ast.If):
                c=s.ev(st.test)
                s1=Sym(None,s.env); r1=s1.run(st.body+body[i+1:])
                s2=Sym(None,s.env); r2=s2.run(st.orelse+body[i+1:])
                return ('ite',c,r1,r2)
            else: raise NotImplementedError(ast.dump(st))

def coq(e, float_=False):
    if e.op=='const':
        q=e.a[0]
        if float_: return f"({float(q)!r})" if float(q)>=0 else f"({float(q)!r})"
        return f"({q.numerator}/{q.denominator})" if q.denominator!=1 else (f"{q.numerator}" if q>=0 else f"({q.numerator})")
    if e.op=='var': return e.a[0]
    if e.op=='neg': return f"(- {coq(e.a[0],float_)})"
    if e.op=='sqrt': return f"(sqrt {coq(e.a[0],float_)})"
    sym={'add':'+','sub':'-','mul':'*','div':'/'}[e.op]
    return f"({coq(e.a[0],float_)} {sym} {coq(e.a[1],float_)})"

def get_func(path, qual):
    tree=ast.parse(open(path).read())
    parts=qual.split('.'); body=tree.body
    for p in parts:
        for n in body:
            if isinstance(n,(ast.ClassDef,ast.FunctionDef)) and n.name==p:
                node=n; body=n.body; break
        else: raise KeyError(qual)
    return node

if __name__=='__main__':
    f=get_func('/repo/ahrs/common/quaternion.py','Quaternion.to_DCM')
    me=Obj(w=V('w'),x=V('x'),y=V('y'),z=V('z'))
    r=Sym(None,{'self':me,'np':None}).run(f.body)
    M=r[1].data
    for i in range(3):
        for j in range(3):
            print(f"Definition Quaternion_to_DCM_{i}{j} (w x y z : R) : R := {coq(M[i][j])}.")
    f=get_func('/repo/ahrs/common/orientation.py','shepperd')
    names=[f"r{i}{j}" for i in (1,2,3) for j in (1,2,3)]
    dcm=Arr([[V(f"r{i}{j}") for j in (1,2,3)] for i in (1,2,3)])
    r=Sym(None,{'dcm':dcm,'np':None}).run(f.body)
    def show(r,ind=0):
        if r[0]=='ret':
            print(' '*ind+'RET', [coq(x) for x in r[1].data][:2],'...')
        else:
            c=r[1]; print(' '*ind+'IF', c[0], c[2] if c[0]=='argmax_is' else ''); show(r[2],ind+2); print(' '*ind+'ELSE'); show(r[3],ind+2)
    show(r)
