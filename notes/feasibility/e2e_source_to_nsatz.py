import sys; sys.argv=['x']
exec(open('pysym.py').read().split("if __name__=='__main__':")[0])
f=get_func('/repo/ahrs/common/quaternion.py','Quaternion.to_DCM')
me=Obj(w=V('w'),x=V('x'),y=V('y'),z=V('z'))
M=Sym(None,{'self':me,'np':None}).run(f.body)[1].data
f=get_func('/repo/ahrs/common/quaternion.py','Quaternion.product')
me=Obj(w=V('a'),x=V('b'),y=V('c'),z=V('d'))
class S2(Sym):
    def ev_Call(s,n):
        if ast.unparse(n.func)=='_assert_numerical_iterable': return None
        return Sym.ev_Call(s,n)
P=S2(None,{'self':me,'np':None,'q':Arr([V('w'),V('x'),V('y'),V('z')])}).run(f.body)[1].data
out=["From Coq Require Import Reals Nsatz.","Open Scope R_scope."]
for i in range(3):
    for j in range(3):
        out.append(f"Definition dcm{i}{j} (w x y z : R) : R := {coq(M[i][j])}.")
for k,nm in enumerate('wxyz'):
    out.append(f"Definition prod_{nm} (a b c d w x y z : R) : R := {coq(P[k])}.")
out.append("""Lemma hom00 : forall a b c d w x y z, a*a+b*b+c*c+d*d = 1 -> w*w+x*x+y*y+z*z = 1 ->
  dcm00 (prod_w a b c d w x y z) (prod_x a b c d w x y z) (prod_y a b c d w x y z) (prod_z a b c d w x y z)
  = dcm00 a b c d * dcm00 w x y z + dcm01 a b c d * dcm10 w x y z + dcm02 a b c d * dcm20 w x y z.
Proof. intros a b c d w x y z H1 H2. unfold dcm00,dcm01,dcm02,dcm10,dcm20,prod_w,prod_x,prod_y,prod_z. nsatz. Qed.""")
open('/tmp/proto/Gen.v','w').write('\n'.join(out)+'\n')
