From Coq Require Import List. From Coq Require Import Uint63. From Coq Require Import PrimFloat.
Import ListNotations.
Open Scope float_scope. Notation sqrt := PrimFloat.sqrt.
Definition dcm00 (w x y z : float) := 1 - 2*(y*y + z*z).
Definition nrm (w x y z : float) := sqrt (w*w + x*x + y*y + z*z).
Eval vm_compute in dcm00 0x1.8p-1 0x1.0p-2 0x1.4p-3 (-0x1.cp-4).
Eval vm_compute in map (fun t => let '(w,x,y,z) := t in (dcm00 w x y z, nrm w x y z)) [(0.5,0.5,0.5,0.5); (0.1,0.2,0.3,0.4)].
