(* Prototype: effect language, may-mutate analysis, soundness. No reals, no axioms. *)
From Coq Require Import List Arith Bool Lia.
Import ListNotations.

Definition var := nat.
Definition cellid := nat.

Inductive prog :=
| Skip
| Fresh (x : var)                 (* x := new array (copy, arithmetic, constructor) *)
| Alias (x : var) (ys : list var) (* x := view/alias of one of ys *)
| InPlace (x : var)               (* x op= ... ; x[...] = ... *)
| Seq (p q : prog)
| If (p q : prog)
| Loop (p : prog).

(* concrete state: env var -> option cell ; heap cell -> version ; next fresh id *)
Record st := { env : var -> option cellid; ver : cellid -> nat; nxt : cellid }.

Definition upd {A} (f : nat -> A) (k : nat) (v : A) : nat -> A := fun j => if Nat.eqb j k then v else f j.

Inductive exec : prog -> st -> st -> Prop :=
| ESkip s : exec Skip s s
| EFresh x s : exec (Fresh x) s {| env := upd (env s) x (Some (nxt s)); ver := ver s; nxt := S (nxt s) |}
| EAlias x ys y s : In y ys -> exec (Alias x ys) s {| env := upd (env s) x (env s y); ver := ver s; nxt := nxt s |}
| EInPlaceSome x c s : env s x = Some c -> exec (InPlace x) s {| env := env s; ver := upd (ver s) c (S (ver s c)); nxt := nxt s |}
| EInPlaceNone x s : env s x = None -> exec (InPlace x) s s
| ESeq p q s1 s2 s3 : exec p s1 s2 -> exec q s2 s3 -> exec (Seq p q) s1 s3
| EIfL p q s1 s2 : exec p s1 s2 -> exec (If p q) s1 s2
| EIfR p q s1 s2 : exec q s1 s2 -> exec (If p q) s1 s2
| ELoop0 p s : exec (Loop p) s s
| ELoopS p s1 s2 s3 : exec p s1 s2 -> exec (Loop p) s2 s3 -> exec (Loop p) s1 s3.

(* abstract state: set of variables that may point to a protected (caller) cell; flag: a protected cell may have been mutated *)
Definition aset := list var.
Definition mem (x : var) (a : aset) := existsb (Nat.eqb x) a.
Definition remove (x : var) (a : aset) := filter (fun y => negb (Nat.eqb x y)) a.
Definition union (a b : aset) := a ++ b.

Fixpoint vars (p : prog) : list var :=
  match p with
  | Skip => [] | Fresh x => [x] | Alias x ys => x :: ys | InPlace x => [x]
  | Seq p q | If p q => vars p ++ vars q | Loop p => vars p end.

(* analysis returns (tainted vars after, bad?) *)
Fixpoint ana (p : prog) (a : aset) : aset * bool :=
  match p with
  | Skip => (a, false)
  | Fresh x => (remove x a, false)
  | Alias x ys => (if existsb (fun y => mem y a) ys then x :: a else remove x a, false)
  | InPlace x => (a, mem x a)
  | Seq p q => let '(a1, b1) := ana p a in let '(a2, b2) := ana q a1 in (a2, b1 || b2)
  | If p q => let '(a1, b1) := ana p a in let '(a2, b2) := ana q a in (union a1 a2, b1 || b2)
  | Loop p => (* sound over-approximation: everything the body mentions becomes tainted if anything is *)
      let a' := if match a with [] => false | _ => true end then union a (vars p) else a in
      let '(_, b) := ana p a' in (a', b)
  end.

Definition protected (P : cellid -> bool) (s : st) (a : aset) :=
  forall x c, env s x = Some c -> P c = true -> mem x a = true.

Definition unchanged (P : cellid -> bool) (s s' : st) := forall c, P c = true -> ver s' c = ver s c.

Lemma mem_In x a : mem x a = true <-> In x a.
Proof. unfold mem. rewrite existsb_exists. split.
  - intros [y [Hy E]]. apply Nat.eqb_eq in E. subst. exact Hy.
  - intros H. exists x. split; [exact H | apply Nat.eqb_refl]. Qed.
Lemma mem_union x a b : mem x (union a b) = mem x a || mem x b.
Proof. unfold mem, union. apply existsb_app. Qed.
Lemma mem_remove x y a : mem x (remove y a) = negb (Nat.eqb y x) && mem x a.
Proof. unfold remove. induction a as [|z a IH]; simpl.
  - now rewrite andb_false_r.
  - destruct (Nat.eqb y z) eqn:E; simpl.
    + rewrite IH. apply Nat.eqb_eq in E. subst z. destruct (Nat.eqb x y) eqn:E2; simpl.
      * apply Nat.eqb_eq in E2. subst. rewrite Nat.eqb_refl. reflexivity.
      * reflexivity.
    + rewrite IH. destruct (Nat.eqb x z) eqn:E2; simpl.
      * apply Nat.eqb_eq in E2. subst. rewrite E. reflexivity.
      * reflexivity. Qed.

Definition subset (a b : aset) := forall x, mem x a = true -> mem x b = true.

Lemma protected_mono P s a b : subset a b -> protected P s a -> protected P s b.
Proof. intros H Hp x c E Pc. apply H. eapply Hp; eauto. Qed.

(* output taint is within input taint plus program variables; empty stays empty *)
Lemma ana_bound p : forall a, subset (fst (ana p a)) (union a (vars p)).
Proof.
  induction p as [|x|x ys|x|p IHp q IHq|p IHp q IHq|p IHp]; intros a z Hz; simpl in *.
  - rewrite mem_union, Hz. reflexivity.
  - rewrite mem_remove in Hz. apply andb_prop in Hz as [_ Hz]. rewrite mem_union, Hz. reflexivity.
  - destruct (existsb _ ys).
    + simpl in Hz. rewrite mem_union. simpl. apply orb_prop in Hz as [Hz|Hz].
      * rewrite Hz. now rewrite orb_true_r.
      * unfold mem in Hz. fold (mem z a) in Hz. rewrite Hz. reflexivity.
    + rewrite mem_remove in Hz. apply andb_prop in Hz as [_ Hz]. rewrite mem_union, Hz. reflexivity.
  - rewrite mem_union, Hz. reflexivity.
  - destruct (ana p a) as [a1 b1] eqn:E1. destruct (ana q a1) as [a2 b2] eqn:E2. simpl in Hz.
    specialize (IHq a1 z). rewrite E2 in IHq. specialize (IHq Hz).
    rewrite mem_union in IHq. unfold vars; fold vars. rewrite mem_union, mem_union.
    apply orb_prop in IHq as [H|H].
    + specialize (IHp a z). rewrite E1 in IHp. specialize (IHp H). rewrite mem_union in IHp.
      apply orb_prop in IHp as [H'|H']; rewrite H'; now rewrite ?orb_true_r.
    + rewrite H. now rewrite ?orb_true_r.
  - destruct (ana p a) as [a1 b1] eqn:E1. destruct (ana q a) as [a2 b2] eqn:E2. simpl in Hz.
    rewrite mem_union in Hz. rewrite mem_union, mem_union.
    apply orb_prop in Hz as [H|H].
    + specialize (IHp a z). rewrite E1 in IHp. specialize (IHp H). rewrite mem_union in IHp.
      apply orb_prop in IHp as [H'|H']; rewrite H'; now rewrite ?orb_true_r.
    + specialize (IHq a z). rewrite E2 in IHq. specialize (IHq H). rewrite mem_union in IHq.
      apply orb_prop in IHq as [H'|H']; rewrite H'; now rewrite ?orb_true_r.
  - destruct a as [|a0 a]; simpl in *.
    + destruct (ana p []) eqn:E. simpl in Hz. discriminate.
    + destruct (ana p _) eqn:E. simpl in Hz. exact Hz.
Qed.

Definition bounded (P : cellid -> bool) (s : st) := forall c, P c = true -> c < nxt s.

Lemma upd_same {A} (f : nat -> A) k v : upd f k v k = v.
Proof. unfold upd. now rewrite Nat.eqb_refl. Qed.
Lemma upd_other {A} (f : nat -> A) k v j : j <> k -> upd f k v j = f j.
Proof. unfold upd. intros H. apply Nat.eqb_neq in H. now rewrite H. Qed.

Definition good P s (a : aset) s' a' := protected P s' a' /\ unchanged P s s' /\ bounded P s'.

Lemma unchanged_refl P s : unchanged P s s. Proof. intros c _. reflexivity. Qed.
Lemma unchanged_trans P s1 s2 s3 : unchanged P s1 s2 -> unchanged P s2 s3 -> unchanged P s1 s3.
Proof. intros H1 H2 c Pc. rewrite H2, H1; auto. Qed.

Lemma no_taint_stays p : forall a, (forall x, mem x a = false) -> forall x, mem x (fst (ana p a)) = false.
Proof.
  induction p as [|y|y ys|y|p IHp q IHq|p IHp q IHq|p IHp]; intros a Ha x; simpl.
  - apply Ha.
  - rewrite mem_remove, Ha. apply andb_false_r.
  - assert (E: existsb (fun y0 => mem y0 a) ys = false).
    { apply not_true_is_false. intros H. apply existsb_exists in H as [z [_ Hz]]. rewrite Ha in Hz. discriminate. }
    rewrite E. rewrite mem_remove, Ha. apply andb_false_r.
  - apply Ha.
  - destruct (ana p a) as [a1 b1] eqn:E1. destruct (ana q a1) as [a2 b2] eqn:E2. simpl.
    specialize (IHq a1). rewrite E2 in IHq. apply IHq. intros z. specialize (IHp a Ha z). now rewrite E1 in IHp.
  - destruct (ana p a) as [a1 b1] eqn:E1. destruct (ana q a) as [a2 b2] eqn:E2. simpl.
    rewrite mem_union. specialize (IHp a Ha x). specialize (IHq a Ha x). rewrite E1 in IHp. rewrite E2 in IHq.
    simpl in *. now rewrite IHp, IHq.
  - destruct a as [|a0 a].
    + destruct (ana p []) eqn:E. simpl. reflexivity.
    + specialize (Ha a0). unfold mem in Ha. simpl in Ha. rewrite Nat.eqb_refl in Ha. discriminate.
Qed.

Theorem ana_sound P p : forall a a' s s',
  ana p a = (a', false) -> exec p s s' -> protected P s a -> bounded P s -> good P s a s' a'.
Proof.
  induction p as [|x|x ys|x|p IHp q IHq|p IHp q IHq|p IHp]; intros a a' s s' Ha Hex Hp Hb.
  - inversion Hex; subst. simpl in Ha. inversion Ha; subst. unfold good; (split; [|split]); auto using unchanged_refl.
  - inversion Hex; subst. simpl in Ha. inversion Ha; subst. unfold good; (split; [|split]); simpl.
    + intros y c E Pc. simpl in E. rewrite mem_remove. destruct (Nat.eq_dec y x) as [->|N].
      * rewrite upd_same in E. inversion E; subst. specialize (Hb _ Pc). lia.
      * rewrite upd_other in E by exact N. apply Nat.eqb_neq in N. rewrite Nat.eqb_sym, N. simpl. eapply Hp; eauto.
    + intros c _. reflexivity.
    + intros c Pc. specialize (Hb _ Pc). simpl. lia.
  - inversion Hex; subst. simpl in Ha.
    destruct (existsb (fun y0 => mem y0 a) ys) eqn:E; inversion Ha; subst; unfold good; (split; [|split]); simpl.
    + intros z c Ez Pc. simpl in Ez. destruct (Nat.eq_dec z x) as [->|N].
      * unfold mem. simpl. now rewrite Nat.eqb_refl.
      * rewrite upd_other in Ez by exact N. unfold mem. simpl. fold (mem z a). erewrite Hp; eauto. apply orb_true_r.
    + intros c0 _; reflexivity.
    + intros c0 Pc0; simpl; auto.
    + intros z c Ez Pc. simpl in Ez. rewrite mem_remove. destruct (Nat.eq_dec z x) as [->|N].
      * rewrite upd_same in Ez. exfalso.
        assert (mem y a = true) by (eapply Hp; eauto).
        assert (existsb (fun y0 => mem y0 a) ys = true) by (apply existsb_exists; eauto).
        congruence.
      * rewrite upd_other in Ez by exact N. apply Nat.eqb_neq in N. rewrite Nat.eqb_sym, N. simpl. eapply Hp; eauto.
    + intros c0 _; reflexivity.
    + intros c0 Pc0; simpl; auto.
  - simpl in Ha. inversion Ha; subst. inversion Hex; subst; unfold good; (split; [|split]); simpl.
    + exact Hp.
    + intros c' Pc'. simpl. destruct (Nat.eq_dec c' c) as [->|N].
      * assert (mem x a' = true) by (eapply Hp; eauto). congruence.
      * now rewrite upd_other.
    + intros c0 Pc0; simpl; auto.
    + exact Hp.
    + intros c0 _; reflexivity.
    + intros c0 Pc0; simpl; auto.
  - simpl in Ha. destruct (ana p a) as [a1 b1] eqn:E1. destruct (ana q a1) as [a2 b2] eqn:E2.
    inversion Ha; subst. apply orb_false_elim in H1 as [-> ->].
    inversion Hex; subst.
    destruct (IHp _ _ _ _ E1 H1 Hp Hb) as (P1 & U1 & B1).
    destruct (IHq _ _ _ _ E2 H4 P1 B1) as (P2 & U2 & B2).
    unfold good; (split; [|split]); auto. eapply unchanged_trans; eauto.
  - simpl in Ha. destruct (ana p a) as [a1 b1] eqn:E1. destruct (ana q a) as [a2 b2] eqn:E2.
    inversion Ha; subst. apply orb_false_elim in H1 as [-> ->].
    inversion Hex; subst.
    + destruct (IHp _ _ _ _ E1 H3 Hp Hb) as (P1 & U1 & B1). unfold good; (split; [|split]); auto.
      eapply protected_mono; [|exact P1]. intros z Hz. rewrite mem_union, Hz. reflexivity.
    + destruct (IHq _ _ _ _ E2 H3 Hp Hb) as (P1 & U1 & B1). unfold good; (split; [|split]); auto.
      eapply protected_mono; [|exact P1]. intros z Hz. rewrite mem_union, Hz. apply orb_true_r.
  - simpl in Ha.
    set (A := if match a with [] => false | _ => true end then union a (vars p) else a) in *.
    destruct (ana p A) as [a1 b1] eqn:E1. inversion Ha; subst a' b1. clear Ha.
    assert (HaA : subset a A).
    { unfold A. destruct a; [intros z Hz; exact Hz|]. intros z Hz. rewrite mem_union, Hz. reflexivity. }
    assert (Hstable : subset a1 A).
    { unfold A in *. destruct a as [|a0 a].
      - intros z Hz. pose proof (no_taint_stays p [] (fun _ => eq_refl) z) as H. rewrite E1 in H. simpl in H. congruence.
      - intros z Hz. pose proof (ana_bound p (union (a0 :: a) (vars p)) z) as H. rewrite E1 in H. specialize (H Hz).
        rewrite !mem_union in *.
        apply orb_prop in H as [H|H]; [exact H | rewrite H; apply orb_true_r].
    }
    assert (Hp' : protected P s A) by (exact (protected_mono P s a A HaA Hp)).
    clear Hp HaA. remember (Loop p) as lp eqn:Elp.
    induction Hex; inversion Elp; subst.
    + unfold good; (split; [|split]); auto using unchanged_refl.
    + destruct (IHp _ _ _ _ E1 Hex1 Hp' Hb) as (P1 & U1 & B1).
      assert (P1' : protected P s2 A) by (eapply protected_mono; eauto).
      destruct (IHHex2 eq_refl B1 P1') as (P2 & U2 & B2).
      unfold good; (split; [|split]); auto. eapply unchanged_trans; eauto.
Qed.
Print Assumptions ana_sound.
