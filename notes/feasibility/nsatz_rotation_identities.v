From Coq Require Import Reals Lra Psatz Nsatz.
Open Scope R_scope.
Definition dcm00 (w x y z : R) := 1 - 2*(y*y + z*z).
Definition dcm01 (w x y z : R) := 2*(x*y - w*z).
Definition dcm02 (w x y z : R) := 2*(x*z + w*y).
Definition dcm10 (w x y z : R) := 2*(x*y + w*z).
Definition dcm11 (w x y z : R) := 1 - 2*(x*x + z*z).
Definition dcm12 (w x y z : R) := 2*(y*z - w*x).
Definition dcm20 (w x y z : R) := 2*(x*z - w*y).
Definition dcm21 (w x y z : R) := 2*(w*x + y*z).
Definition dcm22 (w x y z : R) := 1 - 2*(x*x + y*y).
Definition pw (pw px py pz qw qx qy qz:R) := pw*qw - px*qx - py*qy - pz*qz.
Definition px (pw px py pz qw qx qy qz:R) := pw*qx + px*qw + py*qz - pz*qy.
Definition py (pw px py pz qw qx qy qz:R) := pw*qy - px*qz + py*qw + pz*qx.
Definition pz (pw px py pz qw qx qy qz:R) := pw*qz + px*qy - py*qx + pz*qw.

Lemma hom00 : forall a b c d w x y z,
  a*a+b*b+c*c+d*d = 1 -> w*w+x*x+y*y+z*z = 1 ->
  dcm00 (pw a b c d w x y z) (px a b c d w x y z) (py a b c d w x y z) (pz a b c d w x y z)
  = dcm00 a b c d * dcm00 w x y z + dcm01 a b c d * dcm10 w x y z + dcm02 a b c d * dcm20 w x y z.
Proof.
  intros a b c d w x y z H1 H2. unfold dcm00, dcm01, dcm02, dcm10, dcm20, pw, px, py, pz.
  Time nsatz.
Qed.
Lemma hom01 : forall a b c d w x y z,
  a*a+b*b+c*c+d*d = 1 -> w*w+x*x+y*y+z*z = 1 ->
  dcm01 (pw a b c d w x y z) (px a b c d w x y z) (py a b c d w x y z) (pz a b c d w x y z)
  = dcm00 a b c d * dcm01 w x y z + dcm01 a b c d * dcm11 w x y z + dcm02 a b c d * dcm21 w x y z.
Proof.
  intros a b c d w x y z H1 H2. unfold dcm00, dcm01, dcm02, dcm11, dcm21, pw, px, py, pz.
  Time nsatz.
Qed.
Lemma orth00 : forall w x y z, w*w+x*x+y*y+z*z = 1 ->
  dcm00 w x y z * dcm00 w x y z + dcm01 w x y z * dcm01 w x y z + dcm02 w x y z * dcm02 w x y z = 1.
Proof. intros w x y z H. unfold dcm00, dcm01, dcm02. Time nsatz. Qed.
Lemma det1 : forall w x y z, w*w+x*x+y*y+z*z = 1 ->
  dcm00 w x y z * (dcm11 w x y z * dcm22 w x y z - dcm12 w x y z * dcm21 w x y z)
  - dcm01 w x y z * (dcm10 w x y z * dcm22 w x y z - dcm12 w x y z * dcm20 w x y z)
  + dcm02 w x y z * (dcm10 w x y z * dcm21 w x y z - dcm11 w x y z * dcm20 w x y z) = 1.
Proof. intros w x y z H. unfold dcm00, dcm01, dcm02,dcm10,dcm11,dcm12,dcm20,dcm21,dcm22. Time nsatz. Qed.
Print Assumptions det1.
