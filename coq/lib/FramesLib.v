(* FramesLib.v — real-number facts about atan2 (Base.v's definition), Python's float % on a 2*PI period,
   and the ECEF->ENU rotation matrix.  Independent of generated code; written for property C17. *)
From Coq Require Import Reals List Lra ZArith Lia.
From AhrsLib Require Import Base Rot.
Import ListNotations.
Open Scope R_scope.

(* ---------------------------------------------------------------- periodicity over Z *)
Lemma sin_period_Z x (k : Z) : sin (x + 2 * IZR k * PI) = sin x.
Proof.
  destruct k as [|p|p].
  - replace (x + 2 * 0 * PI) with x by ring. reflexivity.
  - rewrite <- (sin_period x (Pos.to_nat p)). rewrite INR_IZR_INZ, positive_nat_Z. reflexivity.
  - rewrite <- (sin_period (x + 2 * IZR (Z.neg p) * PI) (Pos.to_nat p)).
    f_equal. rewrite INR_IZR_INZ, positive_nat_Z. change (Z.neg p) with (- Z.pos p)%Z. rewrite opp_IZR. ring.
Qed.

Lemma cos_period_Z x (k : Z) : cos (x + 2 * IZR k * PI) = cos x.
Proof.
  destruct k as [|p|p].
  - replace (x + 2 * 0 * PI) with x by ring. reflexivity.
  - rewrite <- (cos_period x (Pos.to_nat p)). rewrite INR_IZR_INZ, positive_nat_Z. reflexivity.
  - rewrite <- (cos_period (x + 2 * IZR (Z.neg p) * PI) (Pos.to_nat p)).
    f_equal. rewrite INR_IZR_INZ, positive_nat_Z. change (Z.neg p) with (- Z.pos p)%Z. rewrite opp_IZR. ring.
Qed.

(* ---------------------------------------------------------------- Rfmod (Python's float %) *)
Lemma Int_part_unique r (k : Z) : IZR k <= r < IZR k + 1 -> Int_part r = k.
Proof.
  intros [H1 H2]. destruct (base_Int_part r) as [B1 B2].
  assert (A : (Int_part r < k + 1)%Z) by (apply lt_IZR; rewrite plus_IZR; simpl; lra).
  assert (B : (k < Int_part r + 1)%Z) by (apply lt_IZR; rewrite plus_IZR; simpl; lra).
  lia.
Qed.

Lemma Rfmod_range x y : 0 < y -> 0 <= Rfmod x y < y.
Proof.
  intros Hy. unfold Rfmod. destruct (base_Int_part (x / y)) as [B1 B2].
  set (k := IZR (Int_part (x / y))) in *.
  assert (E : x - y * k = y * (x / y - k)) by (field; lra). rewrite E. split; nra.
Qed.

Lemma Rfmod_id x y : 0 < y -> 0 <= x < y -> Rfmod x y = x.
Proof.
  intros Hy [H0 H1]. unfold Rfmod. rewrite (Int_part_unique (x / y) 0).
  - ring.
  - simpl. split.
    + apply Rmult_le_pos; [lra|]. left. apply Rinv_0_lt_compat; exact Hy.
    + apply (Rmult_lt_reg_r y); [exact Hy|]. unfold Rdiv. rewrite Rmult_assoc, Rinv_l by lra. lra.
Qed.

Lemma Rfmod_wrap x y : 0 < y -> - y <= x < 0 -> Rfmod x y = x + y.
Proof.
  intros Hy [H0 H1]. unfold Rfmod. rewrite (Int_part_unique (x / y) (-1)).
  - ring.
  - assert (E : x / y = - 1 + (x + y) / y) by (field; lra). rewrite E.
    assert (0 <= (x + y) / y < 1).
    { split.
      + apply Rmult_le_pos; [lra|]. left. apply Rinv_0_lt_compat; exact Hy.
      + apply (Rmult_lt_reg_r y); [exact Hy|]. unfold Rdiv. rewrite Rmult_assoc, Rinv_l by lra. lra. }
    simpl. lra.
Qed.

Lemma sin_Rfmod_2PI t : sin (Rfmod t (2 * PI)) = sin t.
Proof.
  unfold Rfmod. set (k := Int_part (t / (2 * PI))).
  replace (t - 2 * PI * IZR k) with (t + 2 * IZR (- k) * PI) by (rewrite opp_IZR; ring).
  apply sin_period_Z.
Qed.

Lemma cos_Rfmod_2PI t : cos (Rfmod t (2 * PI)) = cos t.
Proof.
  unfold Rfmod. set (k := Int_part (t / (2 * PI))).
  replace (t - 2 * PI * IZR k) with (t + 2 * IZR (- k) * PI) by (rewrite opp_IZR; ring).
  apply cos_period_Z.
Qed.

(* ---------------------------------------------------------------- atan2 *)
Lemma sin_minus_PI t : sin (t - PI) = - sin t.
Proof. rewrite sin_minus, cos_PI, sin_PI. ring. Qed.
Lemma cos_minus_PI t : cos (t - PI) = - cos t.
Proof. rewrite cos_minus, cos_PI, sin_PI. ring. Qed.

(* atan2 inverts the polar parametrisation on the principal range *)
Lemma atan2_polar k r : 0 < k -> - PI < r <= PI -> atan2 (k * sin r) (k * cos r) = r.
Proof.
  intros Hk [Hlo Hhi]. pose proof PI_RGT_0 as Hpi.
  destruct (Rlt_dec r (- (PI / 2))) as [A|A].
  { (* third quadrant *)
    assert (Hc : 0 < cos (r + PI)) by (apply cos_gt_0; lra).
    assert (Hs : 0 < sin (r + PI)) by (apply sin_gt_0; lra).
    rewrite neg_cos in Hc. rewrite neg_sin in Hs.
    unfold atan2.
    destruct (Rlt_dec 0 (k * cos r)) as [H|_]; [exfalso; nra|].
    destruct (Rlt_dec (k * cos r) 0) as [_|H]; [|exfalso; nra].
    destruct (Rle_dec 0 (k * sin r)) as [H|_]; [exfalso; nra|].
    replace (k * sin r / (k * cos r)) with (tan (r + PI)).
    - rewrite atan_tan by lra. ring.
    - unfold tan. rewrite neg_cos, neg_sin. field. split; lra. }
  destruct (Req_dec r (- (PI / 2))) as [B|B].
  { subst r. rewrite cos_neg, sin_neg, cos_PI2, sin_PI2. unfold atan2.
    replace (k * 0) with 0 by ring.
    destruct (Rlt_dec 0 0) as [H|_]; [lra|].
    destruct (Rlt_dec 0 (k * - (1))) as [H|_]; [lra|].
    destruct (Rlt_dec (k * - (1)) 0) as [_|H]; [reflexivity|lra]. }
  destruct (Rlt_dec r (PI / 2)) as [C|C].
  { assert (Hc : 0 < cos r) by (apply cos_gt_0; lra).
    unfold atan2. destruct (Rlt_dec 0 (k * cos r)) as [_|H]; [|exfalso; nra].
    replace (k * sin r / (k * cos r)) with (tan r) by (unfold tan; field; split; lra).
    apply atan_tan. lra. }
  destruct (Req_dec r (PI / 2)) as [D|D].
  { subst r. rewrite cos_PI2, sin_PI2. unfold atan2.
    replace (k * 0) with 0 by ring.
    destruct (Rlt_dec 0 0) as [H|_]; [lra|].
    destruct (Rlt_dec 0 (k * 1)) as [_|H]; [reflexivity|lra]. }
  (* second quadrant, r in (PI/2, PI] *)
  assert (Hc : cos r < 0) by (apply cos_lt_0; lra).
  assert (Hs : 0 <= sin r) by (apply sin_ge_0; lra).
  unfold atan2.
  destruct (Rlt_dec 0 (k * cos r)) as [H|_]; [exfalso; nra|].
  destruct (Rlt_dec (k * cos r) 0) as [_|H]; [|exfalso; nra].
  destruct (Rle_dec 0 (k * sin r)) as [_|H]; [|exfalso; nra].
  replace (k * sin r / (k * cos r)) with (tan (r - PI)).
  - rewrite atan_tan by lra. ring.
  - unfold tan. rewrite sin_minus_PI, cos_minus_PI. field. split; lra.
Qed.

Lemma sqrt_polar x y : x <> 0 -> sqrt (x * x + y * y) = Rabs x * sqrt (1 + (y / x)²).
Proof.
  intros Hx. replace (x * x + y * y) with (x² * (1 + (y / x)²)) by (unfold Rsqr; field; exact Hx).
  rewrite sqrt_mult; [rewrite sqrt_Rsqr_abs; reflexivity|apply Rle_0_sqr|].
  pose proof (Rle_0_sqr (y / x)). lra.
Qed.

(* (sqrt(x^2+y^2), atan2 y x) are polar coordinates of (x, y) — for EVERY pair, the origin included *)
Lemma polar_atan2 x y :
  sqrt (x * x + y * y) * cos (atan2 y x) = x /\ sqrt (x * x + y * y) * sin (atan2 y x) = y.
Proof.
  assert (Hq : forall t, 0 < sqrt (1 + t²)).
  { intros t. apply sqrt_lt_R0. pose proof (Rle_0_sqr t). lra. }
  unfold atan2.
  destruct (Rlt_dec 0 x) as [Hx|Hx].
  { rewrite sqrt_polar by lra. rewrite Rabs_right by lra. rewrite cos_atan, sin_atan.
    pose proof (Hq (y / x)). split; field; repeat split; lra. }
  destruct (Rlt_dec x 0) as [Hx'|Hx'].
  { rewrite sqrt_polar by lra. rewrite Rabs_left by lra. pose proof (Hq (y / x)).
    destruct (Rle_dec 0 y).
    - rewrite neg_cos, neg_sin, cos_atan, sin_atan. split; field; repeat split; lra.
    - rewrite cos_minus_PI, sin_minus_PI, cos_atan, sin_atan. split; field; repeat split; lra. }
  assert (x = 0) by lra. subst x. replace (0 * 0 + y * y) with (y * y) by ring. rewrite sqrt_sq_abs.
  destruct (Rlt_dec 0 y).
  { rewrite cos_PI2, sin_PI2, Rabs_right by lra. split; ring. }
  destruct (Rlt_dec y 0).
  { rewrite cos_neg, sin_neg, cos_PI2, sin_PI2, Rabs_left by lra. split; ring. }
  assert (y = 0) by lra. subst y. rewrite Rabs_R0. split; ring.
Qed.

Lemma atan2_bound y x : - PI < atan2 y x <= PI.
Proof.
  pose proof PI_RGT_0. pose proof (atan_bound (y / x)) as [A1 A2]. unfold atan2.
  destruct (Rlt_dec 0 x); [lra|]. destruct (Rlt_dec x 0).
  - assert (Hix : / x < 0) by (apply Rinv_lt_0_compat; assumption).
    destruct (Rle_dec 0 y) as [Hy|Hy].
    + (* y >= 0, x < 0: y/x <= 0 so atan <= 0 *)
      assert (y / x <= 0) by (unfold Rdiv; nra).
      assert (atan (y / x) <= 0).
      { destruct (Req_dec (y / x) 0) as [E|E]; [rewrite E, atan_0; lra|].
        left. rewrite <- atan_0. apply atan_increasing. lra. }
      lra.
    + (* y < 0, x < 0: y/x > 0 so atan > 0 *)
      assert (0 < y / x) by (unfold Rdiv; nra).
      assert (0 < atan (y / x)) by (rewrite <- atan_0; apply atan_increasing; assumption).
      lra.
  - destruct (Rlt_dec 0 y); [lra|]. destruct (Rlt_dec y 0); lra.
Qed.

(* ---------------------------------------------------------------- the ECEF -> ENU rotation *)
(* rows: east, north, up;  phi = latitude, lam = longitude, in radians *)
Definition Renu (phi lam : R) : list R :=
  [- sin lam; cos lam; 0;
   - sin phi * cos lam; - sin phi * sin lam; cos phi;
   cos phi * cos lam; cos phi * sin lam; sin phi].

Lemma sc_unit t : sin t * sin t + cos t * cos t = 1.
Proof. pose proof (sin2_cos2 t) as H. unfold Rsqr in H. exact H. Qed.

Lemma Renu_SO3 phi lam : SO3 (Renu phi lam).
Proof.
  pose proof (sc_unit phi) as H1. pose proof (sc_unit lam) as H2.
  assert (Hu1 : sin phi * sin phi = 1 - cos phi * cos phi) by lra.
  assert (Hu2 : sin lam * sin lam = 1 - cos lam * cos lam) by lra.
  unfold SO3, Renu. split; [reflexivity|]. unfold_rot.
  split; [list_eq; ring [Hu1 Hu2]|]. split; [list_eq; ring [Hu1 Hu2]|ring [Hu1 Hu2]].
Qed.

(* an orthogonal matrix preserves Euclidean length, and its transpose undoes it *)
Definition dot3 (u v : list R) : R := e u 0 * e v 0 + e u 1 * e v 1 + e u 2 * e v 2.

Lemma Renu_tr_left phi lam a b c : mvec3 (mtr3 (Renu phi lam)) (mvec3 (Renu phi lam) [a; b; c]) = [a; b; c].
Proof.
  assert (Hu1 : sin phi * sin phi = 1 - cos phi * cos phi) by (pose proof (sc_unit phi); lra).
  assert (Hu2 : sin lam * sin lam = 1 - cos lam * cos lam) by (pose proof (sc_unit lam); lra).
  unfold Renu. unfold_rot. list_eq; ring [Hu1 Hu2].
Qed.

Lemma Renu_tr_right phi lam a b c : mvec3 (Renu phi lam) (mvec3 (mtr3 (Renu phi lam)) [a; b; c]) = [a; b; c].
Proof.
  assert (Hu1 : sin phi * sin phi = 1 - cos phi * cos phi) by (pose proof (sc_unit phi); lra).
  assert (Hu2 : sin lam * sin lam = 1 - cos lam * cos lam) by (pose proof (sc_unit lam); lra).
  unfold Renu. unfold_rot. list_eq; ring [Hu1 Hu2].
Qed.

Lemma Renu_isometry phi lam a b c :
  dot3 (mvec3 (Renu phi lam) [a; b; c]) (mvec3 (Renu phi lam) [a; b; c]) = a * a + b * b + c * c.
Proof.
  assert (Hu1 : sin phi * sin phi = 1 - cos phi * cos phi) by (pose proof (sc_unit phi); lra).
  assert (Hu2 : sin lam * sin lam = 1 - cos lam * cos lam) by (pose proof (sc_unit lam); lra).
  unfold Renu, dot3. unfold_rot. ring [Hu1 Hu2].
Qed.
