(* Dcm2q.v — mathematics shared by the proofs of property C02 (DCM -> quaternion inverts quaternion -> DCM).
   Independent of generated code: facts about sqrt of (2p)^2, numpy.clip on [-1,3], sign recovery
   sgn(k*w*x)*|x| = sgn(w)*x, and the tactics that normalise the radicals of a traced extraction
   routine once its input matrix is the textbook matrix of a unit quaternion. *)
From Coq Require Import Reals List Lra Psatz.
From AhrsLib Require Import Base Rot.
Import ListNotations.
Open Scope R_scope.

(* s * q for a sign s *)
Definition qsc (s w x y z : R) : list R := [s * w; s * x; s * y; s * z].
Definition is_sign (s : R) : Prop := s = 1 \/ s = -1.

Lemma is_sign_sq s : is_sign s -> s * s = 1.
Proof. intros [-> | ->]; ring. Qed.

Lemma qsc_unit s w x y z : is_sign s -> w*w+x*x+y*y+z*z = 1 -> qnorm2 (qsc s w x y z) = 1.
Proof.
  intros Hs H. apply is_sign_sq in Hs. unfold qsc. unfold_rot.
  replace (s * w * (s * w) + s * x * (s * x) + s * y * (s * y) + s * z * (s * z)) with ((s*s) * (w*w+x*x+y*y+z*z)) by ring.
  rewrite Hs, H. ring.
Qed.

Lemma qsc_Rspec s w x y z : is_sign s -> Rspec (qsc s w x y z) = Rspec [w;x;y;z].
Proof. intros [-> | ->]; unfold qsc; unfold_rot; list_eq; ring. Qed.

(* numpy.clip(t, -1, 3) is the identity on [-1, 3] *)
Lemma clip_id t : -1 <= t <= 3 -> Rmin (Rmax t (-1)) 3 = t.
Proof. intros [H1 H2]. rewrite Rmax_left by lra. rewrite Rmin_left by lra. reflexivity. Qed.

(* the unit-norm hypothesis in a folded form that `orient_unit` leaves alone *)
Definition unit4 (w x y z : R) : Prop := w*w+x*x+y*y+z*z = 1.
(* every component of a unit quaternion satisfies 0 <= 4 p^2 <= 4 *)
Lemma unit_bound_w w x y z : unit4 w x y z -> -1 <= 4*(w*w) - 1 <= 3.
Proof. unfold unit4. intros H. nra. Qed.
Lemma unit_bound_x w x y z : unit4 w x y z -> -1 <= 4*(x*x) - 1 <= 3.
Proof. unfold unit4. intros H. nra. Qed.
Lemma unit_bound_y w x y z : unit4 w x y z -> -1 <= 4*(y*y) - 1 <= 3.
Proof. unfold unit4. intros H. nra. Qed.
Lemma unit_bound_z w x y z : unit4 w x y z -> -1 <= 4*(z*z) - 1 <= 3.
Proof. unfold unit4. intros H. nra. Qed.
(* standard opening: keep a folded copy U of the unit hypothesis, orient the other *)
Ltac unit_open H U :=
  lazymatch type of H with
  | ?w * ?w + ?x * ?x + ?y * ?y + ?z * ?z = 1 => assert (U : unit4 w x y z) by exact H; orient_unit
  end.

Lemma sqrt_4sq p : sqrt (4 * (p * p)) = 2 * Rabs p.
Proof.
  replace (4 * (p * p)) with ((2 * p) * (2 * p)) by ring. rewrite sqrt_sq_abs, Rabs_mult, (Rabs_right 2) by lra. reflexivity.
Qed.
Lemma sqrt_sq p : sqrt (p * p) = Rabs p.
Proof. apply sqrt_sq_abs. Qed.

Lemma Rabs_sq p : Rabs p * Rabs p = p * p.
Proof. unfold Rabs. destruct (Rcase_abs p); ring. Qed.
Lemma Rabs_pos_ne0 p : p <> 0 -> 0 < Rabs p.
Proof. apply Rabs_pos_lt. Qed.

(* sign algebra *)
Lemma Rsgn_sq_abs p : Rsgn p * Rsgn p * Rabs p = Rabs p.
Proof.
  unfold Rsgn. destruct (Rlt_dec 0 p); [ring|]. destruct (Rlt_dec p 0); [ring|].
  assert (p = 0) by lra. subst. rewrite Rabs_R0. ring.
Qed.
Lemma Rsgn_scale k p : 0 < k -> Rsgn (k * p) = Rsgn p.
Proof.
  intros Hk. unfold Rsgn.
  destruct (Rlt_dec 0 p) as [H|H].
  - destruct (Rlt_dec 0 (k * p)) as [_|H']; [reflexivity|]. exfalso. apply H'. apply Rmult_lt_0_compat; assumption.
  - destruct (Rlt_dec 0 (k * p)) as [H'|_].
    + exfalso. apply H. destruct (Rle_dec p 0) as [Hp|Hp]; [|lra]. assert (k * p <= 0) by nra. lra.
    + destruct (Rlt_dec p 0) as [Hn|Hn].
      * destruct (Rlt_dec (k * p) 0) as [_|H'']; [reflexivity|]. exfalso. apply H''. nra.
      * destruct (Rlt_dec (k * p) 0) as [H''|_]; [|reflexivity]. exfalso. assert (p = 0) by lra. subst. lra.
Qed.
Lemma Rsgn_neg_scale k p : k < 0 -> Rsgn (k * p) = - Rsgn p.
Proof.
  intros Hk. replace (k * p) with ((-k) * (- p)) by ring. rewrite Rsgn_scale by lra.
  unfold Rsgn. destruct (Rlt_dec 0 (- p)); destruct (Rlt_dec 0 p); try lra; destruct (Rlt_dec (- p) 0); destruct (Rlt_dec p 0); lra.
Qed.
Lemma Rsgn_is_sign p : p <> 0 -> is_sign (Rsgn p).
Proof.
  intros H. unfold Rsgn, is_sign. destruct (Rlt_dec 0 p); [left; reflexivity|].
  destruct (Rlt_dec p 0); [right; reflexivity|]. exfalso. lra.
Qed.
(* the sign-recovery rule of Chiaverini / Sarabandi: sgn(4 w x) |x| = sgn(w) x  (w <> 0) *)
Lemma sgn_recover w x : w <> 0 -> Rsgn (4 * (w * x)) * Rabs x = Rsgn w * x.
Proof.
  intros Hw. replace (4 * (w * x)) with ((4 * Rabs w) * (Rsgn w * x)).
  2:{ rewrite <- (Rsgn_mul_abs w) at 3. ring. }
  rewrite Rsgn_scale by (pose proof (Rabs_pos_lt w Hw); lra).
  destruct (Rsgn_is_sign w Hw) as [-> | ->].
  - rewrite Rmult_1_l. apply Rsgn_mul_abs.
  - replace (-1 * x) with (- x) by ring. rewrite <- (Rabs_Ropp x). rewrite Rsgn_mul_abs. ring.
Qed.
Lemma Rsgn_abs_w w : Rsgn w * Rabs w = w.
Proof. apply Rsgn_mul_abs. Qed.
Lemma Rabs_as_sgn w : Rabs w = Rsgn w * w.
Proof.
  unfold Rsgn. destruct (Rlt_dec 0 w); [rewrite Rabs_right by lra; ring|].
  destruct (Rlt_dec w 0); [rewrite Rabs_left by lra; ring|]. assert (w = 0) by lra. subst. rewrite Rabs_R0. ring.
Qed.

(* largest of four squares that sum to one is at least a quarter *)
Lemma largest_quarter a b c d : a + b + c + d = 1 -> b <= a -> c <= a -> d <= a -> 1/4 <= a.
Proof. intros. lra. Qed.

(* the rotation angle and the scalar part: |theta| <= PI - 10^-6  ->  cos(theta/2) >= sin(5*10^-7) > 10^-8 *)
Lemma cos_half_lower th : Rabs th <= PI - 1/1000000 -> sin (1/2000000) <= cos (th / 2).
Proof.
  intros H. rewrite <- (cos_shift (1/2000000)).
  assert (Hpi : 3 < PI) by (pose proof PI_RGT_0; pose proof PI2_3_2; unfold PI2 in *; lra).
  assert (Hpi4 : PI <= 4) by apply PI_4.
  replace (cos (th / 2)) with (cos (Rabs th / 2)).
  2:{ unfold Rabs. destruct (Rcase_abs th); [|reflexivity]. replace (- th / 2) with (- (th / 2)) by field. apply cos_neg. }
  pose proof (Rabs_pos th).
  apply cos_decr_1; lra.
Qed.
Lemma sin_small_pos : 1/100000000 < sin (1/2000000).
Proof.
  (* sin a >= a - a^3/6 for a in [0, PI] *)
  assert (Hpi : 3 < PI) by (pose proof PI2_3_2; unfold PI2 in *; lra).
  pose proof (sin_lb_gt_0 (1/2000000)) as _.
  assert (H : sin_lb (1/2000000) <= sin (1/2000000)).
  { apply (proj1 (SIN (1/2000000) ltac:(lra) ltac:(lra))). }
  unfold sin_lb, sin_approx in H. simpl in H. unfold sin_term in H. simpl in H.
  unfold Rdiv in *. simpl in H.
  nra.
Qed.

(* ------------------------------------------------------------------------------------------
   Tactics.  All of them work on a goal in which the generated definition has been unfolded and
   `cbv zeta` has removed the lets; they never mention generated names. *)

(* polynomial identity, possibly modulo the oriented unit-norm hypothesis *)
Ltac poly_eq := first [ ring | hring ].
(* rewrite every numpy.clip(t, -1, 3) whose argument is 4p^2 - 1 for a component p of the unit quaternion
   (Hunit : w*w+x*x+y*y+z*z = 1 must be in the context next to its oriented copy) *)
Ltac clip_arg t :=
  lazymatch t with context [Rmin (Rmax ?a (-1)) 3] =>
    lazymatch a with context [Rmin (Rmax _ (-1)) 3] => clip_arg a | _ => constr:(a) end end.
Ltac clip_unit w x y z Hunit :=
  repeat (let t := lazymatch goal with |- ?G => clip_arg G end in
          first [ replace t with (4*(w*w) - 1) by poly_eq; rewrite (clip_id _ (unit_bound_w w x y z Hunit))
                | replace t with (4*(x*x) - 1) by poly_eq; rewrite (clip_id _ (unit_bound_x w x y z Hunit))
                | replace t with (4*(y*y) - 1) by poly_eq; rewrite (clip_id _ (unit_bound_y w x y z Hunit))
                | replace t with (4*(z*z) - 1) by poly_eq; rewrite (clip_id _ (unit_bound_z w x y z Hunit)) ]).

(* radicand identities: polynomial, or with divisions whose denominators are shown non-zero by linear
   arithmetic over the path hypotheses *)
Ltac rad_eq := first [ ring | hring ].
Ltac rad_eqf := solve [ field_simplify_eq; [ poly_eq | repeat split; lra .. ] ].

(* some innermost radicand of a term (no backtracking over the many duplicated occurrences) *)
Ltac inner_rad t :=
  lazymatch t with
  | context [sqrt ?e] => lazymatch e with context [sqrt _] => inner_rad e | _ => constr:(e) end
  end.
Ltac goal_rad := lazymatch goal with |- ?G => inner_rad G end.

(* an innermost radical whose radicand equals 4 p^2 becomes 2 |p| *)
Ltac rad_as p := let e := goal_rad in replace e with (4 * (p * p)) by rad_eq; rewrite !(sqrt_4sq p).
(* same for a radicand that is a quotient (Sarabandi's alternative branch) *)
Ltac rad_asf p := let e := goal_rad in replace e with (4 * (p * p)) by rad_eqf; rewrite !(sqrt_4sq p).
(* an innermost radical whose radicand equals 1 disappears *)
Ltac rad_one := let e := goal_rad in replace e with 1 by first [ rad_eq | rad_eqf ]; rewrite !sqrt_1.

(* decide the gate at the head of the goal by linear arithmetic when possible, split otherwise *)
Ltac head_gate :=
  lazymatch goal with
  | |- (if ?g then _ else _) = _ =>
      first [ destruct g as [?|?]; [ exfalso; lra | ]
            | destruct g as [?|?]; [ | exfalso; lra ]
            | destruct g as [?|?] ]
  end.
Ltac gates := repeat head_gate.

(* Rsgn of 4*w*v (in whatever polynomial form the source has it) with the sign of w known *)
Ltac sgn_args_pos w x y z :=
  repeat match goal with
  | |- context [Rsgn ?A] =>
      lazymatch A with x => fail | y => fail | z => fail | _ => idtac end;
      first [ replace A with ((4 * w) * x) by ring; rewrite (Rsgn_scale (4 * w) x) by lra
            | replace A with ((4 * w) * y) by ring; rewrite (Rsgn_scale (4 * w) y) by lra
            | replace A with ((4 * w) * z) by ring; rewrite (Rsgn_scale (4 * w) z) by lra ]
  end.
Ltac sgn_args_neg w x y z :=
  repeat match goal with
  | |- context [Rsgn ?A] =>
      lazymatch A with x => fail | y => fail | z => fail | _ => idtac end;
      first [ replace A with ((4 * w) * x) by ring; rewrite (Rsgn_neg_scale (4 * w) x) by lra
            | replace A with ((4 * w) * y) by ring; rewrite (Rsgn_neg_scale (4 * w) y) by lra
            | replace A with ((4 * w) * z) by ring; rewrite (Rsgn_neg_scale (4 * w) z) by lra ]
  end.

(* ---- facts about the radicals and sign arguments of a (large) goal, collected as hypotheses without rewriting it ---- *)
Ltac rad_fact e p :=
  lazymatch e with
  | ?n / ?d =>
      let H := fresh "Hrq" in
      assert (H : 0 < d -> sqrt e = 2 * Rabs p)
        by (let Hd := fresh in intro Hd; replace e with (4 * (p * p)) by rad_eqf; apply sqrt_4sq)
  | _ =>
      let H := fresh "Hrp" in
      assert (H : sqrt e = 2 * Rabs p) by (replace e with (4 * (p * p)) by rad_eq; apply sqrt_4sq)
  end.
Ltac rad_facts w x y z :=
  repeat match goal with
  | |- context [sqrt ?e] =>
      lazymatch e with context [sqrt _] => fail | _ => idtac end;
      lazymatch goal with
      | H : sqrt e = _ |- _ => fail
      | H : _ -> sqrt e = _ |- _ => fail
      | _ => idtac
      end;
      first [ rad_fact e w | rad_fact e x | rad_fact e y | rad_fact e z ]
  end.
Ltac sgn_fact A w v Hw :=
  let H := fresh "Hsg" in
  assert (H : Rsgn A * Rabs v = Rsgn w * v) by (replace A with (4 * (w * v)) by ring; apply (sgn_recover w v Hw)).
Ltac sgn_facts w x y z Hw :=
  repeat match goal with
  | |- context [Rsgn ?A] =>
      lazymatch goal with H : Rsgn A * _ = _ |- _ => fail | _ => idtac end;
      first [ sgn_fact A w x Hw | sgn_fact A w y Hw | sgn_fact A w z Hw ]
  end.
(* use the collected radical facts in a (small) leaf *)
Ltac rad_rw :=
  repeat match goal with
  | H : sqrt ?e = _ |- context [sqrt ?e] => rewrite H
  | H : _ -> sqrt ?e = _ |- context [sqrt ?e] => rewrite (H ltac:(lra))
  end.
(* turn Rsgn A_v, Rabs v, Rabs w, Rsgn w into variables constrained by the collected equations and close the
   leaf: every remaining (norm) radicand is 1, every component is sgn(w) * component *)
Ltac gen_atoms w :=
  repeat match goal with
  | H : Rsgn ?A * Rabs ?v = Rsgn w * ?v |- _ => generalize dependent (Rsgn A); generalize dependent (Rabs v); intros
  end;
  generalize dependent (Rabs w); generalize dependent (Rsgn w); intros.
Ltac atoms_field w x y z Hu :=
  match goal with
  | Hx : _ * _ = ?sw * x, Hy : _ * _ = ?sw * y, Hz : _ * _ = ?sw * z, Ha : _ = ?sw * w, Hs : ?sw * ?sw = 1 |- _ =>
     field [Hx Hy Hz Ha Hs Hu]
  end.
Ltac atoms_finish w x y z Hu :=
  gen_atoms w;
  repeat (let e := goal_rad in replace e with 1 by (atoms_field w x y z Hu); rewrite !sqrt_1);
  unfold qsc; val_eq; atoms_field w x y z Hu.
(* the three standing facts about w <> 0 used by atoms_finish *)
Ltac w_facts w Hw :=
  let Haw := fresh "Haw" in let Haw2 := fresh "Haw2" in let Hsw := fresh "Hsw" in
  pose proof (Rabs_pos_lt w Hw) as Haw; pose proof (Rabs_as_sgn w) as Haw2;
  pose proof (is_sign_sq _ (Rsgn_is_sign w Hw)) as Hsw.
(* destruct the gates at the head of the goal that do not involve a radical *)
Ltac plain_gates :=
  repeat lazymatch goal with
  | |- (if ?g then _ else _) = _ => lazymatch g with context [sqrt _] => fail | _ => destruct g as [?|?] end
  end.
(* gates  |e| <= c  with e identically 0 under the unit hypothesis (the SO(3) checks of the constructors) *)
Ltac so3_gates := repeat gate_abs0.

(* abstract  Rsgn v, Rabs v  (v = x, y, z) into variables related by  sgn * abs = v, and finish a leaf of a
   sign-recovering method (Chiaverini, Sarabandi):  norm radicand = 1, components = s * q *)
Ltac sgn_atoms_finish x y z Hu :=
  let Hx := fresh "Hax" in let Hy := fresh "Hay" in let Hz := fresh "Haz" in
  pose proof (Rsgn_mul_abs x) as Hx; pose proof (Rsgn_mul_abs y) as Hy; pose proof (Rsgn_mul_abs z) as Hz;
  generalize dependent (Rsgn x); generalize dependent (Rabs x);
  generalize dependent (Rsgn y); generalize dependent (Rabs y);
  generalize dependent (Rsgn z); generalize dependent (Rabs z);
  let az := fresh "az" in let sz := fresh "sz" in let ay := fresh "ay" in let sy := fresh "sy" in
  let ax := fresh "ax" in let sx := fresh "sx" in
  intros az sz Hz ay sy Hy ax sx Hx;
  (let e := goal_rad in replace e with 1 by (field [Hx Hy Hz Hu]; repeat split; lra));
  rewrite !sqrt_1; unfold qsc; val_eq; field [Hx Hy Hz Hu]; repeat split; lra.

(* resolve |a| when the sign of a follows by linear arithmetic *)
Ltac abs_lra :=
  repeat match goal with
  | |- context [Rabs ?a] => first [ rewrite (Rabs_right a) by lra | rewrite (Rabs_left a) by lra ]
  end.
(* finish a leaf whose radicals are gone except the final norm: radicand = 1, components by field *)
Ltac norm_finish := repeat rad_one; unfold qsc; val_eq; (field [] || field); repeat split; lra.

(* ---- dispatchers: a let-preserving walk through the constructors' SO(3) gates ---------------------------------
   Goals are put in the form  P (term)  with the outcome as LAST argument of a predicate:
     is_out r o      :  o = r
     signed_q w x y z o : o = Val (s*q) for a sign s.
   so3_walk introduces each leading `let` as a local definition (the goal stays small) and decides each gate
   `|e| <= c` by showing e = 0 from the oriented unit hypothesis on the unfolded definitions; it stops at the first
   node that is neither.  locals_out then substitutes the definitions back, for the method tactics. *)
Definition is_out (r o : outcome R) : Prop := o = r.
Definition signed_q (w x y z : R) (o : outcome R) : Prop := exists s, is_sign s /\ o = Val (qsc s w x y z).
Ltac locals_out := repeat match goal with x := _ |- _ => subst x end.
Ltac so3_walk :=
  lazymatch goal with
  | |- ?P (let t := ?v in @?b t) =>
      let y := fresh "t" in pose (y := v); change (P (b y)); cbv beta; so3_walk
  | |- ?P (if Rle_dec (Rabs ?e) ?c then ?a else ?b) =>
      let H := fresh in
      assert (H : Rabs e <= c) by (replace e with 0 by (locals_out; first [hring | ring]); rewrite Rabs_R0; lra);
      destruct (Rle_dec (Rabs e) c) as [_|?]; [clear H | contradiction]; so3_walk
  | |- _ => idtac
  end.
(* decide the head gate by linear arithmetic or fail *)
Ltac head_gate_lra :=
  lazymatch goal with
  | |- (if ?g then _ else _) = _ =>
      first [ destruct g as [?|?]; [ exfalso; lra | ] | destruct g as [?|?]; [ | exfalso; lra ] ]
  end.
(* alternate: prune decidable gates, turn innermost norm radicals into 1 *)
Ltac gates_and_norms := repeat first [ head_gate_lra | rad_one ].
(* does the condition mention a radical, directly or through a local definition? *)
Ltac has_sqrt g :=
  first [ lazymatch g with context [sqrt _] => idtac end
        | match g with context [?v] => is_var v; let b := eval unfold v in v in lazymatch b with context [sqrt _] => idtac end end ].
(* walk the whole tree: lets become local definitions, SO(3) gates are decided, every other gate is split;
   `leaf` runs on each leaf after the local definitions have been substituted back *)
Ltac full_walk leaf :=
  lazymatch goal with
  | |- ?P (let t := ?v in @?b t) =>
      let y := fresh "t" in pose (y := v); change (P (b y)); cbv beta; full_walk leaf
  | |- ?P (if Rle_dec (Rabs ?e) ?c then ?a else ?b) =>
      first [ let H := fresh in
              assert (H : Rabs e <= c) by (replace e with 0 by (locals_out; first [hring | ring]); rewrite Rabs_R0; lra);
              destruct (Rle_dec (Rabs e) c) as [_|?]; [clear H | contradiction]
            | destruct (Rle_dec (Rabs e) c) as [?|?] ]; full_walk leaf
  | |- ?P (if ?g then ?a else ?b) =>
      (* a gate on a radical (zero-norm checks of the constructors) is left to the leaf tactic *)
      tryif has_sqrt g then (locals_out; leaf) else (destruct g as [?|?]; full_walk leaf)
  | |- _ => locals_out; leaf
  end.

(* ---- walk2: the walk that also simplifies radicals on the fly -------------------------------------------------
   Before a `let` whose body contains a radical is introduced, and before a gate whose condition contains one is
   decided, `radtac e` is called on an innermost radicand e: it must rewrite `sqrt e` away in the goal (to 2|p|, +-2p or
   1).  Local definitions therefore never contain radicals and the repeated normalisations of the dispatchers do not
   blow the terms up.  Gates are decided by linear arithmetic on the unfolded definitions when possible. *)
Ltac decide_gate g :=
  lazymatch type of g with
  | {?A} + {?B} =>
      first [ let H := fresh in assert (H : A) by (locals_out; abs_lra; lra); destruct g as [_|?]; [clear H | contradiction]
            | let H := fresh in assert (H : B) by (locals_out; abs_lra; lra); destruct g as [?|_]; [contradiction | clear H]
            | destruct g as [?|?] ]
  end.
Ltac walk2 radtac leaf :=
  lazymatch goal with
  | |- ?P (let t := ?v in @?b t) =>
      lazymatch v with
      | context [sqrt _] => (let e := inner_rad v in radtac e); walk2 radtac leaf
      | _ => let y := fresh "t" in pose (y := v); change (P (b y)); cbv beta; walk2 radtac leaf
      end
  | |- ?P (if Rle_dec (Rabs ?e) ?c then ?a else ?b) =>
      first [ let H := fresh in
              assert (H : Rabs e <= c) by (replace e with 0 by (locals_out; first [hring | ring]); rewrite Rabs_R0; lra);
              destruct (Rle_dec (Rabs e) c) as [_|?]; [clear H | contradiction]
            | decide_gate (Rle_dec (Rabs e) c) ]; walk2 radtac leaf
  | |- ?P (if ?g then ?a else ?b) =>
      lazymatch g with
      | context [sqrt _] => (let e := inner_rad g in radtac e); walk2 radtac leaf
      | _ => decide_gate g; walk2 radtac leaf
      end
  | |- _ => locals_out; leaf
  end.

(* Shepperd: the first radical met on a path is the pivot's, 2|p| with p^2 >= 1/4 from the path hypotheses (then the
   sign of p is split); every later one is a norm equal to 1 *)
Ltac shep_piv e p :=
  let E := fresh "E" in
  assert (E : sqrt e = 2 * Rabs p) by (replace e with (4 * (p * p)) by (locals_out; rad_eq); apply sqrt_4sq);
  let Hq := fresh "Hq" in
  assert (Hq : 1/4 <= p * p) by (locals_out; lra);
  rewrite E; clear E;
  let Hs := fresh "Hs" in
  destruct (Rlt_dec 0 p) as [Hs|Hs];
  [ rewrite (Rabs_right p) by lra | assert (p < 0) by nra; rewrite (Rabs_left p) by lra ].
Ltac rad_is_one e :=
  let E := fresh "E" in
  assert (E : sqrt e = 1) by (replace e with 1 by (locals_out; first [ rad_eq | rad_eqf ]); apply sqrt_1);
  rewrite E; clear E.
Ltac shep_rad w x y z e := first [ shep_piv e w | shep_piv e x | shep_piv e y | shep_piv e z | rad_is_one e ].
Ltac shep_fin := unfold signed_q;
  first [ exists 1; split; [left; reflexivity|]; unfold qsc; val_eq; field; lra
        | exists (-1); split; [right; reflexivity|]; unfold qsc; val_eq; field; lra ].

(* Hughes: the first radical is the scalar part's, 2|w| with w <> 0 known (Hw : c < |w|); then norms *)
Ltac w_piv e w x y z U Hw :=
  let E := fresh "E" in
  assert (E : sqrt e = 2 * Rabs w)
    by (locals_out; clip_unit w x y z U; (let e' := goal_rad in replace e' with (4 * (w * w)) by rad_eq); apply sqrt_4sq);
  rewrite E; clear E;
  let Hs := fresh "Hs" in
  destruct (Rlt_dec 0 w) as [Hs|Hs];
  [ rewrite (Rabs_right w) in * by lra
  | assert (w < 0) by (destruct (Req_dec w 0); [subst; rewrite Rabs_R0 in Hw; lra | lra]); rewrite (Rabs_left w) in * by lra ].
Ltac hughes_rad w x y z U Hw e := first [ w_piv e w x y z U Hw | rad_is_one e ].
Ltac hughes_fin w := unfold is_out, qsc;
  first [ rewrite (Rsgn_pos w) by lra | rewrite (Rsgn_neg w) by lra ]; val_eq; field; lra.

(* Chiaverini / Sarabandi: component radicals are 2|v| (polynomial or quotient radicand), norms are 1 modulo the
   sign-recovery facts *)
Ltac rad_2abs e p w x y z U :=
  let E := fresh "E" in
  assert (E : sqrt e = 2 * Rabs p)
    by (locals_out; clip_unit w x y z U; (let e' := goal_rad in replace e' with (4 * (p * p)) by first [ rad_eq | rad_eqf ]); apply sqrt_4sq);
  rewrite E; clear E.
Ltac trio_one w x y z Hw Hu := locals_out; sgn_facts w x y z Hw; w_facts w Hw; gen_atoms w; atoms_field w x y z Hu.
Ltac trio_rad w x y z U Hw Hu e :=
  first [ rad_2abs e w w x y z U | rad_2abs e x w x y z U | rad_2abs e y w x y z U | rad_2abs e z w x y z U
        | let E := fresh "E" in
          assert (E : sqrt e = 1) by (replace e with 1 by (trio_one w x y z Hw Hu); apply sqrt_1); rewrite E; clear E ].
Ltac trio_fin w x y z Hw Hu :=
  unfold is_out, qsc; sgn_facts w x y z Hw; w_facts w Hw; gen_atoms w; val_eq; atoms_field w x y z Hu.
