(* SphHarm.v — specification of the spherical-harmonic synthesis of a geomagnetic main-field model.
   Independent of the code under verification: nothing here is a recursion in degree or order.

   - polynomials with rational coefficients (coefficient lists, lowest degree first), their evaluation
     on reals and their formal derivative;
   - Legendre polynomials from the explicit (Rodrigues) sum
         P_n(x) = 2^-n  sum_k (-1)^k C(n,k) C(2n-2k,n) x^(n-2k);
   - associated Legendre functions without the Condon-Shortley phase, in the latitude form used by
     the World Magnetic Model:  P_{n,m}(sin phi) = cos^m phi * d^m P_n / dx^m (sin phi);
   - Schmidt semi-normalisation  sqrt((2 - delta_{m0}) (n-m)! / (n+m)!);
   - the synthesis sums X', Y', Z' of the WMM technical report (eq. 10-12), the linear advance of the
     Gauss coefficients in time, and the rotation from geocentric to geodetic axes (eq. 17). *)
From Coq Require Import Reals List ZArith QArith Qreals Lra Lia.
Import ListNotations.

(* ------------------------------------------------------------------------------------------ *)
(* polynomials over Q                                                                           *)
(* ------------------------------------------------------------------------------------------ *)
Definition qpoly := list Q.

Fixpoint peval (p : qpoly) (x : R) : R :=
  match p with
  | nil => 0%R
  | a :: p' => (Q2R a + x * peval p' x)%R
  end.

(* formal derivative: coefficient i of p' is (i+1) * coefficient (i+1) of p *)
Fixpoint pderiv_from (k : Z) (p : qpoly) : qpoly :=
  match p with
  | nil => nil
  | a :: p' => Qred (inject_Z k * a) :: pderiv_from (k + 1) p'
  end.
Definition pderiv (p : qpoly) : qpoly :=
  match p with nil => nil | _ :: p' => pderiv_from 1 p' end.

(* ------------------------------------------------------------------------------------------ *)
(* factorials and binomials (in Z / Q: never computed in unary)                                 *)
(* ------------------------------------------------------------------------------------------ *)
Fixpoint zfact (n : nat) : Z :=
  match n with O => 1%Z | S k => (Z.of_nat (S k) * zfact k)%Z end.

Lemma zfact_pos n : (0 < zfact n)%Z.
Proof.
  induction n; [reflexivity|].
  change (zfact (S n)) with (Z.of_nat (S n) * zfact n)%Z. apply Z.mul_pos_pos; [lia|assumption].
Qed.

Lemma zfact_fact n : IZR (zfact n) = INR (fact n).
Proof.
  induction n; [reflexivity|].
  change (zfact (S n)) with (Z.of_nat (S n) * zfact n)%Z.
  change (fact (S n)) with (S n * fact n)%nat.
  rewrite mult_IZR, mult_INR, IHn, <- INR_IZR_INZ. reflexivity.
Qed.

Definition qbinom (n k : nat) : Q :=
  (inject_Z (zfact n) / (inject_Z (zfact k) * inject_Z (zfact (n - k))))%Q.

(* ------------------------------------------------------------------------------------------ *)
(* Legendre polynomials, explicit sum                                                           *)
(* ------------------------------------------------------------------------------------------ *)
Definition leg_coef (n k : nat) : Q :=
  Qred (inject_Z ((-1) ^ Z.of_nat k) * qbinom n k * qbinom (2 * n - 2 * k) n / inject_Z (2 ^ Z.of_nat n))%Q.

(* coefficient of x^j in P_n : non-zero only when n-j is even, then k = (n-j)/2 *)
Definition legendre (n : nat) : qpoly :=
  map (fun j => if Nat.even (n - j) then leg_coef n ((n - j) / 2) else 0%Q) (seq 0 (S n)).

(* m-th derivative of P_n *)
Definition Dleg (n m : nat) : qpoly := Nat.iter m pderiv (legendre n).

(* ------------------------------------------------------------------------------------------ *)
(* associated Legendre functions of the latitude, Schmidt semi-normalised                       *)
(* ------------------------------------------------------------------------------------------ *)
Open Scope R_scope.

Definition Pnm (n m : nat) (phi : R) : R := cos phi ^ m * peval (Dleg n m) (sin phi).

(* d/dphi of Pnm, written out (proved to be the derivative below: Pnm_is_derivative) *)
Definition dPnm (n m : nat) (phi : R) : R :=
  - INR m * cos phi ^ (m - 1) * sin phi * peval (Dleg n m) (sin phi)
  + cos phi ^ (m + 1) * peval (Dleg n (S m)) (sin phi).

Definition schmidt_sq (n m : nat) : Q :=
  ((if Nat.eqb m 0 then 1 else 2) * inject_Z (zfact (n - m)) / inject_Z (zfact (n + m)))%Q.
Definition schmidt_norm (n m : nat) : R := sqrt (Q2R (schmidt_sq n m)).

Definition Pschmidt (n m : nat) (phi : R) : R := schmidt_norm n m * Pnm n m phi.
Definition dPschmidt (n m : nat) (phi : R) : R := schmidt_norm n m * dPnm n m phi.

(* ------------------------------------------------------------------------------------------ *)
(* synthesis                                                                                    *)
(* ------------------------------------------------------------------------------------------ *)
Definition Rsum (l : list nat) (f : nat -> R) : R := fold_right (fun i acc => f i + acc) 0 l.

(* Gauss coefficients advanced linearly in time: g(t) = g + (t - t0) gdot *)
Definition advance (g gd : nat -> nat -> R) (dt : R) (n m : nat) : R := g n m + dt * gd n m.

Section Synthesis.
  Variable N : nat.                     (* degree of the model *)
  Variables g h : nat -> nat -> R.      (* g_n^m(t), h_n^m(t) *)
  Variable q : R.                       (* a / r *)
  Variables lam phi : R.                (* longitude, geocentric latitude *)

  Definition sh_X : R :=
    - Rsum (seq 1 N) (fun n => q ^ (n + 2) *
        Rsum (seq 0 (S n)) (fun m => (g n m * cos (INR m * lam) + h n m * sin (INR m * lam)) * dPschmidt n m phi)).
  Definition sh_Y : R :=
    / cos phi * Rsum (seq 1 N) (fun n => q ^ (n + 2) *
        Rsum (seq 0 (S n)) (fun m => INR m * (g n m * sin (INR m * lam) - h n m * cos (INR m * lam)) * Pschmidt n m phi)).
  Definition sh_Z : R :=
    - Rsum (seq 1 N) (fun n => INR (n + 1) * q ^ (n + 2) *
        Rsum (seq 0 (S n)) (fun m => (g n m * cos (INR m * lam) + h n m * sin (INR m * lam)) * Pschmidt n m phi)).
End Synthesis.

(* rotation of the geocentric components into the geodetic (ellipsoidal) frame, psi = phi' - phi *)
Definition to_geodetic (X' Y' Z' psi : R) : R * R * R :=
  (X' * cos psi - Z' * sin psi, Y', X' * sin psi + Z' * cos psi).

(* geodetic (phi, h) -> geocentric (phi', r) on an ellipsoid of semi-major axis a and squared eccentricity e2 *)
Definition geocentric_of_geodetic (a e2 phi h : R) : R * R :=
  let Rc := a / sqrt (1 - e2 * (sin phi * sin phi)) in
  let p := (Rc + h) * cos phi in
  let z := (Rc * (1 - e2) + h) * sin phi in
  let r := sqrt (p * p + z * z) in
  (asin (z / r), r).

(* ------------------------------------------------------------------------------------------ *)
(* facts about qpoly used by every client                                                       *)
(* ------------------------------------------------------------------------------------------ *)
Lemma Q2R_Qred a : Q2R (Qred a) = Q2R a.
Proof. apply Qeq_eqR, Qred_correct. Qed.

Lemma Q2R_inject_Z z : Q2R (inject_Z z) = IZR z.
Proof. unfold Q2R, inject_Z; simpl. field. Qed.

(* the formal derivative is the derivative *)
Lemma peval_deriv_aux p x :
  exists d, derivable_pt_lim (peval p) x d /\
            forall k, peval (pderiv_from k p) x = IZR k * peval p x + x * d.
Proof.
  induction p as [|a p [d [Hd Hk]]].
  - exists 0. split.
    + apply (derivable_pt_lim_const 0).
    + intros k; simpl. ring.
  - exists (peval p x + x * d). split.
    + assert (E : peval (a :: p) = (fct_cte (Q2R a) + id * peval p)%F) by reflexivity.
      rewrite E.
      replace (peval p x + x * d) with (0 + (1 * peval p x + id x * d)) by (unfold id; ring).
      apply derivable_pt_lim_plus; [apply derivable_pt_lim_const|].
      apply derivable_pt_lim_mult; [apply derivable_pt_lim_id|exact Hd].
    + intros k. cbn [pderiv_from peval]. rewrite Q2R_Qred, Q2R_mult, Q2R_inject_Z, Hk, plus_IZR. ring.
Qed.

Lemma peval_pderiv p x : derivable_pt_lim (peval p) x (peval (pderiv p) x).
Proof.
  destruct p as [|a p].
  - apply (derivable_pt_lim_const 0).
  - destruct (peval_deriv_aux p x) as [d [Hd Hk]].
    cbn [pderiv]. rewrite (Hk 1%Z).
    assert (E : peval (a :: p) = (fct_cte (Q2R a) + id * peval p)%F) by reflexivity.
    rewrite E.
    replace (1 * peval p x + x * d) with (0 + (1 * peval p x + id x * d)) by (unfold id; ring).
    apply derivable_pt_lim_plus; [apply derivable_pt_lim_const|].
    apply derivable_pt_lim_mult; [apply derivable_pt_lim_id|exact Hd].
Qed.

(* dPnm is the derivative of Pnm with respect to the latitude *)
Lemma Pnm_is_derivative n m phi : derivable_pt_lim (Pnm n m) phi (dPnm n m phi).
Proof.
  unfold Pnm, dPnm.
  set (p := Dleg n m).
  assert (Ep : Dleg n (S m) = pderiv p) by reflexivity. rewrite Ep.
  assert (E : (fun phi => cos phi ^ m * peval p (sin phi)) = ((comp (fun x => x ^ m) cos) * (comp (peval p) sin))%F)
    by reflexivity.
  rewrite E.
  replace (- INR m * cos phi ^ (m - 1) * sin phi * peval p (sin phi) + cos phi ^ (m + 1) * peval (pderiv p) (sin phi))
    with ((INR m * cos phi ^ pred m * (- sin phi)) * comp (peval p) sin phi
          + comp (fun x => x ^ m) cos phi * (peval (pderiv p) (sin phi) * cos phi)).
  2:{ unfold comp. replace (pred m) with (m - 1)%nat by lia. replace (m + 1)%nat with (S m) by lia. simpl pow. ring. }
  apply derivable_pt_lim_mult.
  - apply derivable_pt_lim_comp; [apply derivable_pt_lim_cos|apply derivable_pt_lim_pow].
  - apply derivable_pt_lim_comp; [apply derivable_pt_lim_sin|apply peval_pderiv].
Qed.

Lemma Pschmidt_is_derivative n m phi : derivable_pt_lim (Pschmidt n m) phi (dPschmidt n m phi).
Proof.
  unfold Pschmidt, dPschmidt.
  assert (E : (fun phi => schmidt_norm n m * Pnm n m phi) = (mult_real_fct (schmidt_norm n m) (Pnm n m))) by reflexivity.
  rewrite E. apply derivable_pt_lim_scal, Pnm_is_derivative.
Qed.

(* sanity of the specification itself: the first Legendre polynomials and Bonnet's recursion are
   checked in coq/props/C14 (they need the polynomial arithmetic defined there). *)
Example legendre_2 : legendre 2 = [(-1 # 2)%Q; 0%Q; (3 # 2)%Q].
Proof. reflexivity. Qed.
Example legendre_3 : legendre 3 = [0%Q; (-3 # 2)%Q; 0%Q; (5 # 2)%Q].
Proof. reflexivity. Qed.

Lemma Rsum_ext l f1 f2 : (forall i, In i l -> f1 i = f2 i) -> Rsum l f1 = Rsum l f2.
Proof.
  induction l as [|a l IH]; intros H; simpl; [reflexivity|].
  rewrite (H a (or_introl eq_refl)), IH; [reflexivity|]. intros i Hi; apply H; right; exact Hi.
Qed.
Lemma Rsum_scal l c f : Rsum l (fun i => c * f i) = c * Rsum l f.
Proof. induction l as [|a l IH]; simpl; [ring|rewrite IH; ring]. Qed.
Lemma Rsum_opp l f : Rsum l (fun i => - f i) = - Rsum l f.
Proof. induction l as [|a l IH]; simpl; [ring|rewrite IH; ring]. Qed.
