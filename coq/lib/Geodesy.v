(* Geodesy.v — the three enclosures of q0 and e'q0'/q0 that need interval arithmetic (Coq-Interval, Taylor models);
   everything else about the level ellipsoid is in GeodesyBase.v, re-exported here. *)
From Coq Require Import Reals Lra.
From Interval Require Import Tactic.
From AhrsLib Require Export GeodesyBase.
Open Scope R_scope.

Lemma gq0_pos : forall x, 1/1000 <= x <= 3/4 -> 0 < gq0 x.
Proof.
  intros x Hx. unfold gq0.
  interval with (i_taylor x, i_bisect x, i_prec 120, i_depth 40).
Qed.

Lemma gratio_bounds : forall x, 1/1000 <= x <= 3/4 -> 29/10 <= gratio x <= 38/10.
Proof.
  intros x Hx. unfold gratio, gq0s, gq0.
  interval with (i_taylor x, i_bisect x, i_prec 120, i_depth 40).
Qed.

(* ---- the sharp enclosure: 3 <= e'q0'/q0 <= 3 + (3/2) e'^2 -------------------------------------- *)
Lemma gratio_strong_div : forall x, 1/1000 <= x <= 3/4 -> 0 <= (gratio x - 3) / (x*x) <= 3/2.
Proof.
  intros x Hx. unfold gratio, gq0s, gq0.
  interval with (i_taylor x, i_bisect x, i_prec 160, i_depth 50, i_degree 20).
Qed.

Lemma gratio_strong x : 1/1000 <= x <= 3/4 -> 3 <= gratio x <= 3 + 3/2*(x*x).
Proof.
  intros Hx. destruct (gratio_strong_div x Hx) as [L U].
  assert (Hxx : 0 < x*x) by nra.
  assert (E : gratio x - 3 = (gratio x - 3)/(x*x) * (x*x)) by (field; lra).
  split; nra.
Qed.
