(* GeodesyBase.v — mathematics of the level ellipsoid used by property C16; independent of generated code and of
   the Interval library (the three enclosures proved with Interval are in Geodesy.v, which re-exports this file).
   q0, q0' of Moritz (Geodetic Reference System 1980) as functions of the second eccentricity x = e',
   the range of e' for flattenings in [1e-6, 0.2], and the
   elementary inequalities behind positivity, the near-sphere bound and monotone decrease with height. *)
From Coq Require Import Reals Lra Lia.
Open Scope R_scope.

Definition gq0 (x : R) : R := 1/2 * ((1 + 3/(x*x)) * atan x - 3/x).
Definition gq0s (x : R) : R := 3 * ((1 + 1/(x*x)) * (1 - atan x / x)) - 1.
(* e' q0' / q0 : tends to 3 as e' -> 0 *)
Definition gratio (x : R) : R := x * gq0s x / gq0 x.



(* second eccentricity as the code computes it, and its range on the property's domain *)
Definition ges2 (a f : R) : R := (a^2 - (a*(1-f))^2) / (a*(1-f))^2.

Lemma ges2_closed a f : a <> 0 -> f <> 1 -> ges2 a f = (2*f - f*f) / ((1-f)*(1-f)).
Proof. intros Ha Hf. unfold ges2. field. split; lra. Qed.

Lemma ges2_range a f : a <> 0 -> 1/1000000 <= f <= 1/5 -> 1/1000000 <= ges2 a f <= 9/16.
Proof.
  intros Ha Hf. rewrite ges2_closed by lra.
  assert (Hd : 0 < (1-f)*(1-f)) by nra.
  split.
  - apply Rmult_le_reg_r with ((1-f)*(1-f)); [exact Hd|].
    replace ((2*f - f*f) / ((1-f)*(1-f)) * ((1-f)*(1-f))) with (2*f - f*f) by (field; lra). nra.
  - apply Rmult_le_reg_r with ((1-f)*(1-f)); [exact Hd|].
    replace ((2*f - f*f) / ((1-f)*(1-f)) * ((1-f)*(1-f))) with (2*f - f*f) by (field; lra). nra.
Qed.

Lemma ges_range a f : a <> 0 -> 1/1000000 <= f <= 1/5 -> 1/1000 <= sqrt (ges2 a f) <= 3/4.
Proof.
  intros Ha Hf. destruct (ges2_range a f Ha Hf) as [L U]. split.
  - replace (1/1000) with (sqrt ((1/1000)*(1/1000))) by (rewrite sqrt_square; lra).
    apply sqrt_le_1_alt. lra.
  - replace (3/4) with (sqrt ((3/4)*(3/4))) by (rewrite sqrt_square; lra).
    apply sqrt_le_1_alt. lra.
Qed.

(* the guard of property C16 (semi-major axis, flattening in [1e-6, 0.2], GM > 0), m and e' as the code computes them *)
Definition dom (a f GM : R) : Prop := 0 < a /\ 1/1000000 <= f <= 1/5 /\ 0 < GM.
Definition mof (a f GM w : R) : R := w*w*(a*a)*(a*(1-f))/GM.
Definition es (a f : R) : R := sqrt (ges2 a f).

(* ---- closed forms of equatorial / polar normal gravity in terms of r = e' q0'/q0 ---------------- *)
Definition ge_of (a b GM m r : R) : R := GM * (1 - m - m*r/6) / (a*b).
Definition gp_of (a GM m r : R) : R := GM * (1 + m*r/3) / (a*a).

(* Pizzetti: 2 ge/a + gp/b = 3GM/(a^2 b) - 2 w^2, for any value of r *)
Lemma pizzetti_of a b GM w r : a <> 0 -> b <> 0 -> GM <> 0 ->
  let m := w*w*(a*a)*b/GM in
  2 * ge_of a b GM m r / a + gp_of a GM m r / b = 3*GM/(a*a*b) - 2*(w*w).
Proof. intros Ha Hb HG m. unfold m, ge_of, gp_of. field. repeat split; assumption. Qed.

Lemma ge_of_pos a b GM m r : 0 < a -> 0 < b -> 0 < GM -> 0 <= m < 1/20 -> 29/10 <= r <= 38/10 ->
  0 < ge_of a b GM m r.
Proof.
  intros Ha Hb HG Hm Hr. unfold ge_of. apply Rdiv_lt_0_compat; [|nra].
  apply Rmult_lt_0_compat; [exact HG|]. nra.
Qed.

Lemma gp_of_pos a GM m r : 0 < a -> 0 < GM -> 0 <= m -> 0 <= r -> 0 < gp_of a GM m r.
Proof.
  intros Ha HG Hm Hr. unfold gp_of. apply Rdiv_lt_0_compat; [|nra].
  apply Rmult_lt_0_compat; [exact HG|]. nra.
Qed.

(* distance to the rotating-sphere values GM(1-3m/2)/(ab), GM(1+m)/a^2 *)
Lemma ge_of_near_sphere a b GM m r : 0 < a -> 0 < b -> 0 < GM -> 0 <= m -> 29/10 <= r <= 38/10 ->
  Rabs (ge_of a b GM m r - GM*(1 - 3*m/2)/(a*b)) <= 3/20 * m * GM/(a*b).
Proof.
  intros Ha Hb HG Hm Hr. unfold ge_of.
  replace (GM * (1 - m - m*r/6) / (a*b) - GM*(1 - 3*m/2)/(a*b)) with ((GM/(a*b)) * (m*(3-r)/6)) by (field; lra).
  replace (3/20 * m * GM/(a*b)) with ((GM/(a*b)) * (3/20*m)) by (field; lra).
  assert (Hq : 0 < GM/(a*b)) by (apply Rdiv_lt_0_compat; nra).
  rewrite Rabs_mult, (Rabs_right (GM/(a*b))) by lra.
  apply Rmult_le_compat_l; [lra|]. apply Rabs_le. nra.
Qed.

Lemma gp_of_near_sphere a GM m r : 0 < a -> 0 < GM -> 0 <= m -> 29/10 <= r <= 38/10 ->
  Rabs (gp_of a GM m r - GM*(1 + m)/(a*a)) <= 3/10 * m * GM/(a*a).
Proof.
  intros Ha HG Hm Hr. unfold gp_of.
  replace (GM * (1 + m*r/3) / (a*a) - GM*(1 + m)/(a*a)) with ((GM/(a*a)) * (m*(r-3)/3)) by (field; lra).
  replace (3/10 * m * GM/(a*a)) with ((GM/(a*a)) * (3/10*m)) by (field; lra).
  assert (Hq : 0 < GM/(a*a)) by (apply Rdiv_lt_0_compat; nra).
  rewrite Rabs_mult, (Rabs_right (GM/(a*a))) by lra.
  apply Rmult_le_compat_l; [lra|]. apply Rabs_le. nra.
Qed.

(* ---- Somigliana on the surface and the second-order height factor ------------------------------ *)
(* surface gravity with s = sin^2(lat):  ge (1 + k s)/sqrt(1 - e2 s),  k = b gp/(a ge) - 1 *)
Definition somig (a b ge gp e2 s : R) : R := ge * (1 + ((b*gp)/(a*ge) - 1) * s) / sqrt (1 - e2*s).
Definition hfac (a f m s h : R) : R := 1 - 2*h*(1 + f + m - 2*f*s)/a + 3*(h*h)/(a*a).

Lemma somig_pos a b ge gp e2 s : 0 < a -> 0 < b -> 0 < ge -> 0 < gp -> e2 < 1 -> 0 <= e2 -> 0 <= s <= 1 ->
  0 < somig a b ge gp e2 s.
Proof.
  intros Ha Hb Hge Hgp He He0 Hs. unfold somig.
  assert (Hr : 0 < 1 - e2*s) by nra.
  apply Rdiv_lt_0_compat; [|apply sqrt_lt_R0; exact Hr].
  replace (ge * (1 + ((b*gp)/(a*ge) - 1) * s)) with (ge*(1-s) + (b*gp/a)*s) by (field; lra).
  assert (Hq : 0 < b*gp/a) by (apply Rdiv_lt_0_compat; nra).
  destruct (Rle_lt_dec s (1/2)); nra.
Qed.

Lemma hfac_pos a f m s h : 0 < a -> 0 <= f <= 1/5 -> 0 <= m < 1/20 -> 0 <= s <= 1 -> 0 <= h <= a/200 -> 0 < hfac a f m s h.
Proof.
  intros Ha Hf Hm Hs Hh. unfold hfac.
  set (t := h/a). assert (Ht : 0 <= t <= 1/200).
  { unfold t. split; [apply Rmult_le_pos; [lra|left; apply Rinv_0_lt_compat; lra]|].
    apply Rmult_le_reg_r with a; [lra|]. unfold Rdiv. rewrite Rmult_assoc, Rinv_l by lra. lra. }
  replace (1 - 2*h*(1 + f + m - 2*f*s)/a + 3*(h*h)/(a*a)) with (1 - 2*t*(1 + f + m - 2*f*s) + 3*(t*t)) by (unfold t; field; lra).
  assert (0 <= f*s) by nra. assert (f*s <= f) by nra. nra.
Qed.

Lemma hfac_decreasing a f m s h1 h2 : 0 < a -> 0 <= f <= 1/5 -> 0 <= m -> 0 <= s <= 1 -> 0 <= h1 -> h1 < h2 -> h2 <= a/200 ->
  hfac a f m s h2 < hfac a f m s h1.
Proof.
  intros Ha Hf Hm Hs H1 H12 H2. unfold hfac.
  set (t1 := h1/a). set (t2 := h2/a).
  assert (Hia : 0 < /a) by (apply Rinv_0_lt_compat; lra).
  assert (Ht1 : 0 <= t1) by (unfold t1; apply Rmult_le_pos; lra).
  assert (Ht12 : t1 < t2) by (unfold t1, t2, Rdiv; apply Rmult_lt_compat_r; lra).
  assert (Ht2 : t2 <= 1/200).
  { unfold t2. apply Rmult_le_reg_r with a; [lra|]. unfold Rdiv. rewrite Rmult_assoc, Rinv_l by lra. lra. }
  replace (1 - 2*h2*(1 + f + m - 2*f*s)/a + 3*(h2*h2)/(a*a)) with (1 - 2*t2*(1 + f + m - 2*f*s) + 3*(t2*t2)) by (unfold t2; field; lra).
  replace (1 - 2*h1*(1 + f + m - 2*f*s)/a + 3*(h1*h1)/(a*a)) with (1 - 2*t1*(1 + f + m - 2*f*s) + 3*(t1*t1)) by (unfold t1; field; lra).
  assert (Hc : 4/5 <= 1 + f + m - 2*f*s) by nra.
  assert (Hd : (1 - 2*t2*(1 + f + m - 2*f*s) + 3*(t2*t2)) - (1 - 2*t1*(1 + f + m - 2*f*s) + 3*(t1*t1))
               = (t2 - t1) * (3*(t1+t2) - 2*(1 + f + m - 2*f*s))) by ring.
  assert (Hneg : (t2 - t1) * (3*(t1+t2) - 2*(1 + f + m - 2*f*s)) < 0) by nra.
  lra.
Qed.

(* trigonometric values the Somigliana theorems need: the tracer maps DEG2RAD to (1/180)*PI *)
Lemma sin_deg_0 : sin (0 * (1/180 * PI)) = 0.
Proof. rewrite Rmult_0_l. apply sin_0. Qed.
Lemma sin_deg_90 : sin (90 * (1/180 * PI)) = 1.
Proof. replace (90 * (1/180 * PI)) with (PI/2) by field. apply sin_PI2. Qed.
Lemma sin_deg_m90 : sin ((-90) * (1/180 * PI)) = -1.
Proof. replace ((-90) * (1/180 * PI)) with (-(PI/2)) by field. rewrite sin_neg, sin_PI2. reflexivity. Qed.
Lemma sin_sqr_bounds x : 0 <= (sin x)^2 <= 1.
Proof. pose proof (SIN_bound x). simpl. nra. Qed.



(* continuity at f -> 0: with b = a(1-f), m = m0 (1-f) (m0 = w^2 a^3/GM is the sphere's m) and
   r - 3 <= (3/2) e'^2, the equatorial / polar values are within O(f) of the rotating-sphere values *)
Lemma ge_of_continuity a f GM m0 r : 0 < a -> 0 < GM -> 0 <= f <= 1/5 -> 0 <= m0 <= 1/16 ->
  3 <= r <= 3 + 3/2 * ((2*f - f*f)/((1-f)*(1-f))) ->
  Rabs (ge_of a (a*(1-f)) GM (m0*(1-f)) r - GM*(1 - 3*m0/2)/(a*a)) <= 13/10 * f * (GM/(a*a)).
Proof.
  intros Ha HG Hf Hm Hr. unfold ge_of.
  replace (GM * (1 - m0*(1-f) - m0*(1-f)*r/6) / (a*(a*(1-f))) - GM*(1 - 3*m0/2)/(a*a))
     with ((GM/(a*a)) * (f/(1-f) - m0*(r-3)/6)) by (field; lra).
  assert (Hq : 0 < GM/(a*a)) by (apply Rdiv_lt_0_compat; nra).
  rewrite Rabs_mult, (Rabs_right (GM/(a*a))) by lra.
  replace (13/10 * f * (GM/(a*a))) with ((GM/(a*a)) * (13/10*f)) by ring.
  apply Rmult_le_compat_l; [lra|].
  assert (Hd : 0 < (1-f)*(1-f)) by nra.
  assert (Hx2 : (2*f - f*f)/((1-f)*(1-f)) <= 25/8 * f).
  { apply Rmult_le_reg_r with ((1-f)*(1-f)); [exact Hd|].
    replace ((2*f - f*f)/((1-f)*(1-f)) * ((1-f)*(1-f))) with (2*f - f*f) by (field; lra). nra. }
  assert (Hf1 : 0 <= f/(1-f) <= 5/4 * f).
  { split; [apply Rmult_le_pos; [lra|left; apply Rinv_0_lt_compat; lra]|].
    apply Rmult_le_reg_r with (1-f); [lra|]. replace (f/(1-f)*(1-f)) with f by (field; lra). nra. }
  apply Rabs_le. nra.
Qed.

Lemma gp_of_continuity a f GM m0 r : 0 < a -> 0 < GM -> 0 <= f <= 1/5 -> 0 <= m0 ->
  3 <= r <= 3 + 3/2 * ((2*f - f*f)/((1-f)*(1-f))) ->
  Rabs (gp_of a GM (m0*(1-f)) r - GM*(1 + m0)/(a*a)) <= 3 * m0 * f * (GM/(a*a)).
Proof.
  intros Ha HG Hf Hm Hr. unfold gp_of.
  replace (GM * (1 + m0*(1-f)*r/3) / (a*a) - GM*(1 + m0)/(a*a))
     with ((GM/(a*a)) * (m0 * ((r-3)/3 - f*r/3))) by (field; lra).
  assert (Hq : 0 < GM/(a*a)) by (apply Rdiv_lt_0_compat; nra).
  rewrite Rabs_mult, (Rabs_right (GM/(a*a))) by lra.
  replace (3 * m0 * f * (GM/(a*a))) with ((GM/(a*a)) * (m0 * (3*f))) by ring.
  apply Rmult_le_compat_l; [lra|].
  rewrite Rabs_mult, (Rabs_right m0) by lra.
  apply Rmult_le_compat_l; [lra|].
  assert (Hd : 0 < (1-f)*(1-f)) by nra.
  assert (Hx2 : (2*f - f*f)/((1-f)*(1-f)) <= 25/8 * f).
  { apply Rmult_le_reg_r with ((1-f)*(1-f)); [exact Hd|].
    replace ((2*f - f*f)/((1-f)*(1-f)) * ((1-f)*(1-f))) with (2*f - f*f) by (field; lra). nra. }
  assert (Hx0 : 0 <= (2*f - f*f)/((1-f)*(1-f))).
  { apply Rmult_le_pos; [nra|left; apply Rinv_0_lt_compat; lra]. }
  apply Rabs_le. nra.
Qed.
