(* Base.v — vocabulary shared by every generated file (coq/gen) and every property file.
   Nothing here is specific to one property.  R-side only; the float side is FBase.v. *)
From Coq Require Import Reals List Lra.
Import ListNotations.
Open Scope R_scope.

(* What a traced call produces on one path: a flat list of numbers, or a Python exception. *)
Inductive exn := ValueError | TypeError | ZeroDivisionError | IndexError | AttributeError
               | KeyError | LinAlgError | OtherError.
Inductive outcome (A : Type) := Val (l : list A) | Raise (e : exn).
Arguments Val {A} l.
Arguments Raise {A} e.

Definition is_val {A} (o : outcome A) : Prop := match o with Val _ => True | Raise _ => False end.
Definition raises {A} (o : outcome A) (e : exn) : Prop := match o with Raise e' => e' = e | Val _ => False end.

(* numpy.sign *)
Definition Rsgn (x : R) : R := if Rlt_dec 0 x then 1 else if Rlt_dec x 0 then -1 else 0.

(* numpy.arctan2 on reals (principal value in (-PI, PI]) *)
Definition atan2 (y x : R) : R :=
  if Rlt_dec 0 x then atan (y / x)
  else if Rlt_dec x 0 then (if Rle_dec 0 y then atan (y / x) + PI else atan (y / x) - PI)
  else if Rlt_dec 0 y then PI / 2 else if Rlt_dec y 0 then - (PI / 2) else 0.

(* numpy.cbrt : the real cube root, odd *)
Definition Rcbrt (x : R) : R :=
  if Rlt_dec 0 x then Rpower x (1/3) else if Rlt_dec x 0 then - Rpower (- x) (1/3) else 0.

(* Python's float % : x - y * floor (x / y) *)
Definition Rfmod (x y : R) : R := x - y * IZR (Int_part (x / y)).

Lemma Rsgn_pos x : 0 < x -> Rsgn x = 1.
Proof. intros H; unfold Rsgn; destruct (Rlt_dec 0 x); [reflexivity|contradiction]. Qed.
Lemma Rsgn_neg x : x < 0 -> Rsgn x = -1.
Proof. intros H; unfold Rsgn; destruct (Rlt_dec 0 x); [lra|]. destruct (Rlt_dec x 0); [reflexivity|contradiction]. Qed.
Lemma Rsgn_0 : Rsgn 0 = 0.
Proof. unfold Rsgn; destruct (Rlt_dec 0 0); [lra|]. destruct (Rlt_dec 0 0); [lra|reflexivity]. Qed.
Lemma Rsgn_mul_abs x : Rsgn x * Rabs x = x.
Proof.
  unfold Rsgn. destruct (Rlt_dec 0 x).
  - rewrite Rabs_right; lra.
  - destruct (Rlt_dec x 0). + rewrite Rabs_left; lra. + assert (x = 0) by lra. subst. rewrite Rabs_R0. lra.
Qed.

(* sqrt facts used everywhere *)
Lemma sqrt_sq_abs x : sqrt (x * x) = Rabs x.
Proof. change (x * x) with (Rsqr x). apply sqrt_Rsqr_abs. Qed.
Lemma sqrt_mul_self x : 0 <= x -> sqrt x * sqrt x = x.
Proof. apply sqrt_sqrt. Qed.
Lemma sqrt_pos_ne0 x : 0 < x -> sqrt x <> 0.
Proof. intros H E. pose proof (sqrt_lt_R0 x H). lra. Qed.

(* Introduce s := sqrt e together with  s*s = e,  0 <= s  (and 0 < s when 0 < e is provable by tac). *)
Ltac name_sqrt e s :=
  let Hs := fresh "Hsq_" s in let Hp := fresh "Hge_" s in
  assert (Hp : 0 <= sqrt e) by apply sqrt_pos;
  assert (Hs : 0 <= e -> sqrt e * sqrt e = e) by apply sqrt_sqrt;
  set (s := sqrt e) in *.

(* Val [..] = Val [..]  ->  component equalities *)
Lemma Val_inj {A} (l1 l2 : list A) : l1 = l2 -> Val l1 = Val l2.
Proof. intros ->; reflexivity. Qed.
Ltac val_eq := apply Val_inj; repeat (apply f_equal2; [|try reflexivity]).

(* destruct every Rlt_dec / Rle_dec / Req_EM_T appearing in the goal, one at a time *)
Ltac destr_dec :=
  match goal with
  | |- context [Rlt_dec ?a ?b] => destruct (Rlt_dec a b)
  | |- context [Rle_dec ?a ?b] => destruct (Rle_dec a b)
  | |- context [Req_EM_T ?a ?b] => destruct (Req_EM_T a b)
  end.
