(* FBase.v — float-side vocabulary for the executable copies (correspondence check only). *)
From Coq Require Import List. From Coq Require Import Uint63. From Coq Require Import PrimFloat.
Import ListNotations.
Open Scope float_scope.

Inductive exn := ValueError | TypeError | ZeroDivisionError | IndexError | AttributeError
               | KeyError | LinAlgError | OtherError.
Inductive outcome (A : Type) := Val (l : list A) | Raise (e : exn).
Arguments Val {A} l.
Arguments Raise {A} e.

Definition fmax (a b : float) : float := if PrimFloat.ltb a b then b else a.
Definition fmin (a b : float) : float := if PrimFloat.ltb b a then b else a.
Definition fsgn (a : float) : float := if PrimFloat.ltb 0 a then 1 else if PrimFloat.ltb a 0 then (-1) else 0.
