(* Atan2.v — facts about the `atan2` of Base.v (numpy.arctan2 on reals) and about Python's float modulo
   by a full turn.  Independent of any generated code.
     atan2_sincos  : 0 < k -> -PI < r <= PI -> atan2 (k * sin r) (k * cos r) = r        (all quadrants)
     atan2_scale   : 0 < k -> atan2 (k*y) (k*x) = atan2 y x
     atan2_range   : -PI < atan2 y x <= PI
     atan2_acos / atan2_asin : on the unit circle, upper half / right half
     atan2_polar   : (x,y) <> (0,0) -> x = rho cos(atan2 y x) /\ y = rho sin(atan2 y x), rho = sqrt(x²+y²)
     fmod_2PI_0    : Rfmod x (2*PI) = 0 -> cos x = 1 /\ sin x = 0 *)
From Coq Require Import Reals Lra Lia.
From AhrsLib Require Import Base.
Open Scope R_scope.

Lemma atan2_pos_x y x : 0 < x -> atan2 y x = atan (y / x).
Proof. intros H. unfold atan2. destruct (Rlt_dec 0 x); [reflexivity|contradiction]. Qed.

Lemma atan2_neg_x_nonneg_y y x : x < 0 -> 0 <= y -> atan2 y x = atan (y / x) + PI.
Proof.
  intros Hx Hy. unfold atan2. destruct (Rlt_dec 0 x); [lra|]. destruct (Rlt_dec x 0); [|lra].
  destruct (Rle_dec 0 y); [reflexivity|contradiction].
Qed.

Lemma atan2_neg_x_neg_y y x : x < 0 -> y < 0 -> atan2 y x = atan (y / x) - PI.
Proof.
  intros Hx Hy. unfold atan2. destruct (Rlt_dec 0 x); [lra|]. destruct (Rlt_dec x 0); [|lra].
  destruct (Rle_dec 0 y); [lra|reflexivity].
Qed.

Lemma atan2_0_x_pos_y y : 0 < y -> atan2 y 0 = PI / 2.
Proof. intros H. unfold atan2. destruct (Rlt_dec 0 0); [lra|]. destruct (Rlt_dec 0 y); [reflexivity|contradiction]. Qed.

Lemma atan2_0_x_neg_y y : y < 0 -> atan2 y 0 = - (PI / 2).
Proof.
  intros H. unfold atan2. destruct (Rlt_dec 0 0); [lra|]. destruct (Rlt_dec 0 y); [lra|].
  destruct (Rlt_dec y 0); [reflexivity|contradiction].
Qed.

Lemma atan2_0_0 : atan2 0 0 = 0.
Proof. unfold atan2. destruct (Rlt_dec 0 0); [lra|reflexivity]. Qed.

(* the quotient (k sin a)/(k cos a) is tan a *)
Lemma ksin_kcos_tan k a : k <> 0 -> cos a <> 0 -> (k * sin a) / (k * cos a) = tan a.
Proof. intros Hk Hc. unfold tan. field. split; assumption. Qed.

(* principal lemma: atan2 inverts the polar parametrisation on (-PI, PI], in every quadrant *)
Lemma atan2_sincos k r : 0 < k -> - PI < r -> r <= PI -> atan2 (k * sin r) (k * cos r) = r.
Proof.
  intros Hk Hlo Hhi. pose proof PI_RGT_0 as Hpi.
  destruct (Rlt_dec (- (PI / 2)) r) as [H1|H1].
  - destruct (Rlt_dec r (PI / 2)) as [H2|H2].
    + (* right half plane *)
      assert (Hc : 0 < cos r) by (apply cos_gt_0; lra).
      rewrite atan2_pos_x by (apply Rmult_lt_0_compat; lra).
      rewrite ksin_kcos_tan by lra. apply atan_tan; lra.
    + destruct (Req_dec r (PI / 2)) as [E|NE].
      * subst r. rewrite cos_PI2, sin_PI2, Rmult_0_r, Rmult_1_r. apply atan2_0_x_pos_y; exact Hk.
      * (* second quadrant: PI/2 < r <= PI *)
        assert (H3 : PI / 2 < r) by lra.
        assert (Hc : cos r < 0) by (apply cos_lt_0; lra).
        assert (Hs : 0 <= sin r) by (apply sin_ge_0; lra).
        rewrite atan2_neg_x_nonneg_y; [| nra | nra].
        assert (Hs' : sin (r - PI) = - sin r) by (rewrite sin_minus, cos_PI, sin_PI; ring).
        assert (Hc' : cos (r - PI) = - cos r) by (rewrite cos_minus, cos_PI, sin_PI; ring).
        replace ((k * sin r) / (k * cos r)) with (tan (r - PI)).
        { rewrite atan_tan by lra. ring. }
        unfold tan. rewrite Hs', Hc'. field. split; lra.
  - destruct (Req_dec r (- (PI / 2))) as [E|NE].
    + subst r. rewrite cos_neg, sin_neg, cos_PI2, sin_PI2, Rmult_0_r. apply atan2_0_x_neg_y. lra.
    + (* third quadrant: -PI < r < -PI/2 *)
      assert (H3 : r < - (PI / 2)) by lra.
      assert (Hc : cos r < 0).
      { rewrite <- cos_neg. apply cos_lt_0; lra. }
      assert (Hs : sin r < 0).
      { assert (0 < sin (- r)) by (apply sin_gt_0; lra). rewrite sin_neg in H. lra. }
      rewrite atan2_neg_x_neg_y; [| nra | nra].
      assert (Hs' : sin (r + PI) = - sin r) by (rewrite sin_plus, cos_PI, sin_PI; ring).
      assert (Hc' : cos (r + PI) = - cos r) by (rewrite cos_plus, cos_PI, sin_PI; ring).
      replace ((k * sin r) / (k * cos r)) with (tan (r + PI)).
      { rewrite atan_tan by lra. ring. }
      unfold tan. rewrite Hs', Hc'. field. split; lra.
Qed.

Lemma atan2_sincos1 r : - PI < r -> r <= PI -> atan2 (sin r) (cos r) = r.
Proof. intros. rewrite <- (atan2_sincos 1 r) at 3 by lra. rewrite !Rmult_1_l. reflexivity. Qed.

Lemma atan2_scale k y x : 0 < k -> atan2 (k * y) (k * x) = atan2 y x.
Proof.
  intros Hk. unfold atan2.
  assert (E : (k * y) / (k * x) = y / x \/ x = 0).
  { destruct (Req_dec x 0); [right; assumption|left; field; split; lra]. }
  destruct (Rlt_dec 0 x) as [Hx|Hx].
  - destruct (Rlt_dec 0 (k * x)) as [_|N]; [|exfalso; apply N; apply Rmult_lt_0_compat; lra].
    destruct E as [->|]; [reflexivity|lra].
  - destruct (Rlt_dec 0 (k * x)) as [P|_]; [exfalso; nra|].
    destruct (Rlt_dec x 0) as [Hx'|Hx'].
    + destruct (Rlt_dec (k * x) 0) as [_|N]; [|exfalso; nra].
      destruct E as [->|]; [|lra].
      destruct (Rle_dec 0 y); destruct (Rle_dec 0 (k * y)); try reflexivity; exfalso; nra.
    + destruct (Rlt_dec (k * x) 0) as [P|_]; [exfalso; nra|].
      destruct (Rlt_dec 0 y); destruct (Rlt_dec 0 (k * y)); try reflexivity; try (exfalso; nra).
      destruct (Rlt_dec y 0); destruct (Rlt_dec (k * y) 0); try reflexivity; exfalso; nra.
Qed.

Lemma atan2_range y x : - PI < atan2 y x <= PI.
Proof.
  pose proof PI_RGT_0 as Hpi. pose proof (atan_bound (y / x)) as [Hl Hu].
  unfold atan2. destruct (Rlt_dec 0 x) as [Hx|Hx]; [lra|].
  destruct (Rlt_dec x 0) as [Hx'|Hx'].
  - destruct (Rle_dec 0 y) as [Hy|Hy].
    + (* y/x <= 0, so atan <= 0 *)
      assert (y / x <= 0).
      { unfold Rdiv. assert (/ x < 0) by (apply Rinv_lt_0_compat; exact Hx'). nra. }
      assert (atan (y / x) <= 0).
      { destruct (Req_dec (y / x) 0) as [->|]; [rewrite atan_0; lra|].
        rewrite <- atan_0. left. apply atan_increasing. lra. }
      lra.
    + assert (0 < y / x).
      { unfold Rdiv. assert (/ x < 0) by (apply Rinv_lt_0_compat; exact Hx'). nra. }
      assert (0 < atan (y / x)) by (rewrite <- atan_0; apply atan_increasing; assumption).
      lra.
  - destruct (Rlt_dec 0 y); [lra|]. destruct (Rlt_dec y 0); lra.
Qed.

(* every non-zero point of the plane is rho*(cos t, sin t) with t = atan2 y x *)
Lemma atan2_polar x y : 0 < x * x + y * y ->
  x = sqrt (x * x + y * y) * cos (atan2 y x) /\ y = sqrt (x * x + y * y) * sin (atan2 y x).
Proof.
  intros Hp. pose proof PI_RGT_0 as Hpi.
  set (rho := sqrt (x * x + y * y)).
  assert (Hr : 0 < rho) by (apply sqrt_lt_R0; exact Hp).
  assert (Hr2 : rho * rho = x * x + y * y) by (apply sqrt_sqrt; lra).
  (* the point (x/rho, y/rho) is on the unit circle: take its angle in (-PI, PI] *)
  set (c := x / rho). set (s := y / rho).
  assert (Hcs : c * c + s * s = 1).
  { replace (c * c + s * s) with ((x * x + y * y) / (rho * rho)) by (unfold c, s; field; lra).
    rewrite <- Hr2. field. lra. }
  assert (Hc1 : -1 <= c <= 1) by nra.
  (* angle t with cos t = c and sin t = s *)
  assert (Ht : exists t, - PI < t <= PI /\ cos t = c /\ sin t = s).
  { destruct (Rle_dec 0 s) as [Hs|Hs].
    - exists (acos c). pose proof (acos_bound c) as [B1 B2].
      split; [lra|]. split; [apply cos_acos; lra|].
      rewrite sin_acos by lra. apply Rsqr_inj; [apply sqrt_pos|exact Hs|].
      unfold Rsqr. rewrite sqrt_sqrt by (unfold Rsqr; nra). unfold Rsqr. lra.
    - exists (- acos c). pose proof (acos_bound c) as [B1 B2].
      assert (acos c <> PI).
      { intros E. assert (cos (acos c) = -1) by (rewrite E; apply cos_PI). rewrite cos_acos in H by lra. nra. }
      split; [lra|]. split; [rewrite cos_neg; apply cos_acos; lra|].
      rewrite sin_neg, sin_acos by lra.
      assert (sqrt (1 - c²) = - s).
      { apply Rsqr_inj; [apply sqrt_pos|lra|]. unfold Rsqr. rewrite sqrt_sqrt by (unfold Rsqr; nra). unfold Rsqr. lra. }
      lra. }
  destruct Ht as (t & (T1 & T2) & Tc & Ts).
  assert (Ex : x = rho * cos t) by (rewrite Tc; unfold c; field; lra).
  assert (Ey : y = rho * sin t) by (rewrite Ts; unfold s; field; lra).
  assert (Ea : atan2 y x = t).
  { rewrite Ex at 1. rewrite Ey at 1. apply atan2_sincos; assumption. }
  rewrite Ea. split; assumption.
Qed.

(* on the unit circle: upper half-plane -> acos of the abscissa; right half-plane -> asin of the ordinate *)
Lemma atan2_acos x y : x * x + y * y = 1 -> 0 <= y -> atan2 y x = acos x.
Proof.
  intros Hu Hy. pose proof PI_RGT_0 as Hpi.
  assert (Hx : -1 <= x <= 1) by nra.
  pose proof (acos_bound x) as [B1 B2].
  assert (Hs : sin (acos x) = y).
  { rewrite sin_acos by lra. apply Rsqr_inj; [apply sqrt_pos|exact Hy|].
    unfold Rsqr. rewrite sqrt_sqrt by (unfold Rsqr; nra). unfold Rsqr. lra. }
  rewrite <- Hs at 1. rewrite <- (cos_acos x) at 2 by lra. apply atan2_sincos1; lra.
Qed.

Lemma atan2_asin x y : x * x + y * y = 1 -> 0 < x -> atan2 y x = asin y.
Proof.
  intros Hu Hx. pose proof PI_RGT_0 as Hpi.
  assert (Hy : -1 < y < 1) by nra.
  pose proof (asin_bound y) as [B1 B2].
  assert (Hc : cos (asin y) = x).
  { rewrite cos_asin by lra. apply Rsqr_inj; [apply sqrt_pos|lra|].
    unfold Rsqr. rewrite sqrt_sqrt by (unfold Rsqr; nra). unfold Rsqr. lra. }
  rewrite <- Hc. rewrite <- (sin_asin y) at 1 by lra. apply atan2_sincos1; lra.
Qed.

(* ---- whole turns ---------------------------------------------------------------------- *)
Lemma cos_sin_2PI_Z (k : Z) : cos (2 * PI * IZR k) = 1 /\ sin (2 * PI * IZR k) = 0.
Proof.
  assert (N : forall n : nat, cos (2 * PI * INR n) = 1 /\ sin (2 * PI * INR n) = 0).
  { intros n. replace (2 * PI * INR n) with (0 + 2 * INR n * PI) by ring.
    rewrite cos_period, sin_period, cos_0, sin_0. split; reflexivity. }
  destruct (Z_le_gt_dec 0 k) as [H|H].
  - rewrite <- (Z2Nat.id k H), <- INR_IZR_INZ. apply N.
  - assert (Hk : (0 <= - k)%Z) by lia.
    replace (IZR k) with (- IZR (- k)) by (rewrite opp_IZR; ring).
    replace (2 * PI * - IZR (- k)) with (- (2 * PI * IZR (- k))) by ring.
    rewrite cos_neg, sin_neg, <- (Z2Nat.id (- k) Hk), <- INR_IZR_INZ.
    destruct (N (Z.to_nat (- k))) as [-> ->]. split; ring.
Qed.

Lemma fmod_2PI_0 x : Rfmod x (2 * PI) = 0 -> cos x = 1 /\ sin x = 0.
Proof.
  unfold Rfmod. intros H.
  replace x with (2 * PI * IZR (Int_part (x / (2 * PI)))) by lra.
  apply cos_sin_2PI_Z.
Qed.
