(* Rot.v — specification-level quaternion / rotation-matrix algebra on flat lists.
   Quaternions are [w;x;y;z]; 3x3 matrices are 9-element row-major lists; vectors 3-lists.
   Everything here is independent of the code: it is what the generated terms are compared to. *)
From Coq Require Import Reals List Lra Nsatz.
From AhrsLib Require Import Base.
Import ListNotations.
Open Scope R_scope.

Definition e (A : list R) (i : nat) : R := List.nth i A 0.

Definition I3 : list R := [1;0;0; 0;1;0; 0;0;1].
Definition mtr3 (A : list R) : list R :=
  [e A 0; e A 3; e A 6;  e A 1; e A 4; e A 7;  e A 2; e A 5; e A 8].
Definition mmul3 (A B : list R) : list R :=
  [e A 0*e B 0 + e A 1*e B 3 + e A 2*e B 6; e A 0*e B 1 + e A 1*e B 4 + e A 2*e B 7; e A 0*e B 2 + e A 1*e B 5 + e A 2*e B 8;
   e A 3*e B 0 + e A 4*e B 3 + e A 5*e B 6; e A 3*e B 1 + e A 4*e B 4 + e A 5*e B 7; e A 3*e B 2 + e A 4*e B 5 + e A 5*e B 8;
   e A 6*e B 0 + e A 7*e B 3 + e A 8*e B 6; e A 6*e B 1 + e A 7*e B 4 + e A 8*e B 7; e A 6*e B 2 + e A 7*e B 5 + e A 8*e B 8].
Definition det3 (A : list R) : R :=
  e A 0 * (e A 4 * e A 8 - e A 5 * e A 7) - e A 1 * (e A 3 * e A 8 - e A 5 * e A 6) + e A 2 * (e A 3 * e A 7 - e A 4 * e A 6).
Definition mvec3 (A v : list R) : list R :=
  [e A 0*e v 0 + e A 1*e v 1 + e A 2*e v 2; e A 3*e v 0 + e A 4*e v 1 + e A 5*e v 2; e A 6*e v 0 + e A 7*e v 1 + e A 8*e v 2].
Definition tr3 (A : list R) : R := e A 0 + e A 4 + e A 8.

Definition SO3 (A : list R) : Prop := length A = 9%nat /\ mmul3 A (mtr3 A) = I3 /\ mmul3 (mtr3 A) A = I3 /\ det3 A = 1.

(* quaternions *)
Definition qmul (p q : list R) : list R :=
  [e p 0*e q 0 - e p 1*e q 1 - e p 2*e q 2 - e p 3*e q 3;
   e p 0*e q 1 + e p 1*e q 0 + e p 2*e q 3 - e p 3*e q 2;
   e p 0*e q 2 - e p 1*e q 3 + e p 2*e q 0 + e p 3*e q 1;
   e p 0*e q 3 + e p 1*e q 2 - e p 2*e q 1 + e p 3*e q 0].
Definition qconj (q : list R) : list R := [e q 0; - e q 1; - e q 2; - e q 3].
Definition qneg (q : list R) : list R := [- e q 0; - e q 1; - e q 2; - e q 3].
Definition qnorm2 (q : list R) : R := e q 0*e q 0 + e q 1*e q 1 + e q 2*e q 2 + e q 3*e q 3.
Definition qscale (k : R) (q : list R) : list R := [k*e q 0; k*e q 1; k*e q 2; k*e q 3].
Definition qone : list R := [1;0;0;0].
Definition unitq (q : list R) : Prop := length q = 4%nat /\ qnorm2 q = 1.

(* the rotation matrix of a unit quaternion, textbook form *)
Definition Rspec (q : list R) : list R :=
  let w := e q 0 in let x := e q 1 in let y := e q 2 in let z := e q 3 in
  [1 - 2*(y*y+z*z); 2*(x*y-w*z); 2*(x*z+w*y);
   2*(x*y+w*z); 1 - 2*(x*x+z*z); 2*(y*z-w*x);
   2*(x*z-w*y); 2*(w*x+y*z); 1 - 2*(x*x+y*y)].
(* homogeneous form: equals Rspec on unit quaternions, multiplicative on all quaternions *)
Definition Rhom (q : list R) : list R :=
  let w := e q 0 in let x := e q 1 in let y := e q 2 in let z := e q 3 in
  [w*w+x*x-y*y-z*z; 2*(x*y-w*z); 2*(x*z+w*y);
   2*(x*y+w*z); w*w-x*x+y*y-z*z; 2*(y*z-w*x);
   2*(x*z-w*y); 2*(w*x+y*z); w*w-x*x-y*y+z*z].
(* vector part of q (0,v) q* *)
Definition sandwich (q v : list R) : list R :=
  let r := qmul (qmul q [0; e v 0; e v 1; e v 2]) (qconj q) in [e r 1; e r 2; e r 3].

Ltac unfold_rot := cbv [Rspec Rhom mmul3 mtr3 det3 mvec3 tr3 qmul qconj qneg qnorm2 qscale qone sandwich I3 e List.nth].

Lemma Rhom_mul p q : Rhom (qmul p q) = mmul3 (Rhom p) (Rhom q).
Proof. unfold_rot. list_eq; ring. Qed.

Lemma Rspec_Rhom w x y z : w*w+x*x+y*y+z*z = 1 -> Rspec [w;x;y;z] = Rhom [w;x;y;z].
Proof. intros H. orient_unit. unfold_rot. list_eq; uring. Qed.

Lemma qnorm2_mul p q : qnorm2 (qmul p q) = qnorm2 p * qnorm2 q.
Proof. unfold_rot. ring. Qed.

Lemma Rspec_SO3 w x y z : w*w+x*x+y*y+z*z = 1 -> SO3 (Rspec [w;x;y;z]).
Proof.
  intros H. orient_unit. unfold SO3. split; [reflexivity|]. unfold_rot.
  split; [list_eq; uring|]. split; [list_eq; uring|uring].
Qed.

Lemma Rspec_mul a b c d w x y z :
  a*a+b*b+c*c+d*d = 1 -> w*w+x*x+y*y+z*z = 1 ->
  Rspec (qmul [a;b;c;d] [w;x;y;z]) = mmul3 (Rspec [a;b;c;d]) (Rspec [w;x;y;z]).
Proof. intros H1 H2. orient_unit. unfold_rot. list_eq; uring. Qed.

Lemma Rspec_neg w x y z : Rspec (qneg [w;x;y;z]) = Rspec [w;x;y;z].
Proof. unfold_rot. list_eq; ring. Qed.

Lemma Rspec_conj w x y z : Rspec (qconj [w;x;y;z]) = mtr3 (Rspec [w;x;y;z]).
Proof. unfold_rot. list_eq; ring. Qed.

Lemma Rspec_sandwich w x y z v0 v1 v2 : w*w+x*x+y*y+z*z = 1 ->
  mvec3 (Rspec [w;x;y;z]) [v0;v1;v2] = sandwich [w;x;y;z] [v0;v1;v2].
Proof. intros H. orient_unit. unfold_rot. list_eq; uring. Qed.

Definition L9 (a0 a1 a2 a3 a4 a5 a6 a7 a8 : R) : list R := [a0;a1;a2;a3;a4;a5;a6;a7;a8].
Lemma len9 (A : list R) : length A = 9%nat -> exists a0 a1 a2 a3 a4 a5 a6 a7 a8, A = [a0;a1;a2;a3;a4;a5;a6;a7;a8].
Proof.
  intros L. do 9 (destruct A as [|? A]; [discriminate L|]). destruct A; [|discriminate L].
  repeat eexists.
Qed.
Lemma mmul3_len A B : length (mmul3 A B) = 9%nat. Proof. reflexivity. Qed.
Lemma mtr3_len A : length (mtr3 A) = 9%nat. Proof. reflexivity. Qed.
Lemma mmul3_assoc A B C : mmul3 (mmul3 A B) C = mmul3 A (mmul3 B C).
Proof. unfold_rot. list_eq; ring. Qed.
Lemma mtr3_mmul3 A B : mtr3 (mmul3 A B) = mmul3 (mtr3 B) (mtr3 A).
Proof. unfold_rot. list_eq; ring. Qed.
Lemma det3_mmul3 A B : det3 (mmul3 A B) = det3 A * det3 B.
Proof. unfold_rot. ring. Qed.
Lemma mmul3_I3_r A : length A = 9%nat -> mmul3 A I3 = A.
Proof. intros L. destruct (len9 A L) as (a0&a1&a2&a3&a4&a5&a6&a7&a8&->). unfold_rot. list_eq; ring. Qed.
Lemma mmul3_I3_l A : length A = 9%nat -> mmul3 I3 A = A.
Proof. intros L. destruct (len9 A L) as (a0&a1&a2&a3&a4&a5&a6&a7&a8&->). unfold_rot. list_eq; ring. Qed.
Lemma mtr3_invol A : length A = 9%nat -> mtr3 (mtr3 A) = A.
Proof. intros L. destruct (len9 A L) as (a0&a1&a2&a3&a4&a5&a6&a7&a8&->). reflexivity. Qed.

Lemma SO3_mul A B : SO3 A -> SO3 B -> SO3 (mmul3 A B).
Proof.
  intros (LA & A1 & A2 & A3) (LB & B1 & B2 & B3). unfold SO3.
  split; [reflexivity|]. rewrite mtr3_mmul3. split; [|split].
  - rewrite mmul3_assoc, <- (mmul3_assoc B), B1, mmul3_I3_l by (apply mtr3_len). exact A1.
  - rewrite mmul3_assoc, <- (mmul3_assoc (mtr3 A)), A2, mmul3_I3_l by exact LB. exact B2.
  - rewrite det3_mmul3, A3, B3. ring.
Qed.

Lemma SO3_tr A : SO3 A -> SO3 (mtr3 A).
Proof.
  intros (LA & A1 & A2 & A3). unfold SO3. split; [reflexivity|]. rewrite mtr3_invol by exact LA.
  split; [exact A2|]. split; [exact A1|].
  destruct (len9 A LA) as (a0&a1&a2&a3&a4&a5&a6&a7&a8&->). revert A3. unfold_rot. intros <-. ring.
Qed.
