(* C16_model.v — the regenerated ReferenceEllipsoid properties against their closed forms (dom, mof, es are in
   lib/GeodesyBase.v): equatorial / polar normal gravity in terms of r = e'q0'/q0, Pizzetti's theorem,
   positivity, the near-sphere bound and continuity towards f -> 0. *)
From Coq Require Import Reals List Lra.
From AhrsLib Require Import Base Geodesy.
From AhrsGen Require Import C16gen_R.
Import ListNotations.
Open Scope R_scope.

(* ---- equatorial and polar normal gravity ------------------------------------------------------- *)

Lemma es_in a f GM : dom a f GM -> 1/1000 <= es a f <= 3/4.
Proof. intros (Ha & Hf & _). apply ges_range; lra. Qed.

Lemma mof_nonneg a f GM w : dom a f GM -> 0 <= mof a f GM w.
Proof.
  intros (Ha & Hf & HG). unfold mof. apply Rmult_le_pos; [|left; apply Rinv_0_lt_compat; exact HG].
  assert (H1 : 0 <= w*w) by (pose proof (Rle_0_sqr w) as H; unfold Rsqr in H; exact H).
  assert (H2 : 0 <= a*a) by (pose proof (Rle_0_sqr a) as H; unfold Rsqr in H; exact H).
  assert (H3 : 0 <= a*(1-f)) by (apply Rmult_le_pos; lra).
  apply Rmult_le_pos; [apply Rmult_le_pos|]; assumption.
Qed.

(* the side condition `field` leaves for q0 <> 0 is (x^2+3) atan x - 3x <> 0: if it failed, atan x would be 3x/(x^2+3) *)
Lemma atan_from_side x : 0 < x -> (x*x + 3) * atan x - 3*x = 0 -> atan x = 3*x/(x*x+3).
Proof.
  intros Hx HH. apply Rmult_eq_reg_r with (x*x+3); [|nra].
  replace (3*x/(x*x+3)*(x*x+3)) with (3*x) by (field; nra). lra.
Qed.

Lemma ge_closed a f GM w : dom a f GM ->
  C16_ge_R a f GM w = Val [ge_of a (a*(1-f)) GM (mof a f GM w) (gratio (es a f))].
Proof.
  intros D. pose proof (es_in a f GM D) as Hx. destruct D as (Ha & Hf & HG).
  unfold C16_ge_R; cbv zeta.
  assert (Hb : 0 < a*(1-f)) by (apply Rmult_lt_0_compat; lra).
  match goal with |- context [sqrt ?e] => replace e with (ges2 a f) by (unfold ges2; field; repeat split; lra) end.
  fold (es a f). set (x := es a f) in *.
  pose proof (gq0_pos x Hx) as Hq.
  destr_dec; [exfalso; lra|].
  val_eq. unfold ge_of, mof, gratio, gq0s.
  assert (Hq0 : gq0 x <> 0) by lra. revert Hq0. unfold gq0. intro Hq0.
  field. repeat split; try lra.
  intro HH. apply Hq0. rewrite (atan_from_side x); [field; split; nra|lra|exact HH].
Qed.

Lemma gp_closed a f GM w : dom a f GM ->
  C16_gp_R a f GM w = Val [gp_of a GM (mof a f GM w) (gratio (es a f))].
Proof.
  intros D. pose proof (es_in a f GM D) as Hx. destruct D as (Ha & Hf & HG).
  unfold C16_gp_R; cbv zeta.
  assert (Hb : 0 < a*(1-f)) by (apply Rmult_lt_0_compat; lra).
  match goal with |- context [sqrt ?e] => replace e with (ges2 a f) by (unfold ges2; field; repeat split; lra) end.
  fold (es a f). set (x := es a f) in *.
  pose proof (gq0_pos x Hx) as Hq.
  destr_dec; [exfalso; lra|].
  val_eq. unfold gp_of, mof, gratio, gq0s.
  assert (Hq0 : gq0 x <> 0) by lra. revert Hq0. unfold gq0. intro Hq0.
  field. repeat split; try lra.
  intro HH. apply Hq0. rewrite (atan_from_side x); [field; split; nra|lra|exact HH].
Qed.

(* ---- Pizzetti: 2 ge/a + gp/b = 3GM/(a^2 b) - 2 w^2 --------------------------------------------- *)
Lemma pizzetti a f GM w : dom a f GM ->
  exists ge gp, C16_ge_R a f GM w = Val [ge] /\ C16_gp_R a f GM w = Val [gp] /\
    2*ge/a + gp/(a*(1-f)) = 3*GM/(a*a*(a*(1-f))) - 2*(w*w).
Proof.
  intros D. rewrite (ge_closed a f GM w D), (gp_closed a f GM w D).
  eexists _, _. split; [reflexivity|]. split; [reflexivity|].
  destruct D as (Ha & Hf & HG).
  apply (pizzetti_of a (a*(1-f)) GM w); try lra. apply Rmult_integral_contrapositive_currified; lra.
Qed.


(* ---- positivity ------------------------------------------------------------------------------ *)
Lemma ge_gp_positive a f GM w : dom a f GM -> mof a f GM w < 1/20 ->
  exists ge gp, C16_ge_R a f GM w = Val [ge] /\ C16_gp_R a f GM w = Val [gp] /\ 0 < ge /\ 0 < gp.
Proof.
  intros D Hm. rewrite (ge_closed a f GM w D), (gp_closed a f GM w D).
  eexists _, _. split; [reflexivity|]. split; [reflexivity|].
  pose proof (gratio_bounds _ (es_in a f GM D)) as Hr. pose proof (mof_nonneg a f GM w D) as Hm0.
  destruct D as (Ha & Hf & HG). split.
  - apply ge_of_pos; try lra. nra.
  - apply gp_of_pos; lra.
Qed.

(* ---- near the rotating sphere ------------------------------------------------------------------ *)
Lemma near_sphere a f GM w : dom a f GM ->
  exists ge gp, C16_ge_R a f GM w = Val [ge] /\ C16_gp_R a f GM w = Val [gp] /\
    let m := mof a f GM w in let b := a*(1-f) in
    Rabs (ge - GM*(1 - 3*m/2)/(a*b)) <= 3/20 * m * GM/(a*b) /\
    Rabs (gp - GM*(1 + m)/(a*a)) <= 3/10 * m * GM/(a*a).
Proof.
  intros D. rewrite (ge_closed a f GM w D), (gp_closed a f GM w D).
  eexists _, _. split; [reflexivity|]. split; [reflexivity|].
  pose proof (gratio_bounds _ (es_in a f GM D)) as Hr. pose proof (mof_nonneg a f GM w D) as Hm0.
  destruct D as (Ha & Hf & HG). cbv zeta. split.
  - apply ge_of_near_sphere; try lra. nra.
  - apply gp_of_near_sphere; lra.
Qed.

(* sharp version: r - 3 in [0, 3/2 e'^2], so the distance to the sphere values vanishes like m e'^2 *)
Lemma near_sphere_sharp a f GM w : dom a f GM ->
  exists ge gp, C16_ge_R a f GM w = Val [ge] /\ C16_gp_R a f GM w = Val [gp] /\
    let m := mof a f GM w in let b := a*(1-f) in let x2 := ges2 a f in
    GM*(1 - 3*m/2 - m*x2/4)/(a*b) <= ge <= GM*(1 - 3*m/2)/(a*b) /\
    GM*(1 + m)/(a*a) <= gp <= GM*(1 + m + m*x2/2)/(a*a).
Proof.
  intros D. rewrite (ge_closed a f GM w D), (gp_closed a f GM w D).
  eexists _, _. split; [reflexivity|]. split; [reflexivity|].
  pose proof (es_in a f GM D) as Hx. pose proof (gratio_strong _ Hx) as Hr. pose proof (mof_nonneg a f GM w D) as Hm0.
  assert (Hxx : es a f * es a f = ges2 a f).
  { unfold es. apply sqrt_sqrt. destruct D as (Ha & Hf & _). pose proof (ges2_range a f) as H. lra. }
  rewrite Hxx in Hr. destruct D as (Ha & Hf & HG). cbv zeta.
  set (m := mof a f GM w) in *. set (r := gratio (es a f)) in *. set (x2 := ges2 a f) in *.
  assert (Hab : 0 < a*(a*(1-f))) by (apply Rmult_lt_0_compat; nra). assert (Haa : 0 < a*a) by nra.
  assert (Hi1 : 0 < /(a*(a*(1-f)))) by (apply Rinv_0_lt_compat; exact Hab).
  assert (Hi2 : 0 < /(a*a)) by (apply Rinv_0_lt_compat; exact Haa).
  unfold ge_of, gp_of, Rdiv. repeat split; apply Rmult_le_compat_r; try lra; apply Rmult_le_compat_l; try lra; nra.
Qed.

(* ---- continuity towards f -> 0 (true on either tree: it does not mention the f = 0 branch) -------
   m0 = w^2 a^3/GM is the normal-gravity constant of the sphere of radius a *)
Lemma continuity_to_sphere a f GM w : dom a f GM -> w*w*(a*a*a)/GM <= 1/16 ->
  exists ge gp, C16_ge_R a f GM w = Val [ge] /\ C16_gp_R a f GM w = Val [gp] /\
    let m0 := w*w*(a*a*a)/GM in
    Rabs (ge - GM*(1 - 3*m0/2)/(a*a)) <= 13/10 * f * (GM/(a*a)) /\
    Rabs (gp - GM*(1 + m0)/(a*a)) <= 3 * m0 * f * (GM/(a*a)).
Proof.
  intros D Hm. rewrite (ge_closed a f GM w D), (gp_closed a f GM w D).
  eexists _, _. split; [reflexivity|]. split; [reflexivity|].
  pose proof (es_in a f GM D) as Hx. pose proof (gratio_strong _ Hx) as Hr.
  assert (Hxx : es a f * es a f = ges2 a f).
  { unfold es. apply sqrt_sqrt. destruct D as (Ha & Hf & _). pose proof (ges2_range a f) as H. lra. }
  rewrite Hxx in Hr. destruct D as (Ha & Hf & HG). rewrite ges2_closed in Hr by lra. cbv zeta.
  assert (Hm0 : 0 <= w*w*(a*a*a)/GM).
  { apply Rmult_le_pos; [|left; apply Rinv_0_lt_compat; exact HG].
    assert (H1 : 0 <= w*w) by (pose proof (Rle_0_sqr w) as H; unfold Rsqr in H; exact H).
    apply Rmult_le_pos; [exact H1|]. apply Rmult_le_pos; [|lra]. nra. }
  replace (mof a f GM w) with (w*w*(a*a*a)/GM*(1-f)) by (unfold mof; field; lra).
  split.
  - apply ge_of_continuity; lra.
  - apply gp_of_continuity; lra.
Qed.

(* non-vacuity: WGS84-like parameters lie in the domain with m < 1/20 *)
Example dom_inhabited : dom 6378137 (1/298) 398600441800000 /\ mof 6378137 (1/298) 398600441800000 (7292115/100000000000) < 1/20.
Proof. unfold dom, mof. split; [lra|]. lra. Qed.
