(* C16_a.v — property C16, statements only (part a: Pizzetti's theorem, positivity).
   Split from C16.v so that the Print Assumptions traversals of the Interval library run in parallel. *)
From Coq Require Import Reals List Lra.
From AhrsLib Require Import Base Geodesy.
From AhrsGen Require Import C16gen_R.
From AhrsProps Require Import C16_model C16_gravity.
Import ListNotations.
Open Scope R_scope.

(* Pizzetti's theorem for the implemented equatorial and polar normal gravity, on the property's domain *)
Theorem C16_pizzetti : forall a f GM w, 0 < a -> 1/1000000 <= f <= 1/5 -> 0 < GM ->
  exists ge gp, C16_ge_R a f GM w = Val [ge] /\ C16_gp_R a f GM w = Val [gp] /\
    2*ge/a + gp/(a*(1-f)) = 3*GM/(a*a*(a*(1-f))) - 2*(w*w).
Proof. intros a f GM w Ha Hf HG. apply pizzetti. unfold dom. tauto. Qed.
Print Assumptions C16_pizzetti.

(* positivity of ge, gp and of normal gravity at every latitude and every height up to 0.5 % of a *)
Theorem C16_positivity : forall a f GM w lat h, 0 < a -> 1/1000000 <= f <= 1/5 -> 0 < GM ->
  w*w*(a*a)*(a*(1-f))/GM < 1/20 -> 0 <= h <= a/200 ->
  exists ge gp g, C16_ge_R a f GM w = Val [ge] /\ C16_gp_R a f GM w = Val [gp] /\ C16_g_R a f GM w lat h = Val [g] /\
    0 < ge /\ 0 < gp /\ 0 < g.
Proof.
  intros a f GM w lat h Ha Hf HG Hm Hh. assert (D : dom a f GM) by (unfold dom; tauto).
  destruct (ge_gp_positive a f GM w D Hm) as (ge & gp & H1 & H2 & P1 & P2).
  exists ge, gp, (gamma a f GM w lat h). repeat split; try assumption.
  - apply g_closed; assumption.
  - apply gamma_pos; assumption.
Qed.
Print Assumptions C16_positivity.
