(* C16_c.v — property C16, statements only (part c: near-sphere bounds, continuity towards f -> 0).
   Split from C16.v so that the Print Assumptions traversals of the Interval library run in parallel. *)
From Coq Require Import Reals List Lra.
From AhrsLib Require Import Base Geodesy.
From AhrsGen Require Import C16gen_R.
From AhrsProps Require Import C16_model C16_gravity.
Import ListNotations.
Open Scope R_scope.

(* close to the rotating-sphere values GM(1 - 3m/2)/(ab), GM(1 + m)/a^2: explicit constants, and the sharp one-sided
   enclosure 0 <= e'q0'/q0 - 3 <= (3/2) e'^2 which makes the distance vanish like m e'^2 *)
Theorem C16_near_sphere : forall a f GM w, 0 < a -> 1/1000000 <= f <= 1/5 -> 0 < GM ->
  exists ge gp, C16_ge_R a f GM w = Val [ge] /\ C16_gp_R a f GM w = Val [gp] /\
    let m := w*w*(a*a)*(a*(1-f))/GM in let b := a*(1-f) in let x2 := (a^2 - b^2)/b^2 in
    Rabs (ge - GM*(1 - 3*m/2)/(a*b)) <= 3/20 * m * GM/(a*b) /\
    Rabs (gp - GM*(1 + m)/(a*a)) <= 3/10 * m * GM/(a*a) /\
    GM*(1 - 3*m/2 - m*x2/4)/(a*b) <= ge <= GM*(1 - 3*m/2)/(a*b) /\
    GM*(1 + m)/(a*a) <= gp <= GM*(1 + m + m*x2/2)/(a*a).
Proof.
  intros a f GM w Ha Hf HG. assert (D : dom a f GM) by (unfold dom; tauto).
  destruct (near_sphere a f GM w D) as (ge & gp & H1 & H2 & B1 & B2).
  destruct (near_sphere_sharp a f GM w D) as (ge' & gp' & H1' & H2' & B3 & B4).
  rewrite H1 in H1'. rewrite H2 in H2'. injection H1' as <-. injection H2' as <-.
  exists ge, gp. split; [exact H1|]. split; [exact H2|]. cbv zeta in *. unfold mof, ges2 in *. tauto.
Qed.
Print Assumptions C16_near_sphere.

(* continuity towards f -> 0, PARTIAL on the unchanged tree (it speaks of the limit values, not of the f = 0 branch):
   ge and gp are within O(f) of the rotating-sphere values of the sphere of radius a, m0 = w^2 a^3/GM *)
Theorem C16_continuity_to_sphere_partial : forall a f GM w, 0 < a -> 1/1000000 <= f <= 1/5 -> 0 < GM ->
  w*w*(a*a*a)/GM <= 1/16 ->
  exists ge gp, C16_ge_R a f GM w = Val [ge] /\ C16_gp_R a f GM w = Val [gp] /\
    let m0 := w*w*(a*a*a)/GM in
    Rabs (ge - GM*(1 - 3*m0/2)/(a*a)) <= 13/10 * f * (GM/(a*a)) /\
    Rabs (gp - GM*(1 + m0)/(a*a)) <= 3 * m0 * f * (GM/(a*a)).
Proof. intros a f GM w Ha Hf HG Hm. apply continuity_to_sphere; [unfold dom; tauto|exact Hm]. Qed.
Print Assumptions C16_continuity_to_sphere_partial.
