(* C16_refuted.v — witness, inside the regenerated model, of the finding "sphere/returns-m":
   with f = 0 the `es == 0` branch of equatorial_normal_gravity / polar_normal_gravity returns the
   dimensionless constant m = w^2 a^2 b / GM instead of a gravity near GM/a^2.
   Compiled separately: once the defect is repaired (fixes/C16-sphere-branch.patch) this file stops
   compiling, the check says so, and C16_sphere.v takes its place. *)
From Coq Require Import Reals List Lra.
From AhrsLib Require Import Base Geodesy.
From AhrsGen Require Import C16gen_R.
Import ListNotations.
Open Scope R_scope.

Lemma sphere_returns_m a GM w : a <> 0 ->
  C16_ge_R a 0 GM w = Val [w^2 * a^2 * (a*(1-0)) / GM] /\ C16_gp_R a 0 GM w = Val [w^2 * a^2 * (a*(1-0)) / GM].
Proof.
  intros Ha. unfold C16_ge_R, C16_gp_R; cbv zeta.
  replace ((a^2 - (a*(1-0))^2) / (a*(1-0))^2) with 0 by (field; exact Ha).
  rewrite sqrt_0. destruct (Req_EM_T 0 0) as [_|N]; [|exfalso; apply N; reflexivity].
  split; reflexivity.
Qed.

(* the property's clause "for flattening exactly zero gravity stays close to the rotating-sphere values near GM/a^2"
   REFUTED on the unchanged code: a sphere of radius 1000 km with GM/a^2 = 10 m/s^2 and m = 1e-3, inside the
   property's domain, for which both values are 1e-3 *)
Theorem C16_sphere_branch_refuted : exists a GM w ge gp,
  100000 <= a <= 100000000 /\ 0 < GM /\ w*w*(a*a*a)/GM < 1/20 /\
  C16_ge_R a 0 GM w = Val [ge] /\ C16_gp_R a 0 GM w = Val [gp] /\
  ge < GM/(a*a) / 1000 /\ gp < GM/(a*a) / 1000.
Proof.
  exists 1000000, 10000000000000, (1/10000). eexists _, _.
  destruct (sphere_returns_m 1000000 10000000000000 (1/10000)) as [H1 H2]; [lra|].
  split; [lra|]. split; [lra|]. split; [lra|]. split; [exact H1|]. split; [exact H2|]. split; lra.
Qed.
Print Assumptions C16_sphere_branch_refuted.

(* the same on the shipped table: Venus and Pluto have equal radii, so f = 0, and their gravity comes out as m *)
Theorem C16_shipped_spheres_refuted :
  (exists m, C16_body_VENUS_R = Val [0; m; m; m] /\ m < 1/1000000) /\
  (exists m, C16_body_PLUTO_R = Val [0; m; m; m] /\ m < 1/1000).
Proof.
  split; eexists; (split; [unfold C16_body_VENUS_R, C16_body_PLUTO_R; reflexivity|lra]).
Qed.
Print Assumptions C16_shipped_spheres_refuted.
