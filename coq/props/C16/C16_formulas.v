(* C16_formulas.v — international_gravity (five epochs) and welmec_gravity of ahrs/utils/wgs84.py:
   guard on the latitude, equator and pole values, symmetry, range, decrease with height. *)
From Coq Require Import Reals List Lra.
From AhrsLib Require Import Base GeodesyBase.
From AhrsGen Require Import C16gen_R.
Import ListNotations.
Open Scope R_scope.

(* g_e (1 + b1 sin^2 phi - b2 sin^2 2phi), phi = lat degrees *)
Definition igf (ge b1 b2 lat : R) : R :=
  ge * (1 + b1 * (sin (lat * (1/180 * PI)))^2 - b2 * (sin (2 * (lat * (1/180 * PI))))^2).

Lemma igf_equator ge b1 b2 : igf ge b1 b2 0 = ge.
Proof. unfold igf. rewrite !Rmult_0_l, Rmult_0_r, sin_0. ring. Qed.

Lemma igf_pole ge b1 b2 : igf ge b1 b2 90 = ge * (1 + b1) /\ igf ge b1 b2 (-90) = ge * (1 + b1).
Proof.
  unfold igf. rewrite sin_deg_90, sin_deg_m90.
  replace (2 * (90 * (1/180 * PI))) with PI by field. replace (2 * (-90 * (1/180 * PI))) with (- PI) by field.
  rewrite sin_neg, sin_PI. split; ring.
Qed.

Lemma igf_symmetric ge b1 b2 lat : igf ge b1 b2 (- lat) = igf ge b1 b2 lat.
Proof.
  unfold igf. replace (- lat * (1/180 * PI)) with (- (lat * (1/180 * PI))) by ring.
  replace (2 * - (lat * (1/180 * PI))) with (- (2 * (lat * (1/180 * PI)))) by ring.
  rewrite !sin_neg. ring.
Qed.

(* never below the equatorial value, never above the polar value (b1 >= 4 b2 >= 0) *)
Lemma igf_range ge b1 b2 lat : 0 < ge -> 0 <= b2 -> 4*b2 <= b1 -> ge <= igf ge b1 b2 lat <= ge * (1 + b1).
Proof.
  intros Hge Hb2 Hb1. unfold igf. set (x := lat * (1/180 * PI)).
  rewrite sin_2a. pose proof (sin2_cos2 x) as H. unfold Rsqr in H.
  pose proof (SIN_bound x) as Hs. set (s := sin x) in *. set (c := cos x) in *.
  assert (Hss : 0 <= s*s <= 1) by nra.
  replace ((2 * s * c)^2) with (4 * (s*s) * (1 - s*s)) by (replace (1 - s*s) with (c*c) by lra; ring).
  replace (s^2) with (s*s) by ring. set (u := s*s) in *.
  assert (0 <= b1*u - b2*(4*u*(1-u)) <= b1).
  { split.
    - replace (b1*u - b2*(4*u*(1-u))) with (u*((b1 - 4*b2) + 4*b2*u)) by ring. apply Rmult_le_pos; nra.
    - assert (0 <= b2*(4*u*(1-u))) by (apply Rmult_le_pos; nra). nra. }
  split; nra.
Qed.

Ltac igf_tac :=
  intros; match goal with |- ?f ?lat = _ => unfold f end; cbv zeta;
  destr_dec; [reflexivity|val_eq; unfold igf; field].

Lemma intl_1930_spec lat : C16_intl_1930_R lat =
  if Rlt_dec 90 (Rabs lat) then Raise ValueError else Val [igf (978049/100000) (52884/10000000) (59/10000000) lat].
Proof. igf_tac. Qed.
Lemma intl_1948_spec lat : C16_intl_1948_R lat =
  if Rlt_dec 90 (Rabs lat) then Raise ValueError else Val [igf (9780373/1000000) (52891/10000000) (59/10000000) lat].
Proof. igf_tac. Qed.
Lemma intl_1967_spec lat : C16_intl_1967_R lat =
  if Rlt_dec 90 (Rabs lat) then Raise ValueError else Val [igf (9780318/1000000) (53024/10000000) (59/10000000) lat].
Proof. igf_tac. Qed.
Lemma intl_1980_spec lat : C16_intl_1980_R lat =
  if Rlt_dec 90 (Rabs lat) then Raise ValueError else Val [igf (9780367715/1000000000) (5302440112/1000000000000) (58/10000000) lat].
Proof. igf_tac. Qed.
Lemma intl_1984_spec lat : C16_intl_1984_R lat =
  if Rlt_dec 90 (Rabs lat) then Raise ValueError else Val [igf (97803253359/10000000000) (5302440112/1000000000000) (58/10000000) lat].
Proof. igf_tac. Qed.

Lemma welmec_spec lat h : C16_welmec_R lat h =
  if Rlt_dec 90 (Rabs lat) then Raise ValueError
  else Val [igf (9780318/1000000) (53024/10000000) (58/10000000) lat - 3085/1000000000 * h].
Proof. unfold C16_welmec_R; cbv zeta. destr_dec; [reflexivity|val_eq; unfold igf; field]. Qed.

(* the package of facts each table row satisfies *)
Definition igf_ok (F : R -> outcome R) (ge b1 : R) : Prop :=
  (forall lat, 90 < Rabs lat -> F lat = Raise ValueError) /\
  F 0 = Val [ge] /\ F 90 = Val [ge*(1+b1)] /\ F (-90) = Val [ge*(1+b1)] /\
  (forall lat, F (- lat) = F lat) /\
  (forall lat, Rabs lat <= 90 -> exists g, F lat = Val [g] /\ ge <= g <= ge*(1+b1) /\ 0 < g).

Lemma igf_ok_of F ge b1 b2 : 0 < ge -> 0 <= b2 -> 4*b2 <= b1 ->
  (forall lat, F lat = if Rlt_dec 90 (Rabs lat) then Raise ValueError else Val [igf ge b1 b2 lat]) -> igf_ok F ge b1.
Proof.
  intros Hge Hb2 Hb1 HF.
  assert (A0 : Rabs 0 <= 90) by (rewrite Rabs_R0; lra).
  assert (A90 : Rabs 90 <= 90) by (rewrite Rabs_right; lra).
  assert (Am90 : Rabs (-90) <= 90) by (rewrite Rabs_left; lra).
  assert (In : forall lat, Rabs lat <= 90 -> F lat = Val [igf ge b1 b2 lat]).
  { intros lat H. rewrite HF. destruct (Rlt_dec 90 (Rabs lat)); [lra|reflexivity]. }
  repeat split.
  - intros lat H. rewrite HF. destruct (Rlt_dec 90 (Rabs lat)); [reflexivity|contradiction].
  - rewrite (In 0 A0), igf_equator. reflexivity.
  - rewrite (In 90 A90). destruct (igf_pole ge b1 b2) as [-> _]. reflexivity.
  - rewrite (In (-90) Am90). destruct (igf_pole ge b1 b2) as [_ ->]. reflexivity.
  - intros lat. rewrite !HF, Rabs_Ropp, igf_symmetric. reflexivity.
  - intros lat H. exists (igf ge b1 b2 lat). split; [apply In; exact H|].
    pose proof (igf_range ge b1 b2 lat Hge Hb2 Hb1). split; lra.
Qed.

Lemma intl_ok :
  igf_ok C16_intl_1930_R (978049/100000) (52884/10000000) /\
  igf_ok C16_intl_1948_R (9780373/1000000) (52891/10000000) /\
  igf_ok C16_intl_1967_R (9780318/1000000) (53024/10000000) /\
  igf_ok C16_intl_1980_R (9780367715/1000000000) (5302440112/1000000000000) /\
  igf_ok C16_intl_1984_R (97803253359/10000000000) (5302440112/1000000000000).
Proof.
  split; [|split; [|split; [|split]]].
  - apply (igf_ok_of _ _ _ (59/10000000)); [lra|lra|lra|exact intl_1930_spec].
  - apply (igf_ok_of _ _ _ (59/10000000)); [lra|lra|lra|exact intl_1948_spec].
  - apply (igf_ok_of _ _ _ (59/10000000)); [lra|lra|lra|exact intl_1967_spec].
  - apply (igf_ok_of _ _ _ (58/10000000)); [lra|lra|lra|exact intl_1980_spec].
  - apply (igf_ok_of _ _ _ (58/10000000)); [lra|lra|lra|exact intl_1984_spec].
Qed.

(* WELMEC: the 1967 series minus 3.085e-6 per metre *)
Lemma welmec_ok :
  (forall lat h, 90 < Rabs lat -> C16_welmec_R lat h = Raise ValueError) /\
  C16_welmec_R 0 0 = Val [9780318/1000000] /\
  (forall lat h, C16_welmec_R (- lat) h = C16_welmec_R lat h) /\
  (forall lat h1 h2, Rabs lat <= 90 -> h1 < h2 -> exists g1 g2,
     C16_welmec_R lat h1 = Val [g1] /\ C16_welmec_R lat h2 = Val [g2] /\ g2 < g1 /\ g1 - g2 = 3085/1000000000 * (h2 - h1)) /\
  (forall lat h, Rabs lat <= 90 -> 0 <= h <= 100000 -> exists g, C16_welmec_R lat h = Val [g] /\ 9 < g).
Proof.
  repeat split.
  - intros lat h H. rewrite welmec_spec. destruct (Rlt_dec 90 (Rabs lat)); [reflexivity|contradiction].
  - rewrite welmec_spec. destruct (Rlt_dec 90 (Rabs 0)) as [H|_]; [rewrite Rabs_R0 in H; lra|].
    rewrite igf_equator. val_eq. ring.
  - intros lat h. rewrite !welmec_spec, Rabs_Ropp, igf_symmetric. reflexivity.
  - intros lat h1 h2 Hl Hh. rewrite !welmec_spec. destruct (Rlt_dec 90 (Rabs lat)); [lra|].
    eexists _, _. split; [reflexivity|]. split; [reflexivity|]. split; [lra|ring].
  - intros lat h Hl Hh. rewrite welmec_spec. destruct (Rlt_dec 90 (Rabs lat)); [lra|].
    eexists. split; [reflexivity|].
    pose proof (igf_range (9780318/1000000) (53024/10000000) (58/10000000) lat). lra.
Qed.
