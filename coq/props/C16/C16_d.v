(* C16_d.v — property C16, statements only (part d: the shipped planetary table).
   Split from C16.v so that the Print Assumptions traversals of the Interval library run in parallel. *)
From Coq Require Import Reals List Lra.
From AhrsLib Require Import Base.
From AhrsGen Require Import C16gen_R.
From AhrsProps Require Import C16_bodies.
Import ListNotations.
Open Scope R_scope.

(* the shipped non-spherical bodies: general branch taken, gravity positive (C16_bodies.v also pins each value within 2 %) *)
Theorem C16_shipped_bodies_positive :
  (exists f m ge gp, C16_body_EARTH_R = Val [f; m; ge; gp] /\ 0 < f < 1/5 /\ 0 < ge /\ 0 < gp) /\
  (exists f m ge gp, C16_body_MOON_R = Val [f; m; ge; gp] /\ 0 < f < 1/5 /\ 0 < ge /\ 0 < gp) /\
  (exists f m ge gp, C16_body_MERCURY_R = Val [f; m; ge; gp] /\ 0 < f < 1/5 /\ 0 < ge /\ 0 < gp) /\
  (exists f m ge gp, C16_body_MARS_R = Val [f; m; ge; gp] /\ 0 < f < 1/5 /\ 0 < ge /\ 0 < gp) /\
  (exists f m ge gp, C16_body_JUPITER_R = Val [f; m; ge; gp] /\ 0 < f < 1/5 /\ 0 < ge /\ 0 < gp) /\
  (exists f m ge gp, C16_body_SATURN_R = Val [f; m; ge; gp] /\ 0 < f < 1/5 /\ 0 < ge /\ 0 < gp) /\
  (exists f m ge gp, C16_body_URANUS_R = Val [f; m; ge; gp] /\ 0 < f < 1/5 /\ 0 < ge /\ 0 < gp) /\
  (exists f m ge gp, C16_body_NEPTUNE_R = Val [f; m; ge; gp] /\ 0 < f < 1/5 /\ 0 < ge /\ 0 < gp).
Proof.
  repeat split;
  [ destruct body_EARTH as (f & m & ge & gp & H & Hf & _ & Hg & Hp)
  | destruct body_MOON as (f & m & ge & gp & H & Hf & _ & Hg & Hp)
  | destruct body_MERCURY as (f & m & ge & gp & H & Hf & _ & Hg & Hp)
  | destruct body_MARS as (f & m & ge & gp & H & Hf & _ & Hg & Hp)
  | destruct body_JUPITER as (f & m & ge & gp & H & Hf & _ & Hg & Hp)
  | destruct body_SATURN as (f & m & ge & gp & H & Hf & _ & Hg & Hp)
  | destruct body_URANUS as (f & m & ge & gp & H & Hf & _ & Hg & Hp)
  | destruct body_NEPTUNE as (f & m & ge & gp & H & Hf & _ & Hg & Hp) ];
  exists f, m, ge, gp; (split; [exact H|split; [exact Hf|split; lra]]).
Qed.
Print Assumptions C16_shipped_bodies_positive.
