(* C16_bodies.v — the shipped planetary table (ahrs/common/constants.py) run through ReferenceEllipsoid:
   each non-spherical body takes the general branch and its equatorial / polar normal gravity lies in the stated
   6-digit window (Interval tactic on the exact decimal constants); in particular both are positive, also for
   Jupiter (m = 0.083) and Saturn (m = 0.140), which lie outside the m < 0.05 part of the property's domain.
   The two spherical bodies (Venus, Pluto) are in C16_refuted.v / C16_sphere.v. *)
From Coq Require Import Reals List Lra.
From Interval Require Import Tactic.
From AhrsLib Require Import Base.
From AhrsGen Require Import C16gen_R.
Import ListNotations.
Open Scope R_scope.

Ltac body_tac :=
  cbv zeta;
  match goal with |- context [Req_EM_T 0 (sqrt ?c)] =>
    let H := fresh in assert (H : 0 < sqrt c) by (apply sqrt_lt_R0; lra);
    destruct (Req_EM_T 0 (sqrt c)) as [?E|_]; [exfalso; lra|]
  | |- context [Req_EM_T (sqrt ?c) 0] =>
    let H := fresh in assert (H : 0 < sqrt c) by (apply sqrt_lt_R0; lra);
    destruct (Req_EM_T (sqrt c) 0) as [?E|_]; [exfalso; lra|]
  end;
  eexists _, _, _, _; split; [reflexivity|];
  repeat split; try lra; interval with (i_prec 100).

(* EARTH: f = 0.00335281, m = 0.00344979, ge = 9.78032534, gp = 9.83218494 *)
Lemma body_EARTH : exists f m ge gp, C16_body_EARTH_R = Val [f; m; ge; gp] /\
  0 < f < 1/5 /\ 344977/100000000 < m < 17249/5000000 /\ 978031/100000 < ge < 489017/50000 /\ 983217/100000 < gp < 49161/5000.
Proof. unfold C16_body_EARTH_R. body_tac. Qed.

(* MOON: f = 0.00120822, m = 1.31561e-08, ge = 1.62492065, gp = 1.62295745 *)
Lemma body_MOON : exists f m ge gp, C16_body_MOON_R = Val [f; m; ge; gp] /\
  0 < f < 1/5 /\ 3289/250000000000 < m < 131563/10000000000000 /\ 162491/100000 < ge < 81247/50000 /\ 81147/50000 < gp < 162297/100000.
Proof. unfold C16_body_MOON_R. body_tac. Qed.

(* MERCURY: f = 0.000930126, m = 1.01339e-06, ge = 3.70258333, gp = 3.69914884 *)
Lemma body_MERCURY : exists f m ge gp, C16_body_MERCURY_R = Val [f; m; ge; gp] /\
  0 < f < 1/5 /\ 101337/100000000000 < m < 5067/5000000000 /\ 370257/100000 < ge < 18513/5000 /\ 369913/100000 < gp < 92479/25000.
Proof. unfold C16_body_MERCURY_R. body_tac. Qed.

(* MARS: f = 0.00588601, m = 0.00456817, ge = 3.70966361, gp = 3.73036531 *)
Lemma body_MARS : exists f m ge gp, C16_body_MARS_R = Val [f; m; ge; gp] /\
  0 < f < 1/5 /\ 28551/6250000 < m < 456819/100000000 /\ 74193/20000 < ge < 46371/12500 /\ 74607/20000 < gp < 186519/50000.
Proof. unfold C16_body_MARS_R. body_tac. Qed.

(* JUPITER: f = 0.0648744, m = 0.0834048, ge = 23.1250462, gp = 26.9775897 *)
Lemma body_JUPITER : exists f m ge gp, C16_body_JUPITER_R = Val [f; m; ge; gp] /\
  0 < f < 1/5 /\ 834047/10000000 < m < 16681/200000 /\ 231249/10000 < ge < 57813/2500 /\ 134887/5000 < gp < 269777/10000.
Proof. unfold C16_body_JUPITER_R. body_tac. Qed.

(* SATURN: f = 0.0979624, m = 0.139654, ge = 9.07669217, gp = 12.0370024 *)
Lemma body_SATURN : exists f m ge gp, C16_body_SATURN_R = Val [f; m; ge; gp] /\
  0 < f < 1/5 /\ 139653/1000000 < m < 17457/125000 /\ 226917/25000 < ge < 907671/100000 /\ 120369/10000 < gp < 30093/2500.
Proof. unfold C16_body_SATURN_R. body_tac. Qed.

(* URANUS: f = 0.0229273, m = 0.0288572, ge = 8.68210277, gp = 9.13064048 *)
Lemma body_URANUS : exists f m ge gp, C16_body_URANUS_R = Val [f; m; ge; gp] /\
  0 < f < 1/5 /\ 28857/1000000 < m < 288573/10000000 /\ 868209/100000 < ge < 217053/25000 /\ 913063/100000 < gp < 456533/50000.
Proof. unfold C16_body_URANUS_R. body_tac. Qed.

(* NEPTUNE: f = 0.0170812, m = 0.0256321, ge = 10.901503, gp = 11.4359108 *)
Lemma body_NEPTUNE : exists f m ge gp, C16_body_NEPTUNE_R = Val [f; m; ge; gp] /\
  0 < f < 1/5 /\ 801/31250 < m < 256323/10000000 /\ 54507/5000 < ge < 109017/10000 /\ 57179/5000 < gp < 114361/10000.
Proof. unfold C16_body_NEPTUNE_R. body_tac. Qed.
