(* C16_bodies.v — the shipped planetary table (ahrs/common/constants.py) run through ReferenceEllipsoid:
   each non-spherical body takes the general branch and its equatorial / polar normal gravity lies within 2 % of the value
   recorded here (Interval tactic on the exact decimal constants; the window is wide so that a refinement of a mass or radius in
   the table does not break the proof); in particular both are positive, also for
   Jupiter (m = 0.083) and Saturn (m = 0.140), which lie outside the m < 0.05 part of the property's domain.
   The two spherical bodies (Venus, Pluto) are in C16_refuted.v / C16_sphere.v. *)
From Coq Require Import Reals List Lra.
From Interval Require Import Tactic.
From AhrsLib Require Import Base.
From AhrsGen Require Import C16gen_R.
Import ListNotations.
Open Scope R_scope.

Ltac body_tac :=
  cbv zeta;
  match goal with |- context [Req_EM_T 0 (sqrt ?c)] =>
    let H := fresh in assert (H : 0 < sqrt c) by (apply sqrt_lt_R0; lra);
    destruct (Req_EM_T 0 (sqrt c)) as [?E|_]; [exfalso; lra|]
  | |- context [Req_EM_T (sqrt ?c) 0] =>
    let H := fresh in assert (H : 0 < sqrt c) by (apply sqrt_lt_R0; lra);
    destruct (Req_EM_T (sqrt c) 0) as [?E|_]; [exfalso; lra|]
  end;
  eexists _, _, _, _; split; [reflexivity|];
  repeat split; try lra; interval with (i_prec 100).


(* EARTH: f = 0.00335281, m = 0.00344979, ge = 9.78032534, gp = 9.83218494 *)
Lemma body_EARTH : exists f m ge gp, C16_body_EARTH_R = Val [f; m; ge; gp] /\
  0 < f < 1/5 /\ 169/50000 < m < 11/3125 /\ 479/50 < ge < 499/50 /\ 241/25 < gp < 10.
Proof. unfold C16_body_EARTH_R. body_tac. Qed.

(* MOON: f = 0.00120822, m = 1.31561e-08, ge = 1.62492065, gp = 1.62295745 *)
Lemma body_MOON : exists f m ge gp, C16_body_MOON_R = Val [f; m; ge; gp] /\
  0 < f < 1/5 /\ 129/10000000000 < m < 67/5000000000 /\ 159/100 < ge < 83/50 /\ 159/100 < gp < 83/50.
Proof. unfold C16_body_MOON_R. body_tac. Qed.

(* MERCURY: f = 0.000930126, m = 1.01339e-06, ge = 3.70258333, gp = 3.69914884 *)
Lemma body_MERCURY : exists f m ge gp, C16_body_MERCURY_R = Val [f; m; ge; gp] /\
  0 < f < 1/5 /\ 993/1000000000 < m < 103/100000000 /\ 363/100 < ge < 189/50 /\ 363/100 < gp < 377/100.
Proof. unfold C16_body_MERCURY_R. body_tac. Qed.

(* MARS: f = 0.00588601, m = 0.00456817, ge = 3.70966361, gp = 3.73036531 *)
Lemma body_MARS : exists f m ge gp, C16_body_MARS_R = Val [f; m; ge; gp] /\
  0 < f < 1/5 /\ 14/3125 < m < 233/50000 /\ 91/25 < ge < 189/50 /\ 183/50 < gp < 19/5.
Proof. unfold C16_body_MARS_R. body_tac. Qed.

(* JUPITER: f = 0.0648744, m = 0.0834048, ge = 23.1250462, gp = 26.9775897 *)
Lemma body_JUPITER : exists f m ge gp, C16_body_JUPITER_R = Val [f; m; ge; gp] /\
  0 < f < 1/5 /\ 817/10000 < m < 851/10000 /\ 227/10 < ge < 118/5 /\ 132/5 < gp < 55/2.
Proof. unfold C16_body_JUPITER_R. body_tac. Qed.

(* SATURN: f = 0.0979624, m = 0.139654, ge = 9.07669217, gp = 12.0370024 *)
Lemma body_SATURN : exists f m ge gp, C16_body_SATURN_R = Val [f; m; ge; gp] /\
  0 < f < 1/5 /\ 137/1000 < m < 71/500 /\ 89/10 < ge < 463/50 /\ 59/5 < gp < 123/10.
Proof. unfold C16_body_SATURN_R. body_tac. Qed.

(* URANUS: f = 0.0229273, m = 0.0288572, ge = 8.68210277, gp = 9.13064048 *)
Lemma body_URANUS : exists f m ge gp, C16_body_URANUS_R = Val [f; m; ge; gp] /\
  0 < f < 1/5 /\ 283/10000 < m < 147/5000 /\ 851/100 < ge < 443/50 /\ 179/20 < gp < 931/100.
Proof. unfold C16_body_URANUS_R. body_tac. Qed.

(* NEPTUNE: f = 0.0170812, m = 0.0256321, ge = 10.901503, gp = 11.4359108 *)
Lemma body_NEPTUNE : exists f m ge gp, C16_body_NEPTUNE_R = Val [f; m; ge; gp] /\
  0 < f < 1/5 /\ 251/10000 < m < 261/10000 /\ 107/10 < ge < 111/10 /\ 56/5 < gp < 117/10.
Proof. unfold C16_body_NEPTUNE_R. body_tac. Qed.
