(* C16_algebra.v — the part of C16 that needs no interval arithmetic: derived constants, Pizzetti's theorem as a pure
   `field` identity (q0 an opaque non-zero atom), symmetry in latitude.  Its dependency cone (Reals, Base, GeodesyBase,
   the generated file) is what the thorough tier re-checks with coqchk through C16.v. *)
From Coq Require Import Reals List Lra.
From AhrsLib Require Import Base GeodesyBase.
From AhrsGen Require Import C16gen_R.
Import ListNotations.
Open Scope R_scope.

(* ---- derived constants ------------------------------------------------------------------------ *)
Lemma consts_spec a f GM w : a <> 0 -> f <> 1 -> GM <> 0 ->
  exists b e2 es2 E ar rp r1 m,
    C16_consts_R a f GM w = Val [b; e2; es2; E; ar; rp; r1; m] /\
    b = a*(1-f) /\ e2 = (a*a - b*b)/(a*a) /\ es2 = (a*a - b*b)/(b*b) /\ E = sqrt (a*a - b*b) /\
    ar = b/a /\ rp = a*a/b /\ r1 = (2*a + b)/3 /\ m = w*w*(a*a)*b/GM.
Proof.
  intros Ha Hf HG. unfold C16_consts_R; cbv zeta.
  eexists _, _, _, _, _, _, _, _. split; [reflexivity|].
  assert (Hb : a*(1-f) <> 0) by (apply Rmult_integral_contrapositive_currified; lra).
  repeat split; try (field; repeat split; lra).
  f_equal. ring.
Qed.

(* with 0 <= f < 1: E^2 = a^2 - b^2, e^2 = E^2/a^2, e'^2 = E^2/b^2, (1 - e^2)(1 + e'^2) = 1, 0 <= e^2 < 1 *)
Lemma consts_identities a f GM w : 0 < a -> 0 <= f < 1 -> GM <> 0 ->
  exists b e2 es2 E ar rp r1 m,
    C16_consts_R a f GM w = Val [b; e2; es2; E; ar; rp; r1; m] /\
    0 < b <= a /\ E*E = a*a - b*b /\ 0 <= E /\ e2 = E*E/(a*a) /\ es2 = E*E/(b*b) /\ (1 - e2)*(1 + es2) = 1 /\ 0 <= e2 < 1.
Proof.
  intros Ha Hf HG.
  destruct (consts_spec a f GM w) as (b & e2 & es2 & E & ar & rp & r1 & m & Hv & Hb & He2 & Hes2 & HE & _); try lra.
  exists b, e2, es2, E, ar, rp, r1, m. split; [exact Hv|].
  assert (Hb0 : 0 < b) by (subst b; nra).
  assert (Hba : b <= a) by (subst b; nra).
  assert (Hd : 0 <= a*a - b*b) by nra.
  assert (HEE : E*E = a*a - b*b) by (rewrite HE; apply sqrt_sqrt; exact Hd).
  split; [lra|]. split; [exact HEE|]. split; [rewrite HE; apply sqrt_pos|].
  split; [rewrite HEE; exact He2|]. split; [rewrite HEE; exact Hes2|].
  split; [rewrite He2, Hes2; field; lra|].
  rewrite He2. split.
  - apply Rmult_le_pos; [lra|left; apply Rinv_0_lt_compat; nra].
  - apply Rmult_lt_reg_r with (a*a); [nra|]. replace ((a*a - b*b)/(a*a)*(a*a)) with (a*a - b*b) by (field; lra). nra.
Qed.

(* ---- Pizzetti as a field identity ------------------------------------------------------------- *)
(* Pizzetti again with q0, q0' treated as unknowns: the identity does not depend on their values.
   Here the generated terms are compared after abstracting atan e' — a pure `field` identity. *)
Lemma pizzetti_any_q a f GM w : a <> 0 -> f <> 1 -> GM <> 0 -> es a f <> 0 -> gq0 (es a f) <> 0 ->
  exists ge gp, C16_ge_R a f GM w = Val [ge] /\ C16_gp_R a f GM w = Val [gp] /\
    2*ge/a + gp/(a*(1-f)) = 3*GM/(a*a*(a*(1-f))) - 2*(w*w).
Proof.
  intros Ha Hf HG Hx Hq. unfold C16_ge_R, C16_gp_R; cbv zeta.
  assert (Hf' : 1 - f <> 0) by (intro; apply Hf; lra).
  assert (Hb : a*(1-f) <> 0) by (apply Rmult_integral_contrapositive_currified; assumption).
  match goal with |- context [sqrt ?e] =>
    replace e with (ges2 a f) by (unfold ges2; field; repeat split; first [assumption | let HH := fresh in intro HH; apply Hb; lra]) end.
  fold (es a f). set (x := es a f) in *.
  repeat (destr_dec; [exfalso; auto|]).
  eexists _, _. split; [reflexivity|]. split; [reflexivity|].
  revert Hq. unfold gq0. generalize (atan x). intros T Hq.
  field. repeat split; try assumption; try (let H0 := fresh in intro H0; apply Hb; lra).
  intro HH. apply Hq.
  assert (HT : T = 3*x/(x*x+3)).
  { assert (0 < x*x+3) by nra. apply Rmult_eq_reg_r with (x*x+3); [|lra].
    replace (3*x/(x*x+3)*(x*x+3)) with (3*x) by (field; lra). lra. }
  rewrite HT. field. split; [exact Hx|nra].
Qed.

(* symmetry in latitude: for ALL inputs (every branch, also the raising ones) *)
Lemma g_symmetric a f GM w lat h : C16_g_R a f GM w (- lat) h = C16_g_R a f GM w lat h.
Proof.
  unfold C16_g_R; cbv zeta.
  assert (E : sin (- lat * (1/180 * PI)) ^ 2 = sin (lat * (1/180 * PI)) ^ 2) by (rewrite <- Ropp_mult_distr_l, sin_neg; ring).
  rewrite !E. reflexivity.
Qed.
Lemma g0_symmetric a f GM w lat : C16_g0_R a f GM w (- lat) = C16_g0_R a f GM w lat.
Proof.
  unfold C16_g0_R; cbv zeta.
  assert (E : sin (- lat * (1/180 * PI)) ^ 2 = sin (lat * (1/180 * PI)) ^ 2) by (rewrite <- Ropp_mult_distr_l, sin_neg; ring).
  rewrite !E. reflexivity.
Qed.

(* ---- both public classes, positional and keyword: the constructor stores exactly what it is given (no branch on a
   zero flattening or rotation rate), and the WGS subclass computes the same terms as ReferenceEllipsoid ---------- *)
Lemma both_classes a f GM w lat h :
  C16_echo_R a f GM w = Val [a; f; GM; w; a*(1-f)] /\ C16_echo_kw_R a f GM w = Val [a; f; GM; w; a*(1-f)] /\
  C16_wgs_echo_R a f GM w = Val [a; f; GM; w; a*(1-f)] /\ C16_wgs_echo_kw_R a f GM w = Val [a; f; GM; w; a*(1-f)] /\
  C16_wgs_ge_R a f GM w = C16_ge_R a f GM w /\ C16_wgs_gp_R a f GM w = C16_gp_R a f GM w /\
  C16_wgs_g_R a f GM w lat h = C16_g_R a f GM w lat h /\ C16_wgs_U0_J2_R a f GM w = C16_ref_U0_J2_R a f GM w.
Proof.
  repeat split; try reflexivity;
  (match goal with |- ?F _ _ _ _ = _ => unfold F end; cbv zeta; val_eq; ring).
Qed.

(* ---- only w^2 enters the model: a retrograde body (Venus, Uranus, Pluto have negative rates in the shipped table) gets
   the same constants, gravity, potential and form factor; in particular no entry point rejects w < 0 ------------------ *)
Ltac even_w w :=
  assert (E1 : (- w)^2 = w^2) by ring; assert (E2 : - w * - w = w * w) by ring;
  cbv zeta; rewrite ?E1, ?E2; reflexivity.

Lemma even_in_w a f GM w lat h :
  C16_consts_R a f GM (- w) = C16_consts_R a f GM w /\ C16_ge_R a f GM (- w) = C16_ge_R a f GM w /\
  C16_gp_R a f GM (- w) = C16_gp_R a f GM w /\ C16_g_R a f GM (- w) lat h = C16_g_R a f GM w lat h /\
  C16_g0_R a f GM (- w) lat = C16_g0_R a f GM w lat /\ C16_ref_U0_J2_R a f GM (- w) = C16_ref_U0_J2_R a f GM w /\
  C16_gmean_R a f GM (- w) = C16_gmean_R a f GM w /\ C16_wgs_g_R a f GM (- w) lat h = C16_wgs_g_R a f GM w lat h.
Proof.
  repeat split.
  - unfold C16_consts_R; even_w w.
  - unfold C16_ge_R; even_w w.
  - unfold C16_gp_R; even_w w.
  - unfold C16_g_R; even_w w.
  - unfold C16_g0_R; even_w w.
  - unfold C16_ref_U0_J2_R; even_w w.
  - unfold C16_gmean_R; even_w w.
  - unfold C16_wgs_g_R; even_w w.
Qed.
