(* C16_gravity.v — normal_gravity(lat, h): Somigliana's closed form on the surface times the second-order
   height factor; equator / pole values, symmetry, positivity, strict decrease with height. *)
From Coq Require Import Reals List Lra.
From AhrsLib Require Import Base Geodesy.
From AhrsGen Require Import C16gen_R.
From AhrsProps Require Import C16_model.
Import ListNotations.
Open Scope R_scope.

Definition sin2d (lat : R) : R := (sin (lat * (1/180 * PI)))^2.
Definition gE (a f GM w : R) : R := ge_of a (a*(1-f)) GM (mof a f GM w) (gratio (es a f)).
Definition gP (a f GM w : R) : R := gp_of a GM (mof a f GM w) (gratio (es a f)).
(* the model's normal gravity in closed form *)
Definition gamma (a f GM w lat h : R) : R :=
  somig a (a*(1-f)) (gE a f GM w) (gP a f GM w) (2*f - f*f) (sin2d lat) * hfac a f (mof a f GM w) (sin2d lat) h.

Lemma Val1_inv (x y : R) : Val [x] = Val [y] -> x = y.
Proof. intro H. injection H. auto. Qed.

Lemma hfac_0 a f m s : a <> 0 -> hfac a f m s 0 = 1.
Proof. intros Ha. unfold hfac. field. exact Ha. Qed.

(* the expressions of ge, gp inside the generated normal_gravity are those of the generated properties *)
Ltac name_es a f :=
  match goal with |- context [sqrt ?e] => replace e with (ges2 a f) by (unfold ges2; field; repeat split; lra) end;
  fold (es a f).
Ltac name_es_in H a f :=
  match type of H with context [sqrt ?e] => replace e with (ges2 a f) in H by (unfold ges2; field; repeat split; lra) end;
  fold (es a f) in H.

Ltac es_nonzero a f :=
  match goal with
  | |- context [Req_EM_T (es a f) 0] => destruct (Req_EM_T (es a f) 0) as [?E0|_]; [exfalso; lra|]
  | |- context [Req_EM_T 0 (es a f)] => destruct (Req_EM_T 0 (es a f)) as [?E0|_]; [exfalso; lra|]
  end.
Ltac es_nonzero_in H a f :=
  match type of H with
  | context [Req_EM_T (es a f) 0] => destruct (Req_EM_T (es a f) 0) as [?E0|_] in H; [exfalso; lra|]
  | context [Req_EM_T 0 (es a f)] => destruct (Req_EM_T 0 (es a f)) as [?E0|_] in H; [exfalso; lra|]
  end.

Lemma sin2d_bounds lat : 0 <= sin2d lat <= 1.
Proof. apply sin_sqr_bounds. Qed.

Lemma gE_gP_pos a f GM w : dom a f GM -> mof a f GM w < 1/20 -> 0 < gE a f GM w /\ 0 < gP a f GM w.
Proof.
  intros D Hm. destruct (ge_gp_positive a f GM w D Hm) as (ge & gp & H1 & H2 & P1 & P2).
  rewrite (ge_closed a f GM w D) in H1. rewrite (gp_closed a f GM w D) in H2.
  injection H1 as H1. injection H2 as H2. unfold gE, gP. rewrite H1, H2. split; assumption.
Qed.

Lemma g_closed a f GM w lat h : dom a f GM -> mof a f GM w < 1/20 ->
  C16_g_R a f GM w lat h = Val [gamma a f GM w lat h].
Proof.
  intros D Hm. pose proof (es_in a f GM D) as Hx. destruct (gE_gP_pos a f GM w D Hm) as [P1 P2].
  pose proof (ge_closed a f GM w D) as HGE. pose proof (gp_closed a f GM w D) as HGP.
  destruct D as (Ha & Hf & HG). assert (Hb : 0 < a*(1-f)) by (apply Rmult_lt_0_compat; lra).
  unfold C16_ge_R in HGE; cbv zeta in HGE. name_es_in HGE a f.
  unfold C16_gp_R in HGP; cbv zeta in HGP. name_es_in HGP a f.
  es_nonzero_in HGE a f. es_nonzero_in HGP a f.
  apply Val1_inv in HGE. apply Val1_inv in HGP.
  unfold C16_g_R; cbv zeta. name_es a f.
  es_nonzero a f.
  rewrite HGE, HGP. fold (gE a f GM w) (gP a f GM w) in *. fold (sin2d lat).
  match goal with |- context [sqrt ?e] => replace e with (1 - (2*f - f*f) * sin2d lat) by ring end.
  assert (HQ : 0 < sqrt (1 - (2*f - f*f) * sin2d lat)) by (apply sqrt_lt_R0; pose proof (sin2d_bounds lat); nra).
  unfold gamma, somig, hfac, mof.
  destr_dec; [subst h|]; val_eq; field; repeat split; lra.
Qed.

Lemma g0_closed a f GM w lat : dom a f GM -> mof a f GM w < 1/20 ->
  C16_g0_R a f GM w lat = Val [gamma a f GM w lat 0].
Proof.
  intros D Hm. pose proof (es_in a f GM D) as Hx. destruct (gE_gP_pos a f GM w D Hm) as [P1 P2].
  pose proof (ge_closed a f GM w D) as HGE. pose proof (gp_closed a f GM w D) as HGP.
  destruct D as (Ha & Hf & HG). assert (Hb : 0 < a*(1-f)) by (apply Rmult_lt_0_compat; lra).
  unfold C16_ge_R in HGE; cbv zeta in HGE. name_es_in HGE a f.
  unfold C16_gp_R in HGP; cbv zeta in HGP. name_es_in HGP a f.
  es_nonzero_in HGE a f. es_nonzero_in HGP a f.
  apply Val1_inv in HGE. apply Val1_inv in HGP.
  unfold C16_g0_R; cbv zeta. name_es a f.
  es_nonzero a f.
  rewrite HGE, HGP. fold (gE a f GM w) (gP a f GM w) in *. fold (sin2d lat).
  match goal with |- context [sqrt ?e] => replace e with (1 - (2*f - f*f) * sin2d lat) by ring end.
  assert (HQ : 0 < sqrt (1 - (2*f - f*f) * sin2d lat)) by (apply sqrt_lt_R0; pose proof (sin2d_bounds lat); nra).
  unfold gamma, somig, hfac, mof.
  val_eq; field; repeat split; lra.
Qed.

(* ---- facts about the closed form -------------------------------------------------------------- *)
Lemma sin2d_0 : sin2d 0 = 0.
Proof. unfold sin2d. rewrite sin_deg_0. ring. Qed.
Lemma sin2d_90 : sin2d 90 = 1.
Proof. unfold sin2d. rewrite sin_deg_90. ring. Qed.
Lemma sin2d_m90 : sin2d (-90) = 1.
Proof. unfold sin2d. rewrite sin_deg_m90. ring. Qed.
Lemma sin2d_neg lat : sin2d (- lat) = sin2d lat.
Proof. unfold sin2d. rewrite <- Ropp_mult_distr_l, sin_neg. ring. Qed.


Lemma somig_equator a b ge gp e2 : somig a b ge gp e2 0 = ge.
Proof. unfold somig. rewrite !Rmult_0_r, Rminus_0_r, Rplus_0_r, sqrt_1. field. Qed.

Lemma somig_pole a f ge gp : 0 < a -> 0 <= f < 1 -> ge <> 0 -> somig a (a*(1-f)) ge gp (2*f - f*f) 1 = gp.
Proof.
  intros Ha Hf Hge. unfold somig.
  replace (1 - (2*f - f*f)*1) with ((1-f)*(1-f)) by ring.
  rewrite sqrt_square by lra. field. repeat split; lra.
Qed.

Lemma gamma_equator a f GM w : dom a f GM -> gamma a f GM w 0 0 = gE a f GM w.
Proof. intros (Ha & _). unfold gamma. rewrite sin2d_0, somig_equator, hfac_0 by lra. ring. Qed.

Lemma gamma_pole a f GM w : dom a f GM -> mof a f GM w < 1/20 ->
  gamma a f GM w 90 0 = gP a f GM w /\ gamma a f GM w (-90) 0 = gP a f GM w.
Proof.
  intros D Hm. destruct (gE_gP_pos a f GM w D Hm) as [P1 _]. destruct D as (Ha & Hf & HG).
  unfold gamma. rewrite sin2d_90, sin2d_m90, somig_pole, hfac_0 by lra. split; ring.
Qed.

Lemma gamma_surface_pos a f GM w lat : dom a f GM -> mof a f GM w < 1/20 ->
  0 < somig a (a*(1-f)) (gE a f GM w) (gP a f GM w) (2*f - f*f) (sin2d lat).
Proof.
  intros D Hm. destruct (gE_gP_pos a f GM w D Hm) as [P1 P2]. destruct D as (Ha & Hf & HG).
  apply somig_pos; try lra; try nra. apply sin2d_bounds.
Qed.

Lemma gamma_pos a f GM w lat h : dom a f GM -> mof a f GM w < 1/20 -> 0 <= h <= a/200 -> 0 < gamma a f GM w lat h.
Proof.
  intros D Hm Hh. unfold gamma. apply Rmult_lt_0_compat; [apply gamma_surface_pos; assumption|].
  pose proof (mof_nonneg a f GM w D). destruct D as (Ha & Hf & HG).
  apply hfac_pos; try lra. apply sin2d_bounds.
Qed.

Lemma gamma_decreasing a f GM w lat h1 h2 : dom a f GM -> mof a f GM w < 1/20 -> 0 <= h1 -> h1 < h2 -> h2 <= a/200 ->
  gamma a f GM w lat h2 < gamma a f GM w lat h1.
Proof.
  intros D Hm H1 H12 H2. unfold gamma. apply Rmult_lt_compat_l; [apply gamma_surface_pos; assumption|].
  pose proof (mof_nonneg a f GM w D). destruct D as (Ha & Hf & HG).
  apply hfac_decreasing; try lra. apply sin2d_bounds.
Qed.
