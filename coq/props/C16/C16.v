(* C16.v — property C16: the ellipsoid gravity model satisfies the closed-form level-ellipsoid identities.
   Statements only (about the regenerated definitions C16_*_R), each followed by Print Assumptions.
   Guard of the property: 0 < a, flattening in [1e-6, 0.2], GM > 0, m = w^2 a^2 b/GM < 0.05, heights in [0, a/200];
   the semi-major axis is not restricted to [1e5, 1e8] (the theorems hold for every a > 0).
   The f = 0 clause lives in C16_refuted.v (unchanged tree) or C16_sphere.v (tree with fixes/C16-sphere-branch.patch). *)
From Coq Require Import Reals List Lra.
From AhrsLib Require Import Base Geodesy.
From AhrsGen Require Import C16gen_R.
From AhrsProps Require Import C16_model C16_gravity C16_formulas C16_bodies.
Import ListNotations.
Open Scope R_scope.

(* derived constants: b = a(1-f), e^2, e'^2, E, b/a, a^2/b, (2a+b)/3, m — and the identities between them *)
Theorem C16_derived_constants : forall a f GM w, 0 < a -> 0 <= f < 1 -> GM <> 0 ->
  exists b e2 es2 E ar rp r1 m,
    C16_consts_R a f GM w = Val [b; e2; es2; E; ar; rp; r1; m] /\
    b = a*(1-f) /\ e2 = (a*a - b*b)/(a*a) /\ es2 = (a*a - b*b)/(b*b) /\ E = sqrt (a*a - b*b) /\
    ar = b/a /\ rp = a*a/b /\ r1 = (2*a + b)/3 /\ m = w*w*(a*a)*b/GM /\
    0 < b <= a /\ E*E = a*a - b*b /\ 0 <= E /\ e2 = E*E/(a*a) /\ es2 = E*E/(b*b) /\ (1 - e2)*(1 + es2) = 1 /\ 0 <= e2 < 1.
Proof.
  intros a f GM w Ha Hf HG.
  destruct (consts_spec a f GM w) as (b & e2 & es2 & E & ar & rp & r1 & m & Hv & S); try lra.
  destruct (consts_identities a f GM w Ha Hf HG) as (b' & e2' & es2' & E' & ar' & rp' & r1' & m' & Hv' & I).
  rewrite Hv in Hv'. injection Hv' as <- <- <- <- <- <- <- <-.
  exists b, e2, es2, E, ar, rp, r1, m. split; [exact Hv|]. tauto.
Qed.
Print Assumptions C16_derived_constants.

(* Pizzetti's theorem for the implemented equatorial and polar normal gravity, on the property's domain *)
Theorem C16_pizzetti : forall a f GM w, 0 < a -> 1/1000000 <= f <= 1/5 -> 0 < GM ->
  exists ge gp, C16_ge_R a f GM w = Val [ge] /\ C16_gp_R a f GM w = Val [gp] /\
    2*ge/a + gp/(a*(1-f)) = 3*GM/(a*a*(a*(1-f))) - 2*(w*w).
Proof. intros a f GM w Ha Hf HG. apply pizzetti. unfold dom. tauto. Qed.
Print Assumptions C16_pizzetti.

(* the same as a pure field identity: q0 (an arctan expression of e') is an opaque non-zero atom; no interval arithmetic *)
Theorem C16_pizzetti_field_identity : forall a f GM w, a <> 0 -> f <> 1 -> GM <> 0 ->
  let x := sqrt ((a^2 - (a*(1-f))^2) / (a*(1-f))^2) in
  x <> 0 -> 1/2 * ((1 + 3/(x*x)) * atan x - 3/x) <> 0 ->
  exists ge gp, C16_ge_R a f GM w = Val [ge] /\ C16_gp_R a f GM w = Val [gp] /\
    2*ge/a + gp/(a*(1-f)) = 3*GM/(a*a*(a*(1-f))) - 2*(w*w).
Proof. intros a f GM w Ha Hf HG x Hx Hq. exact (pizzetti_any_q a f GM w Ha Hf HG Hx Hq). Qed.
Print Assumptions C16_pizzetti_field_identity.

(* positivity of ge, gp and of normal gravity at every latitude and every height up to 0.5 % of a *)
Theorem C16_positivity : forall a f GM w lat h, 0 < a -> 1/1000000 <= f <= 1/5 -> 0 < GM ->
  w*w*(a*a)*(a*(1-f))/GM < 1/20 -> 0 <= h <= a/200 ->
  exists ge gp g, C16_ge_R a f GM w = Val [ge] /\ C16_gp_R a f GM w = Val [gp] /\ C16_g_R a f GM w lat h = Val [g] /\
    0 < ge /\ 0 < gp /\ 0 < g.
Proof.
  intros a f GM w lat h Ha Hf HG Hm Hh. assert (D : dom a f GM) by (unfold dom; tauto).
  destruct (ge_gp_positive a f GM w D Hm) as (ge & gp & H1 & H2 & P1 & P2).
  exists ge, gp, (gamma a f GM w lat h). repeat split; try assumption.
  - apply g_closed; exact D.
  - apply gamma_pos; assumption.
Qed.
Print Assumptions C16_positivity.

(* Somigliana: latitude 0 gives ge, latitude +-90 gives gp (both through the explicit h = 0 and the default argument) *)
Theorem C16_somigliana_equator_pole : forall a f GM w, 0 < a -> 1/1000000 <= f <= 1/5 -> 0 < GM ->
  w*w*(a*a)*(a*(1-f))/GM < 1/20 ->
  exists ge gp, C16_ge_R a f GM w = Val [ge] /\ C16_gp_R a f GM w = Val [gp] /\
    C16_g_R a f GM w 0 0 = Val [ge] /\ C16_g_R a f GM w 90 0 = Val [gp] /\ C16_g_R a f GM w (-90) 0 = Val [gp] /\
    C16_g0_R a f GM w 0 = Val [ge] /\ C16_g0_R a f GM w 90 = Val [gp] /\ C16_g0_R a f GM w (-90) = Val [gp].
Proof.
  intros a f GM w Ha Hf HG Hm. assert (D : dom a f GM) by (unfold dom; tauto).
  exists (gE a f GM w), (gP a f GM w). destruct (gamma_pole a f GM w D Hm) as [Q1 Q2].
  rewrite !g_closed, !g0_closed, (gamma_equator a f GM w D), Q1, Q2 by exact D.
  repeat split. - apply ge_closed; exact D. - apply gp_closed; exact D.
Qed.
Print Assumptions C16_somigliana_equator_pole.

(* symmetric in latitude: for ALL inputs, on every branch *)
Theorem C16_symmetric_in_latitude : forall a f GM w lat h,
  C16_g_R a f GM w (- lat) h = C16_g_R a f GM w lat h /\ C16_g0_R a f GM w (- lat) = C16_g0_R a f GM w lat.
Proof. intros. split; [apply g_symmetric|apply g0_symmetric]. Qed.
Print Assumptions C16_symmetric_in_latitude.

(* strictly decreasing with height on [0, 0.5 % of a], the range of the second-order height formula *)
Theorem C16_decreasing_with_height : forall a f GM w lat h1 h2, 0 < a -> 1/1000000 <= f <= 1/5 -> 0 < GM ->
  w*w*(a*a)*(a*(1-f))/GM < 1/20 -> 0 <= h1 -> h1 < h2 -> h2 <= a/200 ->
  exists g1 g2, C16_g_R a f GM w lat h1 = Val [g1] /\ C16_g_R a f GM w lat h2 = Val [g2] /\ g2 < g1.
Proof.
  intros a f GM w lat h1 h2 Ha Hf HG Hm H1 H12 H2. assert (D : dom a f GM) by (unfold dom; tauto).
  exists (gamma a f GM w lat h1), (gamma a f GM w lat h2). rewrite !g_closed by exact D.
  repeat split. apply gamma_decreasing; assumption.
Qed.
Print Assumptions C16_decreasing_with_height.

(* close to the rotating-sphere values GM(1 - 3m/2)/(ab), GM(1 + m)/a^2: explicit constants, and the sharp one-sided
   enclosure 0 <= e'q0'/q0 - 3 <= (3/2) e'^2 which makes the distance vanish like m e'^2 *)
Theorem C16_near_sphere : forall a f GM w, 0 < a -> 1/1000000 <= f <= 1/5 -> 0 < GM ->
  exists ge gp, C16_ge_R a f GM w = Val [ge] /\ C16_gp_R a f GM w = Val [gp] /\
    let m := w*w*(a*a)*(a*(1-f))/GM in let b := a*(1-f) in let x2 := (a^2 - b^2)/b^2 in
    Rabs (ge - GM*(1 - 3*m/2)/(a*b)) <= 3/20 * m * GM/(a*b) /\
    Rabs (gp - GM*(1 + m)/(a*a)) <= 3/10 * m * GM/(a*a) /\
    GM*(1 - 3*m/2 - m*x2/4)/(a*b) <= ge <= GM*(1 - 3*m/2)/(a*b) /\
    GM*(1 + m)/(a*a) <= gp <= GM*(1 + m + m*x2/2)/(a*a).
Proof.
  intros a f GM w Ha Hf HG. assert (D : dom a f GM) by (unfold dom; tauto).
  destruct (near_sphere a f GM w D) as (ge & gp & H1 & H2 & B1 & B2).
  destruct (near_sphere_sharp a f GM w D) as (ge' & gp' & H1' & H2' & B3 & B4).
  rewrite H1 in H1'. rewrite H2 in H2'. injection H1' as <-. injection H2' as <-.
  exists ge, gp. split; [exact H1|]. split; [exact H2|]. cbv zeta in *. unfold mof, ges2 in *. tauto.
Qed.
Print Assumptions C16_near_sphere.

(* continuity towards f -> 0, PARTIAL on the unchanged tree (it speaks of the limit values, not of the f = 0 branch):
   ge and gp are within O(f) of the rotating-sphere values of the sphere of radius a, m0 = w^2 a^3/GM *)
Theorem C16_continuity_to_sphere_partial : forall a f GM w, 0 < a -> 1/1000000 <= f <= 1/5 -> 0 < GM ->
  w*w*(a*a*a)/GM <= 1/16 ->
  exists ge gp, C16_ge_R a f GM w = Val [ge] /\ C16_gp_R a f GM w = Val [gp] /\
    let m0 := w*w*(a*a*a)/GM in
    Rabs (ge - GM*(1 - 3*m0/2)/(a*a)) <= 13/10 * f * (GM/(a*a)) /\
    Rabs (gp - GM*(1 + m0)/(a*a)) <= 3 * m0 * f * (GM/(a*a)).
Proof. intros a f GM w Ha Hf HG Hm. apply continuity_to_sphere; [unfold dom; tauto|exact Hm]. Qed.
Print Assumptions C16_continuity_to_sphere_partial.

(* international_gravity, all five epochs: latitude guard, equator and pole values, symmetry, range, positivity *)
Theorem C16_international_gravity :
  igf_ok C16_intl_1930_R (978049/100000) (52884/10000000) /\
  igf_ok C16_intl_1948_R (9780373/1000000) (52891/10000000) /\
  igf_ok C16_intl_1967_R (9780318/1000000) (53024/10000000) /\
  igf_ok C16_intl_1980_R (9780367715/1000000000) (5302440112/1000000000000) /\
  igf_ok C16_intl_1984_R (97803253359/10000000000) (5302440112/1000000000000).
Proof. exact intl_ok. Qed.
Print Assumptions C16_international_gravity.

(* what igf_ok says, spelled out (so that the statement above cannot be weakened by editing the definition) *)
Theorem C16_igf_ok_meaning : forall F ge b1, igf_ok F ge b1 <->
  ((forall lat, 90 < Rabs lat -> F lat = Raise ValueError) /\
   F 0 = Val [ge] /\ F 90 = Val [ge*(1+b1)] /\ F (-90) = Val [ge*(1+b1)] /\
   (forall lat, F (- lat) = F lat) /\
   (forall lat, Rabs lat <= 90 -> exists g, F lat = Val [g] /\ ge <= g <= ge*(1+b1) /\ 0 < g)).
Proof. intros. unfold igf_ok. tauto. Qed.

Theorem C16_welmec_gravity :
  (forall lat h, 90 < Rabs lat -> C16_welmec_R lat h = Raise ValueError) /\
  C16_welmec_R 0 0 = Val [9780318/1000000] /\
  (forall lat h, C16_welmec_R (- lat) h = C16_welmec_R lat h) /\
  (forall lat h1 h2, Rabs lat <= 90 -> h1 < h2 -> exists g1 g2,
     C16_welmec_R lat h1 = Val [g1] /\ C16_welmec_R lat h2 = Val [g2] /\ g2 < g1 /\ g1 - g2 = 3085/1000000000 * (h2 - h1)) /\
  (forall lat h, Rabs lat <= 90 -> 0 <= h <= 100000 -> exists g, C16_welmec_R lat h = Val [g] /\ 9 < g).
Proof. exact welmec_ok. Qed.
Print Assumptions C16_welmec_gravity.

(* the shipped non-spherical bodies: general branch taken, gravity positive and inside a 6-digit window *)
Theorem C16_shipped_bodies_positive :
  (exists f m ge gp, C16_body_EARTH_R = Val [f; m; ge; gp] /\ 0 < f < 1/5 /\ 0 < ge /\ 0 < gp) /\
  (exists f m ge gp, C16_body_MOON_R = Val [f; m; ge; gp] /\ 0 < f < 1/5 /\ 0 < ge /\ 0 < gp) /\
  (exists f m ge gp, C16_body_MERCURY_R = Val [f; m; ge; gp] /\ 0 < f < 1/5 /\ 0 < ge /\ 0 < gp) /\
  (exists f m ge gp, C16_body_MARS_R = Val [f; m; ge; gp] /\ 0 < f < 1/5 /\ 0 < ge /\ 0 < gp) /\
  (exists f m ge gp, C16_body_JUPITER_R = Val [f; m; ge; gp] /\ 0 < f < 1/5 /\ 0 < ge /\ 0 < gp) /\
  (exists f m ge gp, C16_body_SATURN_R = Val [f; m; ge; gp] /\ 0 < f < 1/5 /\ 0 < ge /\ 0 < gp) /\
  (exists f m ge gp, C16_body_URANUS_R = Val [f; m; ge; gp] /\ 0 < f < 1/5 /\ 0 < ge /\ 0 < gp) /\
  (exists f m ge gp, C16_body_NEPTUNE_R = Val [f; m; ge; gp] /\ 0 < f < 1/5 /\ 0 < ge /\ 0 < gp).
Proof.
  repeat split;
  [ destruct body_EARTH as (f & m & ge & gp & H & Hf & _ & Hg & Hp)
  | destruct body_MOON as (f & m & ge & gp & H & Hf & _ & Hg & Hp)
  | destruct body_MERCURY as (f & m & ge & gp & H & Hf & _ & Hg & Hp)
  | destruct body_MARS as (f & m & ge & gp & H & Hf & _ & Hg & Hp)
  | destruct body_JUPITER as (f & m & ge & gp & H & Hf & _ & Hg & Hp)
  | destruct body_SATURN as (f & m & ge & gp & H & Hf & _ & Hg & Hp)
  | destruct body_URANUS as (f & m & ge & gp & H & Hf & _ & Hg & Hp)
  | destruct body_NEPTUNE as (f & m & ge & gp & H & Hf & _ & Hg & Hp) ];
  exists f, m, ge, gp; (split; [exact H|split; [exact Hf|split; lra]]).
Qed.
Print Assumptions C16_shipped_bodies_positive.

(* non-vacuity: WGS84-like parameters satisfy every hypothesis used above *)
Example C16_nonvacuous :
  0 < 6378137 /\ 1/1000000 <= 1/298 <= 1/5 /\ 0 < 398600441800000 /\
  (7292115/100000000000)*(7292115/100000000000)*(6378137*6378137)*(6378137*(1-1/298))/398600441800000 < 1/20 /\
  (7292115/100000000000)*(7292115/100000000000)*(6378137*6378137*6378137)/398600441800000 <= 1/16 /\ 0 <= 100 <= 6378137/200.
Proof. repeat split; lra. Qed.
