(* C16.v — property C16: the ellipsoid gravity model satisfies the closed-form level-ellipsoid identities.
   Statements only (about the regenerated definitions C16_*_R), each followed by Print Assumptions.
   Guard of the property: 0 < a, flattening in [1e-6, 0.2], GM > 0, m = w^2 a^2 b/GM < 0.05, heights in [0, a/200];
   the semi-major axis is not restricted to [1e5, 1e8] (the theorems hold for every a > 0).
   Parts a-d (C16_a.v .. C16_d.v) hold the statements whose proofs use the Interval enclosures of e'q0'/q0; this file's
   dependency cone is Interval-free, so that coqchk (thorough tier, run on the last file) finishes in minutes.
   The f = 0 clause lives in C16_refuted.v (unchanged tree) or C16_sphere.v (tree with fixes/C16-sphere-branch.patch). *)
From Coq Require Import Reals List Lra.
From AhrsLib Require Import Base GeodesyBase.
From AhrsGen Require Import C16gen_R.
From AhrsProps Require Import C16_algebra C16_formulas.
Import ListNotations.
Open Scope R_scope.

(* derived constants: b = a(1-f), e^2, e'^2, E, b/a, a^2/b, (2a+b)/3, m — and the identities between them *)
Theorem C16_derived_constants : forall a f GM w, 0 < a -> 0 <= f < 1 -> GM <> 0 ->
  exists b e2 es2 E ar rp r1 m,
    C16_consts_R a f GM w = Val [b; e2; es2; E; ar; rp; r1; m] /\
    b = a*(1-f) /\ e2 = (a*a - b*b)/(a*a) /\ es2 = (a*a - b*b)/(b*b) /\ E = sqrt (a*a - b*b) /\
    ar = b/a /\ rp = a*a/b /\ r1 = (2*a + b)/3 /\ m = w*w*(a*a)*b/GM /\
    0 < b <= a /\ E*E = a*a - b*b /\ 0 <= E /\ e2 = E*E/(a*a) /\ es2 = E*E/(b*b) /\ (1 - e2)*(1 + es2) = 1 /\ 0 <= e2 < 1.
Proof.
  intros a f GM w Ha Hf HG.
  destruct (consts_spec a f GM w) as (b & e2 & es2 & E & ar & rp & r1 & m & Hv & S); try lra.
  destruct (consts_identities a f GM w Ha Hf HG) as (b' & e2' & es2' & E' & ar' & rp' & r1' & m' & Hv' & I).
  rewrite Hv in Hv'. injection Hv' as <- <- <- <- <- <- <- <-.
  exists b, e2, es2, E, ar, rp, r1, m. split; [exact Hv|]. tauto.
Qed.
Print Assumptions C16_derived_constants.

(* the same as a pure field identity: q0 (an arctan expression of e') is an opaque non-zero atom; no interval arithmetic *)
Theorem C16_pizzetti_field_identity : forall a f GM w, a <> 0 -> f <> 1 -> GM <> 0 ->
  let x := sqrt ((a^2 - (a*(1-f))^2) / (a*(1-f))^2) in
  x <> 0 -> 1/2 * ((1 + 3/(x*x)) * atan x - 3/x) <> 0 ->
  exists ge gp, C16_ge_R a f GM w = Val [ge] /\ C16_gp_R a f GM w = Val [gp] /\
    2*ge/a + gp/(a*(1-f)) = 3*GM/(a*a*(a*(1-f))) - 2*(w*w).
Proof. intros a f GM w Ha Hf HG x Hx Hq. exact (pizzetti_any_q a f GM w Ha Hf HG Hx Hq). Qed.
Print Assumptions C16_pizzetti_field_identity.

(* symmetric in latitude: for ALL inputs, on every branch *)
Theorem C16_symmetric_in_latitude : forall a f GM w lat h,
  C16_g_R a f GM w (- lat) h = C16_g_R a f GM w lat h /\ C16_g0_R a f GM w (- lat) = C16_g0_R a f GM w lat.
Proof. intros. split; [apply g_symmetric|apply g0_symmetric]. Qed.
Print Assumptions C16_symmetric_in_latitude.

(* both public classes (ReferenceEllipsoid and the WGS subclass, positional and keyword arguments), for ALL reals, in
   particular for a flattening or rotation rate that is exactly 0: the object holds the parameters it was given,
   b = a(1-f), and the WGS route yields the very same gravity, potential and form factor as ReferenceEllipsoid *)
Theorem C16_both_classes : forall a f GM w lat h,
  C16_echo_R a f GM w = Val [a; f; GM; w; a*(1-f)] /\ C16_echo_kw_R a f GM w = Val [a; f; GM; w; a*(1-f)] /\
  C16_wgs_echo_R a f GM w = Val [a; f; GM; w; a*(1-f)] /\ C16_wgs_echo_kw_R a f GM w = Val [a; f; GM; w; a*(1-f)] /\
  C16_wgs_ge_R a f GM w = C16_ge_R a f GM w /\ C16_wgs_gp_R a f GM w = C16_gp_R a f GM w /\
  C16_wgs_g_R a f GM w lat h = C16_g_R a f GM w lat h /\ C16_wgs_U0_J2_R a f GM w = C16_ref_U0_J2_R a f GM w.
Proof. exact both_classes. Qed.
Print Assumptions C16_both_classes.

(* only w^2 enters: retrograde rotation (w < 0, as for Venus, Uranus, Pluto in the shipped table) gives the same outcome,
   for ALL reals and on every branch; in particular negative rates are not rejected *)
Theorem C16_even_in_rotation_rate : forall a f GM w lat h,
  C16_consts_R a f GM (- w) = C16_consts_R a f GM w /\ C16_ge_R a f GM (- w) = C16_ge_R a f GM w /\
  C16_gp_R a f GM (- w) = C16_gp_R a f GM w /\ C16_g_R a f GM (- w) lat h = C16_g_R a f GM w lat h /\
  C16_g0_R a f GM (- w) lat = C16_g0_R a f GM w lat /\ C16_ref_U0_J2_R a f GM (- w) = C16_ref_U0_J2_R a f GM w /\
  C16_gmean_R a f GM (- w) = C16_gmean_R a f GM w /\ C16_wgs_g_R a f GM (- w) lat h = C16_wgs_g_R a f GM w lat h.
Proof. exact even_in_w. Qed.
Print Assumptions C16_even_in_rotation_rate.

(* international_gravity, all five epochs: latitude guard, equator and pole values, symmetry, range, positivity *)
Theorem C16_international_gravity :
  igf_ok C16_intl_1930_R (978049/100000) (52884/10000000) /\
  igf_ok C16_intl_1948_R (9780373/1000000) (52891/10000000) /\
  igf_ok C16_intl_1967_R (9780318/1000000) (53024/10000000) /\
  igf_ok C16_intl_1980_R (9780367715/1000000000) (5302440112/1000000000000) /\
  igf_ok C16_intl_1984_R (97803253359/10000000000) (5302440112/1000000000000).
Proof. exact intl_ok. Qed.
Print Assumptions C16_international_gravity.

(* what igf_ok says, spelled out (so that the statement above cannot be weakened by editing the definition) *)
Theorem C16_igf_ok_meaning : forall F ge b1, igf_ok F ge b1 <->
  ((forall lat, 90 < Rabs lat -> F lat = Raise ValueError) /\
   F 0 = Val [ge] /\ F 90 = Val [ge*(1+b1)] /\ F (-90) = Val [ge*(1+b1)] /\
   (forall lat, F (- lat) = F lat) /\
   (forall lat, Rabs lat <= 90 -> exists g, F lat = Val [g] /\ ge <= g <= ge*(1+b1) /\ 0 < g)).
Proof. intros. unfold igf_ok. tauto. Qed.

Theorem C16_welmec_gravity :
  (forall lat h, 90 < Rabs lat -> C16_welmec_R lat h = Raise ValueError) /\
  C16_welmec_R 0 0 = Val [9780318/1000000] /\
  (forall lat h, C16_welmec_R (- lat) h = C16_welmec_R lat h) /\
  (forall lat h1 h2, Rabs lat <= 90 -> h1 < h2 -> exists g1 g2,
     C16_welmec_R lat h1 = Val [g1] /\ C16_welmec_R lat h2 = Val [g2] /\ g2 < g1 /\ g1 - g2 = 3085/1000000000 * (h2 - h1)) /\
  (forall lat h, Rabs lat <= 90 -> 0 <= h <= 100000 -> exists g, C16_welmec_R lat h = Val [g] /\ 9 < g).
Proof. exact welmec_ok. Qed.
Print Assumptions C16_welmec_gravity.


(* non-vacuity: WGS84-like parameters satisfy every hypothesis used above *)
Example C16_nonvacuous :
  0 < 6378137 /\ 1/1000000 <= 1/298 <= 1/5 /\ 0 < 398600441800000 /\
  (7292115/100000000000)*(7292115/100000000000)*(6378137*6378137)*(6378137*(1-1/298))/398600441800000 < 1/20 /\
  (7292115/100000000000)*(7292115/100000000000)*(6378137*6378137*6378137)/398600441800000 <= 1/16 /\ 0 <= 100 <= 6378137/200.
Proof. repeat split; lra. Qed.
