(* C16_b.v — property C16, statements only (part b: Somigliana at the equator and the poles, decrease with height).
   Split from C16.v so that the Print Assumptions traversals of the Interval library run in parallel. *)
From Coq Require Import Reals List Lra.
From AhrsLib Require Import Base Geodesy.
From AhrsGen Require Import C16gen_R.
From AhrsProps Require Import C16_model C16_gravity.
Import ListNotations.
Open Scope R_scope.

(* Somigliana: latitude 0 gives ge, latitude +-90 gives gp (both through the explicit h = 0 and the default argument) *)
Theorem C16_somigliana_equator_pole : forall a f GM w, 0 < a -> 1/1000000 <= f <= 1/5 -> 0 < GM ->
  w*w*(a*a)*(a*(1-f))/GM < 1/20 ->
  exists ge gp, C16_ge_R a f GM w = Val [ge] /\ C16_gp_R a f GM w = Val [gp] /\
    C16_g_R a f GM w 0 0 = Val [ge] /\ C16_g_R a f GM w 90 0 = Val [gp] /\ C16_g_R a f GM w (-90) 0 = Val [gp] /\
    C16_g0_R a f GM w 0 = Val [ge] /\ C16_g0_R a f GM w 90 = Val [gp] /\ C16_g0_R a f GM w (-90) = Val [gp].
Proof.
  intros a f GM w Ha Hf HG Hm. assert (D : dom a f GM) by (unfold dom; tauto).
  exists (gE a f GM w), (gP a f GM w). destruct (gamma_pole a f GM w D Hm) as [Q1 Q2].
  rewrite !g_closed, !g0_closed, (gamma_equator a f GM w D), Q1, Q2 by assumption.
  repeat split. - apply ge_closed; exact D. - apply gp_closed; exact D.
Qed.
Print Assumptions C16_somigliana_equator_pole.

(* strictly decreasing with height on [0, 0.5 % of a], the range of the second-order height formula *)
Theorem C16_decreasing_with_height : forall a f GM w lat h1 h2, 0 < a -> 1/1000000 <= f <= 1/5 -> 0 < GM ->
  w*w*(a*a)*(a*(1-f))/GM < 1/20 -> 0 <= h1 -> h1 < h2 -> h2 <= a/200 ->
  exists g1 g2, C16_g_R a f GM w lat h1 = Val [g1] /\ C16_g_R a f GM w lat h2 = Val [g2] /\ g2 < g1.
Proof.
  intros a f GM w lat h1 h2 Ha Hf HG Hm H1 H12 H2. assert (D : dom a f GM) by (unfold dom; tauto).
  exists (gamma a f GM w lat h1), (gamma a f GM w lat h2). rewrite !g_closed by assumption.
  repeat split. apply gamma_decreasing; assumption.
Qed.
Print Assumptions C16_decreasing_with_height.
