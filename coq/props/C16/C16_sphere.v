(* C16_sphere.v — the f = 0 branch on a tree that carries fixes/C16-sphere-branch.patch:
   equatorial / polar normal gravity are exactly the rotating-sphere values, which are the limits of
   the general formulas (C16_model.continuity_to_sphere), hence continuity across f -> 0.
   Compiled instead of C16_refuted.v when the finding "sphere/returns-m" no longer reproduces. *)
From Coq Require Import Reals List Lra.
From AhrsLib Require Import Base Geodesy.
From AhrsGen Require Import C16gen_R.
From AhrsProps Require Import C16_model C16_gravity.
Import ListNotations.
Open Scope R_scope.

Definition m0of (a GM w : R) : R := w*w*(a*a*a)/GM.
Definition geS (a GM w : R) : R := GM*(1 - 3*(m0of a GM w)/2)/(a*a).
Definition gpS (a GM w : R) : R := GM*(1 + m0of a GM w)/(a*a).

Ltac sphere_branch a :=
  cbv zeta;
  repeat match goal with |- context [sqrt ?e] =>
    progress replace e with 0 by (field; lra) end;
  rewrite ?sqrt_0;
  repeat match goal with
  | |- context [Req_EM_T 0 0] => destruct (Req_EM_T 0 0) as [_|?N]; [|exfalso; apply N; reflexivity]
  end.

Lemma sphere_exact a GM w : 0 < a -> 0 < GM ->
  C16_ge_R a 0 GM w = Val [geS a GM w] /\ C16_gp_R a 0 GM w = Val [gpS a GM w].
Proof.
  intros Ha HG. unfold C16_ge_R, C16_gp_R. sphere_branch a.
  split; val_eq; unfold geS, gpS, m0of; field; lra.
Qed.

Lemma sphere_pizzetti a GM w : 0 < a -> 0 < GM ->
  2 * geS a GM w / a + gpS a GM w / a = 3*GM/(a*a*a) - 2*(w*w).
Proof. intros Ha HG. unfold geS, gpS, m0of. field. lra. Qed.

Lemma m0of_nonneg a GM w : 0 < a -> 0 < GM -> 0 <= m0of a GM w.
Proof.
  intros Ha HG. unfold m0of. apply Rmult_le_pos; [|left; apply Rinv_0_lt_compat; exact HG].
  assert (H1 : 0 <= w*w) by (pose proof (Rle_0_sqr w) as H; unfold Rsqr in H; exact H).
  apply Rmult_le_pos; [exact H1|]. apply Rmult_le_pos; [|lra]. nra.
Qed.

Lemma sphere_positive a GM w : 0 < a -> 0 < GM -> m0of a GM w < 1/20 -> 0 < geS a GM w /\ 0 < gpS a GM w.
Proof.
  intros Ha HG Hm. pose proof (m0of_nonneg a GM w Ha HG) as H0. unfold geS, gpS.
  assert (Hi : 0 < /(a*a)) by (apply Rinv_0_lt_compat; nra).
  split; apply Rmult_lt_0_compat; try exact Hi; apply Rmult_lt_0_compat; lra.
Qed.

(* normal gravity of the sphere: ge cos^2 + gp sin^2 times the height factor with f = 0 *)
Lemma sphere_g a GM w lat h : 0 < a -> 0 < GM -> m0of a GM w < 1/20 ->
  C16_g_R a 0 GM w lat h =
    Val [(geS a GM w * (1 - sin2d lat) + gpS a GM w * sin2d lat) * hfac a 0 (m0of a GM w) (sin2d lat) h].
Proof.
  intros Ha HG Hm. destruct (sphere_positive a GM w Ha HG Hm) as [P1 P2].
  destruct (sphere_exact a GM w Ha HG) as [S1 S2]. revert S1 S2.
  unfold C16_ge_R, C16_gp_R, C16_g_R. sphere_branch a. intros S1 S2.
  apply Val1_inv in S1. apply Val1_inv in S2. rewrite S1, S2.
  fold (sin2d lat).
  match goal with |- context [sqrt (1 - ?e)] => replace (1 - e) with 1 by ring end.
  rewrite sqrt_1. unfold hfac.
  assert (Em : m0of a GM w = w*w*(a*a*a)/GM) by reflexivity.
  destr_dec; [subst h|]; val_eq; rewrite ?Em; field; repeat split; lra.
Qed.

(* potential and dynamical form factor of the sphere: the limits GM/a + w^2 a^2/3 and -m/3 *)
Lemma sphere_U0_J2 a GM w : 0 < a -> 0 < GM ->
  C16_U0_R a 0 GM w = Val [GM/a + w*w*(a*a)/3] /\
  exists c20, C16_J2_R a 0 GM w = Val [- m0of a GM w / 3; c20].
Proof.
  intros Ha HG. unfold C16_U0_R, C16_J2_R. sphere_branch a. split.
  - val_eq. field. lra.
  - eexists. val_eq. unfold m0of. field. lra.
Qed.

(* continuity across f -> 0: the values at f in [1e-6, 0.2] are within O(f) of the values AT f = 0 *)
Lemma continuity_at_zero a f GM w : dom a f GM -> m0of a GM w <= 1/16 ->
  exists ge gp ge0 gp0,
    C16_ge_R a f GM w = Val [ge] /\ C16_gp_R a f GM w = Val [gp] /\
    C16_ge_R a 0 GM w = Val [ge0] /\ C16_gp_R a 0 GM w = Val [gp0] /\
    Rabs (ge - ge0) <= 13/10 * f * (GM/(a*a)) /\ Rabs (gp - gp0) <= 3 * m0of a GM w * f * (GM/(a*a)).
Proof.
  intros D Hm. destruct (continuity_to_sphere a f GM w D Hm) as (ge & gp & H1 & H2 & B1 & B2).
  destruct D as (Ha & Hf & HG). destruct (sphere_exact a GM w Ha HG) as [S1 S2].
  exists ge, gp, (geS a GM w), (gpS a GM w). repeat split; assumption.
Qed.

(* the shipped spherical bodies *)
Lemma shipped_spheres :
  (exists m ge gp, C16_body_VENUS_R = Val [0; m; ge; gp] /\ 887/100 < ge < 8871/1000 /\ 887/100 < gp < 8871/1000) /\
  (exists m ge gp, C16_body_PLUTO_R = Val [0; m; ge; gp] /\ 6156/10000 < ge < 6159/10000 /\ 6158/10000 < gp < 6161/10000).
Proof.
  split; eexists _, _, _; (split; [unfold C16_body_VENUS_R, C16_body_PLUTO_R; reflexivity|split; lra]).
Qed.

(* ---- statements (this file replaces C16_refuted.v on a repaired tree, so it carries its own) ---- *)
(* f = 0: exactly the rotating-sphere values; they satisfy Pizzetti with b = a, are positive for m0 < 0.05, and
   normal gravity is ge cos^2 + gp sin^2 times the height factor *)
Theorem C16_sphere_branch : forall a GM w lat h, 0 < a -> 0 < GM -> w*w*(a*a*a)/GM < 1/20 ->
  let m0 := w*w*(a*a*a)/GM in let ge := GM*(1 - 3*m0/2)/(a*a) in let gp := GM*(1 + m0)/(a*a) in
  C16_ge_R a 0 GM w = Val [ge] /\ C16_gp_R a 0 GM w = Val [gp] /\
  2*ge/a + gp/a = 3*GM/(a*a*a) - 2*(w*w) /\ 0 < ge /\ 0 < gp /\
  C16_g_R a 0 GM w lat h = Val [(ge * (1 - (sin (lat * (1/180*PI)))^2) + gp * (sin (lat * (1/180*PI)))^2)
                                * (1 - 2*h*(1 + 0 + m0 - 2*0*(sin (lat * (1/180*PI)))^2)/a + 3*(h*h)/(a*a))] /\
  C16_U0_R a 0 GM w = Val [GM/a + w*w*(a*a)/3] /\
  exists c20, C16_J2_R a 0 GM w = Val [- m0 / 3; c20].
Proof.
  intros a GM w lat h Ha HG Hm. cbv zeta.
  destruct (sphere_exact a GM w Ha HG) as [S1 S2]. destruct (sphere_positive a GM w Ha HG Hm) as [P1 P2].
  destruct (sphere_U0_J2 a GM w Ha HG) as [U J].
  split; [exact S1|]. split; [exact S2|]. split; [exact (sphere_pizzetti a GM w Ha HG)|].
  split; [exact P1|]. split; [exact P2|]. split; [exact (sphere_g a GM w lat h Ha HG Hm)|]. split; [exact U|exact J].
Qed.
Print Assumptions C16_sphere_branch.

(* continuity across f -> 0: for f in [1e-6, 0.2] the values are within O(f) of the values returned AT f = 0 *)
Theorem C16_continuity_at_zero : forall a f GM w, 0 < a -> 1/1000000 <= f <= 1/5 -> 0 < GM -> w*w*(a*a*a)/GM <= 1/16 ->
  exists ge gp ge0 gp0,
    C16_ge_R a f GM w = Val [ge] /\ C16_gp_R a f GM w = Val [gp] /\
    C16_ge_R a 0 GM w = Val [ge0] /\ C16_gp_R a 0 GM w = Val [gp0] /\
    Rabs (ge - ge0) <= 13/10 * f * (GM/(a*a)) /\ Rabs (gp - gp0) <= 3 * (w*w*(a*a*a)/GM) * f * (GM/(a*a)).
Proof. intros a f GM w Ha Hf HG Hm. apply continuity_at_zero; [unfold dom; tauto|exact Hm]. Qed.
Print Assumptions C16_continuity_at_zero.

(* Venus and Pluto of the shipped table (equal radii, f = 0): gravity near GM/a^2 = 8.8703, 0.61588 *)
Theorem C16_shipped_spheres :
  (exists m ge gp, C16_body_VENUS_R = Val [0; m; ge; gp] /\ 887/100 < ge < 8871/1000 /\ 887/100 < gp < 8871/1000) /\
  (exists m ge gp, C16_body_PLUTO_R = Val [0; m; ge; gp] /\ 6156/10000 < ge < 6159/10000 /\ 6158/10000 < gp < 6161/10000).
Proof. exact shipped_spheres. Qed.
Print Assumptions C16_shipped_spheres.
