(* C03_refuted_saam.v — witness, inside the regenerated model, of the known finding "SAAM.am-quaternion/nan-or-nan-rejected@level":
   for a level device (acc = +z) SAAM's pre-normalisation quaternion is exactly zero for every magnetic reading, so the
   code divides 0 by 0 (NaN in binary64; the zero vector in Coq's total division) — not a unit quaternion. *)
From Coq Require Import Reals List Lra.
From AhrsLib Require Import Base Rot.
From AhrsGen Require Import C03gen_R.
From AhrsProps Require Import C03_core.
Import ListNotations.
Open Scope R_scope.

Lemma saam_level : exists a b c d, C03_saam_R 0 0 1 1 0 0 = Val [a;b;c;d] /\ a = 0 /\ b = 0 /\ c = 0 /\ d = 0.
Proof.
  unfold C03_saam_R. cbv zeta.
  replace (0 * 0 + 0 * 0 + 1 * 1) with 1 by lra. replace (1 * 1 + 0 * 0 + 0 * 0) with 1 by lra. rewrite sqrt_1.
  destruct (Rlt_dec 0 1) as [_|nn]; [|exfalso; apply nn; lra].
  do 4 eexists. split; [reflexivity|]. unfold Rdiv. rewrite !Rinv_1.
  repeat split; match goal with |- ?n * _ = 0 => replace n with 0 by ring; apply Rmult_0_l end.
Qed.

Theorem C03_saam_level_refuted : exists ax ay az mx my mz l,
  nz3 ax ay az /\ nz3 mx my mz /\ (ax*mx + ay*my + az*mz) * (ax*mx + ay*my + az*mz) < (ax*ax + ay*ay + az*az) * (mx*mx + my*my + mz*mz) /\
  C03_saam_R ax ay az mx my mz = Val l /\ qnorm2 l <> 1.
Proof.
  destruct saam_level as (a&b&c&d&E&->&->&->&->).
  exists 0, 0, 1, 1, 0, 0, [0;0;0;0]. unfold nz3. repeat split; try lra. exact E. unfold_rot. lra.
Qed.
Print Assumptions C03_saam_level_refuted.
