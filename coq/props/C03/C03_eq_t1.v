(* C03_eq_t1.v — the let_in print of a target is CONVERTIBLE to pysym's own print (one kernel conversion of the two let-DAGs) *)
From Coq Require Import Reals List.
From AhrsLib Require Import Base.
From AhrsModel Require Import C03_letin.
From AhrsGen Require Import C03gen_R C03gen_L.
Lemma eq_aqua_imu w x y z gx gy gz ax ay az : C03_aqua_imu_L w x y z gx gy gz ax ay az = C03_aqua_imu_R w x y z gx gy gz ax ay az.
Proof. reflexivity. Qed.
