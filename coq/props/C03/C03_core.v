(* C03_core.v — mathematics of "divide by the norm" shared by every filter of C03 (independent of generated code),
   and the tactics that apply it to the regenerated update steps without depending on the shape of their terms. *)
From Coq Require Import Reals List Lra Psatz.
From AhrsLib Require Import Base Rot.
Import ListNotations.
Open Scope R_scope.

Definition sq4 (a b c d : R) : R := a*a + b*b + c*c + d*d.
Definition unit4 (w x y z : R) : Prop := w*w + x*x + y*y + z*z = 1.
Definition nz3 (a b c : R) : Prop := 0 < a*a + b*b + c*c.

Lemma sq4_nonneg a b c d : 0 <= sq4 a b c d.
Proof. unfold sq4. nra. Qed.

(* the last operation of every filter: v / ||v|| is a unit quaternion as soon as ||v|| <> 0 *)
Lemma unit_of_div a b c d s : s * s = a*a + b*b + c*c + d*d -> s <> 0 -> qnorm2 [a/s; b/s; c/s; d/s] = 1.
Proof. intros H Hs. unfold_rot. replace (a / s * (a / s) + b / s * (b / s) + c / s * (c / s) + d / s * (d / s)) with ((a*a + b*b + c*c + d*d) / (s * s)) by (field; exact Hs). rewrite <- H. field. exact Hs. Qed.

Lemma unit_of_div_sqrt a b c d : 0 < a*a + b*b + c*c + d*d ->
  qnorm2 [a / sqrt (a*a + b*b + c*c + d*d); b / sqrt (a*a + b*b + c*c + d*d); c / sqrt (a*a + b*b + c*c + d*d); d / sqrt (a*a + b*b + c*c + d*d)] = 1.
Proof. intros H. apply unit_of_div; [apply sqrt_sqrt; lra|apply sqrt_pos_ne0; exact H]. Qed.

Lemma sqrt3_pos a b c : nz3 a b c -> 0 < sqrt (a*a + b*b + c*c).
Proof. intros H. apply sqrt_lt_R0. exact H. Qed.

(* Cauchy-Schwarz against a unit quaternion (Lagrange's identity) *)
Lemma cs4 w x y z a b c d : unit4 w x y z -> (a*w + b*x + c*y + d*z) * (a*w + b*x + c*y + d*z) <= a*a + b*b + c*c + d*d.
Proof.
  unfold unit4. intros H.
  assert (E : (a*a + b*b + c*c + d*d) * (w*w + x*x + y*y + z*z) - (a*w + b*x + c*y + d*z) * (a*w + b*x + c*y + d*z)
            = (a*x - b*w)*(a*x - b*w) + (a*y - c*w)*(a*y - c*w) + (a*z - d*w)*(a*z - d*w)
            + (b*y - c*x)*(b*y - c*x) + (b*z - d*x)*(b*z - d*x) + (c*z - d*y)*(c*z - d*y)) by ring.
  rewrite H, Rmult_1_r in E.
  pose proof (Rle_0_sqr (a*x - b*w)). pose proof (Rle_0_sqr (a*y - c*w)). pose proof (Rle_0_sqr (a*z - d*w)).
  pose proof (Rle_0_sqr (b*y - c*x)). pose proof (Rle_0_sqr (b*z - d*x)). pose proof (Rle_0_sqr (c*z - d*y)).
  unfold Rsqr in *. lra.
Qed.

(* kinematic prediction  v = q + (1/2) dt q (x) (0, Omega): the increment is orthogonal to q, hence v . q = 1 and ||v|| >= 1,
   WHATEVER the (corrected) rate Omega is *)
Lemma dot_one_norm_ge1 w x y z a b c d : unit4 w x y z -> a*w + b*x + c*y + d*z = 1 -> 1 <= a*a + b*b + c*c + d*d.
Proof. intros H D. pose proof (cs4 w x y z a b c d H) as C. rewrite D in C. lra. Qed.

(* a lower bound on v . q bounds ||v|| away from zero (Madgwick: v . q >= 1 - beta dt) *)
Lemma dot_pos_norm_pos w x y z a b c d k : unit4 w x y z -> 0 < k -> k <= a*w + b*x + c*y + d*z -> 0 < a*a + b*b + c*c + d*d.
Proof. intros H Hk D. pose proof (cs4 w x y z a b c d H) as C. nra. Qed.

(* product of quaternions: norms multiply (used by AQUA's  qInt (x) q_acc (x) q_mag) *)
Lemma sq4_qmul a b c d w x y z :
  sq4 (a*w - b*x - c*y - d*z) (a*x + b*w + c*z - d*y) (a*y - b*z + c*w + d*x) (a*z + b*y - c*x + d*w) = sq4 a b c d * sq4 w x y z.
Proof. unfold sq4. ring. Qed.

(* |u . g| <= 1 for a unit quaternion u and a vector g with ||g|| <= 1 *)
Lemma dot_le1 w x y z g0 g1 g2 g3 : unit4 w x y z -> g0*g0 + g1*g1 + g2*g2 + g3*g3 <= 1 -> g0*w + g1*x + g2*y + g3*z <= 1.
Proof. intros H G. pose proof (cs4 w x y z g0 g1 g2 g3 H) as C. nra. Qed.

(* normalised 4-vector has norm at most one, also in Coq's total semantics where x / 0 = x * / 0 *)
Lemma normalised_le1 g0 g1 g2 g3 :
  let n := sqrt (g0*g0 + g1*g1 + g2*g2 + g3*g3) in
  (g0/n)*(g0/n) + (g1/n)*(g1/n) + (g2/n)*(g2/n) + (g3/n)*(g3/n) <= 1.
Proof.
  intros n. destruct (Req_dec (g0*g0 + g1*g1 + g2*g2 + g3*g3) 0) as [Z|NZ].
  - assert (Z0 : g0 = 0) by nra. assert (Z1 : g1 = 0) by nra. assert (Z2 : g2 = 0) by nra. assert (Z3 : g3 = 0) by nra.
    rewrite Z0, Z1, Z2, Z3. unfold Rdiv. rewrite !Rmult_0_l. lra.
  - assert (P : 0 < g0*g0 + g1*g1 + g2*g2 + g3*g3) by nra.
    pose proof (unit_of_div_sqrt g0 g1 g2 g3 P) as U. cbv [qnorm2 e List.nth] in U. fold n in U. lra.
Qed.

(* ------------------------------------------------------------------------------------------------------------
   tactics over the regenerated terms *)

Lemma div_one x : x / 1 = x.
Proof. field. Qed.
(* the Quaternion(q) constructor divides a unit q by its norm sqrt(1) = 1.  U : w*w + x*x + y*y + z*z = 1.
   First the literal sum emitted for np.linalg.norm; then any other small radicand that `ring` identifies with it. *)
Ltac unitq_norm U :=
  first [ rewrite !U | idtac ];
  lazymatch goal with |- context [sqrt 1] => idtac | _ =>
  repeat match goal with
  | |- context [sqrt ?e] =>
      lazymatch e with context [sqrt _] => fail | context [Rinv _] => fail | context [Rdiv _ _] => fail | 1 => fail | _ => idtac end;
      let H := fresh in
      match type of U with ?l = 1 => assert (H : e = l) by ring end; rewrite H; clear H; rewrite U
  end end;
  rewrite ?sqrt_1, ?div_one.

(* the Quaternion(...) constructor's zero test and the `norm == 0` early exits:  0 = sqrt e  with e > 0 is impossible *)
Ltac gate_sqrt_nz :=
  match goal with
  | |- context [Req_EM_T 0 (sqrt ?e)] =>
      let Hz := fresh "Hz" in
      destruct (Req_EM_T 0 (sqrt e)) as [Hz|Hz];
      [ exfalso; symmetry in Hz; apply sqrt_eq_0 in Hz; [nra|nra] | clear Hz ]
  | |- context [Rlt_dec 0 (sqrt ?e)] =>
      let Hz := fresh "Hz" in
      destruct (Rlt_dec 0 (sqrt e)) as [Hz|Hz];
      [ clear Hz | exfalso; apply Hz; apply sqrt_lt_R0; nra ]
  end.

(* the same, restricted to the three-term norms of the samples (decided from the nz3 hypotheses by lra) *)
Ltac gate_sqrt_nz3 :=
  match goal with
  | |- context [Req_EM_T 0 (sqrt (?a*?a + ?b*?b + ?c*?c))] =>
      let Hz := fresh "Hz" in
      destruct (Req_EM_T 0 (sqrt (a*a + b*b + c*c))) as [Hz|Hz];
      [ exfalso; symmetry in Hz; apply sqrt_eq_0 in Hz; [lra|lra] | clear Hz ]
  | |- context [Rlt_dec 0 (sqrt (?a*?a + ?b*?b + ?c*?c))] =>
      let Hz := fresh "Hz" in
      destruct (Rlt_dec 0 (sqrt (a*a + b*b + c*c))) as [Hz|Hz];
      [ clear Hz | exfalso; apply Hz; apply sqrt_lt_R0; lra ]
  end.

(* goal: qnorm2 [a/s; b/s; c/s; d/s] = 1 with s = sqrt (sum of squares): reduce to  0 < sum of squares *)
Ltac unit_by_norm :=
  match goal with
  | |- qnorm2 [?a / sqrt ?e; ?b / sqrt ?e; ?c / sqrt ?e; ?d / sqrt ?e] = 1 =>
      first [ apply unit_of_div_sqrt
            | apply unit_of_div;
              [ rewrite sqrt_sqrt; [ring | replace e with (sq4 a b c d) by (unfold sq4; ring); apply sq4_nonneg]
              | apply sqrt_pos_ne0; replace e with (a*a + b*b + c*c + d*d) by ring ] ]
  end.

(* ------------------------------------------------------------------------------------------------------------
   the PARTIAL statement shared by every filter that ends in `v / ||v||`: whatever path is taken, a returned value is
   a unit quaternion, or -- only when the pre-normalisation vector v is exactly zero, where binary64 gives NaN and
   Coq's total division gives 0 -- the zero vector.  Rejections (Raise) are judged by the guard theorems. *)
Definition unit_or_degenerate (o : outcome R) : Prop :=
  match o with
  | Val [p; q; r; t] => qnorm2 [p; q; r; t] = 1 \/ (p = 0 /\ q = 0 /\ r = 0 /\ t = 0)
  | Val [] => True            (* `return None` (no attitude): judged, like Raise, by the guard theorems *)
  | Val _ => False
  | Raise _ => True
  end.

Lemma div_norm_unit_or_zero a b c d :
  qnorm2 [a / sqrt (a*a + b*b + c*c + d*d); b / sqrt (a*a + b*b + c*c + d*d); c / sqrt (a*a + b*b + c*c + d*d); d / sqrt (a*a + b*b + c*c + d*d)] = 1
  \/ (a / sqrt (a*a + b*b + c*c + d*d) = 0 /\ b / sqrt (a*a + b*b + c*c + d*d) = 0 /\ c / sqrt (a*a + b*b + c*c + d*d) = 0 /\ d / sqrt (a*a + b*b + c*c + d*d) = 0).
Proof.
  destruct (Req_dec (a*a + b*b + c*c + d*d) 0) as [Z|NZ].
  - right. assert (Z0 : a = 0) by nra. assert (Z1 : b = 0) by nra. assert (Z2 : c = 0) by nra. assert (Z3 : d = 0) by nra.
    rewrite Z0, Z1, Z2, Z3. unfold Rdiv. rewrite !Rmult_0_l. repeat split; reflexivity.
  - left. apply unit_of_div_sqrt. nra.
Qed.

(* ------------------------------------------------------------------------------------------------------------
   walking the decision tree of a regenerated definition WITHOUT zeta-expanding it (the let-bound DAG of a filter step
   is exponentially larger as a tree): each `let x := v in b` becomes a fresh variable with an equation; each
   data-dependent `if` is destructed; `leaf` is run on every leaf. *)
Lemma let_intro (P : outcome R -> Prop) (v : R) (b : R -> outcome R) : (forall y, y = v -> P (b y)) -> P (let x := v in b x).
Proof. intros H. exact (H v eq_refl). Qed.

Ltac walk leaf :=
  lazymatch goal with
  | |- ?P (let x := ?v in @?b x) =>
      let y := fresh "t_" in let Hy := fresh "E" y in
      refine (let_intro P v b _); intros y Hy; cbv beta; walk leaf
  | |- ?P (if ?c then _ else _) => destruct c; walk leaf
  | |- _ => leaf
  end.
Ltac rw_local t := try (is_var t; match goal with H : t = _ |- _ => rewrite H end).
Lemma div0 s : 0 / s = 0. Proof. unfold Rdiv. apply Rmult_0_l. Qed.
(* e / s = 0 when the sum of squares S containing e*e vanishes *)
Ltac zero_comp Z := first [ reflexivity | apply div0 | match goal with |- ?n / _ = 0 => assert (Hn : n = 0) by nra; rewrite Hn; apply div0 end ].
Ltac leaf0_base U := idtac;
  lazymatch goal with
  | |- unit_or_degenerate (Raise _) => exact I
  | |- unit_or_degenerate (Val []) => exact I
  | |- unit_or_degenerate (Val [?a; ?b; ?c; ?d]) =>
      unfold unit_or_degenerate; rw_local a; rw_local b; rw_local c; rw_local d;
      lazymatch goal with
      | |- context [_ / ?s] =>
          rw_local s;
          repeat match goal with E : ?v = ?x * ?x |- context [?v] => is_var v; rewrite E end;   (* let-bound squares of the radicand *)
          lazymatch goal with
          | |- context [_ / sqrt ?Rd] =>
              repeat match goal with H : _ |- _ => lazymatch type of H with R => fail | _ => clear H end end;
              let Z := fresh "Z" in
              destruct (Req_dec Rd 0) as [Z|Z];
              [ right; repeat split; zero_comp Z
              | left; cbv [qnorm2 e List.nth];
                let P := fresh "P" in assert (P : 0 < Rd) by nra;
                let Hss := fresh "Hss" in pose proof (sqrt_sqrt Rd (Rlt_le _ _ P)) as Hss;
                let Hnz := fresh "Hnz" in pose proof (sqrt_pos_ne0 Rd P) as Hnz;
                let sv := fresh "s" in set (sv := sqrt Rd) in *;
                field_simplify_eq; [nra|exact Hnz] ]
          end
      | |- qnorm2 [1; 0; 0; 0] = 1 \/ _ => left; cbv [qnorm2 e List.nth]; lra
      | |- qnorm2 [?p; ?q; ?r; ?t] = 1 \/ _ =>
          is_var p; is_var q; is_var r; is_var t; left; cbv [qnorm2 e List.nth]; exact U
      | |- ?g => idtac "LEAF NOT HANDLED:" g; fail
      end
  end.

(* a leaf that is the NEGATION of such a vector (sign canonicalisation `-q if q[0] < 0 else q`): a negated unit quaternion is
   unit, and -0 = 0 for the degenerate leaf.  The negations may be literal or let-bound (v = - v'). *)
Lemma uod_neg a b c d : unit_or_degenerate (Val [a; b; c; d]) -> unit_or_degenerate (Val [- a; - b; - c; - d]).
Proof.
  unfold unit_or_degenerate. cbv [qnorm2 e List.nth]. intros [H|(Ha & Hb & Hc & Hd)].
  - left. rewrite <- H. ring.
  - right. rewrite Ha, Hb, Hc, Hd. repeat split; ring.
Qed.
Ltac rw_neg t := try (is_var t; match goal with H : t = - _ |- _ => rewrite H end).
Ltac neg_leaf := idtac;
  lazymatch goal with
  | |- unit_or_degenerate (Val [?a; ?b; ?c; ?d]) =>
      rw_neg a; rw_neg b; rw_neg c; rw_neg d;
      lazymatch goal with |- unit_or_degenerate (Val [- _; - _; - _; - _]) => apply uod_neg end
  end.
Ltac leaf0 U := first [ neg_leaf; leaf0_base U | leaf0_base U ].
Ltac partial_by_walk f U := cbv delta [f]; cbv beta; walk ltac:(leaf0 U).
