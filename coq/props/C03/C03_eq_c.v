(* C03_eq_c.v — convertibility of the let_in print with pysym's print for the estimator / EKF targets *)
From Coq Require Import Reals List.
From AhrsLib Require Import Base.
From AhrsModel Require Import C03_letin.
From AhrsGen Require Import C03gen_R C03gen_L.
Lemma eq_tilt_acc ax ay az : C03_tilt_acc_L ax ay az = C03_tilt_acc_R ax ay az.
Proof. reflexivity. Qed.
Lemma eq_tilt_am ax ay az mx my mz : C03_tilt_am_L ax ay az mx my mz = C03_tilt_am_R ax ay az mx my mz.
Proof. reflexivity. Qed.
Lemma eq_complementary_Q gx gy gz ax ay az mx my mz hx hy hz ux uy uz nx ny nz : C03_complementary_Q_L gx gy gz ax ay az mx my mz hx hy hz ux uy uz nx ny nz = C03_complementary_Q_R gx gy gz ax ay az mx my mz hx hy hz ux uy uz nx ny nz.
Proof. reflexivity. Qed.
Lemma eq_ecompass_ned ax ay az mx my mz : C03_ecompass_ned_L ax ay az mx my mz = C03_ecompass_ned_R ax ay az mx my mz.
Proof. reflexivity. Qed.
Lemma eq_ecompass_enu ax ay az mx my mz : C03_ecompass_enu_L ax ay az mx my mz = C03_ecompass_enu_R ax ay az mx my mz.
Proof. reflexivity. Qed.
Lemma eq_acc2q ax ay az : C03_acc2q_L ax ay az = C03_acc2q_R ax ay az.
Proof. reflexivity. Qed.
Lemma eq_flae_eig_post ax ay az mx my mz l0 l1 l2 l3 v00 v01 v02 v03 v10 v11 v12 v13 v20 v21 v22 v23 v30 v31 v32 v33 : C03_flae_eig_post_L ax ay az mx my mz l0 l1 l2 l3 v00 v01 v02 v03 v10 v11 v12 v13 v20 v21 v22 v23 v30 v31 v32 v33 = C03_flae_eig_post_R ax ay az mx my mz l0 l1 l2 l3 v00 v01 v02 v03 v10 v11 v12 v13 v20 v21 v22 v23 v30 v31 v32 v33.
Proof. reflexivity. Qed.
Lemma eq_davenport_post ax ay az mx my mz l0 l1 l2 l3 v00 v01 v02 v03 v10 v11 v12 v13 v20 v21 v22 v23 v30 v31 v32 v33 : C03_davenport_post_L ax ay az mx my mz l0 l1 l2 l3 v00 v01 v02 v03 v10 v11 v12 v13 v20 v21 v22 v23 v30 v31 v32 v33 = C03_davenport_post_R ax ay az mx my mz l0 l1 l2 l3 v00 v01 v02 v03 v10 v11 v12 v13 v20 v21 v22 v23 v30 v31 v32 v33.
Proof. reflexivity. Qed.
Lemma eq_ekf_marg w x y z gx gy gz ax ay az mx my mz p00 p01 p02 p03 p10 p11 p12 p13 p20 p21 p22 p23 p30 p31 p32 p33 s00 s01 s02 s03 s04 s05 s10 s11 s12 s13 s14 s15 s20 s21 s22 s23 s24 s25 s30 s31 s32 s33 s34 s35 s40 s41 s42 s43 s44 s45 s50 s51 s52 s53 s54 s55 : C03_ekf_marg_L w x y z gx gy gz ax ay az mx my mz p00 p01 p02 p03 p10 p11 p12 p13 p20 p21 p22 p23 p30 p31 p32 p33 s00 s01 s02 s03 s04 s05 s10 s11 s12 s13 s14 s15 s20 s21 s22 s23 s24 s25 s30 s31 s32 s33 s34 s35 s40 s41 s42 s43 s44 s45 s50 s51 s52 s53 s54 s55 = C03_ekf_marg_R w x y z gx gy gz ax ay az mx my mz p00 p01 p02 p03 p10 p11 p12 p13 p20 p21 p22 p23 p30 p31 p32 p33 s00 s01 s02 s03 s04 s05 s10 s11 s12 s13 s14 s15 s20 s21 s22 s23 s24 s25 s30 s31 s32 s33 s34 s35 s40 s41 s42 s43 s44 s45 s50 s51 s52 s53 s54 s55.
Proof. reflexivity. Qed.
Lemma eq_triad ax ay az mx my mz : C03_triad_L ax ay az mx my mz = C03_triad_R ax ay az mx my mz.
Proof. reflexivity. Qed.
