(* C03_thorough.v (thorough tier) — the theorems about the let_in prints of the large steps, restated about pysym's own prints *)
From Coq Require Import Reals List Lra.
From AhrsLib Require Import Base Rot.
From AhrsModel Require Import C03_letin.
From AhrsGen Require Import C03gen_R C03gen_L.
From AhrsProps Require Import C03_core C03_partial_L C03_full_L C03_est_L C03_eq_t1 C03_eq_t2 C03_eq_t3 C03_eq_t4.
Import ListNotations.
Open Scope R_scope.

Theorem C03_madgwick_marg_unit_after_step_R : forall w x y z gx gy gz ax ay az mx my mz,
  w*w + x*x + y*y + z*z = 1 -> 0 < gx*gx + gy*gy + gz*gz -> 0 < ax*ax + ay*ay + az*az -> 0 < mx*mx + my*my + mz*mz ->
  exists a b c d, C03_madgwick_marg_R w x y z gx gy gz ax ay az mx my mz = Val [a;b;c;d] /\ a*a + b*b + c*c + d*d = 1.
Proof. intros. rewrite <- eq_madgwick_marg. apply madgwick_marg_unitL; assumption. Qed.
Print Assumptions C03_madgwick_marg_unit_after_step_R.

Theorem C03_unit_or_degenerate_large_partial_R : forall w x y z gx gy gz ax ay az mx my mz, w*w + x*x + y*y + z*z = 1 ->
  unit_or_degenerate (C03_madgwick_marg_R w x y z gx gy gz ax ay az mx my mz) /\
  unit_or_degenerate (C03_aqua_imu_R w x y z gx gy gz ax ay az) /\
  unit_or_degenerate (C03_fourati_R w x y z gx gy gz ax ay az mx my mz).
Proof.
  intros w x y z gx gy gz ax ay az mx my mz U. rewrite <- eq_madgwick_marg, <- eq_aqua_imu, <- eq_fourati.
  split; [exact (madgwick_marg_partialL w x y z gx gy gz ax ay az mx my mz U)|]. split; [exact (aqua_imu_partialL w x y z gx gy gz ax ay az U)|exact (fourati_partialL w x y z gx gy gz ax ay az mx my mz U)].
Qed.
Print Assumptions C03_unit_or_degenerate_large_partial_R.

Theorem C03_ekf_imu_on_guard_partial_R : forall w x y z gx gy gz ax ay az p00 p01 p02 p03 p10 p11 p12 p13 p20 p21 p22 p23 p30 p31 p32 p33,
  w*w + x*x + y*y + z*z = 1 -> 0 < ax*ax + ay*ay + az*az ->
  val_unit_or_zero (C03_ekf_imu_R w x y z gx gy gz ax ay az p00 p01 p02 p03 p10 p11 p12 p13 p20 p21 p22 p23 p30 p31 p32 p33).
Proof. intros. rewrite <- eq_ekf_imu. apply ekf_imu_guard; assumption. Qed.
Print Assumptions C03_ekf_imu_on_guard_partial_R.
