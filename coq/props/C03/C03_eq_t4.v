(* C03_eq_t4.v — convertibility of the let_in print with pysym's print for the estimator / EKF targets *)
From Coq Require Import Reals List.
From AhrsLib Require Import Base.
From AhrsModel Require Import C03_letin.
From AhrsGen Require Import C03gen_R C03gen_L.
Lemma eq_ekf_imu w x y z gx gy gz ax ay az p00 p01 p02 p03 p10 p11 p12 p13 p20 p21 p22 p23 p30 p31 p32 p33 : C03_ekf_imu_L w x y z gx gy gz ax ay az p00 p01 p02 p03 p10 p11 p12 p13 p20 p21 p22 p23 p30 p31 p32 p33 = C03_ekf_imu_R w x y z gx gy gz ax ay az p00 p01 p02 p03 p10 p11 p12 p13 p20 p21 p22 p23 p30 p31 p32 p33.
Proof. reflexivity. Qed.
