(* C03_eq_t3.v — the let_in print of a target is CONVERTIBLE to pysym's own print (one kernel conversion of the two let-DAGs) *)
From Coq Require Import Reals List.
From AhrsLib Require Import Base.
From AhrsModel Require Import C03_letin.
From AhrsGen Require Import C03gen_R C03gen_L.
Lemma eq_madgwick_marg w x y z gx gy gz ax ay az mx my mz : C03_madgwick_marg_L w x y z gx gy gz ax ay az mx my mz = C03_madgwick_marg_R w x y z gx gy gz ax ay az mx my mz.
Proof. reflexivity. Qed.
