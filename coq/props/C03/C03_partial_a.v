(* C03_partial_a.v — PARTIAL unit-norm theorems, by walking every path of the regenerated update steps:
   whatever path is taken, a returned value is a unit quaternion or (pre-normalisation vector exactly zero) the zero vector. *)
From Coq Require Import Reals List Lra Psatz.
From AhrsLib Require Import Base Rot.
From AhrsGen Require Import C03gen_R.
From AhrsProps Require Import C03_core.
Import ListNotations.
Open Scope R_scope.

Lemma aqua_est_acc_partial ax ay az : unit_or_degenerate (C03_aqua_est_acc_R ax ay az).
Proof. partial_by_walk C03_aqua_est_acc_R I. Qed.
Lemma aqua_est_am_partial ax ay az mx my mz : unit_or_degenerate (C03_aqua_est_am_R ax ay az mx my mz).
Proof. partial_by_walk C03_aqua_est_am_R I. Qed.
Lemma roleq_partial w x y z gx gy gz ax ay az mx my mz : unit4 w x y z ->
  unit_or_degenerate (C03_roleq_R w x y z gx gy gz ax ay az mx my mz).
Proof. unfold unit4. intros U. partial_by_walk C03_roleq_R U. Qed.
Lemma angular_closed_partial w x y z gx gy gz : unit4 w x y z -> unit_or_degenerate (C03_angular_closed_R w x y z gx gy gz).
Proof. unfold unit4. intros U. partial_by_walk C03_angular_closed_R U. Qed.
Lemma angular_series1_partial w x y z gx gy gz : unit4 w x y z -> unit_or_degenerate (C03_angular_series1_R w x y z gx gy gz).
Proof. unfold unit4. intros U. partial_by_walk C03_angular_series1_R U. Qed.
Lemma angular_series2_partial w x y z gx gy gz : unit4 w x y z -> unit_or_degenerate (C03_angular_series2_R w x y z gx gy gz).
Proof. unfold unit4. intros U. partial_by_walk C03_angular_series2_R U. Qed.
Lemma saam_partial ax ay az mx my mz : unit_or_degenerate (C03_saam_R ax ay az mx my mz).
Proof. partial_by_walk C03_saam_R I. Qed.
Lemma famc_partial ax ay az mx my mz : unit_or_degenerate (C03_famc_R ax ay az mx my mz).
Proof. partial_by_walk C03_famc_R I. Qed.
