(* C03_partial_b.v — Madgwick (IMU) step: every path ends in v / ||v||  (see C03_partial_a.v for the statement) *)
From Coq Require Import Reals List Lra Psatz.
From AhrsLib Require Import Base Rot.
From AhrsGen Require Import C03gen_R.
From AhrsProps Require Import C03_core.
Import ListNotations.
Open Scope R_scope.

Lemma madgwick_imu_partial w x y z gx gy gz ax ay az : unit4 w x y z ->
  unit_or_degenerate (C03_madgwick_imu_R w x y z gx gy gz ax ay az).
Proof. unfold unit4. intros U. partial_by_walk C03_madgwick_imu_R U. Qed.
