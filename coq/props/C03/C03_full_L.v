(* C03_full_L.v — FULL unit_after_step theorems on the sharing-preserving print (C03gen_L.v): on the property's guard (unit
   state, non-zero samples) the step never raises and returns a unit quaternion; the vector handed to every normalisation
   is PROVED non-zero.  Mahony (IMU, MARG): v . q = 1, so |v| >= 1.  Madgwick (IMU, MARG): v . q = 1 - beta dt (g . q) with
   |g| <= 1, so |v| >= 1 - beta dt > 0 (beta dt = 33e-5); the re-normalisations of already normalised vectors have radicand 1.
   Every let is introduced as an opaque variable with an equation (walkL); only the few equations a fact needs are rewritten. *)
From Coq Require Import Reals List Lra Psatz.
From AhrsLib Require Import Base Rot.
From AhrsModel Require Import C03_letin.
From AhrsGen Require Import C03gen_L.
From AhrsProps Require Import C03_core.
Import ListNotations.
Open Scope R_scope.

(* 0 < e for the radicands that the guard decides: the state's norm (U), the samples' norms (nz3 hypotheses) *)
Ltac pos_guard U := first [ rewrite U; lra | lra ].
(* 0 < t for t = sqrt e (t a variable with an equation, or the literal sqrt) *)
Ltac sqrt_pos pos t :=
  lazymatch t with
  | sqrt ?e => apply sqrt_lt_R0; pos
  | _ => match goal with E : t = sqrt ?e |- _ => rewrite E; apply sqrt_lt_R0; pos end
  end.
(* a branch guarded by `norm == 0` / `not norm > 0` is infeasible when the norm is positive *)
Ltac gate_nz pos H :=
  exfalso;
  lazymatch type of H with
  | 0 = ?t => let P := fresh in assert (P : 0 < t) by sqrt_pos pos t; lra
  | ~ 0 < ?t => apply H; sqrt_pos pos t
  end.

Ltac rw_div_vars := repeat match goal with E : ?v = _ / _ |- context [?v] => is_var v; rewrite E end.
Ltac rw_sqrt_vars := repeat match goal with E : ?v = sqrt _ |- context [?v] => is_var v; rewrite E end.
(* v . q = 1 for the pre-normalisation vector v = (a,b,c,d) of a kinematic prediction from the unit state (w,x,y,z) *)
Ltac expand_all := repeat match goal with E : ?v = _ |- context [?v] => is_var v; rewrite E end.
(* a kinematic prediction needs only a few equations (the increment, the state's components, its norm): the expansion is
   bounded, and abandoned at once when let-variables remain (e.g. on the radicand of a gradient norm, where v . q = 1 is false) *)
Ltac expand1 := match goal with E : ?v = _ |- context [?v] => is_var v; rewrite E end.
Ltac no_let_var_left := try (match goal with E : ?v = _ |- context [?v] => is_var v; fail 2 end).
Ltac dot_one w x y z U := idtac;
  match goal with |- 0 < ?a*?a + ?b*?b + ?c*?c + ?d*?d =>
    apply Rlt_le_trans with 1; [lra|apply (dot_one_norm_ge1 w x y z a b c d U)];
    rw_local a; rw_local b; rw_local c; rw_local d;
    first [ solve [rw_div_vars; rw_sqrt_vars; rewrite ?U, ?sqrt_1, ?div_one; orient_unit; first [hring | uring]]
          | do 40 (try expand1); no_let_var_left; rewrite ?U, ?sqrt_1, ?div_one; orient_unit; hring ] end.
Ltac pos_mahony w x y z U := first [ pos_guard U | dot_one w x y z U ].

Ltac leaf_unit7 pos :=
  lazymatch goal with
  | |- exists a b c d p q r, Val [?a0 / ?s; ?b0 / ?s; ?c0 / ?s; ?d0 / ?s; ?p0; ?q0; ?r0] = _ /\ _ =>
      exists (a0 / s), (b0 / s), (c0 / s), (d0 / s), p0, q0, r0; split; [reflexivity|];
      rw_local s; apply unit_of_div_sqrt; pos
  end.

Definition unit7 (o : outcome R) : Prop := exists a b c d p q r, o = Val [a;b;c;d;p;q;r] /\ qnorm2 [a;b;c;d] = 1.
Definition unit4o (o : outcome R) : Prop := exists a b c d, o = Val [a;b;c;d] /\ qnorm2 [a;b;c;d] = 1.


(* second normalisation of an already normalised vector: the radicand is exactly 1 *)
Lemma renorm_one n0 n1 n2 n3 s : s = sqrt (n0*n0 + n1*n1 + n2*n2 + n3*n3) -> 0 <> s ->
  n0 / s * (n0 / s) + n1 / s * (n1 / s) + n2 / s * (n2 / s) + n3 / s * (n3 / s) = 1.
Proof.
  intros E C. assert (Hs : s * s = n0*n0 + n1*n1 + n2*n2 + n3*n3) by (rewrite E; apply sqrt_sqrt; nra).
  pose proof (unit_of_div n0 n1 n2 n3 s Hs (not_eq_sym C)) as H. cbv [qnorm2 e nth] in H. exact H.
Qed.
Ltac pos_renorm := idtac;
  match goal with |- 0 < ?a*?a + ?b*?b + ?c*?c + ?d*?d =>
    rw_local a; rw_local b; rw_local c; rw_local d;
    match goal with |- 0 < ?n0 / ?s * _ + _ + _ + _ =>
      match goal with E : s = sqrt _, C : 0 <> s |- _ => rewrite (renorm_one _ _ _ _ s E C); lra end end end.

Lemma renorm3_one n0 n1 n2 s : s = sqrt (n0*n0 + n1*n1 + n2*n2) -> 0 <> s ->
  n0 / s * (n0 / s) + n1 / s * (n1 / s) + n2 / s * (n2 / s) = 1.
Proof.
  intros E C. assert (Hs : s * s = n0*n0 + n1*n1 + n2*n2) by (rewrite E; apply sqrt_sqrt; nra).
  replace (_ + _ + _) with ((n0*n0 + n1*n1 + n2*n2) / (s * s)) by (field; auto). rewrite <- Hs. field. auto.
Qed.
Ltac pos_renorm3 := idtac;
  match goal with |- 0 < ?a*?a + ?b*?b + ?c*?c =>
    rw_local a; rw_local b; rw_local c;
    match goal with |- 0 < ?n0 / ?s * _ + _ + _ =>
      match goal with E : s = sqrt _, C : 0 <> s |- _ => rewrite (renorm3_one _ _ _ s E C); lra end end end.

(* Madgwick: v = q + dt (qDot - beta g) with g = G/||G||:  v . q = 1 - k (g . q) >= 1 - k > 0  for k = beta dt < 1 *)
Lemma madgwick_pos w x y z a b c d g0 g1 g2 g3 k : unit4 w x y z -> g0*g0 + g1*g1 + g2*g2 + g3*g3 <= 1 -> 0 <= k < 1 ->
  a*w + b*x + c*y + d*z = 1 - k * (g0*w + g1*x + g2*y + g3*z) -> 0 < a*a + b*b + c*c + d*d.
Proof.
  intros U G K D. pose proof (dot_le1 w x y z g0 g1 g2 g3 U G) as L.
  apply (dot_pos_norm_pos w x y z a b c d (1 - k) U); [lra|]. rewrite D. nra.
Qed.
Ltac clear_eq v := try match goal with E : v = _ |- _ => clear E end.
Ltac madgwick_dot w x y z U k := idtac;
  match goal with |- 0 < ?a*?a + ?b*?b + ?c*?c + ?d*?d =>
    rw_local a; rw_local b; rw_local c; rw_local d;
    match goal with |- context [_ / ?n] =>
      match goal with E : n = sqrt (?G0*?G0 + ?G1*?G1 + ?G2*?G2 + ?G3*?G3) |- _ =>
        match goal with |- 0 < ?a'*_ + ?b'*_ + ?c'*_ + ?d'*_ =>
          apply (madgwick_pos w x y z a' b' c' d' (G0 / n) (G1 / n) (G2 / n) (G3 / n) k U);
          [ rewrite E; apply normalised_le1 | lra
          | clear E; clear_eq G0; clear_eq G1; clear_eq G2; clear_eq G3; expand_all; rewrite ?U, ?sqrt_1, ?div_one; orient_unit; first [hring | uring] ]
        end end end end.
Ltac pos_madgwick w x y z U k := first [ pos_guard U | pos_renorm3 | pos_renorm | madgwick_dot w x y z U k | madgwick_dot w x y z U ((33/1000)*(1/100)) | madgwick_dot w x y z U ((41/1000)*(1/100)) | dot_one w x y z U ].

Ltac leaf_unit4 pos :=
  lazymatch goal with
  | |- exists a b c d, Val [?a0; ?b0; ?c0; ?d0] = _ /\ _ =>
      exists a0, b0, c0, d0; split; [reflexivity|];
      rw_local a0; rw_local b0; rw_local c0; rw_local d0;
      lazymatch goal with |- qnorm2 [_ / ?s; _ / ?s; _ / ?s; _ / ?s] = 1 => rw_local s; apply unit_of_div_sqrt; pos end
  end.

Lemma mahony_marg_unitL w x y z b0 b1 b2 gx gy gz ax ay az mx my mz :
  unit4 w x y z -> nz3 gx gy gz -> nz3 ax ay az -> nz3 mx my mz ->
  unit7 (C03_mahony_marg_L w x y z b0 b1 b2 gx gy gz ax ay az mx my mz).
Proof.
  unfold unit4, nz3. intros U Hg Ha Hm.
  cbv delta [C03_mahony_marg_L]; cbv beta.
  walkL ltac:(gate_nz ltac:(pos_mahony w x y z U)) ltac:(unfold unit7; leaf_unit7 ltac:(pos_mahony w x y z U)).
Qed.

Lemma madgwick_imu_unitL w x y z gx gy gz ax ay az :
  unit4 w x y z -> nz3 gx gy gz -> nz3 ax ay az ->
  unit4o (C03_madgwick_imu_L w x y z gx gy gz ax ay az).
Proof.
  unfold unit4, nz3. intros U Hg Ha.
  cbv delta [C03_madgwick_imu_L]; cbv beta.
  walkL ltac:(gate_nz ltac:(pos_madgwick w x y z U ((33/1000)*(1/100)))) ltac:(unfold unit4o; leaf_unit4 ltac:(pos_madgwick w x y z U ((33/1000)*(1/100)))).
Qed.

Lemma madgwick_marg_unitL w x y z gx gy gz ax ay az mx my mz :
  unit4 w x y z -> nz3 gx gy gz -> nz3 ax ay az -> nz3 mx my mz ->
  unit4o (C03_madgwick_marg_L w x y z gx gy gz ax ay az mx my mz).
Proof.
  unfold unit4, nz3. intros U Hg Ha Hm.
  cbv delta [C03_madgwick_marg_L]; cbv beta.
  walkL ltac:(gate_nz ltac:(pos_madgwick w x y z U ((33/1000)*(1/100)))) ltac:(unfold unit4o; leaf_unit4 ltac:(pos_madgwick w x y z U ((33/1000)*(1/100)))).
Qed.

Lemma mahony_imu_unitL w x y z b0 b1 b2 gx gy gz ax ay az :
  unit4 w x y z -> nz3 gx gy gz -> nz3 ax ay az ->
  unit7 (C03_mahony_imu_L w x y z b0 b1 b2 gx gy gz ax ay az).
Proof.
  unfold unit4, nz3. intros U Hg Ha.
  cbv delta [C03_mahony_imu_L]; cbv beta.
  walkL ltac:(gate_nz ltac:(pos_mahony w x y z U)) ltac:(unfold unit7; leaf_unit7 ltac:(pos_mahony w x y z U)).
Qed.
