(* C03_eq_b.v — the let_in print of a target is CONVERTIBLE to pysym's own print (one kernel conversion of the two let-DAGs) *)
From Coq Require Import Reals List.
From AhrsLib Require Import Base.
From AhrsModel Require Import C03_letin.
From AhrsGen Require Import C03gen_R C03gen_L.
Lemma eq_madgwick_imu w x y z gx gy gz ax ay az : C03_madgwick_imu_L w x y z gx gy gz ax ay az = C03_madgwick_imu_R w x y z gx gy gz ax ay az.
Proof. reflexivity. Qed.
Lemma eq_aqua_est_acc ax ay az : C03_aqua_est_acc_L ax ay az = C03_aqua_est_acc_R ax ay az.
Proof. reflexivity. Qed.
Lemma eq_angular_closed w x y z gx gy gz : C03_angular_closed_L w x y z gx gy gz = C03_angular_closed_R w x y z gx gy gz.
Proof. reflexivity. Qed.
Lemma eq_angular_series1 w x y z gx gy gz : C03_angular_series1_L w x y z gx gy gz = C03_angular_series1_R w x y z gx gy gz.
Proof. reflexivity. Qed.
Lemma eq_angular_series2 w x y z gx gy gz : C03_angular_series2_L w x y z gx gy gz = C03_angular_series2_R w x y z gx gy gz.
Proof. reflexivity. Qed.
