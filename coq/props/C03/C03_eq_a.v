(* C03_eq_a.v — the let_in print of a target is CONVERTIBLE to pysym's own print (one kernel conversion of the two let-DAGs) *)
From Coq Require Import Reals List.
From AhrsLib Require Import Base.
From AhrsModel Require Import C03_letin.
From AhrsGen Require Import C03gen_R C03gen_L.
Lemma eq_mahony_imu w x y z b0 b1 b2 gx gy gz ax ay az : C03_mahony_imu_L w x y z b0 b1 b2 gx gy gz ax ay az = C03_mahony_imu_R w x y z b0 b1 b2 gx gy gz ax ay az.
Proof. reflexivity. Qed.
Lemma eq_mahony_marg w x y z b0 b1 b2 gx gy gz ax ay az mx my mz : C03_mahony_marg_L w x y z b0 b1 b2 gx gy gz ax ay az mx my mz = C03_mahony_marg_R w x y z b0 b1 b2 gx gy gz ax ay az mx my mz.
Proof. reflexivity. Qed.
Lemma eq_aqua_est_am ax ay az mx my mz : C03_aqua_est_am_L ax ay az mx my mz = C03_aqua_est_am_R ax ay az mx my mz.
Proof. reflexivity. Qed.
Lemma eq_roleq w x y z gx gy gz ax ay az mx my mz : C03_roleq_L w x y z gx gy gz ax ay az mx my mz = C03_roleq_R w x y z gx gy gz ax ay az mx my mz.
Proof. reflexivity. Qed.
Lemma eq_saam ax ay az mx my mz : C03_saam_L ax ay az mx my mz = C03_saam_R ax ay az mx my mz.
Proof. reflexivity. Qed.
Lemma eq_famc ax ay az mx my mz : C03_famc_L ax ay az mx my mz = C03_famc_R ax ay az mx my mz.
Proof. reflexivity. Qed.
