(* C03_partial_L.v — PARTIAL unit-norm theorems for every regenerated step / estimate that returns a quaternion, proved on the
   sharing-preserving print (C03gen_L.v) by walking EVERY path: whatever path is taken, for ALL inputs, a returned value is a
   unit quaternion or — only when the vector handed to the final normalisation is exactly zero — the zero vector. *)
From Coq Require Import Reals List Lra Psatz.
From AhrsLib Require Import Base Rot.
From AhrsModel Require Import C03_letin.
From AhrsGen Require Import C03gen_L.
From AhrsProps Require Import C03_core.
Import ListNotations.
Open Scope R_scope.

Ltac partialL f U := cbv delta [f]; cbv beta; walkL no_gate ltac:(leaf0 U).

Lemma madgwick_imu_partialL w x y z gx gy gz ax ay az : unit4 w x y z ->
  unit_or_degenerate (C03_madgwick_imu_L w x y z gx gy gz ax ay az).
Proof. unfold unit4. intros U. partialL C03_madgwick_imu_L U. Qed.
Lemma madgwick_marg_partialL w x y z gx gy gz ax ay az mx my mz : unit4 w x y z ->
  unit_or_degenerate (C03_madgwick_marg_L w x y z gx gy gz ax ay az mx my mz).
Proof. unfold unit4. intros U. partialL C03_madgwick_marg_L U. Qed.
Lemma aqua_imu_partialL w x y z gx gy gz ax ay az : unit4 w x y z ->
  unit_or_degenerate (C03_aqua_imu_L w x y z gx gy gz ax ay az).
Proof. unfold unit4. intros U. partialL C03_aqua_imu_L U. Qed.
Lemma aqua_marg_partialL w x y z gx gy gz ax ay az mx my mz : unit4 w x y z ->
  unit_or_degenerate (C03_aqua_marg_L w x y z gx gy gz ax ay az mx my mz).
Proof. unfold unit4. intros U. partialL C03_aqua_marg_L U. Qed.
Lemma aqua_est_acc_partialL ax ay az : unit_or_degenerate (C03_aqua_est_acc_L ax ay az).
Proof. partialL C03_aqua_est_acc_L I. Qed.
Lemma aqua_est_am_partialL ax ay az mx my mz : unit_or_degenerate (C03_aqua_est_am_L ax ay az mx my mz).
Proof. partialL C03_aqua_est_am_L I. Qed.
Lemma fourati_partialL w x y z gx gy gz ax ay az mx my mz : unit4 w x y z ->
  unit_or_degenerate (C03_fourati_L w x y z gx gy gz ax ay az mx my mz).
Proof. unfold unit4. intros U. partialL C03_fourati_L U. Qed.
Lemma roleq_partialL w x y z gx gy gz ax ay az mx my mz : unit4 w x y z ->
  unit_or_degenerate (C03_roleq_L w x y z gx gy gz ax ay az mx my mz).
Proof. unfold unit4. intros U. partialL C03_roleq_L U. Qed.
Lemma angular_closed_partialL w x y z gx gy gz : unit4 w x y z -> unit_or_degenerate (C03_angular_closed_L w x y z gx gy gz).
Proof. unfold unit4. intros U. partialL C03_angular_closed_L U. Qed.
Lemma angular_series1_partialL w x y z gx gy gz : unit4 w x y z -> unit_or_degenerate (C03_angular_series1_L w x y z gx gy gz).
Proof. unfold unit4. intros U. partialL C03_angular_series1_L U. Qed.
Lemma angular_series2_partialL w x y z gx gy gz : unit4 w x y z -> unit_or_degenerate (C03_angular_series2_L w x y z gx gy gz).
Proof. unfold unit4. intros U. partialL C03_angular_series2_L U. Qed.
Lemma saam_partialL ax ay az mx my mz : unit_or_degenerate (C03_saam_L ax ay az mx my mz).
Proof. partialL C03_saam_L I. Qed.
Lemma famc_partialL ax ay az mx my mz : unit_or_degenerate (C03_famc_L ax ay az mx my mz).
Proof. partialL C03_famc_L I. Qed.
Lemma fqa_partialL ax ay az mx my mz : unit_or_degenerate (C03_fqa_L ax ay az mx my mz).
Proof. partialL C03_fqa_L I. Qed.
