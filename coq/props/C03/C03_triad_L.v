(* C03_triad_L.v — TRIAD (rotation-matrix representation): for non-zero, non-parallel observations the returned matrix is a proper
   rotation (A A^T = A^T A = I, det A = 1).  The references are v1 = (0,0,1), v2 = (3/5,0,4/5) (their triad is a signed permutation). *)
From Coq Require Import Reals List Lra Psatz.
From AhrsLib Require Import Base Rot.
From AhrsModel Require Import C03_letin.
From AhrsGen Require Import C03gen_L.
From AhrsProps Require Import C03_core.
Import ListNotations.
Open Scope R_scope.

Ltac expand_c := repeat match goal with E : ?v = _ * _ - _ * _ |- context [?v] => is_var v; rewrite E end; ring.
Ltac expand_c_in_le :=
  match goal with |- 0 <= ?e => 
    let H := fresh in assert (H : 0 <= e) by nra; exact H end.
Definition so3o (o : outcome R) : Prop := exists l, o = Val l /\ SO3 l.

(* orthonormal triad from a unit u and any m with n^2 = |u x m|^2 <> 0:  columns  -(u x c)/n, c/n, u  with c = u x m *)
Lemma triad_SO3 u0 u1 u2 m0 m1 m2 n :
  u0*u0 + u1*u1 + u2*u2 = 1 ->
  n * n = (u1*m2 - u2*m1)*(u1*m2 - u2*m1) + (u2*m0 - u0*m2)*(u2*m0 - u0*m2) + (u0*m1 - u1*m0)*(u0*m1 - u1*m0) -> n <> 0 ->
  SO3 [ - ((u1*(u0*m1 - u1*m0) - u2*(u2*m0 - u0*m2)) / n); (u1*m2 - u2*m1) / n; u0;
        - ((u2*(u1*m2 - u2*m1) - u0*(u0*m1 - u1*m0)) / n); (u2*m0 - u0*m2) / n; u1;
        - ((u0*(u2*m0 - u0*m2) - u1*(u1*m2 - u2*m1)) / n); (u0*m1 - u1*m0) / n; u2 ].
Proof.
  intros U N Z. assert (Hu : u0*u0 = 1 - u1*u1 - u2*u2) by lra.
  unfold SO3. split; [reflexivity|]. cbv [mmul3 mtr3 det3 I3 e nth].
  split; [|split].
  - list_eq; field_simplify_eq; try exact Z; ring [N Hu].
  - list_eq; field_simplify_eq; try exact Z; ring [N Hu].
  - field_simplify_eq; try exact Z. ring [N Hu].
Qed.

Lemma unit3_of_div a b c t : t = sqrt (a*a + b*b + c*c) -> 0 < a*a + b*b + c*c ->
  a / t * (a / t) + b / t * (b / t) + c / t * (c / t) = 1.
Proof.
  intros E P. assert (H : t * t = a*a + b*b + c*c) by (rewrite E; apply sqrt_sqrt; lra).
  assert (Z : t <> 0) by (rewrite E; apply sqrt_pos_ne0; exact P).
  replace (_ + _ + _) with ((a*a + b*b + c*c) / (t * t)) by (field; exact Z). rewrite <- H. field. exact Z.
Qed.

Lemma triad_rotmat_SO3 ax ay az mx my mz :
  nz3 ax ay az -> nz3 mx my mz ->
  0 < (ay*mz - az*my)*(ay*mz - az*my) + (az*mx - ax*mz)*(az*mx - ax*mz) + (ax*my - ay*mx)*(ax*my - ay*mx) ->
  so3o (C03_triad_L ax ay az mx my mz).
Proof.
  unfold nz3. intros Ha Hm Hx. cbv delta [C03_triad_L]; cbv beta.
  walkL no_gate idtac.
  lazymatch goal with
  | |- so3o (Val [ _; ?p / ?n; ?u0; _; ?q / ?n; ?u1; _; ?r / ?n; ?u2 ]) =>
    match goal with
    | Ep : p = u1 * ?m2 - u2 * ?m1, Eq : q = u2 * ?m0 - u0 * _, En : n = sqrt _,
      Eu0 : u0 = ax / ?ta, Eu1 : u1 = ay / ?ta, Eu2 : u2 = az / ?ta, Em0 : ?m0 = mx / ?tm, Em1 : ?m1 = my / ?tm, Em2 : ?m2 = mz / ?tm |- _ =>
      match goal with Eta : ta = sqrt _, Etm : tm = sqrt _ |- _ =>
        (* |u| = 1 *)
        assert (U : u0*u0 + u1*u1 + u2*u2 = 1) by (rewrite Eu0, Eu1, Eu2; exact (unit3_of_div ax ay az ta Eta Ha));
        assert (Za : ta <> 0) by (rewrite Eta; apply sqrt_pos_ne0; exact Ha);
        assert (Zm : tm <> 0) by (rewrite Etm; apply sqrt_pos_ne0; exact Hm);
        (* n^2 = |u x m|^2 > 0 *)
        assert (C : (u1*m2 - u2*m1)*(u1*m2 - u2*m1) + (u2*m0 - u0*m2)*(u2*m0 - u0*m2) + (u0*m1 - u1*m0)*(u0*m1 - u1*m0)
                    = ((ay*mz - az*my)*(ay*mz - az*my) + (az*mx - ax*mz)*(az*mx - ax*mz) + (ax*my - ay*mx)*(ax*my - ay*mx)) / (ta*ta*(tm*tm)))
          by (rewrite Eu0, Eu1, Eu2, Em0, Em1, Em2; field; split; assumption);
        assert (P : 0 < (u1*m2 - u2*m1)*(u1*m2 - u2*m1) + (u2*m0 - u0*m2)*(u2*m0 - u0*m2) + (u0*m1 - u1*m0)*(u0*m1 - u1*m0))
          by (rewrite C; apply Rdiv_lt_0_compat; [exact Hx|apply Rmult_lt_0_compat; [exact (Rsqr_pos_lt ta Za)|exact (Rsqr_pos_lt tm Zm)]]);
        assert (N : n * n = (u1*m2 - u2*m1)*(u1*m2 - u2*m1) + (u2*m0 - u0*m2)*(u2*m0 - u0*m2) + (u0*m1 - u1*m0)*(u0*m1 - u1*m0))
          by (rewrite En; rewrite sqrt_sqrt; [expand_c | expand_c_in_le; lra]);
        assert (Z : n <> 0) by (intro Z0; rewrite Z0 in N; lra);
        exists [ - ((u1*(u0*m1 - u1*m0) - u2*(u2*m0 - u0*m2)) / n); (u1*m2 - u2*m1) / n; u0;
                 - ((u2*(u1*m2 - u2*m1) - u0*(u0*m1 - u1*m0)) / n); (u2*m0 - u0*m2) / n; u1;
                 - ((u0*(u2*m0 - u0*m2) - u1*(u1*m2 - u2*m1)) / n); (u0*m1 - u1*m0) / n; u2 ];
        split; [ apply Val_inj; repeat match goal with E : ?v = _ * _ - _ * _ |- context [?v] => is_var v; rewrite E end; list_eq; ring
               | exact (triad_SO3 u0 u1 u2 m0 m1 m2 n U N Z) ]
      end
    end
  end.
Qed.
