(* C03_batch.v — the drivers (`_compute_all`) as scans of the REGENERATED steps: one output per sample and the unit
   invariant for every reachable state, by induction over histories of any length. *)
From Coq Require Import Reals List Lra.
From AhrsLib Require Import Base Rot.
From AhrsModel Require Import C03_driver.
From AhrsGen Require Import C03gen_R.
From AhrsProps Require Import C03_core C03_steps.
Import ListNotations.
Open Scope R_scope.

Definition val_or_nil (o : outcome R) : list R := match o with Val l => l | Raise _ => [] end.

(* Mahony (IMU): state = [w;x;y;z; b0;b1;b2] (quaternion and integrated gyro bias), sample = [gx;gy;gz; ax;ay;az] *)
Definition mahony_step (s x : list R) : list R :=
  val_or_nil (C03_mahony_imu_R (e s 0) (e s 1) (e s 2) (e s 3) (e s 4) (e s 5) (e s 6) (e x 0) (e x 1) (e x 2) (e x 3) (e x 4) (e x 5)).
Definition mahony_state_ok (s : list R) : Prop := length s = 7%nat /\ unit4 (e s 0) (e s 1) (e s 2) (e s 3).
Definition imu_sample_ok (x : list R) : Prop := nz3 (e x 0) (e x 1) (e x 2) /\ nz3 (e x 3) (e x 4) (e x 5).

Lemma mahony_step_ok s x : mahony_state_ok s -> imu_sample_ok x -> mahony_state_ok (mahony_step s x).
Proof.
  intros [_ U] [Hg Ha]. unfold mahony_step.
  destruct (mahony_imu_unit _ _ _ _ (e s 4) (e s 5) (e s 6) _ _ _ _ _ _ U Hg Ha) as (a&b&c&d&b0&b1&b2&E&N).
  rewrite E. simpl. split; [reflexivity|]. exact N.
Qed.

Lemma mahony_batch_ok init h : (forall x, imu_sample_ok x -> mahony_state_ok (init x)) -> Forall imu_sample_ok h ->
  length (batch _ _ mahony_step init h) = length h /\ Forall mahony_state_ok (batch _ _ mahony_step init h).
Proof.
  intros Hi Hh. split; [apply length_batch|].
  apply batch_invariant with (G := imu_sample_ok); [exact Hi|exact mahony_step_ok|exact Hh].
Qed.

(* AngularRate: state = [w;x;y;z], sample = [gx;gy;gz]; closed form and first-order series *)
Definition angular_step (closed : bool) (s x : list R) : list R :=
  val_or_nil (if closed then C03_angular_closed_R (e s 0) (e s 1) (e s 2) (e s 3) (e x 0) (e x 1) (e x 2)
              else C03_angular_series1_R (e s 0) (e s 1) (e s 2) (e s 3) (e x 0) (e x 1) (e x 2)).
Definition quat_ok (s : list R) : Prop := length s = 4%nat /\ unit4 (e s 0) (e s 1) (e s 2) (e s 3).
Definition gyr_ok (x : list R) : Prop := nz3 (e x 0) (e x 1) (e x 2).

Lemma angular_step_ok closed s x : quat_ok s -> gyr_ok x -> quat_ok (angular_step closed s x).
Proof.
  intros [_ U] Hg. unfold angular_step. destruct closed.
  - destruct (angular_closed_unit _ _ _ _ _ _ _ U Hg) as (a&b&c&d&E&N). rewrite E. split; [reflexivity|exact N].
  - destruct (angular_series1_unit _ _ _ _ _ _ _ U Hg) as (a&b&c&d&E&N). rewrite E. split; [reflexivity|exact N].
Qed.

Lemma angular_batch_ok closed q0 h : quat_ok q0 -> Forall gyr_ok h ->
  length (batch _ _ (angular_step closed) (fun _ => q0) h) = length h /\ Forall quat_ok (batch _ _ (angular_step closed) (fun _ => q0) h).
Proof.
  intros H0 Hh. split; [apply length_batch|].
  apply batch_invariant with (G := gyr_ok); [intros; exact H0|apply angular_step_ok|exact Hh].
Qed.
