(* C03_est_L.v — single-frame estimators, e-compass, the post-eigen-solver code of Davenport / FLAE, Complementary and EKF.update,
   on the sharing-preserving print: every path of the regenerated code returns a unit quaternion or raises — never a non-unit
   value; where non-zero-ness of the normalised vector is not provable it is an explicit alternative ("or the zero vector",
   which is NaN in binary64) or an explicit premise (unit eigenvector columns). *)
From Coq Require Import Reals List Lra Psatz.
From AhrsLib Require Import Base Rot.
From AhrsModel Require Import C03_letin.
From AhrsGen Require Import C03gen_L.
From AhrsProps Require Import C03_core C03_full_L.
Import ListNotations.
Open Scope R_scope.

Ltac partialL f U := cbv delta [f]; cbv beta; walkL no_gate ltac:(leaf0 U).

(* rewrite the equations of the let-variables of the goal, stopping at variables bound to a cosine or a sine *)
Ltac expand_to_trig :=
  repeat match goal with E : ?v = ?rhs |- context [?v] =>
    is_var v; lazymatch rhs with cos _ => fail | sin _ => fail | _ => rewrite E end end.
(* c = cos t, s = sin t  ==>  s*s = 1 - c*c  (one oriented relation per angle occurring in the goal) *)
Ltac trig_relations :=
  repeat match goal with Ec : ?c = cos ?t, Es : ?s = sin ?t |- context [?c] =>
    is_var c; is_var s;
    lazymatch goal with H : s * s = 1 - c * c |- _ => fail | _ => idtac end;
    let H := fresh "Hcs" in
    assert (H : s * s = 1 - c * c) by (rewrite Ec, Es; pose proof (sin2_cos2 t) as P; unfold Rsqr in P; lra)
  end.
Ltac trig_hring :=
  first [ ring
        | match goal with H1 : ?a * ?a = _, H2 : ?b * ?b = _, H3 : ?c * ?c = _ |- _ => ring [H1 H2 H3] end
        | match goal with H1 : ?a * ?a = _, H2 : ?b * ?b = _ |- _ => ring [H1 H2] end
        | match goal with H1 : ?a * ?a = _ |- _ => ring [H1] end ].
(* sum of squares of half-angle products = 1 *)
Ltac trig_one := expand_to_trig; trig_relations; trig_hring.

Definition unit_or_raise (o : outcome R) : Prop := match o with Raise _ => True | Val [a;b;c;d] => qnorm2 [a;b;c;d] = 1 | Val _ => False end.

Ltac leaf_trig := idtac;
  lazymatch goal with
  | |- unit_or_raise (Raise _) => exact I
  | |- unit_or_raise (Val [_; _; _; _]) => unfold unit_or_raise; cbv [qnorm2 e List.nth]; trig_one
  end.


(* ---- Tilt: the quaternion is built from half-angle sines and cosines and is NOT normalised: its norm is 1 identically.
   FULL, no premise: for ALL inputs the estimate is a unit quaternion or a rejection (zero acc / zero mag) *)
Lemma tilt_am_unit ax ay az mx my mz : unit_or_raise (C03_tilt_am_L ax ay az mx my mz).
Proof. cbv delta [C03_tilt_am_L]; cbv beta. walkL no_gate leaf_trig. Qed.
Lemma tilt_acc_unit ax ay az : unit_or_raise (C03_tilt_acc_L ax ay az).
Proof. cbv delta [C03_tilt_acc_L]; cbv beta. walkL no_gate leaf_trig. Qed.

(* ---- Complementary: two-sample batch through the constructor, Q property: the blended angles go through from_rpy, whose
   pre-normalisation vector has norm exactly 1 whatever the angles are.  FULL, no premise: both rows unit, or a rejection *)
Definition unit_rows2_or_raise (o : outcome R) : Prop :=
  match o with Raise _ => True | Val [a;b;c;d; a';b';c';d'] => qnorm2 [a;b;c;d] = 1 /\ qnorm2 [a';b';c';d'] = 1 | Val _ => False end.
Ltac row_trig := idtac;
  match goal with |- qnorm2 [?a; ?b; ?c; ?d] = 1 =>
    rw_local a; rw_local b; rw_local c; rw_local d;
    lazymatch goal with |- qnorm2 [_ / ?s; _ / ?s; _ / ?s; _ / ?s] = 1 =>
      rw_local s; apply unit_of_div_sqrt;
      match goal with |- 0 < ?e => let H := fresh in assert (H : e = 1) by trig_one; rewrite H; lra end end end.
Ltac leaf_rows2 := idtac;
  lazymatch goal with
  | |- unit_rows2_or_raise (Raise _) => exact I
  | |- unit_rows2_or_raise (Val _) => unfold unit_rows2_or_raise; split; row_trig
  end.
Lemma complementary_Q_unit gx gy gz ax ay az mx my mz hx hy hz ux uy uz nx ny nz :
  unit_rows2_or_raise (C03_complementary_Q_L gx gy gz ax ay az mx my mz hx hy hz ux uy uz nx ny nz).
Proof. cbv delta [C03_complementary_Q_L]; cbv beta. walkL no_gate leaf_rows2. Qed.

(* ---- e-compass (initial attitude of Madgwick MARG, Fourati, FKF, EKF), acc2q, FLAE after its eigen-solver: PARTIAL
   "unit or, only when the vector handed to the final normalisation is exactly zero, the zero vector", all paths, all inputs *)
Lemma ecompass_ned_partialL ax ay az mx my mz : unit_or_degenerate (C03_ecompass_ned_L ax ay az mx my mz).
Proof. partialL C03_ecompass_ned_L I. Qed.
Lemma ecompass_enu_partialL ax ay az mx my mz : unit_or_degenerate (C03_ecompass_enu_L ax ay az mx my mz).
Proof. partialL C03_ecompass_enu_L I. Qed.
Lemma acc2q_partialL ax ay az : unit_or_degenerate (C03_acc2q_L ax ay az).
Proof. partialL C03_acc2q_L I. Qed.
Lemma flae_eig_post_partialL ax ay az mx my mz l0 l1 l2 l3 v00 v01 v02 v03 v10 v11 v12 v13 v20 v21 v22 v23 v30 v31 v32 v33 :
  unit_or_degenerate (C03_flae_eig_post_L ax ay az mx my mz l0 l1 l2 l3 v00 v01 v02 v03 v10 v11 v12 v13 v20 v21 v22 v23 v30 v31 v32 v33).
Proof. partialL C03_flae_eig_post_L I. Qed.

(* ---- Davenport after eigh: the code returns the selected eigenvector column AS IS (no normalisation): unit exactly when the
   eigen-solver's columns are (explicit premise = the contract of numpy.linalg.eigh), for every ordering of the eigenvalues *)
Lemma davenport_post_unit ax ay az mx my mz l0 l1 l2 l3 v00 v01 v02 v03 v10 v11 v12 v13 v20 v21 v22 v23 v30 v31 v32 v33 :
  v00*v00 + v10*v10 + v20*v20 + v30*v30 = 1 -> v01*v01 + v11*v11 + v21*v21 + v31*v31 = 1 ->
  v02*v02 + v12*v12 + v22*v22 + v32*v32 = 1 -> v03*v03 + v13*v13 + v23*v23 + v33*v33 = 1 ->
  unit4o (C03_davenport_post_L ax ay az mx my mz l0 l1 l2 l3 v00 v01 v02 v03 v10 v11 v12 v13 v20 v21 v22 v23 v30 v31 v32 v33).
Proof.
  intros C0 C1 C2 C3. cbv delta [C03_davenport_post_L]; cbv beta.
  walkL no_gate ltac:(unfold unit4o; do 4 eexists; split; [reflexivity|]; cbv [qnorm2 e List.nth]; assumption).
Qed.

(* ---- SAAM, FAMC on the guard (non-zero acc and mag): never None, never a rejection; the value is unit or the zero vector *)
Definition val_unit_or_zero (o : outcome R) : Prop :=
  exists a b c d, o = Val [a;b;c;d] /\ (qnorm2 [a;b;c;d] = 1 \/ (a = 0 /\ b = 0 /\ c = 0 /\ d = 0)).
Ltac leaf_val_uoz U := idtac;
  lazymatch goal with
  | |- val_unit_or_zero (Val [?a; ?b; ?c; ?d]) =>
      exists a, b, c, d; split; [reflexivity|]; change (unit_or_degenerate (Val [a; b; c; d])); leaf0 U
  end.
Lemma saam_guard ax ay az mx my mz : nz3 ax ay az -> nz3 mx my mz -> val_unit_or_zero (C03_saam_L ax ay az mx my mz).
Proof.
  unfold nz3. intros Ha Hm. cbv delta [C03_saam_L]; cbv beta.
  walkL ltac:(gate_nz ltac:(pos_guard I)) ltac:(leaf_val_uoz I).
Qed.
Lemma famc_guard ax ay az mx my mz : nz3 ax ay az -> nz3 mx my mz -> val_unit_or_zero (C03_famc_L ax ay az mx my mz).
Proof.
  unfold nz3. intros Ha Hm. cbv delta [C03_famc_L]; cbv beta.
  walkL ltac:(gate_nz ltac:(pos_guard I)) ltac:(leaf_val_uoz I).
Qed.

(* ---- EKF.update, the final renormalisation: output = v / |v| with v = q_t + K (z - h(q_t)) the corrected state.
   IMU: any covariance P (the 3x3 inverse is the traced cofactor formula).  MARG: any P and ANY 6x6 matrix in the place of
   inv(S) (only that LAPACK call is stubbed).  PARTIAL: unit unless v is exactly zero; rejections (norm test, zero mag) allowed *)
Lemma ekf_imu_partialL w x y z gx gy gz ax ay az p00 p01 p02 p03 p10 p11 p12 p13 p20 p21 p22 p23 p30 p31 p32 p33 : unit4 w x y z ->
  unit_or_degenerate (C03_ekf_imu_L w x y z gx gy gz ax ay az p00 p01 p02 p03 p10 p11 p12 p13 p20 p21 p22 p23 p30 p31 p32 p33).
Proof. unfold unit4. intros U. partialL C03_ekf_imu_L U. Qed.
Lemma ekf_marg_partialL w x y z gx gy gz ax ay az mx my mz p00 p01 p02 p03 p10 p11 p12 p13 p20 p21 p22 p23 p30 p31 p32 p33 s00 s01 s02 s03 s04 s05 s10 s11 s12 s13 s14 s15 s20 s21 s22 s23 s24 s25 s30 s31 s32 s33 s34 s35 s40 s41 s42 s43 s44 s45 s50 s51 s52 s53 s54 s55 : unit4 w x y z ->
  unit_or_degenerate (C03_ekf_marg_L w x y z gx gy gz ax ay az mx my mz p00 p01 p02 p03 p10 p11 p12 p13 p20 p21 p22 p23 p30 p31 p32 p33 s00 s01 s02 s03 s04 s05 s10 s11 s12 s13 s14 s15 s20 s21 s22 s23 s24 s25 s30 s31 s32 s33 s34 s35 s40 s41 s42 s43 s44 s45 s50 s51 s52 s53 s54 s55).
Proof. unfold unit4. intros U. partialL C03_ekf_marg_L U. Qed.

(* on the guard (exactly unit a-priori state, non-zero acc / mag): NO rejection on any path — the a-priori norm test passes, the
   predicted state q_t = (I + dt/2 Omega) q has |q_t| >= 1 so the Quaternion(q_t) zero test cannot fire — and the value is
   v/|v|: unit, or the zero vector exactly when the corrected state v is zero *)
(* EKF's a-priori norm test  |sqrt(w^2+..) - 1| <= 1e-8 + 1e-5  holds for an exactly unit state *)
Ltac gate_isclose U H :=
  exfalso; lazymatch type of H with ~ Rabs (sqrt ?e - 1) <= _ => apply H; rewrite U, sqrt_1; replace (1 - 1) with 0 by ring; rewrite Rabs_R0; lra end.
Ltac gate_ekf w x y z U H := first [ gate_isclose U H | gate_nz ltac:(pos_mahony w x y z U) H ].
Lemma ekf_imu_guard w x y z gx gy gz ax ay az p00 p01 p02 p03 p10 p11 p12 p13 p20 p21 p22 p23 p30 p31 p32 p33 : unit4 w x y z -> nz3 ax ay az ->
  val_unit_or_zero (C03_ekf_imu_L w x y z gx gy gz ax ay az p00 p01 p02 p03 p10 p11 p12 p13 p20 p21 p22 p23 p30 p31 p32 p33).
Proof.
  unfold unit4, nz3. intros U Ha. cbv delta [C03_ekf_imu_L]; cbv beta.
  walkL ltac:(gate_ekf w x y z U) ltac:(leaf_val_uoz U).
Qed.
Lemma ekf_marg_guard w x y z gx gy gz ax ay az mx my mz p00 p01 p02 p03 p10 p11 p12 p13 p20 p21 p22 p23 p30 p31 p32 p33 s00 s01 s02 s03 s04 s05 s10 s11 s12 s13 s14 s15 s20 s21 s22 s23 s24 s25 s30 s31 s32 s33 s34 s35 s40 s41 s42 s43 s44 s45 s50 s51 s52 s53 s54 s55 : unit4 w x y z -> nz3 ax ay az -> nz3 mx my mz ->
  val_unit_or_zero (C03_ekf_marg_L w x y z gx gy gz ax ay az mx my mz p00 p01 p02 p03 p10 p11 p12 p13 p20 p21 p22 p23 p30 p31 p32 p33 s00 s01 s02 s03 s04 s05 s10 s11 s12 s13 s14 s15 s20 s21 s22 s23 s24 s25 s30 s31 s32 s33 s34 s35 s40 s41 s42 s43 s44 s45 s50 s51 s52 s53 s54 s55).
Proof.
  unfold unit4, nz3. intros U Ha Hm. cbv delta [C03_ekf_marg_L]; cbv beta.
  walkL ltac:(gate_ekf w x y z U) ltac:(leaf_val_uoz U).
Qed.
