(* C03.v — property C03: every estimator always returns valid attitudes, one per input sample.  Statements only. *)
From Coq Require Import Reals List Lra.
From AhrsLib Require Import Base Rot.
From AhrsModel Require Import C03_driver.
From AhrsModel Require Import C03_letin.
From AhrsGen Require Import C03gen_R C03gen_L.
From AhrsProps Require Import C03_core C03_steps C03_batch C03_partial_L C03_full_L C03_eq_a C03_eq_b.
Import ListNotations.
Open Scope R_scope.

(* one output per input sample: a driver that is a scan of ANY step over the history (recursive filters), or a map of ANY
   estimate (single-frame estimators), returns exactly N rows, for every N *)
Theorem C03_length_batch : forall (St Sample Out : Type) (step : St -> Sample -> St) (init : Sample -> St) (est : Sample -> Out)
  (h : list Sample), length (batch St Sample step init h) = length h /\ length (pointwise Out Sample est h) = length h.
Proof. intros. split; [apply length_batch|apply length_pointwise]. Qed.
Print Assumptions C03_length_batch.

(* unit_after_step, Mahony IMU: for every unit state, every bias, every non-zero gyro and accelerometer sample the step
   returns a unit quaternion: the pre-normalisation vector has norm >= 1 *)
Theorem C03_mahony_imu_unit_after_step : forall w x y z b0 b1 b2 gx gy gz ax ay az,
  w*w + x*x + y*y + z*z = 1 -> 0 < gx*gx + gy*gy + gz*gz -> 0 < ax*ax + ay*ay + az*az ->
  exists a b c d b0' b1' b2', C03_mahony_imu_R w x y z b0 b1 b2 gx gy gz ax ay az = Val [a;b;c;d;b0';b1';b2'] /\ a*a + b*b + c*c + d*d = 1.
Proof. intros. destruct (mahony_imu_unit w x y z b0 b1 b2 gx gy gz ax ay az) as (a&b&c&d&p&q&r&E&N); try assumption. exists a, b, c, d, p, q, r. split; [exact E|exact N]. Qed.
Print Assumptions C03_mahony_imu_unit_after_step.

(* unit_after_step, AngularRate (closed form: norm exactly 1 before normalisation; first-order series: norm >= 1) *)
Theorem C03_angular_unit_after_step : forall w x y z gx gy gz,
  w*w + x*x + y*y + z*z = 1 -> 0 < gx*gx + gy*gy + gz*gz ->
  (exists a b c d, C03_angular_closed_R w x y z gx gy gz = Val [a;b;c;d] /\ a*a + b*b + c*c + d*d = 1) /\
  (exists a b c d, C03_angular_series1_R w x y z gx gy gz = Val [a;b;c;d] /\ a*a + b*b + c*c + d*d = 1).
Proof. intros w x y z gx gy gz U G. split; [exact (angular_closed_unit w x y z gx gy gz U G)|exact (angular_series1_unit w x y z gx gy gz U G)]. Qed.
Print Assumptions C03_angular_unit_after_step.

(* unit invariant for every reachable state, any history length: Mahony (IMU) and AngularRate drivers *)
Theorem C03_unit_invariant_mahony : forall init h, (forall x, imu_sample_ok x -> mahony_state_ok (init x)) -> Forall imu_sample_ok h ->
  length (batch _ _ mahony_step init h) = length h /\ Forall mahony_state_ok (batch _ _ mahony_step init h).
Proof. exact mahony_batch_ok. Qed.
Print Assumptions C03_unit_invariant_mahony.

Theorem C03_unit_invariant_angular : forall closed q0 h, quat_ok q0 -> Forall gyr_ok h ->
  length (batch _ _ (angular_step closed) (fun _ => q0) h) = length h /\ Forall quat_ok (batch _ _ (angular_step closed) (fun _ => q0) h).
Proof. exact angular_batch_ok. Qed.
Print Assumptions C03_unit_invariant_angular.

(* unit_after_step, Mahony MARG: for every unit state, every bias, every non-zero gyro, accelerometer and magnetometer sample the
   step returns (never raises) a unit quaternion: the pre-normalisation vector has norm >= 1 (about pysym's print, via eq_mahony_marg) *)
Theorem C03_mahony_marg_unit_after_step : forall w x y z b0 b1 b2 gx gy gz ax ay az mx my mz,
  w*w + x*x + y*y + z*z = 1 -> 0 < gx*gx + gy*gy + gz*gz -> 0 < ax*ax + ay*ay + az*az -> 0 < mx*mx + my*my + mz*mz ->
  exists a b c d b0' b1' b2', C03_mahony_marg_R w x y z b0 b1 b2 gx gy gz ax ay az mx my mz = Val [a;b;c;d;b0';b1';b2'] /\ a*a + b*b + c*c + d*d = 1.
Proof. intros w x y z b0 b1 b2 gx gy gz ax ay az mx my mz U G A M. rewrite <- eq_mahony_marg. exact (mahony_marg_unitL w x y z b0 b1 b2 gx gy gz ax ay az mx my mz U G A M). Qed.
Print Assumptions C03_mahony_marg_unit_after_step.

(* unit_after_step, Madgwick IMU (default gain 0.033, dt 0.01): v . q = 1 - beta dt (g . q) >= 1 - beta dt > 0, so the vector handed to
   the normalisation is non-zero for EVERY unit state and non-zero samples (in the reals: the 0/0 of a zero gradient is 0 there; the
   binary64 NaN at such stationary points is the recorded finding Madgwick.updateIMU/nan-or-nan-rejected@antipodal) *)
Theorem C03_madgwick_imu_unit_after_step : forall w x y z gx gy gz ax ay az,
  w*w + x*x + y*y + z*z = 1 -> 0 < gx*gx + gy*gy + gz*gz -> 0 < ax*ax + ay*ay + az*az ->
  exists a b c d, C03_madgwick_imu_R w x y z gx gy gz ax ay az = Val [a;b;c;d] /\ a*a + b*b + c*c + d*d = 1.
Proof. intros w x y z gx gy gz ax ay az U G A. rewrite <- eq_madgwick_imu. exact (madgwick_imu_unitL w x y z gx gy gz ax ay az U G A). Qed.
Print Assumptions C03_madgwick_imu_unit_after_step.

(* the same for Madgwick MARG, about the let_in print of the same decision tree (its convertibility with pysym's print is the
   thorough-tier lemma eq_madgwick_marg / theorem C03_madgwick_marg_unit_after_step_R) *)
Theorem C03_madgwick_marg_unit_after_step : forall w x y z gx gy gz ax ay az mx my mz,
  w*w + x*x + y*y + z*z = 1 -> 0 < gx*gx + gy*gy + gz*gz -> 0 < ax*ax + ay*ay + az*az -> 0 < mx*mx + my*my + mz*mz ->
  exists a b c d, C03_madgwick_marg_L w x y z gx gy gz ax ay az mx my mz = Val [a;b;c;d] /\ a*a + b*b + c*c + d*d = 1.
Proof. exact madgwick_marg_unitL. Qed.
Print Assumptions C03_madgwick_marg_unit_after_step.

(* PARTIAL (missing: non-zero-ness of the vector handed to the final normalisation; absence of rejections): on EVERY path, for ALL
   inputs, what these steps / estimators return is a unit quaternion or, only when that vector is exactly zero, the zero vector *)
Theorem C03_unit_or_degenerate_partial : forall w x y z gx gy gz ax ay az mx my mz, w*w + x*x + y*y + z*z = 1 ->
  unit_or_degenerate (C03_madgwick_imu_R w x y z gx gy gz ax ay az) /\
  unit_or_degenerate (C03_roleq_R w x y z gx gy gz ax ay az mx my mz) /\
  unit_or_degenerate (C03_angular_series2_R w x y z gx gy gz) /\
  unit_or_degenerate (C03_aqua_est_acc_R ax ay az) /\ unit_or_degenerate (C03_aqua_est_am_R ax ay az mx my mz) /\
  unit_or_degenerate (C03_saam_R ax ay az mx my mz) /\ unit_or_degenerate (C03_famc_R ax ay az mx my mz).
Proof.
  intros w x y z gx gy gz ax ay az mx my mz U.
  rewrite <- eq_madgwick_imu, <- eq_roleq, <- eq_angular_series2, <- eq_aqua_est_acc, <- eq_aqua_est_am, <- eq_saam, <- eq_famc.
  split; [exact (madgwick_imu_partialL w x y z gx gy gz ax ay az U)|]. split; [exact (roleq_partialL w x y z gx gy gz ax ay az mx my mz U)|].
  split; [exact (angular_series2_partialL w x y z gx gy gz U)|]. split; [exact (aqua_est_acc_partialL ax ay az)|].
  split; [exact (aqua_est_am_partialL ax ay az mx my mz)|]. split; [exact (saam_partialL ax ay az mx my mz)|exact (famc_partialL ax ay az mx my mz)].
Qed.
Print Assumptions C03_unit_or_degenerate_partial.

(* the same PARTIAL statement for the large steps, about the let_in print of their decision trees: Madgwick MARG, AQUA updateIMU and
   updateMARG (all paths incl. both slerp branches), Fourati, FQA (34 paths) *)
Theorem C03_unit_or_degenerate_large_partial : forall w x y z gx gy gz ax ay az mx my mz, w*w + x*x + y*y + z*z = 1 ->
  unit_or_degenerate (C03_madgwick_marg_L w x y z gx gy gz ax ay az mx my mz) /\
  unit_or_degenerate (C03_aqua_imu_L w x y z gx gy gz ax ay az) /\
  unit_or_degenerate (C03_aqua_marg_L w x y z gx gy gz ax ay az mx my mz) /\
  unit_or_degenerate (C03_fourati_L w x y z gx gy gz ax ay az mx my mz) /\
  unit_or_degenerate (C03_fqa_L ax ay az mx my mz).
Proof.
  intros w x y z gx gy gz ax ay az mx my mz U.
  split; [exact (madgwick_marg_partialL w x y z gx gy gz ax ay az mx my mz U)|]. split; [exact (aqua_imu_partialL w x y z gx gy gz ax ay az U)|].
  split; [exact (aqua_marg_partialL w x y z gx gy gz ax ay az mx my mz U)|]. split; [exact (fourati_partialL w x y z gx gy gz ax ay az mx my mz U)|exact (fqa_partialL ax ay az mx my mz)].
Qed.
Print Assumptions C03_unit_or_degenerate_large_partial.

(* the matrix FLAE hands to the eigen-solver is symmetric for every H (justifies eigh; real eigen-pairs) *)
Theorem C03_flae_W_symmetric : forall h00 h01 h02 h10 h11 h12 h20 h21 h22,
  exists m00 m01 m02 m03 m11 m12 m13 m22 m23 m33,
  C03_flae_W_R h00 h01 h02 h10 h11 h12 h20 h21 h22 = Val [m00;m01;m02;m03; m01;m11;m12;m13; m02;m12;m22;m23; m03;m13;m23;m33].
Proof. exact flae_W_symmetric. Qed.
Print Assumptions C03_flae_W_symmetric.

(* the hypotheses are inhabited *)
Example C03_nonvacuous : (1/2)*(1/2) + (1/2)*(1/2) + (1/2)*(1/2) + (1/2)*(1/2) = 1 /\ 0 < 1*1 + 2*2 + 3*3 /\
  mahony_state_ok [1;0;0;0;0;0;0] /\ imu_sample_ok [1;2;3;0;0;1] /\
  length (batch _ _ mahony_step (fun _ => [1;0;0;0;0;0;0]) [[1;2;3;0;0;1]; [1;2;3;0;0;1]; [1;2;3;0;0;1]]) = 3%nat.
Proof.
  split; [lra|]. split; [lra|]. split; [split; [reflexivity|unfold unit4; cbv [e nth]; lra]|].
  split; [unfold imu_sample_ok, nz3; cbv [e nth]; lra|apply length_batch].
Qed.
