(* C03.v — property C03: every estimator always returns valid attitudes, one per input sample.  Statements only. *)
From Coq Require Import Reals List Lra.
From AhrsLib Require Import Base Rot.
From AhrsModel Require Import C03_driver.
From AhrsModel Require Import C03_letin.
From AhrsGen Require Import C03gen_R C03gen_L.
From AhrsProps Require Import C03_core C03_steps C03_batch C03_partial_L C03_full_L C03_est_L C03_triad_L C03_eq_a C03_eq_b C03_eq_c.
Import ListNotations.
Open Scope R_scope.

(* one output per input sample: a driver that is a scan of ANY step over the history (recursive filters), or a map of ANY
   estimate (single-frame estimators), returns exactly N rows, for every N *)
Theorem C03_length_batch : forall (St Sample Out : Type) (step : St -> Sample -> St) (init : Sample -> St) (est : Sample -> Out)
  (h : list Sample), length (batch St Sample step init h) = length h /\ length (pointwise Out Sample est h) = length h.
Proof. intros. split; [apply length_batch|apply length_pointwise]. Qed.
Print Assumptions C03_length_batch.

(* unit_after_step, Mahony IMU: for every unit state, every bias, every non-zero gyro and accelerometer sample the step
   returns a unit quaternion: the pre-normalisation vector has norm >= 1 *)
Theorem C03_mahony_imu_unit_after_step : forall w x y z b0 b1 b2 gx gy gz ax ay az,
  w*w + x*x + y*y + z*z = 1 -> 0 < gx*gx + gy*gy + gz*gz -> 0 < ax*ax + ay*ay + az*az ->
  exists a b c d b0' b1' b2', C03_mahony_imu_R w x y z b0 b1 b2 gx gy gz ax ay az = Val [a;b;c;d;b0';b1';b2'] /\ a*a + b*b + c*c + d*d = 1.
Proof. intros. destruct (mahony_imu_unit w x y z b0 b1 b2 gx gy gz ax ay az) as (a&b&c&d&p&q&r&E&N); try assumption. exists a, b, c, d, p, q, r. split; [exact E|exact N]. Qed.
Print Assumptions C03_mahony_imu_unit_after_step.

(* unit_after_step, AngularRate (closed form: norm exactly 1 before normalisation; first-order series: norm >= 1) *)
Theorem C03_angular_unit_after_step : forall w x y z gx gy gz,
  w*w + x*x + y*y + z*z = 1 -> 0 < gx*gx + gy*gy + gz*gz ->
  (exists a b c d, C03_angular_closed_R w x y z gx gy gz = Val [a;b;c;d] /\ a*a + b*b + c*c + d*d = 1) /\
  (exists a b c d, C03_angular_series1_R w x y z gx gy gz = Val [a;b;c;d] /\ a*a + b*b + c*c + d*d = 1).
Proof. intros w x y z gx gy gz U G. split; [exact (angular_closed_unit w x y z gx gy gz U G)|exact (angular_series1_unit w x y z gx gy gz U G)]. Qed.
Print Assumptions C03_angular_unit_after_step.

(* unit invariant for every reachable state, any history length: Mahony (IMU) and AngularRate drivers *)
Theorem C03_unit_invariant_mahony : forall init h, (forall x, imu_sample_ok x -> mahony_state_ok (init x)) -> Forall imu_sample_ok h ->
  length (batch _ _ mahony_step init h) = length h /\ Forall mahony_state_ok (batch _ _ mahony_step init h).
Proof. exact mahony_batch_ok. Qed.
Print Assumptions C03_unit_invariant_mahony.

Theorem C03_unit_invariant_angular : forall closed q0 h, quat_ok q0 -> Forall gyr_ok h ->
  length (batch _ _ (angular_step closed) (fun _ => q0) h) = length h /\ Forall quat_ok (batch _ _ (angular_step closed) (fun _ => q0) h).
Proof. exact angular_batch_ok. Qed.
Print Assumptions C03_unit_invariant_angular.

(* unit_after_step, Mahony MARG: for every unit state, every bias, every non-zero gyro, accelerometer and magnetometer sample the
   step returns (never raises) a unit quaternion: the pre-normalisation vector has norm >= 1 (about pysym's print, via eq_mahony_marg) *)
Theorem C03_mahony_marg_unit_after_step : forall w x y z b0 b1 b2 gx gy gz ax ay az mx my mz,
  w*w + x*x + y*y + z*z = 1 -> 0 < gx*gx + gy*gy + gz*gz -> 0 < ax*ax + ay*ay + az*az -> 0 < mx*mx + my*my + mz*mz ->
  exists a b c d b0' b1' b2', C03_mahony_marg_R w x y z b0 b1 b2 gx gy gz ax ay az mx my mz = Val [a;b;c;d;b0';b1';b2'] /\ a*a + b*b + c*c + d*d = 1.
Proof. intros w x y z b0 b1 b2 gx gy gz ax ay az mx my mz U G A M. rewrite <- eq_mahony_marg. exact (mahony_marg_unitL w x y z b0 b1 b2 gx gy gz ax ay az mx my mz U G A M). Qed.
Print Assumptions C03_mahony_marg_unit_after_step.

(* unit_after_step, Madgwick IMU (default gain 0.033, dt 0.01): v . q = 1 - beta dt (g . q) >= 1 - beta dt > 0, so the vector handed to
   the normalisation is non-zero for EVERY unit state and non-zero samples (in the reals: the 0/0 of a zero gradient is 0 there; the
   binary64 NaN at such stationary points is the recorded finding Madgwick.updateIMU/nan-or-nan-rejected@antipodal) *)
Theorem C03_madgwick_imu_unit_after_step : forall w x y z gx gy gz ax ay az,
  w*w + x*x + y*y + z*z = 1 -> 0 < gx*gx + gy*gy + gz*gz -> 0 < ax*ax + ay*ay + az*az ->
  exists a b c d, C03_madgwick_imu_R w x y z gx gy gz ax ay az = Val [a;b;c;d] /\ a*a + b*b + c*c + d*d = 1.
Proof. intros w x y z gx gy gz ax ay az U G A. rewrite <- eq_madgwick_imu. exact (madgwick_imu_unitL w x y z gx gy gz ax ay az U G A). Qed.
Print Assumptions C03_madgwick_imu_unit_after_step.

(* the same for Madgwick MARG, about the let_in print of the same decision tree (its convertibility with pysym's print is the
   thorough-tier lemma eq_madgwick_marg / theorem C03_madgwick_marg_unit_after_step_R) *)
Theorem C03_madgwick_marg_unit_after_step : forall w x y z gx gy gz ax ay az mx my mz,
  w*w + x*x + y*y + z*z = 1 -> 0 < gx*gx + gy*gy + gz*gz -> 0 < ax*ax + ay*ay + az*az -> 0 < mx*mx + my*my + mz*mz ->
  exists a b c d, C03_madgwick_marg_L w x y z gx gy gz ax ay az mx my mz = Val [a;b;c;d] /\ a*a + b*b + c*c + d*d = 1.
Proof. exact madgwick_marg_unitL. Qed.
Print Assumptions C03_madgwick_marg_unit_after_step.

(* PARTIAL (missing: non-zero-ness of the vector handed to the final normalisation; absence of rejections): on EVERY path, for ALL
   inputs, what these steps / estimators return is a unit quaternion or, only when that vector is exactly zero, the zero vector *)
Theorem C03_unit_or_degenerate_partial : forall w x y z gx gy gz ax ay az mx my mz, w*w + x*x + y*y + z*z = 1 ->
  unit_or_degenerate (C03_madgwick_imu_R w x y z gx gy gz ax ay az) /\
  unit_or_degenerate (C03_roleq_R w x y z gx gy gz ax ay az mx my mz) /\
  unit_or_degenerate (C03_angular_series2_R w x y z gx gy gz) /\
  unit_or_degenerate (C03_aqua_est_acc_R ax ay az) /\ unit_or_degenerate (C03_aqua_est_am_R ax ay az mx my mz) /\
  unit_or_degenerate (C03_saam_R ax ay az mx my mz) /\ unit_or_degenerate (C03_famc_R ax ay az mx my mz).
Proof.
  intros w x y z gx gy gz ax ay az mx my mz U.
  rewrite <- eq_madgwick_imu, <- eq_roleq, <- eq_angular_series2, <- eq_aqua_est_acc, <- eq_aqua_est_am, <- eq_saam, <- eq_famc.
  split; [exact (madgwick_imu_partialL w x y z gx gy gz ax ay az U)|]. split; [exact (roleq_partialL w x y z gx gy gz ax ay az mx my mz U)|].
  split; [exact (angular_series2_partialL w x y z gx gy gz U)|]. split; [exact (aqua_est_acc_partialL ax ay az)|].
  split; [exact (aqua_est_am_partialL ax ay az mx my mz)|]. split; [exact (saam_partialL ax ay az mx my mz)|exact (famc_partialL ax ay az mx my mz)].
Qed.
Print Assumptions C03_unit_or_degenerate_partial.

(* the same PARTIAL statement for the large steps, about the let_in print of their decision trees: Madgwick MARG, AQUA updateIMU and
   updateMARG (all paths incl. both slerp branches), Fourati, FQA (34 paths) *)
Theorem C03_unit_or_degenerate_large_partial : forall w x y z gx gy gz ax ay az mx my mz, w*w + x*x + y*y + z*z = 1 ->
  unit_or_degenerate (C03_madgwick_marg_L w x y z gx gy gz ax ay az mx my mz) /\
  unit_or_degenerate (C03_aqua_imu_L w x y z gx gy gz ax ay az) /\
  unit_or_degenerate (C03_aqua_marg_L w x y z gx gy gz ax ay az mx my mz) /\
  unit_or_degenerate (C03_fourati_L w x y z gx gy gz ax ay az mx my mz) /\
  unit_or_degenerate (C03_fqa_L ax ay az mx my mz).
Proof.
  intros w x y z gx gy gz ax ay az mx my mz U.
  split; [exact (madgwick_marg_partialL w x y z gx gy gz ax ay az mx my mz U)|]. split; [exact (aqua_imu_partialL w x y z gx gy gz ax ay az U)|].
  split; [exact (aqua_marg_partialL w x y z gx gy gz ax ay az mx my mz U)|]. split; [exact (fourati_partialL w x y z gx gy gz ax ay az mx my mz U)|exact (fqa_partialL ax ay az mx my mz)].
Qed.
Print Assumptions C03_unit_or_degenerate_large_partial.

(* ---- single-frame estimators, e-compass, post-eigen-solver code, Complementary, EKF (round 2 of the deepening) ---- *)

(* Tilt (acc; acc+mag): for ALL inputs the estimate is a unit quaternion or a rejection: the half-angle product has norm 1 identically *)
Theorem C03_tilt_unit_or_raises : forall ax ay az mx my mz,
  unit_or_raise (C03_tilt_acc_R ax ay az) /\ unit_or_raise (C03_tilt_am_R ax ay az mx my mz).
Proof. intros. rewrite <- eq_tilt_acc, <- eq_tilt_am. split; [exact (tilt_acc_unit ax ay az)|exact (tilt_am_unit ax ay az mx my mz)]. Qed.
Print Assumptions C03_tilt_unit_or_raises.

(* TRIAD (rotmat): non-zero observations that are not parallel (explicit premise: |w1 x w2|^2 > 0) give a PROPER ROTATION MATRIX *)
Theorem C03_triad_rotmat_SO3 : forall ax ay az mx my mz, 0 < ax*ax + ay*ay + az*az -> 0 < mx*mx + my*my + mz*mz ->
  0 < (ay*mz - az*my)*(ay*mz - az*my) + (az*mx - ax*mz)*(az*mx - ax*mz) + (ax*my - ay*mx)*(ax*my - ay*mx) ->
  exists l, C03_triad_R ax ay az mx my mz = Val l /\ SO3 l.
Proof. intros. rewrite <- eq_triad. apply triad_rotmat_SO3; assumption. Qed.
Print Assumptions C03_triad_rotmat_SO3.

(* Complementary, two-sample batch through the constructor: both rows of .Q are unit quaternions (or the constructor rejects), ALL inputs *)
Theorem C03_complementary_Q_unit_or_raises : forall gx gy gz ax ay az mx my mz hx hy hz ux uy uz nx ny nz,
  unit_rows2_or_raise (C03_complementary_Q_R gx gy gz ax ay az mx my mz hx hy hz ux uy uz nx ny nz).
Proof. intros. rewrite <- eq_complementary_Q. apply complementary_Q_unit. Qed.
Print Assumptions C03_complementary_Q_unit_or_raises.

(* Davenport after eigh: unit exactly under the eigen-solver's contract (unit columns), for every ordering of the eigenvalues *)
Theorem C03_davenport_post_eigh_unit : forall ax ay az mx my mz l0 l1 l2 l3 v00 v01 v02 v03 v10 v11 v12 v13 v20 v21 v22 v23 v30 v31 v32 v33,
  v00*v00 + v10*v10 + v20*v20 + v30*v30 = 1 -> v01*v01 + v11*v11 + v21*v21 + v31*v31 = 1 ->
  v02*v02 + v12*v12 + v22*v22 + v32*v32 = 1 -> v03*v03 + v13*v13 + v23*v23 + v33*v33 = 1 ->
  exists a b c d, C03_davenport_post_R ax ay az mx my mz l0 l1 l2 l3 v00 v01 v02 v03 v10 v11 v12 v13 v20 v21 v22 v23 v30 v31 v32 v33 = Val [a;b;c;d] /\ a*a + b*b + c*c + d*d = 1.
Proof. intros. rewrite <- eq_davenport_post. apply davenport_post_unit; assumption. Qed.
Print Assumptions C03_davenport_post_eigh_unit.

(* PARTIAL (missing: non-zero-ness of the normalised vector): e-compass both frames, acc2q, FLAE after eigh — on every path a unit
   quaternion, a rejection, or (only when that vector is exactly zero) the zero vector *)
Theorem C03_estimators_unit_or_degenerate_partial : forall ax ay az mx my mz l0 l1 l2 l3 v00 v01 v02 v03 v10 v11 v12 v13 v20 v21 v22 v23 v30 v31 v32 v33,
  unit_or_degenerate (C03_ecompass_ned_R ax ay az mx my mz) /\ unit_or_degenerate (C03_ecompass_enu_R ax ay az mx my mz) /\
  unit_or_degenerate (C03_acc2q_R ax ay az) /\ unit_or_degenerate (C03_flae_eig_post_R ax ay az mx my mz l0 l1 l2 l3 v00 v01 v02 v03 v10 v11 v12 v13 v20 v21 v22 v23 v30 v31 v32 v33).
Proof.
  intros. rewrite <- eq_ecompass_ned, <- eq_ecompass_enu, <- eq_acc2q, <- eq_flae_eig_post.
  split; [apply ecompass_ned_partialL|]. split; [apply ecompass_enu_partialL|]. split; [apply acc2q_partialL|apply flae_eig_post_partialL].
Qed.
Print Assumptions C03_estimators_unit_or_degenerate_partial.

(* SAAM, FAMC on the guard (non-zero acc and mag): a value is ALWAYS returned (never None, never a rejection) and it is unit or the
   zero vector (SAAM: the zero case is real, see C03_saam_level_refuted) *)
Theorem C03_saam_famc_on_guard_partial : forall ax ay az mx my mz, 0 < ax*ax + ay*ay + az*az -> 0 < mx*mx + my*my + mz*mz ->
  val_unit_or_zero (C03_saam_R ax ay az mx my mz) /\ val_unit_or_zero (C03_famc_R ax ay az mx my mz).
Proof. intros ax ay az mx my mz A M. rewrite <- eq_saam, <- eq_famc. split; [exact (saam_guard ax ay az mx my mz A M)|exact (famc_guard ax ay az mx my mz A M)]. Qed.
Print Assumptions C03_saam_famc_on_guard_partial.

(* EKF.update with a magnetometer: for an exactly unit a-priori state and non-zero acc, mag, ANY covariance P and ANY 6x6 matrix in the
   place of inv(S) (the only stubbed call): no rejection on any path, and the result is v/|v| — unit, or the zero vector exactly when the
   corrected state v = q_t + K (z - h(q_t)) is zero.  (IMU variant with the traced 3x3 inverse: ekf_imu_guard, restated on _R in the thorough tier) *)
Theorem C03_ekf_marg_on_guard_partial : forall w x y z gx gy gz ax ay az mx my mz p00 p01 p02 p03 p10 p11 p12 p13 p20 p21 p22 p23 p30 p31 p32 p33 s00 s01 s02 s03 s04 s05 s10 s11 s12 s13 s14 s15 s20 s21 s22 s23 s24 s25 s30 s31 s32 s33 s34 s35 s40 s41 s42 s43 s44 s45 s50 s51 s52 s53 s54 s55,
  w*w + x*x + y*y + z*z = 1 -> 0 < ax*ax + ay*ay + az*az -> 0 < mx*mx + my*my + mz*mz ->
  val_unit_or_zero (C03_ekf_marg_R w x y z gx gy gz ax ay az mx my mz p00 p01 p02 p03 p10 p11 p12 p13 p20 p21 p22 p23 p30 p31 p32 p33 s00 s01 s02 s03 s04 s05 s10 s11 s12 s13 s14 s15 s20 s21 s22 s23 s24 s25 s30 s31 s32 s33 s34 s35 s40 s41 s42 s43 s44 s45 s50 s51 s52 s53 s54 s55).
Proof. intros. rewrite <- eq_ekf_marg. apply ekf_marg_guard; assumption. Qed.
Print Assumptions C03_ekf_marg_on_guard_partial.

Theorem C03_ekf_imu_on_guard_partial : forall w x y z gx gy gz ax ay az p00 p01 p02 p03 p10 p11 p12 p13 p20 p21 p22 p23 p30 p31 p32 p33,
  w*w + x*x + y*y + z*z = 1 -> 0 < ax*ax + ay*ay + az*az ->
  val_unit_or_zero (C03_ekf_imu_L w x y z gx gy gz ax ay az p00 p01 p02 p03 p10 p11 p12 p13 p20 p21 p22 p23 p30 p31 p32 p33).
Proof. intros. apply ekf_imu_guard; assumption. Qed.
Print Assumptions C03_ekf_imu_on_guard_partial.

(* one attitude per sample for EVERY filter family: the drivers of all 19 classes are instances of `batch` (recursive filters: Madgwick,
   Mahony, EKF, UKF, AQUA with gyr, Fourati, ROLEQ, FKF, Complementary, AngularRate) or `pointwise` (Tilt, SAAM, FAMC, FQA, QUEST,
   Davenport, FLAE, OLEQ, TRIAD, AQUA without gyr); the row count of each class is compared with the model on every run *)
Theorem C03_one_attitude_per_sample : forall (St Sample Out : Type) (step : St -> Sample -> St) (init : Sample -> St) (est : Sample -> Out)
  (s0 : Sample) (h : list Sample),
  length (batch St Sample step init (s0 :: h)) = S (length h) /\ length (pointwise Out Sample est (s0 :: h)) = S (length h) /\
  (forall n, n < S (length h) -> exists q, nth_error (batch St Sample step init (s0 :: h)) n = Some q)%nat.
Proof.
  intros. split; [apply length_batch|]. split; [apply length_pointwise|].
  intros n Hn. destruct (nth_error (batch St Sample step init (s0 :: h)) n) eqn:E; [eexists; reflexivity|].
  apply nth_error_None in E. rewrite length_batch in E. simpl in E. exfalso. apply (PeanoNat.Nat.lt_irrefl n). eapply PeanoNat.Nat.lt_le_trans; eassumption.
Qed.
Print Assumptions C03_one_attitude_per_sample.

(* the matrix FLAE hands to the eigen-solver is symmetric for every H (justifies eigh; real eigen-pairs) *)
Theorem C03_flae_W_symmetric : forall h00 h01 h02 h10 h11 h12 h20 h21 h22,
  exists m00 m01 m02 m03 m11 m12 m13 m22 m23 m33,
  C03_flae_W_R h00 h01 h02 h10 h11 h12 h20 h21 h22 = Val [m00;m01;m02;m03; m01;m11;m12;m13; m02;m12;m22;m23; m03;m13;m23;m33].
Proof. exact flae_W_symmetric. Qed.
Print Assumptions C03_flae_W_symmetric.

(* the hypotheses are inhabited *)
Example C03_nonvacuous : (1/2)*(1/2) + (1/2)*(1/2) + (1/2)*(1/2) + (1/2)*(1/2) = 1 /\ 0 < 1*1 + 2*2 + 3*3 /\
  mahony_state_ok [1;0;0;0;0;0;0] /\ imu_sample_ok [1;2;3;0;0;1] /\
  length (batch _ _ mahony_step (fun _ => [1;0;0;0;0;0;0]) [[1;2;3;0;0;1]; [1;2;3;0;0;1]; [1;2;3;0;0;1]]) = 3%nat.
Proof.
  split; [lra|]. split; [lra|]. split; [split; [reflexivity|unfold unit4; cbv [e nth]; lra]|].
  split; [unfold imu_sample_ok, nz3; cbv [e nth]; lra|apply length_batch].
Qed.
