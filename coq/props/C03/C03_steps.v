(* C03_steps.v — FULL unit_after_step theorems: on the property's guard (unit state, non-zero samples) the step returns
   (never raises) and its result is a unit quaternion; the pre-normalisation vector is PROVED non-zero. *)
From Coq Require Import Reals List Lra Psatz.
From AhrsLib Require Import Base Rot.
From AhrsGen Require Import C03gen_R.
From AhrsProps Require Import C03_core.
Import ListNotations.
Open Scope R_scope.

Ltac gates := repeat first [gate_01 | gate_sqrt_nz3].
(* v = q + (increment orthogonal to q):  v . q = 1, so ||v|| >= 1 > 0 *)
Ltac prenorm_ge1 w x y z U :=
  match goal with |- 0 < ?a*?a + ?b*?b + ?c*?c + ?d*?d =>
    apply Rlt_le_trans with 1; [lra|apply (dot_one_norm_ge1 w x y z a b c d U)] end;
  orient_unit; uring.

(* the zero test of a final `Quaternion(v)`: decided by proving 0 < ||v||^2 with `tac` (no-op when already decided) *)
Ltac final_gate tac :=
  try match goal with |- context [Req_EM_T 0 (sqrt ?e)] =>
    let P := fresh "P" in assert (P : 0 < e) by tac;
    let Hz := fresh "Hz" in destruct (Req_EM_T 0 (sqrt e)) as [Hz|_]; [exfalso; pose proof (sqrt_lt_R0 _ P); lra|]; clear P end.

(* Mahony, IMU: q' = normalise(q + dt/2 q (x) (0, gyr - b' + kP e)) for ANY bias b and ANY gains: ||.||^2 >= 1 *)
Lemma mahony_imu_unit w x y z b0 b1 b2 gx gy gz ax ay az :
  unit4 w x y z -> nz3 gx gy gz -> nz3 ax ay az ->
  exists a b c d b0' b1' b2', C03_mahony_imu_R w x y z b0 b1 b2 gx gy gz ax ay az = Val [a;b;c;d;b0';b1';b2'] /\ qnorm2 [a;b;c;d] = 1.
Proof.
  unfold unit4, nz3, C03_mahony_imu_R. intros U Hg Ha. cbv zeta. unitq_norm U. gates.
  do 7 eexists. split; [reflexivity|]. unit_by_norm. prenorm_ge1 w x y z U.
Qed.

Lemma angular_series1_unit w x y z gx gy gz :
  unit4 w x y z -> nz3 gx gy gz ->
  exists a b c d, C03_angular_series1_R w x y z gx gy gz = Val [a;b;c;d] /\ qnorm2 [a;b;c;d] = 1.
Proof.
  unfold unit4, nz3, C03_angular_series1_R. intros U Hg. cbv zeta. unitq_norm U. gates.
  final_gate ltac:(prenorm_ge1 w x y z U).
  do 4 eexists. split; [reflexivity|]. unit_by_norm. prenorm_ge1 w x y z U.
Qed.

(* FLAE: the matrix handed to the eigen-solver is symmetric (justifies eigh in the repaired code) *)
Lemma flae_W_symmetric h00 h01 h02 h10 h11 h12 h20 h21 h22 :
  exists m00 m01 m02 m03 m11 m12 m13 m22 m23 m33,
  C03_flae_W_R h00 h01 h02 h10 h11 h12 h20 h21 h22 = Val [m00;m01;m02;m03; m01;m11;m12;m13; m02;m12;m22;m23; m03;m13;m23;m33].
Proof. unfold C03_flae_W_R. cbv zeta. do 10 eexists. val_eq; ring. Qed.

(* AngularRate, closed form: A = cos(|w| dt/2) I + sin(|w| dt/2)/|w| Omega is orthogonal: ||A q||^2 = 1 exactly *)
Lemma closed_form_norm w x y z gx gy gz n cc ss :
  w*w + x*x + y*y + z*z = 1 -> n * n = gx*gx + gy*gy + gz*gz -> n <> 0 -> ss*ss + cc*cc = 1 ->
  forall a b c d,
  a = cc * w + ss * - gx / n * x + ss * - gy / n * y + ss * - gz / n * z ->
  b = ss * gx / n * w + cc * x + ss * gz / n * y + ss * - gy / n * z ->
  c = ss * gy / n * w + ss * - gz / n * x + cc * y + ss * gx / n * z ->
  d = ss * gz / n * w + ss * gy / n * x + ss * - gx / n * y + cc * z ->
  a*a + b*b + c*c + d*d = 1.
Proof.
  intros U Hn Hnz CS a b c d -> -> -> ->.
  replace (_ + _ + _ + _) with ((cc*cc + ss*ss*((gx*gx + gy*gy + gz*gz) / (n*n))) * (w*w + x*x + y*y + z*z)) by (field; exact Hnz).
  rewrite U, <- Hn. replace (n * n / (n * n)) with 1 by (field; exact Hnz). lra.
Qed.

Lemma angular_closed_unit w x y z gx gy gz :
  unit4 w x y z -> nz3 gx gy gz ->
  exists a b c d, C03_angular_closed_R w x y z gx gy gz = Val [a;b;c;d] /\ qnorm2 [a;b;c;d] = 1.
Proof.
  unfold unit4, nz3, C03_angular_closed_R. intros U Hg. cbv zeta. unitq_norm U. gates.
  pose proof (sqrt_sqrt _ (Rlt_le _ _ Hg)) as Hn. pose proof (sqrt_pos_ne0 _ Hg) as Hnz.
  set (nn := sqrt (gx*gx + gy*gy + gz*gz)) in *.
  match goal with |- context [cos ?t] => pose proof (sin2_cos2 t) as CS end.
  unfold Rsqr in CS.
  match goal with |- context [cos ?t] => set (cc := cos t) in * end.
  match goal with |- context [sin ?t] => set (ss := sin t) in * end.
  assert (E : forall a b c d,
    a = cc * w + ss * - gx / nn * x + ss * - gy / nn * y + ss * - gz / nn * z ->
    b = ss * gx / nn * w + cc * x + ss * gz / nn * y + ss * - gy / nn * z ->
    c = ss * gy / nn * w + ss * - gz / nn * x + cc * y + ss * gx / nn * z ->
    d = ss * gz / nn * w + ss * gy / nn * x + ss * - gx / nn * y + cc * z -> a*a + b*b + c*c + d*d = 1)
    by (exact (closed_form_norm w x y z gx gy gz nn cc ss U Hn Hnz CS)).
  final_gate ltac:(idtac; match goal with |- 0 < ?a*?a + ?b*?b + ?c*?c + ?d*?d =>
     rewrite (E a b c d) by (field; exact Hnz); lra end).
  do 4 eexists. split; [reflexivity|]. unit_by_norm.
  match goal with |- 0 < ?a*?a + ?b*?b + ?c*?c + ?d*?d => rewrite (E a b c d) by (field; exact Hnz); lra end.
Qed.
