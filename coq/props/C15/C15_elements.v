(* C15_elements.v — lemmas about the REGENERATED formula code of WMM.magnetic_field / denormalize_coefficients
   (gen/C15gen_R.v: statements cut out of the method bodies by ast and traced by pysym on every run). *)
From Coq Require Import Reals List Lra.
From AhrsLib Require Import Base.
From AhrsGen Require Import C15gen_R.
Import ListNotations.
Open Scope R_scope.

(* "H, F, Ic, D follow from X, Y, Z", and the grivation rule, as a predicate on the eight stored elements *)
Definition grivation (glat glon D : R) : R :=
  if Rlt_dec 55 glat then D - glon else if Rlt_dec glat (-55) then D + glon else D.

Definition derived_ok (glat glon X Y Z H F Ic D GV : R) : Prop :=
  H = sqrt (X * X + Y * Y) /\ F = sqrt (X * X + Y * Y + Z * Z) /\
  Ic = 180 / PI * atan2 Z H /\ D = 180 / PI * atan2 Y X /\ GV = grivation glat glon D.

Definition consistent (glat glon : R) (l : list R) : Prop :=
  match l with [X; Y; Z; H; F; Ic; D; GV] => derived_ok glat glon X Y Z H F Ic D GV | _ => False end.

Lemma sq_sqrt_sum a b : sqrt (a * a + b * b) * sqrt (a * a + b * b) = a * a + b * b.
Proof. apply sqrt_sqrt. nra. Qed.

(* 0 <= sum of squares, whether the source writes a*a or a^2 (structural: the squared terms can be arbitrarily large) *)
Ltac sumsq_nonneg :=
  repeat apply Rplus_le_le_0_compat;
  solve [ apply Rle_0_sqr | apply pow2_ge_0 | nra ].

(* closes one conjunct of derived_ok whatever the order in which the source adds its squares *)
Ltac close_elem :=
  first [ reflexivity
        | solve [f_equal; ring]
        | solve [rewrite sq_sqrt_sum; f_equal; ring]
        | solve [match goal with |- sqrt ?a = sqrt ?b =>
                   f_equal; repeat rewrite sq_sqrt_sum;
                   repeat match goal with |- context [sqrt ?e * sqrt ?e] => rewrite (sqrt_sqrt e) by sumsq_nonneg end; ring end]
        | solve [f_equal; f_equal; ring] ].

Ltac griv glat :=
  unfold grivation;
  repeat match goal with
  | |- context [Rlt_dec ?a ?b] => destruct (Rlt_dec a b); try lra
  end; try reflexivity; try ring.

Ltac split_paths :=
  repeat match goal with
  | |- context [Rlt_dec ?a ?b] => destruct (Rlt_dec a b)
  end.

Lemma derived_spec x y z glat glon :
  exists H F Ic D GV, C15_derived_R x y z glat glon = Val [H; F; Ic; D; GV] /\ derived_ok glat glon x y z H F Ic D GV.
Proof.
  unfold C15_derived_R; cbv zeta.
  destruct (Rlt_dec 55 glat) as [A|A]; destruct (Rlt_dec glat (-55)) as [B|B]; try (exfalso; lra);
  do 5 eexists; (split; [reflexivity|]); unfold derived_ok;
  (split; [close_elem|]); (split; [close_elem|]); (split; [close_elem|]); (split; [close_elem|]); griv glat.
Qed.

(* the rotation from geocentric to geodetic axes, then the derived elements (frame NED) *)
Lemma elements_NED_spec xp yp zp lp la glat glon :
  exists l, C15_elements_NED_R xp yp zp lp la glat glon = Val l /\ consistent glat glon l /\
            nth 0 l 0 = xp * cos (lp - la) - zp * sin (lp - la) /\ nth 1 l 0 = yp /\
            nth 2 l 0 = xp * sin (lp - la) + zp * cos (lp - la).
Proof.
  unfold C15_elements_NED_R; cbv zeta.
  destruct (Rlt_dec 55 glat) as [A|A]; destruct (Rlt_dec glat (-55)) as [B|B]; try (exfalso; lra);
  eexists; (split; [reflexivity|]); (split; [|cbn [nth]; repeat split; ring]); unfold consistent, derived_ok;
  (split; [close_elem|]); (split; [close_elem|]); (split; [close_elem|]); (split; [close_elem|]); griv glat.
Qed.

Lemma elements_ENU_spec xp yp zp lp la glat glon :
  exists l, C15_elements_ENU_R xp yp zp lp la glat glon = Val l /\ consistent glat glon l /\
            nth 1 l 0 = xp * cos (lp - la) - zp * sin (lp - la) /\ nth 0 l 0 = yp /\
            nth 2 l 0 = - (xp * sin (lp - la) + zp * cos (lp - la)).
Proof.
  unfold C15_elements_ENU_R; cbv zeta.
  destruct (Rlt_dec 55 glat) as [A|A]; destruct (Rlt_dec glat (-55)) as [B|B]; try (exfalso; lra);
  eexists; (split; [reflexivity|]); (split; [|cbn [nth]; repeat split; ring]); unfold consistent, derived_ok;
  (split; [close_elem|]); (split; [close_elem|]); (split; [close_elem|]); (split; [close_elem|]); griv glat.
Qed.

(* the rotation preserves the meridional intensity: X^2 + Z^2 = X'^2 + Z'^2 *)
Lemma rotation_isometry xp zp t :
  (xp * cos t - zp * sin t) * (xp * cos t - zp * sin t) + (xp * sin t + zp * cos t) * (xp * sin t + zp * cos t) = xp * xp + zp * zp.
Proof.
  pose proof (sin2_cos2 t) as E. unfold Rsqr in E.
  replace (xp * xp + zp * zp) with ((xp * xp + zp * zp) * (sin t * sin t + cos t * cos t)) by (rewrite E; ring). ring.
Qed.

(* ENU = NED with north/east swapped and down negated; H and F are the same numbers in both frames *)
Lemma enu_swaps_ned xp yp zp lp la glat glon :
  exists X Y Z H F Ic D GV H' F' Ic' D' GV',
    C15_elements_NED_R xp yp zp lp la glat glon = Val [X; Y; Z; H; F; Ic; D; GV] /\
    C15_elements_ENU_R xp yp zp lp la glat glon = Val [Y; X; - Z; H'; F'; Ic'; D'; GV'] /\ H' = H /\ F' = F.
Proof.
  unfold C15_elements_NED_R, C15_elements_ENU_R; cbv zeta.
  destruct (Rlt_dec 55 glat) as [A|A]; destruct (Rlt_dec glat (-55)) as [B|B]; try (exfalso; lra);
  do 13 eexists; (split; [reflexivity|]); (split; [val_eq; try reflexivity; try ring|]);
  (split; [close_elem|]); close_elem.
Qed.

(* what the ENU frame does to the angles (observed behaviour, recorded so that a change is noticed): they are computed from
   the swapped components, so the inclination changes sign *)
Lemma atan2_opp_pos z h : 0 < h -> atan2 (- z) h = - atan2 z h.
Proof.
  intros Hh. unfold atan2. destruct (Rlt_dec 0 h); [|contradiction].
  replace (- z / h) with (- (z / h)) by (field; lra). apply atan_opp.
Qed.

Lemma enu_inclination_negated xp yp zp lp la glat glon :
  forall ln le, C15_elements_NED_R xp yp zp lp la glat glon = Val ln -> C15_elements_ENU_R xp yp zp lp la glat glon = Val le ->
  0 < nth 3 ln 0 -> nth 5 le 0 = - nth 5 ln 0.
Proof.
  intros ln le En Ee Hpos.
  destruct (enu_swaps_ned xp yp zp lp la glat glon) as (X & Y & Z & H & F & Ic & D & GV & H' & F' & Ic' & D' & GV' & E1 & E2 & EH & EF).
  destruct (elements_NED_spec xp yp zp lp la glat glon) as (l1 & E1' & C1 & _).
  destruct (elements_ENU_spec xp yp zp lp la glat glon) as (l2 & E2' & C2 & _).
  rewrite E1 in En, E1'. rewrite E2 in Ee, E2'. injection En as <-. injection Ee as <-. injection E1' as <-. injection E2' as <-.
  cbn [nth] in *. destruct C1 as (_ & _ & HI & _). destruct C2 as (_ & _ & HI' & _).
  rewrite HI, HI', EH, atan2_opp_pos by exact Hpos. ring.
Qed.

Lemma frame_swap x y z : C15_frame_NED_R x y z = Val [x; y; z] /\ C15_frame_ENU_R x y z = Val [y; x; - z].
Proof. unfold C15_frame_NED_R, C15_frame_ENU_R; cbv zeta. split; val_eq; try reflexivity; ring. Qed.

(* longitude enters through sin/cos of (lon * pi/180) and their multiple-angle recurrence: +180 and -180 coincide *)
Ltac fold_pi :=
  repeat match goal with
  | |- context [sin ?e] =>
      lazymatch e with
      | PI => fail
      | - PI => fail
      | _ => first [ replace e with PI by (unfold Rdiv; field) | replace e with (- PI) by (unfold Rdiv; field) ]
      end
  end.

Lemma lon_harmonics_at_180 lat h : C15_lon_harmonics_R lat 180 h = Val [0; 0; 0; -1; 1; -1].
Proof.
  unfold C15_lon_harmonics_R; cbv zeta. fold_pi. rewrite ?sin_neg, ?cos_neg, ?sin_PI, ?cos_PI. val_eq; ring.
Qed.

Lemma lon_harmonics_at_m180 lat h : C15_lon_harmonics_R lat (-180) h = Val [0; 0; 0; -1; 1; -1].
Proof.
  unfold C15_lon_harmonics_R; cbv zeta. fold_pi. rewrite ?sin_neg, ?cos_neg, ?sin_PI, ?cos_PI. val_eq; ring.
Qed.

(* ... and they are the multiple-angle values: sp[m] = sin(m lon), cp[m] = cos(m lon) for m = 1, 2, 3 *)
Lemma lon_harmonics_multiple_angle lat lon h : let t := lon * (PI / 180) in
  C15_lon_harmonics_R lat lon h = Val [sin t; sin (2 * t); sin (3 * t); cos t; cos (2 * t); cos (3 * t)].
Proof.
  intros t. unfold C15_lon_harmonics_R; cbv zeta.
  replace (lon * (1 / 180 * PI)) with t by (unfold t; field).
  replace (3 * t) with (2 * t + t) by ring. rewrite sin_plus, cos_plus, sin_2a, cos_2a.
  val_eq; ring.
Qed.

(* latitude 0 and longitude 0 are not singled out by the longitude part: it is the same expression, whose value there is the
   plain sin 0 / cos 0 *)
Lemma lon_harmonics_at_0 lat h : C15_lon_harmonics_R lat 0 h = Val [0; 0; 0; 1; 1; 1].
Proof.
  unfold C15_lon_harmonics_R; cbv zeta. rewrite Rmult_0_l, sin_0, cos_0. val_eq; ring.
Qed.

(* the in-place Schmidt scaling: place independent, and NOT idempotent (g_2^0 is multiplied by 3/2 on every call) *)
Lemma scale_place_independent g10 g11 h11 g20 g21 h21 g22 h22 d20 phi phi' :
  C15_scale_R g10 g11 h11 g20 g21 h21 g22 h22 d20 phi = C15_scale_R g10 g11 h11 g20 g21 h21 g22 h22 d20 phi'.
Proof. reflexivity. Qed.

Lemma scale_g20 g10 g11 h11 g20 g21 h21 g22 h22 d20 phi :
  exists a b c e f g h, C15_scale_R g10 g11 h11 g20 g21 h21 g22 h22 d20 phi = Val [a; b; c; 3 / 2 * g20; e; f; g; h; 3 / 2 * d20].
Proof. unfold C15_scale_R; cbv zeta. do 7 eexists. val_eq; try reflexivity; ring. Qed.

Lemma scale_degree1_identity g10 g11 h11 g20 g21 h21 g22 h22 d20 phi :
  exists l, C15_scale_R g10 g11 h11 g20 g21 h21 g22 h22 d20 phi = Val (g10 :: g11 :: h11 :: l).
Proof. unfold C15_scale_R; cbv zeta. eexists. reflexivity. Qed.

(* one table entry through the regenerated scaling (the coefficient g_2^0 alone) *)
Definition scale20 (g : R) : R :=
  match C15_scale_R 0 0 0 g 0 0 0 0 0 0 with Val l => nth 3 l 0 | Raise _ => 0 end.

Lemma scale20_val g : scale20 g = 3 / 2 * g.
Proof.
  unfold scale20. destruct (scale_g20 0 0 0 g 0 0 0 0 0 0) as (a & b & c & e & f & g' & h & E). rewrite E. reflexivity.
Qed.

Lemma scale_not_idempotent g : g <> 0 -> scale20 (scale20 g) <> scale20 g.
Proof. intros H. rewrite !scale20_val. intros E. apply H. lra. Qed.

(* non-vacuity: a concrete evaluation of the tail (through the specification, so it does not depend on how the source
   spells its squares) *)
Example elements_sample : exists l, C15_elements_NED_R 3 0 4 0 0 10 20 = Val l /\ nth 0 l 0 = 3 /\ nth 3 l 0 = 3 /\ nth 4 l 0 = 5.
Proof.
  destruct (elements_NED_spec 3 0 4 0 0 10 20) as (l & E & C & HX & HY & HZ). exists l. split; [exact E|].
  destruct l as [|X [|Y [|Z [|H [|F [|Ic [|D [|GV [|]]]]]]]]]; try contradiction.
  cbn [nth] in *. destruct C as (HH & HF & _).
  replace (0 - 0) with 0 in * by ring. rewrite cos_0, sin_0 in *.
  assert (EX : X = 3) by lra. assert (EZ : Z = 4) by lra. clear HX HZ. subst X Y Z.
  split; [reflexivity|]. split.
  - rewrite HH. replace (3 * 3 + 0 * 0) with (3 * 3) by ring. rewrite sqrt_sq_abs, Rabs_right by lra. reflexivity.
  - rewrite HF. replace (3 * 3 + 0 * 0 + 4 * 4) with (5 * 5) by ring. rewrite sqrt_sq_abs, Rabs_right by lra. reflexivity.
Qed.
