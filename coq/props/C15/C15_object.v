(* C15_object.v — the state-machine model (coq/model/C15_wmm_object.v) instantiated with the facts regenerated from
   /repo's wmm.py on this run (gen/C15facts.v).  Every `fact_*` lemma is closed by computation on the regenerated record:
   if the source stops reloading before it scales, grows a zero-sensitive branch, ... the lemma stops compiling. *)
From Coq Require Import List Bool.
From AhrsModel Require Import C15_wmm_object.
From AhrsGen Require Import C15facts.
Import ListNotations.

Lemma fact_reset_reloads : reset_reloads C15_facts = true.            Proof. reflexivity. Qed.
Lemma fact_reload_if_date : field_reloads_if_date C15_facts = true.   Proof. reflexivity. Qed.
Lemma fact_no_zero_branch : method_zero_branch C15_facts = false.     Proof. reflexivity. Qed.
Lemma fact_ctor_resets : ctor_resets_first C15_facts = true.          Proof. reflexivity. Qed.
Lemma fact_ctor_generic : ctor_guard_xx C15_facts = true.             Proof. reflexivity. Qed.
Lemma fact_no_hidden_state : no_hidden_state C15_facts = true.          Proof. reflexivity. Qed.
Lemma fact_ctor_date : ctor_date C15_facts = PassGiven \/ ctor_date C15_facts = PassCalendar \/ ctor_date C15_facts = PassDecimal.
Proof. first [left; reflexivity | right; left; reflexivity | right; right; reflexivity]. Qed.

(* every Field call of the sequence names its date *)
Definition explicit_dates (w : world) (cs : list (call w)) : Prop := forall p od, In (Field w p od) cs -> od <> None.

Lemma explicit_reload w cs : explicit_dates w cs -> all_fields_reload w C15_facts cs.
Proof. intros H p od Hin. destruct od as [d|]; [exact fact_reload_if_date|]. exfalso. exact (H p None Hin eq_refl). Qed.

Lemma history_independent_conditional w : field_reloads_if_none C15_facts = true ->
  forall cs st, run w C15_facts st cs = spec w (sdate w st) (sframe w st) cs.
Proof.
  intros Hn cs st. apply history_independent; [exact fact_reset_reloads|exact fact_no_zero_branch|].
  intros p od _. destruct od; [exact fact_reload_if_date|exact Hn].
Qed.

Lemma history_independent_explicit w cs st : explicit_dates w cs -> run w C15_facts st cs = spec w (sdate w st) (sframe w st) cs.
Proof. intros H. apply history_independent; [exact fact_reset_reloads|exact fact_no_zero_branch|exact (explicit_reload w cs H)]. Qed.

(* reused object after any history = pure function: the answer to (p, d) does not depend on the object or on what it was
   asked before *)
Lemma fresh_eq_reused_explicit w pre1 pre2 st1 st2 p d dflt : explicit_dates w pre1 -> explicit_dates w pre2 ->
  frame_after w (sframe w st1) pre1 = frame_after w (sframe w st2) pre2 ->
  last (run w C15_facts st1 (pre1 ++ [Field w p (Some d)])) dflt = last (run w C15_facts st2 (pre2 ++ [Field w p (Some d)])) dflt
  /\ last (run w C15_facts st1 (pre1 ++ [Field w p (Some d)])) dflt = pure w d p (frame_after w (sframe w st1) pre1).
Proof.
  intros H1 H2 Hf.
  rewrite (last_answer_independent w C15_facts fact_reset_reloads fact_no_zero_branch pre1 st1 p (Some d) dflt
             (explicit_reload w pre1 H1) fact_reload_if_date).
  rewrite (last_answer_independent w C15_facts fact_reset_reloads fact_no_zero_branch pre2 st2 p (Some d) dflt
             (explicit_reload w pre2 H2) fact_reload_if_date).
  rewrite Hf. split; reflexivity.
Qed.

Lemma fresh_eq_reused_conditional w : field_reloads_if_none C15_facts = true ->
  forall pre st p od dflt,
  last (run w C15_facts st (pre ++ [Field w p od])) dflt =
  pure w (match od with Some x => x | None => date_after w (sdate w st) pre end) p (frame_after w (sframe w st) pre).
Proof.
  intros Hn pre st p od dflt. apply last_answer_independent; [exact fact_reset_reloads|exact fact_no_zero_branch| |].
  - intros q oq _. destruct oq; [exact fact_reload_if_date|exact Hn].
  - destruct od; [exact fact_reload_if_date|exact Hn].
Qed.

(* the readers (attributes, magnetic_elements, geodetic_vector) show exactly the stored answer of the last query; switching
   only the frame and asking the same question again yields the pure answer of the NEW frame *)
Lemma dictionary_is_answer w st : observe w C15_facts st = answer w st.
Proof. apply observe_is_answer. exact fact_no_hidden_state. Qed.

Lemma frame_switch w st p d fr' :
  observe w C15_facts (fst (field w C15_facts st p (Some d))) = Some (pure w d p (sframe w st)) /\
  observe w C15_facts (fst (field w C15_facts (set_frame w (fst (field w C15_facts st p (Some d))) fr') p (Some d))) = Some (pure w d p fr').
Proof.
  exact (frame_switch_requery w C15_facts st p d fr' fact_reset_reloads fact_no_zero_branch fact_reload_if_date fact_no_hidden_state).
Qed.

(* the method with an explicit date, on any object, at any place (latitude 0 and longitude 0 included: `p` is arbitrary) *)
Lemma method_is_pure w st p d : snd (field w C15_facts st p (Some d)) = pure w d p (sframe w st).
Proof. apply method_answer; [exact fact_reset_reloads|exact fact_no_zero_branch|exact fact_reload_if_date]. Qed.

Lemma ctor_is_pure w od p fr : ctor_guard w C15_facts p = true ->
  answer w (new w C15_facts od p fr) = Some (pure w (ctor_eff w C15_facts od) p fr).
Proof.
  intros Hg. apply ctor_answer; [exact fact_ctor_resets|exact fact_reset_reloads|exact fact_no_zero_branch|exact fact_reload_if_date|exact Hg].
Qed.

Lemma ctor_computes_off_zero w od p fr : w_lat0 w p = false -> w_lon0 w p = false ->
  answer w (new w C15_facts od p fr) = Some (pure w (ctor_eff w C15_facts od) p fr).
Proof. intros A B. apply ctor_is_pure. unfold ctor_guard. rewrite A, B. exact fact_ctor_generic. Qed.

(* constructor = method, up to which date value the constructor hands on *)
Lemma ctor_method_some w d p fr st : ctor_guard w C15_facts p = true -> sframe w st = fr ->
  exists d', (d' = d \/ d' = w_cal w d \/ d' = w_dec w d) /\
             answer w (new w C15_facts (Some d) p fr) = Some (snd (field w C15_facts st p (Some d'))).
Proof.
  intros Hg Hf. rewrite (ctor_is_pure w (Some d) p fr Hg). unfold ctor_eff, ctor_arg, given.
  destruct fact_ctor_date as [E|[E|E]]; rewrite E.
  - exists d. split; [left; reflexivity|]. rewrite method_is_pure, Hf. reflexivity.
  - exists (w_cal w d). split; [right; left; reflexivity|]. rewrite method_is_pure, Hf. reflexivity.
  - exists (w_dec w d). split; [right; right; reflexivity|]. rewrite method_is_pure, Hf. reflexivity.
Qed.

Lemma ctor_eq_method_conditional w d p fr st : ctor_date C15_facts = PassGiven -> ctor_guard w C15_facts p = true ->
  sframe w st = fr -> answer w (new w C15_facts (Some d) p fr) = Some (snd (field w C15_facts st p (Some d))).
Proof.
  intros E Hg Hf. rewrite (ctor_is_pure w (Some d) p fr Hg), method_is_pure, Hf. unfold ctor_eff, ctor_arg, given. rewrite E. reflexivity.
Qed.

Lemma no_special_zero_conditional w :
  ctor_guard_00 C15_facts = true -> ctor_guard_0x C15_facts = true -> ctor_guard_x0 C15_facts = true ->
  forall od p fr, answer w (new w C15_facts od p fr) = Some (pure w (ctor_eff w C15_facts od) p fr).
Proof.
  intros A B C od p fr. apply ctor_is_pure. apply guard_total; [exact A|exact B|exact C|exact fact_ctor_generic].
Qed.

(* non-vacuity: the executable instance run on a three-call history with explicit dates *)
Example object_sample :
  run xworld C15_facts (new xworld C15_facts (Some 3) (0, false, false) true)
      [XField (1, false, false) (Some 4); XReset 6; XDenorm; XSetFrame false; XField (2, true, true) (Some 5)]
  = [[4; 1; 4; 1; 1; 0]; [5; 1; 5; 2; 0; 0]]
  /\ explicit_dates xworld [XField (1, false, false) (Some 4); XReset 6; XDenorm; XSetFrame false; XField (2, true, true) (Some 5)].
Proof.
  split; [vm_compute; reflexivity|]. intros p od [E|[E|[E|[E|[E|[]]]]]]; try discriminate E; injection E as _ <-; discriminate.
Qed.
