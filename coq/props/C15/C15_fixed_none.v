(* C15_fixed_none.v — compiled only when the regenerated facts say that magnetic_field reloads before it scales on EVERY
   path (date given or None): the unconditional history-independence theorem.  (On the pinned tree the fact is false and
   C15_refuted_none.v is compiled instead.) *)
From Coq Require Import List Bool.
From AhrsModel Require Import C15_wmm_object.
From AhrsGen Require Import C15facts.
From AhrsProps Require Import C15_object.
Import ListNotations.

Theorem C15_field_history_independent_all : forall (w : world) (cs : list (call w)) (st : state w),
  run w C15_facts st cs = spec w (sdate w st) (sframe w st) cs.
Proof. intros w. exact (history_independent_conditional w eq_refl). Qed.
Print Assumptions C15_field_history_independent_all.

Theorem C15_fresh_eq_reused_all : forall (w : world) (pre : list (call w)) (st : state w) p od dflt,
  last (run w C15_facts st (pre ++ [Field w p od])) dflt =
  pure w (match od with Some x => x | None => date_after w (sdate w st) pre end) p (frame_after w (sframe w st) pre).
Proof. intros w. exact (fresh_eq_reused_conditional w eq_refl). Qed.
Print Assumptions C15_fresh_eq_reused_all.
