(* C15_fixed_zero.v — compiled only when the regenerated guard facts say the constructor computes at latitude 0 and at
   longitude 0 as well: the constructor's answer is the pure function at EVERY place. *)
From Coq Require Import List Bool.
From AhrsModel Require Import C15_wmm_object.
From AhrsGen Require Import C15facts.
From AhrsProps Require Import C15_object.

Theorem C15_no_special_zero_all : forall (w : world) od p fr,
  answer w (new w C15_facts od p fr) = Some (pure w (ctor_eff w C15_facts od) p fr).
Proof. intros w. exact (no_special_zero_conditional w eq_refl eq_refl eq_refl). Qed.
Print Assumptions C15_no_special_zero_all.
