(* C15_fixed_date.v — compiled only when the regenerated fact says the constructor hands the caller's date to the method:
   constructor = method for every date. *)
From Coq Require Import List Bool.
From AhrsModel Require Import C15_wmm_object.
From AhrsGen Require Import C15facts.
From AhrsProps Require Import C15_object.

Theorem C15_ctor_eq_method_all : forall (w : world) d p fr (st : state w), ctor_guard w C15_facts p = true -> sframe w st = fr ->
  answer w (new w C15_facts (Some d) p fr) = Some (snd (field w C15_facts st p (Some d))).
Proof. intros w d p fr st. exact (ctor_eq_method_conditional w d p fr st eq_refl). Qed.
Print Assumptions C15_ctor_eq_method_all.
