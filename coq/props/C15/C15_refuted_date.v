(* C15_refuted_date.v — witness of the known finding "constructor/date-rounded-to-calendar-day": the regenerated fact says the
   constructor hands the calendar date (self.date) to the method, so it answers for the rounded date.  Stops compiling
   once the constructor passes the caller's date. *)
From Coq Require Import List Bool.
From AhrsModel Require Import C15_wmm_object.
From AhrsGen Require Import C15facts.
From AhrsProps Require Import C15_object.
Import ListNotations.

(* a world in which the answer IS the date, and the calendar rounding moves it *)
Definition dworld : world := {|
  w_Date := nat; w_Place := unit; w_Frame := unit; w_File := unit; w_Coef := unit; w_Elem := nat;
  w_file_of := fun _ => tt; w_load := fun _ => tt; w_scale := fun c => c;
  w_synth := fun _ d _ _ => d; w_synth0 := fun _ d _ _ => d; w_cal := S; w_dec := fun d => d; w_today := 0;
  w_coef0 := tt; w_lat0 := fun _ => false; w_lon0 := fun _ => false |}.

Theorem C15_ctor_date_refuted :
  ctor_date C15_facts = PassCalendar /\
  (forall (w : world) d p fr st, ctor_guard w C15_facts p = true -> sframe w st = fr ->
     answer w (new w C15_facts (Some d) p fr) = Some (snd (field w C15_facts st p (Some (w_cal w d))))) /\
  (exists d p fr (st : state dworld), sframe dworld st = fr /\ ctor_guard dworld C15_facts p = true /\
     answer dworld (new dworld C15_facts (Some d) p fr) <> Some (snd (field dworld C15_facts st p (Some d)))).
Proof.
  split; [reflexivity|]. split.
  - intros w d p fr st Hg Hf. apply ctor_eq_method_at_calendar; try reflexivity; assumption.
  - exists 0, tt, tt, (Build_state dworld tt 0 tt None).
    split; [reflexivity|]. split; [reflexivity|]. vm_compute. discriminate.
Qed.
Print Assumptions C15_ctor_date_refuted.
