(* C15_refuted_none.v — witness, inside the model instantiated with the REGENERATED facts and the REGENERATED scaling, of the
   known finding "magnetic_field/date-none-rescales".  If the defect is repaired (the method reloads when date is None)
   this file stops compiling and the check says so. *)
From Coq Require Import Reals List Lra.
From AhrsLib Require Import Base.
From AhrsModel Require Import C15_wmm_object.
From AhrsGen Require Import C15facts C15gen_R.
From AhrsProps Require Import C15_elements C15_object.
Import ListNotations.
Open Scope R_scope.

(* a one-coefficient world: the table is g_2^0 alone, the file holds 1, the scaling is the regenerated one, the "field" is the
   coefficient itself *)
Definition rworld : world := {|
  w_Date := unit; w_Place := unit; w_Frame := unit; w_File := unit; w_Coef := R; w_Elem := R;
  w_file_of := fun _ => tt; w_load := fun _ => 1; w_scale := scale20;
  w_synth := fun c _ _ _ => c; w_synth0 := fun c _ _ _ => c; w_cal := fun d => d; w_dec := fun d => d; w_today := tt;
  w_coef0 := 0; w_lat0 := fun _ => false; w_lon0 := fun _ => false |}.

Theorem C15_field_date_none_refuted :
  field_reloads_if_none C15_facts = false /\
  (forall (w : world) (st : state w) p d,
     run w C15_facts st [Field w p (Some d); Field w p None] =
     [pure w d p (sframe w st); w_synth w (w_scale w (w_scale w (w_load w (w_file_of w d)))) d p (sframe w st)]) /\
  (exists (st : state rworld) a b,
     run rworld C15_facts st [Field rworld tt (Some tt); Field rworld tt None] = [a; b] /\
     spec rworld (sdate rworld st) (sframe rworld st) [Field rworld tt (Some tt); Field rworld tt None] = [a; a] /\ a <> b).
Proof.
  split; [reflexivity|]. split.
  - intros w st p d. apply second_none_call_rescales; reflexivity.
  - exists (Build_state rworld 0 tt tt None), (scale20 1), (scale20 (scale20 1)).
    split; [rewrite second_none_call_rescales by reflexivity; reflexivity|]. split; [reflexivity|].
    intros E. apply (scale_not_idempotent 1); [lra|]. symmetry. exact E.
Qed.
Print Assumptions C15_field_date_none_refuted.
