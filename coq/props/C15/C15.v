(* C15.v — property C15: WMM answers depend only on (date, place, frame), not on call path or history.  Statements only.

   Object theorems are about the state-machine model of coq/model/C15_wmm_object.v instantiated with `C15_facts`, the
   record regenerated from /repo's ahrs/utils/wmm.py on this run, for EVERY `world` (every choice of coefficient files,
   scale factors and synthesis).  Formula theorems are about the definitions pysym regenerated from the method bodies. *)
From Coq Require Import Reals List Bool Lra.
From AhrsLib Require Import Base.
From AhrsModel Require Import C15_wmm_object.
From AhrsGen Require Import C15facts C15gen_R.
From AhrsProps Require Import C15_elements C15_object.
Import ListNotations.

(* field_history_independent.  If the regenerated facts say that a date=None call reloads before it scales (calls with a
   date are proved to, unconditionally), the answers of ANY sequence of magnetic_field / reset_coefficients /
   denormalize_coefficients calls on ANY object state are the pure function of (date, place, frame) of each call *)
Theorem C15_field_history_independent : field_reloads_if_none C15_facts = true ->
  forall (w : world) (cs : list (call w)) (st : state w), run w C15_facts st cs = spec w (sdate w st) (sframe w st) cs.
Proof. intros H w. exact (history_independent_conditional w H). Qed.
Print Assumptions C15_field_history_independent.

(* the part that holds on the pinned tree as well: sequences in which every magnetic_field call names its date *)
Theorem C15_field_history_independent_partial : forall (w : world) (cs : list (call w)) (st : state w),
  (forall p od, In (Field w p od) cs -> od <> None) -> run w C15_facts st cs = spec w (sdate w st) (sframe w st) cs.
Proof. intros w cs st H. exact (history_independent_explicit w cs st H). Qed.
Print Assumptions C15_field_history_independent_partial.

(* two objects, two histories, the same final question: the same answer, namely the pure one *)
Theorem C15_fresh_eq_reused_partial : forall (w : world) (pre1 pre2 : list (call w)) (st1 st2 : state w) p d dflt,
  (forall q od, In (Field w q od) pre1 -> od <> None) -> (forall q od, In (Field w q od) pre2 -> od <> None) ->
  frame_after w (sframe w st1) pre1 = frame_after w (sframe w st2) pre2 ->
  last (run w C15_facts st1 (pre1 ++ [Field w p (Some d)])) dflt = last (run w C15_facts st2 (pre2 ++ [Field w p (Some d)])) dflt /\
  last (run w C15_facts st1 (pre1 ++ [Field w p (Some d)])) dflt = pure w d p (frame_after w (sframe w st1) pre1).
Proof. intros w pre1 pre2 st1 st2 p d dflt H1 H2 Hf. exact (fresh_eq_reused_explicit w pre1 pre2 st1 st2 p d dflt H1 H2 Hf). Qed.
Print Assumptions C15_fresh_eq_reused_partial.

(* the readers show the stored answer and nothing else (no undeclared cache in the regenerated facts); asking the same
   (date, place) again after assigning ONLY the frame yields the pure answer of the new frame *)
Theorem C15_readers_show_last_answer : no_hidden_state C15_facts = true /\
  (forall (w : world) (st : state w), observe w C15_facts st = answer w st) /\
  (forall (w : world) (st : state w) p d fr',
     observe w C15_facts (fst (field w C15_facts st p (Some d))) = Some (pure w d p (sframe w st)) /\
     observe w C15_facts (fst (field w C15_facts (set_frame w (fst (field w C15_facts st p (Some d))) fr') p (Some d)))
       = Some (pure w d p fr')).
Proof.
  split; [exact fact_no_hidden_state|]. split; [intros w st; exact (dictionary_is_answer w st)|].
  intros w st p d fr'. exact (frame_switch w st p d fr').
Qed.
Print Assumptions C15_readers_show_last_answer.

(* ctor_eq_method.  Whenever the constructor computes, its answer equals the method's answer on any object of that frame for
   the date value the constructor hands on: the caller's date, or what the object re-reads from self.date / self.date_dec *)
Theorem C15_ctor_eq_method_partial : forall (w : world) d p fr (st : state w), ctor_guard w C15_facts p = true -> sframe w st = fr ->
  exists d', (d' = d \/ d' = w_cal w d \/ d' = w_dec w d) /\
             answer w (new w C15_facts (Some d) p fr) = Some (snd (field w C15_facts st p (Some d'))).
Proof. intros w d p fr st Hg Hf. exact (ctor_method_some w d p fr st Hg Hf). Qed.
Print Assumptions C15_ctor_eq_method_partial.

Theorem C15_ctor_eq_method : ctor_date C15_facts = PassGiven ->
  forall (w : world) d p fr (st : state w), ctor_guard w C15_facts p = true -> sframe w st = fr ->
  answer w (new w C15_facts (Some d) p fr) = Some (snd (field w C15_facts st p (Some d))).
Proof. intros E w d p fr st. exact (ctor_eq_method_conditional w d p fr st E). Qed.
Print Assumptions C15_ctor_eq_method.

(* no_special_zero.  The method has no branch that singles out latitude 0 or longitude 0: its answer is the pure function at
   EVERY place; the constructor computes away from 0 unconditionally, and everywhere if its regenerated guard allows *)
Theorem C15_no_special_zero_method : method_zero_branch C15_facts = false /\
  forall (w : world) (st : state w) p d, snd (field w C15_facts st p (Some d)) = pure w d p (sframe w st).
Proof. split; [exact fact_no_zero_branch|]. intros w st p d. exact (method_is_pure w st p d). Qed.
Print Assumptions C15_no_special_zero_method.

Theorem C15_no_special_zero_ctor_partial : forall (w : world) od p fr, w_lat0 w p = false -> w_lon0 w p = false ->
  answer w (new w C15_facts od p fr) = Some (pure w (ctor_eff w C15_facts od) p fr).
Proof. intros w od p fr A B. exact (ctor_computes_off_zero w od p fr A B). Qed.
Print Assumptions C15_no_special_zero_ctor_partial.

Theorem C15_no_special_zero_ctor :
  ctor_guard_00 C15_facts = true -> ctor_guard_0x C15_facts = true -> ctor_guard_x0 C15_facts = true ->
  forall (w : world) od p fr, answer w (new w C15_facts od p fr) = Some (pure w (ctor_eff w C15_facts od) p fr).
Proof. intros A B C w. exact (no_special_zero_conditional w A B C). Qed.
Print Assumptions C15_no_special_zero_ctor.

Open Scope R_scope.

(* derived_consistent.  For all reals: H, F, I, D follow from the stored X, Y, Z and GV from D by the grivation rule -- for the
   statements from self.H on (any stored X, Y, Z) and for the whole tail in both frames *)
Theorem C15_derived_consistent : forall x y z glat glon xp yp zp lp la,
  (exists H F Ic D GV, C15_derived_R x y z glat glon = Val [H; F; Ic; D; GV] /\
     H = sqrt (x * x + y * y) /\ F = sqrt (x * x + y * y + z * z) /\ Ic = 180 / PI * atan2 z H /\ D = 180 / PI * atan2 y x /\
     GV = (if Rlt_dec 55 glat then D - glon else if Rlt_dec glat (-55) then D + glon else D)) /\
  (exists l, C15_elements_NED_R xp yp zp lp la glat glon = Val l /\ consistent glat glon l) /\
  (exists l, C15_elements_ENU_R xp yp zp lp la glat glon = Val l /\ consistent glat glon l).
Proof.
  intros x y z glat glon xp yp zp lp la. split; [|split].
  - destruct (derived_spec x y z glat glon) as (H & F & Ic & D & GV & E & P). exists H, F, Ic, D, GV. split; [exact E|exact P].
  - destruct (elements_NED_spec xp yp zp lp la glat glon) as (l & E & P & _). exists l. split; [exact E|exact P].
  - destruct (elements_ENU_spec xp yp zp lp la glat glon) as (l & E & P & _). exists l. split; [exact E|exact P].
Qed.
Print Assumptions C15_derived_consistent.

(* enu_is_ned_swapped.  The ENU answer is the NED vector with north/east swapped and down negated; H and F are unchanged *)
Theorem C15_enu_is_ned_swapped : forall xp yp zp lp la glat glon x y z,
  (exists X Y Z H F Ic D GV H' F' Ic' D' GV',
     C15_elements_NED_R xp yp zp lp la glat glon = Val [X; Y; Z; H; F; Ic; D; GV] /\
     C15_elements_ENU_R xp yp zp lp la glat glon = Val [Y; X; - Z; H'; F'; Ic'; D'; GV'] /\ H' = H /\ F' = F) /\
  C15_frame_NED_R x y z = Val [x; y; z] /\ C15_frame_ENU_R x y z = Val [y; x; - z].
Proof. intros xp yp zp lp la glat glon x y z. split; [exact (enu_swaps_ned xp yp zp lp la glat glon)|exact (frame_swap x y z)]. Qed.
Print Assumptions C15_enu_is_ned_swapped.

(* observed, recorded: in the ENU frame the angles are computed from the swapped components, so the inclination is negated
   (the frame is part of the question, so this is not a violation of C15; a change of this behaviour breaks this theorem) *)
Theorem C15_enu_inclination_negated : forall xp yp zp lp la glat glon ln le,
  C15_elements_NED_R xp yp zp lp la glat glon = Val ln -> C15_elements_ENU_R xp yp zp lp la glat glon = Val le ->
  0 < nth 3 ln 0 -> nth 5 le 0 = - nth 5 ln 0.
Proof. intros xp yp zp lp la glat glon ln le. exact (enu_inclination_negated xp yp zp lp la glat glon ln le). Qed.
Print Assumptions C15_enu_inclination_negated.

(* lon_pm180_equal.  Longitude enters only through sin/cos(m*lon*pi/180); at +180 and -180 these are the same numbers *)
Theorem C15_lon_pm180_equal : forall lat h lon,
  C15_lon_harmonics_R lat 180 h = C15_lon_harmonics_R lat (-180) h /\
  C15_lon_harmonics_R lat lon h = Val [sin (lon * (PI / 180)); sin (2 * (lon * (PI / 180))); sin (3 * (lon * (PI / 180)));
                                      cos (lon * (PI / 180)); cos (2 * (lon * (PI / 180))); cos (3 * (lon * (PI / 180)))] /\
  C15_lon_harmonics_R lat 0 h = Val [0; 0; 0; 1; 1; 1].
Proof.
  intros lat h lon. split; [rewrite lon_harmonics_at_180, lon_harmonics_at_m180; reflexivity|].
  split; [exact (lon_harmonics_multiple_angle lat lon h)|exact (lon_harmonics_at_0 lat h)].
Qed.
Print Assumptions C15_lon_pm180_equal.

(* what makes history matter: the regenerated in-place scaling is place independent and multiplies g_2^0 by 3/2 on EVERY call *)
Theorem C15_scaling_not_idempotent : forall g10 g11 h11 g20 g21 h21 g22 h22 d20 phi phi',
  C15_scale_R g10 g11 h11 g20 g21 h21 g22 h22 d20 phi = C15_scale_R g10 g11 h11 g20 g21 h21 g22 h22 d20 phi' /\
  (exists a b c e f g h, C15_scale_R g10 g11 h11 g20 g21 h21 g22 h22 d20 phi = Val [a; b; c; 3 / 2 * g20; e; f; g; h; 3 / 2 * d20]) /\
  (g20 <> 0 -> scale20 (scale20 g20) <> scale20 g20).
Proof.
  intros. split; [exact (scale_place_independent g10 g11 h11 g20 g21 h21 g22 h22 d20 phi phi')|].
  split; [exact (scale_g20 g10 g11 h11 g20 g21 h21 g22 h22 d20 phi)|exact (scale_not_idempotent g20)].
Qed.
Print Assumptions C15_scaling_not_idempotent.
