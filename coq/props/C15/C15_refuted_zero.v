(* C15_refuted_zero.v — witness of the known finding "constructor/skips-zero-place": with the regenerated guard facts the
   constructor of the model computes nothing when the latitude (or the longitude) is 0.  Stops compiling once repaired. *)
From Coq Require Import List Bool.
From AhrsModel Require Import C15_wmm_object.
From AhrsGen Require Import C15facts.
From AhrsProps Require Import C15_object.
Import ListNotations.

Theorem C15_ctor_zero_refuted :
  (forall (w : world) od p fr, w_lat0 w p = true -> answer w (new w C15_facts od p fr) = None) /\
  (forall (w : world) od p fr, w_lon0 w p = true -> answer w (new w C15_facts od p fr) = None) /\
  answer xworld (new xworld C15_facts (Some 3) (0, true, false) true) = None /\
  answer xworld (new xworld C15_facts (Some 3) (0, false, false) true) <> None.
Proof.
  split; [|split; [|split]].
  - intros w od p fr H. apply ctor_skips. unfold ctor_guard. rewrite H. destruct (w_lon0 w p); reflexivity.
  - intros w od p fr H. apply ctor_skips. unfold ctor_guard. rewrite H. destruct (w_lat0 w p); reflexivity.
  - vm_compute. reflexivity.
  - vm_compute. discriminate.
Qed.
Print Assumptions C15_ctor_zero_refuted.
