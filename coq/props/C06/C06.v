(* C06.v — property C06: batch run equals sample-by-sample streaming; filters deterministic and isolated.
   Statements only.  F_<Filter> (AhrsGen.C06facts) are regenerated from /repo's source on every run. *)
From Coq Require Import String.
From Coq Require Import List Arith Bool.
From AhrsModel Require Import C06_scan.
From AhrsGen Require Import C06facts.
From AhrsProps Require Import C06_frame.
Import ListNotations.
Open Scope string_scope.

(* 1. The constructor loop  Q = zeros(N); Q[0] = q0; for t in 1..N-1: Q[t] = update(Q[t-1], data[t])  (an indexed array loop
      that reads back the row it wrote) returns q0 followed by what a caller obtains by feeding data[1..N-1] one sample at a
      time and passing each returned attitude back in; the instance ends in the same state.  For EVERY step function
      (any carried state Ht), every history. *)
Theorem C06_batch_eq_stream : forall (Qt It Ht : Type) (dq : Qt) (di : It) (step : Ht -> Qt -> It -> Qt * Ht)
  (h0 : Ht) (q0 : Qt) (d0 : It) (data : list It),
  batch dq di step h0 q0 (d0 :: data) = let '(l, hf) := stream step h0 q0 data in (q0 :: l, hf).
Proof. exact batch_eq_stream. Qed.
Print Assumptions C06_batch_eq_stream.

(* 2. What ties (1) to the code.  For every per-sample entry point of every recursive filter and architecture (and FLAE):
      the verified analysis, run on the effect programs regenerated from the class sources, finds that the method (with all
      the methods it calls) reads only attributes that __init__ sets from scalars/gains or the declared carried state, reads
      no attribute assigned from the constructor's gyr/acc/mag, rebinds only the carried state, and touches no global mutable
      state (np.random, module-level generators, mutable default arguments). *)
Theorem C06_frame_ok :
  forall f u, In (f, u)
    [ (F_Mahony, "updateIMU"); (F_Mahony, "updateMARG"); (F_EKF, "update"); (F_UKF, "update");
      (F_AQUA, "updateIMU"); (F_AQUA, "updateMARG"); (F_AQUA, "estimate");
      (F_Fourati, "update"); (F_ROLEQ, "update"); (F_AngularRate, "update"); (F_FLAE, "estimate") ] ->
  frame_ok f u = true /\
  (forall a, In (ARd a) (foot (fmethods f) FUEL (Call u)) -> ~ In a (fdata f)) /\
  (forall g, ~ In (AGl g) (foot (fmethods f) FUEL (Call u))).
Proof.
  intros f u H. pose proof (frame_each f u H) as E. split; [exact E|]. split.
  - intros a Ha. destruct (@frame_reads_no_data [] [] f u E a Ha) as [[]|N]; exact N.
  - exact (frame_no_global f u E).
Qed.
Print Assumptions C06_frame_ok.

(* 3. _compute_all of every recursive filter is made only of loops  Q[t] = self.update*(Q[t-1], self.data[t].., cfg..)  starting
      at t = 1 (or the memoryless form  Q[t] = self.estimate(self.data[t]..) ), calling a declared per-sample entry point. *)
Theorem C06_compute_all_is_the_loop :
  forall f, In f [F_Madgwick; F_Mahony; F_EKF; F_UKF; F_AQUA; F_Fourati; F_ROLEQ; F_AngularRate; F_OLEQ] -> loops_ok f = true.
Proof. intros f H. pose proof loops_all as A. rewrite forallb_forall in A. exact (A f H). Qed.
Print Assumptions C06_compute_all_is_the_loop.

(* 3b. Outside the calls of the per-sample entry points, _compute_all rebinds only constructor-data attributes (its copies of
       gyr/acc/mag), so the loop starts from the configuration and carried state that __init__ made. *)
Theorem C06_compute_all_keeps_configuration :
  forall f, In f [F_Madgwick; F_Mahony; F_EKF; F_UKF; F_AQUA; F_Fourati; F_ROLEQ; F_AngularRate; F_OLEQ] -> compute_all_ok f = true.
Proof. intros f H. pose proof compute_all_all as A. rewrite forallb_forall in A. exact (A f H). Qed.
Print Assumptions C06_compute_all_keeps_configuration.

(* 3c. The configuration part of __init__ of all ten classes (everything except the _compute_all run) touches no global mutable
       state: module-level objects that any function of their module mutates, rebinds or leaks un-copied, generators, mutable
       defaults.  (In-place updates of an argument array by an entry point are `arg:` atoms of its footprint and fail (2).) *)
Theorem C06_init_touches_no_global : forall f, In f all_filters -> init_ok f = true.
Proof. intros f H. pose proof init_all as A. rewrite forallb_forall in A. exact (A f H). Qed.
Print Assumptions C06_init_touches_no_global.

(* 3d. Consistent configuration pairs: in every class whose __init__ derives Dt from frequency (overridable by Dt=), no per-sample
       entry point reads `frequency`: the effective sampling step is the one attribute Dt. *)
Theorem C06_rate_configuration_single_source : forall f u, In (f, u)
  ((F_Madgwick, "updateIMU") :: (F_Madgwick, "updateMARG") :: framed_entry_points) -> pairs_ok f u = true.
Proof. intros f u H. pose proof pairs_all as A. rewrite forallb_forall in A. exact (A (f, u) H). Qed.
Print Assumptions C06_rate_configuration_single_source.

(* 3e. Constructing or running any of the ten classes reaches the NumPy global generator only on the recorded path: inside a branch
       of a test of `self.q0` (ROLEQ without q0) -- never when an initial attitude is supplied; OLEQ draws by nature (see 9). *)
Theorem C06_global_rng_only_on_recorded_path : forall f, In f all_filters -> rng_guarded f = true.
Proof. intros f H. pose proof rng_guarded_all as A. rewrite forallb_forall in A. exact (A f H). Qed.
Print Assumptions C06_global_rng_only_on_recorded_path.

(* 4. Non-interference, over the store semantics of the effect language with UNINTERPRETED value functions (mix, wr, gl, test,
      count): if the checker accepts entry point u of filter f (allowing the global state G and the extra attributes E) then,
      in two worlds that agree on instance i's configuration + carried state (+ E, G), the call returns the same value and the
      worlds still agree there; nothing outside carried state (+ G) is modified; FUEL levels of nesting lose nothing. *)
Theorem C06_frame_noninterference : forall (Val : Type) (mix : Val -> Val -> Val) (wr gl : string -> Val -> Val)
  (test : Val -> bool) (count : Val -> nat) (G E : list string) (f : filt) (u : string) (i : nat),
  frame_ok_gen G E f u = true ->
  (forall s s' x, agree (Fof G E f i) s s' ->
     fst (ustep mix wr gl test count f i u s x) = fst (ustep mix wr gl test count f i u s' x) /\
     agree (Fof G E f i) (snd (ustep mix wr gl test count f i u s x)) (snd (ustep mix wr gl test count f i u s' x))) /\
  (forall s x l, ~ Fof G E f i l -> snd (ustep mix wr gl test count f i u s x) l = s l) /\
  (forall s x, exec mix wr gl test count (fmethods f) i (S FUEL) (Call u) s x = exec mix wr gl test count (fmethods f) i FUEL (Call u) s x).
Proof.
  intros Val mix wr gl test count G E f u i H. split; [|split].
  - exact (@frame_reads Val mix wr gl test count G E f u i H).
  - exact (@frame_writes Val mix wr gl test count G E f u i H).
  - exact (@frame_untruncated Val mix wr gl test count G E f u i H).
Qed.
Print Assumptions C06_frame_noninterference.

(* 5. Batch = streaming for the code's entry points: the constructor's instance (world s: data attributes set) running the loop of
      (1) returns q0 followed by what a data-less instance (world s': same configuration and initial carried state, data
      attributes None, anything else different) returns when streamed from q0. *)
Theorem C06_batch_eq_stream_framed : forall (Val : Type) (mix : Val -> Val -> Val) (wr gl : string -> Val -> Val)
  (test : Val -> bool) (count : Val -> nat) (pair : Val -> Val -> Val) (dq di : Val)
  (G E : list string) (f : filt) (u : string) (i : nat),
  frame_ok_gen G E f u = true ->
  forall (data : list Val) (d0 : Val) (s s' : store loc Val) (q0 : Val), agree (Fof G E f i) s s' ->
    fst (batch dq di (ustep_step pair (ustep mix wr gl test count f i u)) s q0 (d0 :: data)) =
    q0 :: fst (stream (ustep_step pair (ustep mix wr gl test count f i u)) s' q0 data).
Proof.
  intros Val mix wr gl test count pair dq di G E f u i H data d0 s s' q0 Ha.
  exact (@batch_stream_framed loc Val pair (ustep mix wr gl test count f i u) (Fof G E f i) dq di
           (@frame_reads Val mix wr gl test count G E f u i H) data d0 s s' q0 Ha).
Qed.
Print Assumptions C06_batch_eq_stream_framed.

(* 6. Determinism: a run (any number of calls, any inputs) is a function of the inputs and of the instance's configuration +
      carried state (+ the allowed global state G, i.e. the NumPy seed for OLEQ): repeating it in a world that differs anywhere
      else gives the same outputs. *)
Theorem C06_deterministic : forall (Val : Type) (mix : Val -> Val -> Val) (wr gl : string -> Val -> Val)
  (test : Val -> bool) (count : Val -> nat) (G E : list string) (f : filt) (u : string) (i : nat),
  frame_ok_gen G E f u = true ->
  forall (xs : list Val) (s s' : store loc Val), agree (Fof G E f i) s s' ->
    fst (run (ustep mix wr gl test count f i u) s xs) = fst (run (ustep mix wr gl test count f i u) s' xs).
Proof.
  intros Val mix wr gl test count G E f u i H xs s s' Ha.
  exact (proj1 (deterministic (@frame_reads Val mix wr gl test count G E f u i H) xs Ha)).
Qed.
Print Assumptions C06_deterministic.

(* 7. Isolation: two instances i <> j (of the same or of different filters) whose entry points pass frame_ok, driven in ANY
      interleaving from one shared world: what each returns is what it returns when run alone on its own calls. *)
Theorem C06_interleave_isolated : forall (Val : Type) (mix : Val -> Val -> Val) (wr gl : string -> Val -> Val)
  (test : Val -> bool) (count : Val -> nat) (f g : filt) (u w : string) (i j : nat),
  frame_ok f u = true -> frame_ok g w = true -> i <> j ->
  forall (evs : list (Val + Val)) (s : store loc Val),
    projL (fst (run2 (ustep mix wr gl test count f i u) (ustep mix wr gl test count g j w) s evs)) =
      fst (run (ustep mix wr gl test count f i u) s (projL evs)) /\
    projR (fst (run2 (ustep mix wr gl test count f i u) (ustep mix wr gl test count g j w) s evs)) =
      fst (run (ustep mix wr gl test count g j w) s (projR evs)).
Proof.
  intros Val mix wr gl test count f g u w i j Hf Hg Hij evs s.
  assert (D : forall l, Fof [] [] f i l -> Fof [] [] g j l -> False) by (intros l; exact (@Fof_disjoint f g i j l Hij)).
  split.
  - exact (proj1 (interleave_isolated_A D (@frame_reads Val mix wr gl test count [] [] f u i Hf)
                    (@frame_writes Val mix wr gl test count [] [] g w j Hg) evs (agree_refl _ s))).
  - exact (proj1 (interleave_isolated_B D (@frame_reads Val mix wr gl test count [] [] g w j Hg)
                    (@frame_writes Val mix wr gl test count [] [] f u i Hf) evs (agree_refl _ s))).
Qed.
Print Assumptions C06_interleave_isolated.

(* 8. PARTIAL (known finding Madgwick/stream-uses-gain_imu): Madgwick's entry points pass the checker once the attribute `gain`
      is allowed; so (4)-(6) hold for Madgwick between worlds that ALSO agree on `gain` (e.g. an explicit gain=/beta= given to
      both constructors).  The refutation of the unrestricted statement is C06_refuted.v. *)
Theorem C06_madgwick_frame_partial :
  frame_ok_gen [] ["gain"] F_Madgwick "updateIMU" = true /\ frame_ok_gen [] ["gain"] F_Madgwick "updateMARG" = true.
Proof. exact frame_Madgwick_mod_gain. Qed.
Print Assumptions C06_madgwick_frame_partial.

(* 9. OLEQ (single-frame; determinism and isolation clauses): the property names the NumPy global seed as an input of the
      estimator that draws a random start vector; with that one global allowed, the frame holds. *)
Theorem C06_oleq_frame_seeded : frame_ok_gen ["np.random"] [] F_OLEQ "estimate" = true.
Proof. exact frame_OLEQ_seeded. Qed.
Print Assumptions C06_oleq_frame_seeded.
