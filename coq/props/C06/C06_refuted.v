(* C06_refuted.v — witness, inside the regenerated facts, of the known finding "Madgwick/stream-gain-from-constructor-data".
   Compiled separately: if the defect is repaired this file stops compiling and the check says so. *)
From Coq Require Import String.
From Coq Require Import List Bool.
From AhrsModel Require Import C06_scan.
From AhrsGen Require Import C06facts.
Import ListNotations.
Open Scope string_scope.

(* Madgwick.updateIMU / updateMARG read self.gain, and __init__ (via _set_gain) chooses self.gain by testing whether the
   constructor received a magnetometer array: the per-sample entry point depends on constructor data *)
Theorem C06_madgwick_frame_refuted :
  frame_ok F_Madgwick "updateMARG" = false /\ frame_ok F_Madgwick "updateIMU" = false /\
  In (ARd "gain") (foot (fmethods F_Madgwick) FUEL (Call "updateMARG")) /\ In "gain" (fdata F_Madgwick) /\
  In (SAttr "mag") (match find (fun d => if string_dec (fst d) "gain" then true else false) (finit F_Madgwick) with
                    | Some d => snd d | None => [] end).
Proof.
  split; [vm_compute; reflexivity|]. split; [vm_compute; reflexivity|].
  split; [vm_compute; tauto|]. split; [apply mem_In; vm_compute; reflexivity|]. vm_compute. tauto.
Qed.
Print Assumptions C06_madgwick_frame_refuted.
