(* C06_frame.v — lemmas of property C06: framed streaming, and the checker run on the REGENERATED facts
   (AhrsGen.C06facts is rewritten from /repo's source by tools/pyfx_c06 at the start of every run). *)
From Coq Require Import String.
From Coq Require Import List Arith Bool Lia.
From AhrsModel Require Import C06_scan.
From AhrsGen Require Import C06facts.
Import ListNotations.
Open Scope string_scope.

(* ---------- streaming from two worlds that agree on the footprint ---------- *)
Section Framed.
  Variables (Loc Val : Type) (pair : Val -> Val -> Val).
  Variable f : mstep Loc Val Val Val.
  (* the per-sample entry point as the `step` of the scan: the instance is the store, q comes back from the caller *)
  Definition ustep_step : store Loc Val -> Val -> Val -> Val * store Loc Val := fun h q x => f h (pair q x).

  Lemma stream_agree (F : Loc -> Prop) : reads_only F f -> forall xs s s' q, agree F s s' ->
    fst (stream ustep_step s q xs) = fst (stream ustep_step s' q xs) /\
    agree F (snd (stream ustep_step s q xs)) (snd (stream ustep_step s' q xs)).
  Proof.
    intros Hr. induction xs as [|x xs IH]; intros s s' q Ha; simpl.
    - split; [reflexivity|exact Ha].
    - unfold ustep_step at 1 3 5 7. destruct (Hr s s' (pair q x) Ha) as [Ho Hs].
      destruct (f s (pair q x)) as [q1 s1]; destruct (f s' (pair q x)) as [q1' s1']. simpl in Ho, Hs. subst q1'.
      destruct (IH s1 s1' q1 Hs) as [Hl Hf].
      destruct (stream ustep_step s1 q1 xs) as [l sf]; destruct (stream ustep_step s1' q1 xs) as [l' sf']. simpl in *.
      subst l'. split; auto.
  Qed.

  Lemma batch_stream_framed (F : Loc -> Prop) (dq di : Val) : reads_only F f -> forall data d0 s s' q0, agree F s s' ->
    fst (batch dq di ustep_step s q0 (d0 :: data)) = q0 :: fst (stream ustep_step s' q0 data).
  Proof.
    intros Hr data d0 s s' q0 Ha. rewrite batch_eq_stream.
    destruct (stream_agree F Hr data s s' q0 Ha) as [Hl _].
    destruct (stream ustep_step s q0 data) as [l hf]. simpl in *. rewrite Hl. reflexivity.
  Qed.
End Framed.
Arguments ustep_step {Loc Val} pair f.

(* ---------- the checker on the regenerated facts ---------- *)
(* per-sample entry points whose frame must hold outright: every recursive filter and architecture,
   plus FLAE for the isolation clause.  (Madgwick: see C06_refuted.v and the _partial statement; OLEQ: the NumPy
   seed is an explicit input of the property, see frame_OLEQ_seeded.) *)
Definition framed_entry_points : list (filt * string) :=
  [ (F_Mahony, "updateIMU"); (F_Mahony, "updateMARG");
    (F_EKF, "update"); (F_UKF, "update");
    (F_AQUA, "updateIMU"); (F_AQUA, "updateMARG"); (F_AQUA, "estimate");
    (F_Fourati, "update"); (F_ROLEQ, "update"); (F_AngularRate, "update");
    (F_FLAE, "estimate") ].

Lemma frame_all : forallb (fun fu => frame_ok (fst fu) (snd fu)) framed_entry_points = true.
Proof. vm_compute. reflexivity. Qed.

Lemma frame_each : forall f u, In (f, u) framed_entry_points -> frame_ok f u = true.
Proof. intros f u H. pose proof frame_all as A. rewrite forallb_forall in A. exact (A (f, u) H). Qed.

(* Madgwick: everything but the attribute `gain` (chosen in __init__ by looking at the constructor's mag) *)
Lemma frame_Madgwick_mod_gain :
  frame_ok_gen [] ["gain"] F_Madgwick "updateIMU" = true /\ frame_ok_gen [] ["gain"] F_Madgwick "updateMARG" = true.
Proof. split; vm_compute; reflexivity. Qed.

(* OLEQ (single-frame, isolation clause only): the only global it touches is the NumPy global generator *)
Lemma frame_OLEQ_seeded : frame_ok_gen ["np.random"] [] F_OLEQ "estimate" = true.
Proof. vm_compute. reflexivity. Qed.

(* _compute_all of every recursive filter consists of loops  Q[t] = self.update*(Q[t-1], self.data[t], cfg...)  only *)
Definition looped_filters : list filt :=
  [F_Madgwick; F_Mahony; F_EKF; F_UKF; F_AQUA; F_Fourati; F_ROLEQ; F_AngularRate; F_OLEQ].
Lemma loops_all : forallb loops_ok looped_filters = true.
Proof. vm_compute. reflexivity. Qed.

(* non-vacuity of the regenerated facts: the analysis sees the carried state, the constructor data and the RNG *)
Definition rd_names (ft : list access) : list string := flat_map (fun a => match a with ARd x => [x] | _ => [] end) ft.
Definition wr_names (ft : list access) : list string := flat_map (fun a => match a with AWr x => [x] | _ => [] end) ft.
Definition gl_names (ft : list access) : list string := flat_map (fun a => match a with AGl x => [x] | _ => [] end) ft.
Example facts_nonvacuous :
  mem "b" (rd_names (foot (fmethods F_Mahony) FUEL (Call "updateIMU"))) = true /\
  mem "b" (wr_names (foot (fmethods F_Mahony) FUEL (Call "updateIMU"))) = true /\
  mem "P" (wr_names (foot (fmethods F_EKF) FUEL (Call "update"))) = true /\
  mem "m_ref" (rd_names (foot (fmethods F_EKF) FUEL (Call "update"))) = true /\
  mem "mag" (fdata F_EKF) = true /\ mem "acc" (fdata F_Mahony) = true /\ mem "Dt" (fdata F_EKF) = false /\
  mem "k_P" (fcfg F_Mahony) = true.
Proof. vm_compute. repeat split. Qed.

(* outside the update calls, _compute_all rebinds nothing but the constructor-data attributes (its private copies of gyr/acc/mag):
   the configuration and the carried state the loop starts from are the ones __init__ made *)
Definition compute_all_ok (f : filt) : bool :=
  let D := fdata f in
  forallb (fun a => match a with AWr x => mem x D | _ => true end)
          (foot (filter (fun kv => negb (mem (fst kv) (fupdates f))) (fmethods f)) FUEL (Call "_compute_all")).
Lemma compute_all_all : forallb compute_all_ok looped_filters = true.
Proof. vm_compute. reflexivity. Qed.

(* the configuration part of __init__ (everything but the _compute_all run) touches no global mutable state: no module-level
   cache/list/dict that some function mutates or leaks, no generator, no mutable default -- so what one instance is configured
   with cannot depend on which instances were created before it *)
Definition init_ok (f : filt) : bool :=
  forallb (fun a => match a with AGl _ => false | _ => true end)
          (foot (filter (fun kv => negb (String.eqb (fst kv) "_compute_all")) (fmethods f)) FUEL (Call "__init__")).
Lemma init_all : forallb init_ok all_filters = true.
Proof. vm_compute. reflexivity. Qed.

(* configuration pairs that must stay consistent: when __init__ derives `Dt` from `frequency` (and lets a keyword override it), the
   effective step is `Dt`; a per-sample entry point that reads the base attribute `frequency` would ignore an explicit Dt= *)
Definition config_pairs : list (string * string) := [("Dt", "frequency")].
Definition derived_from (f : filt) (y x : string) : bool :=
  existsb (fun d => (if string_dec (fst d) y then true else false) &&
                    existsb (fun s => match s with SAttr a => if string_dec a x then true else false | _ => false end) (snd d)) (finit f).
Definition pairs_ok (f : filt) (u : string) : bool :=
  let R := rd_names (foot (fmethods f) FUEL (Call u)) in
  forallb (fun p => negb (derived_from f (fst p) (snd p)) || negb (mem (snd p) R)) config_pairs.
Lemma pairs_all : forallb (fun fu => pairs_ok (fst fu) (snd fu))
  ((F_Madgwick, "updateIMU") :: (F_Madgwick, "updateMARG") :: framed_entry_points) = true.
Proof. vm_compute. reflexivity. Qed.

(* the whole of __init__ (configuration part AND the _compute_all run, to any depth) draws from the NumPy global generator only where
   the class is a recorded user of it: under a test of `self.q0` (ROLEQ's first row when no q0 is given).  A draw on any other path is
   the atom "np.random:unguarded" (OLEQ, whose estimator draws by nature, is extracted without a licensing attribute). *)
Definition rng_guarded (f : filt) : bool :=
  negb (mem "np.random:unguarded" (gl_names (foot (fmethods f) FUEL (Call "__init__")))) &&
  forallb (fun u => negb (mem "np.random:unguarded" (gl_names (foot (fmethods f) FUEL (Call u))))) (fupdates f).
Lemma rng_guarded_all : forallb rng_guarded all_filters = true.
Proof. vm_compute. reflexivity. Qed.

(* a concrete machine: the batch loop really runs and returns the streamed rows *)
Example batch_runs :
  fst (batch 0 0 (fun (h q x : nat) => (q + x + h, S h)) 5 100 [7; 1; 2; 3]) = [100; 106; 114; 124].
Proof. vm_compute. reflexivity. Qed.

(* why the footprints must be disjoint (and why the NumPy seed is an INPUT for OLEQ): a hand-written estimator that draws from a
   global generator, interpreted over nat.  An instance's answer changes when another instance draws first. *)
Definition toy_tbl : table := [("estimate", Seq (Glob "np.random") (Rd "a"))].
Definition toy_step (i : nat) : mstep loc nat nat nat :=
  mcall Nat.add (fun _ v => v) (fun _ v => S v) (fun _ => true) (fun _ => 0) toy_tbl i FUEL "estimate".
Example shared_global_breaks_isolation :
  projL (fst (run2 (toy_step 0) (toy_step 1) (fun _ => 0) [inr 5; inl 7])) <> fst (run (toy_step 0) (fun _ => 0) (projL [inr 5; inl 7])).
Proof. vm_compute. discriminate. Qed.
