(* C13_eq.v — "null magnetometer, the step IS the IMU step": updateMARG(q, gyr, acc, mag = 0, dt) and the specification
   target  [q^ = Quaternion(q); gyr null -> q^; otherwise updateIMU(q^, gyr, acc, dt)]  are regenerated separately from the
   same symbols and are the same function — for ALL reals, every path, every output (quaternion, Mahony's bias, the gains).
   The two generated bodies are identical node for node, so the proof is eq_refl; `exact_no_check` only skips the tactic-time
   conversion, the kernel checks the term once at Qed (a changed fallback makes that check fail). *)
From Coq Require Import Reals List.
From AhrsLib Require Import Base.
From AhrsGen Require Import C13gen_R.
Import ListNotations.
Open Scope R_scope.

Lemma mad_m0_eq : C13_mad_m0_R = C13_mad_m0_spec_R.
Proof. exact_no_check (@eq_refl _ C13_mad_m0_R). Qed.
Lemma mah_m0_eq : C13_mah_m0_R = C13_mah_m0_spec_R.
Proof. exact_no_check (@eq_refl _ C13_mah_m0_R). Qed.
