(* C13.v — property C13: a dropped-out sensor sample never corrupts a recursive filter.  Statements only.
   Vocabulary (C13_lib.v): sq4 a b c d = a²+b²+c²+d²; unit4 l: l is a 4-list of unit norm;
   dr w x y z g0 g1 g2 h = (q + h/2 q(x)(0,g)) / ||.||  (dead reckoning);  drL: the same with (0,-g)(x)q (AQUA's convention);
   norm_leaf P o: o is ValueError, or Val (p ++ P) with p a unit quaternion or p = 0;  run: the driver over a history. *)
From Coq Require Import Reals List Lra.
From AhrsLib Require Import Base.
From AhrsGen Require Import C13gen_R.
From AhrsProps Require Import C13_lib C13_mm C13_mah C13_rest C13_drv C13_comp C13_eq C13_rec.
Import ListNotations.
Open Scope R_scope.

(* the mathematical core: the dead-reckoned quaternion is unit for EVERY unit q, EVERY gyro sample and EVERY step length;
   the norm it is divided by is >= 1, so no division by zero is reachable on the dropout path *)
Theorem C13_dead_reckoning_unit : forall w x y z g0 g1 g2 h, sq4 w x y z = 1 ->
  unit4 (dr w x y z g0 g1 g2 h) /\ unit4 (drL w x y z g0 g1 g2 h) /\ 1 <= drn w x y z g0 g1 g2 h /\ 1 <= drLn w x y z g0 g1 g2 h.
Proof.
  intros w x y z g0 g1 g2 h H. split; [exact (dr_unit _ _ _ _ _ _ _ _ H)|]. split; [exact (drL_unit _ _ _ _ _ _ _ _ H)|].
  split; [exact (drn_ge1 _ _ _ _ _ _ _ _ H)|exact (drLn_ge1 _ _ _ _ _ _ _ _ H)].
Qed.
Print Assumptions C13_dead_reckoning_unit.

(* dropout_step_safe, Madgwick(gain=0.4): null acc (IMU; MARG with any / null mag): never an exception, output =
   the dead-reckoned q at the caller's dt (a null magnetometer delegates to updateIMU with that dt), and the filter's gains
   (gain, gain_imu, gain_marg) read back after the call are the configured ones: a dropout does not change the configuration *)
Theorem C13_dropout_step_safe_madgwick : forall w x y z g0 g1 g2 m0 m1 m2 dt, sq4 w x y z = 1 ->
  C13_mad_imu_a0_R w x y z g0 g1 g2 dt = Val (dr w x y z g0 g1 g2 dt ++ [2/5; 33/1000; 41/1000]) /\
  C13_mad_marg_a0_R w x y z g0 g1 g2 m0 m1 m2 dt = Val (dr w x y z g0 g1 g2 dt ++ [2/5; 33/1000; 41/1000]) /\
  C13_mad_marg_am0_R w x y z g0 g1 g2 dt = Val (dr w x y z g0 g1 g2 dt ++ [2/5; 33/1000; 41/1000]).
Proof.
  intros w x y z g0 g1 g2 m0 m1 m2 dt H. split; [exact (mad_imu_a0 _ _ _ _ _ _ _ _ H)|].
  split; [exact (mad_marg_a0 _ _ _ _ _ _ _ _ _ _ _ H)|exact (mad_marg_am0 _ _ _ _ _ _ _ _ H)].
Qed.
Print Assumptions C13_dropout_step_safe_madgwick.

(* Mahony(k_P=3, k_I=0.05): the same; the carried gyro bias (b0,b1,b2) and the gains k_P, k_I come back unchanged *)
Theorem C13_dropout_step_safe_mahony : forall w x y z g0 g1 g2 m0 m1 m2 b0 b1 b2 dt, sq4 w x y z = 1 ->
  C13_mah_imu_a0_R w x y z g0 g1 g2 b0 b1 b2 dt = Val (dr w x y z g0 g1 g2 dt ++ [b0;b1;b2; 3; 1/20]) /\
  C13_mah_marg_a0_R w x y z g0 g1 g2 m0 m1 m2 b0 b1 b2 dt = Val (dr w x y z g0 g1 g2 dt ++ [b0;b1;b2; 3; 1/20]) /\
  C13_mah_marg_am0_R w x y z g0 g1 g2 b0 b1 b2 dt = Val (dr w x y z g0 g1 g2 dt ++ [b0;b1;b2; 3; 1/20]).
Proof.
  intros w x y z g0 g1 g2 m0 m1 m2 b0 b1 b2 dt H. split; [exact (mah_imu_a0 _ _ _ _ _ _ _ _ _ _ _ H)|].
  split; [exact (mah_marg_a0 _ _ _ _ _ _ _ _ _ _ _ _ _ _ H)|exact (mah_marg_am0 _ _ _ _ _ _ _ _ _ _ _ H)].
Qed.
Print Assumptions C13_dropout_step_safe_mahony.

(* AQUA: q itself when the gyroscope is null too, otherwise the normalised prediction; the Quaternion constructor's
   ValueError is unreachable *)
Theorem C13_dropout_step_safe_aqua : forall w x y z g0 g1 g2 m0 m1 m2 dt, sq4 w x y z = 1 ->
  ((g0 = 0 /\ g1 = 0 /\ g2 = 0 /\ C13_aqua_imu_a0_R w x y z g0 g1 g2 dt = Val [w;x;y;z]) \/
   C13_aqua_imu_a0_R w x y z g0 g1 g2 dt = Val (drL w x y z g0 g1 g2 dt)) /\
  ((g0 = 0 /\ g1 = 0 /\ g2 = 0 /\ C13_aqua_marg_a0_R w x y z g0 g1 g2 m0 m1 m2 dt = Val [w;x;y;z]) \/
   C13_aqua_marg_a0_R w x y z g0 g1 g2 m0 m1 m2 dt = Val (drL w x y z g0 g1 g2 dt)) /\
  ((g0 = 0 /\ g1 = 0 /\ g2 = 0 /\ C13_aqua_marg_am0_R w x y z g0 g1 g2 dt = Val [w;x;y;z]) \/
   C13_aqua_marg_am0_R w x y z g0 g1 g2 dt = Val (drL w x y z g0 g1 g2 dt)).
Proof.
  intros w x y z g0 g1 g2 m0 m1 m2 dt H. split; [exact (aqua_imu_a0 _ _ _ _ _ _ _ _ H)|].
  split; [exact (aqua_marg_a0 _ _ _ _ _ _ _ _ _ _ _ H)|exact (aqua_marg_am0 _ _ _ _ _ _ _ _ H)].
Qed.
Print Assumptions C13_dropout_step_safe_aqua.

(* Fourati refuses a null acc or mag sample (ValueError) — for ALL q, gyr, dt; with a null gyroscope it returns q *)
Theorem C13_dropout_step_safe_fourati : forall w x y z g0 g1 g2 s0 s1 s2 dt,
  (C13_fou_a0_R w x y z g0 g1 g2 s0 s1 s2 dt = Raise ValueError \/
   (g0 = 0 /\ g1 = 0 /\ g2 = 0 /\ C13_fou_a0_R w x y z g0 g1 g2 s0 s1 s2 dt = Val [w;x;y;z])) /\
  (C13_fou_m0_R w x y z g0 g1 g2 s0 s1 s2 dt = Raise ValueError \/
   (g0 = 0 /\ g1 = 0 /\ g2 = 0 /\ C13_fou_m0_R w x y z g0 g1 g2 s0 s1 s2 dt = Val [w;x;y;z])).
Proof. intros. split; [exact (fou_a0 _ _ _ _ _ _ _ _ _ _ _)|exact (fou_m0 _ _ _ _ _ _ _ _ _ _ _)]. Qed.
Print Assumptions C13_dropout_step_safe_fourati.

(* ROLEQ: the gyro-propagated quaternion whichever sensor is null — for all q (unit by C13_dead_reckoning_unit) — and
   the weights read back unchanged; also with a zero weight on the sensor that dropped out (weights [1,0] / [0,1]) *)
Theorem C13_dropout_step_safe_roleq : forall w x y z g0 g1 g2 s0 s1 s2 dt,
  C13_rol_a0_R w x y z g0 g1 g2 s0 s1 s2 dt = Val (dr w x y z g0 g1 g2 dt ++ [1;1]) /\
  C13_rol_m0_R w x y z g0 g1 g2 s0 s1 s2 dt = Val (dr w x y z g0 g1 g2 dt ++ [1;1]) /\
  C13_rol_am0_R w x y z g0 g1 g2 dt = Val (dr w x y z g0 g1 g2 dt ++ [1;1]) /\
  C13_rol_m0_w10_R w x y z g0 g1 g2 s0 s1 s2 dt = Val (dr w x y z g0 g1 g2 dt ++ [1;0]) /\
  C13_rol_a0_w01_R w x y z g0 g1 g2 s0 s1 s2 dt = Val (dr w x y z g0 g1 g2 dt ++ [0;1]).
Proof.
  intros. split; [exact (rol_a0 _ _ _ _ _ _ _ _ _ _ _)|]. split; [exact (rol_m0 _ _ _ _ _ _ _ _ _ _ _)|].
  split; [exact (rol_am0 _ _ _ _ _ _ _ _)|]. split; [exact (rol_m0_w10 _ _ _ _ _ _ _ _ _ _ _)|exact (rol_a0_w01 _ _ _ _ _ _ _ _ _ _ _)].
Qed.
Print Assumptions C13_dropout_step_safe_roleq.

(* EKF: null acc returns the prior with the covariance untouched (identity at construction); null mag with a valid acc is
   refused; no path of these targets reaches the Kalman correction (LAPACK): every leaf is q itself or ValueError *)
Theorem C13_dropout_step_safe_ekf : forall w x y z g0 g1 g2 s0 s1 s2 dt, sq4 w x y z = 1 ->
  C13_ekf_a0_R w x y z g0 g1 g2 dt = Val ([w;x;y;z] ++ P_ekf0) /\
  C13_ekf_a0_mag_R w x y z g0 g1 g2 s0 s1 s2 dt = Val ([w;x;y;z] ++ P_ekf0) /\
  (C13_ekf_m0_R w x y z g0 g1 g2 s0 s1 s2 dt = Raise ValueError \/
   (s0 = 0 /\ s1 = 0 /\ s2 = 0 /\ C13_ekf_m0_R w x y z g0 g1 g2 s0 s1 s2 dt = Val [w;x;y;z])).
Proof.
  intros w x y z g0 g1 g2 s0 s1 s2 dt H. split; [exact (ekf_a0 _ _ _ _ _ _ _ _ H)|].
  split; [exact (ekf_a0_mag _ _ _ _ _ _ _ _ _ _ _ H)|exact (ekf_m0 _ _ _ _ _ _ _ _ _ _ _ H)].
Qed.
Print Assumptions C13_dropout_step_safe_ekf.

(* UKF (needs fix C13-ukf-acc-guard): null acc returns the prior, covariance untouched — for all q, gyr, dt.
   FKF's measurement step (needs fix C13-fkf-dropout) refuses a null acc or mag sample. *)
Theorem C13_dropout_step_safe_ukf_fkf : forall w x y z g0 g1 g2 s0 s1 s2 dt,
  C13_ukf_a0_R w x y z g0 g1 g2 dt = Val ([w;x;y;z] ++ P_ukf0) /\
  C13_fkf_meas_a0_R w x y z s0 s1 s2 = Raise ValueError /\ C13_fkf_meas_m0_R w x y z s0 s1 s2 = Raise ValueError.
Proof. intros. split; [exact (ukf_a0 _ _ _ _ _ _ _ _)|]. split; [exact (fkf_meas_a0 _ _ _ _ _ _ _)|exact (fkf_meas_m0 _ _ _ _ _ _ _)]. Qed.
Print Assumptions C13_dropout_step_safe_ukf_fkf.

(* FKF driver on two rows, acc[1] = 0 (needs fix C13-fkf-dropout): Q[1] is the re-normalised gyro propagation of Q[0]
   (unit, or zero if Q[0] was zero), the covariance keeps its initial value, the only possible exception is ValueError.
   The twin statement for mag[1] = 0 (target C13_fkf_m0) is C13_dropout_step_safe_fkf_mag in C13_t_fkf.v, compiled in the
   thorough tier only (the kernel needs about a minute for it). *)
Theorem C13_dropout_step_safe_fkf_partial : forall h0 h1 h2 g0 g1 g2 a0 a1 a2 n0 n1 n2 m0 m1 m2,
  norm_leaf P_fkf0 (C13_fkf_a0_R h0 h1 h2 g0 g1 g2 a0 a1 a2 n0 n1 n2 m0 m1 m2).
Proof. exact fkf_a0. Qed.
Print Assumptions C13_dropout_step_safe_fkf_partial.

(* Complementary(…, w0=…, Dt=0.02) driver (Dt given, frequency at its default 100) on two rows, acc[1] = 0 (needs fix C13-complementary-dropout): the angles are the
   gyro-integrated previous angles (no blend with a 0/0 tilt), the quaternion is unit.
   MARG architecture: all three angles, yaw included, are the gyro-integrated previous ones (or ValueError for a null mag),
   and the quaternion built from them is unit. *)
Theorem C13_dropout_step_safe_complementary : forall r0 p0 y0 h0 h1 h2 g0 g1 g2 a0 a1 a2 n0 n1 n2 m0 m1 m2,
  comp_leaf (r0 + g0 * (1/50)) (p0 + g1 * (1/50)) (C13_comp_imu_a0_R r0 p0 y0 h0 h1 h2 g0 g1 g2 a0 a1 a2) /\
  comp3_leaf (r0 + g0 * (1/50)) (p0 + g1 * (1/50)) (y0 + g2 * (1/50))
    (C13_comp_marg_a0_R r0 p0 y0 h0 h1 h2 g0 g1 g2 a0 a1 a2 n0 n1 n2 m0 m1 m2) /\
  comp7_leaf (C13_comp_marg_a0_R r0 p0 y0 h0 h1 h2 g0 g1 g2 a0 a1 a2 n0 n1 n2 m0 m1 m2).
Proof.
  intros. split; [exact (comp_imu_a0 _ _ _ _ _ _ _ _ _ _ _ _)|].
  split; [exact (comp_marg_a0 _ _ _ _ _ _ _ _ _ _ _ _ _ _ _ _ _ _)|exact (comp_marg_a0_unit _ _ _ _ _ _ _ _ _ _ _ _ _ _ _ _ _ _)].
Qed.
Print Assumptions C13_dropout_step_safe_complementary.

(* dropout_history_safe: a driver `run` that threads ANY step through ANY history: if the step keeps the invariant `ok`
   (unit quaternion, finite carried state) or refuses, both on valid samples (property C03's invariant — a premise) and on
   dropout samples (the theorems above), then for every history and every set of dropout positions every emitted state
   satisfies `ok`, and the run emits one state per sample unless it was stopped by a refusal. *)
Theorem C13_dropout_history_safe : forall (St Sample : Type) (step : St -> Sample -> option St) (ok : St -> Prop)
    (dropout : Sample -> bool),
  (forall s u, ok s -> dropout u = false -> match step s u with Some s' => ok s' | None => True end) ->
  (forall s u, ok s -> dropout u = true -> match step s u with Some s' => ok s' | None => True end) ->
  forall us s, ok s ->
    Forall ok (fst (run St Sample step s us)) /\
    (snd (run St Sample step s us) = false -> length (fst (run St Sample step s us)) = length us).
Proof. intros St Sample step ok dropout Hv Hd us s H. exact (history_safe St Sample step ok dropout Hv Hd us s H). Qed.
Print Assumptions C13_dropout_history_safe.

(* instance: a gyro/accelerometer stream through ROLEQ-style dead reckoning on every dropout sample; on valid samples
   the step is an arbitrary function assumed to satisfy C03's invariant *)
Definition qstate := list R.
Definition dr_step (valid_step : qstate -> list R -> option qstate) (s : qstate) (u : list R) : option qstate :=
  match u with
  | [g0;g1;g2;a0;a1;a2] =>
      if Req_EM_T 0 (sqrt (a0*a0 + a1*a1 + a2*a2)) then
        match s with [w;x;y;z] => Some (dr w x y z g0 g1 g2 (1/100)) | _ => None end
      else valid_step s u
  | _ => None
  end.
Theorem C13_dropout_history_safe_instance : forall valid_step,
  (forall s u, unit4 s -> match valid_step s u with Some s' => unit4 s' | None => True end) ->
  forall us s, unit4 s -> Forall unit4 (fst (run qstate (list R) (dr_step valid_step) s us)).
Proof.
  intros vs Hvs us s H.
  apply (history_safe qstate (list R) (dr_step vs) unit4 (fun _ => true)); [intros ? ? ? E; discriminate| |exact H].
  intros s0 u H0 _. unfold dr_step. destruct u as [|g0 [|g1 [|g2 [|a0 [|a1 [|a2 [|? ?]]]]]]]; try exact I.
  destruct (Req_EM_T 0 (sqrt (a0*a0 + a1*a1 + a2*a2))); [|apply Hvs; exact H0].
  destruct s0 as [|w [|x [|y [|z [|? ?]]]]]; try exact I. apply dr_unit. exact H0.
Qed.
Print Assumptions C13_dropout_history_safe_instance.

(* null magnetometer, valid or null accelerometer: updateMARG IS the IMU step on the normalised quaternion, with the caller's
   dt — equality of two separately regenerated functions, for ALL reals, every path and every output (quaternion, Madgwick's
   gains, Mahony's bias and gains).  The specification targets are  q^ = Quaternion(q); gyr null -> q^; else
   updateIMU(q^, gyr, acc, dt)  (Mahony: updateIMU(q, ...) when acc is null too, where updateMARG never reaches the magnetometer
   test).  AQUA's version (twin target; updateMARG may additionally refuse a zero product) is
   C13_null_mag_is_imu_step_aqua in C13_t_aqua.v, thorough tier only. *)
Theorem C13_null_mag_is_imu_step : forall w x y z g0 g1 g2 a0 a1 a2 b0 b1 b2 dt,
  C13_mad_m0_R w x y z g0 g1 g2 a0 a1 a2 dt = C13_mad_m0_spec_R w x y z g0 g1 g2 a0 a1 a2 dt /\
  C13_mah_m0_R w x y z g0 g1 g2 a0 a1 a2 b0 b1 b2 dt = C13_mah_m0_spec_R w x y z g0 g1 g2 a0 a1 a2 b0 b1 b2 dt.
Proof. intros. rewrite mad_m0_eq, mah_m0_eq. split; reflexivity. Qed.
Print Assumptions C13_null_mag_is_imu_step.

(* DURING an outage: for ANY driver whose dropout step is its dead reckoning `prop` (and keeps the invariant), an outage of
   L = length us samples, for every L, emits exactly the L dead-reckoned states, refuses none, and the state the filter resumes
   from is the L-fold dead reckoning of the pre-outage state *)
Theorem C13_outage_is_dead_reckoning : forall (St Sample : Type) (step : St -> Sample -> option St) (prop : St -> Sample -> St)
    (ok : St -> Prop) (dropout : Sample -> bool),
  (forall s u, ok s -> dropout u = true -> step s u = Some (prop s u) /\ ok (prop s u)) ->
  forall us s, ok s -> forallb dropout us = true ->
    run St Sample step s us = (reckon St Sample prop s us, false) /\ Forall ok (reckon St Sample prop s us) /\
    (us <> [] -> last (reckon St Sample prop s us) s = fold_left prop us s).
Proof. intros St Sample step prop ok dropout H us s Hs Hd. exact (outage_is_dead_reckoning St Sample step prop ok dropout H us s Hs Hd). Qed.
Print Assumptions C13_outage_is_dead_reckoning.

(* ... instantiated with the REGENERATED dropout steps of ROLEQ (null acc, any mag) and Madgwick IMU (gain 0.4): whatever the
   valid-sample step does, an outage of any length from a unit quaternion yields the iterated closed form dr, all unit *)
Theorem C13_outage_is_dead_reckoning_roleq_madgwick : forall valid us s, unit4 s ->
  (forallb flagged6 us = true ->
     run _ _ (rol_step valid) s us = (reckon _ _ gyr_prop s us, false) /\ Forall unit4 (reckon _ _ gyr_prop s us)) /\
  (forallb flagged3 us = true ->
     run _ _ (mad_step valid) s us = (reckon _ _ gyr_prop s us, false) /\ Forall unit4 (reckon _ _ gyr_prop s us)).
Proof.
  intros valid us s Hs. split; intros F.
  - destruct (outage_is_dead_reckoning _ _ (rol_step valid) gyr_prop unit4 flagged6 (rol_drop_step valid) us s Hs F) as (A & B & _).
    split; assumption.
  - destruct (outage_is_dead_reckoning _ _ (mad_step valid) gyr_prop unit4 flagged3 (mad_drop_step valid) us s Hs F) as (A & B & _).
    split; assumption.
Qed.
Print Assumptions C13_outage_is_dead_reckoning_roleq_madgwick.

(* AFTER an outage, Complementary (gain 0.95, Dt 0.02; regenerated driver step with a valid acc[1]): a deviation d of the
   previous angles — e.g. the one an outage produced — comes out of one valid sample multiplied by the gain, exactly, on both
   architectures (all three angles for MARG); hence after n valid samples exactly gain^n of it is left (and never more than |d|)
   PARTIAL: the n-step statement is about any list of steps obeying the one-step law; the regenerated step is shown to obey it,
   the list is not tied to a regenerated N-row driver. *)
Theorem C13_complementary_recovery_partial :
  (forall r0 p0 y0 d0 d1 d2 h0 h1 h2 g0 g1 g2 a0 a1 a2 c0 c1 c2 n0 n1 n2 m0 m1 m2, 0 < sqrt (c0*c0 + c1*c1 + c2*c2) ->
     diff_gain (19/20) [d0; d1] (C13_comp_imu_v_R r0 p0 y0 h0 h1 h2 g0 g1 g2 a0 a1 a2 c0 c1 c2)
                                (C13_comp_imu_v_R (r0 + d0) (p0 + d1) y0 h0 h1 h2 g0 g1 g2 a0 a1 a2 c0 c1 c2) /\
     diff_gain (19/20) [d0; d1; d2] (C13_comp_marg_v_R r0 p0 y0 h0 h1 h2 g0 g1 g2 a0 a1 a2 c0 c1 c2 n0 n1 n2 m0 m1 m2)
                                    (C13_comp_marg_v_R (r0 + d0) (p0 + d1) (y0 + d2) h0 h1 h2 g0 g1 g2 a0 a1 a2 c0 c1 c2 n0 n1 n2 m0 m1 m2)) /\
  (forall gam (fs : list (R -> R)), Forall (fun f => forall x d, f (x + d) - f x = gam * d) fs ->
     forall x d, fold_left (fun a f => f a) fs (x + d) - fold_left (fun a f => f a) fs x = gam ^ length fs * d) /\
  (forall gam (fs : list (R -> R)), 0 <= gam <= 1 -> Forall (fun f => forall x d, f (x + d) - f x = gam * d) fs ->
     forall x d, Rabs (fold_left (fun a f => f a) fs (x + d) - fold_left (fun a f => f a) fs x) <= Rabs d).
Proof.
  split; [intros; split; [apply comp_imu_v_contracts; assumption|apply comp_marg_v_contracts; assumption]|].
  split; [exact contraction_iter|exact contraction_abs].
Qed.
Print Assumptions C13_complementary_recovery_partial.

(* non-vacuity: a unit quaternion, a non-trivial gyro sample, and the value of the dropout step on them *)
Example C13_nonvacuous : sq4 (3/5) 0 (4/5) 0 = 1 /\ unit4 (dr (3/5) 0 (4/5) 0 1 2 3 (1/100)) /\
  C13_rol_am0_R (3/5) 0 (4/5) 0 1 2 3 (1/100) = Val (dr (3/5) 0 (4/5) 0 1 2 3 (1/100) ++ [1;1]) /\
  dr0 (3/5) 0 (4/5) 0 1 2 3 (1/100) = 3/5 - 1/125.
Proof.
  assert (H : sq4 (3/5) 0 (4/5) 0 = 1) by (unfold sq4; field).
  split; [exact H|]. split; [exact (dr_unit _ _ _ _ _ _ _ _ H)|]. split; [exact (rol_am0 _ _ _ _ _ _ _ _)|unfold dr0; field].
Qed.
