(* C13_mah.v — dropout steps of Mahony (regenerated models). *)
From Coq Require Import Reals List Lra Psatz.
From AhrsLib Require Import Base.
From AhrsGen Require Import C13gen_R.
From AhrsProps Require Import C13_lib.
Import ListNotations.
Open Scope R_scope.

(* ---- Mahony: the output is [q'; b'] — the carried gyro bias b is returned unchanged on a dropout ----------- *)
Lemma mah_imu_a0 w x y z g0 g1 g2 b0 b1 b2 dt : sq4 w x y z = 1 ->
  C13_mah_imu_a0_R w x y z g0 g1 g2 b0 b1 b2 dt = Val (dr w x y z g0 g1 g2 dt ++ [b0;b1;b2; 3; 1/20]).
Proof.
  intros Hq. unfold C13_mah_imu_a0_R. cbv zeta. unit_sqrt Hq. gate1. case_gyr Hq g0 g1 g2.
  dr_leaf Hq w x y z g0 g1 g2 dt.
Qed.
Lemma mah_marg_a0 w x y z g0 g1 g2 m0 m1 m2 b0 b1 b2 dt : sq4 w x y z = 1 ->
  C13_mah_marg_a0_R w x y z g0 g1 g2 m0 m1 m2 b0 b1 b2 dt = Val (dr w x y z g0 g1 g2 dt ++ [b0;b1;b2; 3; 1/20]).
Proof.
  intros Hq. unfold C13_mah_marg_a0_R. cbv zeta. unit_sqrt Hq. gate1. case_gyr Hq g0 g1 g2.
  dr_leaf Hq w x y z g0 g1 g2 dt.
Qed.
Lemma mah_marg_am0 w x y z g0 g1 g2 b0 b1 b2 dt : sq4 w x y z = 1 ->
  C13_mah_marg_am0_R w x y z g0 g1 g2 b0 b1 b2 dt = Val (dr w x y z g0 g1 g2 dt ++ [b0;b1;b2; 3; 1/20]).
Proof.
  intros Hq. unfold C13_mah_marg_am0_R. cbv zeta. unit_sqrt Hq. gate1. case_gyr Hq g0 g1 g2.
  dr_leaf Hq w x y z g0 g1 g2 dt.
Qed.
