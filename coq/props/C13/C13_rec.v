(* C13_rec.v — what happens DURING and AFTER an outage, as theorems:
   (1) during: a run of L dropout samples through a driver whose dropout step is the proved dead reckoning yields exactly
       the L dead-reckoned states of the pre-outage state (all L, induction) — instantiated with the regenerated ROLEQ and
       Madgwick steps;
   (2) after (Complementary, linear): a valid blending step multiplies any deviation of the previous angles by the gain,
       exactly, so n valid samples after the outage leave gain^n of the deviation the outage produced. *)
From Coq Require Import Reals List Lra Psatz Bool.
From AhrsLib Require Import Base.
From AhrsGen Require Import C13gen_R.
From AhrsProps Require Import C13_lib C13_mm C13_rest.
Import ListNotations.
Open Scope R_scope.

Section Outage.
  Variables (St Sample : Type).
  Variable step : St -> Sample -> option St.
  Variable prop : St -> Sample -> St.           (* the filter's own dead reckoning *)
  Variable ok : St -> Prop.
  Variable dropout : Sample -> bool.
  Hypothesis drop_step : forall s u, ok s -> dropout u = true -> step s u = Some (prop s u) /\ ok (prop s u).

  Fixpoint reckon (s : St) (us : list Sample) : list St :=
    match us with [] => [] | u :: us' => prop s u :: reckon (prop s u) us' end.

  Lemma reckon_last : forall us s d, us <> [] -> last (reckon s us) d = fold_left prop us s.
  Proof.
    induction us as [|u us IH]; intros s d N; [contradiction|].
    destruct us as [|u' r]; [reflexivity|].
    change (reckon s (u :: u' :: r)) with (prop s u :: prop (prop s u) u' :: reckon (prop (prop s u) u') r).
    change (fold_left prop (u :: u' :: r) s) with (fold_left prop (u' :: r) (prop s u)).
    rewrite <- (IH (prop s u) d) by discriminate. reflexivity.
  Qed.
  (* an outage of L = length us samples: the run emits exactly the L dead-reckoned states, all of them satisfy the
     invariant, none is refused, and the state the filter resumes from is the L-fold dead reckoning of the pre-outage state *)
  Theorem outage_is_dead_reckoning : forall us s, ok s -> forallb dropout us = true ->
    run St Sample step s us = (reckon s us, false) /\ Forall ok (reckon s us) /\
    (us <> [] -> last (reckon s us) s = fold_left prop us s).
  Proof.
    induction us as [|u us IH]; intros s H F; simpl in *.
    - split; [reflexivity|]. split; [constructor|]. intros N; contradiction.
    - apply andb_true_iff in F. destruct F as [Fu Fs]. destruct (drop_step s u H Fu) as [E O]. rewrite E.
      destruct (IH (prop s u) O Fs) as (R1 & R2 & _). rewrite R1.
      split; [reflexivity|]. split; [constructor; assumption|].
      intros _. apply (reckon_last (u :: us) s s). discriminate.
  Qed.
End Outage.

(* ---- instance: ROLEQ.  state = [w;x;y;z]; a sample is (acc-is-null flag, [g0;g1;g2;m0;m1;m2]); on flagged samples the
   step is the REGENERATED update with acc = 0, on the others an arbitrary step ------------------------------------------- *)
Definition take4 (o : outcome R) : option (list R) :=
  match o with Val (a :: b :: c :: d :: _) => Some [a;b;c;d] | _ => None end.
Definition rol_step (valid : list R -> list R -> option (list R)) (s : list R) (u : bool * list R) : option (list R) :=
  match u, s with
  | (true, [g0;g1;g2;m0;m1;m2]), [w;x;y;z] => take4 (C13_rol_a0_R w x y z g0 g1 g2 m0 m1 m2 (1/100))
  | (true, _), _ => None
  | (false, l), _ => valid s l
  end.
Definition gyr_prop (s : list R) (u : bool * list R) : list R :=
  match s, snd u with
  | [w;x;y;z], g0 :: g1 :: g2 :: _ => dr w x y z g0 g1 g2 (1/100)
  | _, _ => s
  end.
Definition flagged6 (u : bool * list R) : bool := fst u && Nat.eqb (length (snd u)) 6.
Lemma rol_drop_step valid s u : unit4 s -> flagged6 u = true ->
  rol_step valid s u = Some (gyr_prop s u) /\ unit4 (gyr_prop s u).
Proof.
  intros Hs Hu. destruct u as [b l]. unfold flagged6 in Hu. simpl in Hu. apply andb_true_iff in Hu. destruct Hu as [-> Hl].
  apply Nat.eqb_eq in Hl.
  destruct l as [|g0 [|g1 [|g2 [|m0 [|m1 [|m2 [|? ?]]]]]]]; try discriminate.
  destruct s as [|w [|x [|y [|z [|? ?]]]]]; try contradiction.
  unfold rol_step, gyr_prop. cbv beta iota delta [snd fst]. rewrite (rol_a0 w x y z g0 g1 g2 m0 m1 m2 (1/100)). simpl.
  split; [reflexivity|]. apply dr_unit. exact Hs.
Qed.

(* ---- instance: Madgwick IMU (gain 0.4).  sample = (acc-is-null flag, [g0;g1;g2]) ------------------------------------ *)
Definition mad_step (valid : list R -> list R -> option (list R)) (s : list R) (u : bool * list R) : option (list R) :=
  match u, s with
  | (true, [g0;g1;g2]), [w;x;y;z] => take4 (C13_mad_imu_a0_R w x y z g0 g1 g2 (1/100))
  | (true, _), _ => None
  | (false, l), _ => valid s l
  end.
Definition flagged3 (u : bool * list R) : bool := fst u && Nat.eqb (length (snd u)) 3.
Lemma mad_drop_step valid s u : unit4 s -> flagged3 u = true ->
  mad_step valid s u = Some (gyr_prop s u) /\ unit4 (gyr_prop s u).
Proof.
  intros Hs Hu. destruct u as [b l]. unfold flagged3 in Hu. simpl in Hu. apply andb_true_iff in Hu. destruct Hu as [-> Hl].
  apply Nat.eqb_eq in Hl.
  destruct l as [|g0 [|g1 [|g2 [|? ?]]]]; try discriminate.
  destruct s as [|w [|x [|y [|z [|? ?]]]]]; try contradiction.
  unfold mad_step, gyr_prop. cbv beta iota delta [snd fst]. rewrite (mad_imu_a0 w x y z g0 g1 g2 (1/100) Hs). simpl.
  split; [reflexivity|]. apply dr_unit. exact Hs.
Qed.

(* ---- Complementary: recovery is an exact contraction ------------------------------------------------------------------ *)
(* relation between the outcomes of one step from two previous states that differ by d: the first (length d) outputs
   differ by gam * d, component-wise *)
Definition diff_gain (gam : R) (d : list R) (o o' : outcome R) : Prop :=
  match o, o' with
  | Val l, Val l' => length l = length l' /\ forall i, (i < length d)%nat -> nth i l' 0 - nth i l 0 = gam * nth i d 0
  | Raise e, Raise e' => e = e'
  | _, _ => False
  end.
Lemma comp_imu_v_contracts r0 p0 y0 d0 d1 h0 h1 h2 g0 g1 g2 a0 a1 a2 c0 c1 c2 :
  0 < sqrt (c0*c0 + c1*c1 + c2*c2) ->
  diff_gain (19/20) [d0; d1] (C13_comp_imu_v_R r0 p0 y0 h0 h1 h2 g0 g1 g2 a0 a1 a2 c0 c1 c2)
                             (C13_comp_imu_v_R (r0 + d0) (p0 + d1) y0 h0 h1 h2 g0 g1 g2 a0 a1 a2 c0 c1 c2).
Proof.
  intros Hc. unfold C13_comp_imu_v_R. cbv zeta.
  repeat destr_dec; try contradiction; simpl; (split; [reflexivity|]);
  intros [|[|i]] Hi; simpl in *; try ring; exfalso; lia.
Qed.
(* the same for the MARG architecture: all three angles, yaw included *)
Lemma comp_marg_v_contracts r0 p0 y0 d0 d1 d2 h0 h1 h2 g0 g1 g2 a0 a1 a2 c0 c1 c2 n0 n1 n2 m0 m1 m2 :
  0 < sqrt (c0*c0 + c1*c1 + c2*c2) ->
  diff_gain (19/20) [d0; d1; d2] (C13_comp_marg_v_R r0 p0 y0 h0 h1 h2 g0 g1 g2 a0 a1 a2 c0 c1 c2 n0 n1 n2 m0 m1 m2)
                             (C13_comp_marg_v_R (r0 + d0) (p0 + d1) (y0 + d2) h0 h1 h2 g0 g1 g2 a0 a1 a2 c0 c1 c2 n0 n1 n2 m0 m1 m2).
Proof.
  intros Hc. unfold C13_comp_marg_v_R. cbv zeta.
  repeat destr_dec; try contradiction; simpl; try reflexivity; (split; [reflexivity|]);
  intros [|[|[|i]]] Hi; simpl in *; try ring; exfalso; lia.
Qed.
(* n such steps: the deviation left is gam^n times the deviation the outage produced *)
Lemma contraction_iter gam (fs : list (R -> R)) :
  Forall (fun f => forall x d, f (x + d) - f x = gam * d) fs ->
  forall x d, fold_left (fun a f => f a) fs (x + d) - fold_left (fun a f => f a) fs x = gam ^ length fs * d.
Proof.
  induction fs as [|f fs IH]; intros HF x d; simpl.
  - ring.
  - inversion HF as [|? ? Hf Hfs]; subst.
    replace (f (x + d)) with (f x + gam * d) by (rewrite <- (Hf x d); ring).
    rewrite (IH Hfs (f x) (gam * d)). ring.
Qed.
Lemma contraction_abs gam (fs : list (R -> R)) : 0 <= gam <= 1 ->
  Forall (fun f => forall x d, f (x + d) - f x = gam * d) fs ->
  forall x d, Rabs (fold_left (fun a f => f a) fs (x + d) - fold_left (fun a f => f a) fs x) <= Rabs d.
Proof.
  intros Hg HF x d. rewrite (contraction_iter gam fs HF x d), Rabs_mult.
  assert (P : 0 <= gam ^ length fs <= 1).
  { split; [apply pow_le; lra|]. rewrite <- (pow1 (length fs)). apply pow_incr. lra. }
  rewrite (Rabs_right (gam ^ length fs)) by lra. pose proof (Rabs_pos d). nra.
Qed.
