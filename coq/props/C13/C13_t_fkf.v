(* C13_t_fkf.v (thorough tier only: the kernel needs about a minute for the walk) — FKF driver with mag[1] = 0 *)
From Coq Require Import Reals List Lra Psatz Nsatz.
From AhrsLib Require Import Base.
From AhrsGen Require Import C13gen_R.
From AhrsProps Require Import C13_lib C13_drv.
Import ListNotations.
Open Scope R_scope.
Lemma fkf_m0 h0 h1 h2 g0 g1 g2 a0 a1 a2 n0 n1 n2 b0 b1 b2 :
  norm_leaf P_fkf0 (C13_fkf_m0_R h0 h1 h2 g0 g1 g2 a0 a1 a2 n0 n1 n2 b0 b1 b2).
Proof. cbv beta delta [C13_fkf_m0_R]. walk; leaf_norm. Qed.
Theorem C13_dropout_step_safe_fkf_mag : forall h0 h1 h2 g0 g1 g2 a0 a1 a2 n0 n1 n2 b0 b1 b2,
  norm_leaf P_fkf0 (C13_fkf_m0_R h0 h1 h2 g0 g1 g2 a0 a1 a2 n0 n1 n2 b0 b1 b2).
Proof. exact fkf_m0. Qed.
Print Assumptions C13_dropout_step_safe_fkf_mag.
