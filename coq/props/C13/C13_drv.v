(* C13_drv.v — filters without a per-sample entry point, through their public drivers on a two-row record whose second
   row is the dropout: FKF (fix C13-fkf-dropout) and Complementary (fix C13-complementary-dropout). *)
From Coq Require Import Reals List Lra Psatz Nsatz.
From AhrsLib Require Import Base.
From AhrsGen Require Import C13gen_R.
From AhrsProps Require Import C13_lib.
Import ListNotations.
Open Scope R_scope.

Definition P_fkf0 : list R := [1/100;0;0;0; 0;1/100;0;0; 0;0;1/100;0; 0;0;0;1/100].
(* rewrite the (at most two levels of) defining equations a normalised leaf needs: p_i = a_i / n, n = sqrt(...) *)
Ltac leaf_norm :=
  simpl; split; [reflexivity|];
  repeat match goal with
  | H : ?t = _ / _ |- context [sq4 ?a ?b ?c ?d] =>
      first [ constr_eq t a | constr_eq t b | constr_eq t c | constr_eq t d ]; rewrite H; clear H
  end;
  match goal with
  | H : ?n = sqrt _ |- context [_ / ?n] => rewrite H
  end;
  apply unit_or_zero.

(* FKF(gyr, acc, mag).Q[1] with acc[1] = 0 : the gyro-propagated, re-normalised initial quaternion; the covariance Pk
   keeps its initial value (no NaN can enter the carried state); never an exception other than ValueError *)
Lemma fkf_a0 h0 h1 h2 g0 g1 g2 a0 a1 a2 n0 n1 n2 m0 m1 m2 :
  norm_leaf P_fkf0 (C13_fkf_a0_R h0 h1 h2 g0 g1 g2 a0 a1 a2 n0 n1 n2 m0 m1 m2).
Proof. cbv beta delta [C13_fkf_a0_R]. walk; leaf_norm. Qed.

