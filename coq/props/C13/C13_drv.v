(* C13_drv.v — filters without a per-sample entry point, through their public drivers on a two-row record whose second
   row is the dropout: FKF (fix C13-fkf-dropout) and Complementary (fix C13-complementary-dropout). *)
From Coq Require Import Reals List Lra Psatz.
From AhrsLib Require Import Base.
From AhrsGen Require Import C13gen_R.
From AhrsProps Require Import C13_lib.
Import ListNotations.
Open Scope R_scope.

(* a leaf [a/n; b/n; c/n; d/n] ++ P, n = ||(a,b,c,d)||: the quaternion is unit unless (a,b,c,d) itself is zero *)
Definition norm_leaf (P : list R) (o : outcome R) : Prop :=
  match o with
  | Val (p0 :: p1 :: p2 :: p3 :: tl) => tl = P /\ (sq4 p0 p1 p2 p3 = 1 \/ (p0 = 0 /\ p1 = 0 /\ p2 = 0 /\ p3 = 0))
  | Val _ => False
  | Raise e => e = ValueError
  end.
Lemma unit_or_zero a b c d :
  let n := sqrt (a*a + b*b + c*c + d*d) in
  sq4 (a/n) (b/n) (c/n) (d/n) = 1 \/ (a/n = 0 /\ b/n = 0 /\ c/n = 0 /\ d/n = 0).
Proof.
  intros n. destruct (Req_EM_T (a*a + b*b + c*c + d*d) 0) as [E|E].
  - right. assert (a*a = 0 /\ b*b = 0 /\ c*c = 0 /\ d*d = 0) as (A & B & C & D) by (repeat split; nra).
    apply Rsqr_0_uniq in A, B, C, D. subst. unfold Rdiv. repeat split; ring.
  - left. apply (normalised_unit a b c d). exact E.
Qed.
Definition P_fkf0 : list R := [1/100;0;0;0; 0;1/100;0;0; 0;0;1/100;0; 0;0;0;1/100].

(* FKF(gyr, acc, mag).Q[1] with acc[1] = 0 : the gyro-propagated, re-normalised initial quaternion; the covariance Pk
   keeps its initial value (no NaN can enter the carried state) *)
Lemma fkf_a0 h0 h1 h2 g0 g1 g2 a0 a1 a2 n0 n1 n2 m0 m1 m2 :
  norm_leaf P_fkf0 (C13_fkf_a0_R h0 h1 h2 g0 g1 g2 a0 a1 a2 n0 n1 n2 m0 m1 m2).
Proof.
  Time unfold C13_fkf_a0_R. Time repeat destr_dec. all: Time (simpl; split; [reflexivity|apply unit_or_zero]).
Time Qed.
