(* C13_comp.v — filters without a per-sample entry point, through their public drivers on a two-row record whose second
   row is the dropout: FKF (fix C13-fkf-dropout) and Complementary (fix C13-complementary-dropout). *)
From Coq Require Import Reals List Lra Psatz Nsatz.
From AhrsLib Require Import Base.
From AhrsGen Require Import C13gen_R.
From AhrsProps Require Import C13_lib.
Import ListNotations.
Open Scope R_scope.

(* Complementary(gyr, acc, w0=..).W[1], .Q[1] with acc[1] = 0 : the angles are integrated with the gyroscopes only
   (no blend with the 0/0 tilt) and the quaternion built from them is unit *)
Definition comp_leaf (e0 e1 : R) (o : outcome R) : Prop :=
  match o with
  | Val [u0; u1; u2; p0; p1; p2; p3] => u0 = e0 /\ u1 = e1 /\ u2 = 0 /\ sq4 p0 p1 p2 p3 = 1
  | Val _ => False
  | Raise e => e = ValueError
  end.
(* generic over the way the source writes the sums: angles by `ring`, the norm by sin^2 + cos^2 = 1 of whatever half-angles occur *)
Ltac trig_abstract :=
  repeat match goal with
  | |- context [cos ?u] =>
      let c := fresh "c" in let s := fresh "s" in let X := fresh "X" in
      pose proof (sin2_cos2 u) as X; unfold Rsqr in X; set (c := cos u) in *; set (s := sin u) in *
  end.
Lemma comp_imu_a0 r0 p0 y0 h0 h1 h2 g0 g1 g2 a0 a1 a2 :
  comp_leaf (r0 + g0 * (1/50)) (p0 + g1 * (1/50)) (C13_comp_imu_a0_R r0 p0 y0 h0 h1 h2 g0 g1 g2 a0 a1 a2).
Proof.
  unfold C13_comp_imu_a0_R. cbv zeta.
  destr_dec; simpl; (split; [ring|]; split; [ring|]; split; [ring|]); trig_abstract;
  match goal with |- context [sqrt ?e] => replace e with 1 by nsatz end;
  rewrite sqrt_1; unfold sq4; rewrite !div_one; nsatz.
Qed.

(* Complementary MARG driver, acc[1] = 0: ALL THREE angles (yaw included) are the gyro-integrated previous angles *)
Definition comp3_leaf (e0 e1 e2 : R) (o : outcome R) : Prop :=
  match o with
  | Val (u0 :: u1 :: u2 :: _) => u0 = e0 /\ u1 = e1 /\ u2 = e2
  | Val _ => False
  | Raise e => e = ValueError
  end.
Lemma comp_marg_a0 r0 p0 y0 h0 h1 h2 g0 g1 g2 a0 a1 a2 n0 n1 n2 m0 m1 m2 :
  comp3_leaf (r0 + g0 * (1/50)) (p0 + g1 * (1/50)) (y0 + g2 * (1/50))
    (C13_comp_marg_a0_R r0 p0 y0 h0 h1 h2 g0 g1 g2 a0 a1 a2 n0 n1 n2 m0 m1 m2).
Proof.
  cbv beta delta [C13_comp_marg_a0_R]. walk; simpl; try reflexivity;
  repeat split; match goal with H : ?t = _ |- ?t = _ => rewrite H; ring end.
Qed.

(* the quaternion built from the gyro-integrated angles of the MARG driver is unit *)
Definition comp7_leaf (o : outcome R) : Prop :=
  match o with
  | Val [u0; u1; u2; p0; p1; p2; p3] => sq4 p0 p1 p2 p3 = 1
  | Val _ => False
  | Raise e => e = ValueError
  end.
Lemma comp_marg_a0_unit r0 p0 y0 h0 h1 h2 g0 g1 g2 a0 a1 a2 n0 n1 n2 m0 m1 m2 :
  comp7_leaf (C13_comp_marg_a0_R r0 p0 y0 h0 h1 h2 g0 g1 g2 a0 a1 a2 n0 n1 n2 m0 m1 m2).
Proof.
  unfold C13_comp_marg_a0_R. cbv zeta.
  repeat destr_dec; simpl; try reflexivity; trig_abstract;
  match goal with |- context [sqrt ?e] => replace e with 1 by nsatz end;
  rewrite sqrt_1; unfold sq4; rewrite !div_one; nsatz.
Qed.
