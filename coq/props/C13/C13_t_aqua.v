(* C13_t_aqua.v (thorough tier only) — AQUA: with a null magnetometer updateMARG returns what updateIMU returns on the same
   (q, gyr, acc, dt), or refuses (the Quaternion constructor's zero test, which updateIMU does not make): twin target, walked
   without expanding its lets *)
From Coq Require Import Reals List Lra.
From AhrsLib Require Import Base.
From AhrsGen Require Import C13gen_R.
From AhrsProps Require Import C13_lib.
Import ListNotations.
Open Scope R_scope.
Lemma aqua_marg_m0 w x y z g0 g1 g2 a0 a1 a2 dt :
  halves_eq 4 (C13_aqua_marg_m0_R w x y z g0 g1 g2 a0 a1 a2 dt).
Proof. cbv beta delta [C13_aqua_marg_m0_R]. walk; simpl; try reflexivity; split; reflexivity. Qed.
Theorem C13_null_mag_is_imu_step_aqua : forall w x y z g0 g1 g2 a0 a1 a2 dt,
  halves_eq 4 (C13_aqua_marg_m0_R w x y z g0 g1 g2 a0 a1 a2 dt).
Proof. exact aqua_marg_m0. Qed.
Print Assumptions C13_null_mag_is_imu_step_aqua.
