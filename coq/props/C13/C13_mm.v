(* C13_mm.v — dropout steps of Madgwick (regenerated models). *)
From Coq Require Import Reals List Lra Psatz.
From AhrsLib Require Import Base.
From AhrsGen Require Import C13gen_R.
From AhrsProps Require Import C13_lib.
Import ListNotations.
Open Scope R_scope.

(* the configured gains of the Madgwick target (gain = 0.4, gain_imu, gain_marg): returned unchanged after the call *)
Definition mad_cfg : list R := [2/5; 33/1000; 41/1000].
(* ---- Madgwick ------------------------------------------------------------------------------------------- *)
Lemma mad_imu_a0 w x y z g0 g1 g2 dt : sq4 w x y z = 1 ->
  C13_mad_imu_a0_R w x y z g0 g1 g2 dt = Val (dr w x y z g0 g1 g2 dt ++ mad_cfg).
Proof.
  intros Hq. unfold C13_mad_imu_a0_R. cbv zeta. unit_sqrt Hq. gate1. case_gyr Hq g0 g1 g2.
  dr_leaf Hq w x y z g0 g1 g2 dt.
Qed.
(* with a magnetometer reading present or null: a null magnetometer makes updateMARG delegate to updateIMU with the
   caller's dt, so the step is the same dead reckoning either way *)
Lemma mad_marg_a0 w x y z g0 g1 g2 m0 m1 m2 dt : sq4 w x y z = 1 ->
  C13_mad_marg_a0_R w x y z g0 g1 g2 m0 m1 m2 dt = Val (dr w x y z g0 g1 g2 dt ++ mad_cfg).
Proof.
  intros Hq. unfold C13_mad_marg_a0_R. cbv zeta. unit_sqrt Hq. gate1. case_gyr Hq g0 g1 g2.
  destruct (Req_EM_T 0 (sqrt (m0 * m0 + m1 * m1 + m2 * m2))) as [Hm|Hm]; dr_leaf Hq w x y z g0 g1 g2 dt.
Qed.
Lemma mad_marg_am0 w x y z g0 g1 g2 dt : sq4 w x y z = 1 ->
  C13_mad_marg_am0_R w x y z g0 g1 g2 dt = Val (dr w x y z g0 g1 g2 dt ++ mad_cfg).
Proof.
  intros Hq. unfold C13_mad_marg_am0_R. cbv zeta. unit_sqrt Hq. gate1. case_gyr Hq g0 g1 g2.
  dr_leaf Hq w x y z g0 g1 g2 dt.
Qed.

