(* C13_mm.v — dropout steps of Madgwick and Mahony (regenerated models). *)
From Coq Require Import Reals List Lra Psatz.
From AhrsLib Require Import Base.
From AhrsGen Require Import C13gen_R.
From AhrsProps Require Import C13_lib.
Import ListNotations.
Open Scope R_scope.

(* ---- tactics shared by the per-filter files ------------------------------------------------------------- *)
(* sqrt(e) -> 1 for every e that equals the squared norm of the unit input quaternion; x/1 -> x *)
Ltac unit_sqrt H :=
  rewrite ?div_one;
  repeat (match goal with
  | |- context [sqrt (?a * ?a + ?b * ?b + ?c * ?c + ?d * ?d)] =>
      is_var a; is_var b; is_var c; is_var d;
      let E := fresh in assert (E : a * a + b * b + c * c + d * d = 1) by (unfold sq4 in H; rewrite <- H; ring);
      rewrite E; clear E; rewrite sqrt_1
  end; rewrite ?div_one).
Ltac gate1 := repeat match goal with
  | |- context [Req_EM_T 0 1] => destruct (Req_EM_T 0 1); [exfalso; lra|]
  end.
(* re-normalisation of an already normalised 4-vector divides by 1 *)
Ltac kill_renorm :=
  repeat match goal with
  | Hn : 0 <> ?n |- context [sqrt (?a / ?n * (?a / ?n) + ?b / ?n * (?b / ?n) + ?c / ?n * (?c / ?n) + ?d / ?n * (?d / ?n))] =>
      rewrite (renorm a b c d n) by
        first [ intros E0; apply Hn; symmetry; exact E0 | apply sqrt_sqrt; nra ];
      rewrite ?div_one
  end.
Ltac drf := unfold dr0, dr1, dr2, dr3; field.

(* the norm of a dead-reckoned quaternion is >= 1, so a zero test on it cannot fire *)
Lemma sumsq_dr w x y z g0 g1 g2 h a b c d :
  sq4 w x y z = 1 -> a = dr0 w x y z g0 g1 g2 h -> b = dr1 w x y z g0 g1 g2 h -> c = dr2 w x y z g0 g1 g2 h ->
  d = dr3 w x y z g0 g1 g2 h -> 0 = sqrt (a*a + b*b + c*c + d*d) -> False.
Proof.
  intros Hq -> -> -> -> Hz. pose proof (drn_ge1 w x y z g0 g1 g2 h Hq) as G. unfold drn, sq4 in G. rewrite <- Hz in G. lra.
Qed.
(* a leaf [a/n;b/n;c/n;d/n], n the norm of (a,b,c,d), with (a,b,c,d) the dead-reckoned vector *)
Lemma leaf_dr w x y z g0 g1 g2 h a b c d :
  a = dr0 w x y z g0 g1 g2 h -> b = dr1 w x y z g0 g1 g2 h -> c = dr2 w x y z g0 g1 g2 h -> d = dr3 w x y z g0 g1 g2 h ->
  [a / sqrt (a*a + b*b + c*c + d*d); b / sqrt (a*a + b*b + c*c + d*d); c / sqrt (a*a + b*b + c*c + d*d);
   d / sqrt (a*a + b*b + c*c + d*d)] = dr w x y z g0 g1 g2 h.
Proof. intros -> -> -> ->. reflexivity. Qed.
Lemma leaf_dr_b w x y z g0 g1 g2 h a b c d (tl : list R) :
  a = dr0 w x y z g0 g1 g2 h -> b = dr1 w x y z g0 g1 g2 h -> c = dr2 w x y z g0 g1 g2 h -> d = dr3 w x y z g0 g1 g2 h ->
  [a / sqrt (a*a + b*b + c*c + d*d); b / sqrt (a*a + b*b + c*c + d*d); c / sqrt (a*a + b*b + c*c + d*d);
   d / sqrt (a*a + b*b + c*c + d*d)] ++ tl = dr w x y z g0 g1 g2 h ++ tl.
Proof. intros -> -> -> ->. reflexivity. Qed.

(* the gyroscope zero test: in the zero branch the step returns q, which is dr q 0 h *)
Ltac case_gyr Hq g0 g1 g2 :=
  destruct (Req_EM_T 0 (sqrt (g0 * g0 + g1 * g1 + g2 * g2))) as [Hg|Hg];
  [ apply sqrt3_0 in Hg; destruct Hg as (-> & -> & ->); rewrite (dr_g0 _ _ _ _ _ Hq); try reflexivity | ].
(* the remaining zero test (on the norm of the propagated quaternion) and the leaf *)
Ltac dr_leaf Hq w x y z g0 g1 g2 h :=
  repeat match goal with
  | |- context [Req_EM_T 0 (sqrt ?e)] =>
      let Hz := fresh "Hz" in destruct (Req_EM_T 0 (sqrt e)) as [Hz|Hz];
      [ exfalso; eapply (sumsq_dr w x y z g0 g1 g2 h); [exact Hq| | | | |exact Hz]; drf | ]
  end;
  kill_renorm; apply Val_inj;
  first [ apply leaf_dr; drf | apply (leaf_dr_b w x y z g0 g1 g2 h); drf ].

(* the configured gains of the Madgwick target (gain = 0.4, gain_imu, gain_marg): returned unchanged after the call *)
Definition mad_cfg : list R := [2/5; 33/1000; 41/1000].
(* ---- Madgwick ------------------------------------------------------------------------------------------- *)
Lemma mad_imu_a0 w x y z g0 g1 g2 dt : sq4 w x y z = 1 ->
  C13_mad_imu_a0_R w x y z g0 g1 g2 dt = Val (dr w x y z g0 g1 g2 dt ++ mad_cfg).
Proof.
  intros Hq. unfold C13_mad_imu_a0_R. cbv zeta. unit_sqrt Hq. gate1. case_gyr Hq g0 g1 g2.
  dr_leaf Hq w x y z g0 g1 g2 dt.
Qed.
(* with a magnetometer reading present or null: a null magnetometer makes updateMARG delegate to updateIMU with the
   caller's dt, so the step is the same dead reckoning either way *)
Lemma mad_marg_a0 w x y z g0 g1 g2 m0 m1 m2 dt : sq4 w x y z = 1 ->
  C13_mad_marg_a0_R w x y z g0 g1 g2 m0 m1 m2 dt = Val (dr w x y z g0 g1 g2 dt ++ mad_cfg).
Proof.
  intros Hq. unfold C13_mad_marg_a0_R. cbv zeta. unit_sqrt Hq. gate1. case_gyr Hq g0 g1 g2.
  destruct (Req_EM_T 0 (sqrt (m0 * m0 + m1 * m1 + m2 * m2))) as [Hm|Hm]; dr_leaf Hq w x y z g0 g1 g2 dt.
Qed.
Lemma mad_marg_am0 w x y z g0 g1 g2 dt : sq4 w x y z = 1 ->
  C13_mad_marg_am0_R w x y z g0 g1 g2 dt = Val (dr w x y z g0 g1 g2 dt ++ mad_cfg).
Proof.
  intros Hq. unfold C13_mad_marg_am0_R. cbv zeta. unit_sqrt Hq. gate1. case_gyr Hq g0 g1 g2.
  dr_leaf Hq w x y z g0 g1 g2 dt.
Qed.

(* ---- Mahony: the output is [q'; b'] — the carried gyro bias b is returned unchanged on a dropout ----------- *)
Lemma mah_imu_a0 w x y z g0 g1 g2 b0 b1 b2 dt : sq4 w x y z = 1 ->
  C13_mah_imu_a0_R w x y z g0 g1 g2 b0 b1 b2 dt = Val (dr w x y z g0 g1 g2 dt ++ [b0;b1;b2; 3; 1/20]).
Proof.
  intros Hq. unfold C13_mah_imu_a0_R. cbv zeta. unit_sqrt Hq. gate1. case_gyr Hq g0 g1 g2.
  dr_leaf Hq w x y z g0 g1 g2 dt.
Qed.
Lemma mah_marg_a0 w x y z g0 g1 g2 m0 m1 m2 b0 b1 b2 dt : sq4 w x y z = 1 ->
  C13_mah_marg_a0_R w x y z g0 g1 g2 m0 m1 m2 b0 b1 b2 dt = Val (dr w x y z g0 g1 g2 dt ++ [b0;b1;b2; 3; 1/20]).
Proof.
  intros Hq. unfold C13_mah_marg_a0_R. cbv zeta. unit_sqrt Hq. gate1. case_gyr Hq g0 g1 g2.
  dr_leaf Hq w x y z g0 g1 g2 dt.
Qed.
Lemma mah_marg_am0 w x y z g0 g1 g2 b0 b1 b2 dt : sq4 w x y z = 1 ->
  C13_mah_marg_am0_R w x y z g0 g1 g2 b0 b1 b2 dt = Val (dr w x y z g0 g1 g2 dt ++ [b0;b1;b2; 3; 1/20]).
Proof.
  intros Hq. unfold C13_mah_marg_am0_R. cbv zeta. unit_sqrt Hq. gate1. case_gyr Hq g0 g1 g2.
  dr_leaf Hq w x y z g0 g1 g2 dt.
Qed.
