(* C13_rest.v — dropout steps of AQUA, Fourati, ROLEQ, EKF, UKF and FKF's measurement step (regenerated models). *)
From Coq Require Import Reals List Lra Psatz.
From AhrsLib Require Import Base.
From AhrsGen Require Import C13gen_R.
From AhrsProps Require Import C13_lib.
Import ListNotations.
Open Scope R_scope.

Ltac drLf := unfold drL0, drL1, drL2, drL3; field.
Lemma sumsq_drL w x y z g0 g1 g2 h a b c d :
  sq4 w x y z = 1 -> a = drL0 w x y z g0 g1 g2 h -> b = drL1 w x y z g0 g1 g2 h -> c = drL2 w x y z g0 g1 g2 h ->
  d = drL3 w x y z g0 g1 g2 h -> 0 = sqrt (a*a + b*b + c*c + d*d) -> False.
Proof.
  intros Hq -> -> -> -> Hz. pose proof (drLn_ge1 w x y z g0 g1 g2 h Hq) as G. unfold drLn, sq4 in G. rewrite <- Hz in G. lra.
Qed.
Lemma leaf_drL w x y z g0 g1 g2 h a b c d :
  a = drL0 w x y z g0 g1 g2 h -> b = drL1 w x y z g0 g1 g2 h -> c = drL2 w x y z g0 g1 g2 h -> d = drL3 w x y z g0 g1 g2 h ->
  [a / sqrt (a*a + b*b + c*c + d*d); b / sqrt (a*a + b*b + c*c + d*d); c / sqrt (a*a + b*b + c*c + d*d);
   d / sqrt (a*a + b*b + c*c + d*d)] = drL w x y z g0 g1 g2 h.
Proof. intros -> -> -> ->. reflexivity. Qed.
Lemma leaf_dr' w x y z g0 g1 g2 h a b c d :
  a = dr0 w x y z g0 g1 g2 h -> b = dr1 w x y z g0 g1 g2 h -> c = dr2 w x y z g0 g1 g2 h -> d = dr3 w x y z g0 g1 g2 h ->
  [a / sqrt (a*a + b*b + c*c + d*d); b / sqrt (a*a + b*b + c*c + d*d); c / sqrt (a*a + b*b + c*c + d*d);
   d / sqrt (a*a + b*b + c*c + d*d)] = dr w x y z g0 g1 g2 h.
Proof. intros -> -> -> ->. reflexivity. Qed.

(* ---- AQUA: zero gyro returns q itself; otherwise the normalised prediction, never the ValueError of the
   Quaternion constructor (its norm is >= 1) ------------------------------------------------------------------ *)
Ltac aqua_a0 Hq w x y z g0 g1 g2 dt :=
  cbv zeta;
  destruct (Req_EM_T 0 (sqrt (g0 * g0 + g1 * g1 + g2 * g2))) as [Hg|Hg];
  [ left; apply sqrt3_0 in Hg; destruct Hg as (-> & -> & ->); repeat split; reflexivity | right ];
  match goal with
  | |- context [Req_EM_T 0 (sqrt ?e)] =>
      let Hz := fresh "Hz" in destruct (Req_EM_T 0 (sqrt e)) as [Hz|Hz];
      [ exfalso; eapply (sumsq_drL w x y z g0 g1 g2 dt); [exact Hq| | | | |exact Hz]; drLf | ]
  end;
  apply Val_inj; apply leaf_drL; drLf.
Lemma aqua_imu_a0 w x y z g0 g1 g2 dt : sq4 w x y z = 1 ->
  (g0 = 0 /\ g1 = 0 /\ g2 = 0 /\ C13_aqua_imu_a0_R w x y z g0 g1 g2 dt = Val [w;x;y;z]) \/
  C13_aqua_imu_a0_R w x y z g0 g1 g2 dt = Val (drL w x y z g0 g1 g2 dt).
Proof. intros Hq. unfold C13_aqua_imu_a0_R. aqua_a0 Hq w x y z g0 g1 g2 dt. Qed.
Lemma aqua_marg_a0 w x y z g0 g1 g2 m0 m1 m2 dt : sq4 w x y z = 1 ->
  (g0 = 0 /\ g1 = 0 /\ g2 = 0 /\ C13_aqua_marg_a0_R w x y z g0 g1 g2 m0 m1 m2 dt = Val [w;x;y;z]) \/
  C13_aqua_marg_a0_R w x y z g0 g1 g2 m0 m1 m2 dt = Val (drL w x y z g0 g1 g2 dt).
Proof. intros Hq. unfold C13_aqua_marg_a0_R. aqua_a0 Hq w x y z g0 g1 g2 dt. Qed.
Lemma aqua_marg_am0 w x y z g0 g1 g2 dt : sq4 w x y z = 1 ->
  (g0 = 0 /\ g1 = 0 /\ g2 = 0 /\ C13_aqua_marg_am0_R w x y z g0 g1 g2 dt = Val [w;x;y;z]) \/
  C13_aqua_marg_am0_R w x y z g0 g1 g2 dt = Val (drL w x y z g0 g1 g2 dt).
Proof. intros Hq. unfold C13_aqua_marg_am0_R. aqua_a0 Hq w x y z g0 g1 g2 dt. Qed.

(* ---- Fourati: refuses the sample (ValueError) unless the gyroscope is zero too, in which case q is returned --- *)
Lemma fou_a0 w x y z g0 g1 g2 m0 m1 m2 dt :
  C13_fou_a0_R w x y z g0 g1 g2 m0 m1 m2 dt = Raise ValueError \/
  (g0 = 0 /\ g1 = 0 /\ g2 = 0 /\ C13_fou_a0_R w x y z g0 g1 g2 m0 m1 m2 dt = Val [w;x;y;z]).
Proof.
  unfold C13_fou_a0_R. destruct (Req_EM_T 0 (sqrt (g0 * g0 + g1 * g1 + g2 * g2))) as [Hg|Hg].
  - right. apply sqrt3_0 in Hg. destruct Hg as (-> & -> & ->). repeat split; reflexivity.
  - left. repeat destr_dec; reflexivity.
Qed.
Lemma fou_m0 w x y z g0 g1 g2 a0 a1 a2 dt :
  C13_fou_m0_R w x y z g0 g1 g2 a0 a1 a2 dt = Raise ValueError \/
  (g0 = 0 /\ g1 = 0 /\ g2 = 0 /\ C13_fou_m0_R w x y z g0 g1 g2 a0 a1 a2 dt = Val [w;x;y;z]).
Proof.
  unfold C13_fou_m0_R. destruct (Req_EM_T 0 (sqrt (g0 * g0 + g1 * g1 + g2 * g2))) as [Hg|Hg].
  - right. apply sqrt3_0 in Hg. destruct Hg as (-> & -> & ->). repeat split; reflexivity.
  - left. repeat destr_dec; reflexivity.
Qed.

(* ---- ROLEQ: the gyro-propagated quaternion, whichever of acc / mag is null ---------------------------------- *)
Lemma leaf_dr_t w x y z g0 g1 g2 h a b c d (tl : list R) :
  a = dr0 w x y z g0 g1 g2 h -> b = dr1 w x y z g0 g1 g2 h -> c = dr2 w x y z g0 g1 g2 h -> d = dr3 w x y z g0 g1 g2 h ->
  [a / sqrt (a*a + b*b + c*c + d*d); b / sqrt (a*a + b*b + c*c + d*d); c / sqrt (a*a + b*b + c*c + d*d);
   d / sqrt (a*a + b*b + c*c + d*d)] ++ tl = dr w x y z g0 g1 g2 h ++ tl.
Proof. intros -> -> -> ->. reflexivity. Qed.
Ltac rol_leaf w x y z g0 g1 g2 dt := apply Val_inj; apply (leaf_dr_t w x y z g0 g1 g2 dt); unfold dr0, dr1, dr2, dr3; field.
(* the output is [q'; weights]: the weights come back unchanged, also when one of them is zero *)
Lemma rol_a0 w x y z g0 g1 g2 m0 m1 m2 dt :
  C13_rol_a0_R w x y z g0 g1 g2 m0 m1 m2 dt = Val (dr w x y z g0 g1 g2 dt ++ [1;1]).
Proof. unfold C13_rol_a0_R. cbv zeta. rol_leaf w x y z g0 g1 g2 dt. Qed.
Lemma rol_m0 w x y z g0 g1 g2 a0 a1 a2 dt :
  C13_rol_m0_R w x y z g0 g1 g2 a0 a1 a2 dt = Val (dr w x y z g0 g1 g2 dt ++ [1;1]).
Proof. unfold C13_rol_m0_R. cbv zeta. destr_dec; rol_leaf w x y z g0 g1 g2 dt. Qed.
Lemma rol_am0 w x y z g0 g1 g2 dt :
  C13_rol_am0_R w x y z g0 g1 g2 dt = Val (dr w x y z g0 g1 g2 dt ++ [1;1]).
Proof. unfold C13_rol_am0_R. cbv zeta. rol_leaf w x y z g0 g1 g2 dt. Qed.
Lemma rol_m0_w10 w x y z g0 g1 g2 a0 a1 a2 dt :
  C13_rol_m0_w10_R w x y z g0 g1 g2 a0 a1 a2 dt = Val (dr w x y z g0 g1 g2 dt ++ [1;0]).
Proof. unfold C13_rol_m0_w10_R. cbv zeta. try destr_dec; rol_leaf w x y z g0 g1 g2 dt. Qed.
Lemma rol_a0_w01 w x y z g0 g1 g2 m0 m1 m2 dt :
  C13_rol_a0_w01_R w x y z g0 g1 g2 m0 m1 m2 dt = Val (dr w x y z g0 g1 g2 dt ++ [0;1]).
Proof. unfold C13_rol_a0_w01_R. cbv zeta. try destr_dec; rol_leaf w x y z g0 g1 g2 dt. Qed.

(* ---- EKF: null acc returns the prior and leaves the covariance at its initial value; null mag is refused ------ *)
Definition P_ekf0 : list R := [1;0;0;0; 0;1;0;0; 0;0;1;0; 0;0;0;1].
Ltac ekf_gate Hq :=
  match goal with
  | |- context [Rle_dec (Rabs (sqrt ?e - 1)) ?c] =>
      let E := fresh in assert (E : e = 1) by (unfold sq4 in Hq; rewrite <- Hq; ring); rewrite E; clear E; rewrite sqrt_1;
      replace (1 - 1) with 0 by ring; rewrite Rabs_R0; destruct (Rle_dec 0 c); [|exfalso; lra]
  end.
Lemma ekf_a0 w x y z g0 g1 g2 dt : sq4 w x y z = 1 ->
  C13_ekf_a0_R w x y z g0 g1 g2 dt = Val ([w;x;y;z] ++ P_ekf0).
Proof. intros Hq. unfold C13_ekf_a0_R. ekf_gate Hq. reflexivity. Qed.
Lemma ekf_a0_mag w x y z g0 g1 g2 m0 m1 m2 dt : sq4 w x y z = 1 ->
  C13_ekf_a0_mag_R w x y z g0 g1 g2 m0 m1 m2 dt = Val ([w;x;y;z] ++ P_ekf0).
Proof. intros Hq. unfold C13_ekf_a0_mag_R. ekf_gate Hq. reflexivity. Qed.
Lemma ekf_m0 w x y z g0 g1 g2 a0 a1 a2 dt : sq4 w x y z = 1 ->
  C13_ekf_m0_R w x y z g0 g1 g2 a0 a1 a2 dt = Raise ValueError \/
  (a0 = 0 /\ a1 = 0 /\ a2 = 0 /\ C13_ekf_m0_R w x y z g0 g1 g2 a0 a1 a2 dt = Val [w;x;y;z]).
Proof.
  intros Hq. unfold C13_ekf_m0_R. ekf_gate Hq.
  destruct (Req_EM_T 0 (sqrt (a0 * a0 + a1 * a1 + a2 * a2))) as [Ha|Ha].
  - right. apply sqrt3_0 in Ha. destruct Ha as (-> & -> & ->). repeat split; reflexivity.
  - left. reflexivity.
Qed.
(* outside the unit gate EKF refuses the a-priori quaternion: no path of the null-sample targets reaches LAPACK *)
Lemma ekf_never_other w x y z g0 g1 g2 a0 a1 a2 dt :
  match C13_ekf_m0_R w x y z g0 g1 g2 a0 a1 a2 dt with Val l => l = [w;x;y;z] | Raise e => e = ValueError end.
Proof. unfold C13_ekf_m0_R. repeat destr_dec; reflexivity. Qed.

(* ---- UKF (with the guard of fix C13-ukf-acc-guard): null acc returns the prior, covariance untouched ---------- *)
Definition P_ukf0 : list R := [1/100;0;0;0; 0;1/100;0;0; 0;0;1/100;0; 0;0;0;1/100].
Lemma ukf_a0 w x y z g0 g1 g2 dt : C13_ukf_a0_R w x y z g0 g1 g2 dt = Val ([w;x;y;z] ++ P_ukf0).
Proof. reflexivity. Qed.

(* ---- FKF's measurement step (with fix C13-fkf-dropout): a null acc or mag sample is refused -------------------- *)
Lemma fkf_meas_a0 w x y z m0 m1 m2 : C13_fkf_meas_a0_R w x y z m0 m1 m2 = Raise ValueError.
Proof. reflexivity. Qed.
Lemma fkf_meas_m0 w x y z a0 a1 a2 : C13_fkf_meas_m0_R w x y z a0 a1 a2 = Raise ValueError.
Proof. unfold C13_fkf_meas_m0_R. destr_dec; reflexivity. Qed.
