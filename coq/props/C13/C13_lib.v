(* C13_lib.v — mathematics shared by the dropout theorems; independent of the generated code.
   dr      : the dead-reckoned step  q |-> (q + h/2 * q (x) (0,g)) / ||.||   (what every filter does on a dropout)
   dr_unit : it is a unit quaternion for every unit q, every g, every h (the norm it divides by is never 0)
   run / history_safe : a driver that threads a step through a history keeps the invariant at every sample, for every
                        set of dropout positions, and stops only by refusal (ValueError). *)
From Coq Require Import Reals List Lra Psatz.
From AhrsLib Require Import Base.
Import ListNotations.
Open Scope R_scope.

Definition sq4 (a b c d : R) : R := a*a + b*b + c*c + d*d.
Definition unit4 (l : list R) : Prop := match l with [a;b;c;d] => sq4 a b c d = 1 | _ => False end.

(* un-normalised dead-reckoned quaternion: q + (h/2) q (x) (0,g) *)
Definition dr0 (w x y z g0 g1 g2 h : R) : R := w + (h/2) * (- x*g0 - y*g1 - z*g2).
Definition dr1 (w x y z g0 g1 g2 h : R) : R := x + (h/2) * (w*g0 + y*g2 - z*g1).
Definition dr2 (w x y z g0 g1 g2 h : R) : R := y + (h/2) * (w*g1 - x*g2 + z*g0).
Definition dr3 (w x y z g0 g1 g2 h : R) : R := z + (h/2) * (w*g2 + x*g1 - y*g0).
Definition drn (w x y z g0 g1 g2 h : R) : R :=
  sqrt (sq4 (dr0 w x y z g0 g1 g2 h) (dr1 w x y z g0 g1 g2 h) (dr2 w x y z g0 g1 g2 h) (dr3 w x y z g0 g1 g2 h)).
Definition dr (w x y z g0 g1 g2 h : R) : list R :=
  [dr0 w x y z g0 g1 g2 h / drn w x y z g0 g1 g2 h; dr1 w x y z g0 g1 g2 h / drn w x y z g0 g1 g2 h;
   dr2 w x y z g0 g1 g2 h / drn w x y z g0 g1 g2 h; dr3 w x y z g0 g1 g2 h / drn w x y z g0 g1 g2 h].

(* the squared norm of the propagated quaternion: never below 1, so the division is always defined *)
Lemma dr_sq w x y z g0 g1 g2 h : sq4 w x y z = 1 ->
  sq4 (dr0 w x y z g0 g1 g2 h) (dr1 w x y z g0 g1 g2 h) (dr2 w x y z g0 g1 g2 h) (dr3 w x y z g0 g1 g2 h)
  = 1 + (h/2)*(h/2) * (g0*g0 + g1*g1 + g2*g2).
Proof.
  unfold sq4, dr0, dr1, dr2, dr3. intros H.
  replace 1 with (w*w + x*x + y*y + z*z) at 1 by exact H.
  replace ((h/2)*(h/2) * (g0*g0 + g1*g1 + g2*g2)) with ((h/2)*(h/2) * (g0*g0 + g1*g1 + g2*g2) * (w*w + x*x + y*y + z*z))
    by (rewrite H; ring).
  ring.
Qed.
Lemma dr_sq_ge1 w x y z g0 g1 g2 h : sq4 w x y z = 1 ->
  1 <= sq4 (dr0 w x y z g0 g1 g2 h) (dr1 w x y z g0 g1 g2 h) (dr2 w x y z g0 g1 g2 h) (dr3 w x y z g0 g1 g2 h).
Proof.
  intros H. rewrite (dr_sq _ _ _ _ _ _ _ _ H).
  pose proof (Rle_0_sqr (h/2)). pose proof (Rle_0_sqr g0). pose proof (Rle_0_sqr g1). pose proof (Rle_0_sqr g2).
  unfold Rsqr in *. nra.
Qed.
Lemma drn_ge1 w x y z g0 g1 g2 h : sq4 w x y z = 1 -> 1 <= drn w x y z g0 g1 g2 h.
Proof. intros H. unfold drn. rewrite <- sqrt_1 at 1. apply sqrt_le_1_alt. apply dr_sq_ge1; exact H. Qed.
Lemma drn_ne0 w x y z g0 g1 g2 h : sq4 w x y z = 1 -> drn w x y z g0 g1 g2 h <> 0.
Proof. intros H. pose proof (drn_ge1 w x y z g0 g1 g2 h H). lra. Qed.

(* a normalised non-zero 4-vector is unit *)
Lemma normalised_unit a b c d : sq4 a b c d <> 0 ->
  sq4 (a / sqrt (sq4 a b c d)) (b / sqrt (sq4 a b c d)) (c / sqrt (sq4 a b c d)) (d / sqrt (sq4 a b c d)) = 1.
Proof.
  intros H. assert (P : 0 <= sq4 a b c d) by (unfold sq4; nra).
  assert (N : sqrt (sq4 a b c d) <> 0) by (intros E; apply sqrt_eq_0 in E; [contradiction|exact P]).
  unfold sq4 at 1. field_simplify_eq; [|exact N].
  replace (sqrt (sq4 a b c d) ^ 2) with (sqrt (sq4 a b c d) * sqrt (sq4 a b c d)) by ring.
  rewrite sqrt_sqrt by exact P. unfold sq4. ring.
Qed.
(* DROPOUT STEP, mathematical core: dead reckoning maps unit quaternions to unit quaternions, for all g and h *)
Lemma dr_unit w x y z g0 g1 g2 h : sq4 w x y z = 1 -> unit4 (dr w x y z g0 g1 g2 h).
Proof.
  intros H. unfold dr, unit4, drn. apply normalised_unit.
  pose proof (dr_sq_ge1 w x y z g0 g1 g2 h H). lra.
Qed.
Lemma dr_g0 w x y z h : sq4 w x y z = 1 -> dr w x y z 0 0 0 h = [w;x;y;z].
Proof.
  intros H. unfold dr, drn. rewrite (dr_sq _ _ _ _ _ _ _ _ H).
  replace (1 + h / 2 * (h / 2) * (0 * 0 + 0 * 0 + 0 * 0)) with 1 by ring. rewrite sqrt_1.
  unfold dr0, dr1, dr2, dr3. list_eq; field.
Qed.


(* the same step with the rate quaternion multiplied from the left with the opposite sign, (0,-g) (x) q: AQUA's convention *)
Definition drL0 (w x y z g0 g1 g2 h : R) : R := w + (h/2) * (g0*x + g1*y + g2*z).
Definition drL1 (w x y z g0 g1 g2 h : R) : R := x + (h/2) * (- g0*w + g2*y - g1*z).
Definition drL2 (w x y z g0 g1 g2 h : R) : R := y + (h/2) * (- g1*w - g2*x + g0*z).
Definition drL3 (w x y z g0 g1 g2 h : R) : R := z + (h/2) * (- g2*w + g1*x - g0*y).
Definition drLn (w x y z g0 g1 g2 h : R) : R :=
  sqrt (sq4 (drL0 w x y z g0 g1 g2 h) (drL1 w x y z g0 g1 g2 h) (drL2 w x y z g0 g1 g2 h) (drL3 w x y z g0 g1 g2 h)).
Definition drL (w x y z g0 g1 g2 h : R) : list R :=
  [drL0 w x y z g0 g1 g2 h / drLn w x y z g0 g1 g2 h; drL1 w x y z g0 g1 g2 h / drLn w x y z g0 g1 g2 h;
   drL2 w x y z g0 g1 g2 h / drLn w x y z g0 g1 g2 h; drL3 w x y z g0 g1 g2 h / drLn w x y z g0 g1 g2 h].
Lemma drL_sq w x y z g0 g1 g2 h : sq4 w x y z = 1 ->
  sq4 (drL0 w x y z g0 g1 g2 h) (drL1 w x y z g0 g1 g2 h) (drL2 w x y z g0 g1 g2 h) (drL3 w x y z g0 g1 g2 h)
  = 1 + (h/2)*(h/2) * (g0*g0 + g1*g1 + g2*g2).
Proof.
  unfold sq4, drL0, drL1, drL2, drL3. intros H.
  replace 1 with (w*w + x*x + y*y + z*z) at 1 by exact H.
  replace ((h/2)*(h/2) * (g0*g0 + g1*g1 + g2*g2)) with ((h/2)*(h/2) * (g0*g0 + g1*g1 + g2*g2) * (w*w + x*x + y*y + z*z))
    by (rewrite H; ring).
  ring.
Qed.
Lemma drL_sq_ge1 w x y z g0 g1 g2 h : sq4 w x y z = 1 ->
  1 <= sq4 (drL0 w x y z g0 g1 g2 h) (drL1 w x y z g0 g1 g2 h) (drL2 w x y z g0 g1 g2 h) (drL3 w x y z g0 g1 g2 h).
Proof.
  intros H. rewrite (drL_sq _ _ _ _ _ _ _ _ H).
  pose proof (Rle_0_sqr (h/2)). pose proof (Rle_0_sqr g0). pose proof (Rle_0_sqr g1). pose proof (Rle_0_sqr g2).
  unfold Rsqr in *. nra.
Qed.
Lemma drLn_ge1 w x y z g0 g1 g2 h : sq4 w x y z = 1 -> 1 <= drLn w x y z g0 g1 g2 h.
Proof. intros H. unfold drLn. rewrite <- sqrt_1 at 1. apply sqrt_le_1_alt. apply drL_sq_ge1; exact H. Qed.
Lemma drL_unit w x y z g0 g1 g2 h : sq4 w x y z = 1 -> unit4 (drL w x y z g0 g1 g2 h).
Proof.
  intros H. unfold drL, unit4, drLn. apply normalised_unit.
  pose proof (drL_sq_ge1 w x y z g0 g1 g2 h H). lra.
Qed.

(* a zero norm means a zero vector *)
Lemma sqrt3_0 a b c : 0 = sqrt (a*a + b*b + c*c) -> a = 0 /\ b = 0 /\ c = 0.
Proof.
  intros E. symmetry in E. apply sqrt_eq_0 in E; [|nra].
  assert (a*a = 0 /\ b*b = 0 /\ c*c = 0) as (A & B & C) by (repeat split; nra).
  repeat split; apply Rsqr_0_uniq; exact A || exact B || exact C.
Qed.
Lemma sqrt3_pos a b c : 0 <> sqrt (a*a + b*b + c*c) -> 0 < sqrt (a*a + b*b + c*c).
Proof. intros N. pose proof (sqrt_pos (a*a + b*b + c*c)). lra. Qed.

(* re-normalising an already normalised vector divides by 1 *)
Lemma renorm a b c d n : n <> 0 -> n * n = a*a + b*b + c*c + d*d ->
  sqrt (a / n * (a / n) + b / n * (b / n) + c / n * (c / n) + d / n * (d / n)) = 1.
Proof.
  intros N E. replace (a / n * (a / n) + b / n * (b / n) + c / n * (c / n) + d / n * (d / n)) with 1; [apply sqrt_1|].
  field_simplify_eq; [|exact N]. replace (n ^ 2) with (n * n) by ring. rewrite E. ring.
Qed.
Lemma div_one x : x / 1 = x.
Proof. field. Qed.
Lemma sqrt_self_sq e : 0 <= e -> sqrt e * sqrt e = e.
Proof. apply sqrt_sqrt. Qed.
Lemma div_sqrt_eq a a' e e' : a = a' -> e = e' -> a / sqrt e = a' / sqrt e'.
Proof. intros -> ->; reflexivity. Qed.

(* ------------------------------------------------------------------------------------------------------------
   Histories.  A driver threads a step through the samples; None = the step refused (ValueError) and the run stops.
   `ok` is the invariant of the carried state (unit quaternion, finite bias / covariance).  The step is safe on valid
   samples (this is property C03's invariant, a premise here) and on dropout samples (the theorems of this property). *)
Section History.
  Variables (St Sample : Type).
  Variable step : St -> Sample -> option St.
  Variable ok : St -> Prop.
  Variable dropout : Sample -> bool.
  Hypothesis valid_step_safe   : forall s u, ok s -> dropout u = false -> match step s u with Some s' => ok s' | None => True end.
  Hypothesis dropout_step_safe : forall s u, ok s -> dropout u = true  -> match step s u with Some s' => ok s' | None => True end.

  (* the states emitted after each sample, and whether the run was stopped by a refusal *)
  Fixpoint run (s : St) (us : list Sample) : list St * bool :=
    match us with
    | [] => ([], false)
    | u :: us' => match step s u with
                  | None => ([], true)
                  | Some s' => let (l, stopped) := run s' us' in (s' :: l, stopped)
                  end
    end.

  Lemma step_safe s u : ok s -> match step s u with Some s' => ok s' | None => True end.
  Proof. intros H. destruct (dropout u) eqn:E; [apply dropout_step_safe|apply valid_step_safe]; assumption. Qed.

  (* every emitted state satisfies the invariant, whatever the positions of the dropouts; and unless a sample was
     refused, one state is emitted per sample *)
  Theorem history_safe : forall us s, ok s ->
    Forall ok (fst (run s us)) /\ (snd (run s us) = false -> length (fst (run s us)) = length us).
  Proof.
    induction us as [|u us IH]; intros s H; simpl.
    - split; [constructor|reflexivity].
    - pose proof (step_safe s u H) as S. destruct (step s u) as [s'|]; simpl.
      + destruct (IH s' S) as [A B]. destruct (run s' us) as [l st]; simpl in *.
        split; [constructor; assumption|]. intros E. rewrite (B E). reflexivity.
      + split; [constructor|discriminate].
  Qed.
End History.

(* ---- walking a generated term without expanding its lets (keeps the sharing of the source): every `let` becomes a
   fresh variable with its defining equation, every decision a case split ------------------------------------------- *)
Lemma let_intro {A B : Type} (e : A) (b : A -> B) (P : B -> Prop) : (forall x, x = e -> P (b x)) -> P (let x := e in b x).
Proof. intros H. exact (H e eq_refl). Qed.
Lemma if_intro {A B : Prop} {T : Type} (c : {A} + {B}) (a b : T) (P : T -> Prop) :
  (A -> P a) -> (B -> P b) -> P (if c then a else b).
Proof. intros; destruct c; auto. Qed.
Ltac walk :=
  repeat match goal with
  | |- ?P (let x := ?e in @?b x) =>
      let t := fresh "t" in let H := fresh "E" t in apply (@let_intro _ _ e b P); intros t H; cbv beta
  | |- ?P (if ?c then ?a else ?b) => apply (@if_intro _ _ _ c a b P); intro
  end.

(* the two halves of a 2n-list are the same (used for "[step with mag = 0, IMU step]" twin targets) *)
Definition halves_eq (n : nat) (o : outcome R) : Prop :=
  match o with Val l => firstn n l = skipn n l /\ length l = (2 * n)%nat | Raise e => e = ValueError end.

(* a leaf  pre ++ [a/n; b/n; c/n; d/n] ++ P  with n = ||(a,b,c,d)|| : the quaternion is unit unless (a,b,c,d) is zero *)
Definition norm_leaf (P : list R) (o : outcome R) : Prop :=
  match o with
  | Val (p0 :: p1 :: p2 :: p3 :: tl) => tl = P /\ (sq4 p0 p1 p2 p3 = 1 \/ (p0 = 0 /\ p1 = 0 /\ p2 = 0 /\ p3 = 0))
  | Val _ => False
  | Raise e => e = ValueError
  end.
Lemma unit_or_zero a b c d :
  sq4 (a / sqrt (a*a + b*b + c*c + d*d)) (b / sqrt (a*a + b*b + c*c + d*d)) (c / sqrt (a*a + b*b + c*c + d*d))
      (d / sqrt (a*a + b*b + c*c + d*d)) = 1 \/
  (a / sqrt (a*a + b*b + c*c + d*d) = 0 /\ b / sqrt (a*a + b*b + c*c + d*d) = 0 /\ c / sqrt (a*a + b*b + c*c + d*d) = 0 /\
   d / sqrt (a*a + b*b + c*c + d*d) = 0).
Proof.
  destruct (Req_EM_T (a*a + b*b + c*c + d*d) 0) as [E|E].
  - right. assert (a*a = 0 /\ b*b = 0 /\ c*c = 0 /\ d*d = 0) as (A & B & C & D) by (repeat split; nra).
    apply Rsqr_0_uniq in A, B, C, D. subst. unfold Rdiv. repeat split; ring.
  - left. apply (normalised_unit a b c d). exact E.
Qed.

(* ---- tactics shared by the per-filter files ------------------------------------------------------------- *)
(* sqrt(e) -> 1 for every e that equals the squared norm of the unit input quaternion; x/1 -> x *)
Ltac unit_sqrt H :=
  rewrite ?div_one;
  repeat (match goal with
  | |- context [sqrt (?a * ?a + ?b * ?b + ?c * ?c + ?d * ?d)] =>
      is_var a; is_var b; is_var c; is_var d;
      let E := fresh in assert (E : a * a + b * b + c * c + d * d = 1) by (unfold sq4 in H; rewrite <- H; ring);
      rewrite E; clear E; rewrite sqrt_1
  end; rewrite ?div_one).
Ltac gate1 := repeat match goal with
  | |- context [Req_EM_T 0 1] => destruct (Req_EM_T 0 1); [exfalso; lra|]
  end.
(* re-normalisation of an already normalised 4-vector divides by 1 *)
Ltac kill_renorm :=
  repeat match goal with
  | Hn : 0 <> ?n |- context [sqrt (?a / ?n * (?a / ?n) + ?b / ?n * (?b / ?n) + ?c / ?n * (?c / ?n) + ?d / ?n * (?d / ?n))] =>
      rewrite (renorm a b c d n) by
        first [ intros E0; apply Hn; symmetry; exact E0 | apply sqrt_sqrt; nra ];
      rewrite ?div_one
  end.
Ltac drf := unfold dr0, dr1, dr2, dr3; field.

(* the norm of a dead-reckoned quaternion is >= 1, so a zero test on it cannot fire *)
Lemma sumsq_dr w x y z g0 g1 g2 h a b c d :
  sq4 w x y z = 1 -> a = dr0 w x y z g0 g1 g2 h -> b = dr1 w x y z g0 g1 g2 h -> c = dr2 w x y z g0 g1 g2 h ->
  d = dr3 w x y z g0 g1 g2 h -> 0 = sqrt (a*a + b*b + c*c + d*d) -> False.
Proof.
  intros Hq -> -> -> -> Hz. pose proof (drn_ge1 w x y z g0 g1 g2 h Hq) as G. unfold drn, sq4 in G. rewrite <- Hz in G. lra.
Qed.
(* a leaf [a/n;b/n;c/n;d/n], n the norm of (a,b,c,d), with (a,b,c,d) the dead-reckoned vector *)
Lemma leaf_dr w x y z g0 g1 g2 h a b c d :
  a = dr0 w x y z g0 g1 g2 h -> b = dr1 w x y z g0 g1 g2 h -> c = dr2 w x y z g0 g1 g2 h -> d = dr3 w x y z g0 g1 g2 h ->
  [a / sqrt (a*a + b*b + c*c + d*d); b / sqrt (a*a + b*b + c*c + d*d); c / sqrt (a*a + b*b + c*c + d*d);
   d / sqrt (a*a + b*b + c*c + d*d)] = dr w x y z g0 g1 g2 h.
Proof. intros -> -> -> ->. reflexivity. Qed.
Lemma leaf_dr_b w x y z g0 g1 g2 h a b c d (tl : list R) :
  a = dr0 w x y z g0 g1 g2 h -> b = dr1 w x y z g0 g1 g2 h -> c = dr2 w x y z g0 g1 g2 h -> d = dr3 w x y z g0 g1 g2 h ->
  [a / sqrt (a*a + b*b + c*c + d*d); b / sqrt (a*a + b*b + c*c + d*d); c / sqrt (a*a + b*b + c*c + d*d);
   d / sqrt (a*a + b*b + c*c + d*d)] ++ tl = dr w x y z g0 g1 g2 h ++ tl.
Proof. intros -> -> -> ->. reflexivity. Qed.

(* the gyroscope zero test: in the zero branch the step returns q, which is dr q 0 h *)
Ltac case_gyr Hq g0 g1 g2 :=
  destruct (Req_EM_T 0 (sqrt (g0 * g0 + g1 * g1 + g2 * g2))) as [Hg|Hg];
  [ apply sqrt3_0 in Hg; destruct Hg as (-> & -> & ->); rewrite (dr_g0 _ _ _ _ _ Hq); try reflexivity | ].
(* the remaining zero test (on the norm of the propagated quaternion) and the leaf *)
Ltac dr_leaf Hq w x y z g0 g1 g2 h :=
  repeat match goal with
  | |- context [Req_EM_T 0 (sqrt ?e)] =>
      let Hz := fresh "Hz" in destruct (Req_EM_T 0 (sqrt e)) as [Hz|Hz];
      [ exfalso; eapply (sumsq_dr w x y z g0 g1 g2 h); [exact Hq| | | | |exact Hz]; drf | ]
  end;
  kill_renorm; apply Val_inj;
  first [ apply leaf_dr; drf | apply (leaf_dr_b w x y z g0 g1 g2 h); drf ].

