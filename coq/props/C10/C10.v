(* C10.v — property C10: attitude representations round-trip (Euler, axis-angle, log/exp, powers). Statements only. *)
From Coq Require Import Reals List Lra.
From AhrsLib Require Import Base Rot Atan2.
From AhrsGen Require Import C10gen_R.
From AhrsProps Require Import C10_defs C10_expdefs C10_euler C10_axang C10_explog C10_pow C10_state C10_seq C10_units C10_ctor_rpy C10_ctor_euler_zyx C10_ctor_xyz C10_mlog.
Import ListNotations.
Open Scope R_scope.

(* roll-pitch-yaw -> quaternion -> roll-pitch-yaw, |pitch| < PI/2, roll and yaw anywhere in (-PI, PI]; three entry points *)
Theorem C10_rpy_roundtrip : forall r p y, - PI < r <= PI -> - (PI / 2) < p < PI / 2 -> - PI < y <= PI ->
  C10_rpy_Q_R r p y = Val [r; p; y] /\ C10_rpy_QA_R r p y = Val [r; p; y] /\ C10_rpy_O_R r p y = Val [r; p; y].
Proof.
  intros r p y Hr Hp Hy. assert (D : rpy_dom r p y) by (unfold rpy_dom; tauto).
  split; [exact (rpy_Q_roundtrip r p y D)|]. split; [exact (rpy_QA_roundtrip r p y D)|exact (rpy_O_roundtrip r p y D)].
Qed.
Print Assumptions C10_rpy_roundtrip.

(* Quaternion(rpy=a) is yaw about z, then pitch about y, then roll about x *)
Theorem C10_rpy_quaternion_is_zyx_product : forall r p y,
  - (2 * PI) <= r <= 2 * PI -> - (2 * PI) <= p <= 2 * PI -> - (2 * PI) <= y <= 2 * PI ->
  C10_rpy_q_R r p y = Val (qmul [cos (y/2); 0; 0; sin (y/2)] (qmul [cos (p/2); 0; sin (p/2); 0] [cos (r/2); sin (r/2); 0; 0])).
Proof. intros r p y Hr Hp Hy. rewrite <- q_of_rpy_is_product. exact (rpy_q_spec r p y Hr Hp Hy). Qed.
Print Assumptions C10_rpy_quaternion_is_zyx_product.

(* (axis, theta) -> quaternion -> (axis/|axis|, theta), every non-zero axis, 0 < theta < PI; and back *)
Theorem C10_axang_roundtrip_q : forall ax ay az th, 0 < ax*ax + ay*ay + az*az -> 0 < th < PI ->
  let n := sqrt (ax*ax + ay*ay + az*az) in
  C10_axq_Q_R ax ay az th = Val [ax / n; ay / n; az / n; th] /\ C10_axq_O_R ax ay az th = Val [ax / n; ay / n; az / n; th].
Proof.
  intros ax ay az th Ha Ht. cbv zeta. split; [exact (axq_Q_roundtrip ax ay az th Ha Ht)|exact (axq_O_roundtrip ax ay az th Ha Ht)].
Qed.
Print Assumptions C10_axang_roundtrip_q.

Theorem C10_quaternion_axang_quaternion : forall w x y z, w*w + x*x + y*y + z*z = 1 -> 0 < x*x + y*y + z*z ->
  C10_qax_Q_R w x y z = Val [w; x; y; z].
Proof. exact qax_Q_roundtrip. Qed.
Print Assumptions C10_quaternion_axang_quaternion.

(* (axis, theta) -> matrix: Rodrigues' matrix, a proper rotation with trace 1 + 2 cos theta and antisymmetric part 2 sin theta [u]x;
   DCM(axang=) accepts it and to_axisangle returns (axis/|axis|, theta) *)
Theorem C10_axang_roundtrip_R : forall ax ay az th, 0 < ax*ax + ay*ay + az*az -> 0 < th < PI ->
  let n := sqrt (ax*ax + ay*ay + az*az) in
  C10_from_axang_R ax ay az th = Val (Rodrigues (ax / n) (ay / n) (az / n) th) /\
  SO3 (Rodrigues (ax / n) (ay / n) (az / n) th) /\
  tr3 (Rodrigues (ax / n) (ay / n) (az / n) th) = 1 + 2 * cos th /\
  C10_axR_R ax ay az th = Val [ax / n; ay / n; az / n; th].
Proof.
  intros ax ay az th Ha Ht. cbv zeta. pose proof (unit_dir ax ay az Ha) as U. unfold nrm3 in U.
  split; [exact (from_axang_spec ax ay az th Ha)|]. split; [exact (Rodrigues_SO3 _ _ _ th U)|].
  split; [exact (Rodrigues_trace _ _ _ th U)|exact (axR_roundtrip ax ay az th Ha Ht)].
Qed.
Print Assumptions C10_axang_roundtrip_R.

(* the logarithm of a unit non-real quaternion and exp o log = id (both spellings of the two properties) *)
Theorem C10_exp_log : forall w x y z, w*w + x*x + y*y + z*z = 1 -> 0 < x*x + y*y + z*z ->
  let n := sqrt (x*x + y*y + z*z) in
  C10_log_q_R w x y z = Val [0; x / n * acos w; y / n * acos w; z / n * acos w] /\
  C10_explog_R w x y z = Val [w; x; y; z] /\ C10_explog_syn_R w x y z = Val [w; x; y; z].
Proof.
  intros w x y z Hq Hv. cbv zeta. split; [exact (log_q_spec w x y z Hq Hv)|].
  split; [exact (explog_id w x y z Hq Hv)|exact (explog_syn_id w x y z Hq Hv)].
Qed.
Print Assumptions C10_exp_log.

(* q ** a is the rotation about the same axis by a times the angle; hence q**1 = q, q**0 = 1, q**a q**b = q**(a+b) *)
Theorem C10_power_laws : forall w x y z a b, w*w + x*x + y*y + z*z = 1 -> 0 < x*x + y*y + z*z ->
  let n := sqrt (x*x + y*y + z*z) in
  let P := fun k => versor_of (x / n) (y / n) (z / n) (k * acos w) in
  C10_pow_R w x y z a = Val (P a) /\ C10_pow_R w x y z b = Val (P b) /\ C10_pow_R w x y z (a + b) = Val (P (a + b)) /\
  P 1 = [w; x; y; z] /\ P 0 = qone /\ qmul (P a) (P b) = P (a + b) /\ qnorm2 (P a) = 1.
Proof.
  intros w x y z a b Hq Hv. cbv zeta.
  pose proof (polar_of_unit w x y z Hq Hv) as (_ & PC & PS & Pn). unfold nv3 in *.
  pose proof (unit_dir x y z Hv) as U. unfold nrm3 in U.
  split; [exact (pow_spec w x y z a Hq Hv)|]. split; [exact (pow_spec w x y z b Hq Hv)|].
  split; [exact (pow_spec w x y z (a + b) Hq Hv)|].
  split. { unfold versor_of. rewrite Rmult_1_l, PC, PS. list_eq; field; lra. }
  split. { rewrite Rmult_0_l. apply versor_of_0. }
  split. { rewrite (versor_of_mul _ _ _ _ _ U). f_equal. ring. }
  exact (versor_of_unit _ _ _ _ U).
Qed.
Print Assumptions C10_power_laws.

(* an exponent of integer type gives the same power as the same value as a float: q ** -1 is the conjugate *)
Theorem C10_integer_exponents : forall w x y z, w*w + x*x + y*y + z*z = 1 -> 0 < x*x + y*y + z*z ->
  C10_pow_int_m1_R w x y z = C10_pow_R w x y z (-1) /\ C10_pow_int_m1_R w x y z = Val (qconj [w; x; y; z]).
Proof.
  intros w x y z Hq Hv. split; [|exact (pow_int_m1_conj w x y z Hq Hv)].
  rewrite (pow_spec w x y z _ Hq Hv), (pow_int_m1_spec w x y z Hq Hv). do 2 f_equal. ring.
Qed.
Print Assumptions C10_integer_exponents.

(* the conversions do not modify their object: after exponential / exp / logarithm / to_axang / to_angles / ** on a (non-normalised)
   Quaternion object, np.asarray(q) and q.A still hold the numbers it was built from, on every path *)
Theorem C10_object_unchanged : forall w x y z a,
  unchanged 4 (C10_state_exp_R w x y z) w x y z /\ unchanged 4 (C10_state_exp_syn_R w x y z) w x y z /\
  unchanged 4 (C10_state_log_R w x y z) w x y z /\ unchanged 4 (C10_state_axang_R w x y z) w x y z /\
  unchanged 3 (C10_state_angles_R w x y z) w x y z /\ unchanged 4 (C10_state_pow_R w x y z a) w x y z.
Proof.
  intros w x y z a. split; [exact (state_exp_unchanged w x y z)|]. split; [exact (state_exp_syn_unchanged w x y z)|].
  split; [exact (state_log_unchanged w x y z)|]. split; [exact (state_axang_unchanged w x y z)|].
  split; [exact (state_angles_unchanged w x y z)|exact (state_pow_unchanged w x y z a)].
Qed.
Print Assumptions C10_object_unchanged.

(* elementary rotations and Euler sequences: ordered products, each factor and the product in SO(3) *)
Theorem C10_rot_seq_is_product : forall a b c,
  C10_rotation_x_R a = Val (Rx a) /\ C10_rotation_y_R a = Val (Ry a) /\ C10_rotation_z_R a = Val (Rz a) /\
  C10_rot_seq_x_R a = Val (Rx a) /\ C10_rot_seq_y_R a = Val (Ry a) /\ C10_rot_seq_z_R a = Val (Rz a) /\
  C10_rot_seq_zx_R a b = Val (mmul3 (Rz a) (Rx b)) /\ C10_rot_seq_xy_R a b = Val (mmul3 (Rx a) (Ry b)) /\
  C10_rot_seq_yy_R a b = Val (mmul3 (Ry a) (Ry b)) /\
  C10_rot_seq_zyx_R a b c = Val (mmul3 (Rz a) (mmul3 (Ry b) (Rx c))) /\
  C10_rot_seq_xyz_R a b c = Val (mmul3 (Rx a) (mmul3 (Ry b) (Rz c))) /\
  C10_rot_seq_zxz_R a b c = Val (mmul3 (Rz a) (mmul3 (Rx b) (Rz c))) /\
  C10_rot_seq_yxy_R a b c = Val (mmul3 (Ry a) (mmul3 (Rx b) (Ry c))) /\
  SO3 (Rx a) /\ SO3 (Ry a) /\ SO3 (Rz a) /\
  (forall A B C, SO3 A -> SO3 B -> SO3 C -> SO3 (mmul3 A B) /\ SO3 (mmul3 A (mmul3 B C))).
Proof.
  intros a b c.
  split; [exact (rotation_x_spec a)|]. split; [exact (rotation_y_spec a)|]. split; [exact (rotation_z_spec a)|].
  split; [exact (rot_seq_x_spec a)|]. split; [exact (rot_seq_y_spec a)|]. split; [exact (rot_seq_z_spec a)|].
  split; [exact (rot_seq_zx_spec a b)|]. split; [exact (rot_seq_xy_spec a b)|]. split; [exact (rot_seq_yy_spec a b)|].
  split; [exact (rot_seq_zyx_spec a b c)|]. split; [exact (rot_seq_xyz_spec a b c)|]. split; [exact (rot_seq_zxz_spec a b c)|].
  split; [exact (rot_seq_yxy_spec a b c)|].
  split; [exact (Rx_SO3 a)|]. split; [exact (Ry_SO3 a)|]. split; [exact (Rz_SO3 a)|].
  intros A B C HA HB HC. split; [exact (SO3_mul A B HA HB)|exact (seq3_SO3 A B C HA HB HC)].
Qed.
Print Assumptions C10_rot_seq_is_product.

(* unit flags: the degrees / in_deg / rad=False path on an angle in degrees is the default path on rad t = t PI / 180 *)
Theorem C10_degree_paths_agree : forall a b c w x y z,
  C10_rotation_deg_y_R a = C10_rotation_y_R (rad a) /\
  C10_rot_seq_deg_xz_R a b = C10_rot_seq_xz_R (rad a) (rad b) /\
  C10_rot_seq_deg_zyx_R a b c = C10_rot_seq_zyx_R (rad a) (rad b) (rad c) /\
  C10_rpy2q_deg_R a b c = C10_rpy2q_R (rad a) (rad b) (rad c) /\
  C10_q2rpy_deg_R w x y z = scale_out (180 / PI) (C10_q2rpy_R w x y z) /\
  C10_axang2quat_deg_R x y z a = C10_axang2quat_R x y z (rad a) /\
  (forall t, rad t = t * PI / 180).
Proof.
  intros a b c w x y z.
  split; [rewrite rotation_deg_y_spec, rotation_y_spec; reflexivity|].
  split; [rewrite rot_seq_deg_xz_spec, rot_seq_xz_spec; reflexivity|].
  split; [rewrite rot_seq_deg_zyx_spec, rot_seq_zyx_spec; reflexivity|].
  split; [exact (rpy2q_deg_is_rpy2q_rad a b c)|]. split; [exact (q2rpy_deg_is_scaled w x y z)|].
  split; [exact (axang2quat_deg_is_rad x y z a)|exact rad_is_pi_180].
Qed.
Print Assumptions C10_degree_paths_agree.

(* keyword constructors: DCM(euler=('zyx',.)), DCM(x=,y=,z=), DCM(rpy=) pass the SO(3) gate and are these products.
   PARTIAL for DCM(rpy=): it is Rz(a0) Ry(a1) Rx(a2), i.e. the FIRST angle turns about z — the opposite naming to
   Quaternion(rpy=) (known finding, refuted in C10_refuted.v) *)
Theorem C10_keyword_constructors_partial : forall a b c,
  C10_DCM_euler_zyx_R a b c = Val (mmul3 (Rz a) (mmul3 (Ry b) (Rx c))) /\
  C10_DCM_xyz_R a b c = Val (mmul3 (Rx a) (mmul3 (Ry b) (Rz c))) /\
  C10_DCM_rpy_R a b c = Val (mmul3 (Rz a) (mmul3 (Ry b) (Rx c))).
Proof. intros a b c. split; [exact (DCM_euler_zyx_spec a b c)|]. split; [exact (DCM_xyz_spec a b c)|exact (DCM_rpy_spec a b c)]. Qed.
Print Assumptions C10_keyword_constructors_partial.

(* matrix logarithm: skew-symmetric, Frobenius norm sqrt 2 * theta, for every 0 < theta < PI however small *)
Theorem C10_log_skew_norm : forall ax ay az th, 0 < ax*ax + ay*ay + az*az -> 0 < th < PI ->
  exists L, C10_DCM_log_axang_R ax ay az th = Val L /\
            madd3 L (mtr3 L) = [0;0;0;0;0;0;0;0;0] /\ sqrt (fro2 L) = sqrt 2 * th.
Proof.
  intros ax ay az th Ha Ht. eexists. split; [exact (DCM_log_axang_spec ax ay az th Ha Ht)|].
  split; [apply mlog_spec_skew|]. apply mlog_spec_norm; [|lra].
  pose proof (unit_dir ax ay az Ha) as U. unfold nrm3 in U. unfold nrm3'. exact U.
Qed.
Print Assumptions C10_log_skew_norm.

Example C10_nonvacuous :
  (- PI < 3/10 <= PI /\ - (PI / 2) < -1/2 < PI / 2) /\ (0 < 1*1 + 2*2 + 3*3 /\ 0 < 1/1000 < PI) /\
  ((1/2)*(1/2) + (1/2)*(1/2) + (1/2)*(1/2) + (1/2)*(1/2) = 1 /\ 0 < (1/2)*(1/2) + (1/2)*(1/2) + (1/2)*(1/2)).
Proof. pose proof PI_RGT_0. pose proof PI2_3_2 as H32. unfold PI2 in H32. repeat split; lra. Qed.
