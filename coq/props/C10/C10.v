From Coq Require Import Reals.
