(* C10_pow.v — q ** a = (cos (a t), u sin (a t)) for unit non-real q and every real a (see C10_expdefs.v). *)
From Coq Require Import Reals List Lra.
From AhrsLib Require Import Base Rot Atan2.
From AhrsGen Require Import C10gen_R.
From AhrsProps Require Import C10_expdefs.
Import ListNotations.
Open Scope R_scope.

(* ---- powers ---------------------------------------------------------------------------------- *)
Lemma pow_spec w x y z a : unitq4 w x y z -> nonreal x y z ->
  C10_pow_R w x y z a = Val (versor_of (x / nv3 x y z) (y / nv3 x y z) (z / nv3 x y z) (a * acos w)).
Proof.
  intros Hq Hv. unfold C10_pow_R, versor_of, nv3.
  pose proof (polar_of_unit w x y z Hq Hv) as ((T1 & T2) & PC & PS & _); unfold nv3 in PS.
  prep w x y z Hq Hv.
  kill_if_false. kill_gate_true.
  assert (Hu0 : ux * ux = 1 - uy * uy - uz * uz) by lra.
  clearbody ux uy uz.
  pose proof PI_RGT_0.
  destruct (Req_EM_T 0 w) as [E0|N0].
  - subst w. rewrite acos_0 in *.
    split_all; exp_leaf (a * (PI / 2)) ux uy uz Hu0.
  - split_all; exp_leaf (a * acos w) ux uy uz Hu0.
Qed.

