(* C10_explog.v — logarithm, exp o log = id and the real power of unit non-real quaternions (see C10_expdefs.v). *)
From Coq Require Import Reals List Lra.
From AhrsLib Require Import Base Rot Atan2.
From AhrsGen Require Import C10gen_R.
From AhrsProps Require Import C10_expdefs.
Import ListNotations.
Open Scope R_scope.

(* ---- logarithm ----------------------------------------------------------------------------- *)
Lemma log_q_spec w x y z : unitq4 w x y z -> nonreal x y z ->
  C10_log_q_R w x y z = Val [0; x / nv3 x y z * acos w; y / nv3 x y z * acos w; z / nv3 x y z * acos w].
Proof.
  intros Hq Hv. unfold C10_log_q_R, nv3. prep w x y z Hq Hv.
  kill_if_false. kill_gate_true.
  destruct (Req_EM_T 0 w) as [E|N].
  - subst w. rewrite acos_0. val_eq; try reflexivity; unfold ux, uy, uz; field; lra.
  - val_eq; try reflexivity; unfold ux, uy, uz; field; lra.
Qed.

(* ---- exp o log ------------------------------------------------------------------------------ *)
Lemma explog_id w x y z : unitq4 w x y z -> nonreal x y z -> C10_explog_R w x y z = Val [w; x; y; z].
Proof.
  intros Hq Hv. unfold C10_explog_R.
  assert (G : forall c s : R, c = w -> s = nv3 x y z ->
            Val [c; x * / nv3 x y z * s; y * / nv3 x y z * s; z * / nv3 x y z * s] = Val [w; x; y; z]).
  { intros c s -> ->. pose proof (polar_of_unit w x y z Hq Hv) as (_ & _ & _ & P). val_eq; try reflexivity; field; lra. }
  rewrite <- (G (cos (acos w)) (sin (acos w))); [| apply (polar_of_unit w x y z Hq Hv) | apply (polar_of_unit w x y z Hq Hv)].
  unfold nv3.
  pose proof (polar_of_unit w x y z Hq Hv) as ((T1 & T2) & PC & PS & _); unfold nv3 in PS |- *.
  prep w x y z Hq Hv.
  kill_if_false. kill_gate_true.
  assert (Hu0 : ux * ux = 1 - uy * uy - uz * uz) by lra.
  clearbody ux uy uz.
  pose proof PI_RGT_0.
  destruct (Req_EM_T 0 w) as [E0|N0].
  - subst w. rewrite acos_0 in *.
    split_all; exp_leaf (PI / 2) ux uy uz Hu0.
  - split_all; exp_leaf (acos w) ux uy uz Hu0.
Qed.

Lemma explog_syn_id w x y z : unitq4 w x y z -> nonreal x y z -> C10_explog_syn_R w x y z = Val [w; x; y; z].
Proof.
  intros Hq Hv. unfold C10_explog_syn_R.
  assert (G : forall c s : R, c = w -> s = nv3 x y z ->
            Val [c; x * / nv3 x y z * s; y * / nv3 x y z * s; z * / nv3 x y z * s] = Val [w; x; y; z]).
  { intros c s -> ->. pose proof (polar_of_unit w x y z Hq Hv) as (_ & _ & _ & P). val_eq; try reflexivity; field; lra. }
  rewrite <- (G (cos (acos w)) (sin (acos w))); [| apply (polar_of_unit w x y z Hq Hv) | apply (polar_of_unit w x y z Hq Hv)].
  unfold nv3.
  pose proof (polar_of_unit w x y z Hq Hv) as ((T1 & T2) & PC & PS & _); unfold nv3 in PS |- *.
  prep w x y z Hq Hv.
  kill_if_false. kill_gate_true.
  assert (Hu0 : ux * ux = 1 - uy * uy - uz * uz) by lra.
  clearbody ux uy uz.
  pose proof PI_RGT_0.
  destruct (Req_EM_T 0 w) as [E0|N0].
  - subst w. rewrite acos_0 in *.
    split_all; exp_leaf (PI / 2) ux uy uz Hu0.
  - split_all; exp_leaf (acos w) ux uy uz Hu0.
Qed.

Example explog_nonvacuous : unitq4 (1/2) (1/2) (1/2) (1/2) /\ nonreal (1/2) (1/2) (1/2) /\ unitq4 0 (3/5) 0 (4/5).
Proof. unfold unitq4, nonreal. repeat split; lra. Qed.
