(* C10_expdefs.v — definitions, polar form of a unit quaternion and the leaf tactics shared by C10_explog.v / C10_state.v.
   C10_explog.v — quaternion logarithm / exponential / power on unit, non-real quaternions.
     log q       = (0, u * acos w),  u = v/|v|
     exp (log q) = q                               (through .logarithm/.exponential and .log/.exp)
     q ** a      = (cos (a t), u sin (a t)),  t = acos w      [same axis, a times the angle]
   hence q**1 = q, q**0 = 1 and q**a * q**b = q**(a+b) (Hamilton product). *)
From Coq Require Import Reals List Lra.
From AhrsLib Require Import Base Rot Atan2.
From AhrsGen Require Import C10gen_R.
Import ListNotations.
Open Scope R_scope.

Definition nv3 (x y z : R) : R := sqrt (x * x + y * y + z * z).
Definition unitq4 (w x y z : R) : Prop := w * w + x * x + y * y + z * z = 1.
Definition nonreal (x y z : R) : Prop := 0 < x * x + y * y + z * z.

(* (cos k, u sin k): the rotation about the unit axis u by the angle 2k *)
Definition versor_of (ux uy uz k : R) : list R := [cos k; ux * sin k; uy * sin k; uz * sin k].

Lemma versor_of_mul ux uy uz j k : ux*ux + uy*uy + uz*uz = 1 ->
  qmul (versor_of ux uy uz j) (versor_of ux uy uz k) = versor_of ux uy uz (j + k).
Proof.
  intros Hu. unfold versor_of. unfold_rot. rewrite cos_plus, sin_plus. orient_unit. list_eq; hring.
Qed.

Lemma versor_of_0 ux uy uz : versor_of ux uy uz 0 = qone.
Proof. unfold versor_of, qone. rewrite cos_0, sin_0. list_eq; ring. Qed.

Lemma versor_of_unit ux uy uz k : ux*ux + uy*uy + uz*uz = 1 -> qnorm2 (versor_of ux uy uz k) = 1.
Proof.
  intros Hu. unfold versor_of, qnorm2. cbv [e List.nth]. pose proof (sin2_cos2 k) as H. unfold Rsqr in H.
  replace (cos k * cos k + ux * sin k * (ux * sin k) + uy * sin k * (uy * sin k) + uz * sin k * (uz * sin k))
    with (cos k * cos k + sin k * sin k * (ux*ux + uy*uy + uz*uz)) by ring.
  rewrite Hu. lra.
Qed.

(* a unit non-real quaternion is (cos t, u sin t) with t = acos w in (0, PI) and sin t = |v| *)
Lemma polar_of_unit w x y z : unitq4 w x y z -> nonreal x y z ->
  0 < acos w < PI /\ cos (acos w) = w /\ sin (acos w) = nv3 x y z /\ 0 < nv3 x y z.
Proof.
  unfold unitq4, nonreal, nv3. intros Hq Hv.
  assert (Hw : -1 < w < 1) by nra.
  assert (Hn0 : 0 < sqrt (x * x + y * y + z * z)) by (apply sqrt_lt_R0; exact Hv).
  pose proof (acos_bound w) as [B1 B2].
  assert (C : cos (acos w) = w) by (apply cos_acos; lra).
  assert (S : sin (acos w) = sqrt (x * x + y * y + z * z)).
  { rewrite sin_acos by lra. f_equal. unfold Rsqr. lra. }
  repeat split; try assumption.
  - destruct (Req_dec (acos w) 0) as [E|NE]; [|lra]. rewrite E, cos_0 in C. lra.
  - destruct (Req_dec (acos w) PI) as [E|NE]; [|lra]. rewrite E, cos_PI in C. lra.
Qed.

(* ---- shared preparation: unit norm is inert, abstract the unit axis ----------------------- *)
Ltac prep w x y z Hq Hv :=
  unfold unitq4, nonreal in Hq, Hv;
  cbv zeta;
  replace (w * w + x * x + y * y + z * z) with 1 by (rewrite <- Hq; ring); rewrite sqrt_1; gate_01;
  unfold Rdiv; rewrite ?Rinv_1, ?Rmult_1_r;
  replace (w * w + x * x + y * y + z * z) with 1 by (rewrite <- Hq; ring); rewrite ?sqrt_1;
  replace (1 - 1) with 0 by ring; rewrite ?Rabs_R0;
  let Hn0 := fresh "Hn0" in let Hn := fresh "Hn" in let Hu := fresh "Hu" in
  assert (Hn0 : 0 < sqrt (x * x + y * y + z * z)) by (apply sqrt_lt_R0; exact Hv);
  assert (Hn : sqrt (x * x + y * y + z * z) * sqrt (x * x + y * y + z * z) = x * x + y * y + z * z) by (apply sqrt_sqrt; lra);
  set (nv := sqrt (x * x + y * y + z * z)) in *;
  assert (Hu : (x * / nv) * (x * / nv) + (y * / nv) * (y * / nv) + (z * / nv) * (z * / nv) = 1)
    by (replace (x * / nv * (x * / nv) + y * / nv * (y * / nv) + z * / nv * (z * / nv)) with ((x*x + y*y + z*z) / (nv * nv)) by (field; lra);
        rewrite <- Hn; field; lra);
  set (ux := x * / nv) in *; set (uy := y * / nv) in *; set (uz := z * / nv) in *.

Ltac kill_if_false := match goal with |- (if Req_EM_T ?a ?b then _ else _) = _ => destruct (Req_EM_T a b) as [?E|_]; [exfalso; lra|] end.
Ltac kill_gate_true := match goal with |- (if Rle_dec ?a ?b then _ else _) = _ => destruct (Rle_dec a b) as [_|?N]; [|exfalso; lra] end.

(* one leaf of the exponential of the pure quaternion K*u (K = the real multiplying the unit axis) *)
Ltac rf := first [ring | field].
Ltac hr Hu0 := first [ring [Hu0] | field_simplify_eq; ring [Hu0]].

Ltac k_nonzero K ux uy uz :=
  first [ lra
        | let Z := fresh "Z" in intros Z;
          match goal with N : 0 <> ?p |- _ =>
            apply N; first [replace p with (K * ux) by rf | replace p with (K * uy) by rf | replace p with (K * uz) by rf];
            rewrite Z; rf end ].

Ltac exp_leaf K ux uy uz Hu0 :=
  lazymatch goal with
  | |- Raise _ = _ =>
      exfalso;
      match goal with E : 0 = sqrt ?e |- _ =>
        let H := fresh in assert (H : e = K * K) by (hr Hu0); rewrite H, sqrt_sq_abs in E; clear H;
        let HK := fresh "HK" in assert (HK : K <> 0) by (k_nonzero K ux uy uz);
        apply HK; revert E; unfold Rabs; destruct (Rcase_abs K); lra
      end
  | |- Val [1; 0; 0; 0] = _ =>
      let Z := fresh "Z" in
      assert (Z : K = 0)
        by (match goal with E1 : 0 = ?p1, E2 : 0 = ?p2, E3 : 0 = ?p3 |- _ =>
              replace K with (p1 * ux + p2 * uy + p3 * uz) by (hr Hu0); rewrite <- E1, <- E2, <- E3; rf end);
      first [ exfalso; lra | rewrite Z, cos_0, sin_0; val_eq; ring ]
  | |- Val _ = _ =>
      match goal with |- context [sqrt ?e] =>
        let H := fresh in assert (H : e = K * K) by (hr Hu0); rewrite H in *; clear H end;
      rewrite sqrt_sq_abs in *;
      let HK := fresh "HK" in
      assert (HK : K <> 0) by (let Z := fresh "Z" in intros Z; match goal with N : 0 <> Rabs K |- _ => apply N; rewrite Z, Rabs_R0; reflexivity end);
      destruct (Rtotal_order K 0) as [Kn|[Kz|Kp]]; [|exfalso; exact (HK Kz)|];
      [rewrite (Rabs_left K Kn), cos_neg, sin_neg | rewrite (Rabs_right K) by lra];
      repeat match goal with |- context [?p * / _] =>
        progress (first [replace p with (K * ux) by rf | replace p with (K * uy) by rf | replace p with (K * uz) by rf]) end;
      let k := fresh "k" in set (k := K) in *; clearbody k;
      val_eq; try reflexivity; field; lra
  end.

Ltac split_all := repeat match goal with |- (if Req_EM_T ?a ?b then _ else _) = _ => destruct (Req_EM_T a b) as [?E|?N] end.

