(* C10_refuted.v — witness, inside the regenerated model, of the known finding
   "DCM(rpy)/angle-order-differs-from-Quaternion(rpy)": DCM(rpy=[a0,a1,a2]) turns by a0 about z and a2 about x, while
   Quaternion(rpy=[a0,a1,a2]) turns by a0 about x and a2 about z.  Compiled separately: if the two constructors are made
   to agree this file stops compiling and the check reports the finding as repaired. *)
From Coq Require Import Reals List Lra.
From AhrsLib Require Import Base Rot Atan2.
From AhrsGen Require Import C10gen_R.
From AhrsProps Require Import C10_defs C10_ctor_rpy C10_euler.
Import ListNotations.
Open Scope R_scope.

Theorem C10_rpy_convention_refuted : exists a0 a1 a2 M q,
  - PI < a0 <= PI /\ - (PI / 2) < a1 < PI / 2 /\ - PI < a2 <= PI /\
  C10_DCM_rpy_R a0 a1 a2 = Val M /\ C10_rpy_q_R a0 a1 a2 = Val q /\ M <> Rspec q.
Proof.
  pose proof PI_RGT_0 as Hpi.
  exists (PI / 2), 0, 0, (mmul3 (Rz (PI / 2)) (mmul3 (Ry 0) (Rx 0))), (q_of_rpy (PI / 2) 0 0).
  split; [lra|]. split; [lra|]. split; [lra|].
  split; [apply DCM_rpy_spec|]. split; [apply rpy_q_spec; lra|].
  intros E. apply (f_equal (fun l => List.nth 0 l 0)) in E. revert E.
  unfold Rz, Ry, Rx, q_of_rpy, Rspec, mmul3. cbv zeta. cbv [e List.nth].
  replace (0 / 2) with 0 by field. rewrite cos_PI2, cos_0, sin_0. lra.
Qed.
Print Assumptions C10_rpy_convention_refuted.
