(* C10_ctor_rpy.v — DCM(rpy=), DCM(euler=), DCM(x=,y=,z=): the SO(3) gate accepts the product and returns it. *)
From Coq Require Import Reals List Lra.
From AhrsLib Require Import Base Rot Atan2.
From AhrsGen Require Import C10gen_R.
From AhrsProps Require Import C10_defs.
Import ListNotations.
Open Scope R_scope.

(* the keyword constructors go through the SO(3) gate, which accepts these products *)
Ltac gate_leaf :=
  whole_turns; rewrite ?cos_0, ?sin_0;
  repeat match goal with |- context [cos ?t] =>
    let c := fresh "c" in let s := fresh "s" in let H := fresh "Hcs" in
    pose proof (sc1s t) as H; set (c := cos t) in *; set (s := sin t) in *; clearbody c s end;
  orient_unit;
  repeat match goal with
  | |- (if Rle_dec (Rabs ?e) ?c then _ else _) = _ =>
      let H := fresh in assert (H : Rabs e <= c) by (replace e with 0 by (first [ring | hring]); rewrite Rabs_R0; lra);
      destruct (Rle_dec (Rabs e) c); [clear H|contradiction]
  end;
  val_eq; first [ring | hring].
Ltac split_eq_head := repeat match goal with |- (if Req_EM_T ?a ?b then _ else _) = _ => destruct (Req_EM_T a b) as [?E|?N] end.
Ltac gate_proof := cbv zeta; unfold Rx, Ry, Rz; unfold_rot; split_eq_head; gate_leaf.

Lemma DCM_rpy_spec a b c : C10_DCM_rpy_R a b c = Val (mmul3 (Rz a) (mmul3 (Ry b) (Rx c))).
Proof. unfold C10_DCM_rpy_R. gate_proof. Qed.
