(* C10_mlog.v — the matrix logarithm of the rotation about a (non-zero) axis by 0 < theta < PI, through
   DCM(axang=(axis, theta)).log : it is theta * [u]x up to the library's sign convention (R^T - R), hence skew-symmetric
   with Frobenius norm sqrt(2) * theta — for every such theta, however small (no tolerance shortcut after the C10 fix). *)
From Coq Require Import Reals List Lra.
From AhrsLib Require Import Base Rot Atan2.
From AhrsGen Require Import C10gen_R.
Import ListNotations.
Open Scope R_scope.

Definition nrm3' (a b c : R) : R := sqrt (a * a + b * b + c * c).
(* - theta [u]x *)
Definition mlog_spec (ux uy uz th : R) : list R :=
  [0; th * uz; - (th * uy);  - (th * uz); 0; th * ux;  th * uy; - (th * ux); 0].
Definition fro2 (A : list R) : R :=
  e A 0 * e A 0 + e A 1 * e A 1 + e A 2 * e A 2 + e A 3 * e A 3 + e A 4 * e A 4 + e A 5 * e A 5 + e A 6 * e A 6 + e A 7 * e A 7 + e A 8 * e A 8.
Definition madd3 (A B : list R) : list R :=
  [e A 0 + e B 0; e A 1 + e B 1; e A 2 + e B 2; e A 3 + e B 3; e A 4 + e B 4; e A 5 + e B 5; e A 6 + e B 6; e A 7 + e B 7; e A 8 + e B 8].

Lemma mlog_spec_skew ux uy uz th : madd3 (mlog_spec ux uy uz th) (mtr3 (mlog_spec ux uy uz th)) = [0;0;0;0;0;0;0;0;0].
Proof. unfold madd3, mlog_spec, mtr3. cbv [e List.nth]. list_eq; ring. Qed.

Lemma mlog_spec_norm ux uy uz th : ux*ux + uy*uy + uz*uz = 1 -> 0 <= th ->
  sqrt (fro2 (mlog_spec ux uy uz th)) = sqrt 2 * th.
Proof.
  intros Hu Ht. unfold fro2, mlog_spec. cbv [e List.nth].
  replace (0 * 0 + th * uz * (th * uz) + - (th * uy) * - (th * uy) + - (th * uz) * - (th * uz) + 0 * 0 + th * ux * (th * ux)
           + th * uy * (th * uy) + - (th * ux) * - (th * ux) + 0 * 0) with (2 * (th * th) * (ux*ux + uy*uy + uz*uz)) by ring.
  rewrite Hu, Rmult_1_r. rewrite sqrt_mult by nra. rewrite sqrt_square by exact Ht. reflexivity.
Qed.

Lemma sc1m a : sin a * sin a + cos a * cos a = 1.
Proof. pose proof (sin2_cos2 a) as H. unfold Rsqr in H. exact H. Qed.

Ltac gate0 :=
  match goal with
  | |- (if Rle_dec (Rabs ?e) ?c then _ else _) = _ =>
      let H := fresh in assert (H : Rabs e <= c) by (replace e with 0 by hring; rewrite Rabs_R0; lra);
      destruct (Rle_dec (Rabs e) c); [clear H|contradiction]
  end.

Lemma DCM_log_axang_spec ax ay az th : 0 < ax*ax + ay*ay + az*az -> 0 < th < PI ->
  C10_DCM_log_axang_R ax ay az th = Val (mlog_spec (ax / nrm3' ax ay az) (ay / nrm3' ax ay az) (az / nrm3' ax ay az) th).
Proof.
  intros Hpos [T1 T2]. unfold C10_DCM_log_axang_R, nrm3', mlog_spec. cbv zeta.
  assert (Hn0 : 0 < sqrt (ax * ax + ay * ay + az * az)) by (apply sqrt_lt_R0; exact Hpos).
  assert (Hn : sqrt (ax * ax + ay * ay + az * az) * sqrt (ax * ax + ay * ay + az * az) = ax * ax + ay * ay + az * az)
    by (apply sqrt_sqrt; lra).
  set (n := sqrt (ax * ax + ay * ay + az * az)) in *.
  assert (Hu : (ax / n) * (ax / n) + (ay / n) * (ay / n) + (az / n) * (az / n) = 1).
  { replace (ax / n * (ax / n) + ay / n * (ay / n) + az / n * (az / n)) with ((ax*ax + ay*ay + az*az) / (n * n)) by (field; lra).
    rewrite <- Hn. field. lra. }
  set (ux := ax / n) in *; set (uy := ay / n) in *; set (uz := az / n) in *. clearbody ux uy uz. clear Hn.
  pose proof (sc1m th) as Hs.
  assert (S0 : 0 < sin th) by (apply sin_gt_0; lra).
  pose proof (atan2_sincos1 th) as A.
  set (s := sin th) in *. set (c := cos th) in *. orient_unit.
  do 10 gate0.
  match goal with
  | |- context [sqrt ?r] => let H := fresh in assert (H : r = s * s) by (field_simplify_eq; hring); rewrite H; clear H
  end.
  rewrite sqrt_sq_abs. rewrite Rabs_right by lra.
  destruct (Req_EM_T 0 s) as [E|_]; [exfalso; lra|].
  match goal with |- context [atan2 s (1 / 2 * ?X)] => replace X with (2 * c) by hring end.
  replace (1 / 2 * (2 * c)) with c by field.
  rewrite A by lra.
  val_eq; try reflexivity; field; lra.
Qed.

Example mlog_nonvacuous : sqrt (fro2 (mlog_spec 1 0 0 (1/1000))) = sqrt 2 * (1/1000).
Proof. apply mlog_spec_norm; [ring|lra]. Qed.
