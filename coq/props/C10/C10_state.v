(* C10_state.v — (1) the conversions leave their Quaternion object untouched: the targets return
   [result, np.asarray(q) after the call, q.A after the call] for a NON-normalised object, and on every path the trailing
   eight numbers are the four inputs twice (a method that normalises / rescales a view of the storage in place breaks this);
   (2) an exponent given as a Python int gives the same power as the same value given as a float (q ** -1, q ** 2). *)
From Coq Require Import Reals List Lra.
From AhrsLib Require Import Base Rot Atan2.
From AhrsGen Require Import C10gen_R.
From AhrsProps Require Import C10_expdefs.
Import ListNotations.
Open Scope R_scope.


Definition unchanged (k : nat) (o : outcome R) (w x y z : R) : Prop :=
  match o with Val l => skipn k l = [w; x; y; z; w; x; y; z] | Raise _ => True end.

Ltac all_paths := cbv zeta; repeat destr_dec; simpl; try exact I; reflexivity.

Lemma state_exp_unchanged w x y z : unchanged 4 (C10_state_exp_R w x y z) w x y z.
Proof. unfold unchanged, C10_state_exp_R. all_paths. Qed.
Lemma state_exp_syn_unchanged w x y z : unchanged 4 (C10_state_exp_syn_R w x y z) w x y z.
Proof. unfold unchanged, C10_state_exp_syn_R. all_paths. Qed.
Lemma state_log_unchanged w x y z : unchanged 4 (C10_state_log_R w x y z) w x y z.
Proof. unfold unchanged, C10_state_log_R. all_paths. Qed.
Lemma state_axang_unchanged w x y z : unchanged 4 (C10_state_axang_R w x y z) w x y z.
Proof. unfold unchanged, C10_state_axang_R. all_paths. Qed.
Lemma state_angles_unchanged w x y z : unchanged 3 (C10_state_angles_R w x y z) w x y z.
Proof. unfold unchanged, C10_state_angles_R. all_paths. Qed.
Lemma state_pow_unchanged w x y z a : unchanged 4 (C10_state_pow_R w x y z a) w x y z.
Proof. unfold unchanged, C10_state_pow_R. all_paths. Qed.

(* integer-typed exponents *)
Lemma pow_int_m1_spec w x y z : unitq4 w x y z -> nonreal x y z ->
  C10_pow_int_m1_R w x y z = Val (versor_of (x / nv3 x y z) (y / nv3 x y z) (z / nv3 x y z) (- acos w)).
Proof.
  intros Hq Hv. unfold C10_pow_int_m1_R, versor_of, nv3.
  pose proof (polar_of_unit w x y z Hq Hv) as ((T1 & T2) & PC & PS & _); unfold nv3 in PS.
  prep w x y z Hq Hv.
  kill_if_false. kill_gate_true.
  assert (Hu0 : ux * ux = 1 - uy * uy - uz * uz) by lra.
  clearbody ux uy uz.
  pose proof PI_RGT_0.
  destruct (Req_EM_T 0 w) as [E0|N0].
  - subst w. rewrite acos_0 in *.
    split_all; exp_leaf (- (PI / 2)) ux uy uz Hu0.
  - split_all; exp_leaf (- acos w) ux uy uz Hu0.
Qed.

(* q ** -1 (integer exponent) is the conjugate *)
Lemma pow_int_m1_conj w x y z : unitq4 w x y z -> nonreal x y z -> C10_pow_int_m1_R w x y z = Val (qconj [w; x; y; z]).
Proof.
  intros Hq Hv. rewrite (pow_int_m1_spec w x y z Hq Hv).
  pose proof (polar_of_unit w x y z Hq Hv) as (_ & PC & PS & Pn).
  unfold versor_of, qconj. cbv [e List.nth]. rewrite cos_neg, sin_neg, PC, PS. val_eq; try reflexivity; field; lra.
Qed.

Example state_nonvacuous : unchanged 4 (Val [9; 9; 9; 9; 1; 2; 3; 4; 1; 2; 3; 4]) 1 2 3 4 /\ ~ unchanged 4 (Val [9; 9; 9; 9; 1; 1; 3; 4; 1; 2; 3; 4]) 1 2 3 4.
Proof. split; [reflexivity|]. unfold unchanged. simpl. intros E. injection E. intros. lra. Qed.
