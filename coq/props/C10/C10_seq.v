(* C10_seq.v — rotation / rot_seq: every path of the model equals the ordered product of elementary rotations. *)
From Coq Require Import Reals List Lra.
From AhrsLib Require Import Base Rot Atan2.
From AhrsGen Require Import C10gen_R.
From AhrsProps Require Import C10_defs.
Import ListNotations.
Open Scope R_scope.

Lemma rotation_x_spec t : C10_rotation_x_R t = Val (Rx t).  Proof. unfold C10_rotation_x_R. seq_proof. Qed.
Lemma rotation_y_spec t : C10_rotation_y_R t = Val (Ry t).  Proof. unfold C10_rotation_y_R. seq_proof. Qed.
Lemma rotation_z_spec t : C10_rotation_z_R t = Val (Rz t).  Proof. unfold C10_rotation_z_R. seq_proof. Qed.

Lemma rot_seq_x_spec t : C10_rot_seq_x_R t = Val (Rx t).  Proof. unfold C10_rot_seq_x_R. seq_proof. Qed.
Lemma rot_seq_y_spec t : C10_rot_seq_y_R t = Val (Ry t).  Proof. unfold C10_rot_seq_y_R. seq_proof. Qed.
Lemma rot_seq_z_spec t : C10_rot_seq_z_R t = Val (Rz t).  Proof. unfold C10_rot_seq_z_R. seq_proof. Qed.
Lemma rot_seq_zx_spec a b : C10_rot_seq_zx_R a b = Val (mmul3 (Rz a) (Rx b)).  Proof. unfold C10_rot_seq_zx_R. seq_proof. Qed.
Lemma rot_seq_xy_spec a b : C10_rot_seq_xy_R a b = Val (mmul3 (Rx a) (Ry b)).  Proof. unfold C10_rot_seq_xy_R. seq_proof. Qed.
Lemma rot_seq_yy_spec a b : C10_rot_seq_yy_R a b = Val (mmul3 (Ry a) (Ry b)).  Proof. unfold C10_rot_seq_yy_R. seq_proof. Qed.
Lemma rot_seq_zyx_spec a b c : C10_rot_seq_zyx_R a b c = Val (mmul3 (Rz a) (mmul3 (Ry b) (Rx c))).
Proof. unfold C10_rot_seq_zyx_R. seq_proof. Qed.
Lemma rot_seq_xyz_spec a b c : C10_rot_seq_xyz_R a b c = Val (mmul3 (Rx a) (mmul3 (Ry b) (Rz c))).
Proof. unfold C10_rot_seq_xyz_R. seq_proof. Qed.
Lemma rot_seq_zxz_spec a b c : C10_rot_seq_zxz_R a b c = Val (mmul3 (Rz a) (mmul3 (Rx b) (Rz c))).
Proof. unfold C10_rot_seq_zxz_R. seq_proof. Qed.
Lemma rot_seq_yxy_spec a b c : C10_rot_seq_yxy_R a b c = Val (mmul3 (Ry a) (mmul3 (Rx b) (Ry c))).
Proof. unfold C10_rot_seq_yxy_R. seq_proof. Qed.

Lemma seq3_SO3 A B C : SO3 A -> SO3 B -> SO3 C -> SO3 (mmul3 A (mmul3 B C)).
Proof. intros HA HB HC. apply SO3_mul; [exact HA|apply SO3_mul; assumption]. Qed.

Example seq_nonvacuous : mmul3 (Rz 0) (Rx 0) = I3 /\ e (Rz (PI / 2)) 3 = 1.
Proof. split; [unfold Rz, Rx; unfold_rot; rewrite cos_0, sin_0; list_eq; ring | unfold Rz; cbv [e List.nth]; apply sin_PI2]. Qed.
