(* C10_units.v — unit flags: every conversion of the C10 anchors that takes a degrees / in_deg / rad option gives, on an
   angle in degrees, exactly what the default call gives on the converted angle  rad t = t * (PI / 180)  (and q2rpy(in_deg=True)
   is q2rpy scaled by 180 / PI).  A second conversion (or none) anywhere on the flagged path breaks these. *)
From Coq Require Import Reals List Lra.
From AhrsLib Require Import Base Rot Atan2.
From AhrsGen Require Import C10gen_R.
From AhrsProps Require Import C10_defs.
Import ListNotations.
Open Scope R_scope.

Definition rad (t : R) : R := t * ((1 / 180) * PI).
Lemma rad_is_pi_180 t : rad t = t * PI / 180.
Proof. unfold rad. field. Qed.

Lemma rad_0 : rad 0 = 0.
Proof. unfold rad. ring. Qed.

(* recognise the conversion of a variable t however the product is written, and fold it into  rad t  *)
Ltac fold_rad t :=
  try (replace (t * (1 / 180 * PI)) with (rad t) by reflexivity);
  try (replace (1 / 180 * PI * t) with (rad t) by (unfold rad; ring));
  try (replace (t * (PI / 180)) with (rad t) by (unfold rad; field));
  try (replace (PI / 180 * t) with (rad t) by (unfold rad; field));
  try (replace (t / 2 * (1 / 180 * PI)) with (rad t / 2) by (unfold rad; field));
  try (replace (1 / 180 * PI * (t / 2)) with (rad t / 2) by (unfold rad; field)).

Ltac zeros := repeat match goal with
  | E : ?t = 0 |- _ => is_var t; subst t
  | E : 0 = ?t |- _ => is_var t; subst t end.
Ltac units_leaf := zeros; whole_turns; rewrite ?rad_0, ?cos_0, ?sin_0; val_eq; ring.
Ltac units_proof := unfold Rx, Ry, Rz; unfold_rot; split_eq; units_leaf.

Lemma rotation_deg_y_spec t : C10_rotation_deg_y_R t = Val (Ry (rad t)).
Proof. unfold C10_rotation_deg_y_R. cbv zeta. fold_rad t. units_proof. Qed.
Lemma rot_seq_xz_spec a b : C10_rot_seq_xz_R a b = Val (mmul3 (Rx a) (Rz b)).
Proof. unfold C10_rot_seq_xz_R. seq_proof. Qed.
Lemma rot_seq_deg_xz_spec a b : C10_rot_seq_deg_xz_R a b = Val (mmul3 (Rx (rad a)) (Rz (rad b))).
Proof. unfold C10_rot_seq_deg_xz_R. cbv zeta. fold_rad a. fold_rad b. units_proof. Qed.
Lemma rot_seq_deg_zyx_spec a b c : C10_rot_seq_deg_zyx_R a b c = Val (mmul3 (Rz (rad a)) (mmul3 (Ry (rad b)) (Rx (rad c)))).
Proof. unfold C10_rot_seq_deg_zyx_R. cbv zeta. fold_rad a. fold_rad b. fold_rad c. units_proof. Qed.

Lemma rpy2q_deg_is_rpy2q_rad r p y : C10_rpy2q_deg_R r p y = C10_rpy2q_R (rad r) (rad p) (rad y).
Proof. unfold C10_rpy2q_deg_R, C10_rpy2q_R. cbv zeta. fold_rad r. fold_rad p. fold_rad y. reflexivity. Qed.

Definition scale_out (k : R) (o : outcome R) : outcome R :=
  match o with Val l => Val (map (fun v => v * k) l) | Raise e => Raise e end.
Lemma q2rpy_deg_is_scaled w x y z : C10_q2rpy_deg_R w x y z = scale_out (180 / PI) (C10_q2rpy_R w x y z).
Proof. unfold C10_q2rpy_deg_R, C10_q2rpy_R, scale_out. cbv zeta. simpl. first [reflexivity | val_eq; ring]. Qed.

Lemma axang2quat_deg_is_rad ax ay az th : C10_axang2quat_deg_R ax ay az th = C10_axang2quat_R ax ay az (rad th).
Proof. unfold C10_axang2quat_deg_R, C10_axang2quat_R. cbv zeta. fold_rad th. reflexivity. Qed.

Example units_nonvacuous : rad 180 = PI /\ e (Ry (rad 90)) 2 = 1.
Proof.
  split; [unfold rad; field|]. unfold Ry. cbv [e List.nth]. replace (rad 90) with (PI / 2) by (unfold rad; field). apply sin_PI2.
Qed.
