(* C10_axang.v — axis-angle round trips, for every non-zero axis and 0 < theta < PI:
   (axis, theta) -> quaternion -> (axis/|axis|, theta)      [axang2quat + Quaternion.to_axang / quat2axang]
   quaternion -> axis-angle -> quaternion                    [unit, non-real q]
   (axis, theta) -> matrix: the Rodrigues matrix, in SO(3), trace 1 + 2 cos theta      [DCM.from_axisangle]
   (axis, theta) -> DCM(axang=) (through the SO(3) gate) -> to_axisangle = (axis/|axis|, theta) *)
From Coq Require Import Reals List Lra.
From AhrsLib Require Import Base Rot Atan2.
From AhrsGen Require Import C10gen_R.
Import ListNotations.
Open Scope R_scope.

Definition nrm3 (a b c : R) : R := sqrt (a * a + b * b + c * c).

Lemma sc1' a : sin a * sin a + cos a * cos a = 1.
Proof. pose proof (sin2_cos2 a) as H. unfold Rsqr in H. exact H. Qed.

(* Rodrigues rotation matrix of a unit axis *)
Definition Rodrigues (ux uy uz th : R) : list R :=
  let c := cos th in let s := sin th in let v := 1 - cos th in
  [c + v*ux*ux;     v*ux*uy - s*uz;  v*ux*uz + s*uy;
   v*ux*uy + s*uz;  c + v*uy*uy;     v*uy*uz - s*ux;
   v*ux*uz - s*uy;  v*uy*uz + s*ux;  c + v*uz*uz].

Lemma Rodrigues_SO3 ux uy uz th : ux*ux + uy*uy + uz*uz = 1 -> SO3 (Rodrigues ux uy uz th).
Proof.
  intros Hu. pose proof (sc1' th) as Hs. unfold Rodrigues. cbv zeta.
  set (c := cos th) in *. set (s := sin th) in *. orient_unit.
  unfold SO3. split; [reflexivity|]. unfold_rot. split; [list_eq; hring|]. split; [list_eq; hring|hring].
Qed.

Lemma Rodrigues_trace ux uy uz th : ux*ux + uy*uy + uz*uz = 1 -> tr3 (Rodrigues ux uy uz th) = 1 + 2 * cos th.
Proof. intros Hu. unfold Rodrigues, tr3. cbv zeta. cbv [e List.nth]. orient_unit. hring. Qed.

(* antisymmetric part = 2 sin(theta) [u]x *)
Lemma Rodrigues_antisym ux uy uz th :
  let M := Rodrigues ux uy uz th in
  [e M 7 - e M 5; e M 2 - e M 6; e M 3 - e M 1] = [2 * sin th * ux; 2 * sin th * uy; 2 * sin th * uz].
Proof. cbv zeta. unfold Rodrigues. cbv zeta. cbv [e List.nth]. list_eq; ring. Qed.

(* ---- abstraction of a non-zero axis into its unit direction ---------------------------- *)
Ltac unit_axis ax ay az Hpos :=
  let n := fresh "n" in let Hn := fresh "Hn" in let Hn0 := fresh "Hn0" in
  let Hu := fresh "Hu" in
  assert (Hn0 : 0 < sqrt (ax * ax + ay * ay + az * az)) by (apply sqrt_lt_R0; exact Hpos);
  assert (Hn : sqrt (ax * ax + ay * ay + az * az) * sqrt (ax * ax + ay * ay + az * az) = ax * ax + ay * ay + az * az)
    by (apply sqrt_sqrt; lra);
  set (n := sqrt (ax * ax + ay * ay + az * az)) in *;
  assert (Hu : (ax / n) * (ax / n) + (ay / n) * (ay / n) + (az / n) * (az / n) = 1)
    by (replace (ax / n * (ax / n) + ay / n * (ay / n) + az / n * (az / n)) with ((ax*ax + ay*ay + az*az) / (n * n)) by (field; lra);
        rewrite <- Hn; field; lra);
  set (ux := ax / n) in *; set (uy := ay / n) in *; set (uz := az / n) in *;
  clearbody ux uy uz; clear Hn.

(* innermost square roots first: those whose radicand contains no other square root *)
Ltac no_sqrt e := lazymatch e with context [sqrt _] => fail | _ => idtac end.
Ltac sqrt_is_1 :=
  repeat (match goal with
  | |- context [sqrt ?e] => no_sqrt e; let H := fresh in assert (H : e = 1) by hring; rewrite H; clear H; rewrite sqrt_1
  end; unfold Rdiv; rewrite ?Rinv_1, ?Rmult_1_r).

(* sqrt ((s*ux)² + (s*uy)² + (s*uz)²) = s for 0 <= s and a unit u *)
Ltac sqrt_is s :=
  match goal with
  | |- context [sqrt ?e] => no_sqrt e; let H := fresh in assert (H : e = s * s) by hring; rewrite H; clear H;
                            rewrite sqrt_sq_abs, Rabs_right by lra
  end.

(* ---- (axis, theta) -> quaternion -> (axis, theta) --------------------------------------- *)
Lemma axq_Q_roundtrip ax ay az th : 0 < ax*ax + ay*ay + az*az -> 0 < th < PI ->
  C10_axq_Q_R ax ay az th = Val [ax / nrm3 ax ay az; ay / nrm3 ax ay az; az / nrm3 ax ay az; th].
Proof.
  intros Hpos [T1 T2]. unfold C10_axq_Q_R, nrm3. cbv zeta.
  replace (ax * ax + ay * ay + az * az) with (ax * ax + ay * ay + az * az) in * by ring.
  unit_axis ax ay az Hpos.
  pose proof (sc1' (th / 2)) as Hs.
  assert (S0 : 0 < sin (th / 2)) by (apply sin_gt_0; lra).
  assert (C0 : 0 < cos (th / 2)) by (apply cos_gt_0; lra).
  pose proof (atan2_sincos1 (th / 2)) as A.
  set (s := sin (th / 2)) in *. set (c := cos (th / 2)) in *. orient_unit.
  sqrt_is_1. gate_01. unfold Rdiv; rewrite ?Rinv_1, ?Rmult_1_r.
  sqrt_is s. rewrite A by lra.
  match goal with |- (if Req_EM_T 0 ?e then _ else _) = _ => destruct (Req_EM_T 0 e) as [E|_]; [exfalso; lra|] end.
  val_eq; field; lra.
Qed.

Lemma axq_O_roundtrip ax ay az th : 0 < ax*ax + ay*ay + az*az -> 0 < th < PI ->
  C10_axq_O_R ax ay az th = Val [ax / nrm3 ax ay az; ay / nrm3 ax ay az; az / nrm3 ax ay az; th].
Proof.
  intros Hpos [T1 T2]. unfold C10_axq_O_R, nrm3. cbv zeta.
  unit_axis ax ay az Hpos.
  pose proof (sc1' (th / 2)) as Hs.
  assert (S0 : 0 < sin (th / 2)) by (apply sin_gt_0; lra).
  assert (C0 : 0 < cos (th / 2)) by (apply cos_gt_0; lra).
  pose proof (atan2_sincos1 (th / 2)) as A.
  set (s := sin (th / 2)) in *. set (c := cos (th / 2)) in *. orient_unit.
  sqrt_is_1.
  sqrt_is s. rewrite A by lra.
  match goal with |- (if Req_EM_T 0 ?e then _ else _) = _ => destruct (Req_EM_T 0 e) as [E|_]; [exfalso; lra|] end.
  val_eq; field; lra.
Qed.

(* ---- quaternion -> axis-angle -> quaternion (unit, non-real) ------------------------------ *)
Lemma qax_Q_roundtrip w x y z : w*w + x*x + y*y + z*z = 1 -> 0 < x*x + y*y + z*z ->
  C10_qax_Q_R w x y z = Val [w; x; y; z].
Proof.
  intros Hq Hv. unfold C10_qax_Q_R. cbv zeta.
  replace (w * w + x * x + y * y + z * z) with 1 by (rewrite <- Hq; ring). rewrite sqrt_1. gate_01.
  unfold Rdiv; rewrite ?Rinv_1, ?Rmult_1_r.
  assert (Hn0 : 0 < sqrt (x * x + y * y + z * z)) by (apply sqrt_lt_R0; exact Hv).
  assert (Hn : sqrt (x * x + y * y + z * z) * sqrt (x * x + y * y + z * z) = x * x + y * y + z * z) by (apply sqrt_sqrt; lra).
  set (nv := sqrt (x * x + y * y + z * z)) in *.
  (* (w, nv) is a point of the unit circle with nv > 0: its angle is t in (0, PI) *)
  assert (Hwn : w * w + nv * nv = 1) by (rewrite Hn; rewrite <- Hq; ring).
  pose proof (atan2_polar w nv) as P. rewrite Hwn, sqrt_1, !Rmult_1_l in P. destruct P as [Pw Pn]; [lra|].
  pose proof (atan2_range nv w) as [Rg1 Rg2].
  set (t := atan2 nv w) in *.
  assert (T0 : t <> 0). { intros E. rewrite E, sin_0 in Pn. lra. }
  destruct (Req_EM_T 0 (2 * t)) as [E|_]; [exfalso; lra|].
  replace (2 * t * / 2) with t by field.
  (* the axis v/nv is a unit vector *)
  assert (Hu : (x * / nv) * (x * / nv) + (y * / nv) * (y * / nv) + (z * / nv) * (z * / nv) = 1).
  { replace (x * / nv * (x * / nv) + y * / nv * (y * / nv) + z * / nv * (z * / nv)) with ((x*x + y*y + z*z) / (nv * nv)) by (field; lra).
    rewrite <- Hn. field. lra. }
  match goal with |- context [sqrt ?e] => replace e with 1 by (rewrite <- Hu; ring) end.
  rewrite sqrt_1. rewrite ?Rinv_1, ?Rmult_1_r.
  pose proof (sc1' t) as Hs.
  assert (E1 : cos t * cos t + sin t * (x * / nv) * (sin t * (x * / nv)) + sin t * (y * / nv) * (sin t * (y * / nv))
               + sin t * (z * / nv) * (sin t * (z * / nv)) = 1).
  { replace (cos t * cos t + sin t * (x * / nv) * (sin t * (x * / nv)) + sin t * (y * / nv) * (sin t * (y * / nv))
             + sin t * (z * / nv) * (sin t * (z * / nv)))
      with (cos t * cos t + sin t * sin t * ((x * / nv) * (x * / nv) + (y * / nv) * (y * / nv) + (z * / nv) * (z * / nv))) by ring.
    rewrite Hu. lra. }
  rewrite E1, sqrt_1. rewrite ?Rinv_1, ?Rmult_1_r.
  rewrite <- Pw, <- Pn. val_eq; try reflexivity; field; lra.
Qed.

(* ---- (axis, theta) -> matrix ------------------------------------------------------------ *)
Lemma from_axang_spec ax ay az th : 0 < ax*ax + ay*ay + az*az ->
  C10_from_axang_R ax ay az th = Val (Rodrigues (ax / nrm3 ax ay az) (ay / nrm3 ax ay az) (az / nrm3 ax ay az) th).
Proof.
  intros Hpos. unfold C10_from_axang_R, nrm3, Rodrigues. cbv zeta.
  unit_axis ax ay az Hpos. orient_unit. val_eq; hring.
Qed.

Lemma unit_dir ax ay az : 0 < ax*ax + ay*ay + az*az ->
  (ax / nrm3 ax ay az) * (ax / nrm3 ax ay az) + (ay / nrm3 ax ay az) * (ay / nrm3 ax ay az) + (az / nrm3 ax ay az) * (az / nrm3 ax ay az) = 1.
Proof.
  intros Hpos. unfold nrm3.
  assert (Hn0 : 0 < sqrt (ax * ax + ay * ay + az * az)) by (apply sqrt_lt_R0; exact Hpos).
  assert (Hn : sqrt (ax * ax + ay * ay + az * az) * sqrt (ax * ax + ay * ay + az * az) = ax * ax + ay * ay + az * az)
    by (apply sqrt_sqrt; lra).
  set (n := sqrt (ax * ax + ay * ay + az * az)) in *.
  replace (ax / n * (ax / n) + ay / n * (ay / n) + az / n * (az / n)) with ((ax*ax + ay*ay + az*az) / (n * n)) by (field; lra).
  rewrite <- Hn. field. lra.
Qed.

(* ---- (axis, theta) -> DCM(axang=) -> to_axisangle ----------------------------------------- *)
Ltac gate0 :=
  match goal with
  | |- (if Rle_dec (Rabs ?e) ?c then _ else _) = _ =>
      let H := fresh in assert (H : Rabs e <= c) by (replace e with 0 by hring; rewrite Rabs_R0; lra);
      destruct (Rle_dec (Rabs e) c); [clear H|contradiction]
  end.

Lemma axR_roundtrip ax ay az th : 0 < ax*ax + ay*ay + az*az -> 0 < th < PI ->
  C10_axR_R ax ay az th = Val [ax / nrm3 ax ay az; ay / nrm3 ax ay az; az / nrm3 ax ay az; th].
Proof.
  intros Hpos [T1 T2]. unfold C10_axR_R, nrm3. cbv zeta.
  unit_axis ax ay az Hpos.
  pose proof (sc1' th) as Hs.
  assert (S0 : 0 < sin th) by (apply sin_gt_0; lra).
  pose proof (atan2_sincos1 th) as A.
  set (s := sin th) in *. set (c := cos th) in *. orient_unit.
  do 10 gate0.
  match goal with
  | |- context [sqrt ?e] => let H := fresh in assert (H : e = (2 * s) * (2 * s)) by hring; rewrite H; clear H
  end.
  rewrite sqrt_sq_abs. rewrite Rabs_right by lra.
  destruct (Req_EM_T 0 (2 * s)) as [E|_]; [exfalso; lra|].
  replace (1 / 2 * (2 * s)) with s by field.
  match goal with |- context [atan2 s (1 / 2 * ?X)] => replace X with (2 * c) by hring end.
  replace (1 / 2 * (2 * c)) with c by field.
  rewrite A by lra.
  val_eq; field; lra.
Qed.

Example axang_nonvacuous : 0 < 1*1 + 2*2 + 3*3 /\ 0 < 7/10 < PI /\ tr3 (Rodrigues 1 0 0 (PI / 2)) = 1.
Proof.
  pose proof PI_RGT_0. pose proof PI2_3_2 as H32. unfold PI2 in H32.
  split; [lra|]. split; [lra|]. rewrite Rodrigues_trace by ring. rewrite cos_PI2. ring.
Qed.
