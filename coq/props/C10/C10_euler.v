(* C10_euler.v — roll-pitch-yaw -> quaternion -> roll-pitch-yaw is the identity for |pitch| < PI/2, roll and yaw in
   (-PI, PI], through Quaternion(rpy=).to_angles(), QuaternionArray(rpy=).to_angles() and rpy2q/q2rpy.
   Key facts: 2(wx+yz) = cos p sin r, 1-2(x²+y²) = cos p cos r, 2(wy-zx) = sin p (polynomial identities in the
   half-angle sines/cosines), then AhrsLib.Atan2.atan2_sincos with k = cos p > 0, and asin_sin. *)
From Coq Require Import Reals List Lra.
From AhrsLib Require Import Base Rot Atan2.
From AhrsGen Require Import C10gen_R.
Import ListNotations.
Open Scope R_scope.

Definition rpy_dom (r p y : R) : Prop := - PI < r <= PI /\ - (PI / 2) < p < PI / 2 /\ - PI < y <= PI.

(* the quaternion of the angles, textbook (yaw about z, then pitch about y, then roll about x) *)
Definition q_of_rpy (r p y : R) : list R :=
  let cr := cos (r / 2) in let sr := sin (r / 2) in let cp := cos (p / 2) in let sp := sin (p / 2) in
  let cy := cos (y / 2) in let sy := sin (y / 2) in
  [cy*cp*cr + sy*sp*sr; cy*cp*sr - sy*sp*cr; cy*sp*cr + sy*cp*sr; sy*cp*cr - cy*sp*sr].

Lemma q_of_rpy_is_product r p y :
  q_of_rpy r p y = qmul [cos (y/2); 0; 0; sin (y/2)] (qmul [cos (p/2); 0; sin (p/2); 0] [cos (r/2); sin (r/2); 0; 0]).
Proof. unfold q_of_rpy. unfold_rot. list_eq; ring. Qed.

Lemma half a : (1 / 2) * a = a / 2. Proof. field. Qed.
Lemma sin_dbl a : sin a = 2 * sin (a / 2) * cos (a / 2).
Proof. rewrite <- sin_2a. f_equal. field. Qed.
Lemma cos_dbl a : cos a = 1 - 2 * sin (a / 2) * sin (a / 2).
Proof. rewrite <- cos_2a_sin. f_equal. field. Qed.
Lemma sc1 a : sin a * sin a + cos a * cos a = 1.
Proof. pose proof (sin2_cos2 a) as H. unfold Rsqr in H. exact H. Qed.

(* abstract the six half-angle sines and cosines, keeping s² = 1 - c² as oriented rewrite rules *)
Ltac half_angles r p y :=
  rewrite ?half;
  pose proof (sc1 (r / 2)) as Hr_; pose proof (sc1 (p / 2)) as Hp_; pose proof (sc1 (y / 2)) as Hy_;
  pose proof (sin_dbl r) as Sr_; pose proof (cos_dbl r) as Cr_;
  pose proof (sin_dbl p) as Sp_; pose proof (cos_dbl p) as Cp_;
  pose proof (sin_dbl y) as Sy_; pose proof (cos_dbl y) as Cy_;
  set (sr := sin (r / 2)) in *; set (cr := cos (r / 2)) in *;
  set (sp := sin (p / 2)) in *; set (cp := cos (p / 2)) in *;
  set (sy := sin (y / 2)) in *; set (cy := cos (y / 2)) in *;
  orient_unit.

(* the three angle formulas on the unit quaternion of the angles *)
Lemma angles_of_q r p y : rpy_dom r p y ->
  let q := q_of_rpy r p y in let w := e q 0 in let x := e q 1 in let yy := e q 2 in let z := e q 3 in
  atan2 (2 * (w * x + yy * z)) (1 - 2 * (x * x + yy * yy)) = r /\
  asin (2 * (w * yy - z * x)) = p /\
  atan2 (2 * (w * z + x * yy)) (1 - 2 * (yy * yy + z * z)) = y.
Proof.
  intros ((R1 & R2) & (P1 & P2) & (Y1 & Y2)). pose proof PI_RGT_0 as Hpi.
  assert (Hcp : 0 < cos p) by (apply cos_gt_0; lra).
  cbv zeta. unfold q_of_rpy. cbv [e List.nth].
  half_angles r p y.
  repeat split.
  - replace (2 * _) with (cos p * sin r) by (rewrite Cp_, Sr_; hring).
    replace (1 - _) with (cos p * cos r) by (rewrite Cp_, Cr_; hring).
    apply atan2_sincos; lra.
  - replace (2 * _) with (sin p) by (rewrite Sp_; hring).
    apply asin_sin; lra.
  - replace (2 * _) with (cos p * sin y) by (rewrite Cp_, Sy_; hring).
    replace (1 - _) with (cos p * cos y) by (rewrite Cp_, Cy_; hring).
    apply atan2_sincos; lra.
Qed.

Lemma q_of_rpy_unit r p y : qnorm2 (q_of_rpy r p y) = 1.
Proof. unfold q_of_rpy, qnorm2. cbv zeta. cbv [e List.nth]. half_angles r p y. hring. Qed.

(* Quaternion(rpy=a) is that quaternion (the constructor's normalisation is inert) *)
Lemma rpy_q_spec r p y : - (2 * PI) <= r <= 2 * PI -> - (2 * PI) <= p <= 2 * PI -> - (2 * PI) <= y <= 2 * PI ->
  C10_rpy_q_R r p y = Val (q_of_rpy r p y).
Proof.
  intros Hr Hp Hy. unfold C10_rpy_q_R. cbv zeta.
  repeat match goal with |- (if Rlt_dec ?a ?b then _ else _) = _ => destruct (Rlt_dec a b); [exfalso; lra|] end.
  pose proof (q_of_rpy_unit r p y) as U. unfold q_of_rpy, qnorm2 in U |- *. cbv zeta in U |- *. cbv [e List.nth] in U.
  rewrite ?half in *.
  set (sr := sin (r / 2)) in *; set (cr := cos (r / 2)) in *; set (sp := sin (p / 2)) in *; set (cp := cos (p / 2)) in *;
  set (sy := sin (y / 2)) in *; set (cy := cos (y / 2)) in *.
  match goal with |- context [sqrt ?a] => replace a with 1 by (rewrite <- U; ring) end.
  rewrite sqrt_1. gate_01. div1. val_eq; ring.
Qed.

(* from here: each round-trip target equals [r; p; y] *)
Ltac finish_angles r p y :=
  let A := fresh "A" in let A1 := fresh "A1" in let A2 := fresh "A2" in let A3 := fresh "A3" in
  pose proof (angles_of_q r p y) as A; cbv zeta in A; unfold q_of_rpy in A; cbv [e List.nth] in A; rewrite ?half;
  match goal with H : rpy_dom r p y |- _ => destruct (A H) as (A1 & A2 & A3) end;
  unfold Rdiv in *;
  val_eq; [etransitivity; [|exact A1]; apply f_equal2 | etransitivity; [|exact A2]; apply f_equal
          | etransitivity; [|exact A3]; apply f_equal2]; ring.

Ltac norm_is_1 r p y :=
  let U := fresh "U" in
  pose proof (q_of_rpy_unit r p y) as U; unfold q_of_rpy, qnorm2 in U; cbv zeta in U; cbv [e List.nth] in U;
  rewrite ?half in *; unfold Rdiv in *;
  match goal with |- context [sqrt ?a] => replace a with 1 by (rewrite <- U; ring) end;
  rewrite sqrt_1; rewrite ?Rinv_1, ?Rmult_1_r.

Lemma rpy_Q_roundtrip r p y : rpy_dom r p y -> C10_rpy_Q_R r p y = Val [r; p; y].
Proof.
  intros D. pose proof D as ((R1 & R2) & (P1 & P2) & (Y1 & Y2)). pose proof PI_RGT_0 as Hpi.
  unfold C10_rpy_Q_R. cbv zeta.
  repeat match goal with |- (if Rlt_dec ?a ?b then _ else _) = _ => destruct (Rlt_dec a b); [exfalso; lra|] end.
  norm_is_1 r p y. gate_01. div1.
  finish_angles r p y.
Qed.

Lemma rpy_O_roundtrip r p y : rpy_dom r p y -> C10_rpy_O_R r p y = Val [r; p; y].
Proof.
  intros D. unfold C10_rpy_O_R. cbv zeta.
  norm_is_1 r p y.
  finish_angles r p y.
Qed.

Lemma rpy_QA_roundtrip r p y : rpy_dom r p y -> C10_rpy_QA_R r p y = Val [r; p; y].
Proof.
  intros D. unfold C10_rpy_QA_R. cbv zeta.
  norm_is_1 r p y.
  (* the array constructor's own norm of the already normalised row *)
  norm_is_1 r p y.
  destruct (Rlt_dec 0 1); [|lra].
  finish_angles r p y.
Qed.

Example rpy_dom_inhabited : rpy_dom (3/10) (-1/2) (6/5) /\ rpy_dom PI (7/5) (-3).
Proof.
  pose proof PI_RGT_0. unfold rpy_dom. pose proof PI2_3_2 as H32. pose proof PI_4 as H4. unfold PI2 in H32.
  repeat split; lra.
Qed.
