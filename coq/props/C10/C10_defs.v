(* C10_defs.v — elementary rotation matrices and the tactics shared by C10_seq.v / C10_ctor.v.
   C10_seq.v — a matrix built from an Euler sequence is the ordered product of the elementary rotations, each in SO(3).
   rotation(ax, t) returns the identity when t == 0 or t mod 2 PI == 0 (exact tests after the C10 fix): then cos t = 1 and
   sin t = 0 (AhrsLib.Atan2.fmod_2PI_0), so every path of the model equals the product. *)
From Coq Require Import Reals List Lra.
From AhrsLib Require Import Base Rot Atan2.
From AhrsGen Require Import C10gen_R.
Import ListNotations.
Open Scope R_scope.

Definition Rx (t : R) : list R := [1; 0; 0;  0; cos t; - sin t;  0; sin t; cos t].
Definition Ry (t : R) : list R := [cos t; 0; sin t;  0; 1; 0;  - sin t; 0; cos t].
Definition Rz (t : R) : list R := [cos t; - sin t; 0;  sin t; cos t; 0;  0; 0; 1].

Lemma sc1s a : sin a * sin a + cos a * cos a = 1.
Proof. pose proof (sin2_cos2 a) as H. unfold Rsqr in H. exact H. Qed.

Lemma Rx_SO3 t : SO3 (Rx t).
Proof. pose proof (sc1s t) as H. unfold Rx, SO3. set (c := cos t) in *. set (s := sin t) in *. orient_unit.
  split; [reflexivity|]. unfold_rot. split; [list_eq; hring|]. split; [list_eq; hring|hring]. Qed.
Lemma Ry_SO3 t : SO3 (Ry t).
Proof. pose proof (sc1s t) as H. unfold Ry, SO3. set (c := cos t) in *. set (s := sin t) in *. orient_unit.
  split; [reflexivity|]. unfold_rot. split; [list_eq; hring|]. split; [list_eq; hring|hring]. Qed.
Lemma Rz_SO3 t : SO3 (Rz t).
Proof. pose proof (sc1s t) as H. unfold Rz, SO3. set (c := cos t) in *. set (s := sin t) in *. orient_unit.
  split; [reflexivity|]. unfold_rot. split; [list_eq; hring|]. split; [list_eq; hring|hring]. Qed.

Lemma I3_SO3 : SO3 I3.
Proof. unfold SO3. split; [reflexivity|]. unfold_rot. split; [list_eq; ring|]. split; [list_eq; ring|ring]. Qed.

Ltac split_eq := repeat match goal with |- context [Req_EM_T ?a ?b] => destruct (Req_EM_T a b) as [?E|?N] end.
Ltac whole_turns :=
  repeat match goal with
  | E : 0 = Rfmod ?t (2 * PI) |- _ =>
      let C := fresh "C" in let S := fresh "S" in destruct (fmod_2PI_0 t (eq_sym E)) as [C S]; clear E; rewrite ?C, ?S
  | E : 0 = ?t |- _ => is_var t; subst t
  end.
Ltac seq_leaf := whole_turns; rewrite ?cos_0, ?sin_0; val_eq; ring.
Ltac seq_proof := cbv zeta; unfold Rx, Ry, Rz; unfold_rot; split_eq; seq_leaf.

