(* C05_ekf.v — the pieces of EKF reachable without LAPACK (regenerated): measurement model h, its Jacobian dhdq (normal mode),
   process model f with Jacobian dfdq, Omega.  Innovation vanishes at the truth; the Jacobians are exact. *)
From Coq Require Import Reals List Lra Lia.
From AhrsLib Require Import Base Rot.
From AhrsGen Require Import C05gen_R.
From AhrsProps Require Import C05_base.
Import ListNotations.
Open Scope R_scope.

Ltac ekf_h H := intros H; unfold unit4 in H; cbv zeta; unit_sqrt H; repeat gate_01; unfold_c05; cbv [app]; val_eq; ring.

(* h(q) = [Rspec(q)^T a_ref ; Rspec(q)^T m_ref]  with a_ref = (0,0,1) in NED and (0,0,-1) in ENU *)
Lemma ekf_h_imu_ned w x y z : unit4 w x y z -> C05_ekf_h_imu_ned_R w x y z = Val (img [w;x;y;z] [0;0;1]).
Proof. unfold C05_ekf_h_imu_ned_R. ekf_h H. Qed.
Lemma ekf_h_imu_enu w x y z : unit4 w x y z -> C05_ekf_h_imu_enu_R w x y z = Val (img [w;x;y;z] [0;0;-1]).
Proof. unfold C05_ekf_h_imu_enu_R. ekf_h H. Qed.
Lemma ekf_h_marg_ned w x y z r0 r1 r2 : unit4 w x y z ->
  C05_ekf_h_marg_ned_R w x y z r0 r1 r2 = Val (img [w;x;y;z] [0;0;1] ++ img [w;x;y;z] [r0;r1;r2]).
Proof. unfold C05_ekf_h_marg_ned_R. ekf_h H. Qed.
Lemma ekf_h_marg_enu w x y z r0 r1 r2 : unit4 w x y z ->
  C05_ekf_h_marg_enu_R w x y z r0 r1 r2 = Val (img [w;x;y;z] [0;0;-1] ++ img [w;x;y;z] [r0;r1;r2]).
Proof. unfold C05_ekf_h_marg_enu_R. ekf_h H. Qed.

(* homogeneous (polynomial) form of the measurement model: equals h on unit quaternions *)
Definition hhom (r q : list R) : list R := mvec3 (mtr3 (Rhom q)) r.
Lemma hhom_img w x y z r0 r1 r2 : unit4 w x y z -> hhom [r0;r1;r2] [w;x;y;z] = img [w;x;y;z] [r0;r1;r2].
Proof. unfold unit4. intros H. orient_unit. unfold hhom. unfold_c05. list_eq; hring. Qed.

Definition qadd (q d : list R) : list R := [e q 0 + e d 0; e q 1 + e d 1; e q 2 + e d 2; e q 3 + e d 3].
(* row i of a row-major (rows x 4) matrix applied to d *)
Definition row4 (H d : list R) (i : nat) : R :=
  e H (4*i) * e d 0 + e H (4*i+1) * e d 1 + e H (4*i+2) * e d 2 + e H (4*i+3) * e d 3.
(* f(q+d) - f(q) - H d, component i *)
Definition resid (f : list R -> list R) (H q d : list R) (i : nat) : R := e (f (qadd q d)) i - e (f q) i - row4 H d i.
(* H is the exact derivative of the quadratic map f at q: the remainder is f(d) itself, for every increment d *)
Definition exact_jacobian (rows : nat) (f : list R -> list R) (H q : list R) : Prop :=
  forall d0 d1 d2 d3, let d := [d0;d1;d2;d3] in
  Forall (fun i => resid f H q d i = e (f d) i) (seq 0 rows).

Ltac jac := intros; eexists; split; [cbv zeta; reflexivity|];
  intros d0 d1 d2 d3 d; subst d; cbv [seq]; repeat constructor;
  cbv [resid row4 qadd hhom app Nat.mul Nat.add]; unfold_c05; ring.

Lemma ekf_dhdq_imu_ned_exact w x y z : exists H, C05_ekf_dhdq_imu_ned_R w x y z = Val H /\
  exact_jacobian 3 (hhom [0;0;1]) H [w;x;y;z].
Proof. unfold C05_ekf_dhdq_imu_ned_R. jac. Qed.
Lemma ekf_dhdq_imu_enu_exact w x y z : exists H, C05_ekf_dhdq_imu_enu_R w x y z = Val H /\
  exact_jacobian 3 (hhom [0;0;-1]) H [w;x;y;z].
Proof. unfold C05_ekf_dhdq_imu_enu_R. jac. Qed.
Lemma ekf_dhdq_marg_ned_exact w x y z r0 r1 r2 : exists H, C05_ekf_dhdq_marg_ned_R w x y z r0 r1 r2 = Val H /\
  exact_jacobian 6 (fun q => hhom [0;0;1] q ++ hhom [r0;r1;r2] q) H [w;x;y;z].
Proof. unfold C05_ekf_dhdq_marg_ned_R. jac. Qed.
Lemma ekf_dhdq_marg_enu_exact w x y z r0 r1 r2 : exists H, C05_ekf_dhdq_marg_enu_R w x y z r0 r1 r2 = Val H /\
  exact_jacobian 6 (fun q => hhom [0;0;-1] q ++ hhom [r0;r1;r2] q) H [w;x;y;z].
Proof. unfold C05_ekf_dhdq_marg_enu_R. jac. Qed.

(* process model: f(q, w, dt) = q + dt/2 * q (x) (0,w) = (I + dt/2 Omega(w)) q ; dfdq is its (constant) derivative *)
Lemma ekf_f_spec w x y z gx gy gz dt : C05_ekf_f_R w x y z gx gy gz dt = Val (kin [w;x;y;z] [gx;gy;gz] dt).
Proof. unfold C05_ekf_f_R. cbv zeta. unfold_c05. val_eq; field. Qed.
Lemma ekf_dfdq_exact gx gy gz dt : exists F, C05_ekf_dfdq_R gx gy gz dt = Val F /\
  forall w x y z d0 d1 d2 d3,
  Forall (fun i => e (kin (qadd [w;x;y;z] [d0;d1;d2;d3]) [gx;gy;gz] dt) i - e (kin [w;x;y;z] [gx;gy;gz] dt) i
                   = row4 F [d0;d1;d2;d3] i) (seq 0 4).
Proof.
  unfold C05_ekf_dfdq_R. eexists. split; [cbv zeta; reflexivity|].
  intros. cbv [seq]. repeat constructor; cbv [row4 qadd Nat.mul Nat.add]; unfold_c05; field.
Qed.
Lemma ekf_Omega_spec gx gy gz : C05_ekf_Omega_R gx gy gz =
  Val [0; -gx; -gy; -gz;  gx; 0; gz; -gy;  gy; -gz; 0; gx;  gz; gy; -gx; 0].
Proof. unfold C05_ekf_Omega_R. val_eq; ring. Qed.
