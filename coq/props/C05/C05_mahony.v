(* C05_mahony.v — Mahony.updateIMU (regenerated): the step is exactly the explicit complementary-filter formula,
   its correction vanishes at the true attitude, it has the descent sign, and it is frozen by an exactly-zero gyro. *)
From Coq Require Import Reals List Lra Lia.
From AhrsLib Require Import Base Rot.
From AhrsGen Require Import C05gen_R.
From AhrsProps Require Import C05_base.
Import ListNotations.
Open Scope R_scope.

(* omega_mes = a x v_hat,  v_hat = Rspec(q)^T e3 the gravity direction expected at q *)
Definition mahony_omega (q acc : list R) : list R := cross3 acc (img q [0;0;1]).
Definition mahony_b (q acc b : list R) (ki dt : R) : list R :=
  let o := mahony_omega q acc in [e b 0 - ki*dt*e o 0; e b 1 - ki*dt*e o 1; e b 2 - ki*dt*e o 2].
Definition mahony_rate (q acc g b : list R) (kp ki dt : R) : list R :=
  let o := mahony_omega q acc in let b' := mahony_b q acc b ki dt in
  [e g 0 - e b' 0 + kp*e o 0; e g 1 - e b' 1 + kp*e o 1; e g 2 - e b' 2 + kp*e o 2].

(* the whole step, for every unit q, unit acc, non-zero gyro: [normalised Euler step with the corrected rate; new bias] *)
Lemma mahony_imu_step w x y z gx gy gz ax ay az dt kp ki b0 b1 b2 :
  unit4 w x y z -> ax*ax+ay*ay+az*az = 1 -> 0 < gx*gx+gy*gy+gz*gz ->
  C05_mahony_imu_R w x y z gx gy gz ax ay az dt kp ki b0 b1 b2
  = Val (qnormalize (kin [w;x;y;z] (mahony_rate [w;x;y;z] [ax;ay;az] [gx;gy;gz] [b0;b1;b2] kp ki dt) dt)
         ++ mahony_b [w;x;y;z] [ax;ay;az] [b0;b1;b2] ki dt).
Proof.
  intros H Ha Hg.
  set (rate := mahony_rate [w;x;y;z] [ax;ay;az] [gx;gy;gz] [b0;b1;b2] kp ki dt).
  assert (HS : 0 < sqrt (qnorm2 (kin [w;x;y;z] rate dt))).
  { apply sqrt_lt_R0. subst rate. cbv [mahony_rate mahony_b mahony_omega]. apply kin_norm2_pos; exact H. }
  unfold qnormalize. remember (sqrt (qnorm2 (kin [w; x; y; z] rate dt))) as n eqn:En.
  unfold unit4 in H. unfold C05_mahony_imu_R. cbv zeta.
  unit_sqrt H. repeat gate_01. unit_sqrt Ha. gate_sqrt_pos ltac:(lra). repeat gate_01.
  match goal with |- Val (?x * / sqrt ?r :: _) = _ =>
    replace (sqrt r) with n by (rewrite En; f_equal; subst rate; cbv [mahony_rate mahony_b mahony_omega]; unfold_c05; field) end.
  subst rate. cbv [mahony_rate mahony_b mahony_omega app]. unfold_c05.
  val_eq; field; lra.
Qed.

(* fixed point: with the accelerometer reading the exact image of gravity under q*, omega_mes = 0: the bias is untouched and
   the quaternion is only integrated with (gyr - b); the same holds at -q_true *)
Lemma mahony_imu_fixed a b c d gx gy gz dt kp ki b0 b1 b2 : unit4 a b c d -> 0 < gx*gx+gy*gy+gz*gz ->
  let acc := img [a;b;c;d] [0;0;1] in
  C05_mahony_imu_R a b c d gx gy gz (e acc 0) (e acc 1) (e acc 2) dt kp ki b0 b1 b2
  = Val (qnormalize (kin [a;b;c;d] [gx - b0; gy - b1; gz - b2] dt) ++ [b0;b1;b2]).
Proof.
  intros H Hg acc.
  assert (Ha : e acc 0 * e acc 0 + e acc 1 * e acc 1 + e acc 2 * e acc 2 = 1).
  { pose proof (img_unit a b c d 0 0 1 H) as U. unfold dot3 in U. subst acc. rewrite U. ring. }
  rewrite (mahony_imu_step a b c d gx gy gz _ _ _ dt kp ki b0 b1 b2 H Ha Hg).
  assert (O : mahony_omega [a;b;c;d] [e acc 0; e acc 1; e acc 2] = [0;0;0]).
  { unfold mahony_omega. subst acc. unfold_c05. list_eq; ring. }
  unfold mahony_rate, mahony_b. rewrite O. cbv [e List.nth].
  replace (b0 - ki*dt*0) with b0 by ring. replace (b1 - ki*dt*0) with b1 by ring. replace (b2 - ki*dt*0) with b2 by ring.
  replace (gx - b0 + kp*0) with (gx - b0) by ring. replace (gy - b1 + kp*0) with (gy - b1) by ring.
  replace (gz - b2 + kp*0) with (gz - b2) by ring. reflexivity.
Qed.
Lemma mahony_imu_fixed_neg a b c d gx gy gz dt kp ki b0 b1 b2 : unit4 a b c d -> 0 < gx*gx+gy*gy+gz*gz ->
  let acc := img [a;b;c;d] [0;0;1] in
  C05_mahony_imu_R (-a) (-b) (-c) (-d) gx gy gz (e acc 0) (e acc 1) (e acc 2) dt kp ki b0 b1 b2
  = Val (qnormalize (kin [-a;-b;-c;-d] [gx - b0; gy - b1; gz - b2] dt) ++ [b0;b1;b2]).
Proof.
  intros H Hg acc.
  assert (H' : unit4 (-a) (-b) (-c) (-d)) by (unfold unit4 in *; rewrite <- H; ring).
  replace acc with (img [-a;-b;-c;-d] [0;0;1]) by (subst acc; unfold_c05; list_eq; ring).
  exact (mahony_imu_fixed (-a) (-b) (-c) (-d) gx gy gz dt kp ki b0 b1 b2 H' Hg).
Qed.

(* descent sign.  (i) kinematics: along the un-normalised Euler step with body rate W the expected-gravity vector
   (homogeneous form) moves by  dt * (v x W)  plus an exact second-order remainder;  (ii) with the proportional correction
   W = kp * (a x v) the first-order change of the alignment a.v is  kp * |a x v|^2 = kp * (|a|^2 |v|^2 - (a.v)^2) >= 0
   (Lagrange), zero only when a is parallel to v. *)
Definition vhom (q : list R) : list R := mvec3 (mtr3 (Rhom q)) [0;0;1].
Lemma vhom_img w x y z : unit4 w x y z -> vhom [w;x;y;z] = img [w;x;y;z] [0;0;1].
Proof. unfold unit4. intros H. orient_unit. unfold vhom. unfold_c05. list_eq; hring. Qed.
Lemma mahony_kinematics w x y z W0 W1 W2 dt :
  let q := [w;x;y;z] in let W := [W0;W1;W2] in let v := vhom q in let c := cross3 v W in
  let p := vhom (qmul q [0;W0;W1;W2]) in
  vhom (kin q W dt) = [ qnorm2 q * 0 + e v 0 + dt * e c 0 + dt*dt/4 * e p 0;
                        e v 1 + dt * e c 1 + dt*dt/4 * e p 1;
                        e v 2 + dt * e c 2 + dt*dt/4 * e p 2 ].
Proof. intros q W v c p. subst q W v c p. unfold vhom. unfold_c05. list_eq; field. Qed.
Lemma mahony_descent_sign a v kp : 0 <= kp ->
  dot3 a (cross3 v (qscale3 kp (cross3 a v))) = kp * (dot3 a a * dot3 v v - dot3 a v * dot3 a v)
  /\ 0 <= kp * (dot3 a a * dot3 v v - dot3 a v * dot3 a v).
Proof.
  intros Hk. split.
  - unfold qscale3. unfold_c05. ring.
  - rewrite <- lagrange. apply Rmult_le_pos; [exact Hk|]. unfold dot3. nra.
Qed.

(* an exactly-zero gyroscope freezes the filter at any attitude (the correction is skipped): no convergence *)
Lemma mahony_zero_gyro_frozen w x y z ax ay az dt kp ki b0 b1 b2 : unit4 w x y z ->
  C05_mahony_imu_R w x y z 0 0 0 ax ay az dt kp ki b0 b1 b2 = Val [w;x;y;z;b0;b1;b2].
Proof.
  intros H. unfold unit4 in H. unfold C05_mahony_imu_R. cbv zeta. unit_sqrt H. repeat gate_01.
  replace (0*0+0*0+0*0) with 0 by ring. rewrite sqrt_0. destruct (Req_EM_T 0 0); [reflexivity|exfalso; lra].
Qed.
