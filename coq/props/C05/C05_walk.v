(* C05_walk.v — let-preserving walks over generated decision trees (no zeta expansion).
   lock : lockstep walk of  P(args1) = P(args2)  for the same program on related arguments.
   ev   : evaluation walk of  P(args) = r  that simplifies every let-bound value as it goes. *)
From Coq Require Import Reals List Lra Lia.
From AhrsLib Require Import Base Rot.
Import ListNotations.
Open Scope R_scope.
Set Warnings "-variable-collision".

Lemma let_same {A B} (v1 v2 : A) (f1 f2 : A -> B) :
  v1 = v2 -> (forall x, f1 x = f2 x) -> (let x := v1 in f1 x) = (let x := v2 in f2 x).
Proof. intros -> H. apply H. Qed.
Lemma let_two {A B} (v1 v2 : A) (f1 f2 : A -> B) :
  (forall x1 x2, x1 = v1 -> x2 = v2 -> f1 x1 = f2 x2) -> (let x := v1 in f1 x) = (let x := v2 in f2 x).
Proof. intros H. exact (H v1 v2 eq_refl eq_refl). Qed.
Lemma let_pull {A B} (v : A) (f : A -> B) (r : B) : (forall x, x = v -> f x = r) -> (let x := v in f x) = r.
Proof. intros H. exact (H v eq_refl). Qed.
Lemma if_both {P Q P' Q' : Prop} {A} (c : {P}+{Q}) (c' : {P'}+{Q'}) (a b a' b' : A) :
  (P -> P' -> a = a') -> (Q -> Q' -> b = b') -> (P -> Q' -> False) -> (Q -> P' -> False) ->
  (if c then a else b) = (if c' then a' else b').
Proof. intros H1 H2 H3 H4. destruct c, c'; auto; exfalso; eauto. Qed.

(* one lockstep step; veq proves value equalities that are not syntactic, gtac refutes contradictory gate pairs,
   post E1 E2 normalises the two equations recorded when the values differ *)
Ltac lock1 veq gtac post :=
  lazymatch goal with
  | |- (let _ := ?v1 in _) = (let _ := ?v2 in _) =>
      first [ let E := fresh in assert (E : v1 = v2) by (first [reflexivity | solve [veq]]);
              lazymatch goal with |- (let a := _ in @?b1 a) = (let a := _ in @?b2 a) =>
                refine (let_same v1 v2 b1 b2 E _) end; clear E;
              let y := fresh "t" in intro y; cbv beta
            | lazymatch goal with |- (let a := _ in @?b1 a) = (let a := _ in @?b2 a) =>
                refine (let_two v1 v2 b1 b2 _) end;
              let y1 := fresh "u" in let y2 := fresh "t" in let E1 := fresh "E" in let E2 := fresh "E" in
              intros y1 y2 E1 E2; cbv beta; post E1 E2 ]
  | |- (if ?c then ?a else ?b) = (if ?c' then ?a' else ?b') =>
      refine (if_both c c' a b a' b' _ _ _ _);
      [ intros ? ? | intros ? ? | intros ? ?; first [contradiction | solve [gtac]] | intros ? ?; first [contradiction | solve [gtac]] ]
  | |- Val _ = Val _ => first [reflexivity | val_eq; first [reflexivity | solve [veq]]]
  | |- Raise _ = Raise _ => reflexivity
  end.
Ltac lock veq gtac post := repeat lock1 veq gtac post.

(* ---- evaluation walk ----------------------------------------------------------------------------------
   ev1 pulls one let  (y, E : y = value), lets `simp` rewrite the value with what is known, then
   * value = sqrt rad: rad = 1 / rad = 0 (by ztac) -> substitute 1 / 0; otherwise keep y opaque with
     0 < y and y*y = rad when postac proves 0 < rad (else leave E : y = sqrt rad);
   * other value: = 0 (by the cheap ztac0) -> substitute 0; otherwise substitute the simplified value.
   Gates are left to the caller (gate tactics of C05_base / Base). *)
Ltac ev1 simp ztac0 ztac postac :=
  lazymatch goal with
  | |- (let _ := ?v in _) = ?r =>
      lazymatch goal with |- (let a := _ in @?b a) = _ => refine (let_pull v b r _) end;
      let y := fresh "t" in let E := fresh "E" in intros y E; cbv beta;
      simp E;
      lazymatch type of E with
      | _ = sqrt ?rad =>
          first [ let Z := fresh in assert (Z : rad = 1) by (solve [ztac]); rewrite Z, sqrt_1 in E; clear Z; subst y
                | let Z := fresh in assert (Z : rad = 0) by (solve [ztac]); rewrite Z, sqrt_0 in E; clear Z; subst y
                | (* rad = c*c for a non-negative c of the context: sqrt rad = c *)
                  match goal with
                  | Hc : 0 <= ?c |- _ => let Z := fresh in assert (Z : rad = c * c) by (solve [ztac]);
                                         rewrite Z, (sqrt_square c Hc) in E; clear Z; subst y
                  | Hc : 0 < ?c |- _ => let Z := fresh in assert (Z : rad = c * c) by (solve [ztac]);
                                        rewrite Z, (sqrt_square c (Rlt_le _ _ Hc)) in E; clear Z; subst y
                  end
                | let P := fresh "Hpos" in let Q := fresh "Hsq" in
                  assert (P : 0 < rad) by (solve [postac]);
                  assert (Q : y * y = rad) by (rewrite E; apply sqrt_sqrt; lra);
                  apply sqrt_lt_R0 in P; rewrite <- E in P; clear E
                | idtac ]
      | _ = ?rhs =>
          first [ let Z := fresh in assert (Z : rhs = 0) by (solve [ztac0]); rewrite Z in E; clear Z; subst y
                | subst y ]
      end
  end.
(* decide a gate on an opaque positive variable or a numeral *)
Ltac gate_var :=
  match goal with
  | |- context [Rlt_dec ?a ?b] => first [ destruct (Rlt_dec a b) as [_|?]; [|exfalso; lra]
                                        | destruct (Rlt_dec a b) as [?|_]; [exfalso; lra|] ]
  | |- context [Req_EM_T 0 ?y] => destruct (Req_EM_T 0 y) as [?|_]; [exfalso; lra|]
  | |- context [Rlt_dec 0 ?y] => first [ destruct (Rlt_dec 0 y) as [_|?]; [|exfalso; lra]
                                       | destruct (Rlt_dec 0 y) as [?|_]; [exfalso; lra|] ]
  end.
