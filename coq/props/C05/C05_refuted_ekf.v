(* C05_refuted_ekf.v — witness inside the regenerated model of the known finding "ekf.dhdq-refactored/not-derivative-of-h":
   EKF.dhdq(mode='refactored') builds diag(q_v * g) instead of (q_v . g) I and is not the Jacobian of h.
   Compiled separately: when the defect is repaired this file stops compiling and the check says so. *)
From Coq Require Import Reals List Lra Lia.
From AhrsLib Require Import Base Rot.
From AhrsGen Require Import C05gen_R.
From AhrsProps Require Import C05_base C05_ekf.
Import ListNotations.
Open Scope R_scope.

Theorem C05_ekf_dhdq_refactored_refuted : exists w x y z H, w*w+x*x+y*y+z*z = 1 /\
  C05_ekf_dhdq_ref_imu_ned_R w x y z = Val H /\ ~ exact_jacobian 3 (hhom [0;0;1]) H [w;x;y;z].
Proof.
  exists 0, 0, 0, 1. eexists. split; [lra|]. split; [unfold C05_ekf_dhdq_ref_imu_ned_R; cbv zeta; reflexivity|].
  intros E. specialize (E 0 1 0 0). cbv zeta in E. cbv [seq] in E. inversion E as [|? ? E0 _]. revert E0.
  cbv [resid row4 qadd hhom app Nat.mul Nat.add]. unfold_c05. lra.
Qed.
Print Assumptions C05_ekf_dhdq_refactored_refuted.
