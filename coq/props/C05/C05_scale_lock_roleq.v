(* C05_scale_lock_roleq.v — magnitude independence by a lockstep walk (no zeta expansion): ROLEQ NED/ENU. *)
From Coq Require Import Reals List Lra Lia.
From AhrsLib Require Import Base Rot.
From AhrsGen Require Import C05gen_R.
From AhrsProps Require Import C05_base C05_walk.
Import ListNotations.
Open Scope R_scope.
Set Warnings "-variable-collision".

Lemma sqrt_scale3' s a b c : 0 < s ->
  sqrt ((s*a)*(s*a) + (s*b)*(s*b) + (s*c)*(s*c)) = s * sqrt (a*a + b*b + c*c).
Proof.
  intros Hs. replace ((s*a)*(s*a) + (s*b)*(s*b) + (s*c)*(s*c)) with ((s*s) * (a*a + b*b + c*c)) by ring.
  rewrite sqrt_mult; [|nra|nra]. rewrite sqrt_square; lra.
Qed.

Ltac veq := subst; field; repeat split; lra.
Ltac gtac := subst; exfalso; nra.
Ltac sc1 s Hs := lock veq gtac ltac:(fun E1 E2 => rewrite ?(sqrt_scale3' s) in E1 by exact Hs).
Ltac sc2 s t Hs Ht := lock veq gtac ltac:(fun E1 E2 => rewrite ?(sqrt_scale3' s) in E1 by exact Hs; rewrite ?(sqrt_scale3' t) in E1 by exact Ht).

Lemma roleq_ned_scale s t w x y z gx gy gz ax ay az mx my mz r0 r1 r2 dt wa wm :
  0 < s -> 0 < t -> 0 < ax*ax+ay*ay+az*az -> 0 < mx*mx+my*my+mz*mz ->
  C05_roleq_ned_R w x y z gx gy gz (s*ax) (s*ay) (s*az) (t*mx) (t*my) (t*mz) r0 r1 r2 dt wa wm
  = C05_roleq_ned_R w x y z gx gy gz ax ay az mx my mz r0 r1 r2 dt wa wm.
Proof. intros Hs Ht Ha Hm. apply sqrt_lt_R0 in Ha. apply sqrt_lt_R0 in Hm. cbv beta delta [C05_roleq_ned_R]. sc2 s t Hs Ht. Qed.
Lemma roleq_enu_scale s t w x y z gx gy gz ax ay az mx my mz r0 r1 r2 dt wa wm :
  0 < s -> 0 < t -> 0 < ax*ax+ay*ay+az*az -> 0 < mx*mx+my*my+mz*mz ->
  C05_roleq_enu_R w x y z gx gy gz (s*ax) (s*ay) (s*az) (t*mx) (t*my) (t*mz) r0 r1 r2 dt wa wm
  = C05_roleq_enu_R w x y z gx gy gz ax ay az mx my mz r0 r1 r2 dt wa wm.
Proof. intros Hs Ht Ha Hm. apply sqrt_lt_R0 in Ha. apply sqrt_lt_R0 in Hm. cbv beta delta [C05_roleq_enu_R]. sc2 s t Hs Ht. Qed.
