(* C05_compl.v — the Complementary filter is linear in the Euler angles: one regenerated blend step, and full geometric
   convergence of its iteration to the accelerometer/magnetometer angles for every bounded gyro history. *)
From Coq Require Import Reals List Lra Lia.
From AhrsLib Require Import Base Rot.
From AhrsGen Require Import C05gen_R.
From AhrsProps Require Import C05_base.
Import ListNotations.
Open Scope R_scope.

Definition blend (gamma dt m x g : R) : R := (x + g * dt) * gamma + m * (1 - gamma).

(* every gate  0 < sqrt e  /  0 = sqrt e  whose radicand is positive by the hypotheses is decided, whatever their number
   and order (the code guards null accelerometer / magnetometer rows; the property's setting has neither) *)
Ltac gates := repeat gate_sqrt_pos ltac:(lra).

(* one step (MARG), non-null accelerometer and magnetometer rows: the new angles are the blend of the integrated previous
   angles and am_estimation(acc, mag), whatever the latter is (it is the regenerated am_estimation, with its atan2's) *)
Lemma compl_marg_step e0 e1 e2 u0 u1 u2 gx gy gz ax ay az mx my mz dt gamma :
  0 < ax*ax + ay*ay + az*az -> 0 < mx*mx + my*my + mz*mz ->
  exists m0 m1 m2, C05_compl_am_R ax ay az mx my mz = Val [m0;m1;m2] /\
  C05_compl_marg_R e0 e1 e2 u0 u1 u2 gx gy gz ax ay az mx my mz dt gamma
  = Val [blend gamma dt m0 e0 gx; blend gamma dt m1 e1 gy; blend gamma dt m2 e2 gz].
Proof.
  intros Ha Hm. unfold C05_compl_am_R, C05_compl_marg_R. cbv zeta. gates.
  do 3 eexists. split; [reflexivity|]. unfold blend. val_eq; ring.
Qed.
(* IMU: roll and pitch are blended, the yaw slot is not touched by the loop (stays 0) *)
Lemma compl_imu_step e0 e1 e2 u0 u1 u2 gx gy gz ax ay az dt gamma : 0 < ax*ax + ay*ay + az*az ->
  exists m0 m1, C05_compl_imu_R e0 e1 e2 u0 u1 u2 gx gy gz ax ay az dt gamma
  = Val [blend gamma dt m0 e0 gx; blend gamma dt m1 e1 gy; 0].
Proof. intros Ha. unfold C05_compl_imu_R. cbv zeta. gates. do 2 eexists. unfold blend. val_eq; try ring. Qed.

(* scalar iteration of the blend over a gyro history *)
Fixpoint iter (gamma dt m x : R) (gs : list R) : R :=
  match gs with [] => x | g :: t => iter gamma dt m (blend gamma dt m x g) t end.

Lemma iter_bound gamma dt m eps B : 0 <= gamma < 1 -> 0 <= dt -> 0 <= eps -> B * (1 - gamma) = gamma * dt * eps ->
  forall gs x, Forall (fun g => Rabs g <= eps) gs ->
  Rabs (iter gamma dt m x gs - m) <= gamma ^ length gs * Rabs (x - m) + B * (1 - gamma ^ length gs).
Proof.
  intros Hg Hdt He HB. induction gs as [|g t IH]; intros x HF.
  - simpl. lra.
  - inversion HF as [|? ? Hg0 Ht]; subst. simpl. specialize (IH (blend gamma dt m x g) Ht).
    eapply Rle_trans; [exact IH|].
    assert (E : blend gamma dt m x g - m = gamma * ((x - m) + g * dt)) by (unfold blend; ring). rewrite E.
    rewrite Rabs_mult, (Rabs_right gamma) by lra.
    assert (A : Rabs ((x - m) + g * dt) <= Rabs (x - m) + eps * dt).
    { eapply Rle_trans; [apply Rabs_triang|]. rewrite Rabs_mult, (Rabs_right dt) by lra.
      apply Rplus_le_compat_l. apply Rmult_le_compat_r; lra. }
    set (p := gamma ^ length t) in *. assert (Hp : 0 <= p) by (apply pow_le; lra).
    assert (HBp : p * (B * (1 - gamma)) = p * (gamma * dt * eps)) by (rewrite HB; ring).
    assert (A2 : p * (gamma * Rabs ((x - m) + g * dt)) <= p * (gamma * (Rabs (x - m) + eps * dt))).
    { apply Rmult_le_compat_l; [exact Hp|]. apply Rmult_le_compat_l; lra. }
    nra.
Qed.

(* |e_N| <= g^N |e_0| + g dt eps / (1-g) *)
Lemma iter_converges gamma dt m eps : 0 <= gamma < 1 -> 0 <= dt -> 0 <= eps ->
  forall gs x, Forall (fun g => Rabs g <= eps) gs ->
  Rabs (iter gamma dt m x gs - m) <= gamma ^ length gs * Rabs (x - m) + gamma * dt * eps / (1 - gamma).
Proof.
  intros Hg Hdt He gs x HF.
  assert (HB : gamma * dt * eps / (1 - gamma) * (1 - gamma) = gamma * dt * eps) by (field; lra).
  pose proof (iter_bound gamma dt m eps _ Hg Hdt He HB gs x HF) as Hb.
  assert (Hp : 0 <= gamma ^ length gs) by (apply pow_le; lra).
  assert (HB0 : 0 <= gamma * dt * eps / (1 - gamma)).
  { apply Rmult_le_pos; [|left; apply Rinv_0_lt_compat; lra]. apply Rmult_le_pos; [apply Rmult_le_pos|]; lra. }
  nra.
Qed.

(* iteration of the REGENERATED step over a history of gyro samples, constant acc/mag (motionless sensor) *)
Fixpoint run (ax ay az mx my mz dt gamma : R) (st : R * R * R) (gs : list (R * R * R)) : outcome R :=
  match gs with
  | [] => let '(a, b, c) := st in Val [a; b; c]
  | (gx, gy, gz) :: t =>
      let '(a, b, c) := st in
      match C05_compl_marg_R a b c 0 0 0 gx gy gz ax ay az mx my mz dt gamma with
      | Val [a'; b'; c'] => run ax ay az mx my mz dt gamma (a', b', c') t
      | Val _ => Raise OtherError
      | Raise x => Raise x
      end
  end.

Lemma run_is_iter ax ay az mx my mz dt gamma : 0 < ax*ax + ay*ay + az*az -> 0 < mx*mx + my*my + mz*mz ->
  exists m0 m1 m2, C05_compl_am_R ax ay az mx my mz = Val [m0;m1;m2] /\
  forall gs a b c, run ax ay az mx my mz dt gamma (a, b, c) gs
    = Val [iter gamma dt m0 a (map (fun g => fst (fst g)) gs); iter gamma dt m1 b (map (fun g => snd (fst g)) gs);
           iter gamma dt m2 c (map snd gs)].
Proof.
  intros Ha Hm. destruct (compl_marg_step 0 0 0 0 0 0 0 0 0 ax ay az mx my mz dt gamma Ha Hm) as (m0 & m1 & m2 & Ham & _).
  exists m0, m1, m2. split; [exact Ham|].
  induction gs as [|[[gx gy] gz] t IH]; intros a b c.
  - reflexivity.
  - simpl. destruct (compl_marg_step a b c 0 0 0 gx gy gz ax ay az mx my mz dt gamma Ha Hm) as (n0 & n1 & n2 & Ham' & Hs).
    rewrite Ham in Ham'. injection Ham' as <- <- <-. rewrite Hs. apply IH.
Qed.
