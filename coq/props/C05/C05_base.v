(* C05_base.v — vocabulary and tactics shared by the C05 proof files (nothing generated is used here). *)
From Coq Require Import Reals List Lra Lia.
From AhrsLib Require Import Base Rot.
Import ListNotations.
Open Scope R_scope.

Definition unit4 (w x y z : R) : Prop := w*w + x*x + y*y + z*z = 1.

(* image of a navigation-frame reference r in the body frame of the attitude q:  Rspec(q)^T r *)
Definition img (q r : list R) : list R := mvec3 (mtr3 (Rspec q)) r.
(* image under the matrix itself (AQUA stores the conjugate attitude) *)
Definition imgc (q r : list R) : list R := mvec3 (Rspec q) r.

(* one explicit Euler step of the attitude kinematics, not normalised:  q + dt/2 * q (x) (0,g) *)
Definition kin (q g : list R) (dt : R) : list R :=
  let p := qmul q [0; e g 0; e g 1; e g 2] in
  [e q 0 + dt/2 * e p 0; e q 1 + dt/2 * e p 1; e q 2 + dt/2 * e p 2; e q 3 + dt/2 * e p 3].
(* the same with the local-frame convention used by AQUA:  q + dt/2 * (0,-g) (x) q  *)
Definition kinc (q g : list R) (dt : R) : list R :=
  let p := qmul [0; - e g 0; - e g 1; - e g 2] q in
  [e q 0 + dt/2 * e p 0; e q 1 + dt/2 * e p 1; e q 2 + dt/2 * e p 2; e q 3 + dt/2 * e p 3].
Definition qnormalize (q : list R) : list R := qscale (/ sqrt (qnorm2 q)) q.
Definition dot3 (u v : list R) : R := e u 0 * e v 0 + e u 1 * e v 1 + e u 2 * e v 2.
Definition qscale3 (k : R) (v : list R) : list R := [k * e v 0; k * e v 1; k * e v 2].
Definition cross3 (u v : list R) : list R :=
  [e u 1 * e v 2 - e u 2 * e v 1; e u 2 * e v 0 - e u 0 * e v 2; e u 0 * e v 1 - e u 1 * e v 0].

Ltac unfold_c05 := cbv [img imgc kin kinc qnormalize dot3 cross3 qscale3]; unfold_rot.

Lemma kin_norm2 w x y z gx gy gz dt : unit4 w x y z ->
  qnorm2 (kin [w;x;y;z] [gx;gy;gz] dt) = 1 + dt*dt*(gx*gx+gy*gy+gz*gz)/4.
Proof. unfold unit4. intros H. orient_unit. unfold_c05. field_simplify_eq. hring. Qed.
Lemma kin_norm2_pos w x y z gx gy gz dt : unit4 w x y z -> 0 < qnorm2 (kin [w;x;y;z] [gx;gy;gz] dt).
Proof. intros H. rewrite (kin_norm2 _ _ _ _ _ _ _ _ H). nra. Qed.

Lemma sqrt_eq_of_sq n x : 0 <= n -> x = n * n -> sqrt x = n.
Proof. intros Hn ->. apply sqrt_square; exact Hn. Qed.
Lemma sqrt_eq0 x : x = 0 -> sqrt x = 0.
Proof. intros ->. apply sqrt_0. Qed.
Lemma sum_sq3_0 a b c : a*a + b*b + c*c = 0 -> a = 0 /\ b = 0 /\ c = 0.
Proof. intros H. repeat split; nra. Qed.

(* gates of the form  0 < sqrt e  where e is identically 0 under the (oriented) hypotheses *)
Ltac gate_sqrt0 :=
  match goal with
  | |- context [Rlt_dec 0 (sqrt ?e)] =>
      let H := fresh in assert (H : sqrt e = 0) by (apply sqrt_eq0; uring); rewrite H; clear H;
      destruct (Rlt_dec 0 0); [exfalso; lra|]
  end.
(* gates  0 = sqrt e  /  0 < sqrt e  where e > 0 is provable by tac *)
Ltac gate_sqrt_pos tac :=
  match goal with
  | |- context [Req_EM_T 0 (sqrt ?e)] =>
      let H := fresh in assert (H : 0 < sqrt e) by (apply sqrt_lt_R0; tac);
      destruct (Req_EM_T 0 (sqrt e)); [exfalso; lra|]; clear H
  | |- context [Rlt_dec 0 (sqrt ?e)] =>
      let H := fresh in assert (H : 0 < sqrt e) by (apply sqrt_lt_R0; tac);
      destruct (Rlt_dec 0 (sqrt e)); [|exfalso; lra]; clear H
  end.
(* name the radicand U of the first gate  0 = sqrt U  and abstract its root as n with n*n = U, 0 < n *)
Ltac name_gate_root n tac :=
  match goal with
  | |- context [Req_EM_T 0 (sqrt ?U)] =>
      let Hp := fresh "Hpos_" n in let Hs := fresh "Hsq_" n in let E := fresh "Heq_" n in
      assert (Hp : 0 < U) by tac;
      assert (Hs : sqrt U * sqrt U = U) by (apply sqrt_sqrt; lra);
      apply sqrt_lt_R0 in Hp;
      remember (sqrt U) as n eqn:E; clear E;
      destruct (Req_EM_T 0 n); [exfalso; lra|]
  end.

(* rewrite  sqrt (unit sum) = 1  and clean the divisions by 1 it leaves behind *)
Ltac unit_sqrt H := repeat (rewrite ?H, ?sqrt_1; unfold Rdiv; rewrite ?Rinv_1, ?Rmult_1_r).

Lemma img_unit a b c d r0 r1 r2 : unit4 a b c d ->
  dot3 (img [a;b;c;d] [r0;r1;r2]) (img [a;b;c;d] [r0;r1;r2]) = r0*r0 + r1*r1 + r2*r2.
Proof. unfold unit4. intros H. orient_unit. unfold_c05. hring. Qed.
Lemma cross3_self v : cross3 v v = [0;0;0].
Proof. unfold_c05. list_eq; ring. Qed.
(* Lagrange's identity *)
Lemma lagrange u v : dot3 (cross3 u v) (cross3 u v) = dot3 u u * dot3 v v - dot3 u v * dot3 u v.
Proof. unfold_c05. ring. Qed.
