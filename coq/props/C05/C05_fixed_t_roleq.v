(* C05_fixed_t_roleq.v (thorough tier) — fixed points of AQUA's correction stage, of ROLEQ and of Mahony MARG by evaluation walks. *)
From Coq Require Import Reals List Lra Lia.
From AhrsLib Require Import Base Rot.
From AhrsGen Require Import C05gen_R.
From AhrsProps Require Import C05_base C05_walk.
Import ListNotations.
Open Scope R_scope.
Set Warnings "-variable-collision".

Ltac simp1 E := unfold Rdiv in E; rewrite ?Rinv_1, ?Rmult_1_r, ?Rmult_1_l, ?Ropp_0, ?Rmult_0_r, ?Rmult_0_l, ?Rplus_0_r, ?Rplus_0_l, ?Rminus_0_r in E.
(* value = 0 / radicand = 1: ring modulo the unit hypothesis Hu and the recorded squares  y*y = rad *)
Ltac zt Hu :=
  first [ ring | ring [Hu] | (field_simplify_eq; [ring [Hu] | lra ..])
        | match goal with Hs : ?t * ?t = ?rad |- ?x = 1 =>
            replace x with (rad / (t * t)) by (field; lra); rewrite <- Hs; field; lra end ].
Ltac zt0 Hu := first [ring | ring [Hu]].
Ltac gates0 :=
  first [ gate_01 | gate_var | gate_sqrt_pos ltac:(lra) | gate_sqrt0
        | match goal with |- context [Rlt_dec 0 0] => destruct (Rlt_dec 0 0); [exfalso; lra|] end ].
(* 0 < (norm of the Euler step)^2, whatever way the code wrote it *)
Ltac pt_kin HK dt g0 g1 g2 :=
  match goal with |- 0 < ?r =>
    first [ lra | replace r with (1 + dt*dt*(g0*g0+g1*g1+g2*g2)/4) by (revert HK; unfold_c05; intros HK; rewrite <- HK; field); nra ] end.
(* leaf  Val [k_i / t] = Val (qnormalize u)  with  t*t = |u|^2 recorded *)
Ltac leaf_normalized t Hsq :=
  unfold qnormalize;
  match goal with |- _ = Val (qscale (/ sqrt ?N) _) =>
    replace (sqrt N) with t by (symmetry; apply sqrt_eq_of_sq; [lra | rewrite Hsq; unfold_c05; field]) end;
  unfold_c05; val_eq; field; lra.

Lemma roleq_ned_fixed a b c d r0 r1 r2 dt wa wm : unit4 a b c d -> r0*r0+r1*r1+r2*r2 = 1 -> 0 < 1 + wa + wm ->
  C05_roleq_ned_R a b c d 0 0 0 (- (2*(b*d - a*c))) (- (2*(a*b + c*d))) (- (1 - 2*(b*b + c*c)))
     ((1 - 2*(c*c+d*d))*r0 + 2*(b*c+a*d)*r1 + 2*(b*d-a*c)*r2) (2*(b*c-a*d)*r0 + (1-2*(b*b+d*d))*r1 + 2*(a*b+c*d)*r2)
     (2*(b*d+a*c)*r0 + 2*(c*d-a*b)*r1 + (1-2*(b*b+c*c))*r2) r0 r1 r2 dt wa wm
  = Val [a;b;c;d].
Proof.
  intros H Hr Hw. unfold unit4 in H. assert (Hu : a*a = 1 - b*b - c*c - d*d) by lra.
  assert (Hl : 0 < (1 + wa + wm)/2) by lra. assert (Hr' : r0*r0 = 1 - r1*r1 - r2*r2) by lra.
  cbv beta delta [C05_roleq_ned_R].
  repeat (first [ ev1 simp1 ltac:(idtac; first [zt0 Hu | ring [Hu Hr']]) ltac:(idtac; first [zt Hu | ring [Hu Hr'] | (field_simplify_eq; [ring [Hu Hr'] | lra ..])]) ltac:(idtac; nra) | gates0 ]).
  val_eq; (field_simplify_eq; [ring [Hu Hr'] | lra ..]).
Qed.
