(* C05_fixed_madgwick.v — Madgwick.updateIMU at the truth (evaluation walk, no zeta expansion): with acc the exact image of
   gravity under q* the objective f vanishes, the gradient branch is not taken and the step is pure gyro integration. *)
From Coq Require Import Reals List Lra Lia.
From AhrsLib Require Import Base Rot.
From AhrsGen Require Import C05gen_R.
From AhrsProps Require Import C05_base C05_walk.
Import ListNotations.
Open Scope R_scope.
Set Warnings "-variable-collision".

Ltac simp1 E := unfold Rdiv in E; rewrite ?Rinv_1, ?Rmult_1_r, ?Rmult_1_l, ?Ropp_0, ?Rmult_0_r, ?Rmult_0_l, ?Rplus_0_r, ?Rplus_0_l, ?Rminus_0_r in E.
(* value = 0 / radicand = 1: ring modulo the unit hypothesis Hu and the recorded squares  y*y = rad *)
Ltac zt Hu :=
  first [ ring | ring [Hu] | (field_simplify_eq; [ring [Hu] | lra ..])
        | match goal with Hs : ?t * ?t = ?rad |- ?x = 1 =>
            replace x with (rad / (t * t)) by (field; lra); rewrite <- Hs; field; lra end ].
Ltac zt0 Hu := first [ring | ring [Hu]].
Ltac gates0 :=
  first [ gate_01 | gate_var | gate_sqrt_pos ltac:(lra) | gate_sqrt0
        | match goal with |- context [Rlt_dec 0 0] => destruct (Rlt_dec 0 0); [exfalso; lra|] end ].
(* 0 < (norm of the Euler step)^2, whatever way the code wrote it *)
Ltac pt_kin HK dt g0 g1 g2 :=
  match goal with |- 0 < ?r =>
    first [ lra | replace r with (1 + dt*dt*(g0*g0+g1*g1+g2*g2)/4) by (revert HK; unfold_c05; intros HK; rewrite <- HK; field); nra ] end.
(* leaf  Val [k_i / t] = Val (qnormalize u)  with  t*t = |u|^2 recorded *)
Ltac leaf_normalized t Hsq :=
  unfold qnormalize;
  match goal with |- _ = Val (qscale (/ sqrt ?N) _) =>
    replace (sqrt N) with t by (symmetry; apply sqrt_eq_of_sq; [lra | rewrite Hsq; unfold_c05; field]) end;
  unfold_c05; val_eq; field; lra.

Lemma madgwick_imu_fixed0 a b c d gx gy gz dt beta : unit4 a b c d -> 0 < gx*gx+gy*gy+gz*gz ->
  C05_madgwick_imu_R a b c d gx gy gz (2*(b*d - a*c)) (2*(a*b + c*d)) (1 - 2*(b*b + c*c)) dt beta
  = Val (qnormalize (kin [a;b;c;d] [gx;gy;gz] dt)).
Proof.
  intros H Hg. pose proof (kin_norm2 a b c d gx gy gz dt H) as HK. unfold unit4 in H.
  assert (Hu : a*a = 1 - b*b - c*c - d*d) by lra.
  cbv beta delta [C05_madgwick_imu_R].
  repeat (first [ ev1 simp1 ltac:(idtac; zt0 Hu) ltac:(idtac; zt Hu) ltac:(idtac; pt_kin HK dt gx gy gz) | gates0 ]).
  match goal with Hs : ?t * ?t = _ |- _ => leaf_normalized t Hs end.
Qed.
Lemma madgwick_imu_fixed a b c d gx gy gz dt beta : unit4 a b c d -> 0 < gx*gx+gy*gy+gz*gz ->
  let acc := img [a;b;c;d] [0;0;1] in
  C05_madgwick_imu_R a b c d gx gy gz (e acc 0) (e acc 1) (e acc 2) dt beta
  = Val (qnormalize (kin [a;b;c;d] [gx;gy;gz] dt)).
Proof.
  intros H Hg acc.
  replace (e acc 0) with (2*(b*d - a*c)) by (subst acc; unfold_c05; ring).
  replace (e acc 1) with (2*(a*b + c*d)) by (subst acc; unfold_c05; ring).
  replace (e acc 2) with (1 - 2*(b*b + c*c)) by (subst acc; unfold_c05; ring).
  exact (madgwick_imu_fixed0 a b c d gx gy gz dt beta H Hg).
Qed.

Lemma madgwick_imu_fixed_neg a b c d gx gy gz dt beta : unit4 a b c d -> 0 < gx*gx+gy*gy+gz*gz ->
  let acc := img [a;b;c;d] [0;0;1] in
  C05_madgwick_imu_R (-a) (-b) (-c) (-d) gx gy gz (e acc 0) (e acc 1) (e acc 2) dt beta
  = Val (qnormalize (kin [-a;-b;-c;-d] [gx;gy;gz] dt)).
Proof.
  intros H Hg acc.
  assert (H' : unit4 (-a) (-b) (-c) (-d)) by (unfold unit4 in *; rewrite <- H; ring).
  replace (e acc 0) with (2*((-b)*(-d) - (-a)*(-c))) by (subst acc; unfold_c05; ring).
  replace (e acc 1) with (2*((-a)*(-b) + (-c)*(-d))) by (subst acc; unfold_c05; ring).
  replace (e acc 2) with (1 - 2*((-b)*(-b) + (-c)*(-c))) by (subst acc; unfold_c05; ring).
  exact (madgwick_imu_fixed0 (-a) (-b) (-c) (-d) gx gy gz dt beta H' Hg).
Qed.
