(* C05_refuted_zero_gyro.v — witness inside the regenerated model of the known finding "mahony/zero-gyro-frozen" (the same
   early return exists in Madgwick and AQUA): a gyroscope reading exactly (0,0,0) — an admissible noise realisation — skips
   the correction, so from an initial error the estimate never moves. *)
From Coq Require Import Reals List Lra Lia.
From AhrsLib Require Import Base Rot.
From AhrsGen Require Import C05gen_R.
From AhrsProps Require Import C05_base C05_mahony.
Import ListNotations.
Open Scope R_scope.

(* true attitude = identity (acc = (0,0,1)), estimate = half-turn-free 90 deg roll error: output = input, for every gain *)
Theorem C05_zero_gyro_refuted : exists w x y z, w*w+x*x+y*y+z*z = 1 /\ img [w;x;y;z] [0;0;1] <> [0;0;1] /\
  forall dt kp ki b0 b1 b2, C05_mahony_imu_R w x y z 0 0 0 0 0 1 dt kp ki b0 b1 b2 = Val [w;x;y;z;b0;b1;b2].
Proof.
  exists 0, 1, 0, 0. split; [lra|]. split.
  - unfold_c05. intros E. injection E as _ _ E. lra.
  - intros. apply mahony_zero_gyro_frozen. unfold unit4. lra.
Qed.
Print Assumptions C05_zero_gyro_refuted.
