(* C05_scale_roleq.v — the measurements enter every traced update only through their DIRECTION: multiplying the accelerometer
   (and the magnetometer) sample by any positive constant leaves the regenerated step unchanged (all outputs, all branches). *)
From Coq Require Import Reals List Lra Lia.
From AhrsLib Require Import Base Rot.
From AhrsGen Require Import C05gen_R.
From AhrsProps Require Import C05_base.
Import ListNotations.
Open Scope R_scope.

Lemma sqrt_scale3 s a b c : 0 < s ->
  sqrt ((s*a)*(s*a) + (s*b)*(s*b) + (s*c)*(s*c)) = s * sqrt (a*a + b*b + c*c).
Proof.
  intros Hs. replace ((s*a)*(s*a) + (s*b)*(s*b) + (s*c)*(s*c)) with ((s*s) * (a*a + b*b + c*c)) by ring.
  rewrite sqrt_mult; [|nra|nra]. rewrite sqrt_square; lra.
Qed.

(* cancel the scale in every quotient (s*a)/(s*n) (also written as a product with the reciprocal), then decide/split the remaining gates identically on both sides *)
Ltac cancel_scale s n :=
  repeat match goal with
  | |- context [s * ?a / (s * n)] => replace (s * a / (s * n)) with (a / n) by (field; split; lra)
  | |- context [s * ?a * (1 / (s * n))] => replace (s * a * (1 / (s * n))) with (a * (1 / n)) by (field; split; lra)
  | |- context [s * ?a * / (s * n)] => replace (s * a * / (s * n)) with (a * / n) by (field; split; lra)
  | |- context [1 / (s * n) * (s * ?a)] => replace (1 / (s * n) * (s * a)) with (1 / n * a) by (field; split; lra)
  | |- context [/ (s * n) * (s * ?a)] => replace (/ (s * n) * (s * a)) with (/ n * a) by (field; split; lra)
  end.
Ltac same_gates :=
  repeat (match goal with
          | |- context [Rlt_dec 0 ?e] => destruct (Rlt_dec 0 e)
          | |- context [Req_EM_T 0 ?e] => destruct (Req_EM_T 0 e)
          end; try (exfalso; nra)); try reflexivity.

Ltac scale2 s t ax ay az mx my mz Hs Ht Ha Hm :=
  cbv zeta; rewrite ?(sqrt_scale3 s) by exact Hs; rewrite ?(sqrt_scale3 t) by exact Ht;
  apply sqrt_lt_R0 in Ha; apply sqrt_lt_R0 in Hm;
  let n := fresh "n" in let k := fresh "k" in let E1 := fresh in let E2 := fresh in
  remember (sqrt (ax*ax+ay*ay+az*az)) as n eqn:E1; clear E1;
  remember (sqrt (mx*mx+my*my+mz*mz)) as k eqn:E2; clear E2;
  cancel_scale s n; cancel_scale t k; same_gates.

Lemma roleq_ned_scale s t w x y z gx gy gz ax ay az mx my mz r0 r1 r2 dt wa wm :
  0 < s -> 0 < t -> 0 < ax*ax+ay*ay+az*az -> 0 < mx*mx+my*my+mz*mz ->
  C05_roleq_ned_R w x y z gx gy gz (s*ax) (s*ay) (s*az) (t*mx) (t*my) (t*mz) r0 r1 r2 dt wa wm
  = C05_roleq_ned_R w x y z gx gy gz ax ay az mx my mz r0 r1 r2 dt wa wm.
Proof. intros Hs Ht Ha Hm. unfold C05_roleq_ned_R. scale2 s t ax ay az mx my mz Hs Ht Ha Hm. Qed.
