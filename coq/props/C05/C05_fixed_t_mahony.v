(* C05_fixed_t_mahony.v (thorough tier) — fixed points of AQUA's correction stage, of ROLEQ and of Mahony MARG by evaluation walks. *)
From Coq Require Import Reals List Lra Lia.
From AhrsLib Require Import Base Rot.
From AhrsGen Require Import C05gen_R.
From AhrsProps Require Import C05_base C05_walk.
Import ListNotations.
Open Scope R_scope.
Set Warnings "-variable-collision".

Ltac simp1 E := unfold Rdiv in E; rewrite ?Rinv_1, ?Rmult_1_r, ?Rmult_1_l, ?Ropp_0, ?Rmult_0_r, ?Rmult_0_l, ?Rplus_0_r, ?Rplus_0_l, ?Rminus_0_r in E.
(* value = 0 / radicand = 1: ring modulo the unit hypothesis Hu and the recorded squares  y*y = rad *)
Ltac zt Hu :=
  first [ ring | ring [Hu] | (field_simplify_eq; [ring [Hu] | lra ..])
        | match goal with Hs : ?t * ?t = ?rad |- ?x = 1 =>
            replace x with (rad / (t * t)) by (field; lra); rewrite <- Hs; field; lra end ].
Ltac zt0 Hu := first [ring | ring [Hu]].
Ltac gates0 :=
  first [ gate_01 | gate_var | gate_sqrt_pos ltac:(lra) | gate_sqrt0
        | match goal with |- context [Rlt_dec 0 0] => destruct (Rlt_dec 0 0); [exfalso; lra|] end ].
(* 0 < (norm of the Euler step)^2, whatever way the code wrote it *)
Ltac pt_kin HK dt g0 g1 g2 :=
  match goal with |- 0 < ?r =>
    first [ lra | replace r with (1 + dt*dt*(g0*g0+g1*g1+g2*g2)/4) by (revert HK; unfold_c05; intros HK; rewrite <- HK; field); nra ] end.
(* leaf  Val [k_i / t] = Val (qnormalize u)  with  t*t = |u|^2 recorded *)
Ltac leaf_normalized t Hsq :=
  unfold qnormalize;
  match goal with |- _ = Val (qscale (/ sqrt ?N) _) =>
    replace (sqrt N) with t by (symmetry; apply sqrt_eq_of_sq; [lra | rewrite Hsq; unfold_c05; field]) end;
  unfold_c05; val_eq; field; lra.

Lemma mahony_marg_fixed0 a b c d gx gy gz dt kp ki b0 b1 b2 m1 m2 : unit4 a b c d -> 0 < gx*gx+gy*gy+gz*gz ->
  0 < m1 -> m1*m1 + m2*m2 = 1 ->
  C05_mahony_marg_R a b c d gx gy gz (2*(b*d - a*c)) (2*(a*b + c*d)) (1 - 2*(b*b + c*c))
     (2*(b*c+a*d)*m1 + 2*(b*d-a*c)*m2) ((1-2*(b*b+d*d))*m1 + 2*(a*b+c*d)*m2) (2*(c*d-a*b)*m1 + (1-2*(b*b+c*c))*m2)
     dt kp ki b0 b1 b2
  = Val (qnormalize (kin [a;b;c;d] [gx - b0; gy - b1; gz - b2] dt) ++ [b0;b1;b2]).
Proof.
  intros H Hg Hm1 Hm. pose proof (kin_norm2 a b c d (gx-b0) (gy-b1) (gz-b2) dt H) as HK. unfold unit4 in H.
  assert (Hu : a*a = 1 - b*b - c*c - d*d) by lra. assert (Hm' : m1*m1 = 1 - m2*m2) by lra.
  cbv beta delta [C05_mahony_marg_R].
  repeat (first [ ev1 simp1 ltac:(idtac; first [zt0 Hu | ring [Hu Hm']]) ltac:(idtac; first [zt Hu | ring [Hu Hm'] | (field_simplify_eq; [ring [Hu Hm'] | lra ..])])
                            ltac:(idtac; pt_kin HK dt (gx-b0) (gy-b1) (gz-b2)) | gates0 ]).
  unfold qnormalize, qscale. cbv [app].
  match goal with E : ?t = sqrt _ |- context [sqrt (qnorm2 ?K)] =>
    assert (Ht : sqrt (qnorm2 K) = t) by (rewrite E; f_equal; unfold_c05; field);
    assert (Hp : 0 < sqrt (qnorm2 K)) by (apply sqrt_lt_R0, kin_norm2_pos; exact H);
    rewrite Ht in *; clear E end.
  unfold_c05. val_eq; field; lra.
Qed.
