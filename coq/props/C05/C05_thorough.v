(* C05_thorough.v — statements compiled in the thorough tier only (their proofs take 1.5-4 minutes each). *)
From Coq Require Import Reals List Lra Lia.
From AhrsLib Require Import Base Rot.
From AhrsGen Require Import C05gen_R.
From AhrsProps Require Import C05_base C05_fixed_t_aqua C05_fixed_t_roleq C05_fixed_t_mahony C05_scale_t_mahony C05_scale_t_aqua.
Import ListNotations.
Open Scope R_scope.

(* AQUA, correction stage (dt = 0 switches the prediction off; the gyro is non-zero only to pass the early return): with the
   accelerometer reading Rspec(q)e3 (AQUA stores the conjugate attitude) the delta quaternion is the identity: output = q *)
Theorem C05_aqua_fixed_point : forall a b c d gx gy gz alpha, a*a + b*b + c*c + d*d = 1 -> 0 < gx*gx + gy*gy + gz*gz ->
  C05_aqua_imu_R a b c d gx gy gz (2*(b*d + a*c)) (2*(c*d - a*b)) (1 - 2*(b*b + c*c)) 0 alpha = Val [a;b;c;d].
Proof. exact aqua_imu_fixed. Qed.
Print Assumptions C05_aqua_fixed_point.

(* ROLEQ (NED), fixed point: with acc and mag the exact images of a_ref = (0,0,-1) and of the unit m_ref = r under q, zero
   gyro and positive total weight, R q is a positive multiple of q: the update returns q *)
Theorem C05_roleq_fixed_point : forall a b c d r0 r1 r2 dt wa wm,
  a*a + b*b + c*c + d*d = 1 -> r0*r0 + r1*r1 + r2*r2 = 1 -> 0 < 1 + wa + wm ->
  C05_roleq_ned_R a b c d 0 0 0 (- (2*(b*d - a*c))) (- (2*(a*b + c*d))) (- (1 - 2*(b*b + c*c)))
     ((1 - 2*(c*c+d*d))*r0 + 2*(b*c+a*d)*r1 + 2*(b*d-a*c)*r2) (2*(b*c-a*d)*r0 + (1-2*(b*b+d*d))*r1 + 2*(a*b+c*d)*r2)
     (2*(b*d+a*c)*r0 + 2*(c*d-a*b)*r1 + (1-2*(b*b+c*c))*r2) r0 r1 r2 dt wa wm
  = Val [a;b;c;d].
Proof. exact roleq_ned_fixed. Qed.
Print Assumptions C05_roleq_fixed_point.

(* Mahony (MARG), fixed point: with acc the image of gravity and mag the image of a unit reference (0, m1, m2), m1 > 0 (the
   filter's own north-along-y reference) under q, both error terms vanish: omega_mes = 0, the bias is untouched and the
   estimate is only integrated with (gyr - b) *)
Theorem C05_mahony_marg_fixed_point : forall a b c d gx gy gz dt kp ki b0 b1 b2 m1 m2,
  a*a + b*b + c*c + d*d = 1 -> 0 < gx*gx + gy*gy + gz*gz -> 0 < m1 -> m1*m1 + m2*m2 = 1 ->
  C05_mahony_marg_R a b c d gx gy gz (2*(b*d - a*c)) (2*(a*b + c*d)) (1 - 2*(b*b + c*c))
     (2*(b*c+a*d)*m1 + 2*(b*d-a*c)*m2) ((1-2*(b*b+d*d))*m1 + 2*(a*b+c*d)*m2) (2*(c*d-a*b)*m1 + (1-2*(b*b+c*c))*m2)
     dt kp ki b0 b1 b2
  = Val (qnormalize (kin [a;b;c;d] [gx - b0; gy - b1; gz - b2] dt) ++ [b0;b1;b2]).
Proof. exact mahony_marg_fixed0. Qed.
Print Assumptions C05_mahony_marg_fixed_point.

(* magnitude independence of the large steps (lockstep walk) *)
Theorem C05_scale_invariance_marg : forall s t, 0 < s -> 0 < t ->
  forall w x y z gx gy gz ax ay az mx my mz dt, 0 < ax*ax + ay*ay + az*az -> 0 < mx*mx + my*my + mz*mz ->
  (forall kp ki b0 b1 b2,
     C05_mahony_marg_R w x y z gx gy gz (s*ax) (s*ay) (s*az) (t*mx) (t*my) (t*mz) dt kp ki b0 b1 b2
     = C05_mahony_marg_R w x y z gx gy gz ax ay az mx my mz dt kp ki b0 b1 b2) /\
  (forall alpha, C05_aqua_imu_R w x y z gx gy gz (s*ax) (s*ay) (s*az) dt alpha
                = C05_aqua_imu_R w x y z gx gy gz ax ay az dt alpha).
Proof.
  intros s t Hs Ht w x y z gx gy gz ax ay az mx my mz dt Ha Hm. split; intros.
  - exact (mahony_marg_scale s t w x y z gx gy gz ax ay az mx my mz dt kp ki b0 b1 b2 Hs Ht Ha Hm).
  - exact (aqua_imu_scale s w x y z gx gy gz ax ay az dt alpha Hs Ha).
Qed.
Print Assumptions C05_scale_invariance_marg.
