(* C05.v — property C05 (PARTIAL): recursive filters converge to the sensed attitude from any initial orientation.
   What is proved here is the mechanism (fixed points, exact Jacobians, descent sign, the linear filter in full);
   N-step convergence of Madgwick, Mahony, EKF, UKF, ROLEQ, FKF, AQUA is NOT proved (explored by the search oracle).
   Only statements, each closed by `exact`-style glue, each followed by Print Assumptions. *)
From Coq Require Import Reals List Lra Lia.
From AhrsLib Require Import Base Rot.
From AhrsGen Require Import C05gen_R.
From AhrsProps Require Import C05_base C05_mahony C05_ekf C05_compl C05_scale C05_scale_lock C05_scale_lock_roleq C05_fixed_madgwick.
Import ListNotations.
Open Scope R_scope.

(* Mahony (IMU), fixed point: when the accelerometer reads the exact image of gravity under the true attitude q* (or the
   estimate is -q_true), omega_mes vanishes: the bias is untouched and the estimate is only integrated with (gyr - b) *)
Theorem C05_mahony_fixed_point : forall a b c d gx gy gz dt kp ki b0 b1 b2,
  a*a + b*b + c*c + d*d = 1 -> 0 < gx*gx + gy*gy + gz*gz ->
  let acc := img [a;b;c;d] [0;0;1] in
  C05_mahony_imu_R a b c d gx gy gz (e acc 0) (e acc 1) (e acc 2) dt kp ki b0 b1 b2
    = Val (qnormalize (kin [a;b;c;d] [gx - b0; gy - b1; gz - b2] dt) ++ [b0;b1;b2]) /\
  C05_mahony_imu_R (-a) (-b) (-c) (-d) gx gy gz (e acc 0) (e acc 1) (e acc 2) dt kp ki b0 b1 b2
    = Val (qnormalize (kin [-a;-b;-c;-d] [gx - b0; gy - b1; gz - b2] dt) ++ [b0;b1;b2]).
Proof.
  intros a b c d gx gy gz dt kp ki b0 b1 b2 H Hg acc. split.
  - exact (mahony_imu_fixed a b c d gx gy gz dt kp ki b0 b1 b2 H Hg).
  - exact (mahony_imu_fixed_neg a b c d gx gy gz dt kp ki b0 b1 b2 H Hg).
Qed.
Print Assumptions C05_mahony_fixed_point.

(* Mahony (IMU), the step in closed form for every unit attitude, unit accelerometer direction and non-zero gyro:
   b' = b - ki dt (a x v),  q' = normalise(q + dt/2 q (x) (0, gyr - b' + kp (a x v))),  v = Rspec(q)^T e3 *)
Theorem C05_mahony_step_spec : forall w x y z gx gy gz ax ay az dt kp ki b0 b1 b2,
  w*w + x*x + y*y + z*z = 1 -> ax*ax + ay*ay + az*az = 1 -> 0 < gx*gx + gy*gy + gz*gz ->
  C05_mahony_imu_R w x y z gx gy gz ax ay az dt kp ki b0 b1 b2
  = Val (qnormalize (kin [w;x;y;z] (mahony_rate [w;x;y;z] [ax;ay;az] [gx;gy;gz] [b0;b1;b2] kp ki dt) dt)
         ++ mahony_b [w;x;y;z] [ax;ay;az] [b0;b1;b2] ki dt).
Proof. exact mahony_imu_step. Qed.
Print Assumptions C05_mahony_step_spec.

(* Mahony, descent sign: along the Euler step with body rate W the expected gravity v moves by dt (v x W) + dt^2/4 (exact
   remainder); for the proportional correction W = kp (a x v) the first-order change of the alignment a.v is
   kp (|a|^2 |v|^2 - (a.v)^2) >= 0  (Lagrange's identity), i.e. the error 1 - a.v changes by -kp |a x v|^2 <= 0 *)
Theorem C05_mahony_descent_sign : forall w x y z W0 W1 W2 dt (a v : list R) kp, 0 <= kp ->
  (let q := [w;x;y;z] in let vq := vhom q in let c := cross3 vq [W0;W1;W2] in let p := vhom (qmul q [0;W0;W1;W2]) in
   vhom (kin q [W0;W1;W2] dt) = [ qnorm2 q * 0 + e vq 0 + dt * e c 0 + dt*dt/4 * e p 0;
                                  e vq 1 + dt * e c 1 + dt*dt/4 * e p 1;
                                  e vq 2 + dt * e c 2 + dt*dt/4 * e p 2 ]) /\
  dot3 a (cross3 v (qscale3 kp (cross3 a v))) = kp * (dot3 a a * dot3 v v - dot3 a v * dot3 a v) /\
  0 <= kp * (dot3 a a * dot3 v v - dot3 a v * dot3 a v) /\
  dot3 (cross3 a v) (cross3 a v) = dot3 a a * dot3 v v - dot3 a v * dot3 a v.
Proof.
  intros w x y z W0 W1 W2 dt a v kp Hk. split; [exact (mahony_kinematics w x y z W0 W1 W2 dt)|].
  destruct (mahony_descent_sign a v kp Hk) as [A B]. split; [exact A|]. split; [exact B|exact (lagrange a v)].
Qed.
Print Assumptions C05_mahony_descent_sign.

(* EKF, innovation at the truth: the measurement model returns exactly the consistent measurement, z - h(q_true) = 0
   (IMU and MARG, NED and ENU; m_ref = r arbitrary) *)
Theorem C05_ekf_innovation_zero : forall w x y z r0 r1 r2, w*w + x*x + y*y + z*z = 1 ->
  C05_ekf_h_imu_ned_R w x y z = Val (img [w;x;y;z] [0;0;1]) /\
  C05_ekf_h_imu_enu_R w x y z = Val (img [w;x;y;z] [0;0;-1]) /\
  C05_ekf_h_marg_ned_R w x y z r0 r1 r2 = Val (img [w;x;y;z] [0;0;1] ++ img [w;x;y;z] [r0;r1;r2]) /\
  C05_ekf_h_marg_enu_R w x y z r0 r1 r2 = Val (img [w;x;y;z] [0;0;-1] ++ img [w;x;y;z] [r0;r1;r2]) /\
  C05_ekf_h_marg_ned_R (-w) (-x) (-y) (-z) r0 r1 r2 = C05_ekf_h_marg_ned_R w x y z r0 r1 r2.
Proof.
  intros w x y z r0 r1 r2 H.
  split; [exact (ekf_h_imu_ned w x y z H)|]. split; [exact (ekf_h_imu_enu w x y z H)|].
  split; [exact (ekf_h_marg_ned w x y z r0 r1 r2 H)|]. split; [exact (ekf_h_marg_enu w x y z r0 r1 r2 H)|].
  assert (H' : unit4 (-w) (-x) (-y) (-z)) by (unfold unit4; rewrite <- H; ring).
  rewrite (ekf_h_marg_ned _ _ _ _ r0 r1 r2 H'), (ekf_h_marg_ned w x y z r0 r1 r2 H).
  f_equal. unfold_c05. cbv [app]. list_eq; ring.
Qed.
Print Assumptions C05_ekf_innovation_zero.

(* EKF, Jacobians (normal mode, both frames, IMU and MARG): dhdq(q) is the exact derivative of the homogeneous measurement
   model hhom (= h on unit quaternions): hhom(q+d) - hhom(q) - H(q) d = hhom(d) for EVERY increment d; dfdq is the
   exact derivative of the (linear) process model f *)
Theorem C05_ekf_jacobian_exact : forall w x y z r0 r1 r2,
  (exists H, C05_ekf_dhdq_imu_ned_R w x y z = Val H /\ exact_jacobian 3 (hhom [0;0;1]) H [w;x;y;z]) /\
  (exists H, C05_ekf_dhdq_imu_enu_R w x y z = Val H /\ exact_jacobian 3 (hhom [0;0;-1]) H [w;x;y;z]) /\
  (exists H, C05_ekf_dhdq_marg_ned_R w x y z r0 r1 r2 = Val H /\
             exact_jacobian 6 (fun q => hhom [0;0;1] q ++ hhom [r0;r1;r2] q) H [w;x;y;z]) /\
  (exists H, C05_ekf_dhdq_marg_enu_R w x y z r0 r1 r2 = Val H /\
             exact_jacobian 6 (fun q => hhom [0;0;-1] q ++ hhom [r0;r1;r2] q) H [w;x;y;z]) /\
  (w*w + x*x + y*y + z*z = 1 -> hhom [r0;r1;r2] [w;x;y;z] = img [w;x;y;z] [r0;r1;r2]).
Proof.
  intros w x y z r0 r1 r2.
  split; [exact (ekf_dhdq_imu_ned_exact w x y z)|]. split; [exact (ekf_dhdq_imu_enu_exact w x y z)|].
  split; [exact (ekf_dhdq_marg_ned_exact w x y z r0 r1 r2)|]. split; [exact (ekf_dhdq_marg_enu_exact w x y z r0 r1 r2)|].
  exact (hhom_img w x y z r0 r1 r2).
Qed.
Print Assumptions C05_ekf_jacobian_exact.

Theorem C05_ekf_process_model : forall w x y z gx gy gz dt,
  C05_ekf_f_R w x y z gx gy gz dt = Val (kin [w;x;y;z] [gx;gy;gz] dt) /\
  (exists F, C05_ekf_dfdq_R gx gy gz dt = Val F /\
     forall w x y z d0 d1 d2 d3,
     Forall (fun i => e (kin (qadd [w;x;y;z] [d0;d1;d2;d3]) [gx;gy;gz] dt) i - e (kin [w;x;y;z] [gx;gy;gz] dt) i
                      = row4 F [d0;d1;d2;d3] i) (seq 0 4)) /\
  C05_ekf_f_R w x y z 0 0 0 dt = Val [w;x;y;z].
Proof.
  intros w x y z gx gy gz dt. split; [exact (ekf_f_spec w x y z gx gy gz dt)|]. split; [exact (ekf_dfdq_exact gx gy gz dt)|].
  rewrite ekf_f_spec. unfold_c05. val_eq; field.
Qed.
Print Assumptions C05_ekf_process_model.

(* Complementary filter, FULL convergence: for every motionless history (constant acc != 0, mag != 0), every gain in [0,1), every
   gyro history bounded by eps, the iteration of the regenerated blend step stays defined and each Euler angle approaches the
   accelerometer/magnetometer angle m_i geometrically:  |e_N| <= gain^N |e_0| + gain dt eps / (1 - gain) *)
Theorem C05_complementary_converges : forall ax ay az mx my mz dt gamma eps,
  0 < ax*ax + ay*ay + az*az -> 0 < mx*mx + my*my + mz*mz -> 0 <= gamma < 1 -> 0 <= dt -> 0 <= eps ->
  exists m0 m1 m2, C05_compl_am_R ax ay az mx my mz = Val [m0;m1;m2] /\
  forall (gs : list (R * R * R)) a b c,
  Forall (fun g => Rabs (fst (fst g)) <= eps /\ Rabs (snd (fst g)) <= eps /\ Rabs (snd g) <= eps) gs ->
  exists a' b' c', run ax ay az mx my mz dt gamma (a, b, c) gs = Val [a'; b'; c'] /\
    Rabs (a' - m0) <= gamma ^ length gs * Rabs (a - m0) + gamma * dt * eps / (1 - gamma) /\
    Rabs (b' - m1) <= gamma ^ length gs * Rabs (b - m1) + gamma * dt * eps / (1 - gamma) /\
    Rabs (c' - m2) <= gamma ^ length gs * Rabs (c - m2) + gamma * dt * eps / (1 - gamma).
Proof.
  intros ax ay az mx my mz dt gamma eps Ha Hm Hg Hdt He.
  destruct (run_is_iter ax ay az mx my mz dt gamma Ha Hm) as (m0 & m1 & m2 & Ham & Hrun).
  exists m0, m1, m2. split; [exact Ham|]. intros gs a b c HF.
  do 3 eexists. split; [apply Hrun|].
  assert (L : forall (f : R * R * R -> R), length (map f gs) = length gs) by (intros; apply map_length).
  repeat split.
  - rewrite <- (L (fun g => fst (fst g))). apply iter_converges; try assumption.
    apply Forall_map. eapply Forall_impl; [|exact HF]. simpl. tauto.
  - rewrite <- (L (fun g => snd (fst g))). apply iter_converges; try assumption.
    apply Forall_map. eapply Forall_impl; [|exact HF]. simpl. tauto.
  - rewrite <- (L snd). apply iter_converges; try assumption.
    apply Forall_map. eapply Forall_impl; [|exact HF]. simpl. tauto.
Qed.
Print Assumptions C05_complementary_converges.

(* Madgwick (IMU), fixed point: with the accelerometer reading the exact image of gravity under the true attitude q_true the
   objective function vanishes, the gradient branch is skipped and the step is pure gyro integration, at q_true and at -q_true *)
Theorem C05_madgwick_fixed_point : forall a b c d gx gy gz dt beta,
  a*a + b*b + c*c + d*d = 1 -> 0 < gx*gx + gy*gy + gz*gz ->
  let acc := img [a;b;c;d] [0;0;1] in
  C05_madgwick_imu_R a b c d gx gy gz (e acc 0) (e acc 1) (e acc 2) dt beta
    = Val (qnormalize (kin [a;b;c;d] [gx;gy;gz] dt)) /\
  C05_madgwick_imu_R (-a) (-b) (-c) (-d) gx gy gz (e acc 0) (e acc 1) (e acc 2) dt beta
    = Val (qnormalize (kin [-a;-b;-c;-d] [gx;gy;gz] dt)).
Proof.
  intros a b c d gx gy gz dt beta H Hg acc. split.
  - exact (madgwick_imu_fixed a b c d gx gy gz dt beta H Hg).
  - exact (madgwick_imu_fixed_neg a b c d gx gy gz dt beta H Hg).
Qed.
Print Assumptions C05_madgwick_fixed_point.

(* magnitude independence: the measurements are images of reference DIRECTIONS; multiplying the accelerometer (and the
   magnetometer) sample by any positive constants leaves the regenerated step unchanged (every output, every branch) —
   Mahony IMU (q and bias), Madgwick IMU, ROLEQ (both frames), Complementary (IMU, MARG); Mahony MARG, Madgwick MARG and
   AQUA IMU are in C05_thorough.v.  A correction built from the raw instead of the
   normalised sample (effective gain k_P*|a|) fails this. *)
Theorem C05_scale_invariance : forall s t, 0 < s -> 0 < t ->
  forall w x y z gx gy gz ax ay az mx my mz dt, 0 < ax*ax + ay*ay + az*az -> 0 < mx*mx + my*my + mz*mz ->
  (forall kp ki b0 b1 b2, C05_mahony_imu_R w x y z gx gy gz (s*ax) (s*ay) (s*az) dt kp ki b0 b1 b2
                         = C05_mahony_imu_R w x y z gx gy gz ax ay az dt kp ki b0 b1 b2) /\
  (forall beta, C05_madgwick_imu_R w x y z gx gy gz (s*ax) (s*ay) (s*az) dt beta
               = C05_madgwick_imu_R w x y z gx gy gz ax ay az dt beta) /\
  (forall r0 r1 r2 wa wm,
     C05_roleq_ned_R w x y z gx gy gz (s*ax) (s*ay) (s*az) (t*mx) (t*my) (t*mz) r0 r1 r2 dt wa wm
     = C05_roleq_ned_R w x y z gx gy gz ax ay az mx my mz r0 r1 r2 dt wa wm /\
     C05_roleq_enu_R w x y z gx gy gz (s*ax) (s*ay) (s*az) (t*mx) (t*my) (t*mz) r0 r1 r2 dt wa wm
     = C05_roleq_enu_R w x y z gx gy gz ax ay az mx my mz r0 r1 r2 dt wa wm) /\
  (forall e0 e1 e2 u0 u1 u2 gain,
     C05_compl_marg_R e0 e1 e2 u0 u1 u2 gx gy gz (s*ax) (s*ay) (s*az) (t*mx) (t*my) (t*mz) dt gain
     = C05_compl_marg_R e0 e1 e2 u0 u1 u2 gx gy gz ax ay az mx my mz dt gain /\
     C05_compl_imu_R e0 e1 e2 u0 u1 u2 gx gy gz (s*ax) (s*ay) (s*az) dt gain
     = C05_compl_imu_R e0 e1 e2 u0 u1 u2 gx gy gz ax ay az dt gain).
Proof.
  intros s t Hs Ht w x y z gx gy gz ax ay az mx my mz dt Ha Hm. split; [|split; [|split]].
  - intros. exact (mahony_imu_scale s w x y z gx gy gz ax ay az dt kp ki b0 b1 b2 Hs Ha).
  - intros. exact (madgwick_imu_scale s w x y z gx gy gz ax ay az dt beta Hs Ha).
  - intros. split; [exact (roleq_ned_scale s t w x y z gx gy gz ax ay az mx my mz r0 r1 r2 dt wa wm Hs Ht Ha Hm)
                   |exact (roleq_enu_scale s t w x y z gx gy gz ax ay az mx my mz r0 r1 r2 dt wa wm Hs Ht Ha Hm)].
  - intros. split; [exact (compl_marg_scale s t e0 e1 e2 u0 u1 u2 gx gy gz ax ay az mx my mz dt gain Hs Ht Ha Hm)
                   |exact (compl_imu_scale s e0 e1 e2 u0 u1 u2 gx gy gz ax ay az dt gain Hs Ha)].
Qed.
Print Assumptions C05_scale_invariance.

(* non-vacuity: the hypotheses are inhabited by non-trivial values *)
Example C05_nonvacuous :
  (1/2)*(1/2) + (1/2)*(1/2) + (1/2)*(1/2) + (1/2)*(1/2) = 1 /\ img [1/2;1/2;1/2;1/2] [0;0;1] = [0;1;0] /\
  iter (1/2) 1 0 8 [0;0;0] = 1 /\ 0 <= 1/2 < 1.
Proof. split; [lra|]. split; [unfold_c05; list_eq; lra|]. split; [unfold iter, blend; lra|lra]. Qed.
