(* C05_scale.v — the measurements enter every traced update only through their DIRECTION: multiplying the accelerometer
   (and the magnetometer) sample by any positive constant leaves the regenerated step unchanged (all outputs, all branches). *)
From Coq Require Import Reals List Lra Lia.
From AhrsLib Require Import Base Rot.
From AhrsGen Require Import C05gen_R.
From AhrsProps Require Import C05_base.
Import ListNotations.
Open Scope R_scope.

Lemma sqrt_scale3 s a b c : 0 < s ->
  sqrt ((s*a)*(s*a) + (s*b)*(s*b) + (s*c)*(s*c)) = s * sqrt (a*a + b*b + c*c).
Proof.
  intros Hs. replace ((s*a)*(s*a) + (s*b)*(s*b) + (s*c)*(s*c)) with ((s*s) * (a*a + b*b + c*c)) by ring.
  rewrite sqrt_mult; [|nra|nra]. rewrite sqrt_square; lra.
Qed.

(* cancel the scale in every quotient (s*a)/(s*n) (also written as a product with the reciprocal), then decide/split the remaining gates identically on both sides *)
Ltac cancel_scale s n :=
  repeat match goal with
  | |- context [s * ?a / (s * n)] => replace (s * a / (s * n)) with (a / n) by (field; split; lra)
  | |- context [s * ?a * (1 / (s * n))] => replace (s * a * (1 / (s * n))) with (a * (1 / n)) by (field; split; lra)
  | |- context [s * ?a * / (s * n)] => replace (s * a * / (s * n)) with (a * / n) by (field; split; lra)
  | |- context [1 / (s * n) * (s * ?a)] => replace (1 / (s * n) * (s * a)) with (1 / n * a) by (field; split; lra)
  | |- context [/ (s * n) * (s * ?a)] => replace (/ (s * n) * (s * a)) with (/ n * a) by (field; split; lra)
  end.
Ltac same_gates :=
  repeat (match goal with
          | |- context [Rlt_dec 0 ?e] => destruct (Rlt_dec 0 e)
          | |- context [Req_EM_T 0 ?e] => destruct (Req_EM_T 0 e)
          end; try (exfalso; nra)); try reflexivity.

Lemma mahony_imu_scale s w x y z gx gy gz ax ay az dt kp ki b0 b1 b2 : 0 < s -> 0 < ax*ax+ay*ay+az*az ->
  C05_mahony_imu_R w x y z gx gy gz (s*ax) (s*ay) (s*az) dt kp ki b0 b1 b2
  = C05_mahony_imu_R w x y z gx gy gz ax ay az dt kp ki b0 b1 b2.
Proof.
  intros Hs Ha. unfold C05_mahony_imu_R. cbv zeta. rewrite !(sqrt_scale3 s) by exact Hs.
  apply sqrt_lt_R0 in Ha. remember (sqrt (ax*ax+ay*ay+az*az)) as n eqn:En. clear En.
  cancel_scale s n. same_gates.
Qed.

Ltac scale2 s t ax ay az mx my mz Hs Ht Ha Hm :=
  cbv zeta; rewrite ?(sqrt_scale3 s) by exact Hs; rewrite ?(sqrt_scale3 t) by exact Ht;
  apply sqrt_lt_R0 in Ha; apply sqrt_lt_R0 in Hm;
  let n := fresh "n" in let k := fresh "k" in let E1 := fresh in let E2 := fresh in
  remember (sqrt (ax*ax+ay*ay+az*az)) as n eqn:E1; clear E1;
  remember (sqrt (mx*mx+my*my+mz*mz)) as k eqn:E2; clear E2;
  cancel_scale s n; cancel_scale t k; same_gates.

Lemma compl_marg_scale s t e0 e1 e2 u0 u1 u2 gx gy gz ax ay az mx my mz dt gain :
  0 < s -> 0 < t -> 0 < ax*ax+ay*ay+az*az -> 0 < mx*mx+my*my+mz*mz ->
  C05_compl_marg_R e0 e1 e2 u0 u1 u2 gx gy gz (s*ax) (s*ay) (s*az) (t*mx) (t*my) (t*mz) dt gain
  = C05_compl_marg_R e0 e1 e2 u0 u1 u2 gx gy gz ax ay az mx my mz dt gain.
Proof. intros Hs Ht Ha Hm. unfold C05_compl_marg_R. scale2 s t ax ay az mx my mz Hs Ht Ha Hm. Qed.
Lemma compl_imu_scale s e0 e1 e2 u0 u1 u2 gx gy gz ax ay az dt gain : 0 < s -> 0 < ax*ax+ay*ay+az*az ->
  C05_compl_imu_R e0 e1 e2 u0 u1 u2 gx gy gz (s*ax) (s*ay) (s*az) dt gain
  = C05_compl_imu_R e0 e1 e2 u0 u1 u2 gx gy gz ax ay az dt gain.
Proof.
  intros Hs Ha. unfold C05_compl_imu_R. cbv zeta. rewrite !(sqrt_scale3 s) by exact Hs.
  apply sqrt_lt_R0 in Ha. remember (sqrt (ax*ax+ay*ay+az*az)) as n eqn:En. clear En.
  cancel_scale s n. same_gates.
Qed.
