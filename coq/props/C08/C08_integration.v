(* C08_integration.v — the vectorised AngularRate(method='integration'): the first output row of a one-sample history is
   the roll-pitch-yaw quaternion of the angles gyr*dt (PARTIAL: a rotation integral only when the rate stays on one axis) *)
From Coq Require Import Reals List Lra.
From AhrsLib Require Import Base Rot.
From AhrsGen Require Import C08gen_R.
From AhrsProps Require Import C08_lib.
Import ListNotations.
Open Scope R_scope.

(* the quaternion  qz(yaw) (x) qy(pitch) (x) qx(roll)  of the half angles *)
Definition rpyq (r p y : R) : list R :=
  [cos (y/2) * cos (p/2) * cos (r/2) + sin (y/2) * sin (p/2) * sin (r/2);
   cos (y/2) * cos (p/2) * sin (r/2) - sin (y/2) * sin (p/2) * cos (r/2);
   sin (y/2) * cos (p/2) * sin (r/2) + cos (y/2) * sin (p/2) * cos (r/2);
   sin (y/2) * cos (p/2) * cos (r/2) - cos (y/2) * sin (p/2) * sin (r/2)].

Lemma integration_val g0 g1 g2 : C08_integration_R g0 g1 g2 = Val (rpyq (g0/20) (g1/20) (g2/20)).
Proof.
  cbv beta delta [C08_integration_R]. cbv zeta. unfold rpyq.
  replace (1 / 2 * (g0 * (1 / 20))) with (g0 / 20 / 2) by field.
  replace (1 / 2 * (g1 * (1 / 20))) with (g1 / 20 / 2) by field.
  replace (1 / 2 * (g2 * (1 / 20))) with (g2 / 20 / 2) by field.
  pose proof (sin2_cos2 (g0/20/2)) as T0. pose proof (sin2_cos2 (g1/20/2)) as T1. pose proof (sin2_cos2 (g2/20/2)) as T2.
  unfold Rsqr in T0, T1, T2.
  set (c0 := cos (g0/20/2)) in *. set (s0 := sin (g0/20/2)) in *. set (c1 := cos (g1/20/2)) in *. set (s1 := sin (g1/20/2)) in *.
  set (c2 := cos (g2/20/2)) in *. set (s2 := sin (g2/20/2)) in *.
  assert (U0 : s0 * s0 = 1 - c0 * c0) by lra. assert (U1 : s1 * s1 = 1 - c1 * c1) by lra. assert (U2 : s2 * s2 = 1 - c2 * c2) by lra.
  match goal with |- context [sqrt ?e0] =>
    match e0 with context [sqrt _] => fail 1 | _ => replace e0 with 1 by (ring [U0 U1 U2]) end end.
  rewrite sqrt_1, !div_1.
  match goal with |- context [sqrt ?e0] => replace e0 with 1 by (ring [U0 U1 U2]) end.
  rewrite sqrt_1, !div_1. destruct (Rlt_dec 0 1) as [_|N]; [reflexivity|lra].
Qed.

(* integration_single_axis (PARTIAL): on the x axis the method returns the rotation by g0*dt about x *)
Lemma integration_single_axis g0 : C08_integration_R g0 0 0 = Val [cos (g0/20/2); sin (g0/20/2); 0; 0].
Proof.
  rewrite integration_val. unfold rpyq. replace (0/20/2) with 0 by field. rewrite cos_0, sin_0. val_eq; ring.
Qed.
