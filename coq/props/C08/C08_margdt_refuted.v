(* C08_margdt_refuted.v — witness, inside the regenerated model, of the known finding
   "Madgwick.updateMARG/mag-null-delegation-drops-dt": with a null magnetometer sample Madgwick.updateMARG delegates to
   self.updateIMU(q, gyr, acc) WITHOUT its dt argument, so the gyro-only step is taken with the object's default Dt (0.01 s)
   instead of the requested step.  Compiled separately: once repaired this file stops compiling. *)
From Coq Require Import Reals List Lra.
From Interval Require Import Tactic.
From AhrsLib Require Import Base Rot.
From AhrsGen Require Import C08gen_R.
From AhrsProps Require Import C08_lib.
Import ListNotations.
Open Scope R_scope.

Lemma madgwick_marg_at_witness gain : exists l, C08_madgwick_marg_R 1 2 0 0 1 0 0 0 gain 0 0 0 = Val l /\ e l 1 < 1/10.
Proof.
  cbv beta delta [C08_madgwick_marg_R]. cbv zeta.
  replace (1*1 + 0*0 + 0*0 + 0*0) with 1 by ring. rewrite sqrt_1. destruct (Req_EM_T 0 1) as [Z|_]; [lra|].
  rewrite (sqrt_gate_nz (2*2+0*0+0*0)) by lra. rewrite (sqrt_gate_z (0*0+0*0+0*0)) by ring. rewrite !div_1.
  replace (1*1 + 0*0 + 0*0 + 0*0) with 1 by ring. rewrite sqrt_1. destruct (Req_EM_T 0 1) as [Z|_]; [lra|]. rewrite !div_1.
  try match goal with |- context [Req_EM_T 0 (sqrt ?e0)] => assert (P : 0 < e0) by lra; rewrite (sqrt_gate_nz _ _ _ _ P) end.
  eexists. split; [reflexivity|]. cbv [e List.nth]. interval.
Qed.

Theorem C08_madgwick_marg_dt_refuted : exists dt wx wy wz w x y z gain l,
  w*w+x*x+y*y+z*z = 1 /\ wx*wx+wy*wy+wz*wz <> 0 /\
  C08_madgwick_marg_R dt wx wy wz w x y z gain 0 0 0 = Val l /\ l <> qnormalize (dr_step dt wx wy wz [w;x;y;z]).
Proof.
  destruct (madgwick_marg_at_witness 0) as (l & Hl & B).
  exists 1, 2, 0, 0, 1, 0, 0, 0, 0, l. split; [ring|]. split; [lra|]. split; [exact Hl|].
  intros E. apply (f_equal (fun v => e v 1)) in E.
  assert (X : 7/10 < e (qnormalize (dr_step 1 2 0 0 [1;0;0;0])) 1) by (unfold qnormalize, dr_step; unfold_q; interval).
  lra.
Qed.
Print Assumptions C08_madgwick_marg_dt_refuted.
