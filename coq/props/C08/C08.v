(* C08.v — property C08: gyro integration is exact for constant rates, of the stated order otherwise. Statements only.
   Definitions used (C08_lib.v): Omega4 (the 4x4 matrix of right multiplication by (0,w)), hS dt w = dt/2 Omega(w),
   uu dt w = (|w| dt/2)^2, mpow4 / expsum (TRUE matrix power / partial sum of the exponential), rotq w t (axis w/|w|,
   angle |w| t), dr_step dt w q = q + dt/2 q(x)(0,w), qnormalize, iter;  qmul/qconj/unitq are AhrsLib.Rot's. *)
From Coq Require Import Reals List Lra Lia.
From AhrsLib Require Import Base Rot.
From AhrsGen Require Import C08gen_R.
From AhrsProps Require Import C08_lib C08_closed C08_series C08_series5 C08_series6 C08_bounds C08_deadreck C08_integration.
Import ListNotations.
Open Scope R_scope.

(* omega_sq: Omega(w)^2 = -|w|^2 I; Omega(w) q = q (x) (0,w); and hence every TRUE power of S = dt/2 Omega(w) *)
Theorem C08_omega_sq : forall wx wy wz dt q n,
  mmul4 (Omega4 wx wy wz) (Omega4 wx wy wz) = mscal4 (- (wx*wx + wy*wy + wz*wz)) I4 /\
  m4v (Omega4 wx wy wz) q = qmul q [0; wx; wy; wz] /\
  mpow4 (hS dt wx wy wz) (2 * n) = mscal4 ((- uu dt wx wy wz) ^ n) I4 /\
  mpow4 (hS dt wx wy wz) (S (2 * n)) = mscal4 ((- uu dt wx wy wz) ^ n) (hS dt wx wy wz).
Proof.
  intros. split; [exact (omega_sq wx wy wz)|]. split; [exact (omega_is_right_product wx wy wz q)|exact (hS_pow dt wx wy wz n)].
Qed.
Print Assumptions C08_omega_sq.

(* closed_is_axis_angle: one closed-form step from any unit attitude, any rate (zero included), any step size *)
Theorem C08_closed_is_axis_angle : forall dt wx wy wz w x y z, w*w + x*x + y*y + z*z = 1 ->
  C08_closed_R dt wx wy wz w x y z = Val (qmul [w;x;y;z] (rotq wx wy wz dt)).
Proof. exact closed_val. Qed.
Print Assumptions C08_closed_is_axis_angle.

(* closed_N_steps: a constant rate integrated for ANY number N of steps from any unit attitude is the initial attitude
   composed with the axis-angle rotation by rate x elapsed time (and stays a unit quaternion) *)
Theorem C08_closed_N_steps : forall dt wx wy wz q N, unitq q ->
  iter (closed_step dt wx wy wz) N q = qmul q (rotq wx wy wz (INR N * dt)) /\ unitq (iter (closed_step dt wx wy wz) N q).
Proof. exact closed_N_steps. Qed.
Print Assumptions C08_closed_N_steps.

(* series_k_is_partial_sum: for each order 0..6 the regenerated series step is the normalised k-th partial sum of
   exp(dt/2 Omega(w)) with TRUE matrix powers (guard (|w| dt/2)^2 <= 1 keeps the sum away from the zero vector) *)
Theorem C08_series_is_partial_sum : forall dt wx wy wz w x y z,
  w*w + x*x + y*y + z*z = 1 -> wx*wx + wy*wy + wz*wz <> 0 -> uu dt wx wy wz <= 1 ->
  let P k := Val (qnormalize (m4v (expsum (hS dt wx wy wz) k) [w;x;y;z])) in
  C08_series0_R dt wx wy wz w x y z = P 0%nat /\ C08_series1_R dt wx wy wz w x y z = P 1%nat /\
  C08_series2_R dt wx wy wz w x y z = P 2%nat /\ C08_series3_R dt wx wy wz w x y z = P 3%nat /\
  C08_series4_R dt wx wy wz w x y z = P 4%nat /\ C08_series5_R dt wx wy wz w x y z = P 5%nat /\
  C08_series6_R dt wx wy wz w x y z = P 6%nat.
Proof.
  intros dt wx wy wz w x y z H NZ U P. unfold P.
  rewrite <- !series_vec_is_partial_sum by lia.
  split; [apply series0_val; auto; apply series_vec_pos; auto; lia|].
  split; [apply series1_val; auto; apply series_vec_pos; auto; lia|].
  split; [apply series2_val; auto; apply series_vec_pos; auto; lia|].
  split; [apply series3_val; auto; apply series_vec_pos; auto; lia|].
  split; [apply series4_val; auto; apply series_vec_pos; auto; lia|].
  split; [apply series5_val; auto; apply series_vec_pos; auto; lia|apply series6_val; auto; apply series_vec_pos; auto; lia].
Qed.
Print Assumptions C08_series_is_partial_sum.

(* series_error_k: the k-th partial sum is ak I + bk S, the closed form is cos h I + (sin h / h) S, and both coefficient
   errors are at most the first omitted term h^(k+1)/(k+1)!, for 0 <= h = |w| dt/2 <= 1 and k <= 6; the bound strictly
   decreases with k *)
Theorem C08_series_error : forall dt wx wy wz q k, (k <= 6)%nat -> wx*wx + wy*wy + wz*wz <> 0 -> 0 < dt ->
  let h := wnorm wx wy wz * dt / 2 in h <= 1 ->
  m4v (expsum (hS dt wx wy wz) k) q = qadd (qscale (ak k (h*h)) q) (qscale (bk k (h*h)) (m4v (hS dt wx wy wz) q)) /\
  qmul q (rotq wx wy wz dt) = qadd (qscale (cos h) q) (qscale (sin h / h) (m4v (hS dt wx wy wz) q)) /\
  Rabs (ak k (h*h) - cos h) <= h ^ (k + 1) / INR (fact (k + 1)) /\
  Rabs (h * bk k (h*h) - sin h) <= h ^ (k + 1) / INR (fact (k + 1)) /\
  h ^ (S k + 1) / INR (fact (S k + 1)) < h ^ (k + 1) / INR (fact (k + 1)).
Proof.
  intros dt wx wy wz q k Hk NZ D h H1.
  destruct (closed_decomp dt wx wy wz q NZ (Rgt_not_eq _ _ D)) as [C U]. fold h in C, U.
  assert (Hp : 0 < h).
  { unfold h. pose proof (wnorm_sq wx wy wz). pose proof (wnorm_ge0 wx wy wz).
    assert (0 < wnorm wx wy wz) by nra. nra. }
  split; [rewrite <- U, <- series_vec_is_partial_sum by exact Hk; reflexivity|]. split; [exact C|].
  destruct (series_error h (Rlt_le _ _ Hp) H1 k Hk) as [E1 E2]. split; [exact E1|]. split; [exact E2|].
  exact (bound_decreasing h H1 k Hp).
Qed.
Print Assumptions C08_series_error.

(* dead_reckoning_same_step: with a null accelerometer sample Madgwick and Mahony (IMU and MARG entry points), and the
   prediction steps of EKF and ROLEQ, advance by the same first-order step q + dt/2 q(x)(0,w) (EKF.f before its later
   normalisation); AQUA (IMU, MARG, adaptive or not) advances its conjugate-convention attitude by the conjugate of that
   step; and that step is the order-1 series step.  The statement is quantified over the CARRIED STATE of every filter
   object as well: Mahony's bias estimate b and gains k_P, k_I (the bias is returned unchanged), Madgwick's gain, AQUA's
   alpha / beta / threshold, EKF's covariance P = p I, and over the magnetometer sample of the MARG entry points: the
   step depends on none of them. *)
Theorem C08_dead_reckoning_same_step : forall dt wx wy wz w x y z b0 b1 b2 kp ki gain alpha beta thr p m0 m1 m2,
  w*w + x*x + y*y + z*z = 1 -> wx*wx + wy*wy + wz*wz <> 0 ->
  let D := dr_step dt wx wy wz [w;x;y;z] in
  C08_ekf_f_R dt wx wy wz w x y z p = Val D /\
  C08_roleq_R dt wx wy wz w x y z = Val (qnormalize D) /\
  C08_madgwick_R dt wx wy wz w x y z gain = Val (qnormalize D) /\
  (m0*m0 + m1*m1 + m2*m2 <> 0 -> C08_madgwick_marg_R dt wx wy wz w x y z gain m0 m1 m2 = Val (qnormalize D)) /\
  C08_mahony_R dt wx wy wz w x y z b0 b1 b2 kp ki = Val (qnormalize D ++ [b0; b1; b2]) /\
  C08_mahony_marg_R dt wx wy wz w x y z b0 b1 b2 kp ki m0 m1 m2 = Val (qnormalize D ++ [b0; b1; b2]) /\
  C08_aqua_R dt wx wy wz w (-x) (-y) (-z) alpha beta thr = Val (qconj (qnormalize D)) /\
  C08_aqua_adaptive_R dt wx wy wz w (-x) (-y) (-z) alpha beta thr = Val (qconj (qnormalize D)) /\
  C08_aqua_marg_R dt wx wy wz w (-x) (-y) (-z) alpha beta thr m0 m1 m2 = Val (qconj (qnormalize D)) /\
  C08_series1_R dt wx wy wz w x y z = Val (qnormalize D).
Proof.
  intros dt wx wy wz w x y z b0 b1 b2 kp ki gain alpha beta thr p m0 m1 m2 H NZ D. unfold D.
  assert (C : qconj [w; -x; -y; -z] = [w;x;y;z]) by (unfold_rot; list_eq; ring).
  split; [apply ekf_f_val|]. split; [apply roleq_val|]. split; [apply madgwick_val; auto|].
  split; [intros MZ; apply madgwick_marg_val; auto|]. split; [apply mahony_val; auto|]. split; [apply mahony_marg_val; auto|].
  split; [rewrite aqua_val; [rewrite C; reflexivity|nra|exact NZ]|].
  split; [rewrite aqua_adaptive_val; [rewrite C; reflexivity|nra|exact NZ]|].
  split; [rewrite aqua_marg_val; [rewrite C; reflexivity|nra|exact NZ]|].
  apply series1_is_dr; auto.
Qed.
Print Assumptions C08_dead_reckoning_same_step.

(* the step configured through frequency=: every estimator's constructor derives Dt = 1/f exactly (Dt * f = 1), at
   sampling rates whose period is not a round decimal (30, 60, 75, 128, 256, 333 Hz) as well as 50, 100, 1000 Hz *)
Theorem C08_step_is_inverse_frequency : forall u,
  C08_Dt_R u = Val (periods ++ periods ++ periods ++ periods ++ periods ++ periods) /\
  Forall2 (fun p f => p * f = 1) periods freqs /\ length periods = 9%nat.
Proof. intros u. split; [apply Dt_val|]. split; [exact periods_inverse|reflexivity]. Qed.
Print Assumptions C08_step_is_inverse_frequency.

(* angular velocities: QuaternionArray([p,q]).angular_velocities(0.01)[0] = 2/dt vec(p* (x) q) for unit rows; applied to a
   closed-form (constant-rate) step it returns the exact axis with the magnitude scaled by sin(h)/h, h = |w| dt/2 — so
   re-integrating reproduces the sequence up to h - sin h <= h^3/6 per step (angvel_inverse_partial: the O(h^3) defect is
   stated, the N-step accumulation is explored by the search oracle only) *)
Theorem C08_angular_velocities_partial : forall (a b c d wx wy wz : R), (a*a + b*b + c*c + d*d = 1) ->
  (forall w x y z : R, w*w + x*x + y*y + z*z = 1 ->
     C08_angvel_R a b c d w x y z =
     Val [200 * e (qmul (qconj [a;b;c;d]) [w;x;y;z]) 1; 200 * e (qmul (qconj [a;b;c;d]) [w;x;y;z]) 2;
          200 * e (qmul (qconj [a;b;c;d]) [w;x;y;z]) 3]) /\
  (let q := qmul [a;b;c;d] (rotq wx wy wz (1/100)) in
   let n := wnorm wx wy wz in
   C08_angvel_R a b c d (e q 0) (e q 1) (e q 2) (e q 3) =
   Val [200 * (sin (n * (1/100) / 2) * wx / n); 200 * (sin (n * (1/100) / 2) * wy / n); 200 * (sin (n * (1/100) / 2) * wz / n)]) /\
  (forall h, 0 <= h <= 1 -> 0 <= h - sin h <= h^3/6).
Proof.
  intros a b c d wx wy wz Hp. split; [intros; apply angvel_val; auto|]. split; [exact (angvel_of_closed_step a b c d wx wy wz Hp)|].
  intros h [H0 H1]. destruct (sin_brackets h H0 H1) as (S1 & S2 & _). pose proof (pow_mono h H0 H1 4). pose proof (pow_mono h H0 H1 3). lra.
Qed.
Print Assumptions C08_angular_velocities_partial.

(* the vectorised method 'integration' (known finding: not a rotation integral, see C08_integration_refuted.v), PARTIAL:
   one sample g at Dt = 0.05 yields the roll-pitch-yaw quaternion of the angles g*Dt, which is the rotation by g0*Dt about
   x when the rate stays on the x axis *)
Theorem C08_integration_single_axis_partial : forall g0 g1 g2,
  C08_integration_R g0 g1 g2 = Val (rpyq (g0/20) (g1/20) (g2/20)) /\
  C08_integration_R g0 0 0 = Val [cos (g0/20/2); sin (g0/20/2); 0; 0].
Proof. intros. split; [apply integration_val|apply integration_single_axis]. Qed.
Print Assumptions C08_integration_single_axis_partial.

(* non-vacuity: the guards are inhabited by a non-trivial point of the property's range and the objects are not degenerate *)
Example C08_nonvacuous :
  (3/5)*(3/5) + 0*0 + (4/5)*(4/5) + 0*0 = 1 /\ 3*3 + (-4)*(-4) + 12*12 <> 0 /\ uu (1/100) 3 (-4) 12 <= 1 /\
  unitq [3/5; 0; 4/5; 0] /\ e (dr_step (1/100) 3 (-4) 12 [3/5; 0; 4/5; 0]) 1 = 57/1000 /\
  m4v (expsum (hS 1 2 0 0) 2) [1;0;0;0] = [1/2; 1; 0; 0].
Proof.
  split; [lra|]. split; [lra|]. split; [unfold uu; lra|]. split; [split; [reflexivity|unfold_rot; lra]|].
  split; [unfold dr_step; unfold_q; lra|].
  rewrite <- series_vec_is_partial_sum by lia. unfold series_vec, hS, uu, Omega4. unfold_m4. cbv [qadd ak bk Nat.ltb Nat.leb]. unfold_rot.
  list_eq; field.
Qed.
