(* C08_refuted.v — witness, inside the regenerated model of the UNREPAIRED tree, of the defect "series/element-wise-power":
   AngularRate.update(method='series', order>=2) accumulated S**i (element-wise) instead of the matrix power S^i.
   Compiled separately: once the defect is repaired (fixes/C08-series-matrix-power.patch) this file stops compiling and
   the check reports it as repaired. *)
From Coq Require Import Reals List Lra.
From Interval Require Import Tactic.
From AhrsLib Require Import Base Rot.
From AhrsGen Require Import C08gen_R.
From AhrsProps Require Import C08_lib.
Import ListNotations.
Open Scope R_scope.

(* rate 10 rad/s about x, dt = 0.05 s (h = |w| dt/2 = 1/4, the corner of the property's range), identity attitude *)
Lemma series2_at_witness : exists l, C08_series2_R (1/20) 10 0 0 1 0 0 0 = Val l /\ 2707/10000 < e l 1.
Proof.
  cbv beta delta [C08_series2_R]. cbv zeta.
  replace (1*1 + 0*0 + 0*0 + 0*0) with 1 by ring. rewrite sqrt_1. destruct (Req_EM_T 0 1) as [Z|_]; [lra|].
  rewrite sqrt_gate_nz by lra. rewrite !div_1.
  match goal with |- context [Req_EM_T 0 (sqrt ?e0)] => assert (P : 0 < e0) by (simpl pow; lra); rewrite (sqrt_gate_nz _ _ _ _ P) end.
  eexists. split; [reflexivity|]. cbv [e List.nth]. interval.
Qed.

(* series_order2_refuted: at a point of the property's domain the order-2 step is NOT the normalised 2nd partial sum of
   exp(dt/2 Omega) (true matrix powers), and it misses the closed-form step by more than 8 times the order-2 bound
   h^3/3! (observed 2.3e-2 against 2.6e-3), i.e. it is worse than order 1 *)
Theorem C08_series_order2_refuted : exists dt wx wy wz w x y z l c,
  w*w+x*x+y*y+z*z = 1 /\ wx*wx+wy*wy+wz*wz <> 0 /\ uu dt wx wy wz <= 1/16 /\
  C08_series2_R dt wx wy wz w x y z = Val l /\ C08_closed_R dt wx wy wz w x y z = Val c /\
  l <> qnormalize (m4v (expsum (hS dt wx wy wz) 2) [w;x;y;z]) /\
  Rabs (e l 1 - e c 1) > 8 * ((1/4)^3 / 6).
Proof.
  destruct series2_at_witness as (l & Hl & B).
  exists (1/20), 10, 0, 0, 1, 0, 0, 0, l. eexists.
  split; [ring|]. split; [lra|]. split; [unfold uu; lra|]. split; [exact Hl|].
  split.
  { cbv beta delta [C08_closed_R]. cbv zeta.
    replace (1*1 + 0*0 + 0*0 + 0*0) with 1 by ring. rewrite sqrt_1. destruct (Req_EM_T 0 1) as [Z|_]; [lra|].
    rewrite sqrt_gate_nz by lra. rewrite !div_1.
    replace (10*10 + 0*0 + 0*0) with (10*10) by ring. rewrite sqrt_square by lra.
    match goal with |- context [Req_EM_T 0 (sqrt ?e0)] =>
      assert (P : 0 < e0) by (assert (T := sin2_cos2 (10 * (1/20) / 2)); unfold Rsqr in T; nra); rewrite (sqrt_gate_nz _ _ _ _ P) end.
    reflexivity. }
  split.
  - intros E. apply (f_equal (fun v => e v 1)) in E.
    rewrite <- (series_vec_is_partial_sum 2) in E by auto.
    assert (X : e (qnormalize (series_vec 2 (1/20) 10 0 0 [1;0;0;0])) 1 < 26/100).
    { unfold qnormalize, series_vec, hS, uu, Omega4. unfold_m4. cbv [qadd ak bk Nat.ltb Nat.leb]. unfold_rot. interval. }
    lra.
  - cbv [e List.nth] in B |- *.
    match goal with |- Rabs (?a - ?b) > _ => assert (Cb : b < 2475/10000) by interval end.
    simpl pow. rewrite Rabs_right; lra.
Qed.
Print Assumptions C08_series_order2_refuted.
