(* C08_series.v — AngularRate.update(method='series', order=k), k = 0..4: the regenerated step is the normalised
   k-th partial sum of exp(dt/2 Omega(w)) with TRUE matrix powers.  (Orders 5 and 6 are in their own files so that
   the polynomial identities are checked in parallel.) *)
From Coq Require Import Reals List Lra Lia.
From AhrsLib Require Import Base Rot.
From AhrsGen Require Import C08gen_R.
From AhrsProps Require Import C08_lib.
Import ListNotations.
Open Scope R_scope.

Lemma series0_val dt wx wy wz w x y z : w*w+x*x+y*y+z*z = 1 -> wx*wx+wy*wy+wz*wz <> 0 ->
  0 < qnorm2 (series_vec 0 dt wx wy wz [w;x;y;z]) ->
  C08_series0_R dt wx wy wz w x y z = Val (qnormalize (series_vec 0 dt wx wy wz [w;x;y;z])).
Proof. intros H NZ P. cbv beta delta [C08_series0_R]. series_core H NZ P 0%nat dt wx wy wz w x y z. Qed.
Lemma series1_val dt wx wy wz w x y z : w*w+x*x+y*y+z*z = 1 -> wx*wx+wy*wy+wz*wz <> 0 ->
  0 < qnorm2 (series_vec 1 dt wx wy wz [w;x;y;z]) ->
  C08_series1_R dt wx wy wz w x y z = Val (qnormalize (series_vec 1 dt wx wy wz [w;x;y;z])).
Proof. intros H NZ P. cbv beta delta [C08_series1_R]. series_core H NZ P 1%nat dt wx wy wz w x y z. Qed.
Lemma series2_val dt wx wy wz w x y z : w*w+x*x+y*y+z*z = 1 -> wx*wx+wy*wy+wz*wz <> 0 ->
  0 < qnorm2 (series_vec 2 dt wx wy wz [w;x;y;z]) ->
  C08_series2_R dt wx wy wz w x y z = Val (qnormalize (series_vec 2 dt wx wy wz [w;x;y;z])).
Proof. intros H NZ P. cbv beta delta [C08_series2_R]. series_core H NZ P 2%nat dt wx wy wz w x y z. Qed.
Lemma series3_val dt wx wy wz w x y z : w*w+x*x+y*y+z*z = 1 -> wx*wx+wy*wy+wz*wz <> 0 ->
  0 < qnorm2 (series_vec 3 dt wx wy wz [w;x;y;z]) ->
  C08_series3_R dt wx wy wz w x y z = Val (qnormalize (series_vec 3 dt wx wy wz [w;x;y;z])).
Proof. intros H NZ P. cbv beta delta [C08_series3_R]. series_core H NZ P 3%nat dt wx wy wz w x y z. Qed.
Lemma series4_val dt wx wy wz w x y z : w*w+x*x+y*y+z*z = 1 -> wx*wx+wy*wy+wz*wz <> 0 ->
  0 < qnorm2 (series_vec 4 dt wx wy wz [w;x;y;z]) ->
  C08_series4_R dt wx wy wz w x y z = Val (qnormalize (series_vec 4 dt wx wy wz [w;x;y;z])).
Proof. intros H NZ P. cbv beta delta [C08_series4_R]. series_core H NZ P 4%nat dt wx wy wz w x y z. Qed.

(* the order-1 series step is the dead-reckoning step q + dt/2 q(x)(0,w) of the filters (no bound on the rate needed:
   |(I + S) q|^2 = 1 + h^2 > 0) *)
Lemma series1_is_dr dt wx wy wz w x y z : w*w+x*x+y*y+z*z = 1 -> wx*wx+wy*wy+wz*wz <> 0 ->
  C08_series1_R dt wx wy wz w x y z = Val (qnormalize (dr_step dt wx wy wz [w;x;y;z])).
Proof.
  intros H NZ. rewrite dr_step_is_order1. fold (hS dt wx wy wz). rewrite <- series_vec_is_partial_sum by lia.
  apply series1_val; auto. rewrite series_vec_norm2. replace (qnorm2 [w;x;y;z]) with 1 by (unfold_rot; lra).
  cbv [ak bk Nat.ltb Nat.leb]. pose proof (uu_ge0 dt wx wy wz). nra.
Qed.
