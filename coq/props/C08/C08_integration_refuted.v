(* C08_integration_refuted.v — witness, inside the regenerated model, of the known finding
   "AngularRate-integration/not-a-rotation-integral": for a rate off the coordinate axes the vectorised 'integration'
   method does not return the axis-angle rotation by rate x time (nor its negative). *)
From Coq Require Import Reals List Lra.
From Interval Require Import Tactic.
From AhrsLib Require Import Base Rot.
From AhrsGen Require Import C08gen_R.
From AhrsProps Require Import C08_lib C08_integration.
Import ListNotations.
Open Scope R_scope.

Theorem C08_integration_refuted : exists g0 g1 g2 l, g0*g0 + g1*g1 + g2*g2 <= 100 /\
  C08_integration_R g0 g1 g2 = Val l /\ l <> rotq g0 g1 g2 (1/20) /\ l <> qneg (rotq g0 g1 g2 (1/20)).
Proof.
  exists 4, 4, 0. eexists. split; [lra|]. split; [apply integration_val|].
  assert (Z : e (rotq 4 4 0 (1/20)) 3 = 0) by (unfold rotq; cbv [e List.nth]; unfold Rdiv; ring).
  assert (B : e (rpyq (4/20) (4/20) (0/20)) 3 < -1/1000) by (unfold rpyq; cbv [e List.nth]; interval).
  split; intros E; apply (f_equal (fun v => e v 3)) in E.
  - rewrite Z in E. lra.
  - change (e (qneg (rotq 4 4 0 (1/20))) 3) with (- e (rotq 4 4 0 (1/20)) 3) in E. rewrite Z in E. lra.
Qed.
Print Assumptions C08_integration_refuted.
