(* C08_bounds.v — order of accuracy of the series method (pure mathematics, independent of the generated code).
   With TRUE matrix powers the order-k matrix is ak(h^2) I + bk(h^2) S and the closed form is cos h I + (sin h / h) S,
   h = |w| dt / 2.  Both scalar errors are bounded by the first omitted Taylor term h^(k+1)/(k+1)!  (alternating series;
   from the standard library's brackets pre_cos_bound / pre_sin_bound), hence improve with every extra order. *)
From Coq Require Import Reals List Lra Lia.
From Interval Require Import Tactic.
From AhrsLib Require Import Base Rot.
From AhrsProps Require Import C08_lib.
Import ListNotations.
Open Scope R_scope.

Ltac facts0 := facts.

Section Bounds.
Variable h : R.
Hypothesis H0 : 0 <= h.
Hypothesis H1 : h <= 1.

Lemma cos_brackets :
  cos h <= 1 /\ 1 - h^2/2 <= cos h /\ cos h <= 1 - h^2/2 + h^4/24 /\
  1 - h^2/2 + h^4/24 - h^6/720 <= cos h /\ cos h <= 1 - h^2/2 + h^4/24 - h^6/720 + h^8/40320.
Proof.
  destruct (pre_cos_bound h 0) as [A1 A2]; [lra|lra|]. destruct (pre_cos_bound h 1) as [A3 A4]; [lra|lra|].
  cbn [Nat.mul Nat.add] in A1, A2, A3, A4.
  unfold cos_approx, cos_term in A1, A2, A3, A4. cbn [sum_f_R0 Nat.mul Nat.add] in A1, A2, A3, A4.
  revert A1 A2 A3 A4. facts0. intros A1 A2 A3 A4.
  split; [apply COS_bound|]. split; [eapply Rle_trans; [|exact A1]; right; field|].
  split; [eapply Rle_trans; [exact A2|]; right; field|].
  split; [eapply Rle_trans; [|exact A3]; right; field|eapply Rle_trans; [exact A4|]; right; field].
Qed.

Lemma sin_brackets :
  h - h^3/6 <= sin h /\ sin h <= h - h^3/6 + h^5/120 /\
  h - h^3/6 + h^5/120 - h^7/5040 <= sin h /\ sin h <= h - h^3/6 + h^5/120 - h^7/5040 + h^9/362880.
Proof.
  destruct (pre_sin_bound h 0) as [A1 A2]; [lra|lra|]. destruct (pre_sin_bound h 1) as [A3 A4]; [lra|lra|].
  cbn [Nat.mul Nat.add] in A1, A2, A3, A4.
  unfold sin_approx, sin_term in A1, A2, A3, A4. cbn [sum_f_R0 Nat.mul Nat.add] in A1, A2, A3, A4.
  revert A1 A2 A3 A4. facts0. intros A1 A2 A3 A4.
  split; [eapply Rle_trans; [|exact A1]; right; field|].
  split; [eapply Rle_trans; [exact A2|]; right; field|].
  split; [eapply Rle_trans; [|exact A3]; right; field|eapply Rle_trans; [exact A4|]; right; field].
Qed.

Lemma pow_mono i : 0 <= h ^ S i <= h ^ i.
Proof. pose proof (pow_le h i H0). simpl. split; nra. Qed.

(* series_error_k: both scalar coefficients of the order-k matrix are within the first omitted term of the closed form *)
Lemma series_error k : (k <= 6)%nat ->
  Rabs (ak k (h*h) - cos h) <= h ^ (k + 1) / INR (fact (k + 1)) /\
  Rabs (h * bk k (h*h) - sin h) <= h ^ (k + 1) / INR (fact (k + 1)).
Proof.
  intros Hk. destruct cos_brackets as (C0 & C1 & C2 & C3 & C4). destruct sin_brackets as (S1 & S2 & S3 & S4).
  pose proof (pow_mono 0) as M0. pose proof (pow_mono 1) as M1. pose proof (pow_mono 2) as M2. pose proof (pow_mono 3) as M3.
  pose proof (pow_mono 4) as M4. pose proof (pow_mono 5) as M5. pose proof (pow_mono 6) as M6. pose proof (pow_mono 7) as M7.
  pose proof (pow_mono 8) as M8.
  do 7 (destruct k as [|k]; [cbn [Nat.add]; cbv [ak bk Nat.ltb Nat.leb]; facts0; split; apply Rabs_le; split; lra|]).
  lia.
Qed.

(* "improving with every extra order": the bound itself decreases strictly with k (for 0 < h <= 1) *)
Lemma bound_decreasing k : 0 < h -> h ^ (S k + 1) / INR (fact (S k + 1)) < h ^ (k + 1) / INR (fact (k + 1)).
Proof.
  intros Hp. replace (S k + 1)%nat with (S (k + 1)) by lia. set (n := (k + 1)%nat).
  assert (Fp : 0 < INR (fact n)) by (apply lt_0_INR, lt_O_fact).
  assert (Pp : 0 < h ^ n) by (apply pow_lt; exact Hp).
  assert (N1 : 1 <= INR n) by (unfold n; rewrite plus_INR; pose proof (pos_INR k); simpl; lra).
  rewrite fact_simpl, mult_INR, S_INR. simpl pow.
  apply Rmult_lt_reg_r with (INR (fact n) * (INR n + 1)); [nra|].
  field_simplify; [|lra|split; lra]. nra.
Qed.
End Bounds.

(* numbers for the property's range |w| <= 10 rad/s, dt <= 0.05 s, i.e. h <= 1/4: the per-step coefficient error of
   order k is below (1/4)^(k+1)/(k+1)!  (interval arithmetic on the real cos / sin) *)
Lemma series_error_numbers h : 0 <= h <= 1/4 ->
  Rabs (ak 1 (h*h) - cos h) <= 1/32 /\ Rabs (ak 2 (h*h) - cos h) <= 1/384 /\ Rabs (ak 4 (h*h) - cos h) <= 1/122880 /\
  Rabs (ak 6 (h*h) - cos h) <= 1/82575360 /\
  Rabs (h * bk 1 (h*h) - sin h) <= 1/32 /\ Rabs (h * bk 3 (h*h) - sin h) <= 1/6144 /\ Rabs (h * bk 5 (h*h) - sin h) <= 1/2949120.
Proof.
  intros Hh. cbv [ak bk Nat.ltb Nat.leb]. repeat split; interval with (i_prec 60, i_taylor h, i_degree 12).
Qed.
