(* C08_series6.v — AngularRate.update(method='series', order=6) is the normalised 6th partial sum (true matrix powers) *)
From Coq Require Import Reals List Lra Lia.
From AhrsLib Require Import Base Rot.
From AhrsGen Require Import C08gen_R.
From AhrsProps Require Import C08_lib.
Import ListNotations.
Open Scope R_scope.

Lemma series6_val dt wx wy wz w x y z : w*w+x*x+y*y+z*z = 1 -> wx*wx+wy*wy+wz*wz <> 0 ->
  0 < qnorm2 (series_vec 6 dt wx wy wz [w;x;y;z]) ->
  C08_series6_R dt wx wy wz w x y z = Val (qnormalize (series_vec 6 dt wx wy wz [w;x;y;z])).
Proof. intros H NZ P. cbv beta delta [C08_series6_R]. series_core H NZ P 6%nat dt wx wy wz w x y z. Qed.
