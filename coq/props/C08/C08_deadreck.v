(* C08_deadreck.v — the gyro-only steps of Madgwick, Mahony, AQUA (accelerometer sample exactly zero) and the prediction
   steps EKF.f, ROLEQ.attitude_propagation are all the same first-order step  q + dt/2 q(x)(0,w)  (normalised, except
   EKF.f which normalises after its correction; AQUA in the conjugate convention); QuaternionArray.angular_velocities
   returns 2/dt vec(p* (x) q) and therefore recovers the rate of a constant-rate step up to the factor sin(h)/h. *)
From Coq Require Import Reals List Lra Lia.
From AhrsLib Require Import Base Rot.
From AhrsGen Require Import C08gen_R.
From AhrsProps Require Import C08_lib.
Import ListNotations.
Open Scope R_scope.

Lemma dr_pos dt wx wy wz w x y z : 0 < w*w+x*x+y*y+z*z -> 0 < qnorm2 (dr_step dt wx wy wz [w;x;y;z]).
Proof. intros H. rewrite dr_step_norm2. unfold_rot. nra. Qed.

(* EKF.f, for every state covariance P = p I carried by the filter object *)
Lemma ekf_f_val dt wx wy wz w x y z p : C08_ekf_f_R dt wx wy wz w x y z p = Val (dr_step dt wx wy wz [w;x;y;z]).
Proof. cbv beta delta [C08_ekf_f_R]. cbv zeta. unfold dr_step. unfold_q. val_eq; field. Qed.

(* a plain division by the norm (no zero test) *)
Lemma normalize_plain (a b c d a' b' c' d' s : R) : a = a' -> b = b' -> c = c' -> d = d' ->
  s = sqrt (a*a+b*b+c*c+d*d) -> Val [a / s; b / s; c / s; d / s] = Val (qnormalize [a';b';c';d']).
Proof. intros -> -> -> -> ->. unfold qnormalize. unfold_rot. val_eq; unfold Rdiv; ring. Qed.

(* ROLEQ.attitude_propagation: for every q (no unit-norm requirement) *)
Lemma roleq_val dt wx wy wz w x y z :
  C08_roleq_R dt wx wy wz w x y z = Val (qnormalize (dr_step dt wx wy wz [w;x;y;z])).
Proof.
  cbv beta delta [C08_roleq_R]. cbv zeta. rewrite (eta4 (dr_step dt wx wy wz [w;x;y;z]) eq_refl).
  eapply normalize_plain; [ | | | | reflexivity]; unfold dr_step; unfold_q; field.
Qed.

(* the same with three further outputs appended (the carried state returned next to the attitude) *)
Lemma normalize_plain7 (a b c d a' b' c' d' s u0 u1 u2 : R) : a = a' -> b = b' -> c = c' -> d = d' ->
  s = sqrt (a*a+b*b+c*c+d*d) -> Val [a / s; b / s; c / s; d / s; u0; u1; u2] = Val (qnormalize [a';b';c';d'] ++ [u0; u1; u2]).
Proof. intros -> -> -> -> ->. unfold qnormalize. unfold_rot. cbn [app]. val_eq; unfold Rdiv; ring. Qed.

(* Mahony.updateIMU / updateMARG with a null accelerometer sample, for EVERY carried bias estimate b and gains k_P, k_I
   (and every magnetometer sample): the step does not depend on them, and the bias is left unchanged *)
Ltac mahony_tac H NZ dt wx wy wz w x y z :=
  step; match goal with E : _ = sqrt _ |- _ => rewrite H, sqrt_1 in E; subst end; gate_01; rewrite ?div_1;
  rewrite (sqrt_gate_nz _ _ _ _ (wsq_pos _ _ _ NZ)); cbv zeta;
  rewrite (eta4 (dr_step dt wx wy wz [w;x;y;z]) eq_refl);
  eapply normalize_plain7; [ | | | | reflexivity]; unfold dr_step; unfold_q; field.
Lemma mahony_val dt wx wy wz w x y z b0 b1 b2 kp ki : w*w+x*x+y*y+z*z = 1 -> wx*wx+wy*wy+wz*wz <> 0 ->
  C08_mahony_R dt wx wy wz w x y z b0 b1 b2 kp ki = Val (qnormalize (dr_step dt wx wy wz [w;x;y;z]) ++ [b0; b1; b2]).
Proof. intros H NZ. cbv beta delta [C08_mahony_R]. mahony_tac H NZ dt wx wy wz w x y z. Qed.
Lemma mahony_marg_val dt wx wy wz w x y z b0 b1 b2 kp ki m0 m1 m2 : w*w+x*x+y*y+z*z = 1 -> wx*wx+wy*wy+wz*wz <> 0 ->
  C08_mahony_marg_R dt wx wy wz w x y z b0 b1 b2 kp ki m0 m1 m2 = Val (qnormalize (dr_step dt wx wy wz [w;x;y;z]) ++ [b0; b1; b2]).
Proof. intros H NZ. cbv beta delta [C08_mahony_marg_R]. mahony_tac H NZ dt wx wy wz w x y z. Qed.

(* Madgwick.updateIMU with a null accelerometer sample: the sum q + qDot dt passes through the normalising Quaternion
   constructor and is then divided by its (unit) norm once more *)
(* for EVERY filter gain carried by the object *)
Lemma madgwick_val dt wx wy wz w x y z gain : w*w+x*x+y*y+z*z = 1 -> wx*wx+wy*wy+wz*wz <> 0 ->
  C08_madgwick_R dt wx wy wz w x y z gain = Val (qnormalize (dr_step dt wx wy wz [w;x;y;z])).
Proof.
  intros H NZ. assert (P : 0 < qnorm2 (dr_step dt wx wy wz [w;x;y;z])) by (apply dr_pos; lra).
  cbv beta delta [C08_madgwick_R].
  step. match goal with E : _ = sqrt _ |- _ => rewrite H, sqrt_1 in E; subst end. gate_01. rewrite ?div_1.
  rewrite (sqrt_gate_nz _ _ _ _ (wsq_pos _ _ _ NZ)).
  cbv zeta.
  (* the sum q + qDot dt may or may not pass through the normalising (and zero-testing) Quaternion constructor before the
     final division by the norm, depending on the operand order in the source: both shapes are accepted *)
  first
  [ solve [ rewrite (eta4 (dr_step dt wx wy wz [w;x;y;z]) eq_refl);
            eapply normalize_plain; [ | | | | reflexivity]; unfold dr_step; unfold_q; field ]
  | set (D := dr_step dt wx wy wz [w;x;y;z]) in *;
    match goal with |- context [Req_EM_T 0 (sqrt ?e0)] => set (N2 := e0) end;
    assert (EN : N2 = qnorm2 D) by (unfold N2, D, dr_step; unfold_q; field);
    assert (PN : 0 < N2) by lra;
    rewrite (sqrt_gate_nz _ _ _ _ PN);
    assert (S0 : 0 < sqrt N2) by (apply sqrt_lt_R0; exact PN);
    assert (SQ : sqrt N2 * sqrt N2 = N2) by (apply sqrt_sqrt; lra);
    set (s := sqrt N2) in *;
    match goal with |- context [sqrt ?e1] =>
      assert (U : e1 = 1) by (transitivity (N2 / (s * s)); [unfold N2; field; lra | rewrite SQ; field; lra]);
      rewrite U, sqrt_1, !div_1 end;
    unfold qnormalize; rewrite <- EN; fold s; unfold D, dr_step; unfold_q; val_eq; field; lra ].
Qed.
(* Madgwick.updateMARG with a null accelerometer and a non-zero magnetometer sample (a zero one delegates to updateIMU) *)
Lemma madgwick_marg_val dt wx wy wz w x y z gain m0 m1 m2 : w*w+x*x+y*y+z*z = 1 -> wx*wx+wy*wy+wz*wz <> 0 ->
  m0*m0+m1*m1+m2*m2 <> 0 ->
  C08_madgwick_marg_R dt wx wy wz w x y z gain m0 m1 m2 = Val (qnormalize (dr_step dt wx wy wz [w;x;y;z])).
Proof.
  intros H NZ MZ. assert (P : 0 < qnorm2 (dr_step dt wx wy wz [w;x;y;z])) by (apply dr_pos; lra).
  cbv beta delta [C08_madgwick_marg_R].
  step. match goal with E : _ = sqrt _ |- _ => rewrite H, sqrt_1 in E; subst end. gate_01. rewrite ?div_1.
  rewrite (sqrt_gate_nz _ _ _ _ (wsq_pos _ _ _ NZ)). rewrite (sqrt_gate_nz _ _ _ _ (wsq_pos _ _ _ MZ)).
  cbv zeta.
  (* the sum q + qDot dt may or may not pass through the normalising (and zero-testing) Quaternion constructor before the
     final division by the norm, depending on the operand order in the source: both shapes are accepted *)
  first
  [ solve [ rewrite (eta4 (dr_step dt wx wy wz [w;x;y;z]) eq_refl);
            eapply normalize_plain; [ | | | | reflexivity]; unfold dr_step; unfold_q; field ]
  | set (D := dr_step dt wx wy wz [w;x;y;z]) in *;
    match goal with |- context [Req_EM_T 0 (sqrt ?e0)] => set (N2 := e0) end;
    assert (EN : N2 = qnorm2 D) by (unfold N2, D, dr_step; unfold_q; field);
    assert (PN : 0 < N2) by lra;
    rewrite (sqrt_gate_nz _ _ _ _ PN);
    assert (S0 : 0 < sqrt N2) by (apply sqrt_lt_R0; exact PN);
    assert (SQ : sqrt N2 * sqrt N2 = N2) by (apply sqrt_sqrt; lra);
    set (s := sqrt N2) in *;
    match goal with |- context [sqrt ?e1] =>
      assert (U : e1 = 1) by (transitivity (N2 / (s * s)); [unfold N2; field; lra | rewrite SQ; field; lra]);
      rewrite U, sqrt_1, !div_1 end;
    unfold qnormalize; rewrite <- EN; fold s; unfold D, dr_step; unfold_q; val_eq; field; lra ].
Qed.

Lemma qnormalize_conj w x y z : qnormalize (qconj [w;x;y;z]) = qconj (qnormalize [w;x;y;z]).
Proof.
  unfold qnormalize. replace (qnorm2 (qconj [w;x;y;z])) with (qnorm2 [w;x;y;z]) by (unfold_rot; ring).
  unfold_rot. list_eq; ring.
Qed.

(* AQUA.updateIMU with a null accelerometer sample holds the conjugate attitude: its step is the conjugate of the
   common step applied to the conjugate.  (AQUA does not normalise its input, so q need only be non-zero.) *)
(* for EVERY alpha, beta, threshold carried by the object, adaptive gain off or on, IMU and MARG entry points *)
Lemma aqua_val dt wx wy wz w x y z alpha beta thr : 0 < w*w+x*x+y*y+z*z -> wx*wx+wy*wy+wz*wz <> 0 ->
  C08_aqua_R dt wx wy wz w x y z alpha beta thr = Val (qconj (qnormalize (dr_step dt wx wy wz (qconj [w;x;y;z])))).
Proof. intros H NZ. cbv beta delta [C08_aqua_R]. rewrite (sqrt_gate_nz _ _ _ _ (wsq_pos _ _ _ NZ)). cbv zeta.
  set (D := dr_step dt wx wy wz (qconj [w;x;y;z])).
  assert (P : 0 < qnorm2 (qconj D)).
  { replace (qnorm2 (qconj D)) with (qnorm2 D) by (unfold D, dr_step; unfold_q; ring).
    unfold D. rewrite dr_step_norm2. unfold_rot. nra. }
  rewrite (eta4 D eq_refl), <- qnormalize_conj. fold (e D 0) (e D 1) (e D 2) (e D 3).
  change (qconj [e D 0; e D 1; e D 2; e D 3]) with [e D 0; - e D 1; - e D 2; - e D 3].
  eapply normalize_val; [ | | | | | reflexivity].
  5: { revert P. rewrite (eta4 D eq_refl). unfold_rot. auto. }
  all: unfold D, dr_step; unfold_q; field.
Qed.
Lemma aqua_adaptive_val dt wx wy wz w x y z alpha beta thr : 0 < w*w+x*x+y*y+z*z -> wx*wx+wy*wy+wz*wz <> 0 ->
  C08_aqua_adaptive_R dt wx wy wz w x y z alpha beta thr = Val (qconj (qnormalize (dr_step dt wx wy wz (qconj [w;x;y;z])))).
Proof. intros H NZ. cbv beta delta [C08_aqua_adaptive_R]. rewrite (sqrt_gate_nz _ _ _ _ (wsq_pos _ _ _ NZ)). cbv zeta.
  set (D := dr_step dt wx wy wz (qconj [w;x;y;z])).
  assert (P : 0 < qnorm2 (qconj D)).
  { replace (qnorm2 (qconj D)) with (qnorm2 D) by (unfold D, dr_step; unfold_q; ring).
    unfold D. rewrite dr_step_norm2. unfold_rot. nra. }
  rewrite (eta4 D eq_refl), <- qnormalize_conj. fold (e D 0) (e D 1) (e D 2) (e D 3).
  change (qconj [e D 0; e D 1; e D 2; e D 3]) with [e D 0; - e D 1; - e D 2; - e D 3].
  eapply normalize_val; [ | | | | | reflexivity].
  5: { revert P. rewrite (eta4 D eq_refl). unfold_rot. auto. }
  all: unfold D, dr_step; unfold_q; field.
Qed.
Lemma aqua_marg_val dt wx wy wz w x y z alpha beta thr m0 m1 m2 : 0 < w*w+x*x+y*y+z*z -> wx*wx+wy*wy+wz*wz <> 0 ->
  C08_aqua_marg_R dt wx wy wz w x y z alpha beta thr m0 m1 m2 = Val (qconj (qnormalize (dr_step dt wx wy wz (qconj [w;x;y;z])))).
Proof. intros H NZ. cbv beta delta [C08_aqua_marg_R]. rewrite (sqrt_gate_nz _ _ _ _ (wsq_pos _ _ _ NZ)). cbv zeta.
  set (D := dr_step dt wx wy wz (qconj [w;x;y;z])).
  assert (P : 0 < qnorm2 (qconj D)).
  { replace (qnorm2 (qconj D)) with (qnorm2 D) by (unfold D, dr_step; unfold_q; ring).
    unfold D. rewrite dr_step_norm2. unfold_rot. nra. }
  rewrite (eta4 D eq_refl), <- qnormalize_conj. fold (e D 0) (e D 1) (e D 2) (e D 3).
  change (qconj [e D 0; e D 1; e D 2; e D 3]) with [e D 0; - e D 1; - e D 2; - e D 3].
  eapply normalize_val; [ | | | | | reflexivity].
  5: { revert P. rewrite (eta4 D eq_refl). unfold_rot. auto. }
  all: unfold D, dr_step; unfold_q; field.
Qed.

(* QuaternionArray([p, q]).angular_velocities(dt = 0.01)[0] = 2/dt vec(p* (x) q) on unit rows *)
Lemma angvel_val a b c d w x y z : a*a+b*b+c*c+d*d = 1 -> w*w+x*x+y*y+z*z = 1 ->
  C08_angvel_R a b c d w x y z =
  Val [200 * e (qmul (qconj [a;b;c;d]) [w;x;y;z]) 1; 200 * e (qmul (qconj [a;b;c;d]) [w;x;y;z]) 2;
       200 * e (qmul (qconj [a;b;c;d]) [w;x;y;z]) 3].
Proof.
  intros Hp Hq. cbv beta delta [C08_angvel_R]. cbv zeta. rewrite Hp, Hq, sqrt_1.
  destruct (Rlt_dec 0 1) as [_|N]; [|lra]. rewrite !div_1. unfold_rot. val_eq; field.
Qed.

(* hence the rate recovered from one closed-form (constant-rate) step p -> p (x) rotq(w, dt) is  (2/dt) sin(|w| dt/2) w/|w|:
   the exact axis, and the magnitude scaled by sin(h)/h, h = |w| dt/2 *)
Lemma angvel_of_closed_step a b c d wx wy wz : a*a+b*b+c*c+d*d = 1 ->
  let q := qmul [a;b;c;d] (rotq wx wy wz (1/100)) in
  C08_angvel_R a b c d (e q 0) (e q 1) (e q 2) (e q 3) =
  Val [200 * e (rotq wx wy wz (1/100)) 1; 200 * e (rotq wx wy wz (1/100)) 2; 200 * e (rotq wx wy wz (1/100)) 3].
Proof.
  intros Hp q.
  assert (Uq : unitq q) by (apply unitq_mul; [split; [reflexivity|unfold_rot; lra]|apply rotq_unit]).
  destruct Uq as [_ Uq]. rewrite angvel_val; [|exact Hp|revert Uq; unfold q; unfold_rot; auto].
  assert (E : qmul (qconj [a;b;c;d]) [e q 0; e q 1; e q 2; e q 3] = rotq wx wy wz (1/100)).
  { change [e q 0; e q 1; e q 2; e q 3] with q. unfold q. rewrite <- qmul_assoc.
    set (r := rotq wx wy wz (1/100)). rewrite (eta4 r eq_refl). orient_unit. unfold_rot. list_eq; uring. }
  rewrite E. reflexivity.
Qed.

(* the time step derived from frequency=: for AngularRate, Madgwick, Mahony, AQUA, EKF, ROLEQ (in this order) and the nine
   sampling rates below the regenerated constructor yields exactly the period 1/f — no rounding to a decimal grid *)
Definition freqs : list R := [30; 60; 75; 128; 256; 333; 100; 50; 1000].
Definition periods : list R := [1/30; 1/60; 1/75; 1/128; 1/256; 1/333; 1/100; 1/50; 1/1000].
Lemma Dt_val u : C08_Dt_R u = Val (periods ++ periods ++ periods ++ periods ++ periods ++ periods).
Proof. cbv beta delta [C08_Dt_R]. cbv [periods app]. apply Val_inj. repeat (apply cons_eq; [lra|]). reflexivity. Qed.
Lemma periods_inverse : Forall2 (fun p f => p * f = 1) periods freqs.
Proof. unfold periods, freqs. repeat (constructor; [lra|]). constructor. Qed.
