(* C08_lib.v — specification-level mathematics of gyro integration; independent of the generated code.
   4x4 matrices are row-major 16-lists; quaternions are [w;x;y;z] (AhrsLib.Rot). *)
From Coq Require Import Reals List Lra Lia.
From AhrsLib Require Import Base Rot.
Import ListNotations.
Open Scope R_scope.

(* ---- 4x4 matrices ------------------------------------------------------------------------ *)
Definition m (A : list R) (i j : nat) : R := e A (4 * i + j).
Definition mk16 (f : nat -> nat -> R) : list R :=
  [f 0 0; f 0 1; f 0 2; f 0 3;  f 1 0; f 1 1; f 1 2; f 1 3;  f 2 0; f 2 1; f 2 2; f 2 3;  f 3 0; f 3 1; f 3 2; f 3 3]%nat.
Definition I4 : list R := [1;0;0;0; 0;1;0;0; 0;0;1;0; 0;0;0;1].
Definition mmul4 (A B : list R) : list R :=
  mk16 (fun i j => m A i 0 * m B 0 j + m A i 1 * m B 1 j + m A i 2 * m B 2 j + m A i 3 * m B 3 j).
Definition madd4 (A B : list R) : list R := mk16 (fun i j => m A i j + m B i j).
Definition mscal4 (k : R) (A : list R) : list R := mk16 (fun i j => k * m A i j).
Definition m4v (A v : list R) : list R :=
  [m A 0 0 * e v 0 + m A 0 1 * e v 1 + m A 0 2 * e v 2 + m A 0 3 * e v 3;
   m A 1 0 * e v 0 + m A 1 1 * e v 1 + m A 1 2 * e v 2 + m A 1 3 * e v 3;
   m A 2 0 * e v 0 + m A 2 1 * e v 1 + m A 2 2 * e v 2 + m A 2 3 * e v 3;
   m A 3 0 * e v 0 + m A 3 1 * e v 1 + m A 3 2 * e v 2 + m A 3 3 * e v 3].
(* TRUE matrix power and the k-th partial sum of the matrix exponential  sum_{i<=k} A^i / i! *)
Fixpoint mpow4 (A : list R) (n : nat) : list R := match n with O => I4 | S n' => mmul4 (mpow4 A n') A end.
Fixpoint expsum (A : list R) (k : nat) : list R :=
  match k with O => I4 | S k' => madd4 (expsum A k') (mscal4 (/ INR (fact k)) (mpow4 A k)) end.

Ltac unfold_m4 := cbv [expsum mpow4 mmul4 madd4 mscal4 m4v mk16 m I4 e List.nth Nat.mul Nat.add].

(* Omega(w): the matrix of right multiplication by the pure quaternion (0, w) *)
Definition Omega4 (wx wy wz : R) : list R :=
  [0; -wx; -wy; -wz;   wx; 0; wz; -wy;   wy; -wz; 0; wx;   wz; wy; -wx; 0].

Lemma omega_sq wx wy wz : mmul4 (Omega4 wx wy wz) (Omega4 wx wy wz) = mscal4 (- (wx*wx + wy*wy + wz*wz)) I4.
Proof. unfold Omega4. unfold_m4. list_eq; ring. Qed.

Lemma omega_is_right_product wx wy wz q : m4v (Omega4 wx wy wz) q = qmul q [0; wx; wy; wz].
Proof. unfold Omega4. unfold_m4. unfold_rot. list_eq; ring. Qed.

(* ---- quaternion helpers -------------------------------------------------------------------- *)
Definition qadd (p q : list R) : list R := [e p 0 + e q 0; e p 1 + e q 1; e p 2 + e q 2; e p 3 + e q 3].
Definition qnormalize (q : list R) : list R := qscale (/ sqrt (qnorm2 q)) q.
Ltac unfold_q := cbv [qadd qnormalize]; unfold_rot.

Lemma qmul_assoc p q r : qmul (qmul p q) r = qmul p (qmul q r).
Proof. unfold_rot. list_eq; ring. Qed.
Lemma qmul_one_r w x y z : qmul [w;x;y;z] qone = [w;x;y;z].
Proof. unfold_rot. list_eq; ring. Qed.
Lemma qmul_len p q : length (qmul p q) = 4%nat. Proof. reflexivity. Qed.
Lemma len4 (q : list R) : length q = 4%nat -> exists w x y z, q = [w;x;y;z].
Proof. intros L. do 4 (destruct q as [|? q]; [discriminate L|]). destruct q; [|discriminate L]. repeat eexists. Qed.
Lemma unitq_mul p q : unitq p -> unitq q -> unitq (qmul p q).
Proof. intros [_ Hp] [_ Hq]. split; [reflexivity|]. rewrite qnorm2_mul, Hp, Hq. ring. Qed.

(* the rotation reached after time t at the constant angular rate w (axis w/|w|, angle |w| t); for w = 0 it is 1 *)
Definition wnorm (wx wy wz : R) : R := sqrt (wx*wx + wy*wy + wz*wz).
Definition rotq (wx wy wz t : R) : list R :=
  let n := wnorm wx wy wz in
  [cos (n * t / 2); sin (n * t / 2) * wx / n; sin (n * t / 2) * wy / n; sin (n * t / 2) * wz / n].

Lemma wnorm_sq wx wy wz : wnorm wx wy wz * wnorm wx wy wz = wx*wx + wy*wy + wz*wz.
Proof. unfold wnorm. apply sqrt_sqrt. nra. Qed.
Lemma wnorm_ge0 wx wy wz : 0 <= wnorm wx wy wz.
Proof. apply sqrt_pos. Qed.
Lemma wnorm_0 wx wy wz : wnorm wx wy wz = 0 -> wx = 0 /\ wy = 0 /\ wz = 0.
Proof. intros H. pose proof (wnorm_sq wx wy wz) as S. rewrite H in S. repeat split; nra. Qed.

Lemma rotq_zero_rate t : rotq 0 0 0 t = qone.
Proof.
  unfold rotq, wnorm. replace (0*0+0*0+0*0) with 0 by ring. rewrite sqrt_0.
  replace (0 * t / 2) with 0 by (unfold Rdiv; ring). rewrite cos_0, sin_0. unfold qone, Rdiv. list_eq; ring.
Qed.

Lemma rotq_unit wx wy wz t : unitq (rotq wx wy wz t).
Proof.
  split; [reflexivity|]. destruct (Req_dec (wnorm wx wy wz) 0) as [Z|NZ].
  - destruct (wnorm_0 _ _ _ Z) as (-> & -> & ->). rewrite rotq_zero_rate. unfold_rot. ring.
  - unfold rotq. pose proof (wnorm_sq wx wy wz) as S. set (n := wnorm wx wy wz) in *.
    pose proof (sin2_cos2 (n * t / 2)) as T. unfold Rsqr in T. set (c := cos _) in *. set (s := sin _) in *.
    unfold_rot.
    replace (c*c + s*wx/n*(s*wx/n) + s*wy/n*(s*wy/n) + s*wz/n*(s*wz/n)) with (c*c + s*s*((wx*wx+wy*wy+wz*wz)/(n*n))) by (field; exact NZ).
    rewrite <- S. replace (n*n/(n*n)) with 1 by (field; exact NZ). lra.
Qed.

(* the addition formulas: constant-rate rotations compose by adding the elapsed times *)
Lemma rotq_add wx wy wz s t : qmul (rotq wx wy wz s) (rotq wx wy wz t) = rotq wx wy wz (s + t).
Proof.
  destruct (Req_dec (wnorm wx wy wz) 0) as [Z|NZ].
  - destruct (wnorm_0 _ _ _ Z) as (-> & -> & ->). rewrite !rotq_zero_rate. unfold_rot. list_eq; ring.
  - unfold rotq. pose proof (wnorm_sq wx wy wz) as S. set (n := wnorm wx wy wz) in *.
    replace (n * (s + t) / 2) with (n * s / 2 + n * t / 2) by (unfold Rdiv; ring).
    rewrite cos_plus, sin_plus.
    set (c1 := cos (n*s/2)). set (s1 := sin (n*s/2)). set (c2 := cos (n*t/2)). set (s2 := sin (n*t/2)).
    assert (U : (wx*wx + wy*wy + wz*wz) / (n*n) = 1) by (rewrite <- S; field; exact NZ).
    unfold_rot. list_eq.
    + transitivity (c1*c2 - s1*s2*((wx*wx + wy*wy + wz*wz)/(n*n))); [field; exact NZ | rewrite U; ring].
    + field; exact NZ.
    + field; exact NZ.
    + field; exact NZ.
Qed.

(* N steps of the same rotation *)
Fixpoint iter {A} (f : A -> A) (n : nat) (x : A) : A := match n with O => x | S n' => f (iter f n' x) end.

Lemma rotq_0 wx wy wz : rotq wx wy wz 0 = qone.
Proof.
  unfold rotq. replace (wnorm wx wy wz * 0 / 2) with 0 by (unfold Rdiv; ring). rewrite cos_0, sin_0.
  unfold qone, Rdiv. list_eq; ring.
Qed.

Lemma rotq_steps wx wy wz dt q N : length q = 4%nat ->
  iter (fun p => qmul p (rotq wx wy wz dt)) N q = qmul q (rotq wx wy wz (INR N * dt)).
Proof.
  intros L. destruct (len4 q L) as (a & b & c & d & ->). induction N as [|N IH].
  - simpl iter. replace (INR 0 * dt) with 0 by (simpl; ring). rewrite rotq_0, qmul_one_r. reflexivity.
  - simpl iter. rewrite IH, qmul_assoc, rotq_add, S_INR. f_equal. f_equal. ring.
Qed.

(* ---- the first-order (dead-reckoning) step  q + dt/2 * q (x) (0,w) ------------------------------ *)
Definition dr_step (dt wx wy wz : R) (q : list R) : list R := qadd q (qscale (dt / 2) (qmul q [0; wx; wy; wz])).

Lemma dr_step_norm2 dt wx wy wz q :
  qnorm2 (dr_step dt wx wy wz q) = qnorm2 q * (1 + (dt/2)*(dt/2)*(wx*wx + wy*wy + wz*wz)).
Proof. unfold dr_step. unfold_q. ring. Qed.

Lemma dr_step_is_order1 dt wx wy wz q :
  dr_step dt wx wy wz q = m4v (expsum (mscal4 (dt/2) (Omega4 wx wy wz)) 1) q.
Proof. unfold dr_step, Omega4. unfold_q. unfold_m4. cbv [fact INR Nat.mul Nat.add]. list_eq; field. Qed.

(* ---- scalar Taylor partial sums: P_k(S) = ak I + bk S  with u = (|w| dt/2)^2 ------------------- *)
Definition ak (k : nat) (u : R) : R :=
  if (k <? 2)%nat then 1 else if (k <? 4)%nat then 1 - u/2 else if (k <? 6)%nat then 1 - u/2 + u*u/24
  else 1 - u/2 + u*u/24 - u*u*u/720.
Definition bk (k : nat) (u : R) : R :=
  if (k <? 1)%nat then 0 else if (k <? 3)%nat then 1 else if (k <? 5)%nat then 1 - u/6 else 1 - u/6 + u*u/120.


(* S = dt/2 * Omega(w)  and  u = (|w| dt/2)^2 *)
Definition hS (dt wx wy wz : R) : list R := mscal4 (dt/2) (Omega4 wx wy wz).
Definition uu (dt wx wy wz : R) : R := (dt/2)*(dt/2)*(wx*wx + wy*wy + wz*wz).

Lemma hS_mul_I dt wx wy wz c : mmul4 (mscal4 c I4) (hS dt wx wy wz) = mscal4 c (hS dt wx wy wz).
Proof. unfold hS, Omega4. unfold_m4. list_eq; ring. Qed.
Lemma hS_mul_S dt wx wy wz c :
  mmul4 (mscal4 c (hS dt wx wy wz)) (hS dt wx wy wz) = mscal4 (c * - uu dt wx wy wz) I4.
Proof. unfold hS, uu, Omega4. unfold_m4. list_eq; field. Qed.

(* TRUE matrix powers of S, for every exponent: S^(2n) = (-u)^n I,  S^(2n+1) = (-u)^n S *)
Lemma hS_pow dt wx wy wz n :
  mpow4 (hS dt wx wy wz) (2 * n) = mscal4 ((- uu dt wx wy wz) ^ n) I4 /\
  mpow4 (hS dt wx wy wz) (S (2 * n)) = mscal4 ((- uu dt wx wy wz) ^ n) (hS dt wx wy wz).
Proof.
  induction n as [|n [IH0 IH1]].
  - split.
    + unfold_m4. list_eq; ring.
    + cbn [Nat.mul Nat.add mpow4]. unfold hS, Omega4. unfold_m4. list_eq; ring.
  - replace (2 * S n)%nat with (S (S (2 * n))) by lia.
    assert (E : mpow4 (hS dt wx wy wz) (S (S (2 * n))) = mscal4 ((- uu dt wx wy wz) ^ S n) I4).
    { change (mpow4 (hS dt wx wy wz) (S (S (2 * n)))) with (mmul4 (mpow4 (hS dt wx wy wz) (S (2 * n))) (hS dt wx wy wz)).
      rewrite IH1, hS_mul_S. f_equal. simpl. ring. }
    split; [exact E|].
    change (mpow4 (hS dt wx wy wz) (S (S (S (2 * n))))) with (mmul4 (mpow4 (hS dt wx wy wz) (S (S (2 * n)))) (hS dt wx wy wz)).
    rewrite E, hS_mul_I. reflexivity.
Qed.

Lemma factR k v : Z.of_nat (fact k) = v -> INR (fact k) = IZR v.
Proof. intros <-. apply INR_IZR_INZ. Qed.
Lemma F0 : INR (fact 0) = 1. Proof. exact (factR 0 1 eq_refl). Qed.
Lemma F1 : INR (fact 1) = 1. Proof. exact (factR 1 1 eq_refl). Qed.
Lemma F2 : INR (fact 2) = 2. Proof. exact (factR 2 2 eq_refl). Qed.
Lemma F3 : INR (fact 3) = 6. Proof. exact (factR 3 6 eq_refl). Qed.
Lemma F4 : INR (fact 4) = 24. Proof. exact (factR 4 24 eq_refl). Qed.
Lemma F5 : INR (fact 5) = 120. Proof. exact (factR 5 120 eq_refl). Qed.
Lemma F6 : INR (fact 6) = 720. Proof. exact (factR 6 720 eq_refl). Qed.
Lemma F7 : INR (fact 7) = 5040. Proof. exact (factR 7 5040 eq_refl). Qed.
Lemma F8 : INR (fact 8) = 40320. Proof. change (fact 8) with (8 * fact 7)%nat. rewrite mult_INR, F7. simpl INR. ring. Qed.
Lemma F9 : INR (fact 9) = 362880. Proof. change (fact 9) with (9 * fact 8)%nat. rewrite mult_INR, F8. simpl INR. ring. Qed.
Ltac facts := rewrite ?F0, ?F1, ?F2, ?F3, ?F4, ?F5, ?F6, ?F7, ?F8, ?F9.

(* with TRUE matrix powers the order-k partial sum of exp(S) is  ak(u) I + bk(u) S  (orders 0..6) *)
Lemma expsum_decomp dt wx wy wz k : (k <= 6)%nat ->
  expsum (hS dt wx wy wz) k =
  madd4 (mscal4 (ak k (uu dt wx wy wz)) I4) (mscal4 (bk k (uu dt wx wy wz)) (hS dt wx wy wz)).
Proof.
  intros Hk.
  destruct (hS_pow dt wx wy wz 0) as [_ P1]. destruct (hS_pow dt wx wy wz 1) as [P2 P3].
  destruct (hS_pow dt wx wy wz 2) as [P4 P5]. destruct (hS_pow dt wx wy wz 3) as [P6 _].
  cbn [Nat.mul Nat.add] in P1, P2, P3, P4, P5, P6.
  set (u := uu dt wx wy wz) in *.
  do 7 (destruct k as [|k];
    [cbn [expsum]; rewrite ?P1, ?P2, ?P3, ?P4, ?P5, ?P6; facts; unfold hS, Omega4; unfold_m4;
     cbv [ak bk Nat.ltb Nat.leb]; repeat (apply cons_eq; [simpl pow; field|]); reflexivity|]).
  lia.
Qed.

Lemma m4v_decomp a b S q : m4v (madd4 (mscal4 a I4) (mscal4 b S)) q = qadd (qscale a q) (qscale b (m4v S q)).
Proof. unfold_m4. unfold_q. list_eq; ring. Qed.

(* the un-normalised order-k series step, in closed scalar form *)
Definition series_vec (k : nat) (dt wx wy wz : R) (q : list R) : list R :=
  qadd (qscale (ak k (uu dt wx wy wz)) q) (qscale (bk k (uu dt wx wy wz)) (m4v (hS dt wx wy wz) q)).

Lemma series_vec_is_partial_sum k dt wx wy wz q : (k <= 6)%nat ->
  series_vec k dt wx wy wz q = m4v (expsum (hS dt wx wy wz) k) q.
Proof. intros Hk. rewrite (expsum_decomp _ _ _ _ _ Hk), m4v_decomp. reflexivity. Qed.

Lemma series_vec_norm2 k dt wx wy wz q :
  qnorm2 (series_vec k dt wx wy wz q) =
  qnorm2 q * (ak k (uu dt wx wy wz) * ak k (uu dt wx wy wz) + uu dt wx wy wz * (bk k (uu dt wx wy wz) * bk k (uu dt wx wy wz))).
Proof. unfold series_vec, hS, Omega4. set (a := ak _ _). set (b := bk _ _). unfold uu. unfold_m4. unfold_q. field. Qed.

(* ---- proof plumbing for the generated definitions ------------------------------------------------ *)
(* the normalising Quaternion constructor at the end of a step *)
Lemma normalize_val (a b c d a' b' c' d' s : R) : a = a' -> b = b' -> c = c' -> d = d' -> 0 < qnorm2 [a';b';c';d'] ->
  s = sqrt (a*a+b*b+c*c+d*d) ->
  (if Req_EM_T 0 s then Raise ValueError else Val [a / s; b / s; c / s; d / s]) = Val (qnormalize [a';b';c';d']).
Proof.
  intros -> -> -> -> P ->. unfold qnormalize. revert P. unfold_rot. intros P.
  destruct (Req_EM_T 0 (sqrt (a'*a'+b'*b'+c'*c'+d'*d'))) as [Z|NZ].
  - exfalso. symmetry in Z. apply sqrt_eq_0 in Z; lra.
  - val_eq; unfold Rdiv; ring.
Qed.
Lemma eta4 (l : list R) : length l = 4%nat -> l = [e l 0; e l 1; e l 2; e l 3].
Proof. intros L. destruct (len4 l L) as (a&b&c&d&->). reflexivity. Qed.
Lemma let_intro {A B} (v : A) (f : A -> B) (r : B) : (forall x, x = v -> f x = r) -> (let x := v in f x) = r.
Proof. intros Hx. exact (Hx v eq_refl). Qed.
(* peel the outermost generated `let` without expanding the rest *)
Ltac step := lazymatch goal with |- (let x := ?v in @?b x) = ?r => refine (let_intro v b r _); intros ? ?; cbv beta end.
Lemma div_1 x : x / 1 = x. Proof. field. Qed.
Lemma sqrt_gate_nz e0 (A : Type) (a b : A) : 0 < e0 -> (if Req_EM_T 0 (sqrt e0) then a else b) = b.
Proof. intros P. destruct (Req_EM_T 0 (sqrt e0)) as [Z|_]; [|reflexivity]. exfalso. symmetry in Z. apply sqrt_eq_0 in Z; lra. Qed.
Lemma sqrt_gate_z e0 (A : Type) (a b : A) : e0 = 0 -> (if Req_EM_T 0 (sqrt e0) then a else b) = a.
Proof. intros ->. rewrite sqrt_0. destruct (Req_EM_T 0 0) as [_|N]; [reflexivity|congruence]. Qed.
Lemma wsq_pos wx wy wz : wx*wx + wy*wy + wz*wz <> 0 -> 0 < wx*wx + wy*wy + wz*wz.
Proof. intros H. nra. Qed.

(* C08_series<k>_R = normalised scalar-form partial sum (run after `cbv beta delta [C08_series<k>_R]`).  The unit-norm
   gate of the Quaternion constructor is decided while the body is still folded; the four components are then
   polynomial identities closed by `field`. *)
Ltac series_core H NZ P k dt wx wy wz w x y z :=
  step; match goal with E : _ = sqrt _ |- _ => rewrite H, sqrt_1 in E; subst end; gate_01;
  rewrite (sqrt_gate_nz _ _ _ _ (wsq_pos _ _ _ NZ)); rewrite ?div_1;
  rewrite (eta4 (series_vec k dt wx wy wz [w;x;y;z]) eq_refl) in P |- *;
  cbv zeta; eapply normalize_val; [ | | | | exact P | reflexivity]; clear P;
  unfold series_vec, hS, uu, Omega4; unfold_m4; cbv [qadd ak bk Nat.ltb Nat.leb]; unfold_rot; field.

(* positivity of the squared norm of the un-normalised series step for (|w| dt/2)^2 <= 1 *)
Lemma series_norm_pos k u : (k <= 6)%nat -> 0 <= u <= 1 -> 0 < ak k u * ak k u + u * (bk k u * bk k u).
Proof.
  intros Hk [U0 U1]. do 7 (destruct k as [|k]; [cbv [ak bk Nat.ltb Nat.leb]; nra|]). lia.
Qed.
Lemma uu_ge0 dt wx wy wz : 0 <= uu dt wx wy wz.
Proof. unfold uu. nra. Qed.
Lemma series_vec_pos k dt wx wy wz w x y z : (k <= 6)%nat -> w*w+x*x+y*y+z*z = 1 -> uu dt wx wy wz <= 1 ->
  0 < qnorm2 (series_vec k dt wx wy wz [w;x;y;z]).
Proof.
  intros Hk H U. rewrite series_vec_norm2. replace (qnorm2 [w;x;y;z]) with 1 by (unfold_rot; lra).
  rewrite Rmult_1_l. apply series_norm_pos; [exact Hk|]. split; [apply uu_ge0|exact U].
Qed.
