(* C08_closed.v — AngularRate.update(method='closed'): one step is right multiplication by the axis-angle rotation
   (axis w/|w|, angle |w| dt); N steps at a constant rate compose to the rotation by N |w| dt, for every N. *)
From Coq Require Import Reals List Lra Lia.
From AhrsLib Require Import Base Rot.
From AhrsGen Require Import C08gen_R.
From AhrsProps Require Import C08_lib.
Import ListNotations.
Open Scope R_scope.

Lemma normalize_unit (a b c d a' b' c' d' s : R) : a = a' -> b = b' -> c = c' -> d = d' -> qnorm2 [a';b';c';d'] = 1 ->
  s = sqrt (a*a+b*b+c*c+d*d) ->
  (if Req_EM_T 0 s then Raise ValueError else Val [a / s; b / s; c / s; d / s]) = Val [a';b';c';d'].
Proof.
  intros -> -> -> -> P ->. revert P. unfold_rot. intros ->. rewrite sqrt_1.
  destruct (Req_EM_T 0 1) as [Z|_]; [lra|]. val_eq; field.
Qed.

(* closed_is_axis_angle: for every step size and rate (the zero rate included) and every unit attitude *)
Lemma closed_val dt wx wy wz w x y z : w*w+x*x+y*y+z*z = 1 ->
  C08_closed_R dt wx wy wz w x y z = Val (qmul [w;x;y;z] (rotq wx wy wz dt)).
Proof.
  intros H. cbv beta delta [C08_closed_R].
  step. match goal with E : _ = sqrt _ |- _ => rewrite H, sqrt_1 in E; subst end. gate_01. rewrite ?div_1.
  step. match goal with E : ?n = sqrt _ |- _ => rename n into n0; rename E into Hn end.
  destruct (Req_EM_T 0 n0) as [Z|NZ].
  - cbv zeta. assert (W : wnorm wx wy wz = 0) by (unfold wnorm; rewrite <- Hn; auto).
    destruct (wnorm_0 _ _ _ W) as (-> & -> & ->). rewrite rotq_zero_rate, qmul_one_r. reflexivity.
  - cbv zeta.
    rewrite (eta4 (qmul [w;x;y;z] (rotq wx wy wz dt)) eq_refl).
    eapply normalize_unit; [ | | | | | reflexivity].
    5: { change (qnorm2 (qmul [w;x;y;z] (rotq wx wy wz dt)) = 1).
         apply unitq_mul; [split; [reflexivity|unfold_rot; lra] | apply rotq_unit]. }
    all: unfold rotq, wnorm; rewrite <- Hn; unfold_rot; field; auto.
Qed.

(* the step as a function on attitudes (a raise cannot happen on unit input; it is mapped to the input) *)
Definition closed_step (dt wx wy wz : R) (q : list R) : list R :=
  match C08_closed_R dt wx wy wz (e q 0) (e q 1) (e q 2) (e q 3) with Val l => l | Raise _ => q end.

Lemma closed_step_unit dt wx wy wz q : unitq q -> closed_step dt wx wy wz q = qmul q (rotq wx wy wz dt).
Proof.
  intros [L U]. destruct (len4 q L) as (w&x&y&z&->). unfold closed_step. cbv [e List.nth].
  rewrite closed_val; [reflexivity|]. revert U. unfold_rot. auto.
Qed.

(* closed_N_steps: induction on N with the addition formulas; every intermediate attitude is again a unit quaternion *)
Lemma closed_N_steps dt wx wy wz q N : unitq q ->
  iter (closed_step dt wx wy wz) N q = qmul q (rotq wx wy wz (INR N * dt)) /\ unitq (iter (closed_step dt wx wy wz) N q).
Proof.
  intros U. destruct U as [L U0]. destruct (len4 q L) as (w&x&y&z&->). pose proof (conj L U0 : unitq [w;x;y;z]) as U.
  induction N as [|N [IH IU]].
  - simpl iter. replace (INR 0 * dt) with 0 by (simpl; ring). rewrite rotq_0, qmul_one_r. split; [reflexivity|exact U].
  - simpl iter. rewrite (closed_step_unit _ _ _ _ _ IU). split.
    + rewrite IH, qmul_assoc, rotq_add, S_INR. f_equal. f_equal. ring.
    + apply unitq_mul; [exact IU|apply rotq_unit].
Qed.

(* the closed-form step in matrix form:  q (x) rotq(w, dt) = (cos h I + (sin h / h) S) q,  S = dt/2 Omega(w), h = |w| dt/2;
   this is the form the order-k series step  (ak(h^2) I + bk(h^2) S) q  is compared with in C08_bounds *)
Lemma closed_decomp dt wx wy wz q : wx*wx+wy*wy+wz*wz <> 0 -> dt <> 0 ->
  let h := wnorm wx wy wz * dt / 2 in
  qmul q (rotq wx wy wz dt) = qadd (qscale (cos h) q) (qscale (sin h / h) (m4v (hS dt wx wy wz) q)) /\
  uu dt wx wy wz = h * h.
Proof.
  intros NZ D h. pose proof (wnorm_sq wx wy wz) as SQ.
  assert (N0 : wnorm wx wy wz <> 0) by (intros Z; rewrite Z in SQ; lra).
  split.
  - unfold rotq, hS, Omega4. fold h. set (n := wnorm wx wy wz) in *. set (c := cos h). set (s := sin h).
    unfold_m4. unfold_q. unfold h. list_eq; field; auto.
  - unfold uu, h. rewrite <- SQ. field.
Qed.
