(* C04_matrix.v — singularity-free class, matrix outputs: TRIAD (estimate and constructor), ecompass and am2DCM in
   both frames return exactly the rotation matrix (or its transpose, as each documents) of the attitude the
   consistent measurements were generated from — for EVERY unit quaternion, every dip with cos > 0 and all
   positive scalings.  Proofs: every sqrt in the regenerated term is shown to be sa, sm, cd, sa*sm*cd or 1 by ring
   modulo the unit hypotheses, then each matrix entry is a field identity. *)
From Coq Require Import Reals List Lra.
From AhrsLib Require Import Base Rot.
From AhrsGen Require Import C04gen_R.
From AhrsProps Require Import C04_tac.
Import ListNotations.
Open Scope R_scope.

Ltac setup := intros Hq [Hd Hc] Hsa Hsm; unfold unit4 in Hq; cbv zeta; orient_unit.

Lemma triad_NED_exact w x y z sa sm cd sd : unit4 w x y z -> dip cd sd -> 0 < sa -> 0 < sm ->
  C04_triad_NED_R w x y z sa sm cd sd = Val (mtr3 (Rspec [w;x;y;z])).
Proof.
  unfold C04_triad_NED_R. setup.
  roots sa sm cd. gate_ne 1. unfold_rot. val_eq. all: fring.
Qed.
Lemma triad_ENU_exact w x y z sa sm cd sd : unit4 w x y z -> dip cd sd -> 0 < sa -> 0 < sm ->
  C04_triad_ENU_R w x y z sa sm cd sd = Val (mtr3 (Rspec [w;x;y;z])).
Proof.
  unfold C04_triad_ENU_R. setup.
  roots sa sm cd. gate_ne 1. unfold_rot. val_eq. all: fring.
Qed.
Lemma ecompass_NED_exact w x y z sa sm cd sd : unit4 w x y z -> dip cd sd -> 0 < sa -> 0 < sm ->
  C04_ecompass_NED_R w x y z sa sm cd sd = Val (Rspec [w;x;y;z]).
Proof.
  unfold C04_ecompass_NED_R. setup.
  roots sa sm cd. unfold_rot. val_eq. all: fring.
Qed.
Lemma ecompass_ENU_exact w x y z sa sm cd sd : unit4 w x y z -> dip cd sd -> 0 < sa -> 0 < sm ->
  C04_ecompass_ENU_R w x y z sa sm cd sd = Val (Rspec [w;x;y;z]).
Proof.
  unfold C04_ecompass_ENU_R. setup.
  roots sa sm cd. unfold_rot. val_eq. all: fring.
Qed.
Lemma am2DCM_ENU_exact w x y z sa sm cd sd : unit4 w x y z -> dip cd sd -> 0 < sa -> 0 < sm ->
  C04_am2DCM_ENU_R w x y z sa sm cd sd = Val (mtr3 (Rspec [w;x;y;z])).
Proof.
  unfold C04_am2DCM_ENU_R. setup.
  roots sa sm cd. unfold_rot. val_eq. all: fring.
Qed.
Lemma am2DCM_NED_exact w x y z sa sm cd sd : unit4 w x y z -> dip cd sd -> 0 < sa -> 0 < sm ->
  C04_am2DCM_NED_R w x y z sa sm cd sd = Val (mtr3 (Rspec [w;x;y;z])).
Proof.
  unfold C04_am2DCM_NED_R. setup.
  roots sa sm cd. unfold_rot. val_eq. all: fring.
Qed.
Lemma triad_ctor_exact w x y z sa sm cd sd : unit4 w x y z -> dip cd sd -> 0 < sa -> 0 < sm ->
  C04_triad_ctor_R w x y z sa sm cd sd = Val (mtr3 (Rspec [w;x;y;z])).
Proof.
  unfold C04_triad_ctor_R. setup.
  roots sa sm cd. repeat first [gate_ne 1 | gate_ne sa | gate_ne sm]. unfold_rot. val_eq. all: fring.
Qed.
