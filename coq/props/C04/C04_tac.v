(* C04_tac.v — tactics and small lemmas shared by the C04 proof files (nothing here mentions generated code).
   Consistent data: attitude q = (w,x,y,z) unit, scalings sa, sm > 0, dip given by (cd, sd) with cd² + sd² = 1. *)
From Coq Require Import Reals List Lra.
From AhrsLib Require Import Base Rot.
Import ListNotations.
Open Scope R_scope.

Definition unit4 (w x y z : R) : Prop := w*w + x*x + y*y + z*z = 1.
Definition dip (cd sd : R) : Prop := cd*cd + sd*sd = 1 /\ 0 < cd.          (* dips strictly between -90 and 90 degrees *)

(* the property's general-position guard (every component >= 0.05 in magnitude, rotation angle <= pi - 0.1,
   sensor z-axis >= 3 degrees from vertical, x-axis not vertical), in the algebraic form the proofs use *)
Definition general_position (w x y z : R) : Prop :=
  unit4 w x y z /\ 1/20 <= Rabs w /\ 1/20 <= Rabs x /\ 1/20 <= Rabs y /\ 1/20 <= Rabs z.

Lemma gp_ne0 w x y z : general_position w x y z -> w <> 0 /\ x <> 0 /\ y <> 0 /\ z <> 0.
Proof.
  intros (_ & Hw & Hx & Hy & Hz).
  repeat split; intros E; subst; rewrite Rabs_R0 in *; lra.
Qed.

(* rewrite  sqrt e  into  s  when  e = s*s  follows by ring/field modulo the oriented unit hypotheses and 0 <= s *)
Ltac sqrt_is e s :=
  let H := fresh in
  assert (H : e = s * s) by (div1; uring);
  rewrite H; clear H; rewrite (sqrt_square s) by lra.

(* a/n when the vector is k times a unit quaternion: n = |k| *)
Lemma normalise_scaled k a b c d w x y z :
  unit4 w x y z -> k <> 0 -> a = k * w -> b = k * x -> c = k * y -> d = k * z ->
  let n := sqrt (a*a + b*b + c*c + d*d) in
  [a / n; b / n; c / n; d / n] = [w; x; y; z] \/ [a / n; b / n; c / n; d / n] = [- w; - x; - y; - z].
Proof.
  intros Hu Hk -> -> -> -> n. unfold unit4 in Hu.
  assert (E : k*w*(k*w) + k*x*(k*x) + k*y*(k*y) + k*z*(k*z) = k * k) by (replace (k*k) with (k*k*1) by ring; rewrite <- Hu; ring).
  unfold n. rewrite E, sqrt_sq_abs.
  destruct (Rlt_dec 0 k) as [P|N].
  - left. rewrite Rabs_right by lra. list_eq; field; lra.
  - right. rewrite Rabs_left by lra. list_eq; field; lra.
Qed.

(* the same with the norm written as numpy.linalg.norm writes it: ((a*a + b*b) + c*c) + d*d *)
Definition pm_eq (l q : list R) : Prop := l = q \/ l = qneg q.

Lemma pm_refl q : pm_eq q q. Proof. left; reflexivity. Qed.
