(* C04_tac.v — tactics and small lemmas shared by the C04 proof files (nothing here mentions generated code).
   Consistent data: attitude q = (w,x,y,z) unit, scalings sa, sm > 0, dip given by (cd, sd) with cd² + sd² = 1. *)
From Coq Require Import Reals List Lra.
From AhrsLib Require Import Base Rot.
Import ListNotations.
Open Scope R_scope.

Definition unit4 (w x y z : R) : Prop := w*w + x*x + y*y + z*z = 1.
Definition dip (cd sd : R) : Prop := cd*cd + sd*sd = 1 /\ 0 < cd.          (* dips strictly between -90 and 90 degrees *)

(* the property's general-position guard (every component >= 0.05 in magnitude, rotation angle <= pi - 0.1,
   sensor z-axis >= 3 degrees from vertical, x-axis not vertical), in the algebraic form the proofs use *)
Definition general_position (w x y z : R) : Prop :=
  unit4 w x y z /\ 1/20 <= Rabs w /\ 1/20 <= Rabs x /\ 1/20 <= Rabs y /\ 1/20 <= Rabs z.

Lemma gp_ne0 w x y z : general_position w x y z -> w <> 0 /\ x <> 0 /\ y <> 0 /\ z <> 0.
Proof.
  intros (_ & Hw & Hx & Hy & Hz).
  repeat split; intros E; subst; rewrite Rabs_R0 in *; lra.
Qed.

(* rewrite  sqrt e  into  s  when  e = s*s  follows by ring/field modulo the oriented unit hypotheses and 0 <= s *)
Ltac sqrt_is e s :=
  let H := fresh in
  assert (H : e = s * s) by (div1; uring);
  rewrite H; clear H; rewrite (sqrt_square s) by lra.

(* a/n when the vector is k times a unit quaternion: n = |k| *)
Lemma normalise_scaled k a b c d w x y z :
  unit4 w x y z -> k <> 0 -> a = k * w -> b = k * x -> c = k * y -> d = k * z ->
  let n := sqrt (a*a + b*b + c*c + d*d) in
  [a / n; b / n; c / n; d / n] = [w; x; y; z] \/ [a / n; b / n; c / n; d / n] = [- w; - x; - y; - z].
Proof.
  intros Hu Hk -> -> -> -> n. unfold unit4 in Hu.
  assert (E : k*w*(k*w) + k*x*(k*x) + k*y*(k*y) + k*z*(k*z) = k * k) by (replace (k*k) with (k*k*1) by ring; rewrite <- Hu; ring).
  unfold n. rewrite E, sqrt_sq_abs.
  destruct (Rlt_dec 0 k) as [P|N].
  - left. rewrite Rabs_right by lra. list_eq; field; lra.
  - right. rewrite Rabs_left by lra. list_eq; field; lra.
Qed.

(* the same with the norm written as numpy.linalg.norm writes it: ((a*a + b*b) + c*c) + d*d *)
Definition pm_eq (l q : list R) : Prop := l = q \/ l = qneg q.

Lemma pm_refl q : pm_eq q q. Proof. left; reflexivity. Qed.

(* ---- square roots of the generated terms ------------------------------------------------
   innermost first; a radicand without division is decided by ring modulo the unit hypotheses, one with
   divisions (after the norms have become sa, sm) by field.  Candidates: 1, sa, sm, cd. *)
Ltac no_sqrt e := lazymatch e with context [sqrt _] => fail | _ => idtac end.
Ltac no_div e := lazymatch e with context [Rinv _] => fail | context [Rdiv _ _] => fail | _ => idtac end.
Ltac nonneg := first [lra | repeat apply Rmult_le_pos; lra].
Ltac sqrt_isr e s :=
  let H := fresh in
  assert (H : e = s * s) by (first [ring | hring]);
  rewrite H; clear H; rewrite (sqrt_square s) by nonneg.
Ltac sqrt_isf e s :=
  let H := fresh in
  assert (H : e = s * s) by (field_simplify_eq; [first [ring | hring]|lra..]);
  rewrite H; clear H; rewrite (sqrt_square s) by nonneg.
Ltac root1 sa sm cd :=
  match goal with
  | |- context [sqrt ?e] => no_sqrt e;
      first [ no_div e;
              first [ lazymatch e with context [sa] => lazymatch e with context [sm] => sqrt_isr e (sa * sm * cd) end end
                    | lazymatch e with context [sa] => sqrt_isr e sa end
                    | lazymatch e with context [sm] => sqrt_isr e sm end
                    | sqrt_isr e 1 | sqrt_isr e cd ]
            | sqrt_isf e cd | sqrt_isf e 1 ]
  end.
Ltac roots sa sm cd := repeat (root1 sa sm cd).
Ltac gate_ne s := match goal with |- context [Req_EM_T 0 s] => destruct (Req_EM_T 0 s); [lra|] end.
Ltac gate_pos s := match goal with |- context [Rlt_dec 0 s] => destruct (Rlt_dec 0 s); [|lra] end.
Ltac fring := first [ring | hring | (field_simplify_eq; [first [ring | hring]|lra..])].

Definition mvec4 (A v : list R) : list R :=
  [e A 0*e v 0 + e A 1*e v 1 + e A 2*e v 2 + e A 3*e v 3;
   e A 4*e v 0 + e A 5*e v 1 + e A 6*e v 2 + e A 7*e v 3;
   e A 8*e v 0 + e A 9*e v 1 + e A 10*e v 2 + e A 11*e v 3;
   e A 12*e v 0 + e A 13*e v 1 + e A 14*e v 2 + e A 15*e v 3].
Definition mtr4 (A : list R) : list R :=
  [e A 0; e A 4; e A 8; e A 12;  e A 1; e A 5; e A 9; e A 13;  e A 2; e A 6; e A 10; e A 14;  e A 3; e A 7; e A 11; e A 15].
