(* C04_oleq.v — OLEQ: the true attitude is a fixed point of the code's iteration q <- R q / |R q| with
   R = (I + a1 W(acc, a_ref) + a2 W(mag, m_ref)) / 2  on consistent data: started there, estimate() performs one step
   (or none, when q is within 1e-8 of [1,0,0,0]) and returns q itself — i.e. q is an eigenvector of the averaged W matrix
   for the eigenvalue that makes |R q| = 1.  For EVERY unit q, every dip, all positive scalings, both frames.
   (The start is the draw of the global RNG, replaced by q for the call; convergence from a random start within the
   21-step cap is a recorded finding and stays explored.) *)
From Coq Require Import Reals List Lra.
From AhrsLib Require Import Base Rot.
From AhrsGen Require Import C04gen_R.
From AhrsProps Require Import C04_tac.
Import ListNotations.
Open Scope R_scope.

Lemma let_elim {A B} (v : A) (b : A -> B) (G : B -> Prop) : (forall y, y = v -> G (b y)) -> G (let x := v in b x).
Proof. intros H. exact (H v eq_refl). Qed.
Lemma if_elim {A} {P Q : Prop} (c : {P}+{Q}) (a b : A) (G : A -> Prop) :
  (P -> G a) -> (Q -> G b) -> G (if c then a else b).
Proof. destruct c; auto. Qed.

(* let-preserving walk with on-the-fly simplification: a let bound to a sqrt, a quotient or a sum is replaced by one of the
   candidate atoms when that is provable (ring / field modulo the unit hypotheses); every other let is inlined *)
Ltac is_cand y E c := let H := fresh in assert (H : y = c) by (rewrite E; fring); clear E; subst y.
Ltac sqrt_cand y E c :=
  let H := fresh in
  assert (H : y = c) by (rewrite E; match goal with |- sqrt ?e = _ =>
     replace e with (c * c) by (first [ring | hring | (field_simplify_eq; [first [ring | hring]|lra..])]); apply sqrt_square; lra end);
  clear E; subst y.
Ltac simp_let sa sm w x y0 z t E :=
  lazymatch type of E with
  | _ = sqrt _ => first [sqrt_cand t E sa | sqrt_cand t E sm | sqrt_cand t E 1 | sqrt_cand t E (3/2) | sqrt_cand t E 0 | subst t]
  | _ = _ / _ => first [is_cand t E w | is_cand t E x | is_cand t E y0 | is_cand t E z | subst t]
  | _ = _ + _ => first [is_cand t E (3/2*w) | is_cand t E (3/2*x) | is_cand t E (3/2*y0) | is_cand t E (3/2*z) | subst t]
  | _ = _ - _ => first [is_cand t E 0 | subst t]
  | _ => subst t
  end.
Ltac leaf :=
  let E := fresh in intros E; rewrite <- E; clear E;
  first [ val_eq; fring
        | exfalso; lra
        | exfalso; match goal with H : _ < sqrt ?e |- _ =>
            let Z := fresh in assert (Z : e = 0) by fring; rewrite Z, sqrt_0 in H; lra end
 ].
Ltac swalk sa sm w x y0 z :=
  lazymatch goal with
  | |- (let v0 := ?v in @?b v0) = ?r -> ?G =>
      refine (let_elim v b (fun o' => o' = r -> G) _); let t := fresh "t" in let E := fresh "E" in intros t E; cbv beta;
      simp_let sa sm w x y0 z t E; swalk sa sm w x y0 z
  | |- (if ?c then ?a else ?b) = ?r -> ?G =>
      refine (if_elim c a b (fun o' => o' = r -> G) _ _); intro; swalk sa sm w x y0 z
  | |- _ => leaf
  end.

Lemma oleq_fixed_NED_o w x y z sa sm cd sd o : unit4 w x y z -> dip cd sd -> 0 < sa -> 0 < sm ->
  C04_oleq_fixed_NED_R w x y z sa sm cd sd = o -> o = Val [w;x;y;z].
Proof.
  intros Hq [Hd Hc] Hsa Hsm; unfold unit4 in Hq; orient_unit. cbv beta delta [C04_oleq_fixed_NED_R].
  swalk sa sm w x y z.
Qed.

Lemma oleq_fixed_ENU_o w x y z sa sm cd sd o : unit4 w x y z -> dip cd sd -> 0 < sa -> 0 < sm ->
  C04_oleq_fixed_ENU_R w x y z sa sm cd sd = o -> o = Val [w;x;y;z].
Proof.
  intros Hq [Hd Hc] Hsa Hsm; unfold unit4 in Hq; orient_unit. cbv beta delta [C04_oleq_fixed_ENU_R].
  swalk sa sm w x y z.
Qed.

Lemma oleq_fixed_NED w x y z sa sm cd sd : unit4 w x y z -> dip cd sd -> 0 < sa -> 0 < sm ->
  C04_oleq_fixed_NED_R w x y z sa sm cd sd = Val [w;x;y;z].
Proof. intros. exact (oleq_fixed_NED_o w x y z sa sm cd sd _ H H0 H1 H2 eq_refl). Qed.
Lemma oleq_fixed_ENU w x y z sa sm cd sd : unit4 w x y z -> dip cd sd -> 0 < sa -> 0 < sm ->
  C04_oleq_fixed_ENU_R w x y z sa sm cd sd = Val [w;x;y;z].
Proof. intros. exact (oleq_fixed_ENU_o w x y z sa sm cd sd _ H H0 H1 H2 eq_refl). Qed.
