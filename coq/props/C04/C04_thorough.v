(* C04_thorough.v — statements of the theorems whose proofs are compiled in the thorough tier only *)
From Coq Require Import Reals List Lra.
From AhrsLib Require Import Base Rot.
From AhrsGen Require Import C04gen_R.
From AhrsProps Require Import C04_tac C04_quest C04_quest_cf C04_oleq.
Import ListNotations.
Open Scope R_scope.

(* QUEST: lambda = sum(weights) = 1 is a root of the code's characteristic quartic on consistent data: the numerator phi(1)
   of the first Newton step is 0 — for every unit q (no det S premise since the code takes tr(adj S) from the principal minors) *)
Theorem C04_quest_root : forall w x y z sa sm cd sd,
  w*w + x*x + y*y + z*z = 1 -> cd*cd + sd*sd = 1 -> 0 < cd -> 0 < sa -> 0 < sm ->
  exists phi phi', C04_quest_newton1_R w x y z sa sm cd sd = Val [phi; phi'] /\ phi = 0.
Proof.
  intros w x y z sa sm cd sd Hq Hd Hc Ha Hm. exact (quest_root w x y z sa sm cd sd Hq (conj Hd Hc) Ha Hm).
Qed.
Print Assumptions C04_quest_root.

(* QUEST: the code's closed-form quaternion [gamma, Chi]/norm, evaluated at the root lambda = 1 of its quartic, is +-q on
   consistent data (any positive scalings, dip in (-90,90) deg) whenever w <> 0 (gamma = 2 w^2 cd^2 vanishes at half-turns)
   (no det S premise is needed any more: the code no longer divides by det S) *)
Theorem C04_quest_closed_form : forall w x y z sa sm cd sd,
  w*w + x*x + y*y + z*z = 1 -> cd*cd + sd*sd = 1 -> 0 < cd -> 0 < sa -> 0 < sm -> w <> 0 ->
  exists l, C04_quest_at_root_R w x y z sa sm cd sd = Val l /\ (l = [w;x;y;z] \/ l = [-w;-x;-y;-z]).
Proof.
  intros w x y z sa sm cd sd Hq Hd Hc Ha Hm Hw.
  exact (quest_closed_form w x y z sa sm cd sd Hq (conj Hd Hc) Ha Hm Hw).
Qed.
Print Assumptions C04_quest_closed_form.

(* OLEQ, both frames: on consistent data the true attitude is a fixed point of the code's iteration q <- R q / |R q|
   (R q = 3/2 q for the default weights [1,1]): started at q — the draw of the global RNG replaced by q for the call — estimate()
   returns exactly q, for EVERY unit q, every dip in (-90,90) deg, all positive scalings.  Convergence from a random start within
   the 21-step cap is NOT claimed (recorded finding). *)
Theorem C04_oleq_fixed_point : forall w x y z sa sm cd sd,
  w*w + x*x + y*y + z*z = 1 -> cd*cd + sd*sd = 1 -> 0 < cd -> 0 < sa -> 0 < sm ->
  C04_oleq_fixed_NED_R w x y z sa sm cd sd = Val [w;x;y;z] /\ C04_oleq_fixed_ENU_R w x y z sa sm cd sd = Val [w;x;y;z].
Proof.
  intros w x y z sa sm cd sd Hq Hd Hc Ha Hm.
  split; [exact (oleq_fixed_NED w x y z sa sm cd sd Hq (conj Hd Hc) Ha Hm)|exact (oleq_fixed_ENU w x y z sa sm cd sd Hq (conj Hd Hc) Ha Hm)].
Qed.
Print Assumptions C04_oleq_fixed_point.
