(* C04_closed.v — closed-form class under the general-position guard *)
From Coq Require Import Reals List Lra.
From AhrsLib Require Import Base Rot.
From AhrsGen Require Import C04gen_R.
From AhrsProps Require Import C04_tac.
Import ListNotations.
Open Scope R_scope.

Lemma saam_exact w x y z sa sm cd sd : general_position w x y z -> dip cd sd -> 0 < sa -> 0 < sm ->
  exists l, C04_saam_R w x y z sa sm cd sd = Val l /\ pm_eq l (qconj [w;x;y;z]).
Proof.
  intros G [Hd Hc] Hsa Hsm. destruct (gp_ne0 _ _ _ _ G) as (Nw & Nx & Ny & Nz). destruct G as (Hq' & _).
  assert (Hq := Hq'). unfold unit4 in Hq. unfold C04_saam_R. cbv zeta. orient_unit.
  do 3 (root1 sa sm cd). gate_pos sa. gate_pos sm.   (* the two norms and sqrt(1-mD^2) = cd; the last sqrt is the final normalisation *)
  eexists. split; [reflexivity|].
  unfold pm_eq. cbv [qconj qneg e nth].
  apply (normalise_scaled (4 * cd * x)); [unfold unit4 in *; lra | .. ].
  - nra.
  - field_simplify_eq; [hring|lra..].
  - field_simplify_eq; [hring|lra..].
  - field_simplify_eq; [hring|lra..].
  - field_simplify_eq; [hring|lra..].
Qed.

(* the vectorised copy of the same closed form (N-sample constructor; first row of a 2-row input) *)
Lemma saam_vec_exact w x y z sa sm cd sd : general_position w x y z -> dip cd sd -> 0 < sa -> 0 < sm ->
  exists l, C04_saam_vec_R w x y z sa sm cd sd = Val l /\ pm_eq l (qconj [w;x;y;z]).
Proof.
  intros G [Hd Hc] Hsa Hsm. destruct (gp_ne0 _ _ _ _ G) as (Nw & Nx & Ny & Nz). destruct G as (Hq' & _).
  assert (Hq := Hq'). unfold unit4 in Hq. unfold C04_saam_vec_R. cbv zeta. orient_unit.
  do 3 (root1 sa sm cd).
  eexists. split; [reflexivity|].
  unfold pm_eq. cbv [qconj qneg e nth].
  apply (normalise_scaled (4 * cd * x)); [unfold unit4 in *; lra | .. ].
  - nra.
  - field_simplify_eq; [hring|lra..].
  - field_simplify_eq; [hring|lra..].
  - field_simplify_eq; [hring|lra..].
  - field_simplify_eq; [hring|lra..].
Qed.
