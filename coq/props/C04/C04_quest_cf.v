(* C04_quest_cf.v — thorough tier: QUEST's closed-form quaternion at the root (see C04_quest.v) *)
From Coq Require Import Reals List Lra.
From AhrsLib Require Import Base Rot.
From AhrsGen Require Import C04gen_R.
From AhrsProps Require Import C04_tac C04_quest.
Import ListNotations.
Open Scope R_scope.

Lemma quest_closed_form w x y z sa sm cd sd : unit4 w x y z -> dip cd sd -> 0 < sa -> 0 < sm -> w <> 0 ->
  exists l, C04_quest_at_root_R w x y z sa sm cd sd = Val l /\ pm_eq l [w;x;y;z].
Proof.
  intros Hq' [Hd Hc] Hsa Hsm Hw. assert (Hq := Hq'). unfold unit4 in Hq. unfold C04_quest_at_root_R. cbv zeta. orient_unit.
  do 2 (root1 sa sm cd).
  rewrite !(scale_div_cancel sa), !(scale_div_cancel sm) by lra.
  eexists. split; [reflexivity|]. unfold pm_eq. cbv [qneg e nth].
  apply (normalise_scaled (2 * w * cd * cd)); [exact Hq' | .. ].
  - assert (0 < cd * cd) by nra. intros E. assert (w * (cd * cd) = 0) by lra. apply Rmult_integral in H0. destruct H0; [contradiction|lra].
  - (field_simplify_eq; [hring|lra..]).
  - (field_simplify_eq; [hring|lra..]).
  - (field_simplify_eq; [hring|lra..]).
  - (field_simplify_eq; [hring|lra..]).
Qed.
