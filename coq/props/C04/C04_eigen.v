(* C04_eigen.v — the matrices Davenport.estimate and FLAE.estimate(method='eig') hand to the LAPACK eigen-solver
   (captured at the call, regenerated from the code): symmetric, and the true attitude quaternion is an eigenvector
   for the eigenvalue sa+sm (Davenport, unit weights, unit gravity) resp. 1 (FLAE, weights 1/2 1/2). *)
From Coq Require Import Reals List Lra.
From AhrsLib Require Import Base Rot.
From AhrsGen Require Import C04gen_R.
From AhrsProps Require Import C04_tac.
Import ListNotations.
Open Scope R_scope.

Lemma davenport_K_eigen w x y z sa sm cd sd : unit4 w x y z -> cd*cd + sd*sd = 1 ->
  exists K, C04_davenport_K_R w x y z sa sm cd sd = Val K /\ length K = 16%nat /\ mtr4 K = K /\
            mvec4 K [w;x;y;z] = qscale (sa + sm) [w;x;y;z].
Proof.
  unfold unit4, C04_davenport_K_R. intros Hq Hd. cbv zeta. eexists. split; [reflexivity|].
  split; [reflexivity|]. split; [cbv [mtr4 e nth]; list_eq; ring|].
  orient_unit. cbv [mvec4 qscale e nth]. list_eq.
  all: uring.
Qed.

Lemma flae_W_eigen w x y z sa sm cd sd : unit4 w x y z -> cd*cd + sd*sd = 1 -> 0 < sa -> 0 < sm ->
  exists W, C04_flae_W_R w x y z sa sm cd sd = Val W /\ length W = 16%nat /\ mtr4 W = W /\
            mvec4 W [w;x;y;z] = [w;x;y;z].
Proof.
  unfold unit4, C04_flae_W_R. intros Hq Hd Hsa Hsm. cbv zeta. orient_unit.
  roots sa sm cd. gate_ne sa. gate_ne sm.
  eexists. split; [reflexivity|].
  split; [reflexivity|]. split; [cbv [mtr4 e nth]; list_eq; ring|].
  cbv [mvec4 e nth]. list_eq.
  all: (field_simplify_eq; [hring|lra..]).
Qed.
