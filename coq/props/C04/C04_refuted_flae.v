(* C04_refuted_flae.v — witness, inside the regenerated model, of the finding "flae_newton/identity-fallback".
   FLAE's Newton branch starts at lambda = 1.  On consistent data 1 IS a root of the code's quartic
   lambda^4 + t1 lambda^2 + t2 lambda + t3 (so the first step does not move), hence the matrix N = W - lambda I that
   the code hands to np.linalg.inv is exactly singular: the true attitude quaternion is in its kernel.  The code uses
   `inv(N)` raising LinAlgError as its test for "return the identity quaternion"; in exact arithmetic that test fires
   on EVERY consistent input, in binary64 it fires whenever the rounding of N happens to leave an exact zero pivot
   (about 6 % of general-position attitudes), and the estimator then returns [1,0,0,0] instead of the attitude. *)
From Coq Require Import Reals List Lra.
From AhrsLib Require Import Base Rot.
From AhrsGen Require Import C04gen_R.
From AhrsProps Require Import C04_tac.
Import ListNotations.
Open Scope R_scope.

Lemma flae_newton_N_singular w x y z sa sm cd sd : unit4 w x y z -> cd*cd + sd*sd = 1 -> 0 < sa -> 0 < sm ->
  exists N, C04_flae_newton_N_R w x y z sa sm cd sd = Val N /\ length N = 16%nat /\ mvec4 N [w;x;y;z] = [0;0;0;0].
Proof.
  unfold unit4, C04_flae_newton_N_R. intros Hq Hd Hsa Hsm. cbv zeta. orient_unit.
  do 2 (root1 sa sm cd). gate_ne sa. gate_ne sm.
  (* flae_char_poly: f(1) = 1 + t1 + t2 + t3 = 0 *)
  match goal with |- context [Rlt_dec ?c (Rabs (1 - (1 - ?f / ?fp)))] => assert (F : f = 0) end.
  { field_simplify_eq; [hring|lra..]. }
  assert (Z : forall a, 0 / a = 0) by (intros; unfold Rdiv; ring).
  rewrite F, !Z. replace (1 - 0) with 1 by ring. replace (1 - 1) with 0 by ring. rewrite Rabs_R0.
  destruct (Rlt_dec (1 / 100000000) 0); [lra|].
  eexists. split; [reflexivity|]. split; [reflexivity|]. cbv [mvec4 e nth]. list_eq.
  all: (field_simplify_eq; [hring|lra..]).
Qed.

(* full statement REFUTED for FLAE(method='newton') in exact arithmetic: a consistent input in general position for
   which the matrix whose invertibility the code requires is singular (a non-zero vector in its kernel) *)
Theorem C04_flae_newton_singular_refuted : exists w x y z sa sm cd sd N,
  w*w + x*x + y*y + z*z = 1 /\ 1/20 <= Rabs w /\ 1/20 <= Rabs x /\ 1/20 <= Rabs y /\ 1/20 <= Rabs z /\
  cd*cd + sd*sd = 1 /\ 0 < cd /\ 0 < sa /\ 0 < sm /\
  C04_flae_newton_N_R w x y z sa sm cd sd = Val N /\ length N = 16%nat /\
  mvec4 N [w;x;y;z] = [0;0;0;0] /\ [w;x;y;z] <> [0;0;0;0].
Proof.
  assert (U : unit4 (1/2) (1/2) (1/2) (1/2)) by (unfold unit4; lra).
  assert (D : (3/5)*(3/5) + (4/5)*(4/5) = 1) by lra.
  destruct (flae_newton_N_singular (1/2) (1/2) (1/2) (1/2) 2 (1/3) (3/5) (4/5) U D ltac:(lra) ltac:(lra)) as (N & E & L & K).
  exists (1/2), (1/2), (1/2), (1/2), 2, (1/3), (3/5), (4/5), N.
  assert (A : 1/20 <= Rabs (1/2)) by (rewrite Rabs_right; lra).
  repeat (split; [first [exact U | exact D | exact A | exact E | exact L | exact K | lra]|]).
  intros H. injection H as H _ _ _. lra.
Qed.
Print Assumptions C04_flae_newton_singular_refuted.
