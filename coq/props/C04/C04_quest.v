(* C04_quest.v — QUEST on consistent data (weights 1/2, 1/2).  Since /repo commit 01f114c QUEST computes tr(adj S) from the
   principal 2x2 minors of S (no det S * inv S any more), so neither statement needs the former premise det S <> 0:
   quest_root        : the numerator phi(1) of the FIRST Newton step (started at sum(weights) = 1) is 0, i.e. 1 is a root of the
                       code's quartic  l^4 - (a+b) l^2 - c l + (ab + c sigma - d)  — for EVERY unit q
   quest_closed_form : (C04_quest_cf.v) the code's closed-form quaternion [gamma, Chi] / norm evaluated at that root is +-q
                       (= 2 w cd^2 q before normalisation, so w <> 0 is needed: gamma vanishes at half-turns)
   Both targets are the values computed along the converged side of C04_quest (see tools/props/C04.py). *)
From Coq Require Import Reals List Lra.
From AhrsLib Require Import Base Rot.
From AhrsGen Require Import C04gen_R.
From AhrsProps Require Import C04_tac.
Import ListNotations.
Open Scope R_scope.

Lemma scale_div_cancel s u : s <> 0 -> s * u / s = u.
Proof. intros. field. assumption. Qed.

Lemma quest_root w x y z sa sm cd sd : unit4 w x y z -> dip cd sd -> 0 < sa -> 0 < sm ->
  exists phi phi', C04_quest_newton1_R w x y z sa sm cd sd = Val [phi; phi'] /\ phi = 0.
Proof.
  intros Hq [Hd Hc] Hsa Hsm. unfold unit4 in Hq. unfold C04_quest_newton1_R. cbv zeta. orient_unit.
  do 2 (root1 sa sm cd).
  rewrite !(scale_div_cancel sa), !(scale_div_cancel sm) by lra.
  eexists. eexists. split; [reflexivity|].
  field_simplify_eq; [hring|lra..].
Qed.
