(* C04_quest.v — QUEST on consistent data (weights 1/2, 1/2), under the explicit premise det S <> 0 (the code forms
   adj S = det S * inv S, so its formulas are undefined where S is singular; the property's guard does not exclude that surface):
   quest_root        : the numerator phi(1) of the FIRST Newton step (started at sum(weights) = 1) is 0, i.e. 1 is a root of the
                       code's quartic  l^4 - (a+b) l^2 - c l + (ab + c sigma - d)
   quest_closed_form : the code's closed-form quaternion [gamma, Chi] / norm evaluated at that root is +-q  (= 2 w cd^2 q before
                       normalisation, so w <> 0 is needed: gamma vanishes at half-turns)
   Both targets are the values computed along the converged side of C04_quest (see tools/props/C04.py). *)
From Coq Require Import Reals List Lra.
From AhrsLib Require Import Base Rot.
From AhrsGen Require Import C04gen_R.
From AhrsProps Require Import C04_tac.
Import ListNotations.
Open Scope R_scope.

(* S = B + B^T with B = 1/2 R^T (g g^T + m m^T), g = (0,0,1), m = (cd,0,sd) *)
Definition quest_S (w x y z cd sd : R) : list R :=
  let B := mmul3 (mtr3 (Rspec [w;x;y;z])) [cd*cd; 0; cd*sd;  0; 0; 0;  cd*sd; 0; 1 + sd*sd] in
  [(e B 0 + e B 0)/2; (e B 1 + e B 3)/2; (e B 2 + e B 6)/2;
   (e B 3 + e B 1)/2; (e B 4 + e B 4)/2; (e B 5 + e B 7)/2;
   (e B 6 + e B 2)/2; (e B 7 + e B 5)/2; (e B 8 + e B 8)/2].

Lemma mul_div_cancel d u : d <> 0 -> d * (u / d) = u.
Proof. intros. field. assumption. Qed.
Lemma scale_div_cancel s u : s <> 0 -> s * u / s = u.
Proof. intros. field. assumption. Qed.

(* the code's det S is the spec's; cancel  det S * (cofactor / det S) *)
Ltac delta_cancel w x y z cd sd HD :=
  match goal with |- context [?d * (_ / ?d)] =>
    let ED := fresh "ED" in
    assert (ED : d = det3 (quest_S w x y z cd sd)) by
      (cbv [quest_S det3 mmul3 mtr3 Rspec e nth]; field_simplify_eq; [first [ring | hring]|lra..]);
    rewrite !(mul_div_cancel d) by (rewrite ED; exact HD); clear ED
  end.

Lemma quest_root w x y z sa sm cd sd : unit4 w x y z -> dip cd sd -> 0 < sa -> 0 < sm ->
  det3 (quest_S w x y z cd sd) <> 0 ->
  exists phi phi', C04_quest_newton1_R w x y z sa sm cd sd = Val [phi; phi'] /\ phi = 0.
Proof.
  intros Hq [Hd Hc] Hsa Hsm HD. unfold unit4 in Hq. unfold C04_quest_newton1_R. cbv zeta. orient_unit.
  do 2 (root1 sa sm cd).
  rewrite !(scale_div_cancel sa), !(scale_div_cancel sm) by lra.
  delta_cancel w x y z cd sd HD.
  eexists. eexists. split; [reflexivity|].
  field_simplify_eq; [hring|lra..].
Qed.
