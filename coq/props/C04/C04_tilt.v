(* C04_tilt.v — Tilt.estimate (roll/pitch from gravity by atan2, heading by atan2 of the de-tilted field, then
   Euler -> quaternion by half angles) returns a unit quaternion whose rotation matrix is Rspec q, for EVERY unit q
   (level, inverted, vertical and half-turn poses included), every dip with cos > 0 and all positive scalings. *)
From Coq Require Import Reals List Lra.
From AhrsLib Require Import Base Rot Atan2.
From AhrsGen Require Import C04gen_R.
From AhrsProps Require Import C04_tac.
Import ListNotations.
Open Scope R_scope.

(* two unit quaternions whose matrices share the third row and the image cd*row1 + sd*row3 (cd <> 0) have the same matrix:
   the first rows agree, and the second row of Rspec of a unit quaternion is row3 x row1 *)
Lemma rspec_from_two a b c d w x y z cd sd :
  a*a + b*b + c*c + d*d = 1 -> w*w + x*x + y*y + z*z = 1 -> cd <> 0 ->
  e (Rspec [a;b;c;d]) 6 = e (Rspec [w;x;y;z]) 6 -> e (Rspec [a;b;c;d]) 7 = e (Rspec [w;x;y;z]) 7 ->
  e (Rspec [a;b;c;d]) 8 = e (Rspec [w;x;y;z]) 8 ->
  cd * e (Rspec [a;b;c;d]) 0 + sd * e (Rspec [a;b;c;d]) 6 = cd * e (Rspec [w;x;y;z]) 0 + sd * e (Rspec [w;x;y;z]) 6 ->
  cd * e (Rspec [a;b;c;d]) 1 + sd * e (Rspec [a;b;c;d]) 7 = cd * e (Rspec [w;x;y;z]) 1 + sd * e (Rspec [w;x;y;z]) 7 ->
  cd * e (Rspec [a;b;c;d]) 2 + sd * e (Rspec [a;b;c;d]) 8 = cd * e (Rspec [w;x;y;z]) 2 + sd * e (Rspec [w;x;y;z]) 8 ->
  Rspec [a;b;c;d] = Rspec [w;x;y;z].
Proof.
  intros Hp Hq Hc E6 E7 E8 F0 F1 F2.
  assert (E0 : e (Rspec [a;b;c;d]) 0 = e (Rspec [w;x;y;z]) 0) by (rewrite E6 in F0; apply (Rmult_eq_reg_l cd); lra).
  assert (E1 : e (Rspec [a;b;c;d]) 1 = e (Rspec [w;x;y;z]) 1) by (rewrite E7 in F1; apply (Rmult_eq_reg_l cd); lra).
  assert (E2 : e (Rspec [a;b;c;d]) 2 = e (Rspec [w;x;y;z]) 2) by (rewrite E8 in F2; apply (Rmult_eq_reg_l cd); lra).
  (* second rows: row3 x row1 *)
  assert (C : forall p0 p1 p2 p3, p0*p0 + p1*p1 + p2*p2 + p3*p3 = 1 ->
     e (Rspec [p0;p1;p2;p3]) 3 = e (Rspec [p0;p1;p2;p3]) 7 * e (Rspec [p0;p1;p2;p3]) 2 - e (Rspec [p0;p1;p2;p3]) 8 * e (Rspec [p0;p1;p2;p3]) 1 /\
     e (Rspec [p0;p1;p2;p3]) 4 = e (Rspec [p0;p1;p2;p3]) 8 * e (Rspec [p0;p1;p2;p3]) 0 - e (Rspec [p0;p1;p2;p3]) 6 * e (Rspec [p0;p1;p2;p3]) 2 /\
     e (Rspec [p0;p1;p2;p3]) 5 = e (Rspec [p0;p1;p2;p3]) 6 * e (Rspec [p0;p1;p2;p3]) 1 - e (Rspec [p0;p1;p2;p3]) 7 * e (Rspec [p0;p1;p2;p3]) 0).
  { intros p0 p1 p2 p3 H. orient_unit. unfold_rot. repeat split; hring. }
  destruct (C a b c d Hp) as (A3 & A4 & A5). destruct (C w x y z Hq) as (B3 & B4 & B5).
  assert (E3 : e (Rspec [a;b;c;d]) 3 = e (Rspec [w;x;y;z]) 3) by (rewrite A3, B3, E7, E2, E8, E1; reflexivity).
  assert (E4 : e (Rspec [a;b;c;d]) 4 = e (Rspec [w;x;y;z]) 4) by (rewrite A4, B4, E8, E0, E6, E2; reflexivity).
  assert (E5 : e (Rspec [a;b;c;d]) 5 = e (Rspec [w;x;y;z]) 5) by (rewrite A5, B5, E6, E1, E7, E0; reflexivity).
  clear - E0 E1 E2 E3 E4 E5 E6 E7 E8.
  cbv [Rspec e nth] in *. list_eq; assumption.
Qed.

(* the Euler(ZYX) -> quaternion formula of the code, on half-angle cosines/sines *)
Definition euler_q (cr sr cp sp cy sy : R) : list R :=
  [cy*cp*cr + sy*sp*sr; cy*cp*sr - sy*sp*cr; sy*cp*sr + cy*sp*cr; sy*cp*cr - cy*sp*sr].

(* algebra of the tilt compass.  Capital letters: cos/sin of the full angles, expressed by the half-angle values.
   (ax,ay,az): measured gravity direction, (mx,my,mz): measured field direction. *)
Lemma tilt_algebra cr sr cp sp cy sy ax ay az mx my mz cd sd :
  cr*cr + sr*sr = 1 -> cp*cp + sp*sp = 1 -> cy*cy + sy*sy = 1 ->
  let Cr := cr*cr - sr*sr in let Sr := 2*sr*cr in
  let Cp := cp*cp - sp*sp in let Sp := 2*sp*cp in
  let Cy := cy*cy - sy*sy in let Sy := 2*sy*cy in
  ax = - Sp -> ay = Cp * Sr -> az = Cp * Cr ->
  ax*mx + ay*my + az*mz = sd ->
  cd * Cy = mx*Cp + Sp*(my*Sr + mz*Cr) ->
  cd * Sy = - (my*Cr - mz*Sr) ->
  let M := Rspec (euler_q cr sr cp sp cy sy) in
  qnorm2 (euler_q cr sr cp sp cy sy) = 1 /\
  e M 6 = ax /\ e M 7 = ay /\ e M 8 = az /\
  cd * e M 0 + sd * e M 6 = mx /\ cd * e M 1 + sd * e M 7 = my /\ cd * e M 2 + sd * e M 8 = mz.
Proof.
  intros Hr Hp Hy Cr Sr Cp Sp Cy Sy Hax Hay Haz Hd HC HS M.
  assert (U : qnorm2 (euler_q cr sr cp sp cy sy) = 1).
  { orient_unit. cbv [qnorm2 euler_q e nth]. hring. }
  assert (M6 : e M 6 = ax) by (rewrite Hax; unfold M, Sp; orient_unit; cbv [Rspec euler_q e nth]; hring).
  assert (M7 : e M 7 = ay) by (rewrite Hay; unfold M, Cp, Sr; orient_unit; cbv [Rspec euler_q e nth]; hring).
  assert (M8 : e M 8 = az) by (rewrite Haz; unfold M, Cp, Cr; orient_unit; cbv [Rspec euler_q e nth]; hring).
  (* first row = Cy * r1 - Sy * r2 with r1 = (Cp, Sp Sr, Sp Cr), r2 = (0, Cr, -Sr) *)
  assert (M0 : e M 0 = Cy * Cp) by (unfold M, Cy, Cp; orient_unit; cbv [Rspec euler_q e nth]; hring).
  assert (M1 : e M 1 = Cy * (Sp * Sr) - Sy * Cr) by (unfold M, Cy, Sy, Sp, Sr, Cr; orient_unit; cbv [Rspec euler_q e nth]; hring).
  assert (M2 : e M 2 = Cy * (Sp * Cr) + Sy * Sr) by (unfold M, Cy, Sy, Sp, Sr, Cr; orient_unit; cbv [Rspec euler_q e nth]; hring).
  assert (Ur : Cr*Cr + Sr*Sr = 1) by (unfold Cr, Sr; orient_unit; hring).
  assert (Up : Cp*Cp + Sp*Sp = 1) by (unfold Cp, Sp; orient_unit; hring).
  split; [exact U|]. split; [exact M6|]. split; [exact M7|]. split; [exact M8|].
  rewrite M0, M1, M2, M6, M7, M8. rewrite <- Hd.
  set (bx := mx*Cp + Sp*(my*Sr + mz*Cr)) in *. set (by_ := my*Cr - mz*Sr) in *.
  clearbody Cr Sr Cp Sp Cy Sy. clear M U M0 M1 M2 M6 M7 M8 Hr Hp Hy.
  repeat split.
  - replace (cd * (Cy * Cp)) with ((cd * Cy) * Cp) by ring. rewrite HC. subst ax ay az. unfold bx. orient_unit. hring.
  - replace (cd * (Cy * (Sp * Sr) - Sy * Cr)) with ((cd * Cy) * (Sp * Sr) - (cd * Sy) * Cr) by ring. rewrite HC, HS.
    subst ax ay az. unfold bx, by_. orient_unit. hring.
  - replace (cd * (Cy * (Sp * Cr) + Sy * Sr)) with ((cd * Cy) * (Sp * Cr) + (cd * Sy) * Sr) by ring. rewrite HC, HS.
    subst ax ay az. unfold bx, by_. orient_unit. hring.
Qed.
Lemma cos_half2 t : cos t = cos (1/2*t) * cos (1/2*t) - sin (1/2*t) * sin (1/2*t).
Proof. replace t with (2 * (1/2*t)) at 1 by field. apply cos_2a. Qed.
Lemma sin_half2 t : sin t = 2 * sin (1/2*t) * cos (1/2*t).
Proof. replace t with (2 * (1/2*t)) at 1 by field. apply sin_2a. Qed.

(* polar facts that also hold at the origin *)
Lemma atan2_polar0 x y : x = sqrt (x*x + y*y) * cos (atan2 y x) /\ y = sqrt (x*x + y*y) * sin (atan2 y x).
Proof.
  destruct (Rlt_dec 0 (x*x + y*y)) as [P|N]; [apply atan2_polar; exact P|].
  assert (x = 0 /\ y = 0) as [-> ->] by (split; nra).
  rewrite atan2_0_0, cos_0, sin_0. replace (0*0+0*0) with 0 by ring. rewrite sqrt_0. split; ring.
Qed.

Lemma detilt_norm Cr Sr Cp Sp mx my mz : Cr*Cr + Sr*Sr = 1 -> Cp*Cp + Sp*Sp = 1 ->
  let bx := mx*Cp + Sp*(my*Sr + mz*Cr) in let by_ := my*Cr - mz*Sr in let s := - Sp*mx + Cp*Sr*my + Cp*Cr*mz in
  bx*bx + by_*by_ + s*s = mx*mx + my*my + mz*mz.
Proof. intros H1 H2 bx by_ s. unfold bx, by_, s. orient_unit. hring. Qed.

Ltac no_atan2 t := lazymatch t with context [atan2 _ _] => fail | _ => idtac end.

Lemma tilt_q_exact w x y z sa sm cd sd : unit4 w x y z -> dip cd sd -> 0 < sa -> 0 < sm ->
  exists l, C04_tilt_q_R w x y z sa sm cd sd = Val l /\ qnorm2 l = 1 /\ Rspec l = Rspec [w;x;y;z].
Proof.
  intros Hq' [Hd' Hc] Hsa Hsm. assert (Hq := Hq'). assert (Hd := Hd'). unfold unit4 in Hq.
  unfold C04_tilt_q_R. cbv zeta. orient_unit.
  do 2 (root1 sa sm cd). gate_ne sa. gate_ne sm.
  set (ax := 2 * (x*z - w*y)). set (ay := 2 * (w*x + y*z)). set (az := 1 - 2 * (x*x + y*y)).
  set (mx := (1 - 2 * (y*y + z*z)) * cd + ax * sd). set (my := 2 * (x*y - w*z) * cd + ay * sd).
  set (mz := 2 * (x*z + w*y) * cd + az * sd).
  match goal with |- context [atan2 ?a ?b] => no_atan2 a; no_atan2 b; no_sqrt b; set (phi := atan2 a b) end.
  match goal with |- context [atan2 ?a ?b] => no_atan2 a; no_atan2 b; set (theta := atan2 a b) end.
  match goal with |- context [atan2 ?a ?b] => no_atan2 a; no_atan2 b; set (psi := atan2 a b) end.
  (* the measured directions are unit and have the reference's dip *)
  assert (Ua : ax*ax + ay*ay + az*az = 1) by (unfold ax, ay, az; hring).
  assert (Um : mx*mx + my*my + mz*mz = 1) by (unfold mx, my, mz, ax, ay, az; hring).
  assert (Dm : ax*mx + ay*my + az*mz = sd) by (unfold mx, my, mz, ax, ay, az; hring).
  (* roll and pitch *)
  set (rho := sqrt (az*az + ay*ay)).
  assert (Ephi : phi = atan2 ay az) by (unfold phi; f_equal; field; lra).
  assert (Etheta : theta = atan2 (- ax) rho).
  { unfold theta, rho. f_equal; [field; lra|]. f_equal. field. lra. }
  destruct (atan2_polar0 az ay) as [Paz Pay]. fold rho in Paz, Pay. rewrite <- Ephi in Paz, Pay.
  destruct (atan2_polar0 rho (- ax)) as [Prho Pax]. rewrite <- Etheta in Prho, Pax.
  assert (R1 : sqrt (rho*rho + - ax * - ax) = 1).
  { unfold rho. rewrite sqrt_sqrt by nra. replace (az*az + ay*ay + - ax * - ax) with 1 by lra. apply sqrt_1. }
  rewrite R1, Rmult_1_l in Prho, Pax.
  pose proof (sin2_cos2 phi) as Tphi. pose proof (sin2_cos2 theta) as Ttheta. unfold Rsqr in Tphi, Ttheta.
  (* heading *)
  set (bx := mx * cos theta + sin theta * (my * sin phi + mz * cos phi)).
  set (by_ := my * cos phi - mz * sin phi).
  assert (Epsi : psi = atan2 (- by_) bx) by (unfold psi, bx, by_; f_equal; field; lra).
  assert (Nb : bx*bx + - by_ * - by_ = cd*cd).
  { pose proof (detilt_norm (cos phi) (sin phi) (cos theta) (sin theta) mx my mz ltac:(lra) ltac:(lra)) as N. cbv zeta in N.
    fold bx by_ in N.
    assert (S : - sin theta * mx + cos theta * sin phi * my + cos theta * cos phi * mz = sd).
    { rewrite <- Dm. rewrite Pay, Paz, Prho. replace (- sin theta) with ax by lra. ring. }
    rewrite S, Um in N. lra. }
  destruct (atan2_polar0 bx (- by_)) as [Pbx Pby]. rewrite <- Epsi, Nb, (sqrt_square cd) in Pbx, Pby by lra.
  (* the algebra of the half angles *)
  pose proof (sin2_cos2 (1/2*phi)) as Hr. pose proof (sin2_cos2 (1/2*theta)) as Hp. pose proof (sin2_cos2 (1/2*psi)) as Hy.
  unfold Rsqr in Hr, Hp, Hy.
  destruct (tilt_algebra (cos (1/2*phi)) (sin (1/2*phi)) (cos (1/2*theta)) (sin (1/2*theta)) (cos (1/2*psi)) (sin (1/2*psi))
              ax ay az mx my mz cd sd) as (U & M6 & M7 & M8 & N0 & N1 & N2); try lra.
  - rewrite <- sin_half2. lra.
  - rewrite <- cos_half2, <- sin_half2. rewrite Pay, Prho. ring.
  - rewrite <- !cos_half2. rewrite Paz, Prho. ring.
  - rewrite <- !cos_half2, <- !sin_half2. fold bx. lra.
  - rewrite <- !cos_half2, <- !sin_half2. fold by_. lra.
  - exists (euler_q (cos (1/2*phi)) (sin (1/2*phi)) (cos (1/2*theta)) (sin (1/2*theta)) (cos (1/2*psi)) (sin (1/2*psi))).
    split; [apply Val_inj; cbv [euler_q]; list_eq; ring|]. split; [exact U|].
    cbv [euler_q] in *.
    assert (P1 := U). cbv [qnorm2 e nth] in P1.
    refine (rspec_from_two _ _ _ _ w x y z cd sd P1 Hq' _ _ _ _ _ _ _); [lra|..].
    + rewrite M6. reflexivity.
    + rewrite M7. reflexivity.
    + rewrite M8. cbv [Rspec e nth]. unfold az. ring.
    + rewrite N0. cbv [Rspec e nth]. unfold mx, ax. ring.
    + rewrite N1. cbv [Rspec e nth]. unfold my, ay. ring.
    + rewrite N2. cbv [Rspec e nth]. unfold mz, az. ring.
Qed.
