(* C04.v — property C04: single-frame estimators recover the attitude exactly from consistent data.
   Only statements, each closed by `exact`-style glue, each followed by Print Assumptions.
   Inputs of every regenerated target: the attitude q = (w,x,y,z), the two scalings sa, sm of the measured vectors,
   and (cd, sd) = (cos, sin) of the magnetic dip.  Inside each target the measurements are the symbolic images
   acc = sa * M g_ref, mag = sm * M m_ref (M = Rspec q or its transpose, as that estimator documents) and the
   estimator's public entry point of /repo is run on them. *)
From Coq Require Import Reals List Lra.
From AhrsLib Require Import Base Rot.
From AhrsGen Require Import C04gen_R.
From AhrsProps Require Import C04_tac C04_matrix C04_eigen C04_closed C04_decl C04_tilt.
Import ListNotations.
Open Scope R_scope.

(* ---- singularity-free class: every unit quaternion, every dip in (-90, 90) degrees, all positive scalings ---- *)

(* TRIAD (estimate with NED-style and ENU-style magnetic reference, and the constructor path): A = Rspec(q)^T *)
Theorem C04_triad_exact : forall w x y z sa sm cd sd,
  w*w + x*x + y*y + z*z = 1 -> cd*cd + sd*sd = 1 -> 0 < cd -> 0 < sa -> 0 < sm ->
  C04_triad_NED_R w x y z sa sm cd sd = Val (mtr3 (Rspec [w;x;y;z])) /\
  C04_triad_ENU_R w x y z sa sm cd sd = Val (mtr3 (Rspec [w;x;y;z])) /\
  C04_triad_ctor_R w x y z sa sm cd sd = Val (mtr3 (Rspec [w;x;y;z])).
Proof.
  intros w x y z sa sm cd sd Hq Hd Hc Ha Hm.
  split; [exact (triad_NED_exact w x y z sa sm cd sd Hq (conj Hd Hc) Ha Hm)|].
  split; [exact (triad_ENU_exact w x y z sa sm cd sd Hq (conj Hd Hc) Ha Hm)|].
  exact (triad_ctor_exact w x y z sa sm cd sd Hq (conj Hd Hc) Ha Hm).
Qed.
Print Assumptions C04_triad_exact.

(* TRIAD with a magnetic reference that has an East component (declination (ce,se): v2 = (cd ce, cd se, sd)), and the
   second estimate of ONE object whose v1, v2 were re-assigned (ENU-style pair first, then this pair): A = Rspec(q)^T *)
Theorem C04_triad_declination_and_reuse_exact : forall w x y z sa sm cd sd ce se,
  w*w + x*x + y*y + z*z = 1 -> cd*cd + sd*sd = 1 -> 0 < cd -> ce*ce + se*se = 1 -> 0 < sa -> 0 < sm ->
  C04_triad_decl_R w x y z sa sm cd sd ce se = Val (mtr3 (Rspec [w;x;y;z])) /\
  C04_triad_reuse_R w x y z sa sm cd sd ce se = Val (mtr3 (Rspec [w;x;y;z])).
Proof.
  intros w x y z sa sm cd sd ce se Hq Hd Hc He Ha Hm.
  split; [exact (triad_decl_exact w x y z sa sm cd sd ce se Hq (conj Hd Hc) He Ha Hm)|].
  exact (triad_reuse_exact w x y z sa sm cd sd ce se Hq (conj Hd Hc) He Ha Hm).
Qed.
Print Assumptions C04_triad_declination_and_reuse_exact.

(* ecompass, matrix form, both frames: the rotation matrix of q itself *)
Theorem C04_ecompass_exact : forall w x y z sa sm cd sd,
  w*w + x*x + y*y + z*z = 1 -> cd*cd + sd*sd = 1 -> 0 < cd -> 0 < sa -> 0 < sm ->
  C04_ecompass_NED_R w x y z sa sm cd sd = Val (Rspec [w;x;y;z]) /\
  C04_ecompass_ENU_R w x y z sa sm cd sd = Val (Rspec [w;x;y;z]).
Proof.
  intros w x y z sa sm cd sd Hq Hd Hc Ha Hm.
  split; [exact (ecompass_NED_exact w x y z sa sm cd sd Hq (conj Hd Hc) Ha Hm)|].
  exact (ecompass_ENU_exact w x y z sa sm cd sd Hq (conj Hd Hc) Ha Hm).
Qed.
Print Assumptions C04_ecompass_exact.

(* am2DCM, both frames (gravity reference up for ENU, down for NED): Rspec(q)^T *)
Theorem C04_am2DCM_exact : forall w x y z sa sm cd sd,
  w*w + x*x + y*y + z*z = 1 -> cd*cd + sd*sd = 1 -> 0 < cd -> 0 < sa -> 0 < sm ->
  C04_am2DCM_ENU_R w x y z sa sm cd sd = Val (mtr3 (Rspec [w;x;y;z])) /\
  C04_am2DCM_NED_R w x y z sa sm cd sd = Val (mtr3 (Rspec [w;x;y;z])).
Proof.
  intros w x y z sa sm cd sd Hq Hd Hc Ha Hm.
  split; [exact (am2DCM_ENU_exact w x y z sa sm cd sd Hq (conj Hd Hc) Ha Hm)|].
  exact (am2DCM_NED_exact w x y z sa sm cd sd Hq (conj Hd Hc) Ha Hm).
Qed.
Print Assumptions C04_am2DCM_exact.

(* the matrices returned above are proper rotations *)
Theorem C04_matrix_outputs_SO3 : forall w x y z, w*w + x*x + y*y + z*z = 1 ->
  SO3 (Rspec [w;x;y;z]) /\ SO3 (mtr3 (Rspec [w;x;y;z])).
Proof. intros w x y z H. split; [exact (Rspec_SO3 w x y z H)|exact (SO3_tr _ (Rspec_SO3 w x y z H))]. Qed.
Print Assumptions C04_matrix_outputs_SO3.

(* Tilt.estimate (quaternion form): a unit quaternion with the rotation matrix of q — for EVERY unit q (level, inverted,
   vertical, half-turn poses included: atan2 at the origin and the gimbal-lock pitch +-pi/2 are covered), every dip in
   (-90,90) deg, all positive scalings *)
Theorem C04_tilt_exact : forall w x y z sa sm cd sd,
  w*w + x*x + y*y + z*z = 1 -> cd*cd + sd*sd = 1 -> 0 < cd -> 0 < sa -> 0 < sm ->
  exists l, C04_tilt_q_R w x y z sa sm cd sd = Val l /\ qnorm2 l = 1 /\ Rspec l = Rspec [w;x;y;z].
Proof.
  intros w x y z sa sm cd sd Hq Hd Hc Ha Hm. exact (tilt_q_exact w x y z sa sm cd sd Hq (conj Hd Hc) Ha Hm).
Qed.
Print Assumptions C04_tilt_exact.

(* ---- eigen-decomposition class: the matrix handed to LAPACK ---------------------------------------------- *)

(* Davenport (weights 1,1; gravity 1): K is symmetric and K q = (sa + sm) q — for all reals sa, sm, any dip *)
Theorem C04_davenport_K_eigen : forall w x y z sa sm cd sd,
  w*w + x*x + y*y + z*z = 1 -> cd*cd + sd*sd = 1 ->
  exists K, C04_davenport_K_R w x y z sa sm cd sd = Val K /\ length K = 16%nat /\ mtr4 K = K /\
            mvec4 K [w;x;y;z] = qscale (sa + sm) [w;x;y;z].
Proof. exact davenport_K_eigen. Qed.
Print Assumptions C04_davenport_K_eigen.

(* FLAE (weights 1/2,1/2): W is symmetric and W q = q (eigenvalue 1 = sum of the weights) *)
Theorem C04_flae_W_eigen : forall w x y z sa sm cd sd,
  w*w + x*x + y*y + z*z = 1 -> cd*cd + sd*sd = 1 -> 0 < sa -> 0 < sm ->
  exists W, C04_flae_W_R w x y z sa sm cd sd = Val W /\ length W = 16%nat /\ mtr4 W = W /\
            mvec4 W [w;x;y;z] = [w;x;y;z].
Proof. exact flae_W_eigen. Qed.
Print Assumptions C04_flae_W_eigen.

(* the same two eigen-equations with a magnetic reference turned by a declination *)
Theorem C04_davenport_flae_declination_eigen : forall w x y z sa sm cd sd ce se,
  w*w + x*x + y*y + z*z = 1 -> cd*cd + sd*sd = 1 -> ce*ce + se*se = 1 -> 0 < sa -> 0 < sm ->
  (exists K, C04_davenport_K_decl_R w x y z sa sm cd sd ce se = Val K /\ length K = 16%nat /\ mtr4 K = K /\
             mvec4 K [w;x;y;z] = qscale (sa + sm) [w;x;y;z]) /\
  (exists W, C04_flae_W_decl_R w x y z sa sm cd sd ce se = Val W /\ length W = 16%nat /\ mtr4 W = W /\
             mvec4 W [w;x;y;z] = [w;x;y;z]).
Proof.
  intros w x y z sa sm cd sd ce se Hq Hd He Ha Hm.
  split; [exact (davenport_K_decl_eigen w x y z sa sm cd sd ce se Hq Hd He)|].
  exact (flae_W_decl_eigen w x y z sa sm cd sd ce se Hq Hd He Ha Hm).
Qed.
Print Assumptions C04_davenport_flae_declination_eigen.

(* relative to the contract of the symmetric eigen-solver.  PARTIAL: that the eigenvalue exhibited above is the
   largest one and simple is a premise here (explored numerically by the search oracle), not proved. *)
Section EigSym.
  Variable top_eigvec : list R -> list R.         (* what `v[:, argmax(w)]` of np.linalg.eigh selects *)
  Hypothesis eig_sym : forall K v lam, length K = 16%nat -> mtr4 K = K -> qnorm2 v = 1 -> length v = 4%nat ->
    mvec4 K v = qscale lam v ->
    (forall u mu, qnorm2 u = 1 -> length u = 4%nat -> mvec4 K u = qscale mu u -> mu < lam \/ (u = v \/ u = qneg v)) ->
    top_eigvec K = v \/ top_eigvec K = qneg v.

  Theorem C04_davenport_exact_partial : forall w x y z sa sm cd sd K,
    w*w + x*x + y*y + z*z = 1 -> cd*cd + sd*sd = 1 ->
    C04_davenport_K_R w x y z sa sm cd sd = Val K ->
    (forall u mu, qnorm2 u = 1 -> length u = 4%nat -> mvec4 K u = qscale mu u ->
                  mu < sa + sm \/ (u = [w;x;y;z] \/ u = qneg [w;x;y;z])) ->
    top_eigvec K = [w;x;y;z] \/ top_eigvec K = qneg [w;x;y;z].
  Proof.
    intros w x y z sa sm cd sd K Hq Hd HK Hmax.
    destruct (davenport_K_eigen w x y z sa sm cd sd Hq Hd) as (K' & E & L & Sy & Ev).
    rewrite HK in E. injection E as <-.
    apply (eig_sym K [w;x;y;z] (sa + sm) L Sy); [cbv [qnorm2 e nth]; exact Hq|reflexivity|exact Ev|exact Hmax].
  Qed.
End EigSym.
Print Assumptions C04_davenport_exact_partial.

(* ---- closed-form class, general position ------------------------------------------------------------------ *)

(* SAAM returns the conjugate of q (up to the sign of the whole quaternion): it holds the inverse convention *)
Theorem C04_saam_exact : forall w x y z sa sm cd sd,
  w*w + x*x + y*y + z*z = 1 ->
  1/20 <= Rabs w -> 1/20 <= Rabs x -> 1/20 <= Rabs y -> 1/20 <= Rabs z ->
  cd*cd + sd*sd = 1 -> 0 < cd -> 0 < sa -> 0 < sm ->
  exists l, C04_saam_R w x y z sa sm cd sd = Val l /\ (l = [w; -x; -y; -z] \/ l = [-w; - - x; - - y; - - z]).
Proof.
  intros w x y z sa sm cd sd Hq Hw Hx Hy Hz Hd Hc Ha Hm.
  exact (saam_exact w x y z sa sm cd sd (conj Hq (conj Hw (conj Hx (conj Hy Hz)))) (conj Hd Hc) Ha Hm).
Qed.
Print Assumptions C04_saam_exact.

(* ... and so does the vectorised copy of the formula used by the N-sample constructor SAAM(acc, mag).Q *)
Theorem C04_saam_vectorised_exact : forall w x y z sa sm cd sd,
  w*w + x*x + y*y + z*z = 1 ->
  1/20 <= Rabs w -> 1/20 <= Rabs x -> 1/20 <= Rabs y -> 1/20 <= Rabs z ->
  cd*cd + sd*sd = 1 -> 0 < cd -> 0 < sa -> 0 < sm ->
  exists l, C04_saam_vec_R w x y z sa sm cd sd = Val l /\ (l = [w; -x; -y; -z] \/ l = [-w; - - x; - - y; - - z]).
Proof.
  intros w x y z sa sm cd sd Hq Hw Hx Hy Hz Hd Hc Ha Hm.
  exact (saam_vec_exact w x y z sa sm cd sd (conj Hq (conj Hw (conj Hx (conj Hy Hz)))) (conj Hd Hc) Ha Hm).
Qed.
Print Assumptions C04_saam_vectorised_exact.

(* the hypotheses are inhabited by a non-trivial attitude in general position, dip = atan(4/3), unequal scalings *)
Example C04_nonvacuous :
  (1/2)*(1/2) + (1/2)*(1/2) + (1/2)*(1/2) + (1/2)*(1/2) = 1 /\ 1/20 <= Rabs (1/2) /\
  (3/5)*(3/5) + (4/5)*(4/5) = 1 /\ 0 < 3/5 /\ 0 < 2 /\ 0 < 1/3 /\
  Rspec [1/2;1/2;1/2;1/2] = [0;0;1; 1;0;0; 0;1;0].
Proof.
  split; [lra|]. split; [rewrite Rabs_right; lra|]. split; [lra|]. split; [lra|]. split; [lra|]. split; [lra|].
  unfold_rot. list_eq; lra.
Qed.
