(* C04_decl.v — references with a non-zero East component (a magnetic declination: the reference turned about the
   vertical by (ce, se) = (cos, sin) of the declination), and re-use of one TRIAD object after its references were
   re-assigned.  Same proof scheme as C04_matrix.v / C04_eigen.v with one more unit hypothesis. *)
From Coq Require Import Reals List Lra.
From AhrsLib Require Import Base Rot.
From AhrsGen Require Import C04gen_R.
From AhrsProps Require Import C04_tac.
Import ListNotations.
Open Scope R_scope.

Ltac setupd := intros Hq [Hd Hc] He Hsa Hsm; unfold unit4 in Hq; cbv zeta; orient_unit.

Lemma triad_decl_exact w x y z sa sm cd sd ce se : unit4 w x y z -> dip cd sd -> ce*ce + se*se = 1 -> 0 < sa -> 0 < sm ->
  C04_triad_decl_R w x y z sa sm cd sd ce se = Val (mtr3 (Rspec [w;x;y;z])).
Proof.
  unfold C04_triad_decl_R. setupd.
  roots sa sm cd. gate_ne 1. unfold_rot. val_eq. all: fring.
Qed.

(* second estimate of one object whose v1, v2 were re-assigned after a first estimate under other references *)
Lemma triad_reuse_exact w x y z sa sm cd sd ce se : unit4 w x y z -> dip cd sd -> ce*ce + se*se = 1 -> 0 < sa -> 0 < sm ->
  C04_triad_reuse_R w x y z sa sm cd sd ce se = Val (mtr3 (Rspec [w;x;y;z])).
Proof.
  unfold C04_triad_reuse_R. setupd.
  roots sa sm cd. gate_ne 1. unfold_rot. val_eq. all: fring.
Qed.

Lemma davenport_K_decl_eigen w x y z sa sm cd sd ce se : unit4 w x y z -> cd*cd + sd*sd = 1 -> ce*ce + se*se = 1 ->
  exists K, C04_davenport_K_decl_R w x y z sa sm cd sd ce se = Val K /\ length K = 16%nat /\ mtr4 K = K /\
            mvec4 K [w;x;y;z] = qscale (sa + sm) [w;x;y;z].
Proof.
  unfold unit4, C04_davenport_K_decl_R. intros Hq Hd He. cbv zeta. eexists. split; [reflexivity|].
  split; [reflexivity|]. split; [cbv [mtr4 e nth]; list_eq; ring|].
  orient_unit. cbv [mvec4 qscale e nth]. list_eq. all: hring.
Qed.

Lemma flae_W_decl_eigen w x y z sa sm cd sd ce se : unit4 w x y z -> cd*cd + sd*sd = 1 -> ce*ce + se*se = 1 -> 0 < sa -> 0 < sm ->
  exists W, C04_flae_W_decl_R w x y z sa sm cd sd ce se = Val W /\ length W = 16%nat /\ mtr4 W = W /\
            mvec4 W [w;x;y;z] = [w;x;y;z].
Proof.
  unfold unit4, C04_flae_W_decl_R. intros Hq Hd He Hsa Hsm. cbv zeta. orient_unit.
  roots sa sm cd. gate_ne sa. gate_ne sm.
  eexists. split; [reflexivity|].
  split; [reflexivity|]. split; [cbv [mtr4 e nth]; list_eq; ring|].
  cbv [mvec4 e nth]. list_eq.
  all: (field_simplify_eq; [hring|lra..]).
Qed.
