(* C04_refuted_triad_dip.v — witness, inside the regenerated model, of the finding "triad_dip_NED/raises-TypeError"
   (fix proposal /verif/fixes/C04-triad-float-dip.patch).  Once the guard accepts a float dip this file stops
   compiling and the run treats the finding as repaired. *)
From Coq Require Import Reals List Lra.
From AhrsLib Require Import Base Rot.
From AhrsGen Require Import C04gen_R.
Import ListNotations.
Open Scope R_scope.

(* TRIAD(v2=60.0): the documented float-dip form of the second reference is rejected by the vector guard, for
   every attitude and every measurement *)
Theorem C04_triad_float_dip_refuted : forall w x y z sa sm cd sd,
  C04_triad_dip_R w x y z sa sm cd sd = Raise TypeError.
Proof. intros. reflexivity. Qed.
Print Assumptions C04_triad_float_dip_refuted.
